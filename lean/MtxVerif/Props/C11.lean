/-
C11 — configuration copies are independent.  Property theorems.

Full statement (`clone_independent_full`): for every type tree, every value of that type and every
cell reachable from `Clone()`'s result, a write into that cell leaves the original unchanged.
It is FALSE for the current `deepClone` (no `reflect.Interface` case): `clone_independent_witness`.
`clone_independent_partial` proves it for every type tree satisfying the decidable side condition
`noUnhandled`; the driver evaluates that condition on the type trees of `conf.Conf` / `conf.Path`
obtained by reflection on every run.  With an Interface case (`ci = true`) the side condition only
excludes chan/func/unsafe.Pointer (`clone_independent_fixed`).
-/
import MtxVerif.Lemmas.C11Heap
import MtxVerif.Gen.C11

namespace MtxVerif.C11

/-- writes into any cell reachable from the copy (root cell included) do not change the original -/
def IndependentAt (ci : Bool) (v : V) (n : Nat) : Prop :=
  ∀ l ∈ locs (cloneRoot ci v n).1, ∀ (fp : V → V) (fs : Vs → Vs), mutate l fp fs v = v

def Independent (ci : Bool) (t : Ty) : Prop :=
  ∀ v n, hasTy v t = true → Below n v → IndependentAt ci v n

/-- **C11 at full strength**: copies of values of every type are independent. -/
def clone_independent_full (ci : Bool) : Prop := ∀ t, Independent ci t

/-! #### freshness of the copy -/

mutual
theorem clone_fresh (ci : Bool) : ∀ (v : V) (n : Nat), clonable ci v = true →
    n ≤ (clone ci v n).2 ∧ ∀ l ∈ locs (clone ci v n).1, n ≤ l ∧ l < (clone ci v n).2
  | .atom a, n, _ => by simp [clone, locs]
  | .ptr l p, n, h => by
    have ih := clone_fresh ci p (n + 1) (by simpa [clonable] using h)
    simp only [clone, locs]
    refine ⟨by omega, ?_⟩
    intro x hx
    rcases List.mem_cons.mp hx with rfl | hx
    · omega
    · have := ih.2 x hx; omega
  | .slice l es, n, h => by
    have ih := cloneS_fresh ci es (n + 1) (by simpa [clonable] using h)
    simp only [clone, locs]
    refine ⟨by omega, ?_⟩
    intro x hx
    rcases List.mem_cons.mp hx with rfl | hx
    · omega
    · have := ih.2 x hx; omega
  | .map l es, n, h => by
    have ih := cloneS_fresh ci es (n + 1) (by simpa [clonable] using h)
    simp only [clone, locs]
    refine ⟨by omega, ?_⟩
    intro x hx
    rcases List.mem_cons.mp hx with rfl | hx
    · omega
    · have := ih.2 x hx; omega
  | .struct fs, n, h => by
    have ih := cloneF_fresh ci fs n (by simpa [clonable] using h)
    simpa only [clone, locs] using ih
  | .iface v, n, h => by
    cases ci with
    | true =>
      have ih := clone_fresh true v n (by simpa [clonable] using h)
      simpa [clone, locs] using ih
    | false =>
      have : locs v = [] := by simpa [clonable] using h
      simp [clone, locs, this]
  | .other l, n, h => by simp [clonable] at h
theorem cloneS_fresh (ci : Bool) : ∀ (vs : Vs) (n : Nat), clonableS ci vs = true →
    n ≤ (cloneS ci vs n).2 ∧ ∀ l ∈ locsS (cloneS ci vs n).1, n ≤ l ∧ l < (cloneS ci vs n).2
  | .nil, n, _ => by simp [cloneS, locsS]
  | .cons f k hd tl, n, h => by
    have h' : clonable ci hd = true ∧ clonableS ci tl = true := by simpa [clonableS] using h
    have ih1 := clone_fresh ci hd n h'.1
    have ih2 := cloneS_fresh ci tl (clone ci hd n).2 h'.2
    simp only [cloneS, locsS]
    refine ⟨by omega, ?_⟩
    intro x hx
    rcases List.mem_append.mp hx with hx | hx
    · have := ih1.2 x hx; omega
    · have := ih2.2 x hx; omega
theorem cloneF_fresh (ci : Bool) : ∀ (vs : Vs) (n : Nat), clonableF ci vs = true →
    n ≤ (cloneF ci vs n).2 ∧ ∀ l ∈ locsS (cloneF ci vs n).1, n ≤ l ∧ l < (cloneF ci vs n).2
  | .nil, n, _ => by simp [cloneF, locsS]
  | .cons f k hd tl, n, h => by
    cases f with
    | true =>
      have h' : clonable ci hd = true ∧ clonableF ci tl = true := by simpa [clonableF] using h
      have ih1 := clone_fresh ci hd n h'.1
      have ih2 := cloneF_fresh ci tl (clone ci hd n).2 h'.2
      simp only [cloneF, locsS, if_true]
      refine ⟨by omega, ?_⟩
      intro x hx
      rcases List.mem_append.mp hx with hx | hx
      · have := ih1.2 x hx; omega
      · have := ih2.2 x hx; omega
    | false =>
      have h' : clonableF ci tl = true := by simpa [clonableF] using h
      have ih2 := cloneF_fresh ci tl n h'
      simpa [cloneF, locsS, locs] using ih2
end

/-- every cell of `Clone()`'s result (root included) is new -/
theorem cloneRoot_fresh (ci : Bool) (v : V) (n : Nat) (h : clonable ci v = true) :
    ∀ l ∈ locs (cloneRoot ci v n).1, n ≤ l := by
  intro l hl
  simp only [cloneRoot, locs] at hl
  rcases List.mem_cons.mp hl with rfl | hl
  · omega
  · have := (clone_fresh ci v (n + 1) h).2 l hl; omega

/-- value-level independence -/
theorem clone_independent_val (ci : Bool) (v : V) (n : Nat) (hc : clonable ci v = true) (hb : Below n v) :
    IndependentAt ci v n := by
  intro l hl fp fs
  apply mutate_noop
  intro hin
  have h1 := cloneRoot_fresh ci v n hc l hl
  have h2 := hb l hin
  omega

/-! #### from the type tree to values -/

mutual
theorem refFree_locs : ∀ (v : V) (t : Ty), refFree t = true → hasTy v t = true → locs v = []
  | .atom a, _, _, _ => by simp [locs]
  | .ptr l p, t, hr, ht => by cases t <;> simp [hasTy, refFree] at hr ht
  | .slice l es, t, hr, ht => by cases t <;> simp [hasTy, refFree] at hr ht
  | .map l es, t, hr, ht => by cases t <;> simp [hasTy, refFree] at hr ht
  | .struct fs, t, hr, ht => by
    cases t <;> simp [hasTy, refFree] at hr ht
    rename_i ts
    simpa [locs] using refFreeS_locs fs ts hr ht
  | .iface v, t, hr, ht => by
    cases t <;> simp [hasTy, refFree] at hr ht
    rename_i d
    simpa [locs] using refFree_locs v d hr ht
  | .other l, t, hr, ht => by cases t <;> simp [hasTy, refFree] at hr ht
theorem refFreeS_locs : ∀ (vs : Vs) (ts : Tys), refFreeS ts = true → fieldsTy vs ts = true → locsS vs = []
  | .nil, _, _, _ => by simp [locsS]
  | .cons f k hd tl, ts, hr, ht => by
    cases ts with
    | nil => simp [fieldsTy] at ht
    | cons s t ts' =>
      simp only [refFreeS, Bool.and_eq_true] at hr
      obtain ⟨⟨hs, hrt⟩, hrs⟩ := hr
      subst hs
      simp only [fieldsTy, if_true, Bool.and_eq_true] at ht
      simp [locsS, refFree_locs hd t hrt ht.1.2, refFreeS_locs tl ts' hrs ht.2]
end

mutual
theorem hasTy_clonable (ci : Bool) : ∀ (v : V) (t : Ty), noUnhandled ci t = true → hasTy v t = true →
    clonable ci v = true
  | .atom a, _, _, _ => by simp [clonable]
  | .ptr l p, t, hn, ht => by
    cases t <;> simp [hasTy] at ht
    rename_i t'
    simpa [clonable] using hasTy_clonable ci p t' (by simpa [noUnhandled] using hn) ht
  | .slice l es, t, hn, ht => by
    cases t <;> simp [hasTy] at ht
    rename_i t'
    simpa [clonable] using allTy_clonable ci es t' (by simpa [noUnhandled] using hn) ht
  | .map l es, t, hn, ht => by
    cases t <;> simp [hasTy] at ht
    rename_i t'
    simpa [clonable] using allTy_clonable ci es t' (by simpa [noUnhandled] using hn) ht
  | .struct fs, t, hn, ht => by
    cases t <;> simp [hasTy] at ht
    rename_i ts
    simpa [clonable] using fieldsTy_clonable ci fs ts (by simpa [noUnhandled] using hn) ht
  | .iface v, t, hn, ht => by
    cases t <;> simp [hasTy] at ht
    rename_i d
    cases ci with
    | true => simpa [clonable] using hasTy_clonable true v d (by simpa [noUnhandled] using hn) ht
    | false =>
      have := refFree_locs v d (by simpa [noUnhandled] using hn) ht
      simp [clonable, this]
  | .other l, t, hn, ht => by cases t <;> simp [hasTy, noUnhandled] at hn ht
theorem allTy_clonable (ci : Bool) : ∀ (vs : Vs) (t : Ty), noUnhandled ci t = true → allTy vs t = true →
    clonableS ci vs = true
  | .nil, _, _, _ => by simp [clonableS]
  | .cons f k hd tl, t, hn, ht => by
    simp only [allTy, Bool.and_eq_true] at ht
    simp [clonableS, hasTy_clonable ci hd t hn ht.1, allTy_clonable ci tl t hn ht.2]
theorem fieldsTy_clonable (ci : Bool) : ∀ (vs : Vs) (ts : Tys), noUnhandledS ci ts = true → fieldsTy vs ts = true →
    clonableF ci vs = true
  | .nil, _, _, _ => by simp [clonableF]
  | .cons f k hd tl, ts, hn, ht => by
    cases ts with
    | nil => simp [fieldsTy] at ht
    | cons s t ts' =>
      simp only [noUnhandledS, Bool.and_eq_true] at hn
      simp only [fieldsTy, Bool.and_eq_true, beq_iff_eq] at ht
      obtain ⟨⟨hfs, hty⟩, hrest⟩ := ht
      subst hfs
      have ih := fieldsTy_clonable ci tl ts' hn.2 hrest
      cases f with
      | true => simp [clonableF, ih, hasTy_clonable ci hd t (by simpa using hn.1) (by simpa using hty)]
      | false => simp [clonableF, ih]
end

/-- **C11 under the decidable side condition**: for every type tree on which every reference reachable
through settable fields has a kind handled by `deepClone`, all values, all allocator states, all cells of
the copy, all writes: the original is unchanged. -/
theorem clone_independent_partial (ci : Bool) (t : Ty) (h : noUnhandled ci t = true) : Independent ci t :=
  fun v n hty hb => clone_independent_val ci v n (hasTy_clonable ci v t h hty) hb

/-! #### the current code (no Interface case) violates the full statement -/

/-- shape of `OptionalPath{Values any}` holding `*struct{Source *string}` -/
def witnessTy : Ty := .struct (.cons true (.iface (.ptr (.struct (.cons true (.ptr .scalar) .nil)))) .nil)
def witnessV : V :=
  .struct (.cons true 0 (.iface (.ptr 0 (.struct (.cons true 0 (.ptr 1 (.atom (.scalar 7))) .nil)))) .nil)

theorem clone_independent_witness : ¬ clone_independent_full false := by
  intro h
  have hw := h witnessTy witnessV 2 (by decide) (by intro l hl; simp [witnessV, locs, locsS] at hl; omega)
    1 (by simp [witnessV, cloneRoot, clone, cloneF, locs, locsS]) (fun _ => .atom (.scalar 8)) id
  simp [witnessV, mutate, mutateS] at hw

/-- the same witness is not in the class covered by the partial theorem -/
example : noUnhandled false witnessTy = false := by decide
/-- and it is covered once interfaces are cloned through -/
example : noUnhandled true witnessTy = true := by decide

mutual
/-- no chan / func / unsafe.Pointer reachable through settable fields -/
def noOther : Ty → Bool
  | .scalar => true
  | .ptr t => noOther t
  | .slice t => noOther t
  | .map t => noOther t
  | .struct fs => noOtherS fs
  | .iface d => noOther d
  | .other => false
def noOtherS : Tys → Bool
  | .nil => true
  | .cons s t tl => (if s then noOther t else true) && noOtherS tl
end

mutual
theorem noOther_noUnhandled : ∀ t : Ty, noOther t = true → noUnhandled true t = true
  | .scalar, _ => by simp [noUnhandled]
  | .ptr t, h => by simpa [noUnhandled] using noOther_noUnhandled t (by simpa [noOther] using h)
  | .slice t, h => by simpa [noUnhandled] using noOther_noUnhandled t (by simpa [noOther] using h)
  | .map t, h => by simpa [noUnhandled] using noOther_noUnhandled t (by simpa [noOther] using h)
  | .struct fs, h => by simpa [noUnhandled] using noOtherS_noUnhandledS fs (by simpa [noOther] using h)
  | .iface d, h => by simpa [noUnhandled] using noOther_noUnhandled d (by simpa [noOther] using h)
  | .other, h => by simp [noOther] at h
theorem noOtherS_noUnhandledS : ∀ ts : Tys, noOtherS ts = true → noUnhandledS true ts = true
  | .nil, _ => by simp [noUnhandledS]
  | .cons s t tl, h => by
    simp only [noOtherS, Bool.and_eq_true] at h
    have ih := noOtherS_noUnhandledS tl h.2
    cases s with
    | true => simp [noUnhandledS, ih, noOther_noUnhandled t (by simpa using h.1)]
    | false => simp [noUnhandledS, ih]
end

/-- **C11 for a `deepClone` with an Interface case**: holds for every type tree without
chan/func/unsafe.Pointer — pointers, slices, maps, structs, interfaces nested in any way. -/
theorem clone_independent_fixed (t : Ty) (h : noOther t = true) : Independent true t :=
  clone_independent_partial true t (noOther_noUnhandled t h)

/-! #### "therefore a rejected API edit leaves the running configuration untouched" -/

/-- An edit works on the copy: every write goes to a cell of the copy or to a cell allocated after the
copy was made.  Whatever it writes, and whether or not it is then rejected, the original is unchanged. -/
theorem rejected_edit_noop (ci : Bool) (t : Ty) (h : noUnhandled ci t = true) (v : V) (n : Nat)
    (hty : hasTy v t = true) (hb : Below n v) (ws : List (Nat × (V → V) × (Vs → Vs)))
    (hws : ∀ w ∈ ws, w.1 ∈ locs (cloneRoot ci v n).1 ∨ (cloneRoot ci v n).2 ≤ w.1) :
    applyWrites ws v = v := by
  have hc := hasTy_clonable ci v t h hty
  have hmono : n + 1 ≤ (cloneRoot ci v n).2 := (clone_fresh ci v (n + 1) hc).1
  induction ws with
  | nil => rfl
  | cons w ws ih =>
    have hw : mutate w.1 w.2.1 w.2.2 v = v := by
      apply mutate_noop
      intro hin
      have hlt := hb _ hin
      rcases hws w List.mem_cons_self with hl | hl
      · have := cloneRoot_fresh ci v n hc _ hl; omega
      · omega
    simp only [applyWrites, List.foldl_cons, hw]
    exact ih (fun w' hw' => hws w' (List.mem_cons_of_mem _ hw'))

/-! #### the copy is equal to the original up to locations (non-settable fields zeroed) -/

mutual
theorem clone_equal (ci : Bool) : ∀ (v : V) (n : Nat), erase (clone ci v n).1 = erase (zeroU ci v)
  | .atom a, n => by simp [clone, zeroU, erase]
  | .ptr l p, n => by simp [clone, zeroU, erase, clone_equal ci p (n + 1)]
  | .slice l es, n => by simp [clone, zeroU, erase, cloneS_equal ci es (n + 1)]
  | .map l es, n => by simp [clone, zeroU, erase, cloneS_equal ci es (n + 1)]
  | .struct fs, n => by simp [clone, zeroU, erase, cloneF_equal ci fs n]
  | .iface v, n => by
    cases ci with
    | true => simp [clone, zeroU, erase, clone_equal true v n]
    | false => simp [clone, zeroU, erase]
  | .other l, n => by simp [clone, zeroU, erase]
theorem cloneS_equal (ci : Bool) : ∀ (vs : Vs) (n : Nat), eraseS (cloneS ci vs n).1 = eraseS (zeroUS ci vs)
  | .nil, n => by simp [cloneS, zeroUS, eraseS]
  | .cons f k hd tl, n => by
    simp [cloneS, zeroUS, eraseS, clone_equal ci hd n, cloneS_equal ci tl (clone ci hd n).2]
theorem cloneF_equal (ci : Bool) : ∀ (vs : Vs) (n : Nat), eraseS (cloneF ci vs n).1 = eraseS (zeroUF ci vs)
  | .nil, n => by simp [cloneF, zeroUF, eraseS]
  | .cons f k hd tl, n => by
    cases f with
    | true => simp [cloneF, zeroUF, eraseS, clone_equal ci hd n, cloneF_equal ci tl (clone ci hd n).2]
    | false => simp [cloneF, zeroUF, eraseS, erase, cloneF_equal ci tl n]
end

/-! #### the driver's prediction of the harness' mutation test -/

mutual
theorem slots_owner (ro : Bool) (own : Nat) (path : String) : ∀ v : V,
    ∀ s ∈ slots ro own path v, s.2 = own ∨ s.2 ∈ locs v
  | .atom a, s, hs => by
    cases ro <;> simp [slots] at hs
    simp [hs]
  | .ptr l p, s, hs => by
    simp only [slots, List.mem_append] at hs
    rcases hs with hs | hs
    · cases ro <;> simp at hs
      simp [hs]
    · rcases slots_owner false l (path ++ "*") p s hs with h | h
      · simp [locs, h]
      · simp [locs, h]
  | .slice l es, s, hs => by
    simp only [slots, List.mem_append] at hs
    rcases hs with hs | hs
    · cases ro <;> simp at hs
      simp [hs]
    · rcases slotsE_owner l path 0 es s hs with h | h
      · simp [locs, h]
      · simp [locs, h]
  | .map l es, s, hs => by
    simp only [slots, List.mem_append, List.mem_cons] at hs
    rcases hs with hs | hs | hs
    · cases ro <;> simp at hs
      simp [hs]
    · simp [locs, hs]
    · rcases slotsK_owner l path 0 es s hs with h | h
      · simp [locs, h]
      · simp [locs, h]
  | .struct fs, s, hs => by
    simpa [slots, locs] using slotsF_owner ro own path fs s (by simpa [slots] using hs)
  | .iface v, s, hs => by
    simp only [slots, List.mem_append] at hs
    rcases hs with hs | hs
    · cases ro <;> simp at hs
      simp [hs]
    · simpa [locs] using slots_owner true own (path ++ "!") v s hs
  | .other l, s, hs => by
    cases ro <;> simp [slots] at hs
    simp [hs]
theorem slotsE_owner (own : Nat) (path : String) (i : Nat) : ∀ vs : Vs,
    ∀ s ∈ slotsE own path i vs, s.2 = own ∨ s.2 ∈ locsS vs
  | .nil, s, hs => by simp [slotsE] at hs
  | .cons f k hd tl, s, hs => by
    simp only [slotsE, List.mem_append] at hs
    rcases hs with hs | hs
    · rcases slots_owner false own _ hd s hs with h | h
      · exact Or.inl h
      · exact Or.inr (by simp [locsS, h])
    · rcases slotsE_owner own path (i + 1) tl s hs with h | h
      · exact Or.inl h
      · exact Or.inr (by simp [locsS, h])
theorem slotsK_owner (own : Nat) (path : String) (i : Nat) : ∀ vs : Vs,
    ∀ s ∈ slotsK own path i vs, s.2 = own ∨ s.2 ∈ locsS vs
  | .nil, s, hs => by simp [slotsK] at hs
  | .cons f k hd tl, s, hs => by
    simp only [slotsK, List.mem_append] at hs
    rcases hs with hs | hs
    · rcases slots_owner false own _ hd s hs with h | h
      · exact Or.inl h
      · exact Or.inr (by simp [locsS, h])
    · rcases slotsK_owner own path (i + 1) tl s hs with h | h
      · exact Or.inl h
      · exact Or.inr (by simp [locsS, h])
theorem slotsF_owner (ro : Bool) (own : Nat) (path : String) : ∀ vs : Vs,
    ∀ s ∈ slotsF ro own path vs, s.2 = own ∨ s.2 ∈ locsS vs
  | .nil, s, hs => by simp [slotsF] at hs
  | .cons f k hd tl, s, hs => by
    simp only [slotsF, List.mem_append] at hs
    rcases hs with hs | hs
    · cases f <;> simp at hs
      rcases slots_owner ro own _ hd s hs with h | h
      · exact Or.inl h
      · exact Or.inr (by simp [locsS, h])
    · rcases slotsF_owner ro own path tl s hs with h | h
      · exact Or.inl h
      · exact Or.inr (by simp [locsS, h])
end

/-- Under the side condition the model predicts that no mutation slot of the copy is owned by an old cell —
the answer the driver compares the harness' mutate-and-compare run against. -/
theorem aliased_nil (ci : Bool) (v : V) (n : Nat) (hc : clonable ci v = true) :
    aliased n (slots false n "" (clone ci v (n + 1)).1) = [] := by
  unfold aliased
  rw [List.map_eq_nil_iff, List.filter_eq_nil_iff]
  intro s hs
  rcases slots_owner false n "" _ s hs with h | h
  · simp [h]
  · have := (clone_fresh ci v (n + 1) hc).2 _ h
    simp; omega

/-! #### tie to the source: the `case` labels of `deepClone` (regenerated on every check) -/

/-- whether the model clones through interfaces — read off the regenerated facts -/
def genCloneIface : Bool := Gen.C11.caseInterface

/-- the four kinds the model clones unconditionally are cases of the real switch, there are no cases the
model does not know, and the switch ends in `default: return rv` -/
theorem gen_switch_shape :
    Gen.C11.casePointer = true ∧ Gen.C11.caseStruct = true ∧ Gen.C11.caseSlice = true ∧
    Gen.C11.caseMap = true ∧ Gen.C11.otherCases = 0 ∧ Gen.C11.defaultReturnsArg = true := by decide

/-- the copy constructors of package conf are exactly the ones modelled (`deepClone`, `Conf.Clone`,
`Path.Clone` = `cloneRoot`); a new `CloneXxx` / copy method breaks this obligation until it is modelled (the
harness additionally runs the independence test on every parameterless method returning `*Conf`/`*Path`) -/
theorem gen_clone_constructors : Gen.C11.unknownCloneConstructors = 0 ∧ Gen.C11.cloneConstructors = 3 := by decide

/-- the switch has its Interface case: the driver runs the model for which `clone_independent_fixed` holds -/
theorem gen_case_interface : Gen.C11.caseInterface = true := by decide

/-! #### non-vacuity -/

/-- a small config-like value: struct{ *scalar; []struct{scalar}; map→*scalar; unexported } -/
def sampleTy : Ty :=
  .struct (.cons true (.ptr .scalar) (.cons true (.slice (.struct (.cons true .scalar .nil)))
    (.cons true (.map (.ptr .scalar)) (.cons false .scalar .nil))))
def sampleV : V :=
  .struct (.cons true 0 (.ptr 0 (.atom (.scalar 5))) (.cons true 1
    (.slice 1 (.cons true 0 (.struct (.cons true 0 (.atom (.scalar 6)) .nil)) .nil))
    (.cons true 2 (.map 2 (.cons true 9 (.ptr 3 (.atom (.scalar 7))) .nil)) (.cons false 3 (.atom .opaque) .nil))))

example : hasTy sampleV sampleTy = true ∧ noUnhandled false sampleTy = true := by decide
example : hasTy witnessV witnessTy = true := by decide
example : locs (cloneRoot false sampleV 4).1 = [4, 5, 6, 7, 8] := by decide
example : locs (cloneRoot false witnessV 2).1 = [2, 0, 1] ∧ locs (cloneRoot true witnessV 2).1 = [2, 3, 4] := by decide

end MtxVerif.C11
