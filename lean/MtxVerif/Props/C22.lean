/-
C22 — remuxing preserves media and injects current parameters at keyframes.  Property theorems.

Property at full strength: `delivered264` / `params_latest264` (H264), `delivered265_full` /
`params_latest265_full` (H265 — FALSE for the code as written, finding F-C22; `_partial`, `_witness`,
`_fixed` below), `remuxAV1_eq` (AV1), `m4v_config_before_gov` / `m4v_unaltered` / `m4v_params_latest`
(MPEG-4 Video).
-/
import MtxVerif.Model.C22

namespace MtxVerif.C22

/-- induction from the right end of a list -/
theorem rev_ind {α : Type} {P : List α → Prop} (h0 : P [])
    (hs : ∀ a n, P a → P (a ++ [n])) (l : List α) : P l := by
  have : ∀ r : List α, P r.reverse := by
    intro r
    induction r with
    | nil => exact h0
    | cons x xs ih => rw [List.reverse_cons]; exact hs _ _ ih
  simpa using this l.reverse

/-! #### parameter tracking, one kind -/

theorem latest_append (isK : NALU → Bool) (init : Option Bytes) (a b : List NALU) :
    latest isK init (a ++ b) = latest isK (latest isK init a) b := by
  induction a generalizing init with
  | nil => rfl
  | cons n r ih => simp [latest, ih]

/-- `latest` is "the last in-band parameter set of the kind, else the initial value". -/
theorem latest_eq_getLast (isK : NALU → Bool) (init : Option Bytes) (l : List NALU) :
    latest isK init l = (match (l.filter isK).getLast? with | some x => some x | none => init) := by
  induction l using rev_ind with
  | h0 => rfl
  | hs a n ih =>
    rw [latest_append, List.filter_append]
    by_cases hk : isK n = true
    · simp [latest, hk]
    · simp [latest, hk, ih]

theorem updFmt_as_latest (isK : NALU → Bool) (old cur : Option Bytes) (au : AU) :
    updFmt isK old cur au = latest (fun n => isK n && !bytesEq n old) cur au := by
  induction au generalizing cur with
  | nil => rfl
  | cons n r ih => simp [updFmt, latest, ih]

theorem bytesEq_some {n : NALU} {cur : Option Bytes} (hn : n ≠ []) (h : bytesEq n cur = true) :
    cur = some n := by
  cases cur with
  | none => simp [bytesEq] at h; exact absurd h hn
  | some c => simp [bytesEq] at h; rw [h]

/-- The H264-style updater (compare with the running value) tracks the latest in-band parameter set. -/
theorem updRun_eq_latest (isK : NALU → Bool) (hne : ∀ n, isK n = true → n ≠ [])
    (cur : Option Bytes) (au : AU) : updRun isK cur au = latest isK cur au := by
  induction au generalizing cur with
  | nil => rfl
  | cons n r ih =>
    unfold updRun latest
    rw [ih]
    congr 1
    by_cases hk : isK n = true
    · by_cases he : bytesEq n cur = true
      · simp [hk, bytesEq_some (hne n hk) he]
      · simp [hk, he]
    · simp [hk]

theorem latest_eq_init_iff (K : NALU → Bool) (init : Option Bytes) (hK : ∀ n, K n = true → some n ≠ init)
    (a : List NALU) : latest K init a = init ↔ a.any K = false := by
  rw [latest_eq_getLast]
  cases h : (a.filter K).getLast? with
  | none =>
    have : a.filter K = [] := List.getLast?_eq_none_iff.mp h
    simp only [true_iff]
    rw [Bool.eq_false_iff]
    intro hany
    obtain ⟨x, hx, hkx⟩ := List.any_eq_true.mp hany
    have : x ∈ a.filter K := List.mem_filter.mpr ⟨hx, hkx⟩
    simp_all
  | some x =>
    have hx : x ∈ a.filter K := List.mem_of_getLast? h
    have hkx := (List.mem_filter.mp hx).2
    constructor
    · intro e; exact absurd e (hK x hkx)
    · intro e
      have : a.any K = true := List.any_eq_true.mpr ⟨x, (List.mem_filter.mp hx).1, hkx⟩
      rw [e] at this; cases this

/-- F-C22, exact: the H265-style updater (compare with the format's value) yields the latest in-band
parameter set **iff** the access unit is not in the class `staleK`. -/
theorem staleK_snoc (isK : NALU → Bool) (old : Option Bytes) (a : AU) (n : NALU) :
    staleK isK old (a ++ [n]) =
      if isK n then (a.any (fun m => isK m && !bytesEq m old) || !bytesEq n old) && bytesEq n old
      else staleK isK old a := by
  unfold staleK
  by_cases hk : isK n = true
  · simp [hk, List.filter_append, List.getLast?_append, List.any_filter]
  · simp [hk, List.filter_append]

theorem updFmt_eq_latest_iff (isK : NALU → Bool) (hne : ∀ n, isK n = true → n ≠ [])
    (old : Option Bytes) (au : AU) :
    updFmt isK old old au = latest isK old au ↔ staleK isK old au = false := by
  rw [updFmt_as_latest]
  induction au using rev_ind with
  | h0 => simp [latest, staleK]
  | hs a n ih =>
    rw [latest_append, latest_append, staleK_snoc]
    by_cases hk : isK n = true
    · by_cases he : bytesEq n old = true
      · have hold : old = some n := bytesEq_some (hne n hk) he
        have h2 := latest_eq_init_iff (fun n => isK n && !bytesEq n old) old
          (by
            intro m hm e
            simp only [Bool.and_eq_true, Bool.not_eq_true'] at hm
            rw [← e] at hm
            simp [bytesEq] at hm) a
        simp only [latest, hk, he, if_true, Bool.not_true, Bool.and_false, Bool.false_eq_true,
          if_false, Bool.or_false, Bool.and_true]
        rw [← hold]
        exact h2
      · have he' : bytesEq n old = false := by simpa using he
        simp [latest, hk, he']
    · have hk' : isK n = false := by simpa using hk
      simp only [latest, hk', Bool.false_and, Bool.false_eq_true, if_false]
      exact ih

theorem updFmt_eq_updRun (isK : NALU → Bool) (hne : ∀ n, isK n = true → n ≠ [])
    (old : Option Bytes) (au : AU) (h : staleK isK old au = false) :
    updFmt isK old old au = updRun isK old au := by
  rw [updRun_eq_latest isK hne]; exact (updFmt_eq_latest_iff isK hne old au).mpr h

/-! #### the kinds are non-empty and disjoint from the key-frame types -/

theorem ne_nil_of_not_isEmpty {n : NALU} {b : Bool} (h : (!n.isEmpty && b) = true) : n ≠ [] := by
  intro e; subst e; simp at h

theorem isSPS264_ne (n : NALU) (h : isSPS264 n = true) : n ≠ [] := ne_nil_of_not_isEmpty h
theorem isPPS264_ne (n : NALU) (h : isPPS264 n = true) : n ≠ [] := ne_nil_of_not_isEmpty h
theorem isVPS265_ne (n : NALU) (h : isVPS265 n = true) : n ≠ [] := ne_nil_of_not_isEmpty h
theorem isSPS265_ne (n : NALU) (h : isSPS265 n = true) : n ≠ [] := ne_nil_of_not_isEmpty h
theorem isPPS265_ne (n : NALU) (h : isPPS265 n = true) : n ≠ [] := ne_nil_of_not_isEmpty h

theorem key264_not_dropped (n : NALU) (h : isIDR264 n = true) : drop264 n = false := by
  simp only [isIDR264, Bool.and_eq_true, beq_iff_eq] at h
  simp [drop264, isSPS264, isPPS264, isAUD264, h.2]

theorem key265_not_dropped (n : NALU) (h : isKey265 n = true) : drop265 n = false := by
  simp only [isKey265, Bool.and_eq_true, Bool.or_eq_true, beq_iff_eq] at h
  rcases h.2 with (h' | h') | h' <;>
    simp [drop265, isVPS265, isSPS265, isPPS265, isAUD265, h']

/-! #### the remuxer -/

theorem pass1Step_eq (isDrop isKey : NALU → Bool) (k : Nat) (known : Bool) (b : Bool) (m : Nat)
    (n : NALU) :
    pass1Step isDrop isKey k known (b, m) n =
      (b || (!isDrop n && isKey n),
       m + (if isDrop n then 0 else 1) + (if !b && !isDrop n && isKey n && known then k else 0)) := by
  unfold pass1Step
  cases b <;> cases known <;> cases isDrop n <;> cases isKey n <;> simp <;> omega

theorem pass1_aux (isDrop isKey : NALU → Bool) (k : Nat) (known : Bool)
    (hd : ∀ n, isKey n = true → isDrop n = false) (au : AU) (b : Bool) (m : Nat) :
    au.foldl (pass1Step isDrop isKey k known) (b, m)
    = (b || au.any isKey,
       m + (au.filter (fun n => !isDrop n)).length + (if !b && au.any isKey && known then k else 0)) := by
  induction au generalizing b m with
  | nil => simp
  | cons n r ih =>
    rw [List.foldl_cons, pass1Step_eq, ih]
    have hd' := hd n
    cases b <;> cases known <;> cases hD : isDrop n <;> cases hK : isKey n <;>
      simp_all <;> (try split) <;> omega

/-- The counting loop computes exactly the length of what the filling loop writes: no index panic, no
nil holes, and the result is the property's expected unit. -/
theorem remuxGen_eq (isDrop isKey : NALU → Bool) (pre : List NALU) (known : Bool)
    (hd : ∀ n, isKey n = true → isDrop n = false) (au : AU) (hne : hasEmpty au = false) :
    remuxGen isDrop isKey pre known au = .ok (expected isDrop isKey pre known au) := by
  unfold remuxGen pass1 expected
  rw [hne, pass1_aux isDrop isKey pre.length known hd]
  simp only [Bool.false_eq_true, if_false, Bool.false_or, Bool.not_false, Bool.true_and, Nat.zero_add]
  unfold fill
  cases hk : (au.any isKey && known) with
  | false =>
    simp only [Bool.false_eq_true, if_false, Nat.add_zero, List.nil_append]
    by_cases h0 : (au.filter (fun n => !isDrop n)).length = 0
    · rw [if_pos h0]; rw [List.length_eq_zero_iff.mp h0]
    · rw [if_neg h0]; simp
  | true =>
    simp only [if_true, List.length_append]
    split
    · rename_i h0
      have : pre.length = 0 ∧ (au.filter (fun n => !isDrop n)).length = 0 := by omega
      rw [List.length_eq_zero_iff.mp this.1, List.length_eq_zero_iff.mp this.2]; rfl
    · simp [Nat.add_comm]

/-- H264 remuxer = the property's expected unit. -/
theorem remux264_eq (p : P264) (au : AU) (hne : hasEmpty au = false) :
    remux264 p au = .ok (expected264 p au) :=
  remuxGen_eq _ _ _ _ key264_not_dropped au hne

theorem remux265_eq (p : P265) (au : AU) (hne : hasEmpty au = false) :
    remux265 p au = .ok (expected265 p au) :=
  remuxGen_eq _ _ _ _ key265_not_dropped au hne

/-- AV1: temporal delimiters are removed, nothing else is altered (order kept). -/
theorem remuxAV1_eq (tu : AU) (hne : hasEmpty tu = false) :
    remuxAV1 tu = .ok (tu.filter (fun o => !isTD o)) := by
  unfold remuxAV1
  rw [remuxGen_eq _ _ _ _ (by intro n h; cases h) tu hne]
  simp [expected]

/-- an empty NAL unit / OBU is exactly the panic case -/
theorem remuxGen_panic_iff (isDrop isKey : NALU → Bool) (pre : List NALU) (known : Bool)
    (hd : ∀ n, isKey n = true → isDrop n = false) (au : AU) :
    remuxGen isDrop isKey pre known au = .panic ↔ hasEmpty au = true := by
  cases h : hasEmpty au with
  | true => simp [remuxGen, h]
  | false => rw [remuxGen_eq _ _ _ _ hd au h]; simp

/-- Nothing is invented: every NAL unit of a delivered unit is a current parameter set or a NAL unit
of the written unit; parameter sets and delimiters of the written unit are never passed on. -/
theorem expected_mem (isDrop isKey : NALU → Bool) (pre : List NALU) (known : Bool) (au : AU) (x : NALU)
    (hx : x ∈ expected isDrop isKey pre known au) : x ∈ pre ∨ (x ∈ au ∧ isDrop x = false) := by
  unfold expected at hx
  rcases List.mem_append.mp hx with h | h
  · split at h
    · exact Or.inl h
    · cases h
  · have := List.mem_filter.mp h
    exact Or.inr ⟨this.1, by simpa using this.2⟩

/-! #### steps and whole histories -/

theorem upd264_eq_latest (p : P264) (au : AU) : upd264 p au = latest264 p au := by
  simp [upd264, latest264, updRun_eq_latest _ isSPS264_ne, updRun_eq_latest _ isPPS264_ne]

theorem upd265Fixed_eq_latest (p : P265) (au : AU) : upd265Fixed p au = latest265 p au := by
  simp [upd265Fixed, latest265, updRun_eq_latest _ isVPS265_ne, updRun_eq_latest _ isSPS265_ne,
    updRun_eq_latest _ isPPS265_ne]

/-- outside the F-C22 class the code as written agrees with the specification (and with the fix) -/
theorem upd265_eq_latest (p : P265) (au : AU) (h : stale265 p au = false) :
    upd265 p au = latest265 p au := by
  simp only [stale265, Bool.or_eq_false_iff] at h
  simp [upd265, latest265, (updFmt_eq_latest_iff _ isVPS265_ne p.vps au).mpr h.1.1,
    (updFmt_eq_latest_iff _ isSPS265_ne p.sps au).mpr h.1.2,
    (updFmt_eq_latest_iff _ isPPS265_ne p.pps au).mpr h.2]

/-- inside the class the code as written does NOT end with the latest parameter sets -/
theorem upd265_ne_latest (p : P265) (au : AU) (h : stale265 p au = true) :
    upd265 p au ≠ latest265 p au := by
  intro e
  simp only [upd265, latest265, P265.mk.injEq] at e
  simp only [stale265, Bool.or_eq_true] at h
  rcases h with (h | h) | h
  · have := (updFmt_eq_latest_iff _ isVPS265_ne p.vps au).mp e.1; rw [this] at h; cases h
  · have := (updFmt_eq_latest_iff _ isSPS265_ne p.sps au).mp e.2.1; rw [this] at h; cases h
  · have := (updFmt_eq_latest_iff _ isPPS265_ne p.pps au).mp e.2.2; rw [this] at h; cases h

theorem step264_eq (p : P264) (au : AU) (h : (!hasEmpty au) = true) :
    step264 p au = (latest264 p au, .ok (expected264 (latest264 p au) au)) := by
  have h' : hasEmpty au = false := by simpa using h
  simp [step264, h', upd264_eq_latest, remux264_eq _ _ h']

theorem step265Fixed_eq (p : P265) (au : AU) (h : (!hasEmpty au) = true) :
    step265Fixed p au = (latest265 p au, .ok (expected265 (latest265 p au) au)) := by
  have h' : hasEmpty au = false := by simpa using h
  simp [step265Fixed, h', upd265Fixed_eq_latest, remux265_eq _ _ h']

theorem step265_eq (p : P265) (au : AU) (h : (!hasEmpty au && !stale265 p au) = true) :
    step265 p au = (latest265 p au, .ok (expected265 (latest265 p au) au)) := by
  simp only [Bool.and_eq_true, Bool.not_eq_true'] at h
  simp [step265, h.1, upd265_eq_latest _ _ h.2, remux265_eq _ _ h.1]

/-- a step panics exactly on an access unit with an empty NAL unit, and leaves the parameters alone -/
theorem step264_panic_iff (p : P264) (au : AU) :
    (step264 p au).2 = .panic ↔ hasEmpty au = true := by
  cases h : hasEmpty au with
  | true => simp [step264, h]
  | false => rw [step264_eq p au (by simp [h])]; simp

theorem step265_panic_iff (p : P265) (au : AU) :
    (step265 p au).2 = .panic ↔ hasEmpty au = true := by
  cases h : hasEmpty au with
  | true => simp [step265, h]
  | false => simp [step265, h, remux265_eq _ _ h]

theorem latest264_append (p : P264) (a b : List NALU) :
    latest264 p (a ++ b) = latest264 (latest264 p a) b := by
  simp [latest264, latest_append]

theorem latest265_append (p : P265) (a b : List NALU) :
    latest265 p (a ++ b) = latest265 (latest265 p a) b := by
  simp [latest265, latest_append]

/-- Generic history theorem: if every step, under `good`, lands on `lat` (the latest parameters) and
delivers `exp` of them, then after any history the parameters are the latest over the whole history and
the i-th delivered unit carries the latest parameters over units `0..i`. -/
theorem runG_spec {σ : Type} (step : σ → AU → σ × Outcome AU) (lat : σ → List NALU → σ)
    (exp : σ → AU → AU) (good : σ → AU → Bool)
    (lat_app : ∀ p a b, lat p (a ++ b) = lat (lat p a) b)
    (lat_nil : ∀ p, lat p [] = p)
    (hstep : ∀ p au, good p au = true → step p au = (lat p au, .ok (exp (lat p au) au)))
    (p : σ) (aus : List AU) (hg : goodRun good step p aus = true) :
    (runG step p aus).1 = lat p aus.flatten ∧
    ∀ i au, aus[i]? = some au →
      (runG step p aus).2[i]? = some (Outcome.ok (exp (lat p (aus.take (i + 1)).flatten) au)) := by
  induction aus generalizing p with
  | nil => simp [runG, lat_nil]
  | cons a r ih =>
    simp only [goodRun, Bool.and_eq_true] at hg
    have hs := hstep p a hg.1
    rw [hs] at hg
    have := ih (lat p a) hg.2
    simp only [runG, hs, List.flatten_cons, lat_app]
    refine ⟨this.1, ?_⟩
    intro i au hi
    cases i with
    | zero =>
      simp only [List.getElem?_cons_zero, Option.some.injEq] at hi
      subst hi
      simp
    | succ j =>
      simp only [List.getElem?_cons_succ] at hi
      simp only [List.getElem?_cons_succ, List.take_succ_cons, List.flatten_cons, lat_app]
      exact this.2 j au hi

theorem goodRun_const {σ : Type} (g : AU → Bool) (step : σ → AU → σ × Outcome AU) (p : σ)
    (aus : List AU) (h : ∀ au ∈ aus, g au = true) : goodRun (fun _ au => g au) step p aus = true := by
  induction aus generalizing p with
  | nil => rfl
  | cons a r ih =>
    simp only [goodRun, Bool.and_eq_true]
    exact ⟨h a List.mem_cons_self, ih _ (fun au hau => h au (List.mem_cons_of_mem _ hau))⟩

theorem goodRun_and {σ : Type} (g1 g2 : σ → AU → Bool) (step : σ → AU → σ × Outcome AU) (p : σ)
    (aus : List AU) (h1 : goodRun g1 step p aus = true) (h2 : goodRun g2 step p aus = true) :
    goodRun (fun p au => g1 p au && g2 p au) step p aus = true := by
  induction aus generalizing p with
  | nil => rfl
  | cons a r ih =>
    simp only [goodRun, Bool.and_eq_true] at *
    exact ⟨⟨h1.1, h2.1⟩, ih _ h1.2 h2.2⟩

/-- the precondition "no empty NAL unit" (guaranteed by the RTP decoders and by the protocol readers,
see `unit.PayloadH264`: "each with at least 1 byte") -/
def NoEmpty (aus : List AU) : Prop := ∀ au ∈ aus, hasEmpty au = false

instance (aus : List AU) : Decidable (NoEmpty aus) := by unfold NoEmpty; infer_instance

theorem noEmpty_good {aus : List AU} (h : NoEmpty aus) : ∀ au ∈ aus, (!hasEmpty au) = true := by
  intro au hau; simp [h au hau]

/-- **C22, H264, parameters**: after any sequence of access units the parameters of the output format
(= what the published description reports: `outDesc` holds the same format object) are, for each kind,
the last one seen in-band, else the one of the session description. -/
theorem params_latest264 (p0 : P264) (aus : List AU) (h : NoEmpty aus) :
    (run264 p0 aus).1 = latest264 p0 aus.flatten :=
  (runG_spec step264 latest264 expected264 (fun _ au => !hasEmpty au) latest264_append
    (fun _ => rfl) (fun p au hg => step264_eq p au hg) p0 aus
    (goodRun_const _ _ _ _ (noEmpty_good h))).1

/-- **C22, H264, delivered units (full strength)**: the i-th delivered unit is the i-th written unit
without parameter sets and delimiters, in order, preceded — when it has an IDR and both parameter sets
are known — by the most recent SPS/PPS seen in-band up to and including that unit, else those of the
session description. -/
theorem delivered264 (p0 : P264) (aus : List AU) (h : NoEmpty aus) (i : Nat) (au : AU)
    (hi : aus[i]? = some au) :
    (run264 p0 aus).2[i]? = some (.ok (expected264 (latest264 p0 (aus.take (i + 1)).flatten) au)) :=
  (runG_spec step264 latest264 expected264 (fun _ au => !hasEmpty au) latest264_append
    (fun _ => rfl) (fun p au hg => step264_eq p au hg) p0 aus
    (goodRun_const _ _ _ _ (noEmpty_good h))).2 i au hi

/-- The same two statements for H265 — the property at full strength. -/
def params_latest265_full (run : P265 → List AU → P265 × List (Outcome AU)) : Prop :=
  ∀ (p0 : P265) (aus : List AU), NoEmpty aus → (run p0 aus).1 = latest265 p0 aus.flatten

def delivered265_full (run : P265 → List AU → P265 × List (Outcome AU)) : Prop :=
  ∀ (p0 : P265) (aus : List AU), NoEmpty aus → ∀ (i : Nat) (au : AU), aus[i]? = some au →
    (run p0 aus).2[i]? = some (.ok (expected265 (latest265 p0 (aus.take (i + 1)).flatten) au))

/-- With the proposed fix both hold unconditionally. -/
theorem params_latest265_fixed : params_latest265_full run265Fixed := by
  intro p0 aus h
  exact (runG_spec step265Fixed latest265 expected265 (fun _ au => !hasEmpty au) latest265_append
    (fun _ => rfl) (fun p au hg => step265Fixed_eq p au hg) p0 aus
    (goodRun_const _ _ _ _ (noEmpty_good h))).1

theorem delivered265_fixed : delivered265_full run265Fixed := by
  intro p0 aus h i au hi
  exact (runG_spec step265Fixed latest265 expected265 (fun _ au => !hasEmpty au) latest265_append
    (fun _ => rfl) (fun p au hg => step265Fixed_eq p au hg) p0 aus
    (goodRun_const _ _ _ _ (noEmpty_good h))).2 i au hi

theorem good265 (p0 : P265) (aus : List AU) (h : NoEmpty aus) (hs : noStaleRun p0 aus = true) :
    goodRun (fun p au => !hasEmpty au && !stale265 p au) step265 p0 aus = true :=
  goodRun_and (fun _ au => !hasEmpty au) (fun p au => !stale265 p au) step265 p0 aus
    (goodRun_const _ _ _ _ (noEmpty_good h)) hs

/-- Code as written: both hold for every history that never enters the class `stale265`. -/
theorem params_latest265_partial (p0 : P265) (aus : List AU) (h : NoEmpty aus)
    (hs : noStaleRun p0 aus = true) : (run265 p0 aus).1 = latest265 p0 aus.flatten :=
  (runG_spec step265 latest265 expected265 (fun p au => !hasEmpty au && !stale265 p au)
    latest265_append (fun _ => rfl) (fun p au hg => step265_eq p au hg) p0 aus (good265 p0 aus h hs)).1

theorem delivered265_partial (p0 : P265) (aus : List AU) (h : NoEmpty aus)
    (hs : noStaleRun p0 aus = true) (i : Nat) (au : AU) (hi : aus[i]? = some au) :
    (run265 p0 aus).2[i]? = some (.ok (expected265 (latest265 p0 (aus.take (i + 1)).flatten) au)) :=
  (runG_spec step265 latest265 expected265 (fun p au => !hasEmpty au && !stale265 p au)
    latest265_append (fun _ => rfl) (fun p au hg => step265_eq p au hg) p0 aus
    (good265 p0 aus h hs)).2 i au hi

/-- F-C22 witness: format VPS = `4002`; one access unit `[VPS 4001, VPS 4002, SPS, PPS, IDR]`. -/
def wP0 : P265 := ⟨some [0x40, 2], some [0x42, 1], some [0x44, 1]⟩
def wAU : AU := [[0x40, 1], [0x40, 2], [0x26, 9]]

/-- … the code ends with VPS `4001` although `4002` was the last one seen, -/
theorem params_latest265_witness : ¬ params_latest265_full run265 := by
  intro h
  have := h wP0 [wAU] (by decide)
  revert this
  decide

/-- … and the key frame of that very unit is delivered with the stale VPS. -/
theorem delivered265_witness : ¬ delivered265_full run265 := by
  intro h
  have := h wP0 [wAU] (by decide) 0 wAU rfl
  revert this
  decide

/-! #### sub-stream switch -/

theorem kinds264 (s p : NALU) (hs : isSPS264 s = true) (hp : isPPS264 p = true) :
    isSPS264 p = false ∧ isPPS264 s = false ∧ isIDR264 s = false ∧ isIDR264 p = false ∧
    drop264 s = true ∧ drop264 p = true ∧ s.isEmpty = false ∧ p.isEmpty = false := by
  simp only [isSPS264, isPPS264, Bool.and_eq_true, Bool.not_eq_true', beq_iff_eq] at hs hp
  simp [isSPS264, isPPS264, isIDR264, drop264, isAUD264, hs.1, hs.2, hp.1, hp.2]

/-- **sub-stream switch, H264**: when a sub stream whose description carries an SPS and a PPS takes over, the
parameters of the output format (= injected at the following key frames, = reported by the description)
become exactly those, whatever was there before (a previous publisher's, the offline clip's …); the
transfer unit itself delivers nothing. -/
theorem switch264_params (st : P264) (s p : NALU) (hs : isSPS264 s = true) (hp : isPPS264 p = true) :
    switch264 st ⟨some s, some p⟩ = (⟨some s, some p⟩, .ok []) := by
  obtain ⟨h1, h2, h3, h4, h5, h6, h7, h8⟩ := kinds264 s p hs hp
  have hne : (!hasEmpty [s, p]) = true := by simp [hasEmpty, h7, h8]
  simp only [switch264, subAU264]
  rw [step264_eq st [s, p] hne]
  simp [latest264, latest, expected264, expected, hs, hp, h1, h3, h4, h5, h6]

/-- without a complete set in the description nothing is transferred (the previous parameters stay until
in-band ones arrive) -/
theorem switch264_incomplete (st d : P264) (h : d.sps = none ∨ d.pps = none) : switch264 st d = (st, .ok []) := by
  rcases h with h | h <;> simp [switch264, subAU264, h]

theorem kinds265 (v s p : NALU) (hv : isVPS265 v = true) (hs : isSPS265 s = true) (hp : isPPS265 p = true) :
    isVPS265 s = false ∧ isVPS265 p = false ∧ isSPS265 v = false ∧ isSPS265 p = false ∧
    isPPS265 v = false ∧ isPPS265 s = false ∧ isKey265 v = false ∧ isKey265 s = false ∧ isKey265 p = false ∧
    drop265 v = true ∧ drop265 s = true ∧ drop265 p = true ∧
    v.isEmpty = false ∧ s.isEmpty = false ∧ p.isEmpty = false := by
  simp only [isVPS265, isSPS265, isPPS265, Bool.and_eq_true, Bool.not_eq_true', beq_iff_eq] at hv hs hp
  simp [isVPS265, isSPS265, isPPS265, isKey265, drop265, isAUD265, hv.1, hv.2, hs.1, hs.2, hp.1, hp.2]

/-- **sub-stream switch, H265** (updater comparing with the running value, as on HEAD after the F-C22 fix) -/
theorem switch265Fixed_params (st : P265) (v s p : NALU) (hv : isVPS265 v = true) (hs : isSPS265 s = true)
    (hp : isPPS265 p = true) :
    switch265Fixed st ⟨some v, some s, some p⟩ = (⟨some v, some s, some p⟩, .ok []) := by
  obtain ⟨h1, h2, h3, h4, h5, h6, h7, h8, h9, h10, h11, h12, h13, h14, h15⟩ := kinds265 v s p hv hs hp
  have hne : (!hasEmpty [v, s, p]) = true := by simp [hasEmpty, h13, h14, h15]
  simp only [switch265Fixed, subAU265]
  rw [step265Fixed_eq st [v, s, p] hne]
  simp [latest265, latest, expected265, expected, hv, hs, hp, h1, h2, h4, h7, h8, h9, h10, h11, h12]

/-! #### MPEG-4 Video -/

theorem indexOf_prefix (pat : Bytes) (s : Bytes) (e : Nat) (h : indexOf pat s = some e) :
    pat.isPrefixOf (s.drop e) = true := by
  induction s generalizing e with
  | nil =>
    unfold indexOf at h
    split at h
    · rename_i hp; simp at h; subst h; simpa using hp
    · cases h
  | cons x r ih =>
    unfold indexOf at h
    split at h
    · rename_i hp; simp at h; subst h; simpa using hp
    · cases hi : indexOf pat r with
      | none => rw [hi] at h; cases h
      | some k =>
        rw [hi] at h; simp at h; subst h
        simpa using ih k hi

/-- a frame that starts with the VOS start code has no GOV start code in its first 4 positions -/
theorem indexOf_gov_vos (rest : Bytes) :
    indexOf govSC (0 :: 0 :: 1 :: 0xB0 :: rest) = (indexOf govSC rest).map (· + 4) := by
  simp only [indexOf, govSC]
  simp [List.isPrefixOf]
  cases indexOf [0, 0, 1, 0xB3] rest <;> simp

theorem vos_prefix_split (frame : Bytes) (h : vosSC.isPrefixOf frame = true) :
    ∃ rest, frame = 0 :: 0 :: 1 :: 0xB0 :: rest := by
  rcases frame with _ | ⟨a, _ | ⟨b, _ | ⟨c, _ | ⟨d, rest⟩⟩⟩⟩
  all_goals simp [vosSC, List.isPrefixOf] at h
  obtain ⟨rfl, rfl, rfl, rfl⟩ := h
  exact ⟨rest, rfl⟩

/-- frame with an in-band configuration: it becomes the current one and the frame is delivered
unchanged (config stripped, then the — identical — current config put back). -/
theorem m4v_inband (cfg frame conf : Bytes) (h : inbandCfg frame = some conf) :
    stepM4V cfg frame = (conf, frame) ∧ conf <+: frame := by
  unfold inbandCfg at h
  split at h
  · rename_i hv
    cases hi : indexOf govSC (frame.drop 4) with
    | none => rw [hi] at h; cases h
    | some e =>
      rw [hi] at h
      simp only [Option.some.injEq] at h
      have hp := indexOf_prefix _ _ _ hi
      rw [List.drop_drop, Nat.add_comm] at hp
      have hc : containsGOV (frame.drop (e + 4)) = true := by
        unfold containsGOV
        cases hd : frame.drop (e + 4) with
        | nil => rw [hd] at hp; simp [govSC] at hp
        | cons x r => rw [hd] at hp; simp [indexOf, hp]
      have hu : updM4V cfg frame = conf := by
        simp only [updM4V, hv, if_true, hi]
        split
        · exact h
        · rename_i hne; simp at hne; rw [← hne]; exact h
      refine ⟨?_, ?_⟩
      · simp only [stepM4V, hu, remuxM4V, hv, if_true, hi, hc]
        rw [← h, List.take_append_drop]
      · rw [← h]; exact List.take_prefix _ _
  · cases h

/-- frame without in-band configuration: parameters unchanged; the current config is put in front iff
the frame contains a GOV start code. -/
theorem m4v_plain (cfg frame : Bytes) (h : inbandCfg frame = none) :
    stepM4V cfg frame = (cfg, if containsGOV frame then cfg ++ frame else frame) := by
  unfold inbandCfg at h
  split at h
  · rename_i hv
    cases hi : indexOf govSC (frame.drop 4) with
    | some e => rw [hi] at h; cases h
    | none =>
      obtain ⟨rest, hr⟩ := vos_prefix_split frame hv
      have hng : containsGOV frame = false := by
        subst hr
        simp only [List.drop_succ_cons, List.drop_zero] at hi
        simp [containsGOV, indexOf_gov_vos, hi]
      simp [stepM4V, updM4V, remuxM4V, hv, hi, hng]
  · rename_i hv
    simp [stepM4V, updM4V, remuxM4V, hv]

/-- **C22, MPEG-4 Video**: whenever a delivered frame contains a GOV it starts with the current
configuration (the one the description reports after this frame), followed by a tail of the written frame. -/
theorem m4v_config_before_gov (cfg frame : Bytes) (h : containsGOV (stepM4V cfg frame).2 = true) :
    ∃ body, (stepM4V cfg frame).2 = (stepM4V cfg frame).1 ++ body ∧ body <:+ frame := by
  cases hi : inbandCfg frame with
  | some conf =>
    have := m4v_inband cfg frame conf hi
    rw [this.1]
    obtain ⟨t, ht⟩ := this.2
    exact ⟨t, ht.symm, ⟨conf, ht⟩⟩
  | none =>
    rw [m4v_plain cfg frame hi] at h ⊢
    by_cases hg : containsGOV frame = true
    · simp only [hg, if_true]
      exact ⟨frame, rfl, List.suffix_refl _⟩
    · simp only [hg] at h
      simp only [Bool.false_eq_true, if_false] at h
      exact absurd h hg

/-- … and a frame without GOV is passed on unaltered, the configuration stays. -/
theorem m4v_unaltered (cfg frame : Bytes) (h : containsGOV frame = false) :
    stepM4V cfg frame = (cfg, frame) := by
  cases hi : inbandCfg frame with
  | some conf =>
    exfalso
    unfold inbandCfg at hi
    split at hi
    · rename_i hv
      obtain ⟨rest, hr⟩ := vos_prefix_split frame hv
      subst hr
      simp only [List.drop_succ_cons, List.drop_zero] at hi
      simp only [containsGOV, indexOf_gov_vos] at h
      cases hx : indexOf govSC rest with
      | none => rw [hx] at hi; cases hi
      | some e => rw [hx] at h; simp at h
    · cases hi
  | none => rw [m4v_plain cfg frame hi]; simp [h]

/-- the delivered frame is never longer than config + frame and always ends with a tail of the frame -/
theorem m4v_tail (cfg frame : Bytes) : ∃ pre body, (stepM4V cfg frame).2 = pre ++ body ∧ body <:+ frame ∧
    (pre = [] ∨ pre = (stepM4V cfg frame).1) := by
  cases hi : inbandCfg frame with
  | some conf =>
    rw [(m4v_inband cfg frame conf hi).1]
    exact ⟨[], frame, rfl, List.suffix_refl _, Or.inl rfl⟩
  | none =>
    rw [m4v_plain cfg frame hi]
    by_cases hg : containsGOV frame = true
    · simp only [hg, if_true]; exact ⟨cfg, frame, rfl, List.suffix_refl _, Or.inr rfl⟩
    · simp only [hg]; exact ⟨[], frame, rfl, List.suffix_refl _, Or.inl rfl⟩

theorem stepM4V_cfg (cfg frame : Bytes) : (stepM4V cfg frame).1 = (inbandCfg frame).getD cfg := by
  cases hi : inbandCfg frame with
  | some conf => rw [(m4v_inband cfg frame conf hi).1]; rfl
  | none => rw [m4v_plain cfg frame hi]; rfl

/-- after any frame sequence the configuration is the last one seen in-band, else the initial one -/
theorem m4v_params_latest (cfg : Bytes) (frames : List Bytes) :
    (runM4V cfg frames).1 = latestCfg cfg frames := by
  induction frames generalizing cfg with
  | nil => rfl
  | cons f r ih => simp only [runM4V, latestCfg, ih, stepM4V_cfg]

/-! #### non-vacuity and regression examples (kernel-decided) -/

-- SPS 67.., PPS 68.., AUD 09, IDR 65, non-IDR 41
example : run264 ⟨none, none⟩ [[[0x09, 0xF0], [0x67, 1], [0x68, 2], [0x65, 3]], [[0x41, 4]], [[0x65, 5]]]
    = (⟨some [0x67, 1], some [0x68, 2]⟩,
       [.ok [[0x67, 1], [0x68, 2], [0x65, 3]], .ok [[0x41, 4]], .ok [[0x67, 1], [0x68, 2], [0x65, 5]]]) := by
  decide
-- only parameters: nil payload out
example : step264 ⟨none, none⟩ [[0x67, 1], [0x09]] = (⟨some [0x67, 1], none⟩, .ok []) := by decide
-- IDR but PPS unknown: nothing prepended
example : (step264 ⟨some [0x67, 1], none⟩ [[0x65, 3]]).2 = .ok [[0x65, 3]] := by decide
example : (step264 ⟨none, none⟩ [[0x65, 3], []]).2 = .panic := by decide
example : NoEmpty [[[0x65, 3]]] := by decide
example : noStaleRun wP0 [[[0x40, 1]], [[0x40, 2]]] = true := by decide
example : stale265 wP0 wAU = true := by decide
example : (step265 wP0 wAU).1.vps = some [0x40, 1] := by decide
example : (step265Fixed wP0 wAU).1.vps = some [0x40, 2] := by decide
-- publisher parameters are replaced by the offline clip's when the stream goes offline again
example : (switch264 ⟨some [0x67, 9], some [0x68, 9]⟩ ⟨some [0x67, 1], some [0x68, 1]⟩).1 =
    ⟨some [0x67, 1], some [0x68, 1]⟩ := by decide
example : remuxAV1 [[0x12, 0], [0x0A, 1], [0x32, 2]] = .ok [[0x0A, 1], [0x32, 2]] := by decide
example : stepM4V [9] [0, 0, 1, 0xB0, 7, 0, 0, 1, 0xB3, 5] = ([0, 0, 1, 0xB0, 7], [0, 0, 1, 0xB0, 7, 0, 0, 1, 0xB3, 5]) := by
  decide
example : stepM4V [9] [0, 0, 1, 0xB3, 5] = ([9], [9, 0, 0, 1, 0xB3, 5]) := by decide
example : stepM4V [9] [0, 0, 1, 0xB6, 5] = ([9], [0, 0, 1, 0xB6, 5]) := by decide

end MtxVerif.C22
