/-
C03 — every media publish or read is authorized for that path and action.  Property theorems.

Part A (state machine, all histories, all authentication managers):
  `attach_needs_auth`, `attach_action_matches`, `publisher_conf_current`, `find_authenticates`,
  `two_step_sound` (the pattern the SkipAuth publishers follow), `stale_conf_rejected`, `refused_no_change`,
  `spec_accepts_model`.
Part B (tables regenerated from the source, `decide`):
  `skipAuth_sites_justified`, `no_other_skipAuth_use`, `expectations_all_used`, `calls_well_formed`.
-/
import MtxVerif.Model.C03
import MtxVerif.Gen.C03

namespace MtxVerif.C03

/-! ### Part A -/

/-- what passing the manager-level gate means -/
theorem gate_none {auth : AuthFn} {s : St} {r : AccessReq} {cmp : Option Conf}
    (h : gate auth s r cmp = none) :
    ∃ c, findConf s.confs r.name r.valid = some c ∧ (∀ c', cmp = some c' → c' = c) ∧
      (r.skipAuth = true ∨ auth (toAuth r) = .ok) := by
  unfold gate at h
  cases hf : findConf s.confs r.name r.valid with
  | none => rw [hf] at h; cases h
  | some c =>
    rw [hf] at h
    dsimp only at h
    cases hm : cmpMismatch cmp c with
    | true => rw [hm] at h; simp at h
    | false =>
      rw [hm] at h
      simp only [Bool.false_eq_true, if_false] at h
      refine ⟨c, rfl, ?_, ?_⟩
      · intro c' hc
        subst hc
        simpa [cmpMismatch] using hm
      · cases hs : r.skipAuth with
        | true => exact Or.inl rfl
        | false =>
          right
          rw [hs] at h
          simp only [Bool.false_eq_true, if_false] at h
          cases ha : auth (toAuth r) with
          | ok => rfl
          | denyAsk => rw [ha] at h; cases h
          | deny => rw [ha] at h; cases h

/-- answers of the gate are refusals -/
theorem gate_some {auth : AuthFn} {s : St} {r : AccessReq} {cmp : Option Conf} {e : Out}
    (h : gate auth s r cmp = some e) : e = .noPath ∨ e = .changed ∨ ∃ a, e = .authErr a := by
  unfold gate at h
  cases hf : findConf s.confs r.name r.valid with
  | none => rw [hf] at h; injection h with h; exact Or.inl h.symm
  | some c =>
    rw [hf] at h
    dsimp only at h
    split at h
    · injection h with h; exact Or.inr (Or.inl h.symm)
    · split at h
      · cases h
      · split at h
        · cases h
        · injection h with h; exact Or.inr (Or.inr ⟨_, h.symm⟩)
        · injection h with h; exact Or.inr (Or.inr ⟨_, h.symm⟩)

/-- every entry of a history is one `step` from the state recorded with it -/
theorem trace_step (auth : AuthFn) (s : St) (ops : List Op) :
    ∀ e ∈ trace auth s ops, e.2.2 = (step auth e.1 e.2.1).2 := by
  induction ops generalizing s with
  | nil => intro e he; cases he
  | cons op rest ih =>
    intro e he
    simp only [trace, List.mem_cons] at he
    rcases he with rfl | he
    · rfl
    · exact ih _ e he

/-- one step: an attach answer comes from an attach op of the same client, name and direction whose request
    passed the gate. -/
theorem step_attached {auth : AuthFn} {s : St} {op : Op} {cl : Nat} {nm : Bytes} {pub : Bool}
    (h : (step auth s op).2 = .attached cl nm pub) :
    ∃ r, op.req? = some r ∧ r.name = nm ∧ (r.skipAuth = true ∨ auth (toAuth r) = .ok) ∧
      ((pub = true ∧ ∃ cmp, op = .addPublisher cl r cmp ∧
          ∃ c, findConf s.confs r.name r.valid = some c ∧ ∀ c', cmp = some c' → c' = c) ∨
       (pub = false ∧ op = .addReader cl r)) := by
  cases op with
  | find c r =>
    simp only [step] at h
    split at h
    · cases h
    · split at h <;> cases h
  | describe c r =>
    simp only [step] at h
    split at h
    · rename_i e hg
      rcases gate_some hg with rfl | rfl | ⟨a, rfl⟩ <;> cases h
    · split at h <;> cases h
  | addReader c r =>
    simp only [step] at h
    split at h
    · rename_i e hg
      rcases gate_some hg with rfl | rfl | ⟨a, rfl⟩ <;> cases h
    · rename_i hg
      split at h
      · injection h with h1 h2 h3
        obtain ⟨_, _, _, hauth⟩ := gate_none hg
        exact ⟨r, rfl, h2, hauth, Or.inr ⟨h3.symm, by rw [h1]⟩⟩
      · cases h
  | addPublisher c r cmp =>
    simp only [step] at h
    split at h
    · rename_i e hg
      rcases gate_some hg with rfl | rfl | ⟨a, rfl⟩ <;> cases h
    · rename_i hg
      obtain ⟨cf, hf, hcmp, hauth⟩ := gate_none hg
      rw [hf] at h
      injection h with h1 h2 h3
      exact ⟨r, rfl, h2, hauth, Or.inl ⟨h3.symm, cmp, by rw [h1], cf, hf, hcmp⟩⟩
  | reload cs => simp [step] at h

/-- **attach_needs_auth** — in any history, for any authentication manager: whenever a client is attached as
    publisher/reader of `nm`, that very op carried a request for exactly the name `nm` which the authentication
    manager admitted, or which was marked SkipAuth (the only other way; Part B accounts for every such site). -/
theorem attach_needs_auth (auth : AuthFn) (s : St) (ops : List Op) :
    ∀ e ∈ trace auth s ops, ∀ cl nm pub, e.2.2 = .attached cl nm pub →
      ∃ r, e.2.1.req? = some r ∧ r.name = nm ∧ (toAuth r).path = nm ∧
        (r.skipAuth = true ∨ auth (toAuth r) = .ok) ∧
        (if pub then ∃ cmp, e.2.1 = .addPublisher cl r cmp else e.2.1 = .addReader cl r) := by
  intro e he cl nm pub hout
  rw [trace_step auth s ops e he] at hout
  obtain ⟨r, hr, hn, hauth, hdir⟩ := step_attached hout
  refine ⟨r, hr, hn, by simpa [toAuth] using hn, hauth, ?_⟩
  rcases hdir with ⟨hp, cmp, hop, _⟩ | ⟨hp, hop⟩
  · rw [hp]; exact ⟨cmp, hop⟩
  · rw [hp]; exact hop

/-- callers pass `Publish: true` to AddPublisher and `Publish: false` to AddReader/Describe
    (`calls_well_formed` below establishes this for every call site in the source) -/
def OpWF : Op → Prop
  | .addPublisher _ r _ => r.publish = true
  | .addReader _ r => r.publish = false
  | .describe _ r => r.publish = false
  | _ => True

/-- … and then the action that was authorized is the matching one. -/
theorem attach_action_matches (auth : AuthFn) (s : St) (ops : List Op) :
    ∀ e ∈ trace auth s ops, OpWF e.2.1 → ∀ cl nm pub, e.2.2 = .attached cl nm pub →
      ∃ r, e.2.1.req? = some r ∧ (toAuth r).path = nm ∧
        (toAuth r).action = (if pub then .publish else .read) ∧
        (r.skipAuth = true ∨ auth (toAuth r) = .ok) := by
  intro e he hwf cl nm pub hout
  obtain ⟨r, hr, _, hp, hauth, hdir⟩ := attach_needs_auth auth s ops e he cl nm pub hout
  refine ⟨r, hr, hp, ?_, hauth⟩
  cases pub with
  | true =>
    obtain ⟨cmp, hop⟩ := hdir
    rw [hop] at hwf
    simp only [OpWF] at hwf
    simp [toAuth, hwf]
  | false =>
    simp only [Bool.false_eq_true, if_false] at hdir
    rw [hdir] at hwf
    simp only [OpWF] at hwf
    simp [toAuth, hwf]

/-- **publisher_conf_current** — a publisher that names the configuration it was authorized against is
    attached only if that configuration is the one in force for the path AT THAT MOMENT of the history
    (so any reload in between that changed it makes the attach fail). -/
theorem publisher_conf_current (auth : AuthFn) (s : St) (ops : List Op) :
    ∀ e ∈ trace auth s ops, ∀ cl r c cl' nm, e.2.1 = .addPublisher cl r (some c) →
      e.2.2 = .attached cl' nm true → findConf e.1.confs r.name r.valid = some c := by
  intro e he cl r c cl' nm hop hout
  rw [trace_step auth s ops e he] at hout
  obtain ⟨r', hr', _, _, hdir⟩ := step_attached hout
  rcases hdir with ⟨_, cmp, hop', cf, hf, hcmp⟩ | ⟨hp, _⟩
  · rw [hop] at hop'
    injection hop' with _ hr hc
    subst hr; subst hc
    rw [hf, hcmp c rfl]
  · cases hp

/-- `FindPathConf` authenticates ALWAYS (SkipAuth is not honoured there) and returns the configuration in force. -/
theorem find_authenticates (auth : AuthFn) (s : St) (ops : List Op) :
    ∀ e ∈ trace auth s ops, ∀ cl r c, e.2.1 = .find cl r → e.2.2 = .found c →
      auth (toAuth r) = .ok ∧ findConf e.1.confs r.name r.valid = some c := by
  intro e he cl r c hop hout
  rw [trace_step auth s ops e he, hop] at hout
  simp only [step] at hout
  cases hf : findConf e.1.confs r.name r.valid with
  | none => rw [hf] at hout; cases hout
  | some c' =>
    rw [hf] at hout
    cases ha : auth (toAuth r) with
    | ok => rw [ha] at hout; injection hout with h; exact ⟨rfl, by rw [h]⟩
    | denyAsk => rw [ha] at hout; cases hout
    | deny => rw [ha] at hout; cases hout

/-- **the two-step pattern** (what every SkipAuth publisher site does): somewhere in the history
    `FindPathConf(name, publish)` succeeded with configuration `c`; later — after arbitrary other ops,
    including reloads — `AddPublisher(name, SkipAuth, ConfToCompare = c)` attached.  Then the authentication
    manager admitted `publish` on exactly that name, and `c` is the configuration in force at the attach. -/
theorem two_step_sound (auth : AuthFn) (s : St) (ops : List Op)
    (e1 e2 : St × Op × Out) (h1 : e1 ∈ trace auth s ops) (h2 : e2 ∈ trace auth s ops)
    (cl : Nat) (r1 r2 : AccessReq) (c : Conf) (cl' : Nat) (nm : Bytes)
    (hf : e1.2.1 = .find cl r1) (hfo : e1.2.2 = .found c) (hpub : r1.publish = true)
    (ha : e2.2.1 = .addPublisher cl r2 (some c)) (hao : e2.2.2 = .attached cl' nm true)
    (hname : r2.name = r1.name) :
    auth (toAuth r1) = .ok ∧ (toAuth r1).action = .publish ∧ (toAuth r1).path = nm ∧
    findConf e2.1.confs r2.name r2.valid = some c := by
  have f := find_authenticates auth s ops e1 h1 cl r1 c hf hfo
  have p := publisher_conf_current auth s ops e2 h2 cl r2 c cl' nm ha hao
  obtain ⟨r, hr, hn, _⟩ := attach_needs_auth auth s ops e2 h2 cl' nm true hao
  rw [ha] at hr
  injection hr with hr
  subst hr
  refine ⟨f.1, by simp [toAuth, hpub], ?_, p⟩
  simp only [toAuth]
  rw [← hname, hn]

/-- a reload that changed the configuration between authorization and attach makes the attach fail -/
theorem stale_conf_rejected (auth : AuthFn) (s : St) (cl : Nat) (r : AccessReq) (c c' : Conf)
    (hf : findConf s.confs r.name r.valid = some c') (hne : c ≠ c') :
    step auth s (.addPublisher cl r (some c)) = (s, .changed) := by
  have hg : gate auth s r (some c) = some .changed := by
    unfold gate
    rw [hf]
    have : cmpMismatch (some c) c' = true := by simpa [cmpMismatch] using hne
    simp [this]
  simp [step, hg]

def Out.isRefusal : Out → Bool
  | .noPath | .changed | .authErr _ | .noStream => true
  | _ => false

/-- refused requests leave no trace in the state -/
theorem refused_no_change (auth : AuthFn) (s : St) (op : Op) (h : (step auth s op).2.isRefusal = true) :
    (step auth s op).1 = s := by
  cases op with
  | find c r =>
    simp only [step]
    split
    · rfl
    · split <;> rfl
  | describe c r =>
    simp only [step]
    split <;> rfl
  | addReader c r =>
    simp only [step]
    split <;> rfl
  | addPublisher c r cmp =>
    simp only [step] at h ⊢
    split
    · rfl
    · rename_i hg
      obtain ⟨cf, hf, _, _⟩ := gate_none hg
      rw [hg, hf] at h
      simp [Out.isRefusal] at h
  | reload cs => simp [step, Out.isRefusal] at h

/-- the executable spec (what the driver evaluates on the implementation's answers) accepts every answer of
    the model: the spec demands nothing the proved model does not do. -/
theorem spec_accepts_model (auth : AuthFn) (s : St) (op : Op) :
    specOp auth s op (step auth s op).2 = none := by
  cases op with
  | find c r =>
    simp only [step]
    cases hf : findConf s.confs r.name r.valid with
    | none => simp [specOp]
    | some cf =>
      cases ha : auth (toAuth r) <;> simp [specOp, ha, hf]
  | describe c r =>
    simp only [step]
    cases hg : gate auth s r none with
    | some e =>
      rcases gate_some hg with rfl | rfl | ⟨a, rfl⟩ <;> simp [specOp]
    | none =>
      obtain ⟨_, _, _, hauth⟩ := gate_none hg
      by_cases hp : hasPub s r.name = true
      · simp only [hp, if_true, specOp]
        rcases hauth with h | h <;> simp [h]
      · simp [hp, specOp]
  | addReader c r =>
    simp only [step]
    cases hg : gate auth s r none with
    | some e =>
      rcases gate_some hg with rfl | rfl | ⟨a, rfl⟩ <;> simp [specOp]
    | none =>
      obtain ⟨_, _, _, hauth⟩ := gate_none hg
      by_cases hp : hasPub s r.name = true
      · simp only [hp, if_true, specOp]
        rcases hauth with h | h <;> simp [h]
      · simp [hp, specOp]
  | addPublisher c r cmp =>
    simp only [step]
    cases hg : gate auth s r cmp with
    | some e =>
      rcases gate_some hg with rfl | rfl | ⟨a, rfl⟩ <;> simp [specOp]
    | none =>
      obtain ⟨cf, hf, hcmp, hauth⟩ := gate_none hg
      simp only [hf, specOp]
      have hA : (!r.skipAuth && auth (toAuth r) != AuthRes.ok) = false := by
        rcases hauth with h | h <;> simp [h]
      cases cmp with
      | none => simp [hA]
      | some c' => simp [hA, hcmp c' rfl]
  | reload cs => simp [step, specOp]

/-! ### Part B: the regenerated tables -/

/-- hand-written expectation per site: which argument justifies skipping authentication there.
    A new SkipAuth site in the source has no row here ⇒ `skipAuth_sites_justified` fails ⇒ the build breaks. -/
def expectations : List Expect := [
  -- RTMP publish: FindPathConf(pathName, Publish) … AddPublisher(pathName, ConfToCompare: res1.Conf), one function
  { file := asc ['i','n','t','e','r','n','a','l','/','s','e','r','v','e','r','s','/','r','t','m','p','/','c','o','n','n','.','g','o'],
    fn := asc ['r','u','n','P','u','b','l','i','s','h'], kind := .twoStep },
  -- SRT publish: runPublish does FindPathConf(streamID.path) and hands res.Conf + streamID to runPublishReader
  { file := asc ['i','n','t','e','r','n','a','l','/','s','e','r','v','e','r','s','/','s','r','t','/','c','o','n','n','.','g','o'],
    fn := asc ['r','u','n','P','u','b','l','i','s','h','R','e','a','d','e','r'], kind := .twoStep },
  -- WebRTC (WHIP) publish: one function
  { file := asc ['i','n','t','e','r','n','a','l','/','s','e','r','v','e','r','s','/','w','e','b','r','t','c','/','s','e','s','s','i','o','n','.','g','o'],
    fn := asc ['r','u','n','P','u','b','l','i','s','h'], kind := .twoStep },
  -- RTSP: ANNOUNCE handler authenticates and stores s.pathConf, RECORD handler attaches with it
  { file := asc ['i','n','t','e','r','n','a','l','/','s','e','r','v','e','r','s','/','r','t','s','p','/','s','e','s','s','i','o','n','.','g','o'],
    fn := asc ['o','n','R','e','c','o','r','d'], kind := .twoStepAcrossHandlers },
  -- RTSP MPEG-TS demuxer: created in onRecord with pathConf: s.pathConf, publishes on behalf of the session
  { file := asc ['i','n','t','e','r','n','a','l','/','s','e','r','v','e','r','s','/','r','t','s','p','/','m','p','e','g','t','s','_','d','e','m','u','x','e','r','.','g','o'],
    fn := asc ['d','o','R','u','n'], kind := .twoStepAcrossHandlers },
  -- HLS muxer: server-side reader, created by Server.createMuxer only (always-remux, or on behalf of a session
  -- whose own AddReader succeeded)
  { file := asc ['i','n','t','e','r','n','a','l','/','s','e','r','v','e','r','s','/','h','l','s','/','m','u','x','e','r','.','g','o'],
    fn := asc ['r','u','n','I','n','n','e','r'], kind := .internalReader [asc ['c','r','e','a','t','e','M','u','x','e','r']] },
  -- HLS CDN session: SkipAuth only if the request carried the configured CDN secret (C43)
  { file := asc ['i','n','t','e','r','n','a','l','/','s','e','r','v','e','r','s','/','h','l','s','/','s','e','s','s','i','o','n','.','g','o'],
    fn := asc ['i','n','i','t','i','a','l','i','z','e'], kind := .sharedSecret },
  -- RPi camera secondary stream: static source reading the primary path named in the configuration
  { file := asc ['i','n','t','e','r','n','a','l','/','s','t','a','t','i','c','s','o','u','r','c','e','s','/','r','p','i','c','a','m','e','r','a','/','s','o','u','r','c','e','_','a','r','m','_','.','g','o'],
    fn := asc ['w','a','i','t','F','o','r','P','r','i','m','a','r','y'], kind := .internalReader [] }
]

/-- every place in internal/** that sets SkipAuth is one of the expected sites and the facts its
    justification needs were re-established from the current source. -/
theorem skipAuth_sites_justified : ∀ s ∈ Gen.C03.sites, siteJustified expectations s = true := by decide

/-- the identifier is not used in any other way (e.g. set from a variable) -/
theorem no_other_skipAuth_use : Gen.C03.otherSkipAuthUses = 0 := by decide

/-- no stale expectation: each row still corresponds to a site -/
theorem expectations_all_used :
    ∀ e ∈ expectations, (Gen.C03.sites.any fun s => e.file == s.file && e.fn == s.fn) = true := by decide

/-- every call of AddPublisher / AddReader / Describe / FindPathConf in internal/** passes a request whose
    `Publish` flag matches the method (`OpWF`), so the authorized action is the matching one. -/
theorem calls_well_formed : ∀ c ∈ Gen.C03.calls, callOK c = true := by decide

/-- the publisher sites all name the configuration they were authorized against -/
theorem publisher_sites_compare_conf :
    ∀ s ∈ Gen.C03.sites, s.target = .addPublisher → s.cmpPresent = true ∧ s.cmpIsFindConf = true := by decide


/-! ### Part C: traces recorded at the real protocol servers -/

theorem ite_some_ne_none (c : Prop) [Decidable c] (a b : String) :
    (if c then some a else some b) ≠ none := by
  split <;> simp

theorem checkFrom_sound (secretOK : Bool) (prev evs : List Ev) (h : checkFrom secretOK prev evs = none) :
    ∀ pre e post, evs = pre ++ e :: post → evProblem secretOK (prev ++ pre) e = none := by
  induction evs generalizing prev with
  | nil => intro pre e post he; cases pre <;> cases he
  | cons x xs ih =>
    intro pre e post he
    simp only [checkFrom] at h
    cases hx : evProblem secretOK prev x with
    | some m => rw [hx] at h; cases h
    | none =>
      rw [hx] at h
      cases pre with
      | nil =>
        simp only [List.nil_append, List.cons.injEq] at he
        rw [← he.1]; simpa using hx
      | cons y ys =>
        simp only [List.cons_append, List.cons.injEq] at he
        have := ih (prev ++ [x]) h ys e post he.2
        rw [← he.1]
        simpa [List.append_assoc] using this

/-- **accepted traces are authorized**: in a connection trace the checker accepts, every attach the path
    manager granted is for a request that (a) carried credentials the permission table admits for exactly
    that name and the matching action, or (b) was SkipAuth and is preceded IN THE SAME CONNECTION by such an
    admitted, non-SkipAuth, granted request for exactly that name and action — for a publisher by the
    FindPathConf whose configuration it names in ConfToCompare — or (c) is a reader of a client that
    presented the CDN secret. -/
theorem accepted_trace_authorized (secretOK : Bool) (evs : List Ev) (h : checkTrace secretOK evs = none) :
    ∀ pre e post, evs = pre ++ e :: post → e.isAttach = true →
      ((e.kind == .addPub) = e.publish) ∧
      ((e.skip = false ∧ e.admitted = true) ∨
       (e.skip = true ∧ ∃ f ∈ pre, justifies f e = true) ∨
       (e.skip = true ∧ secretOK = true ∧ e.kind = .addReader)) := by
  intro pre e post he ha
  have hp := checkFrom_sound secretOK [] evs h pre e post he
  have hk : (e.kind == EvKind.media) = false := by
    simp only [Ev.isAttach, Bool.and_eq_true, Bool.or_eq_true, beq_iff_eq] at ha
    rcases ha.2 with h | h <;> simp [h]
  simp only [List.nil_append, evProblem, hk, ha, Bool.not_true, Bool.false_eq_true, if_false] at hp
  by_cases h1 : ((e.kind == EvKind.addPub) != e.publish) = true
  · simp [h1] at hp
  · simp only [h1] at hp
    refine ⟨by simpa using h1, ?_⟩
    cases hs : e.skip with
    | false =>
      simp only [hs, Bool.not_false, if_true] at hp
      cases hadm : e.admitted with
      | true => exact Or.inl ⟨rfl, rfl⟩
      | false => simp [hadm] at hp
    | true =>
      simp only [hs, Bool.not_true, Bool.false_eq_true, if_false] at hp
      by_cases hj : (pre.any fun f => justifies f e) = true
      · rw [List.any_eq_true] at hj
        obtain ⟨f, hf, hjf⟩ := hj
        exact Or.inr (Or.inl ⟨rfl, f, hf, hjf⟩)
      · simp only [hj] at hp
        by_cases hsec : (secretOK && e.kind == EvKind.addReader) = true
        · simp only [Bool.and_eq_true, beq_iff_eq] at hsec
          exact Or.inr (Or.inr ⟨rfl, hsec.1, hsec.2⟩)
        · simp only [hsec] at hp
          exact absurd hp (ite_some_ne_none _ _ _)

/-- **media is backed by an authorization for that path**: in an accepted trace, every media response that was
    served for path `p` is preceded in the same session by an admitted, granted, non-SkipAuth reader request for
    exactly `p` (or the client holds the CDN secret). -/
theorem accepted_media_authorized (evs : List Ev) (h : checkTrace false evs = none) :
    ∀ pre e post, evs = pre ++ e :: post → e.kind = .media → e.granted = true →
      ∃ f ∈ pre, f.skip = false ∧ f.publish = false ∧ f.admitted = true ∧ f.granted = true ∧ f.name = e.name := by
  intro pre e post he hk hg
  have hp := checkFrom_sound false [] evs h pre e post he
  simp only [List.nil_append, evProblem, hk, beq_self_eq_true, if_true, hg, Bool.not_true, Bool.false_or] at hp
  by_cases hb : (pre.any fun f => backsMedia f e) = true
  · rw [List.any_eq_true] at hb
    obtain ⟨f, hf, hbf⟩ := hb
    simp only [backsMedia, Bool.and_eq_true, Bool.not_eq_true', beq_iff_eq, bne_iff_ne] at hbf
    exact ⟨f, hf, hbf.1.1.1.1.2, hbf.1.1.1.2, hbf.1.1.2, hbf.1.2, hbf.2⟩
  · simp [hb] at hp

/-- what `justifies` gives for a publisher: the earlier request is an admitted FindPathConf for the same name
    with Publish, and ConfToCompare names the configuration it returned. -/
theorem justifies_publisher (f e : Ev) (hk : e.kind = .addPub) (h : justifies f e = true) :
    f.kind = .find ∧ f.skip = false ∧ f.admitted = true ∧ f.granted = true ∧ f.name = e.name ∧
    f.publish = e.publish ∧ e.conf ≠ 0 ∧ e.conf = f.conf := by
  simp only [justifies, hk, Bool.and_eq_true, Bool.not_eq_true', beq_iff_eq, bne_iff_ne, ne_eq,
    not_true_eq_false, Bool.or_eq_true, false_or, decide_eq_true_eq] at h
  obtain ⟨⟨⟨⟨⟨h1, h2⟩, h3⟩, h4⟩, h5⟩, ⟨h6, h7⟩, h8⟩ := h
  exact ⟨h6, h1, h2, h3, h4, h5, h7, h8⟩

/-! ### non-vacuity -/

section
private def cCam : Conf := ⟨asc ['c','a','m'], .static, [], 1, 1⟩
private def cCam2 : Conf := ⟨asc ['c','a','m'], .static, [], 2, 1⟩
private def rq (skip : Bool) (u : Bytes) : AccessReq :=
  ⟨asc ['c','a','m'], [], true, skip, 0, u, [], [], true⟩
private def authAlice : AuthFn := fun q => if q.user = asc ['a'] ∧ q.action = .publish then .ok else .deny

/-- find (admitted) → reload that changes the configuration → attach with the stale configuration fails;
    with the current one it succeeds; without credentials and without SkipAuth it is refused. -/
example :
    (trace authAlice { confs := [cCam] }
      [.find 1 (rq false (asc ['a'])), .reload [cCam2], .addPublisher 1 (rq true []) (some cCam),
       .addPublisher 1 (rq true []) (some cCam2), .addPublisher 2 (rq false []) none]).map (·.2.2) =
    [.found cCam, .reloaded, .changed, .attached 1 (asc ['c','a','m']) true, .authErr false] := by decide
end

end MtxVerif.C03
