/-
C43 — HLS media is served only to authorized sessions.  Property theorems about `Model/C43`.
-/
import MtxVerif.Model.C43

namespace MtxVerif.C43

/-! ### helper facts (no property is stated in this block) -/

theorem mem_addIfMissing {x d : Bytes} {l : List Bytes} : x ∈ addIfMissing d l ↔ x = d ∨ x ∈ l := by
  unfold addIfMissing
  split
  · rename_i h
    constructor
    · exact Or.inr
    · rintro (h1 | h1)
      · subst h1; simpa using h
      · exact h1
  · simp

theorem isCDN_iff (sec : Bytes) (hdrs : List Bytes) :
    isCDN sec hdrs = true ↔ sec ≠ [] ∧ hdrs.headD [] = kBearer ++ sec := by
  simp [isCDN]

theorem create_cdnSecret (st : St) (c : Create) : (create st c).1.cdnSecret = st.cdnSecret := by
  unfold create
  repeat' split
  all_goals rfl

theorem step_cdnSecret (st : St) (op : Op) : (step st op).cdnSecret = st.cdnSecret := by
  cases op with
  | create c => exact create_cdnSecret st c
  | probe p => rfl
  | kick k => rfl
  | closeMux d => rfl

theorem run_cdnSecret (st : St) (ops : List Op) : (run st ops).cdnSecret = st.cdnSecret := by
  induction ops generalizing st with
  | nil => rfl
  | cons op rest ih => simp only [run, ih, step_cdnSecret]

/-! ### invariant of every reachable state -/

structure Inv (st : St) : Prop where
  /-- secret indices handed out so far are below the counter -/
  lt : ∀ s ∈ st.sessions, s.id < st.next
  /-- a secret designates one session (uuid.New is fresh) -/
  nodup : st.sessions.Pairwise (fun a b => a.id ≠ b.id)
  /-- every session sits in the map of an existing muxer -/
  hasMux : ∀ s ∈ st.sessions, s.dir ∈ st.muxers
  /-- a CDN session belongs to an existing muxer -/
  cdnMux : ∀ d ∈ st.cdn, d ∈ st.muxers

theorem inv_init (sec : Bytes) : Inv (init sec) :=
  ⟨by simp [init], by simp [init], by simp [init], by simp [init]⟩

theorem inv_create (st : St) (c : Create) (h : Inv st) : Inv (create st c).1 := by
  unfold create
  split
  · split
    · exact h
    · split
      · exact h
      · exact ⟨h.lt, h.nodup, fun s hs => mem_addIfMissing.mpr (Or.inr (h.hasMux s hs)),
          fun d hd => by
            rcases mem_addIfMissing.mp hd with hd | hd
            · exact mem_addIfMissing.mpr (Or.inl hd)
            · exact mem_addIfMissing.mpr (Or.inr (h.cdnMux d hd))⟩
  · split
    · exact h
    · split
      · exact h
      · split
        · exact h
        · refine ⟨?_, ?_, ?_, ?_⟩
          · intro s hs
            rcases List.mem_cons.mp hs with hs | hs
            · subst hs; exact Nat.lt_succ_self _
            · exact Nat.lt_succ_of_lt (h.lt s hs)
          · refine List.pairwise_cons.mpr ⟨?_, h.nodup⟩
            intro s hs
            have := h.lt s hs
            simp only [ne_eq]
            omega
          · intro s hs
            rcases List.mem_cons.mp hs with hs | hs
            · subst hs; exact mem_addIfMissing.mpr (Or.inl rfl)
            · exact mem_addIfMissing.mpr (Or.inr (h.hasMux s hs))
          · intro d hd; exact mem_addIfMissing.mpr (Or.inr (h.cdnMux d hd))

theorem inv_kick (st : St) (k : Nat) (h : Inv st) : Inv (kick st k).1 :=
  ⟨fun s hs => h.lt s (List.mem_filter.mp hs).1,
   h.nodup.sublist List.filter_sublist,
   fun s hs => h.hasMux s (List.mem_filter.mp hs).1,
   h.cdnMux⟩

theorem inv_closeMux (st : St) (d : Bytes) (h : Inv st) : Inv (closeMux st d).1 := by
  refine ⟨fun s hs => h.lt s (List.mem_filter.mp hs).1, h.nodup.sublist List.filter_sublist, ?_, ?_⟩
  · intro s hs
    obtain ⟨h1, h2⟩ := List.mem_filter.mp hs
    exact List.mem_filter.mpr ⟨h.hasMux s h1, by simpa using h2⟩
  · intro x hx
    obtain ⟨h1, h2⟩ := List.mem_filter.mp hx
    exact List.mem_filter.mpr ⟨h.cdnMux x h1, h2⟩

theorem inv_step (st : St) (op : Op) (h : Inv st) : Inv (step st op) := by
  cases op with
  | create c => exact inv_create st c h
  | probe p => exact h
  | kick k => exact inv_kick st k h
  | closeMux d => exact inv_closeMux st d h

/-- the invariant holds after every history -/
theorem inv_run (sec : Bytes) (ops : List Op) : Inv (run (init sec) ops) := by
  suffices ∀ st, Inv st → Inv (run st ops) from this _ (inv_init sec)
  induction ops with
  | nil => intro st h; exact h
  | cons op rest ih => intro st h; exact ih _ (inv_step st op h)

theorem unique_of_id {l : List Sess} (hp : l.Pairwise (fun a b => a.id ≠ b.id)) {a b : Sess}
    (ha : a ∈ l) (hb : b ∈ l) (hid : a.id = b.id) : a = b := by
  induction l with
  | nil => cases ha
  | cons x xs ih =>
    obtain ⟨hx, hxs⟩ := List.pairwise_cons.mp hp
    rcases List.mem_cons.mp ha with ha | ha <;> rcases List.mem_cons.mp hb with hb | hb
    · rw [ha, hb]
    · rw [ha] at hid; exact absurd hid (hx b hb)
    · rw [hb] at hid; exact absurd hid.symm (hx a ha)
    · exact ih hxs ha hb

/-! ### the decision -/

theorem findSession_sound (st : St) (p : Probe) (s : Sess) (h : findSession st p = some s) :
    s ∈ st.sessions ∧ carried p = .sess s.id ∧ s.dir = p.dir ∧ s.ip = p.ip := by
  unfold findSession at h
  split at h
  · rename_i k hk
    split at h
    · rename_i s' hf
      split at h
      · rename_i hip
        injection h with h; subst h
        have hm := List.mem_of_find?_eq_some hf
        have hp := List.find?_some hf
        simp only [Bool.and_eq_true, beq_iff_eq] at hp hip
        exact ⟨hm, by rw [hk, hp.1], hp.2, hip⟩
      · cases h
    · cases h
  · cases h

theorem findSession_complete (st : St) (hinv : Inv st) (p : Probe) (s : Sess) (hs : s ∈ st.sessions)
    (hc : carried p = .sess s.id) (hd : s.dir = p.dir) (hip : s.ip = p.ip) :
    findSession st p = some s := by
  unfold findSession
  rw [hc]
  simp only
  cases hf : st.sessions.find? (fun x => x.id == s.id && x.dir == p.dir) with
  | none =>
    have := List.find?_eq_none.mp hf s hs
    simp [hd] at this
  | some s' =>
    have hm := List.mem_of_find?_eq_some hf
    have hp := List.find?_some hf
    simp only [Bool.and_eq_true, beq_iff_eq] at hp
    have : s' = s := unique_of_id hinv.nodup hm hs hp.1
    subst this
    simp [hip]

/-- **served_iff**: in every reachable state a media playlist / segment request is handed to the
muxer iff the path has a muxer and EITHER the request carries the configured (non-empty) CDN secret
as `Authorization: Bearer <secret>` and that muxer holds a CDN session, OR it does not and the carried
secret (cookie if there is one, else query) is that of a session in the map of the muxer of THAT path
whose IP equals the client's. -/
theorem served_iff (st : St) (hinv : Inv st) (p : Probe) :
    serve st p = true ↔
      p.dir ∈ st.muxers ∧
        ((isCDN st.cdnSecret p.hdrs = true ∧ p.dir ∈ st.cdn) ∨
         (isCDN st.cdnSecret p.hdrs = false ∧
            ∃ s ∈ st.sessions, carried p = .sess s.id ∧ s.dir = p.dir ∧ s.ip = p.ip)) := by
  unfold serve
  by_cases hm : p.dir ∈ st.muxers
  · have hm' : st.muxers.contains p.dir = true := by simpa using hm
    simp only [hm', if_true, hm, true_and]
    cases hcdn : isCDN st.cdnSecret p.hdrs with
    | true => simp
    | false =>
      simp only [Bool.false_eq_true, if_false, false_and, false_or, true_and]
      constructor
      · intro h
        obtain ⟨s, hs⟩ := Option.isSome_iff_exists.mp h
        obtain ⟨h1, h2, h3, h4⟩ := findSession_sound st p s hs
        exact ⟨s, h1, h2, h3, h4⟩
      · rintro ⟨s, h1, h2, h3, h4⟩
        rw [findSession_complete st hinv p s h1 h2 h3 h4]; rfl
  · have hm' : st.muxers.contains p.dir = false := by simpa using hm
    simp [hm]

/-- soundness half without the invariant: what a served request must have carried -/
theorem served_sound (st : St) (p : Probe) (h : serve st p = true) :
    isCDN st.cdnSecret p.hdrs = true ∨
      ∃ s ∈ st.sessions, carried p = .sess s.id ∧ s.dir = p.dir ∧ s.ip = p.ip := by
  unfold serve at h
  split at h
  · split at h
    · rename_i hc; exact Or.inl hc
    · obtain ⟨s, hs⟩ := Option.isSome_iff_exists.mp h
      obtain ⟨h1, h2, h3, h4⟩ := findSession_sound st p s hs
      exact Or.inr ⟨s, h1, h2, h3, h4⟩
  · cases h

/-- **cookie precedence, exactly as coded**: when a `hlsSession` cookie is present (even an
unparsable one) the `session` query parameter is not looked at -/
theorem cookie_precedence (st : St) (p : Probe) (c : SRef) (q : SRef) (h : p.cookie = some c) :
    serve st { p with query := q } = serve st p := by
  simp [serve, findSession, carried, h]

/-- without a cookie the query parameter decides -/
theorem query_without_cookie (p : Probe) (h : p.cookie = none) : carried p = p.query := by
  simp [carried, h]

/-- **empty CDN secret**: with `hlsCDNSecret` unset no header — in particular not `Bearer ` — makes a
request a CDN request -/
theorem empty_cdn_secret (hdrs : List Bytes) : isCDN [] hdrs = false := by
  simp [isCDN]

/-- **sessions are per muxer**: the secret of a session of another path does not open this path -/
theorem other_path_secret (st : St) (hinv : Inv st) (p : Probe) (s : Sess) (hs : s ∈ st.sessions)
    (hc : carried p = .sess s.id) (hd : s.dir ≠ p.dir) (hcdn : isCDN st.cdnSecret p.hdrs = false) :
    serve st p = false := by
  cases h : serve st p with
  | false => rfl
  | true =>
    rcases served_sound st p h with h1 | ⟨s', h1, h2, h3, _⟩
    · rw [hcdn] at h1; cases h1
    · rw [hc] at h2
      injection h2 with h2
      have := unique_of_id hinv.nodup hs h1 h2
      subst this
      exact absurd h3 hd

/-- **same IP**: the right secret from another client IP is refused -/
theorem wrong_ip (st : St) (hinv : Inv st) (p : Probe) (s : Sess) (hs : s ∈ st.sessions)
    (hc : carried p = .sess s.id) (hip : s.ip ≠ p.ip) (hcdn : isCDN st.cdnSecret p.hdrs = false) :
    serve st p = false := by
  cases h : serve st p with
  | false => rfl
  | true =>
    rcases served_sound st p h with h1 | ⟨s', h1, h2, _, h4⟩
    · rw [hcdn] at h1; cases h1
    · rw [hc] at h2
      injection h2 with h2
      have := unique_of_id hinv.nodup hs h1 h2
      subst this
      exact absurd h4 hip

/-- a secret that is not a UUID, or no session's secret, opens nothing -/
theorem bad_secret (st : St) (p : Probe) (hc : carried p = .bad ∨ carried p = .unk)
    (hcdn : isCDN st.cdnSecret p.hdrs = false) : serve st p = false := by
  cases h : serve st p with
  | false => rfl
  | true =>
    rcases served_sound st p h with h1 | ⟨s', _, h2, _, _⟩
    · rw [hcdn] at h1; cases h1
    · rcases hc with hc | hc <;> rw [hc] at h2 <;> cases h2

/-! ### sessions are only created by authorized requests -/

/-- exactly when a playlist request creates a session -/
theorem create_session_iff (st : St) (c : Create) (k : Nat) :
    (create st c).2 = .okNew k ↔
      isCDN st.cdnSecret c.hdrs = false ∧ c.cc ≠ .none ∧ c.auth = true ∧ c.known = true ∧ k = st.next := by
  unfold create
  cases hcdn : isCDN st.cdnSecret c.hdrs with
  | true =>
    simp only [if_true, Bool.true_eq_false, false_and, iff_false]
    repeat' split
    all_goals simp
  | false =>
    simp only [Bool.false_eq_true, if_false, true_and]
    by_cases hcc : c.cc = .none
    · simp [hcc]
    · cases ha : c.auth with
      | false => simp [hcc]
      | true =>
        cases hk : c.known with
        | false => simp [hcc]
        | true =>
          simp only [hcc, if_false, Bool.not_true, Bool.false_eq_true, COut.okNew.injEq, ne_eq,
            not_false_eq_true, true_and]
          exact eq_comm

/-- the sessions after a playlist request: the old ones, plus possibly the one just created -/
theorem create_sessions (st : St) (c : Create) (s : Sess) (hs : s ∈ (create st c).1.sessions) :
    s ∈ st.sessions ∨ (s = ⟨st.next, c.dir, c.ip⟩ ∧ (create st c).2 = .okNew st.next) := by
  unfold create at hs ⊢
  repeat' split at hs
  all_goals first
    | exact Or.inl hs
    | (rcases List.mem_cons.mp hs with hs | hs
       · right
         refine ⟨hs, ?_⟩
         simp_all
       · exact Or.inl hs)

/-- an unauthorized (and non-CDN) playlist request changes nothing -/
theorem denied_create_no_change (st : St) (c : Create) (ha : c.auth = false)
    (hcdn : isCDN st.cdnSecret c.hdrs = false) : (create st c).1 = st := by
  unfold create
  simp only [hcdn, Bool.false_eq_true, if_false, ha, Bool.not_false, if_true]
  split <;> rfl

/-- `CreatedBy st0 ops k dir ip`: in the history `ops` (started in `st0`) the session with secret
index `k` was created by a playlist request for path `dir` from client IP `ip` that the path manager
authorized for reading and that was not a CDN request -/
def CreatedBy (st0 : St) (ops : List Op) (k : Nat) (dir ip : Bytes) : Prop :=
  ∃ pre c post, ops = pre ++ Op.create c :: post ∧
    c.auth = true ∧ isCDN st0.cdnSecret c.hdrs = false ∧ c.cc ≠ .none ∧ c.known = true ∧
    c.dir = dir ∧ c.ip = ip ∧ (create (run st0 pre) c).2 = .okNew k

theorem step_sessions (st : St) (op : Op) (s : Sess) (hs : s ∈ (step st op).sessions) :
    s ∈ st.sessions ∨ CreatedBy st [op] s.id s.dir s.ip := by
  cases op with
  | create c =>
    rcases create_sessions st c s hs with h | ⟨h1, h2⟩
    · exact Or.inl h
    · right
      obtain ⟨a, b, c', d, _⟩ := (create_session_iff st c st.next).mp h2
      subst h1
      exact ⟨[], c, [], rfl, c', a, b, d, rfl, rfl, h2⟩
  | probe p => exact Or.inl hs
  | kick k => exact Or.inl (List.mem_filter.mp hs).1
  | closeMux d => exact Or.inl (List.mem_filter.mp hs).1

/-- **sessions_only_from_authorized** (invariant over histories, generalised start state): every
session present after a history either was there at the start or was created, in that history, by an
authorized playlist request for its path from its IP -/
theorem sessions_justified : ∀ (ops : List Op) (Q : Nat → Bytes → Bytes → Prop) (st : St),
    (∀ s ∈ st.sessions, Q s.id s.dir s.ip) →
    ∀ s ∈ (run st ops).sessions, Q s.id s.dir s.ip ∨ CreatedBy st ops s.id s.dir s.ip := by
  intro ops
  induction ops with
  | nil => intro Q st h s hs; exact Or.inl (h s hs)
  | cons op rest ih =>
    intro Q st h s hs
    have h1 : ∀ x ∈ (step st op).sessions,
        (fun k d i => Q k d i ∨ CreatedBy st [op] k d i) x.id x.dir x.ip := by
      intro x hx
      rcases step_sessions st op x hx with hx | hx
      · exact Or.inl (h x hx)
      · exact Or.inr hx
    rcases ih (fun k d i => Q k d i ∨ CreatedBy st [op] k d i) (step st op) h1 s hs with (hq | hc) | hc
    · exact Or.inl hq
    · right
      obtain ⟨pre, c, post, heq, r⟩ := hc
      cases pre with
      | nil =>
        simp only [List.nil_append, List.cons.injEq] at heq
        obtain ⟨h2, h3⟩ := heq
        subst h3
        exact ⟨[], c, rest, by simp [h2], r⟩
      | cons x pre =>
        simp only [List.cons_append, List.cons.injEq] at heq
        have := congrArg List.length heq.2
        simp at this
    · right
      obtain ⟨pre, c, post, heq, r1, r2, r3, r4, r5, r6, r7⟩ := hc
      refine ⟨op :: pre, c, post, by simp [heq], r1, ?_, r3, r4, r5, r6, ?_⟩
      · rw [step_cdnSecret] at r2; exact r2
      · simpa [run] using r7

/-- every session of a reachable state was created by an authorized request -/
theorem sessions_only_from_authorized (sec : Bytes) (ops : List Op) :
    ∀ s ∈ (run (init sec) ops).sessions, CreatedBy (init sec) ops s.id s.dir s.ip := by
  intro s hs
  rcases sessions_justified ops (fun _ _ _ => False) (init sec) (by simp [init]) s hs with h | h
  · exact h.elim
  · exact h

/-- **C43 at full strength.**  After ANY history of playlist requests, probes, kicks and muxer
destructions, a media playlist or segment request for path `p.dir` from client IP `p.ip` is served only
if it carries the configured non-empty CDN secret (`Authorization: Bearer <secret>`), or carries — in
the cookie, or in the query when there is no cookie — the secret of a session that was created for
that very path, from that very IP, by a request the path manager authorized. -/
theorem served_only_authorized (sec : Bytes) (ops : List Op) (p : Probe)
    (h : serve (run (init sec) ops) p = true) :
    (sec ≠ [] ∧ p.hdrs.headD [] = kBearer ++ sec) ∨
    ∃ k, (p.cookie = some (.sess k) ∨ (p.cookie = none ∧ p.query = .sess k)) ∧
      CreatedBy (init sec) ops k p.dir p.ip := by
  rcases served_sound _ p h with h1 | ⟨s, h1, h2, h3, h4⟩
  · left
    rw [run_cdnSecret] at h1
    exact (isCDN_iff sec p.hdrs).mp h1
  · right
    refine ⟨s.id, ?_, ?_⟩
    · unfold carried at h2
      cases hc : p.cookie with
      | none => rw [hc] at h2; exact Or.inr ⟨rfl, h2⟩
      | some c => rw [hc] at h2; simp only at h2; exact Or.inl (by rw [h2])
    · have := sessions_only_from_authorized sec ops s h1
      rw [h3, h4] at this
      exact this

/-- probes never create, change or remove sessions -/
theorem probe_pure (st : St) (p : Probe) : step st (.probe p) = st := rfl

/-- the executable spec used by the driver is implied by the model: a request the model serves passes
`specServeOk` for any ledger that lists the sessions of the state -/
theorem spec_of_serve (st : St) (led : Ledger) (p : Probe)
    (hled : ∀ s ∈ st.sessions, (s.id, s.dir, s.ip) ∈ led) (h : serve st p = true) :
    specServeOk st.cdnSecret led p = true := by
  unfold specServeOk
  rcases served_sound st p h with h1 | ⟨s, h1, h2, h3, h4⟩
  · simp [h1]
  · simp only [Bool.or_eq_true, List.any_eq_true]
    right
    refine ⟨(s.id, s.dir, s.ip), hled s h1, ?_⟩
    have : p.cookie = some (.sess s.id) ∨ p.query = .sess s.id := by
      unfold carried at h2
      cases hc : p.cookie with
      | none => rw [hc] at h2; exact Or.inr h2
      | some c => rw [hc] at h2; simp only at h2; exact Or.inl (by rw [h2])
    rcases this with h5 | h5 <;> simp [h5, h3, h4]

/-! non-vacuity (tests) -/

def exCreate : Create :=
  { dir := asc ['p'], ip := asc ['1'], known := true, cc := .query, hdrs := [], auth := true }

-- an authorized request creates session 0; its secret opens the path from the same IP, in the query …
example : serve (run (init []) [.create exCreate])
    { dir := asc ['p'], ip := asc ['1'], cookie := none, query := .sess 0, hdrs := [] } = true := by decide
-- … not from another IP …
example : serve (run (init []) [.create exCreate])
    { dir := asc ['p'], ip := asc ['2'], cookie := none, query := .sess 0, hdrs := [] } = false := by decide
-- … not when an unparsable cookie shadows it …
example : serve (run (init []) [.create exCreate])
    { dir := asc ['p'], ip := asc ['1'], cookie := some .bad, query := .sess 0, hdrs := [] } = false := by decide
-- … and not after the session was kicked
example : serve (run (init []) [.create exCreate, .kick 0])
    { dir := asc ['p'], ip := asc ['1'], cookie := none, query := .sess 0, hdrs := [] } = false := by decide
-- an unauthorized request creates nothing
example : (run (init []) [.create { exCreate with auth := false }]).sessions = [] := by decide
-- `Authorization: Bearer ` with an empty CDN secret is not a CDN request
example : isCDN [] [kBearer] = false := by decide

end MtxVerif.C43
