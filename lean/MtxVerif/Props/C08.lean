/-
C08 — configuration survives JSON encode/decode round trips.  Property theorems for the two codecs with
non-trivial arithmetic (Duration, StringSize); the whole configuration is tied by correspondence.
-/
import MtxVerif.Lemmas.C08

namespace MtxVerif.C08

/-! ### Duration -/
theorem marshalDur_eq_textOf (fmt : Int → Bytes) (d : Int) (h1 : minI64 < d) (h2 : d ≤ maxI64) :
    marshalDur fmt d = textOf fmt (decide (d < 0)) (if d < 0 then -d else d) := by
  unfold marshalDur textOf
  by_cases hneg : d < 0
  · have hw : wrap64 (-d) = -d := wrap64_id (by unfold minI64 maxI64 two63 at *; omega) (by unfold minI64 maxI64 two63 at *; omega)
    have hnn : 0 ≤ -d := by omega
    simp only [hneg, decide_true, if_true, hw, Int.tdiv_eq_ediv_of_nonneg hnn, Int.tmod_eq_emod_of_nonneg hnn]
  · have hnn : 0 ≤ d := by omega
    simp only [hneg, decide_false, Bool.false_eq_true, if_false, Int.tdiv_eq_ediv_of_nonneg hnn, Int.tmod_eq_emod_of_nonneg hnn]

theorem marshalDurFixed_eq_textOf (fmt : Int → Bytes) (d : Int) :
    marshalDurFixed fmt d = textOf fmt (decide (d < 0)) (if d < 0 then -d else d) := by
  unfold marshalDurFixed textOf
  by_cases hneg : d < 0 <;> simp only [hneg, decide_true, decide_false, if_true, Bool.false_eq_true, if_false]

/-- **Duration round trip**: every duration except the most negative one survives
`MarshalJSON` → `UnmarshalJSON` (for every `String`/`ParseDuration` pair satisfying `DurLib`). -/
theorem duration_rt {fmt : Int → Bytes} {parse : Bytes → Option Int} (L : DurLib fmt parse)
    (d : Int) (h1 : minI64 < d) (h2 : d ≤ maxI64) : unmarshalDur parse (marshalDur fmt d) = some d := by
  rw [marshalDur_eq_textOf fmt d h1 h2]
  by_cases hneg : d < 0
  · have := unmarshal_textOf L true (-d) (by omega) (Or.inl (by unfold minI64 maxI64 two63 at *; omega)) (fun _ => by omega)
    simp only [hneg, decide_true, if_true] at this ⊢
    rw [this, Int.neg_neg, wrap64_id (by omega) h2]
  · have := unmarshal_textOf L false d (by omega) (Or.inl h2) (fun h => by cases h)
    simp only [hneg, decide_false, Bool.false_eq_true, if_false] at this ⊢
    exact this

/-- with the proposed marshaller the round trip holds on the whole int64 range -/
theorem durationFixed_rt {fmt : Int → Bytes} {parse : Bytes → Option Int} (L : DurLib fmt parse)
    (d : Int) (h1 : minI64 ≤ d) (h2 : d ≤ maxI64) : unmarshalDur parse (marshalDurFixed fmt d) = some d := by
  rw [marshalDurFixed_eq_textOf]
  by_cases hneg : d < 0
  · have hm : -d ≤ maxI64 ∨ (true = true ∧ -d = two63) := by
      by_cases he : d = minI64
      · right; exact ⟨rfl, by rw [he]; unfold minI64; omega⟩
      · left; unfold minI64 maxI64 two63 at *; omega
    have := unmarshal_textOf L true (-d) (by omega) hm (fun _ => by omega)
    simp only [hneg, decide_true, if_true] at this ⊢
    rw [this, Int.neg_neg, wrap64_id h1 h2]
  · have := unmarshal_textOf L false d (by omega) (Or.inl h2) (fun h => by cases h)
    simp only [hneg, decide_false, Bool.false_eq_true, if_false] at this ⊢
    exact this

/-- the proposed marshaller writes the same text wherever the current one is correct -/
theorem marshalDurFixed_agrees (fmt : Int → Bytes) (d : Int) (h1 : minI64 < d) (h2 : d ≤ maxI64) :
    marshalDurFixed fmt d = marshalDur fmt d := by
  rw [marshalDurFixed_eq_textOf, marshalDur_eq_textOf fmt d h1 h2]


/-- the property at full strength for durations — FALSE on the current tree -/
def duration_rt_full : Prop :=
  ∀ (fmt : Int → Bytes) (parse : Bytes → Option Int), DurLib fmt parse →
    ∀ d : Int, minI64 ≤ d → d ≤ maxI64 → unmarshalDur parse (marshalDur fmt d) = some d

/-- `-d` overflows at MinInt64: the text starts with two minus signs and cannot be read back -/
theorem duration_rt_witness : ¬ duration_rt_full := by
  intro h
  have := h fmtT parseT toyLib minI64 (by decide) (by decide)
  revert this
  decide


/-! ### StringSize -/


/-- below 1 KiB the value is printed exactly -/
theorem ss_rt_small (s : Nat) (h : s < 1024) : roundTripSS s = s := by
  unfold roundTripSS toBytesQ byteSizeQ rhe
  simp only [unitIdx_small h, Nat.pow_zero, Nat.mod_one, Nat.div_one, Nat.mul_zero, Nat.mul_one]
  simp

/-- **characterisation** (in the model, for every uint64): a byte size survives Marshal → Unmarshal exactly when
it is below 1 KiB or equals ⌊q · unit / 10⌋ for some number of tenths q. -/
theorem ss_rt_iff (s : Nat) :
    roundTripSS s = s ↔ (s < 1024 ∨ ∃ q, s = q * 1024 ^ unitIdx s / 10) := by
  constructor
  · intro hr
    exact Or.inr ⟨_, hr.symm⟩
  · rintro (hc | ⟨q, hq⟩)
    · exact ss_rt_small s hc
    · by_cases hs : s < 1024
      · exact ss_rt_small s hs
      · have hk := unitIdx_ge (by omega : 1024 ≤ s)
        have hu : 20 < 1024 ^ unitIdx s :=
          calc 20 < 1024 ^ 1 := by decide
            _ ≤ 1024 ^ unitIdx s := Nat.pow_le_pow_right (by decide) hk
        unfold roundTripSS toBytesQ byteSizeQ
        simp only [rhe_of_floor _ q s hu hq]
        exact hq.symm

/-- the property at full strength for byte sizes — FALSE on the current tree (F-C08) -/
def ss_rt_full : Prop := ∀ s : Nat, s < 2 ^ 64 → roundTripSS s = s

/-- 1500 bytes are printed as "1.5K" and read back as 1536 -/
theorem ss_rt_witness : ¬ ss_rt_full := by
  intro h
  have := h 1500 (by decide)
  revert this
  decide

/-- partial: the class outside the finding (whole multiples of the unit are in it) -/
theorem ss_rt_partial (s : Nat) (h : rtOK s = true) : roundTripSS s = s := by
  simpa [rtOK] using h



/-- quantitative form of F-C08: the value read back is off by at most one twentieth of the unit (+1 byte of
truncation), i.e. by at most 5 % -/
theorem ss_error_bound (s : Nat) :
    20 * roundTripSS s ≤ 20 * s + 1024 ^ unitIdx s ∧ 20 * s ≤ 20 * roundTripSS s + 1024 ^ unitIdx s + 20 := by
  have hu : 0 < 1024 ^ unitIdx s := Nat.pow_pos (by decide)
  obtain ⟨h1, h2⟩ := rhe_bound (10 * s) (1024 ^ unitIdx s) hu
  unfold roundTripSS toBytesQ byteSizeQ
  simp only []
  have hd := Nat.div_add_mod (rhe (10 * s) (1024 ^ unitIdx s) * 1024 ^ unitIdx s) 10
  have hm := Nat.mod_lt (rhe (10 * s) (1024 ^ unitIdx s) * 1024 ^ unitIdx s) (by decide : 0 < 10)
  omega

/-- with the proposed exact encoding every byte size survives — no side condition -/
theorem ssFixed_rt (s : Nat) : roundTripSSFixed s = s := by
  obtain ⟨j, hj, hd⟩ := exactIdxFuel_dvd 6 s 0
  unfold roundTripSSFixed exactIdx
  rw [hj, Nat.zero_add]
  exact Nat.div_mul_cancel hd


/-! ### non-vacuity / sanity examples (tests, not theorems) -/

example : roundTripSS 1500 = 1536 ∧ marshalSS 1500 = b!"1.5K" := by decide
example : roundTripSS 1536 = 1536 ∧ roundTripSS 1126 = 1126 ∧ marshalSS 1126 = b!"1.1K" := by decide
example : marshalSS 0 = b!"0B" ∧ marshalSS 1023 = b!"1023B" ∧ marshalSS 1048575 = b!"1024K" ∧ roundTripSS 1048575 = 1048576 := by decide
example : marshalSSFixed 1500 = b!"1500B" ∧ marshalSSFixed 52428800 = b!"50M" ∧ marshalSSFixed 0 = b!"0B" := by decide
example : marshalDur fmtT 90000000000000 = b!"1d3600000000000ns" ∧ marshalDur fmtT (-5) = b!"-5ns" ∧ marshalDur fmtT 0 = [] := by decide
example : unmarshalDur parseT b!"-2d5ns" = some (-172800000000005) ∧ unmarshalDur parseT b!"d" = none := by decide
-- the hypotheses of `duration_rt` are satisfiable (`toyLib`), and the clamped ParseInt is visible:
example : unmarshalDur parseT b!"9223372036854775808d" = some (-86400000000000) := by decide

end MtxVerif.C08
