/-
C08 — configuration survives JSON encode/decode round trips.  Property theorems for the two codecs with
non-trivial arithmetic (Duration, StringSize); the whole configuration is tied by correspondence.
-/
import MtxVerif.Lemmas.C08

namespace MtxVerif.C08

/-! ### Duration -/
theorem marshalDurOld_eq_textOf (fmt : Int → Bytes) (d : Int) (h1 : minI64 < d) (h2 : d ≤ maxI64) :
    marshalDurOld fmt d = textOf fmt (decide (d < 0)) (if d < 0 then -d else d) := by
  unfold marshalDurOld textOf
  by_cases hneg : d < 0
  · have hw : wrap64 (-d) = -d := wrap64_id (by unfold minI64 maxI64 two63 at *; omega) (by unfold minI64 maxI64 two63 at *; omega)
    have hnn : 0 ≤ -d := by omega
    simp only [hneg, decide_true, if_true, hw, Int.tdiv_eq_ediv_of_nonneg hnn, Int.tmod_eq_emod_of_nonneg hnn]
  · have hnn : 0 ≤ d := by omega
    simp only [hneg, decide_false, Bool.false_eq_true, if_false, Int.tdiv_eq_ediv_of_nonneg hnn, Int.tmod_eq_emod_of_nonneg hnn]

theorem marshalDur_eq_textOf (fmt : Int → Bytes) (d : Int) :
    marshalDur fmt d = textOf fmt (decide (d < 0)) (if d < 0 then -d else d) := by
  unfold marshalDur textOf
  by_cases hneg : d < 0 <;> simp only [hneg, decide_true, decide_false, if_true, Bool.false_eq_true, if_false]

/-- the old marshaller: every duration except the most negative one survived -/
theorem durationOld_rt_partial {fmt : Int → Bytes} {parse : Bytes → Option Int} (L : DurLib fmt parse)
    (d : Int) (h1 : minI64 < d) (h2 : d ≤ maxI64) : unmarshalDur parse (marshalDurOld fmt d) = some d := by
  rw [marshalDurOld_eq_textOf fmt d h1 h2]
  by_cases hneg : d < 0
  · have := unmarshal_textOf L true (-d) (by omega) (Or.inl (by unfold minI64 maxI64 two63 at *; omega)) (fun _ => by omega)
    simp only [hneg, decide_true, if_true] at this ⊢
    rw [this, Int.neg_neg, wrap64_id (by omega) h2]
  · have := unmarshal_textOf L false d (by omega) (Or.inl h2) (fun h => by cases h)
    simp only [hneg, decide_false, Bool.false_eq_true, if_false] at this ⊢
    exact this

/-- **Duration round trip at full strength**: every int64 duration survives `MarshalJSON` → `UnmarshalJSON`
(for every `String`/`ParseDuration` pair satisfying `DurLib`). -/
theorem duration_rt {fmt : Int → Bytes} {parse : Bytes → Option Int} (L : DurLib fmt parse)
    (d : Int) (h1 : minI64 ≤ d) (h2 : d ≤ maxI64) : unmarshalDur parse (marshalDur fmt d) = some d := by
  rw [marshalDur_eq_textOf]
  by_cases hneg : d < 0
  · have hm : -d ≤ maxI64 ∨ (true = true ∧ -d = two63) := by
      by_cases he : d = minI64
      · right; exact ⟨rfl, by rw [he]; unfold minI64; omega⟩
      · left; unfold minI64 maxI64 two63 at *; omega
    have := unmarshal_textOf L true (-d) (by omega) hm (fun _ => by omega)
    simp only [hneg, decide_true, if_true] at this ⊢
    rw [this, Int.neg_neg, wrap64_id h1 h2]
  · have := unmarshal_textOf L false d (by omega) (Or.inl h2) (fun h => by cases h)
    simp only [hneg, decide_false, Bool.false_eq_true, if_false] at this ⊢
    exact this

/-- the marshaller writes the same text as its predecessor wherever that one was correct -/
theorem marshalDur_agrees_old (fmt : Int → Bytes) (d : Int) (h1 : minI64 < d) (h2 : d ≤ maxI64) :
    marshalDur fmt d = marshalDurOld fmt d := by
  rw [marshalDur_eq_textOf, marshalDurOld_eq_textOf fmt d h1 h2]


/-- the full-strength statement for the marshaller BEFORE commit 6496753 — false (regression record of F-C08b) -/
def durationOld_rt_full : Prop :=
  ∀ (fmt : Int → Bytes) (parse : Bytes → Option Int), DurLib fmt parse →
    ∀ d : Int, minI64 ≤ d → d ≤ maxI64 → unmarshalDur parse (marshalDurOld fmt d) = some d

/-- `-d` overflows at MinInt64: the text starts with two minus signs and cannot be read back -/
theorem durationOld_rt_witness : ¬ durationOld_rt_full := by
  intro h
  have := h fmtT parseT toyLib minI64 (by decide) (by decide)
  revert this
  decide


/-! ### StringSize -/


/-- below 1 KiB the value is printed exactly -/
theorem ssBytefmt_rt_small (s : Nat) (h : s < 1024) : roundTripSSBytefmt s = s := by
  unfold roundTripSSBytefmt toBytesQ byteSizeQ rhe
  simp only [unitIdx_small h, Nat.pow_zero, Nat.mod_one, Nat.div_one, Nat.mul_zero, Nat.mul_one]
  simp

/-- **characterisation** (in the model, for every uint64): a byte size survives Marshal → Unmarshal exactly when
it is below 1 KiB or equals ⌊q · unit / 10⌋ for some number of tenths q. -/
theorem ssBytefmt_rt_iff (s : Nat) :
    roundTripSSBytefmt s = s ↔ (s < 1024 ∨ ∃ q, s = q * 1024 ^ unitIdx s / 10) := by
  constructor
  · intro hr
    exact Or.inr ⟨_, hr.symm⟩
  · rintro (hc | ⟨q, hq⟩)
    · exact ssBytefmt_rt_small s hc
    · by_cases hs : s < 1024
      · exact ssBytefmt_rt_small s hs
      · have hk := unitIdx_ge (by omega : 1024 ≤ s)
        have hu : 20 < 1024 ^ unitIdx s :=
          calc 20 < 1024 ^ 1 := by decide
            _ ≤ 1024 ^ unitIdx s := Nat.pow_le_pow_right (by decide) hk
        unfold roundTripSSBytefmt toBytesQ byteSizeQ
        simp only [rhe_of_floor _ q s hu hq]
        exact hq.symm

/-- the full-strength statement for the bytefmt-based codec BEFORE commit 834859b — false (regression record of F-C08) -/
def ssBytefmt_rt_full : Prop := ∀ s : Nat, s < 2 ^ 64 → roundTripSSBytefmt s = s

/-- 1500 bytes are printed as "1.5K" and read back as 1536 -/
theorem ssBytefmt_rt_witness : ¬ ssBytefmt_rt_full := by
  intro h
  have := h 1500 (by decide)
  revert this
  decide

/-- partial: the class outside the finding (whole multiples of the unit are in it) -/
theorem ssBytefmt_rt_partial (s : Nat) (h : rtOKBytefmt s = true) : roundTripSSBytefmt s = s := by
  simpa [rtOKBytefmt] using h



/-- quantitative form of F-C08: the value read back is off by at most one twentieth of the unit (+1 byte of
truncation), i.e. by at most 5 % -/
theorem ssBytefmt_error_bound (s : Nat) :
    20 * roundTripSSBytefmt s ≤ 20 * s + 1024 ^ unitIdx s ∧ 20 * s ≤ 20 * roundTripSSBytefmt s + 1024 ^ unitIdx s + 20 := by
  have hu : 0 < 1024 ^ unitIdx s := Nat.pow_pos (by decide)
  obtain ⟨h1, h2⟩ := rhe_bound (10 * s) (1024 ^ unitIdx s) hu
  unfold roundTripSSBytefmt toBytesQ byteSizeQ
  simp only []
  have hd := Nat.div_add_mod (rhe (10 * s) (1024 ^ unitIdx s) * 1024 ^ unitIdx s) 10
  have hm := Nat.mod_lt (rhe (10 * s) (1024 ^ unitIdx s) * 1024 ^ unitIdx s) (by decide : 0 < 10)
  omega

/-- **StringSize round trip at full strength**: every uint64 byte size survives — no side condition -/
theorem ss_rt (s : Nat) : roundTripSS s = s := by
  obtain ⟨j, hj, hd⟩ := exactIdxFuel_dvd 6 s 0
  unfold roundTripSS exactIdx
  rw [hj, Nat.zero_add]
  exact Nat.div_mul_cancel hd


/-! ### non-vacuity / sanity examples (tests, not theorems) -/

example : roundTripSSBytefmt 1500 = 1536 ∧ marshalSSBytefmt 1500 = b!"1.5K" := by decide
example : roundTripSSBytefmt 1536 = 1536 ∧ roundTripSSBytefmt 1126 = 1126 ∧ marshalSSBytefmt 1126 = b!"1.1K" := by decide
example : marshalSSBytefmt 0 = b!"0B" ∧ marshalSSBytefmt 1023 = b!"1023B" ∧ marshalSSBytefmt 1048575 = b!"1024K" ∧ roundTripSSBytefmt 1048575 = 1048576 := by decide
example : marshalSS 1500 = b!"1500B" ∧ marshalSS 52428800 = b!"50M" ∧ marshalSS 0 = b!"0B" := by decide
example : marshalDurOld fmtT 90000000000000 = b!"1d3600000000000ns" ∧ marshalDurOld fmtT (-5) = b!"-5ns" ∧ marshalDurOld fmtT 0 = [] := by decide
example : unmarshalDur parseT b!"-2d5ns" = some (-172800000000005) ∧ unmarshalDur parseT b!"d" = none := by decide
-- the hypotheses of `durationOld_rt_partial` are satisfiable (`toyLib`), and the clamped ParseInt is visible:
example : unmarshalDur parseT b!"9223372036854775808d" = some (-86400000000000) := by decide

end MtxVerif.C08
