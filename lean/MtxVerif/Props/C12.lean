/-
C12 — API configuration edits are exact and atomic.  Property theorems.

`stepOK` (Model/C12) is the property for one edit, as a relation between the configuration before and
after; the driver evaluates it on the IMPLEMENTATION's states.  Here: the model of the code satisfies it
for every state, every edit, every verdict of `Validate`, every universe (`step_ok`), hence along every
edit history (`history_ok`) — provided the clone does not share cells with the running configuration
(`shared = false`, i.e. C11).  With `shared = true` (today's `deepClone`) "a rejected edit is a no-op"
is false: `rejected_is_noop_witness`.
-/
import MtxVerif.Model.C12
import MtxVerif.Gen.C12

namespace MtxVerif.C12

/-! #### lookups -/

theorem get_append (a b : Rec) (k : Key) :
    get (a ++ b) k = (match get a k with | some v => some v | none => get b k) := by
  unfold get
  rw [List.find?_append]
  cases h : a.find? (fun e => e.1 == k) <;> simp

theorem get_cons (e : Key × Val) (r : Rec) (k : Key) :
    get (e :: r) k = if e.1 == k then some e.2 else get r k := by
  unfold get
  rw [List.find?_cons]
  split <;> simp_all

theorem pget_cons (e : Name × Rec) (m : PMap) (n : Name) :
    pget (e :: m) n = if e.1 == n then some e.2 else pget m n := by
  unfold pget
  rw [List.find?_cons]
  split <;> simp_all

theorem pget_cons_ne (n' : Name) (r : Rec) (m : PMap) (n : Name) (h : n ≠ n') :
    pget ((n', r) :: m) n = pget m n := by
  rw [pget_cons]
  have : ¬ (n' = n) := fun e => h e.symm
  simp [this]

theorem pget_cons_self (n : Name) (r : Rec) (m : PMap) : pget ((n, r) :: m) n = some r := by
  rw [pget_cons]; simp

theorem pget_premove (m : PMap) (n n' : Name) :
    pget (premove m n) n' = if n' = n then none else pget m n' := by
  induction m with
  | nil => simp [premove, pget]
  | cons e m ih =>
    unfold premove at ih ⊢
    rw [List.filter_cons]
    by_cases he : e.1 = n
    · simp only [he, beq_self_eq_true, Bool.not_true, Bool.false_eq_true, if_false]
      rw [ih, pget_cons]
      by_cases hn : n' = n
      · simp [hn]
      · have : ¬ (e.1 = n') := fun e' => hn (e'.symm.trans he)
        simp [hn, this]
    · have hb : (!(e.1 == n)) = true := by simp [he]
      rw [if_pos hb, pget_cons, pget_cons, ih]
      by_cases hn : n' = n
      · simp [hn, he]
      · simp [hn]

theorem mem_names (m : PMap) (n : Name) : n ∈ names m ↔ (pget m n).isSome = true := by
  induction m with
  | nil => simp [names, pget]
  | cons e m ih =>
    rw [pget_cons]
    by_cases he : e.1 = n
    · simp [names, he]
    · have hne : ¬ (n = e.1) := fun h => he h.symm
      simp [names, he, hne, List.mem_filter, ih]

theorem names_nodup (m : PMap) : (names m).Nodup := by
  induction m with
  | nil => simp [names]
  | cons e m ih =>
    simp only [names, List.nodup_cons, List.mem_filter]
    refine ⟨by simp, ih.filter _⟩

theorem pget_map_of_nodup (l : List Name) (f : Name → Rec) (n : Name) (_h : l.Nodup) :
    pget (l.map fun x => (x, f x)) n = if n ∈ l then some (f n) else none := by
  induction l with
  | nil => simp [pget]
  | cons a l ih =>
    rw [List.map_cons, pget_cons]
    by_cases ha : a = n
    · simp [ha]
    · have hne : ¬ (n = a) := fun h => ha h.symm
      have hn := (List.nodup_cons.mp _h).2
      simp [ha, hne, ih hn]

/-- reads after a successful edit: a path exists iff it is stored, and it is defaults ⊕ optional values -/
theorem pget_derive (d : Rec) (o : PMap) (n : Name) :
    pget (derive d o) n = (pget o n).map (derive1 d n) := by
  unfold derive
  rw [pget_map_of_nodup _ _ _ (names_nodup o)]
  by_cases h : n ∈ names o
  · have := (mem_names o n).mp h
    cases hp : pget o n with
    | none => simp [hp] at this
    | some r => simp [h]
  · have : (pget o n).isSome ≠ true := fun hs => h ((mem_names o n).mpr hs)
    cases hp : pget o n with
    | none => simp [h]
    | some r => simp [hp] at this

/-! #### reflexivity of the comparisons -/

theorem recEq_refl (ks : List Key) (a : Rec) : recEq ks a a = true := by
  simp [recEq]

theorem pmapEqExcept_refl (U : Univ) (x : Option Name) (a : PMap) : pmapEqExcept U x a a = true := by
  unfold pmapEqExcept
  rw [List.all_eq_true]
  intro n _
  cases h : pget a n <;> simp [recEq_refl]

theorem sameSt_refl (U : Univ) (s : St) : sameSt U s s = true := by
  simp [sameSt, recEq_refl, pmapEqExcept_refl]

theorem coherent_revalidate (U : Univ) (g d : Rec) (o : PMap) :
    coherent U { g := g, d := d, o := o, p := derive d o } = true := by
  unfold coherent
  rw [List.all_eq_true]
  intro n _
  simp only [pget_derive]
  cases h : pget o n <;> simp [recEq_refl]

theorem recPatched_append (ks : List Key) (r b : Rec) : recPatched ks (r ++ b) r b = true := by
  unfold recPatched
  rw [List.all_eq_true]
  intro k _
  rw [get_append]
  cases get r k <;> simp

theorem pmapEqExcept_cons (U : Univ) (n : Name) (r : Rec) (o : PMap) :
    pmapEqExcept U (some n) o ((n, r) :: o) = true := by
  unfold pmapEqExcept
  rw [List.all_eq_true]
  intro n' _
  by_cases h : n' = n
  · simp [h]
  · rw [pget_cons_ne n r o n' h]
    cases hp : pget o n' <;> simp [recEq_refl]

theorem pmapEqExcept_premove (U : Univ) (n : Name) (o : PMap) :
    pmapEqExcept U (some n) o (premove o n) = true := by
  unfold pmapEqExcept
  rw [List.all_eq_true]
  intro n' _
  by_cases h : n' = n
  · simp [h]
  · rw [pget_premove, if_neg h]
    cases hp : pget o n' <;> simp [recEq_refl]

/-! #### the property, one edit -/

/-- **C12, one edit**: for every state, edit, verdict of `Validate` and universe, the model of the code
(with an independent clone) satisfies the property relation. -/
theorem step_ok (U : Univ) (s : St) (op : Op) (acc : Bool) :
    stepOK U s op (step false s op acc).1 (step false s op acc).2 = true := by
  cases op with
  | gpatch req =>
    cases req with
    | none => simp [step, stepOK, sameSt_refl]
    | some r =>
      cases acc
      · simp [step, stepOK, sameSt_refl]
      · simp [step, stepOK, coherent_revalidate, revalidate, recPatched_append, recEq_refl, pmapEqExcept_refl]
  | dpatch req =>
    cases req with
    | none => simp [step, stepOK, sameSt_refl]
    | some r =>
      cases acc
      · simp [step, stepOK, sameSt_refl]
      · simp [step, stepOK, coherent_revalidate, revalidate, recPatched_append, recEq_refl, pmapEqExcept_refl]
  | add n req =>
    cases req with
    | none => simp [step, stepOK, sameSt_refl]
    | some r =>
      by_cases h : phas s.o n = true
      · simp [step, stepOK, h, sameSt_refl]
      · cases acc
        · simp [step, stepOK, h, sameSt_refl]
        · simp [step, stepOK, h, coherent_revalidate, revalidate, recEq_refl, pmapEqExcept_cons, pget_cons_self]
  | patch n req =>
    cases req with
    | none => simp [step, stepOK, sameSt_refl]
    | some r =>
      cases hp : pget s.o n with
      | none => simp [step, stepOK, hp, phas, sameSt_refl]
      | some old =>
        cases acc
        · simp [step, stepOK, hp, sameSt_refl]
        · simp [step, stepOK, hp, coherent_revalidate, revalidate, recEq_refl, pmapEqExcept_cons, pget_cons_self,
            recPatched_append]
  | replace n req =>
    cases req with
    | none => simp [step, stepOK, sameSt_refl]
    | some r =>
      cases acc
      · simp [step, stepOK, sameSt_refl]
      · simp [step, stepOK, coherent_revalidate, revalidate, recEq_refl, pmapEqExcept_cons, pget_cons_self]
  | delete n =>
    cases hp : pget s.o n with
    | none => simp [step, stepOK, phas, hp, sameSt_refl]
    | some old =>
      cases acc
      · simp [step, stepOK, phas, hp, sameSt_refl]
      · simp [step, stepOK, phas, hp, coherent_revalidate, revalidate, recEq_refl, pmapEqExcept_premove, pget_premove]

/-- every step of every history satisfies the property relation -/
def AllOK (shared : Bool) : St → List (Op × Bool) → Prop
  | _, [] => True
  | s, (op, acc) :: rest =>
    (∀ U, stepOK U s op (step shared s op acc).1 (step shared s op acc).2 = true) ∧
    AllOK shared (step shared s op acc).1 rest

/-- **C12 over all edit histories** (all sequences of add/patch/replace/delete/global/pathdefaults edits,
valid or not, decodable or not), from every initial configuration. -/
theorem history_ok : ∀ (h : List (Op × Bool)) (s : St), AllOK false s h
  | [], _ => trivial
  | (op, acc) :: rest, s => ⟨fun U => step_ok U s op acc, history_ok rest _⟩

/-- concurrent edits: whatever sequential order the server gives the edits in flight, every step satisfies
the property relation — so the driver accepts an outcome iff it is the outcome of SOME order (linearisability) -/
theorem par_any_order_ok (h h' : List (Op × Bool)) (_ : h'.Perm h) (s : St) : AllOK false s h' :=
  history_ok h' s

/-! #### the clauses of the statement, spelled out on lookups (no universe) -/

/-- an edit that is not accepted leaves the running configuration untouched -/
theorem rejected_is_noop (s : St) (op : Op) (acc : Bool) (h : (step false s op acc).2 ≠ .ok) :
    (step false s op acc).1 = s := by
  cases op with
  | gpatch req => cases req <;> cases acc <;> simp_all [step]
  | dpatch req => cases req <;> cases acc <;> simp_all [step]
  | add n req =>
    cases req with
    | none => simp [step]
    | some r => by_cases hh : phas s.o n = true <;> cases acc <;> simp_all [step]
  | patch n req =>
    cases req with
    | none => simp [step]
    | some r => cases hp : pget s.o n <;> cases acc <;> simp_all [step]
  | replace n req => cases req <;> cases acc <;> simp_all [step]
  | delete n => by_cases hh : phas s.o n = true <;> cases acc <;> simp_all [step]

/-- the statement "a rejected edit is a no-op" for a given sharing behaviour of the clone -/
def rejected_is_noop_full (shared : Bool) : Prop :=
  ∀ (s : St) (op : Op) (acc : Bool), (step shared s op acc).2 ≠ .ok → (step shared s op acc).1 = s

theorem rejected_is_noop_fixed : rejected_is_noop_full false := rejected_is_noop

/-- decidable class of the known finding: a path patch of an existing path that `Validate` rejects -/
def inLeakClass (s : St) (op : Op) (acc : Bool) : Bool :=
  match op with
  | .patch n (some _) => phas s.o n && !acc
  | _ => false

/-- with a sharing clone, the no-op statement still holds outside that class … -/
theorem rejected_is_noop_partial (s : St) (op : Op) (acc : Bool) (hc : inLeakClass s op acc = false)
    (h : (step true s op acc).2 ≠ .ok) : (step true s op acc).1 = s := by
  cases op with
  | gpatch req => cases req <;> cases acc <;> simp_all [step]
  | dpatch req => cases req <;> cases acc <;> simp_all [step]
  | add n req =>
    cases req with
    | none => simp [step]
    | some r => by_cases hh : phas s.o n = true <;> cases acc <;> simp_all [step]
  | patch n req =>
    cases req with
    | none => simp [step]
    | some r => cases hp : pget s.o n <;> cases acc <;> simp_all [step, inLeakClass, phas]
  | replace n req => cases req <;> cases acc <;> simp_all [step]
  | delete n => by_cases hh : phas s.o n = true <;> cases acc <;> simp_all [step]

/-- … and fails inside it: PATCH path `a` with a value `Validate` rejects -/
theorem rejected_is_noop_witness : ¬ rejected_is_noop_full true := by
  intro h
  have := h { o := [("a", [])] } (.patch "a" (some [("source", "x")])) false (by simp [step, pget])
  simp [step, pget] at this

/-- `add` fails iff the name exists (whatever the body, when it is decodable) -/
theorem add_fails_iff_exists (sh : Bool) (s : St) (n : Name) (r : Rec) (acc : Bool) :
    (step sh s (.add n (some r)) acc).2 = .exists ↔ phas s.o n = true := by
  by_cases h : phas s.o n = true <;> cases acc <;> simp [step, h]

/-- `delete` fails with not-found iff the name is missing; if accepted the path is gone, others untouched -/
theorem delete_fails_iff_missing (sh : Bool) (s : St) (n : Name) (acc : Bool) :
    (step sh s (.delete n) acc).2 = .notFound ↔ phas s.o n = false := by
  by_cases h : phas s.o n = true <;> cases acc <;> simp [step, h]

theorem delete_removes (sh : Bool) (s : St) (n : Name) (h : (step sh s (.delete n) true).2 = .ok) (n' : Name) :
    pget (step sh s (.delete n) true).1.o n' = if n' = n then none else pget s.o n' := by
  by_cases hh : phas s.o n = true
  · simp [step, hh, revalidate, pget_premove]
  · simp [step, hh] at h

/-- an accepted path patch changes exactly the fields present in the request … -/
theorem patch_exact (sh : Bool) (s : St) (n : Name) (r old : Rec) (ho : pget s.o n = some old) :
    ∃ r', pget (step sh s (.patch n (some r)) true).1.o n = some r' ∧
      (∀ k, get r' k = match get r k with | some v => some v | none => get old k) ∧
      (∀ n', n' ≠ n → pget (step sh s (.patch n (some r)) true).1.o n' = pget s.o n') ∧
      (step sh s (.patch n (some r)) true).1.g = s.g ∧ (step sh s (.patch n (some r)) true).1.d = s.d := by
  refine ⟨r ++ old, ?_, fun k => get_append r old k, ?_, ?_, ?_⟩
  · simp [step, ho, revalidate, pget_cons_self]
  · intro n' hn
    simp [step, ho, revalidate, pget_cons_ne n _ _ n' hn]
  · simp [step, ho, revalidate]
  · simp [step, ho, revalidate]

/-- … and so do global and path-defaults patches -/
theorem gpatch_exact (sh : Bool) (s : St) (r : Rec) :
    (∀ k, get (step sh s (.gpatch (some r)) true).1.g k = match get r k with | some v => some v | none => get s.g k) ∧
    (step sh s (.gpatch (some r)) true).1.d = s.d ∧ (step sh s (.gpatch (some r)) true).1.o = s.o := by
  refine ⟨fun k => ?_, ?_, ?_⟩ <;> simp [step, revalidate, get_append]

theorem dpatch_exact (sh : Bool) (s : St) (r : Rec) :
    (∀ k, get (step sh s (.dpatch (some r)) true).1.d k = match get r k with | some v => some v | none => get s.d k) ∧
    (step sh s (.dpatch (some r)) true).1.g = s.g ∧ (step sh s (.dpatch (some r)) true).1.o = s.o := by
  refine ⟨fun k => ?_, ?_, ?_⟩ <;> simp [step, revalidate, get_append]

/-- `replace` sets exactly the given fields: the stored record IS the request -/
theorem replace_sets_exactly (sh : Bool) (s : St) (n : Name) (r : Rec) :
    pget (step sh s (.replace n (some r)) true).1.o n = some r ∧
    ∀ n', n' ≠ n → pget (step sh s (.replace n (some r)) true).1.o n' = pget s.o n' := by
  refine ⟨by simp [step, revalidate, pget_cons_self], fun n' hn => ?_⟩
  simp [step, revalidate, pget_cons_ne n _ _ n' hn]

/-- a successful edit is what subsequent reads return: after every accepted edit each readable path is the
(new) defaults overlaid with its (new) stored values, named after its key; nothing else is readable -/
theorem accepted_is_read_back (sh : Bool) (s : St) (op : Op) (acc : Bool) (h : (step sh s op acc).2 = .ok) (n : Name) :
    pget (step sh s op acc).1.p n =
      (pget (step sh s op acc).1.o n).map (derive1 (step sh s op acc).1.d n) := by
  have key : ∀ s1 : St, pget (revalidate s1).p n = (pget (revalidate s1).o n).map (derive1 (revalidate s1).d n) :=
    fun s1 => by simp [revalidate, pget_derive]
  cases op with
  | gpatch req => cases req <;> cases acc <;> simp_all [step]
  | dpatch req => cases req <;> cases acc <;> simp_all [step]
  | add n' req =>
    cases req with
    | none => simp [step] at h
    | some r => by_cases hh : phas s.o n' = true <;> cases acc <;> simp_all [step]
  | patch n' req =>
    cases req with
    | none => simp [step] at h
    | some r => cases hp : pget s.o n' <;> cases acc <;> cases sh <;> simp_all [step]
  | replace n' req => cases req <;> cases acc <;> simp_all [step]
  | delete n' => by_cases hh : phas s.o n' = true <;> cases acc <;> simp_all [step]

/-- field-level reading of the previous theorem -/
theorem read_back_field (d : Rec) (n : Name) (r : Rec) (k : Key) (hk : k ≠ "name") :
    get (derive1 d n r) k = match get r k with | some v => some v | none => get d k := by
  unfold derive1
  rw [get_cons]
  have : ¬ ("name" = k) := fun e => hk e.symm
  simp [this, get_append]

/-! #### tie to C11: which variant of the model the driver runs -/

/-- the clone shares `OptionalPath.Values` with the running configuration iff `deepClone` has no Interface
case (regenerated from the source by tools/xlate/c11) -/
def genShared : Bool := !Gen.C12.caseInterface

/-! #### non-vacuity -/

example : (step false { o := [("a", [("record", "true")])] } (.patch "a" (some [("source", "x")])) true).2 = .ok := by
  decide
example : (step true { o := [("a", [])] } (.patch "a" (some [("source", "x")])) false).1.o
    = [("a", [("source", "x")]), ("a", [])] := by decide
example : (step false { o := [("a", [])] } (.add "a" (some [])) true).2 = .exists := by decide

end MtxVerif.C12
