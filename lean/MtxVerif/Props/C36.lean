/-
C36 — metrics exposition is always valid and faithful.  Property theorems.

`parse (render …) = …` for the escaping renderer on *all* byte strings; for the verbatim renderer
under the side condition `safeValue` (no `"`, `\`, line feed in label values), with machine-checked
counterexamples outside it.
-/
import MtxVerif.Model.C36

namespace MtxVerif.C36

/-! #### character classes (helper facts, no property stated here) -/

theorem blank_cases {c : UInt8} (h : isBlank c = true) : c = 32 ∨ c = 9 := by
  simpa [isBlank] using h

theorem nameStart_of_labelStart {c : UInt8} (h : isLabelStart c = true) : isNameStart c = true := by
  simp [isNameStart, h]

theorem nameChar_of_nameStart {c : UInt8} (h : isNameStart c = true) : isNameChar c = true := by
  simp [isNameChar, h]

theorem labelChar_of_labelStart {c : UInt8} (h : isLabelStart c = true) : isLabelChar c = true := by
  simp [isLabelChar, h]

theorem nameChar_of_labelChar {c : UInt8} (h : isLabelChar c = true) : isNameChar c = true := by
  simp only [isLabelChar, Bool.or_eq_true] at h
  rcases h with h | h
  · simp [isNameChar, isNameStart, h]
  · simp [isNameChar, h]

/-- a name character is none of the delimiters the parser looks for -/
theorem nameChar_ne {c : UInt8} (h : isNameChar c = true) :
    isBlank c = false ∧ c ≠ 10 ∧ c ≠ 123 ∧ c ≠ 125 ∧ c ≠ 35 ∧ c ≠ 61 ∧ c ≠ 34 ∧ c ≠ 44 := by
  refine ⟨?_, ?_, ?_, ?_, ?_, ?_, ?_, ?_⟩
  · cases hb : isBlank c with
    | false => rfl
    | true => rcases blank_cases hb with rfl | rfl <;> exact absurd h (by decide)
  all_goals (rintro rfl; exact absurd h (by decide))

theorem digit_ne {c : UInt8} (h : isDigit c = true) : isBlank c = false ∧ c ≠ 10 ∧ c ≠ 123 ∧ c ≠ 45 ∧ c ≠ 43 := by
  refine ⟨?_, ?_, ?_, ?_, ?_⟩
  · cases hb : isBlank c with
    | false => rfl
    | true => rcases blank_cases hb with rfl | rfl <;> exact absurd h (by decide)
  all_goals (rintro rfl; exact absurd h (by decide))

/-! #### list scanning -/

theorem takeWhile_append_stop {p : UInt8 → Bool} {k : Bytes} {c : UInt8} {r : Bytes}
    (hk : ∀ x ∈ k, p x = true) (hc : p c = false) : (k ++ c :: r).takeWhile p = k := by
  induction k with
  | nil => simp [List.takeWhile, hc]
  | cons a as ih =>
    have ha := hk a List.mem_cons_self
    simp only [List.cons_append, List.takeWhile_cons, ha, if_true]
    rw [ih (fun x hx => hk x (List.mem_cons_of_mem _ hx))]

theorem dropWhile_append_stop {p : UInt8 → Bool} {k : Bytes} {c : UInt8} {r : Bytes}
    (hk : ∀ x ∈ k, p x = true) (hc : p c = false) : (k ++ c :: r).dropWhile p = c :: r := by
  induction k with
  | nil => simp [List.dropWhile, hc]
  | cons a as ih =>
    have ha := hk a List.mem_cons_self
    simp only [List.cons_append, List.dropWhile_cons, ha, if_true]
    exact ih (fun x hx => hk x (List.mem_cons_of_mem _ hx))

theorem takeWhile_all {p : UInt8 → Bool} {k : Bytes} (hk : ∀ x ∈ k, p x = true) : k.takeWhile p = k := by
  induction k with
  | nil => rfl
  | cons a as ih =>
    simp only [List.takeWhile_cons, hk a List.mem_cons_self, if_true]
    rw [ih (fun x hx => hk x (List.mem_cons_of_mem _ hx))]

theorem dropWhile_all {p : UInt8 → Bool} {k : Bytes} (hk : ∀ x ∈ k, p x = true) : k.dropWhile p = [] := by
  induction k with
  | nil => rfl
  | cons a as ih =>
    simp only [List.dropWhile_cons, hk a List.mem_cons_self, if_true]
    exact ih (fun x hx => hk x (List.mem_cons_of_mem _ hx))

theorem skipBlanks_cons {c : UInt8} {r : Bytes} (h : isBlank c = false) : skipBlanks (c :: r) = c :: r := by
  simp [skipBlanks, List.dropWhile, h]

/-! #### label values -/

/-- the parser decodes exactly what `escape` encoded, whatever the bytes -/
theorem readValue_escape (v rest : Bytes) : readValue (escape v ++ 34 :: rest) = some (v, rest) := by
  induction v with
  | nil => simp only [escape, List.nil_append]; rw [readValue.eq_def]; simp
  | cons c cs ih =>
    unfold escape
    by_cases h1 : c = 92
    · subst h1; simp only [if_true, List.cons_append]; rw [readValue.eq_def]; simp [ih]
    · by_cases h2 : c = 34
      · subst h2; simp only [if_true, List.cons_append]; rw [readValue.eq_def]; simp [ih]
      · by_cases h3 : c = 10
        · subst h3; simp only [if_true, List.cons_append]; rw [readValue.eq_def]; simp [ih]
        · simp only [h1, h2, h3, if_false, List.cons_append]; rw [readValue.eq_def]; simp [h1, h2, h3, ih]

theorem escape_safe (v : Bytes) (h : safeValue v = true) : escape v = v := by
  induction v with
  | nil => rfl
  | cons c cs ih =>
    simp only [safeValue, List.all_cons, Bool.and_eq_true, bne_iff_ne, ne_eq] at h
    unfold escape
    simp only [h.1.1.2, h.1.1.1, h.1.2, if_false]
    rw [ih (by simpa [safeValue] using h.2)]

theorem escape_no_lf (v : Bytes) : ∀ c ∈ escape v, c ≠ 10 := by
  induction v with
  | nil => simp [escape]
  | cons a as ih =>
    intro c hc
    unfold escape at hc
    split at hc
    · simp only [List.mem_cons] at hc
      rcases hc with rfl | rfl | hc
      · decide
      · decide
      · exact ih c hc
    · split at hc
      · simp only [List.mem_cons] at hc
        rcases hc with rfl | rfl | hc
        · decide
        · decide
        · exact ih c hc
      · split at hc
        · simp only [List.mem_cons] at hc
          rcases hc with rfl | rfl | hc
          · decide
          · decide
          · exact ih c hc
        · rename_i h3
          simp only [List.mem_cons] at hc
          rcases hc with rfl | hc
          · exact h3
          · exact ih c hc

/-! #### label sets -/

theorem validLabelName_chars {k : Bytes} (h : validLabelName k = true) :
    ∃ c kr, k = c :: kr ∧ isLabelStart c = true ∧ ∀ x ∈ c :: kr, isLabelChar x = true := by
  cases k with
  | nil => simp [validLabelName] at h
  | cons c kr =>
    simp only [validLabelName, Bool.and_eq_true, List.all_eq_true] at h
    refine ⟨c, kr, rfl, h.1, ?_⟩
    intro x hx
    rcases List.mem_cons.mp hx with rfl | hx
    · exact labelChar_of_labelStart h.1
    · exact h.2 x hx

/-- one `k="v"` step of the label parser -/
theorem readLabels_step (f : Nat) (k v X : Bytes) (hk : validLabelName k = true) :
    readLabels (f + 1) (k ++ 61 :: 34 :: (escape v ++ 34 :: X)) =
      match skipBlanks X with
      | [] => none
      | s :: r5 =>
        if s = 44 then (readLabels f r5).map fun r => ((k, v) :: r.1, r.2)
        else if s = 125 then some ([(k, v)], r5)
        else none := by
  obtain ⟨c, kr, rfl, hc, hall⟩ := validLabelName_chars hk
  have hcn := nameChar_ne (nameChar_of_labelChar (labelChar_of_labelStart hc))
  have e1 : skipBlanks ((c :: kr) ++ 61 :: 34 :: (escape v ++ 34 :: X)) =
      c :: (kr ++ 61 :: 34 :: (escape v ++ 34 :: X)) := by
    rw [List.cons_append]; exact skipBlanks_cons hcn.1
  have e2 : (c :: (kr ++ 61 :: 34 :: (escape v ++ 34 :: X))).takeWhile isLabelChar = c :: kr := by
    rw [← List.cons_append]; exact takeWhile_append_stop hall (by decide)
  have e3 : (c :: (kr ++ 61 :: 34 :: (escape v ++ 34 :: X))).dropWhile isLabelChar =
      61 :: 34 :: (escape v ++ 34 :: X) := by
    rw [← List.cons_append]; exact dropWhile_append_stop hall (by decide)
  have e4 : skipBlanks (61 :: 34 :: (escape v ++ 34 :: X)) = 61 :: 34 :: (escape v ++ 34 :: X) :=
    skipBlanks_cons (by decide)
  have e5 : skipBlanks (34 :: (escape v ++ 34 :: X)) = 34 :: (escape v ++ 34 :: X) :=
    skipBlanks_cons (by decide)
  rw [readLabels]
  simp only [e1, hcn.2.2.2.1, if_false, hc, Bool.not_true, Bool.false_eq_true, e2, e3, e4, ne_eq,
    not_true_eq_false, e5, readValue_escape]
  cases skipBlanks X <;> rfl

theorem length_le_renderPairs (esc : Bytes → Bytes) (ls : List Label) :
    ls.length ≤ (renderPairs esc ls).length + 1 := by
  induction ls with
  | nil => simp
  | cons p tl ih =>
    cases tl with
    | nil => simp [renderPairs]
    | cons q tl' =>
      simp only [renderPairs, renderPair, List.length_append, List.length_cons, List.length_nil] at ih ⊢
      omega

/-- the label parser reads back exactly the rendered label set (escaping renderer, all byte strings) -/
theorem readLabels_render (ls : List Label) (hl : ∀ p ∈ ls, validLabelName p.1 = true) :
    ∀ (fuel : Nat) (rest : Bytes), ls.length < fuel →
      readLabels fuel (renderPairs escape ls ++ 125 :: rest) = some (ls, rest) := by
  induction ls with
  | nil =>
    intro fuel rest hf
    cases fuel with
    | zero => omega
    | succ f =>
      simp only [renderPairs, List.nil_append]
      unfold readLabels
      rw [skipBlanks_cons (by decide)]
      simp
  | cons p tl ih =>
    intro fuel rest hf
    cases fuel with
    | zero => omega
    | succ f =>
      have hp := hl p List.mem_cons_self
      cases tl with
      | nil =>
        have : renderPairs escape [p] ++ 125 :: rest = p.1 ++ 61 :: 34 :: (escape p.2 ++ 34 :: (125 :: rest)) := by
          simp [renderPairs, renderPair]
        rw [this, readLabels_step f p.1 p.2 _ hp, skipBlanks_cons (by decide)]
        simp
      | cons q tl' =>
        have : renderPairs escape (p :: q :: tl') ++ 125 :: rest =
            p.1 ++ 61 :: 34 :: (escape p.2 ++ 34 :: (44 :: (renderPairs escape (q :: tl') ++ 125 :: rest))) := by
          simp [renderPairs, renderPair]
        rw [this, readLabels_step f p.1 p.2 _ hp, skipBlanks_cons (by decide)]
        have hih := ih (fun x hx => hl x (List.mem_cons_of_mem _ hx)) f rest
          (by simp only [List.length_cons] at hf ⊢; omega)
        simp [hih]

/-! #### values -/

theorem ofNat_digit (ch : Char) (h : ch.isDigit = true) : isDigit (UInt8.ofNat ch.toNat) = true := by
  rw [Char.isDigit_iff_toNat] at h
  have a : '0'.toNat = 48 := by decide
  have b : '9'.toNat = 57 := by decide
  have h1 : ch.toNat < 256 := by omega
  simp only [isDigit, Bool.and_eq_true, decide_eq_true_eq]
  rw [UInt8.le_iff_toNat_le, UInt8.le_iff_toNat_le]
  have : (UInt8.ofNat ch.toNat).toNat = ch.toNat := by
    simp [UInt8.toNat_ofNat', Nat.mod_eq_of_lt h1]
  rw [this]
  have c1 : (48 : UInt8).toNat = 48 := by decide
  have c2 : (57 : UInt8).toNat = 57 := by decide
  omega

theorem fmtNat_digits (n : Nat) : ∀ c ∈ fmtNat n, isDigit c = true := by
  intro c hc
  unfold fmtNat at hc
  obtain ⟨ch, hch, rfl⟩ := List.mem_map.mp hc
  exact ofNat_digit ch (Nat.isDigit_of_mem_toDigits (by decide) (by decide) hch)

theorem fmtNat_ne_nil (n : Nat) : fmtNat n ≠ [] := by
  unfold fmtNat
  simp [Nat.toDigits_ne_nil]

theorem isIntTok_fmtInt (v : Int) : isIntTok (fmtInt v) = true := by
  have hd := fmtNat_digits v.natAbs
  have hne := fmtNat_ne_nil v.natAbs
  unfold fmtInt
  split
  · simp only [isIntTok, beq_self_eq_true, Bool.true_or, if_true, Bool.and_eq_true, Bool.not_eq_true',
      List.isEmpty_eq_false_iff, List.all_eq_true]
    exact ⟨hne, hd⟩
  · cases hn : fmtNat v.natAbs with
    | nil => exact absurd hn hne
    | cons d ds =>
      rw [hn] at hd
      have hdd := digit_ne (hd d List.mem_cons_self)
      have h45 : (d == 45) = false := by simp [hdd.2.2.2.1]
      have h43 : (d == 43) = false := by simp [hdd.2.2.2.2]
      simp only [isIntTok, h45, h43, Bool.or_self, Bool.false_eq_true, if_false, List.all_eq_true]
      exact hd

/-- whatever `strconv.FormatInt` prints is a value token -/
theorem goodVal_fmtInt (v : Int) : goodVal (fmtInt v) = true := by
  have hd := fmtNat_digits v.natAbs
  have hall : ∀ c ∈ fmtInt v, (!isBlank c && c != 10 && c != 123) = true := by
    intro c hc
    have hdig : c = 45 ∨ isDigit c = true := by
      unfold fmtInt at hc
      split at hc
      · rcases List.mem_cons.mp hc with rfl | hc
        · exact Or.inl rfl
        · exact Or.inr (hd c hc)
      · exact Or.inr (hd c hc)
    rcases hdig with rfl | hdig
    · decide
    · have := digit_ne hdig
      simp [this.1, this.2.1, this.2.2.1]
  simp only [goodVal, isValueTok, isIntTok_fmtInt, Bool.true_or, Bool.true_and, List.all_eq_true]
  exact hall

theorem goodVal_chars {v : Bytes} (h : goodVal v = true) :
    (∃ c r, v = c :: r) ∧ ∀ c ∈ v, isBlank c = false ∧ c ≠ 10 ∧ c ≠ 123 := by
  simp only [goodVal, Bool.and_eq_true, List.all_eq_true, Bool.not_eq_true', bne_iff_ne, ne_eq] at h
  constructor
  · cases v with
    | nil => exact absurd h.1 (by decide)
    | cons c r => exact ⟨c, r, rfl⟩
  · intro c hc
    have := h.2 c hc
    exact ⟨this.1.1, this.1.2, this.2⟩

/-! #### one sample line -/

theorem validName_chars {n : Bytes} (h : validName n = true) :
    ∃ c nr, n = c :: nr ∧ isNameStart c = true ∧ ∀ x ∈ c :: nr, isNameChar x = true := by
  cases n with
  | nil => simp [validName] at h
  | cons c nr =>
    simp only [validName, Bool.and_eq_true, List.all_eq_true] at h
    refine ⟨c, nr, rfl, h.1, ?_⟩
    intro x hx
    rcases List.mem_cons.mp hx with rfl | hx
    · exact nameChar_of_nameStart h.1
    · exact h.2 x hx

/-- tail of the line after the label set: ` value` -/
theorem parse_tail (name : Bytes) (labels : List Label) (val : Bytes) (hv : goodVal val = true) :
    (let r5 := skipBlanks (32 :: val)
     let v := r5.takeWhile (fun c => !isBlank c)
     let r6 := skipBlanks (r5.dropWhile (fun c => !isBlank c))
     let ts := r6.takeWhile (fun c => !isBlank c)
     let r7 := skipBlanks (r6.dropWhile (fun c => !isBlank c))
     if isValueTok v && (ts.isEmpty || isIntTok ts) && r7.isEmpty then some (Sample.mk name labels v)
     else none) = some ⟨name, labels, val⟩ := by
  obtain ⟨⟨c, r, rfl⟩, hall⟩ := goodVal_chars hv
  have hnb : ∀ x ∈ c :: r, (fun c => !isBlank c) x = true := by
    intro x hx; simp [(hall x hx).1]
  have e1 : List.dropWhile isBlank (32 :: c :: r) = c :: r := by
    simp only [List.dropWhile_cons]
    rw [if_pos (by decide)]
    have := (hall c List.mem_cons_self).1
    simp [this]
  have hvt : isValueTok (c :: r) = true := by
    simp only [goodVal, Bool.and_eq_true] at hv; exact hv.1
  simp only [skipBlanks, e1, takeWhile_all hnb, dropWhile_all hnb, List.dropWhile_nil, List.takeWhile_nil,
    List.isEmpty_nil, hvt, Bool.true_or, Bool.and_self, if_true]

/-- **Line theorem (escaping renderer, all byte strings).**  A sample rendered with a label set is
parsed back to exactly its name, its labels (every value byte for byte) and its value token. -/
theorem parse_render_escaped (name : Bytes) (ls : List Label) (val : Bytes)
    (hn : validName name = true) (hl : ∀ p ∈ ls, validLabelName p.1 = true) (hv : goodVal val = true) :
    parseSample (sampleLine name (renderTags escape ls) val) = some ⟨name, ls, val⟩ := by
  obtain ⟨c, nr, rfl, hc, hall⟩ := validName_chars hn
  have hcn := nameChar_ne (nameChar_of_nameStart hc)
  have eL : sampleLine (c :: nr) (renderTags escape ls) val =
      c :: (nr ++ 123 :: (renderPairs escape ls ++ 125 :: (32 :: val))) := by
    simp [sampleLine, renderTags]
  have e2 : (c :: (nr ++ 123 :: (renderPairs escape ls ++ 125 :: (32 :: val)))).takeWhile isNameChar = c :: nr := by
    rw [← List.cons_append]; exact takeWhile_append_stop hall (by decide)
  have e3 : (c :: (nr ++ 123 :: (renderPairs escape ls ++ 125 :: (32 :: val)))).dropWhile isNameChar =
      123 :: (renderPairs escape ls ++ 125 :: (32 :: val)) := by
    rw [← List.cons_append]; exact dropWhile_append_stop hall (by decide)
  have e4 : skipBlanks (123 :: (renderPairs escape ls ++ 125 :: (32 :: val))) =
      123 :: (renderPairs escape ls ++ 125 :: (32 :: val)) := skipBlanks_cons (by decide)
  have e5 := readLabels_render ls hl ((renderPairs escape ls ++ 125 :: (32 :: val)).length + 1) (32 :: val)
    (by have := length_le_renderPairs escape ls
        simp only [List.length_append, List.length_cons] at this ⊢; omega)
  rw [eL]
  unfold parseSample
  rw [skipBlanks_cons hcn.1]
  simp only [hc, Bool.not_true, Bool.false_eq_true, if_false, e2, e3, e4, if_true, e5]
  exact parse_tail (c :: nr) ls val hv

/-- **Line theorem, no label set** (`metric(out, key, "", 0)`). -/
theorem parse_render_notags (name val : Bytes) (hn : validName name = true) (hv : goodVal val = true) :
    parseSample (sampleLine name [] val) = some ⟨name, [], val⟩ := by
  obtain ⟨c, nr, rfl, hc, hall⟩ := validName_chars hn
  have hcn := nameChar_ne (nameChar_of_nameStart hc)
  obtain ⟨⟨d, r, rfl⟩, hvall⟩ := goodVal_chars hv
  have hd := hvall d List.mem_cons_self
  have eL : sampleLine (c :: nr) [] (d :: r) = c :: (nr ++ 32 :: (d :: r)) := by
    simp [sampleLine]
  have e2 : (c :: (nr ++ 32 :: (d :: r))).takeWhile isNameChar = c :: nr := by
    rw [← List.cons_append]; exact takeWhile_append_stop hall (by decide)
  have e3 : (c :: (nr ++ 32 :: (d :: r))).dropWhile isNameChar = 32 :: (d :: r) := by
    rw [← List.cons_append]; exact dropWhile_append_stop hall (by decide)
  have e4 : skipBlanks (32 :: d :: r) = d :: r := by
    simp only [skipBlanks, List.dropWhile_cons]
    rw [if_pos (by decide)]
    simp [hd.1]
  rw [eL]
  unfold parseSample
  rw [skipBlanks_cons hcn.1]
  simp only [hc, Bool.not_true, Bool.false_eq_true, if_false, e2, e3, e4, hd.2.2]
  have := parse_tail (c :: nr) [] (d :: r) hv
  simp only [e4] at this
  have e6 : skipBlanks (d :: r) = d :: r := skipBlanks_cons hd.1
  simp only [e6]
  exact this

/-! #### sorted label maps -/

theorem sortLabels_valid (m : List Label) (hl : ∀ p ∈ m, validLabelName p.1 = true) :
    ∀ p ∈ sortLabels m, validLabelName p.1 = true := by
  intro p hp
  exact hl p ((List.mem_mergeSort).mp hp)

/-- **`metric` after the repair, all byte strings**: what `metric(out, key, tags(m), v)` writes (with the
escaping `tags`) parses back to the key, the map's pairs in key order with their exact values, and
the decimal text of `v`. -/
theorem parse_metric_escaped (key : Bytes) (m : List Label) (v : Int) (hn : validName key = true)
    (hl : ∀ p ∈ m, validLabelName p.1 = true) :
    metric key (tagsEsc m) v = sampleLine key (tagsEsc m) (fmtInt v) ++ [10] ∧
    parseSample (sampleLine key (tagsEsc m) (fmtInt v)) = some ⟨key, sortLabels m, fmtInt v⟩ :=
  ⟨rfl, parse_render_escaped key (sortLabels m) (fmtInt v) hn (sortLabels_valid m hl) (goodVal_fmtInt v)⟩

/-! ### The verbatim renderer: full statement, partial theorem, counterexamples -/

theorem renderPairs_safe (ls : List Label) (hs : ∀ p ∈ ls, safeValue p.2 = true) :
    renderPairs id ls = renderPairs escape ls := by
  induction ls with
  | nil => rfl
  | cons p tl ih =>
    have hp := escape_safe p.2 (hs p List.mem_cons_self)
    cases tl with
    | nil => simp [renderPairs, renderPair, hp]
    | cons q tl' =>
      have := ih (fun x hx => hs x (List.mem_cons_of_mem _ hx))
      simp only [renderPairs, renderPair, id, hp] at this ⊢
      rw [this]

/-- The property for the verbatim renderer, as stated (all client-supplied strings). -/
def raw_full : Prop :=
  ∀ (name : Bytes) (ls : List Label) (val : Bytes), validName name = true →
    (∀ p ∈ ls, validLabelName p.1 = true) → goodVal val = true →
    parseSample (sampleLine name (renderTags id ls) val) = some ⟨name, ls, val⟩

/-- It holds exactly on the decidable class `safeValue`. -/
theorem raw_partial (name : Bytes) (ls : List Label) (val : Bytes) (hn : validName name = true)
    (hl : ∀ p ∈ ls, validLabelName p.1 = true) (hv : goodVal val = true)
    (hs : ∀ p ∈ ls, safeValue p.2 = true) :
    parseSample (sampleLine name (renderTags id ls) val) = some ⟨name, ls, val⟩ := by
  have : renderTags id ls = renderTags escape ls := by
    simp only [renderTags, renderPairs_safe ls hs]
  rw [this]
  exact parse_render_escaped name ls val hn hl hv

/-- witness: `a{k="""} 1` — a double quote in a label value makes the line unparsable -/
theorem raw_witness : ¬ raw_full := by
  intro h
  have := h (asc ['a']) [(asc ['k'], asc ['"'])] (asc ['1']) (by decide) (by decide) (by decide)
  revert this
  decide

/-- witness: a path named `x",evil="1` forges a second label -/
theorem raw_forges_label :
    parseSample (sampleLine (asc ['a']) (renderTags id [(asc ['p'], asc ['x', '"', ',', 'e', '=', '"', '1'])]) (asc ['0']))
      = some ⟨asc ['a'], [(asc ['p'], asc ['x']), (asc ['e'], asc ['1'])], asc ['0']⟩ := by
  decide

/-- witness: a trailing backslash swallows the closing quote -/
theorem raw_backslash_breaks :
    parseSample (sampleLine (asc ['a']) (renderTags id [(asc ['p'], asc ['x', '\\'])]) (asc ['0'])) = none := by
  decide

/-! ### Whole expositions -/

theorem splitLines_line (l rest acc : Bytes) (hl : ∀ c ∈ l, c ≠ 10) :
    splitLines (l ++ 10 :: rest) acc = (acc.reverse ++ l) :: splitLines rest [] := by
  induction l generalizing acc with
  | nil => simp [splitLines]
  | cons a as ih =>
    have ha : a ≠ 10 := hl a List.mem_cons_self
    simp only [List.cons_append, splitLines, ha, if_false]
    rw [ih (a :: acc) (fun c hc => hl c (List.mem_cons_of_mem _ hc))]
    simp

def validItem : Item → Bool
  | .comment t => t.all (· != 10)
  | .blank => true
  | .sample s => validSample s

theorem renderPairs_no_lf (ls : List Label) (hl : ∀ p ∈ ls, validLabelName p.1 = true) :
    ∀ c ∈ renderPairs escape ls, c ≠ 10 := by
  induction ls with
  | nil => simp [renderPairs]
  | cons p tl ih =>
    have hp : ∀ c ∈ renderPair escape p, c ≠ 10 := by
      intro c hc
      obtain ⟨c0, kr, hk, _, hall⟩ := validLabelName_chars (hl p List.mem_cons_self)
      simp only [renderPair, List.mem_append, List.mem_cons, List.mem_nil_iff, or_false] at hc
      rcases hc with ((hc | hc | hc) | hc) | hc
      · rw [hk] at hc; exact (nameChar_ne (nameChar_of_labelChar (hall c hc))).2.1
      · subst hc; decide
      · subst hc; decide
      · exact escape_no_lf p.2 c hc
      · subst hc; decide
    cases tl with
    | nil => simpa [renderPairs] using hp
    | cons q tl' =>
      intro c hc
      simp only [renderPairs, List.mem_append, List.mem_cons, List.mem_nil_iff, or_false] at hc
      rcases hc with (hc | hc) | hc
      · exact hp c hc
      · subst hc; decide
      · exact ih (fun x hx => hl x (List.mem_cons_of_mem _ hx)) c hc

/-- what one item renders to: a line without line feed, then a line feed -/
def itemLine : Item → Bytes
  | .comment t => [35, 32] ++ t
  | .blank => []
  | .sample s => sampleLine s.name (if s.labels.isEmpty then [] else renderTags escape s.labels) s.value

theorem renderItem_eq (it : Item) : renderItem escape it = itemLine it ++ [10] := by
  cases it <;> simp [renderItem, itemLine]

theorem itemLine_no_lf (it : Item) (h : validItem it = true) : ∀ c ∈ itemLine it, c ≠ 10 := by
  cases it with
  | comment t =>
    intro c hc
    simp only [validItem, List.all_eq_true, bne_iff_ne, ne_eq] at h
    simp only [itemLine, List.mem_append, List.mem_cons, List.mem_nil_iff, or_false] at hc
    rcases hc with (rfl | rfl) | hc
    · decide
    · decide
    · exact h c hc
  | blank => intro c hc; simp [itemLine] at hc
  | sample s =>
    intro c hc
    simp only [validItem, validSample, Bool.and_eq_true, List.all_eq_true] at h
    obtain ⟨c0, nr, hn, _, hnall⟩ := validName_chars h.1.1
    have hv := (goodVal_chars h.2).2
    have htags : ∀ c ∈ (if s.labels.isEmpty then [] else renderTags escape s.labels), c ≠ 10 := by
      intro c hc
      split at hc
      · simp at hc
      · simp only [renderTags, List.mem_append, List.mem_cons, List.mem_nil_iff, or_false] at hc
        rcases hc with (rfl | hc) | rfl
        · decide
        · exact renderPairs_no_lf s.labels h.1.2 c hc
        · decide
    simp only [itemLine, sampleLine, List.mem_append, List.mem_cons, List.mem_nil_iff, or_false] at hc
    rcases hc with ((hc | hc) | rfl) | hc
    · rw [hn] at hc; exact (nameChar_ne (hnall c hc)).2.1
    · exact htags c hc
    · decide
    · exact (hv c hc).2.1

theorem itemLine_parse (it : Item) (h : validItem it = true) :
    match it with
    | .sample s => isSkippable (itemLine it) = false ∧ parseSample (itemLine it) = some s
    | _ => isSkippable (itemLine it) = true := by
  cases it with
  | comment t => simp [itemLine, isSkippable, skipBlanks, List.dropWhile, isBlank]
  | blank => simp [itemLine, isSkippable, skipBlanks]
  | sample s =>
    simp only [validItem, validSample, Bool.and_eq_true, List.all_eq_true] at h
    obtain ⟨c0, nr, hn, hc0, _⟩ := validName_chars h.1.1
    have hcn := nameChar_ne (nameChar_of_nameStart hc0)
    constructor
    · have : itemLine (.sample s) = c0 :: (nr ++ ((if s.labels.isEmpty then [] else renderTags escape s.labels) ++ [32] ++ s.value)) := by
        simp [itemLine, sampleLine, hn]
      rw [this]
      simp only [isSkippable, skipBlanks_cons hcn.1, beq_eq_false_iff_ne, ne_eq]
      exact hcn.2.2.2.2.1
    · simp only [itemLine]
      split
      · rename_i he
        have : s.labels = [] := List.isEmpty_iff.mp he
        have hs : s = ⟨s.name, [], s.value⟩ := by cases s; simp_all
        rw [parse_render_notags s.name s.value h.1.1 h.2]
        rw [← hs]
      · exact parse_render_escaped s.name s.labels s.value h.1.1 h.1.2 h.2

/-- **Document theorem (escaping renderer, all byte strings).**  Whatever `onMetrics` assembles from
comment lines, blank lines and samples — with arbitrary label values — is a valid exposition, and
parsing it yields exactly the samples that were written, in order. -/
theorem parseDoc_renderDoc_escaped (d : List Item) (hd : ∀ it ∈ d, validItem it = true) :
    parseDoc (renderDoc escape d) = some (samplesOf d) := by
  unfold parseDoc
  induction d with
  | nil => simp [renderDoc, splitLines, parseLines, samplesOf]
  | cons it rest ih =>
    have hit := hd it List.mem_cons_self
    have hrest := ih (fun x hx => hd x (List.mem_cons_of_mem _ hx))
    have e : renderDoc escape (it :: rest) = itemLine it ++ 10 :: renderDoc escape rest := by
      simp [renderDoc, renderItem_eq]
    rw [e, splitLines_line _ _ _ (itemLine_no_lf it hit)]
    simp only [List.reverse_nil, List.nil_append, parseLines]
    have hp := itemLine_parse it hit
    cases it with
    | comment t => simp only at hp; simp [hp, hrest, samplesOf]
    | blank => simp only at hp; simp [hp, hrest, samplesOf]
    | sample s => simp only at hp; simp [hp.1, hp.2, hrest, samplesOf]

/-- the verbatim renderer agrees with the escaping one on documents whose label values are safe -/
theorem renderDoc_raw_eq (d : List Item)
    (hs : ∀ it ∈ d, match it with | .sample s => s.labels.all (fun p => safeValue p.2) = true | _ => True) :
    renderDoc id d = renderDoc escape d := by
  induction d with
  | nil => rfl
  | cons it rest ih =>
    have h1 := hs it List.mem_cons_self
    have h2 := ih (fun x hx => hs x (List.mem_cons_of_mem _ hx))
    simp only [renderDoc, List.flatMap_cons] at h2 ⊢
    rw [h2]
    congr 1
    cases it with
    | comment t => rfl
    | blank => rfl
    | sample s =>
      simp only at h1
      simp only [renderItem, renderTags]
      rw [renderPairs_safe s.labels (fun p hp => List.all_eq_true.mp h1 p hp)]

/-- The document-level property for the verbatim renderer, as stated. -/
def raw_doc_full : Prop :=
  ∀ d : List Item, (∀ it ∈ d, validItem it = true) → parseDoc (renderDoc id d) = some (samplesOf d)

theorem raw_doc_partial (d : List Item) (hd : ∀ it ∈ d, validItem it = true)
    (hs : ∀ it ∈ d, match it with | .sample s => s.labels.all (fun p => safeValue p.2) = true | _ => True) :
    parseDoc (renderDoc id d) = some (samplesOf d) := by
  rw [renderDoc_raw_eq d hs]; exact parseDoc_renderDoc_escaped d hd

/-- witness: a line feed in a path name injects a whole forged sample line (`b 7`) -/
theorem raw_doc_witness : ¬ raw_doc_full := by
  intro h
  have := h [.sample ⟨asc ['a'], [(asc ['p'], asc ['x', '"', '}', ' ', '1', '\n', 'b', ' ', '7', '\n', 'a', '{', 'p', '=', '"'])], asc ['0']⟩]
    (by decide)
  revert this
  decide

/-- the forged exposition is even *valid* — it just reports samples that were never written -/
theorem raw_doc_forges :
    parseDoc (renderDoc id [.sample ⟨asc ['a'], [(asc ['p'], asc ['x', '"', '}', ' ', '1', '\n', 'b', ' ', '7', '\n', 'a', '{', 'p', '=', '"'])], asc ['0']⟩])
      = some [⟨asc ['a'], [(asc ['p'], asc ['x'])], asc ['1']⟩, ⟨asc ['b'], [], asc ['7']⟩,
              ⟨asc ['a'], [(asc ['p'], [])], asc ['0']⟩] := by
  decide

/-! ### Non-vacuity -/

example : validSample ⟨asc ['p', 'a', 't', 'h', 's'], [(asc ['n', 'a', 'm', 'e'], asc ['a', '"', '\\', '\n'])], asc ['1']⟩ = true := by
  decide

example : parseSample (sampleLine (asc ['p']) (renderTags escape [(asc ['n'], asc ['a', '"', '\\', '\n'])]) (asc ['1', '.', '5']))
    = some ⟨asc ['p'], [(asc ['n'], asc ['a', '"', '\\', '\n'])], asc ['1', '.', '5']⟩ := by decide

example : goodVal (asc ['+', 'I', 'n', 'f']) = true ∧ goodVal (asc ['N', 'a', 'N']) = true ∧
    goodVal (asc ['0', '.', '0', '0', '1']) = true ∧ goodVal (asc ['1', 'e', '+', '0', '6']) = true ∧
    goodVal (asc ['1', '.']) = true ∧ goodVal (asc ['.']) = false ∧ goodVal (asc ['1', ' ']) = false := by decide

end MtxVerif.C36
