import MtxVerif.Model.C28
namespace MtxVerif.C28
theorem placeholder : True := trivial
end MtxVerif.C28
