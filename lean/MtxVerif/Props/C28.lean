/-
C28 — playback endpoints survive any recording directory content.  Property theorems.

The property ("answer with data or an error, never crash the server process") for the MediaMTX-owned
parsers is `SafeRes`: no panic, no hang, and every buffer the parser allocates is covered by bytes that really
are in the file.  It is

* proved at full strength for the code with the proposed fix (`parseSegment_fixed_total`, `muxWalk_fixed_total`),
  for every file content and every behaviour of the third-party decoders (`∀ lib`);
* FALSE for the code as it is: `parse_total_full` / `mux_total_full` are refuted by concrete witnesses
  (`parse_total_witness_div`, `parse_total_witness_alloc`, `mux_total_witness`);
* proved for the code as it is under the explicit side conditions that delimit the three defect classes
  (`parseSegment_cur_partial`, `muxWalk_cur_partial`); and the code as it is never hangs
  (`parseSegment_cur_no_hang`).
-/
import MtxVerif.Model.C28

namespace MtxVerif.C28

/-! #### small helpers -/

theorem tMoof_ne_tMdat : tMoof ≠ tMdat := by decide

theorem bne_false_eq {a b : Bytes} (h : ¬ ((a != b) = true)) : a = b := by
  simpa using h

/-- an allocation record that is harmless: it is covered by the file -/
def Good (c : Cfg) (n : Nat) (a : Alloc) : Prop := a.rem ≤ n ∧ (c.guardSz = true → a.req ≤ a.rem)

def AllGood (c : Cfg) (n : Nat) (al : List Alloc) : Prop := ∀ a ∈ al, Good c n a

theorem allGood_nil (c : Cfg) (n : Nat) : AllGood c n [] := by intro a h; cases h

theorem allGood_append {c : Cfg} {n : Nat} {al : List Alloc} {a : Alloc} (h : AllGood c n al) (ha : Good c n a) :
    AllGood c n (al ++ [a]) := by
  intro x hx
  rcases List.mem_append.mp hx with hx | hx
  · exact h x hx
  · simp at hx; subst hx; exact ha

theorem allGood_app {c : Cfg} {n : Nat} {a b : List Alloc} (ha : AllGood c n a) (hb : AllGood c n b) :
    AllGood c n (a ++ b) := by
  intro x hx
  rcases List.mem_append.mp hx with hx | hx
  · exact ha x hx
  · exact hb x hx

/-! #### "find last valid moof and mdat" terminates -/

theorem moofLoop_no_hang (f : Bytes) : ∀ (fuel pos : Nat) (last : Option Nat),
    f.length < fuel + pos → 1 ≤ fuel → moofLoop f fuel pos last ≠ none := by
  intro fuel
  induction fuel with
  | zero => intro _ _ _ h; omega
  | succ k ih =>
    intro pos last hlen _
    unfold moofLoop
    split
    · simp
    · rename_i h1
      split
      · simp
      · rename_i h2
        simp only []
        split
        · simp
        · rename_i h3
          split
          · simp
          · rename_i h4
            have e2 := bne_false_eq h2
            have e4 := bne_false_eq h4
            have hpos : rd32 f pos ≠ 0 := by
              intro h0
              rw [h0, Nat.add_zero] at e4
              exact tMoof_ne_tMdat (e2.symm.trans e4)
            apply ih
            · omega
            · omega

/-! #### readBox -/

theorem readBox_error {c : Cfg} {f : Bytes} {pos : Nat} {tag : Bytes} {e : Err} {al : List Alloc}
    {r : Res Int64} (h : readBox c f pos tag e al = .error r) (hal : AllGood c f.length al) :
    r.1 ≠ .panicDiv ∧ r.1 ≠ .hang ∧ AllGood c f.length r.2 := by
  unfold readBox at h
  split at h
  · injection h with h; subst h; exact ⟨by simp, by simp, hal⟩
  · split at h
    · injection h with h; subst h; exact ⟨by simp, by simp, hal⟩
    · simp only [] at h
      split at h
      · injection h with h; subst h; exact ⟨by simp, by simp, hal⟩
      · rename_i hg
        split at h
        · injection h with h; subst h
          refine ⟨by simp, by simp, allGood_append hal ⟨Nat.sub_le _ _, ?_⟩⟩
          intro hgs
          simp only [hgs, Bool.true_and, Bool.or_eq_true, decide_eq_true_eq] at hg
          show sub32 (rd32 f pos) 8 ≤ f.length - (pos + 8)
          omega
        · injection h

theorem readBox_ok {c : Cfg} {f : Bytes} {pos : Nat} {tag : Bytes} {e : Err} {al al' : List Alloc}
    {p : Bytes} {pos' : Nat} (h : readBox c f pos tag e al = .ok (p, pos', al')) (hal : AllGood c f.length al) :
    pos + 8 ≤ pos' ∧ AllGood c f.length al' := by
  unfold readBox at h
  split at h
  · injection h
  · split at h
    · injection h
    · simp only [] at h
      split at h
      · injection h
      · split at h
        · injection h
        · rename_i hfit
          injection h with h
          injection h with h1 h2
          injection h2 with h2 h3
          subst h2; subst h3
          exact ⟨by omega, allGood_append hal ⟨Nat.sub_le _ _, fun _ => by show sub32 (rd32 f pos) 8 ≤ f.length - (pos + 8); omega⟩⟩

/-! #### one traf iteration -/

theorem mem_of_findTrack {tracks : List Track} {id : Nat} {t : Track} (h : findTrack tracks id = some t) :
    t ∈ tracks := List.mem_of_find?_eq_some h

theorem trafStep_error {c : Cfg} {lib : Lib} {f : Bytes} {tracks : List Track} {pos : Nat} {mx : Int64}
    {al : List Alloc} {r : Res Int64} (htr : ∀ t ∈ tracks, t.ts ≠ 0)
    (h : trafStep c lib f tracks pos mx al = .error r) (hal : AllGood c f.length al) :
    r.1 ≠ .panicDiv ∧ r.1 ≠ .hang ∧ AllGood c f.length r.2 := by
  unfold trafStep at h
  split at h
  · cases h; exact ⟨by simp, by simp, hal⟩
  split at h
  · cases h; exact ⟨by simp, by simp, hal⟩
  split at h
  · cases h; exact ⟨by simp, by simp, hal⟩
  split at h
  · rename_i r1 hb1
    cases h; exact readBox_error hb1 hal
  rename_i p1 pos1 al1 hb1
  have g1 := (readBox_ok hb1 hal).2
  split at h
  · cases h; exact ⟨by simp, by simp, g1⟩
  split at h
  · cases h; exact ⟨by simp, by simp, g1⟩
  rename_i tr hft
  split at h
  · rename_i r2 hb2
    cases h; exact readBox_error hb2 g1
  rename_i p2 pos2 al2 hb2
  have g2 := (readBox_ok hb2 g1).2
  split at h
  · cases h; exact ⟨by simp, by simp, g2⟩
  split at h
  · rename_i r3 hb3
    cases h; exact readBox_error hb3 g2
  rename_i p3 pos3 al3 hb3
  have g3 := (readBox_ok hb3 g2).2
  split at h
  · cases h; exact ⟨by simp, by simp, g3⟩
  split at h
  · rename_i hz
    exact absurd hz (htr tr (mem_of_findTrack hft))
  · cases h

theorem trafStep_ok {c : Cfg} {lib : Lib} {f : Bytes} {tracks : List Track} {pos : Nat} {mx mx' : Int64}
    {al al' : List Alloc} {pos' : Nat}
    (h : trafStep c lib f tracks pos mx al = .ok (pos', mx', al')) (hal : AllGood c f.length al) :
    pos + 32 ≤ pos' ∧ AllGood c f.length al' := by
  unfold trafStep at h
  split at h
  · cases h
  split at h
  · cases h
  split at h
  · cases h
  split at h
  · cases h
  rename_i p1 pos1 al1 hb1
  have g1 := readBox_ok hb1 hal
  split at h
  · cases h
  split at h
  · cases h
  split at h
  · cases h
  rename_i p2 pos2 al2 hb2
  have g2 := readBox_ok hb2 g1.2
  split at h
  · cases h
  split at h
  · cases h
  rename_i p3 pos3 al3 hb3
  have g3 := readBox_ok hb3 g2.2
  split at h
  · cases h
  split at h
  · cases h
  · cases h
    exact ⟨by omega, g3.2⟩

/-- "foreach traf": never divides by zero (given the library's TimeScale ≠ 0 contract), never hangs, and
every allocation it adds is `Good`. -/
theorem trafLoop_ok (c : Cfg) (lib : Lib) (f : Bytes) (tracks : List Track) (htr : ∀ t ∈ tracks, t.ts ≠ 0) :
    ∀ (fuel pos : Nat) (mx : Int64) (al : List Alloc), f.length < fuel + pos → 1 ≤ fuel →
      AllGood c f.length al →
      (trafLoop c lib f tracks fuel pos mx al).1 ≠ .panicDiv ∧
      (trafLoop c lib f tracks fuel pos mx al).1 ≠ .hang ∧
      AllGood c f.length (trafLoop c lib f tracks fuel pos mx al).2 := by
  intro fuel
  induction fuel with
  | zero => intro _ _ _ _ h; omega
  | succ k ih =>
    intro pos mx al hlen _ hal
    unfold trafLoop
    split
    · rename_i r hr
      exact trafStep_error htr hr hal
    · rename_i pos' mx' al' hs
      have g := trafStep_ok hs hal
      -- a successful step read at least the 8-byte traf header, so pos + 8 ≤ length
      have hlen8 : pos + 8 ≤ f.length := by
        unfold trafStep at hs
        split at hs
        · cases hs
        · omega
      exact ih pos' mx' al' (by omega) (by omega) g.2

/-! #### segmentFMP4ReadDurationFromParts -/

theorem durFromParts_ok (c : Cfg) (lib : Lib) (f : Bytes) (tracks : List Track) (htr : ∀ t ∈ tracks, t.ts ≠ 0) :
    (durFromParts c lib f tracks).1 ≠ .panicDiv ∧ (durFromParts c lib f tracks).1 ≠ .hang ∧
    AllGood c f.length (durFromParts c lib f tracks).2 := by
  unfold durFromParts
  split
  · exact ⟨by simp, by simp, allGood_nil _ _⟩
  split
  · exact ⟨by simp, by simp, allGood_nil _ _⟩
  simp only []
  split
  · exact ⟨by simp, by simp, allGood_nil _ _⟩
  split
  · exact ⟨by simp, by simp, allGood_nil _ _⟩
  split
  · rename_i hm
    exact absurd hm (moofLoop_no_hang f _ _ _ (by omega) (by omega))
  · exact ⟨by simp, by simp, allGood_nil _ _⟩
  · split
    · exact ⟨by simp, by simp, allGood_nil _ _⟩
    split
    · exact ⟨by simp, by simp, allGood_nil _ _⟩
    · exact trafLoop_ok c lib f tracks htr _ _ _ _ (by omega) (by omega) (allGood_nil _ _)

/-! #### segmentFMP4ReadHeader -/

/-- the mvhd the header parser consults has a non-zero time scale (the side condition of finding
`mvhd-timescale-zero`) -/
def TimescaleNZ (lib : Lib) (f : Bytes) : Prop :=
  ∀ dur ts, lib.mvhd (f.drop (rd32 f 0 + 16)) (sub32 (rd32 f (rd32 f 0)) 8) = .ok (dur, ts) → ts ≠ 0

theorem readHeader_ok (c : Cfg) (lib : Lib) (f : Bytes) (hts : c.guardTs = true ∨ TimescaleNZ lib f) :
    (readHeader c lib f).1 ≠ .panicDiv ∧ (readHeader c lib f).1 ≠ .hang ∧
    AllGood c f.length (readHeader c lib f).2 := by
  unfold readHeader
  split
  · exact ⟨by simp, by simp, allGood_nil _ _⟩
  split
  · exact ⟨by simp, by simp, allGood_nil _ _⟩
  simp only []
  split
  · exact ⟨by simp, by simp, allGood_nil _ _⟩
  split
  · exact ⟨by simp, by simp, allGood_nil _ _⟩
  split
  · exact ⟨by simp, by simp, allGood_nil _ _⟩
  · exact ⟨by simp, by simp, allGood_nil _ _⟩
  · rename_i dur ts hm
    split
    · rename_i hz
      split
      · exact ⟨by simp, by simp, allGood_nil _ _⟩
      · rename_i hg
        rcases hts with hts | hts
        · exact absurd hts hg
        · exact absurd hz (hts dur ts hm)
    · generalize headerReq c (rd32 f 0) (rd32 f (rd32 f 0)) = req
      split
      · exact ⟨by simp, by simp, allGood_nil _ _⟩
      · rename_i hgd
        have good1 : AllGood c f.length [Alloc.mk req f.length] := by
          intro a ha
          simp at ha; subst ha
          refine ⟨Nat.le_refl _, ?_⟩
          intro hgs
          simp only [hgs, Bool.true_and, decide_eq_true_eq] at hgd
          show req ≤ f.length
          omega
        split
        · exact ⟨by simp, by simp, good1⟩
        · split
          · exact ⟨by simp, by simp, good1⟩
          · exact ⟨by simp, by simp, good1⟩
          · exact ⟨by simp, by simp, good1⟩

/-- tracks returned by a successful header parse come from `Init.Unmarshal`, hence have TimeScale ≠ 0 -/
theorem readHeader_tracks (c : Cfg) (lib : Lib) (hlib : LibOK lib) (f : Bytes) (tr : List Track) (d : Nat)
    (h : (readHeader c lib f).1 = .ok (tr, d)) : ∀ t ∈ tr, t.ts ≠ 0 := by
  unfold readHeader at h
  split at h
  · simp at h
  split at h
  · simp at h
  simp only [] at h
  split at h
  · simp at h
  split at h
  · simp at h
  split at h
  · simp at h
  · simp at h
  · split at h
    · split at h <;> simp at h
    · split at h
      · simp at h
      · split at h
        · simp at h
        · split at h
          · simp at h
          · simp at h
          · rename_i tr' hinit
            simp at h
            rw [← h.1]
            exact hlib _ _ hinit

/-! #### parseSegment: the function that runs in the parseSegments goroutines -/

theorem parseSegment_ok (c : Cfg) (lib : Lib) (hlib : LibOK lib) (f : Bytes)
    (hts : c.guardTs = true ∨ TimescaleNZ lib f) :
    (parseSegment c lib f).1 ≠ .panicDiv ∧ (parseSegment c lib f).1 ≠ .hang ∧
    AllGood c f.length (parseSegment c lib f).2 := by
  have H := readHeader_ok c lib f hts
  have T := readHeader_tracks c lib hlib f
  unfold parseSegment
  split
  · rename_i tr d al hr
    rw [hr] at H T
    have htr := T tr d rfl
    have D := durFromParts_ok c lib f tr htr
    split
    · split
      · rename_i d2 al2 hd
        rw [hd] at D
        exact ⟨by simp, by simp, allGood_app H.2.2 D.2.2⟩
      · rename_i e al2 hd
        rw [hd] at D
        exact ⟨by simp, by simp, allGood_app H.2.2 D.2.2⟩
      · rename_i al2 hd
        rw [hd] at D
        exact absurd rfl D.1
      · rename_i al2 hd
        rw [hd] at D
        exact absurd rfl D.2.1
    · exact ⟨by simp, by simp, H.2.2⟩
  · rename_i e al hr
    rw [hr] at H
    exact ⟨by simp, by simp, H.2.2⟩
  · rename_i al hr
    rw [hr] at H
    exact absurd rfl H.1
  · rename_i al hr
    rw [hr] at H
    exact absurd rfl H.2.1

/-- **C28 at full strength, for the code with the proposed fix**: whatever the file contains and whatever
the third-party decoders answer (as long as returned tracks have TimeScale ≠ 0), `parseSegment` neither
panics nor hangs and allocates no buffer that the file does not cover. -/
theorem parseSegment_fixed_total (lib : Lib) (hlib : LibOK lib) (f : Bytes) :
    SafeRes f.length (parseSegment fixed lib f) := by
  have h := parseSegment_ok fixed lib hlib f (Or.inl rfl)
  refine ⟨h.1, h.2.1, ?_⟩
  intro a ha
  have := h.2.2 a ha
  exact ⟨this.2 rfl, this.1⟩

/-- The same statement for the code as it is — FALSE, see the witnesses. -/
def parse_total_full : Prop := ∀ (lib : Lib), LibOK lib → ∀ f : Bytes, SafeRes f.length (parseSegment cur lib f)

/-- 16-byte file `[0,0,0,8,"ftyp",0,0,0,8,"moov"]`; decoder answering "duration 0, timescale 0". -/
def witnessFile : Bytes := [0, 0, 0, 8] ++ tFtyp ++ [0, 0, 0, 8] ++ tMoov

def witnessLibDiv : Lib :=
  { mvhd := fun _ _ => .ok (0, 0), tfhd := fun _ => none, tfdt := fun _ => none, trun := fun _ => none,
    init := fun _ => .other }

theorem parse_total_witness_div : ¬ parse_total_full := by
  intro h
  have := (h witnessLibDiv (by intro b tr hb; cases hb) witnessFile).1
  exact this (by decide)

/-- file: ftyp(8) moov(8) moof(16: moof+mfhd hdr) … with a tfhd whose size field is 4: the code requests
`uint32(4-8) = 4294967292` bytes for a 64-byte file. -/
def witnessFileAlloc : Bytes :=
  [0, 0, 0, 8] ++ tFtyp ++ [0, 0, 0, 8] ++ tMoov ++
  [0, 0, 0, 40] ++ tMoof ++ [0, 0, 0, 16] ++ tMfhd ++ [0, 0, 0, 0, 0, 0, 0, 0] ++
  [0, 0, 0, 16] ++ tTraf ++ [0, 0, 0, 4] ++ tTfhd ++
  [0, 0, 0, 8] ++ tMdat

def witnessLibAlloc : Lib :=
  { mvhd := fun _ _ => .ok (0, 1000), tfhd := fun _ => none, tfdt := fun _ => none, trun := fun _ => none,
    init := fun _ => .ok [⟨1, 90000⟩] }

theorem witnessAlloc_value :
    (parseSegment cur witnessLibAlloc witnessFileAlloc) = (.err .eof, [⟨16, 64⟩, ⟨4294967292, 8⟩]) := by decide

theorem parse_total_witness_alloc : ¬ parse_total_full := by
  intro h
  have := (h witnessLibAlloc (by intro b tr hb; simp [witnessLibAlloc] at hb; subst hb; simp) witnessFileAlloc).2.2
  rw [witnessAlloc_value] at this
  have := (this ⟨4294967292, 8⟩ (by simp)).1
  simp at this

/-- **C28 for the code as it is, outside the two defect classes**: if the mvhd time scale is not zero
(`mvhd-timescale-zero`) and every declared size the parser allocates for is covered by the file
(`declared-size-alloc`), the property holds. -/
theorem parseSegment_cur_partial (lib : Lib) (hlib : LibOK lib) (f : Bytes)
    (hts : TimescaleNZ lib f) (hfit : Fits (parseSegment cur lib f).2) :
    SafeRes f.length (parseSegment cur lib f) := by
  have h := parseSegment_ok cur lib hlib f (Or.inr hts)
  refine ⟨h.1, h.2.1, ?_⟩
  intro a ha
  exact ⟨hfit a ha, (h.2.2 a ha).1⟩

/-- The code as it is never hangs, whatever the file: both loops consume the file. -/
theorem parseSegment_cur_no_hang (lib : Lib) (hlib : LibOK lib) (f : Bytes) (hts : TimescaleNZ lib f) :
    (parseSegment cur lib f).1 ≠ .hang :=
  (parseSegment_ok cur lib hlib f (Or.inr hts)).2.1

/-- …and it panics only by the division: if the time scale is not zero there is no panic at all. -/
theorem parseSegment_cur_no_panic (lib : Lib) (hlib : LibOK lib) (f : Bytes) (hts : TimescaleNZ lib f) :
    (parseSegment cur lib f).1 ≠ .panicDiv :=
  (parseSegment_ok cur lib hlib f (Or.inr hts)).1

/-- the duration parser alone (reached with the tracks of the first segment) -/
theorem durFromParts_fixed_total (lib : Lib) (f : Bytes) (tracks : List Track) (htr : ∀ t ∈ tracks, t.ts ≠ 0) :
    SafeRes f.length (durFromParts fixed lib f tracks) := by
  have h := durFromParts_ok fixed lib f tracks htr
  exact ⟨h.1, h.2.1, fun a ha => ⟨(h.2.2 a ha).2 rfl, (h.2.2 a ha).1⟩⟩

/-! #### segmentFMP4MuxParts callback (GET /get) -/

/-- with the proposed nil checks the callback cannot dereference nil, for every event sequence the library
may deliver -/
theorem muxWalk_fixed_total : ∀ (evs : List MEv) (h d : Bool), muxWalk true h d evs = .noPanic := by
  intro evs
  induction evs with
  | nil => intro h d; rfl
  | cons e r ih =>
    intro h d
    cases e with
    | other => simp [muxWalk, ih]
    | tfhd ok => cases ok <;> simp [muxWalk, ih]
    | tfdt ok tf => cases ok <;> cases h <;> cases tf <;> simp [muxWalk, ih]
    | trun ok => cases ok <;> cases d <;> simp [muxWalk, ih]

def mux_total_full : Prop := ∀ evs : List MEv, muxWalk false false false evs = .noPanic

/-- a file whose first fragment-level box is a `tfdt` (or a `trun`) -/
theorem mux_total_witness : ¬ mux_total_full := by
  intro h
  have := h [.tfdt true false]
  revert this
  decide

theorem mux_total_witness_trun : muxWalk false false false [.other, .tfhd true, .trun true] = .panicNil := by decide

/-- once a tfhd and a tfdt have been seen the callback cannot dereference nil any more -/
theorem muxWalk_cur_started : ∀ (evs : List MEv), muxWalk false true true evs = .noPanic := by
  intro evs
  induction evs with
  | nil => rfl
  | cons e r ih =>
    cases e with
    | other => simp [muxWalk, ih]
    | tfhd ok => cases ok <;> simp [muxWalk, ih]
    | tfdt ok tf => cases ok <;> cases tf <;> simp [muxWalk, ih]
    | trun ok => cases ok <;> simp [muxWalk, ih]

/-- order condition (the side condition of finding `mux-nil-box-order`): no readable tfdt before the first
readable tfhd, no readable trun before the first readable tfdt. -/
def Ordered : Bool → Bool → List MEv → Bool
  | _, _, [] => true
  | h, d, .other :: r => Ordered h d r
  | _, d, .tfhd ok :: r => if ok then Ordered true d r else true
  | h, _, .tfdt ok tf :: r => if !ok then true else if !h then false else if !tf then true else Ordered h true r
  | h, d, .trun ok :: r => if !ok then true else if !d then false else Ordered h d r

theorem muxWalk_cur_partial : ∀ (evs : List MEv) (h d : Bool), Ordered h d evs = true →
    muxWalk false h d evs = .noPanic := by
  intro evs
  induction evs with
  | nil => intro h d _; rfl
  | cons e r ih =>
    intro h d ho
    cases e with
    | other => simp [muxWalk]; exact ih h d (by simpa [Ordered] using ho)
    | tfhd ok =>
      cases ok
      · simp [muxWalk]
      · simp [muxWalk]; exact ih true d (by simpa [Ordered] using ho)
    | tfdt ok tf =>
      cases ok
      · simp [muxWalk]
      · cases h
        · simp [Ordered] at ho
        · cases tf
          · simp [muxWalk]
          · simp [muxWalk]; exact ih true true (by simpa [Ordered] using ho)
    | trun ok =>
      cases ok
      · simp [muxWalk]
      · cases d
        · simp [Ordered] at ho
        · simp [muxWalk]; exact ih h true (by simpa [Ordered] using ho)

/-- the parts the recorder writes (moof, mfhd, then per track traf, tfhd, tfdt, trun; then mdat) are ordered -/
example : Ordered false false [.other, .other, .other, .tfhd true, .tfdt true true, .trun true, .other,
    .tfhd true, .tfdt true true, .trun true, .other] = true := by decide

/-! #### non-vacuity -/

/-- the side conditions of the partial theorem are satisfiable, and the parse then succeeds -/
example : (parseSegment cur witnessLibAlloc
    ([0, 0, 0, 8] ++ tFtyp ++ [0, 0, 0, 8] ++ tMoov)).1 = .err .moof := by decide

example : Fits (parseSegment cur witnessLibAlloc ([0, 0, 0, 8] ++ tFtyp ++ [0, 0, 0, 8] ++ tMoov)).2 := by decide

/-- current and fixed code agree on a well-formed part (one traf, sizes consistent) -/
def goodFile : Bytes :=
  [0, 0, 0, 8] ++ tFtyp ++ [0, 0, 0, 8] ++ tMoov ++
  [0, 0, 0, 60] ++ tMoof ++ [0, 0, 0, 16] ++ tMfhd ++ [0, 0, 0, 0, 0, 0, 0, 0] ++
  [0, 0, 0, 36] ++ tTraf ++ [0, 0, 0, 9] ++ tTfhd ++ [7] ++ [0, 0, 0, 9] ++ tTfdt ++ [8] ++ [0, 0, 0, 10] ++ tTrun ++ [1, 2] ++
  [0, 0, 0, 8] ++ tMdat

def goodLib : Lib :=
  { mvhd := fun _ _ => .ok (0, 1000), tfhd := fun _ => some 1, tfdt := fun b => some (b.length * 90000),
    trun := fun b => some (b.length * 45000), init := fun _ => .ok [⟨1, 90000⟩] }

example : (parseSegment cur goodLib goodFile).1 = .ok ([⟨1, 90000⟩], 2000000000) := by decide
example : parseSegment cur goodLib goodFile = parseSegment fixed goodLib goodFile := by decide

end MtxVerif.C28
