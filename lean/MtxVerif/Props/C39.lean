/-
C39 — forward destinations reconcile with configuration.  Property theorems.
-/
import MtxVerif.Model.C39

namespace MtxVerif.C39

/-! #### helper facts about the list functions (no property is stated in this block) -/

theorem initHandlers_conf (nid : Nat) (f : List Conf) : ∀ i, (initHandlers nid i f).map (·.conf) = f := by
  induction f with
  | nil => intro i; rfl
  | cons c cs ih => intro i; simp [initHandlers, mkHandler, ih]

theorem initHandlers_get (nid : Nat) (f : List Conf) : ∀ i j h, (initHandlers nid i f)[j]? = some h →
    h.pos = i + j + 1 ∧ h.id = nid + i + j ∧ h.running = false ∧ h.armed = false := by
  induction f with
  | nil => intro i j h hh; simp [initHandlers] at hh
  | cons c cs ih =>
    intro i j h hh
    cases j with
    | zero =>
      simp [initHandlers] at hh
      subst hh
      simp [mkHandler]
    | succ j =>
      simp [initHandlers] at hh
      obtain ⟨a, b, c, d⟩ := ih (i + 1) j h hh
      exact ⟨by omega, by omega, c, d⟩

theorem mem_getElem? {α : Type} {l : List α} {a : α} (h : a ∈ l) : ∃ j : Nat, l[j]? = some a := by
  obtain ⟨j, hj, e⟩ := List.mem_iff_getElem.mp h
  exact ⟨j, by simp [List.getElem?_eq_getElem hj, e]⟩

theorem startAll_get (strm nep : Nat) : ∀ (l : List Handler) (i j : Nat),
    (startAll strm nep i l)[j]? = (l[j]?).map (hstart strm (nep + (i + j))) := by
  intro l
  induction l with
  | nil => intro i j; simp [startAll]
  | cons h hs ih =>
    intro i j
    cases j with
    | zero => simp [startAll]
    | succ j =>
      simp only [startAll, List.getElem?_cons_succ]
      rw [ih (i + 1) j]
      have : i + 1 + j = i + (j + 1) := by omega
      rw [this]

theorem startAll_length (strm nep : Nat) : ∀ (l : List Handler) (i : Nat),
    (startAll strm nep i l).length = l.length := by
  intro l
  induction l with
  | nil => intro i; rfl
  | cons h hs ih => intro i; simp [startAll, ih]

theorem mem_startAll {strm nep : Nat} {l : List Handler} {i : Nat} {x : Handler}
    (hx : x ∈ startAll strm nep i l) : ∃ (j : Nat) (o : Handler), l[j]? = some o ∧ x = hstart strm (nep + (i + j)) o := by
  obtain ⟨j, hj⟩ := mem_getElem? hx
  rw [startAll_get] at hj
  cases ho : l[j]? with
  | none => simp [ho] at hj
  | some o => simp [ho] at hj; exact ⟨j, o, ho, hj.symm⟩

theorem countRunning_eq_zero {l : List Handler} (h : ∀ x ∈ l, x.running = false) : countRunning l = 0 := by
  unfold countRunning
  rw [List.length_eq_zero_iff, List.filter_eq_nil_iff]
  intro a ha; simp [h a ha]

theorem countRunning_eq_length {l : List Handler} (h : ∀ x ∈ l, x.running = true) :
    countRunning l = l.length := by
  unfold countRunning
  rw [List.filter_eq_self.mpr]
  intro a ha; exact h a ha

/-- position-wise description of the new handler list built by `ReloadConf` -/
theorem reloadAux_fst_get (st : Bool) (strm nid nep : Nat) : ∀ (f : List Conf) (i : Nat) (old : List Handler)
    (j : Nat), (reloadAux st strm nid nep i old f).1[j]? =
      match f[j]? with
      | none => none
      | some c =>
        match old[j]? with
        | some o => if o.conf = c then some o else some (newHandler st strm nid nep (i + j) c)
        | none => some (newHandler st strm nid nep (i + j) c) := by
  intro f
  induction f with
  | nil => intro i old j; simp [reloadAux]
  | cons c cs ih =>
    intro i old j
    cases old with
    | nil =>
      cases j with
      | zero => simp [reloadAux]
      | succ j =>
        simp only [reloadAux, List.getElem?_cons_succ]
        rw [ih (i + 1) [] j]
        have : i + 1 + j = i + (j + 1) := by omega
        simp [this]
    | cons o os =>
      cases j with
      | zero =>
        simp only [reloadAux]
        split <;> simp [*]
      | succ j =>
        have e : i + 1 + j = i + (j + 1) := by omega
        simp only [reloadAux]
        split
        · simp only [List.getElem?_cons_succ]; rw [ih (i + 1) os j, e]
        · simp only [List.getElem?_cons_succ]; rw [ih (i + 1) os j, e]

theorem reloadAux_fst_length (st : Bool) (strm nid nep : Nat) : ∀ (f : List Conf) (i : Nat)
    (old : List Handler), (reloadAux st strm nid nep i old f).1.length = f.length := by
  intro f
  induction f with
  | nil => intro i old; simp [reloadAux]
  | cons c cs ih =>
    intro i old
    cases old with
    | nil => simp [reloadAux, ih]
    | cons o os => simp only [reloadAux]; split <;> simp [ih]

/-- `toClose` = exactly the old handlers whose position is gone or has another configuration -/
theorem reloadAux_snd_mem (st : Bool) (strm nid nep : Nat) : ∀ (f : List Conf) (i : Nat) (old : List Handler)
    (x : Handler), x ∈ (reloadAux st strm nid nep i old f).2 ↔
      ∃ j : Nat, old[j]? = some x ∧ (f[j]? = none ∨ ∃ c, f[j]? = some c ∧ x.conf ≠ c) := by
  intro f
  induction f with
  | nil =>
    intro i old x
    simp only [reloadAux, List.getElem?_nil, true_or, and_true]
    exact ⟨mem_getElem?, fun ⟨j, hj⟩ => List.mem_of_getElem? hj⟩
  | cons c cs ih =>
    intro i old x
    cases old with
    | nil => simp [reloadAux, ih]
    | cons o os =>
      simp only [reloadAux]
      split
      · rename_i heq
        simp only [ih]
        constructor
        · rintro ⟨j, h1, h2⟩; exact ⟨j + 1, by simpa using h1, by simpa using h2⟩
        · rintro ⟨j, h1, h2⟩
          cases j with
          | zero =>
            simp at h1 h2; subst h1; exact absurd heq h2
          | succ j => exact ⟨j, by simpa using h1, by simpa using h2⟩
      · rename_i hne
        simp only [List.mem_cons, ih]
        constructor
        · rintro (rfl | ⟨j, h1, h2⟩)
          · exact ⟨0, by simp, by simpa using hne⟩
          · exact ⟨j + 1, by simpa using h1, by simpa using h2⟩
        · rintro ⟨j, h1, h2⟩
          cases j with
          | zero => simp at h1; exact Or.inl h1.symm
          | succ j => exact Or.inr ⟨j, by simpa using h1, by simpa using h2⟩

theorem reloadAux_fst_conf (st : Bool) (strm nid nep : Nat) : ∀ (f : List Conf) (i : Nat)
    (old : List Handler), (reloadAux st strm nid nep i old f).1.map (·.conf) = f := by
  intro f
  induction f with
  | nil => intro i old; simp [reloadAux]
  | cons c cs ih =>
    intro i old
    have hn : (newHandler st strm nid nep i c).conf = c := by
      unfold newHandler; cases st <;> simp [mkHandler, hstart]
    cases old with
    | nil => simp [reloadAux, ih, hn]
    | cons o os =>
      simp only [reloadAux]
      split
      · rename_i heq; simp [ih, heq]
      · simp [ih, hn]

theorem newHandler_id (st : Bool) (strm nid nep i : Nat) (c : Conf) :
    (newHandler st strm nid nep i c).id = nid + i := by
  unfold newHandler; cases st <;> simp [mkHandler, hstart]

theorem newHandler_pos (st : Bool) (strm nid nep i : Nat) (c : Conf) :
    (newHandler st strm nid nep i c).pos = i + 1 := by
  unfold newHandler; cases st <;> simp [mkHandler, hstart]

theorem newHandler_running (st : Bool) (strm nid nep i : Nat) (c : Conf) :
    (newHandler st strm nid nep i c).running = st ∧ (newHandler st strm nid nep i c).armed = st ∧
    (st = true → (newHandler st strm nid nep i c).strm = strm) := by
  unfold newHandler; cases st <;> simp [mkHandler, hstart]

/-- every handler in the new list is an old one kept in place or the fresh one for its index -/
theorem reloadAux_fst_mem {st : Bool} {strm nid nep : Nat} {f : List Conf} {old : List Handler} {x : Handler}
    (hx : x ∈ (reloadAux st strm nid nep 0 old f).1) :
    ∃ (j : Nat) (c : Conf), f[j]? = some c ∧ ((old[j]? = some x ∧ x.conf = c) ∨ x = newHandler st strm nid nep j c) := by
  obtain ⟨j, hj⟩ := mem_getElem? hx
  rw [reloadAux_fst_get] at hj
  cases hf : f[j]? with
  | none => simp [hf] at hj
  | some c =>
    simp only [hf, Nat.zero_add] at hj
    refine ⟨j, c, hf, ?_⟩
    cases ho : old[j]? with
    | none => simp [ho] at hj; exact Or.inr hj.symm
    | some o =>
      simp only [ho] at hj
      split at hj
      · rename_i heq; simp at hj; subst hj; exact Or.inl ⟨rfl, heq⟩
      · simp at hj; exact Or.inr hj.symm

theorem created_sub (old : List Handler) (f : List Conf) : ∀ c ∈ created old f, c ∈ f := by
  induction f generalizing old with
  | nil => intro c hc; simp [created] at hc
  | cons d ds ih =>
    intro c hc
    cases old with
    | nil =>
      simp only [created, List.mem_cons] at hc
      rcases hc with rfl | hc
      · exact List.mem_cons_self
      · exact List.mem_cons_of_mem _ (ih [] c hc)
    | cons o os =>
      simp only [created] at hc
      split at hc
      · exact List.mem_cons_of_mem _ (ih os c hc)
      · rcases List.mem_cons.mp hc with rfl | hc
        · exact List.mem_cons_self
        · exact List.mem_cons_of_mem _ (ih os c hc)

/-! ### The invariant -/

/-- Holds in every state reachable by *any* sequence of operations (as long as Go has not panicked). -/
structure Inv (s : St) : Prop where
  /-- one handler per configured destination, in configuration order -/
  conf : s.handlers.map (·.conf) = s.cfg
  /-- API positions are 1..n -/
  pos : ∀ (j : Nat) (h : Handler), s.handlers[j]? = some h → h.pos = j + 1
  /-- forwarders are pairwise distinct, also from the removed ones -/
  idsLt : ∀ h ∈ s.handlers, h.id < s.nextId
  idsLtR : ∀ h ∈ s.retired, h.id < s.nextId
  idsNodup : (s.handlers.map (·.id)).Nodup
  idsRetired : ∀ h ∈ s.handlers, ∀ x ∈ s.retired, h.id ≠ x.id
  /-- stream available: every handler runs, on the current stream -/
  up : s.started = true → ∀ h ∈ s.handlers, h.armed = true ∧ h.running = true ∧ h.strm = s.stream
  /-- stream unavailable: none runs -/
  down : s.started = false → ∀ h ∈ s.handlers, h.running = false
  /-- removed or replaced forwarders never run -/
  retiredDown : ∀ h ∈ s.retired, h.running = false

def Good (s : St) : Prop := s.dead = false → Inv s

theorem inv_init (f : List Conf) : Good (initSt f) := by
  intro hd
  unfold initSt at hd ⊢
  split
  · refine ⟨initHandlers_conf 0 f 0, ?_, ?_, by simp, ?_, by simp, by simp, ?_, by simp⟩
    · intro j h hh; have := initHandlers_get 0 f 0 j h hh; omega
    · intro h hh
      obtain ⟨j, hj⟩ := mem_getElem? hh
      have hlt : j < (initHandlers 0 0 f).length := by
        rcases Nat.lt_or_ge j (initHandlers 0 0 f).length with h | h
        · exact h
        · rw [List.getElem?_eq_none h] at hj; cases hj
      have hl : (initHandlers 0 0 f).length = f.length := by
        have := congrArg List.length (initHandlers_conf 0 f 0); simpa using this
      have := initHandlers_get 0 f 0 j h hj
      show h.id < f.length
      omega
    · rw [List.Nodup, List.pairwise_map, List.pairwise_iff_getElem]
      intro a b ha hb hab
      have h1 := initHandlers_get 0 f 0 a _ (List.getElem?_eq_getElem ha)
      have h2 := initHandlers_get 0 f 0 b _ (List.getElem?_eq_getElem hb)
      omega
    · intro _ h hh
      obtain ⟨j, hj⟩ := mem_getElem? hh
      exact (initHandlers_get 0 f 0 j h hj).2.2.1
  · rename_i hv; simp [hv] at hd

/-- `Start` keeps the invariant (whatever the state: a second `Start` only leaks goroutines). -/
theorem inv_start (s : St) (k : Nat) (h : Good s) : Good (step s (.start k)) := by
  intro hd
  unfold step at hd ⊢
  by_cases hdead : s.dead = true
  · simp [hdead] at hd
  · have hd0 : s.dead = false := by simpa using hdead
    have I := h hd0
    simp only [hd0, Bool.false_eq_true, if_false]
    have key : ∀ x ∈ startAll k s.nextEpoch 0 s.handlers,
        ∃ (j : Nat) (o : Handler), s.handlers[j]? = some o ∧ x = hstart k (s.nextEpoch + (0 + j)) o := fun x hx => mem_startAll hx
    refine ⟨?_, ?_, ?_, I.idsLtR, ?_, ?_, ?_, by simp, I.retiredDown⟩
    · show (startAll k s.nextEpoch 0 s.handlers).map (·.conf) = s.cfg
      rw [← I.conf]
      apply List.ext_getElem?
      intro j
      simp only [List.getElem?_map, startAll_get]
      cases s.handlers[j]? <;> simp [hstart]
    · intro j x hx
      show x.pos = j + 1
      have hx' : (startAll k s.nextEpoch 0 s.handlers)[j]? = some x := hx
      rw [startAll_get] at hx'
      cases ho : s.handlers[j]? with
      | none => simp [ho] at hx'
      | some o =>
        simp [ho] at hx'
        subst hx'
        simpa [hstart] using I.pos j o ho
    · intro x hx
      obtain ⟨j, o, ho, rfl⟩ := key x hx
      simpa [hstart] using I.idsLt o (List.mem_of_getElem? ho)
    · show ((startAll k s.nextEpoch 0 s.handlers).map (·.id)).Nodup
      have : (startAll k s.nextEpoch 0 s.handlers).map (·.id) = s.handlers.map (·.id) := by
        apply List.ext_getElem?
        intro j
        simp only [List.getElem?_map, startAll_get]
        cases s.handlers[j]? <;> simp [hstart]
      rw [this]; exact I.idsNodup
    · intro x hx y hy
      obtain ⟨j, o, ho, rfl⟩ := key x hx
      simpa [hstart] using I.idsRetired o (List.mem_of_getElem? ho) y hy
    · intro _ x hx
      obtain ⟨j, o, ho, rfl⟩ := key x hx
      simp [hstart]

/-- `Stop` keeps the invariant. -/
theorem inv_stop (s : St) (h : Good s) : Good (step s .stop) := by
  intro hd
  unfold step at hd ⊢
  by_cases hdead : s.dead = true
  · simp [hdead] at hd
  · have hd0 : s.dead = false := by simpa using hdead
    have I := h hd0
    simp only [hd0, Bool.false_eq_true, if_false] at hd ⊢
    split
    · refine ⟨?_, ?_, ?_, I.idsLtR, ?_, ?_, by simp, ?_, I.retiredDown⟩
      · show (s.handlers.map hstop).map (·.conf) = s.cfg
        rw [← I.conf]; simp [hstop, Function.comp_def]
      · intro j x hx
        have hx' : (s.handlers.map hstop)[j]? = some x := hx
        rw [List.getElem?_map] at hx'
        cases ho : s.handlers[j]? with
        | none => simp [ho] at hx'
        | some o => simp [ho] at hx'; subst hx'; simpa [hstop] using I.pos j o ho
      · intro x hx
        obtain ⟨o, ho, rfl⟩ := List.mem_map.mp hx
        simpa [hstop] using I.idsLt o ho
      · show ((s.handlers.map hstop).map (·.id)).Nodup
        have : (s.handlers.map hstop).map (·.id) = s.handlers.map (·.id) := by
          simp [hstop, Function.comp_def]
        rw [this]; exact I.idsNodup
      · intro x hx y hy
        obtain ⟨o, ho, rfl⟩ := List.mem_map.mp hx
        simpa [hstop] using I.idsRetired o ho y hy
      · intro _ x hx
        obtain ⟨o, ho, rfl⟩ := List.mem_map.mp hx
        simp [hstop]
    · rename_i hna; simp [hna] at hd

/-- `ReloadConf` keeps the invariant. -/
theorem inv_reload (s : St) (f : List Conf) (h : Good s) : Good (step s (.reload f)) := by
  intro hd
  unfold step at hd ⊢
  by_cases hdead : s.dead = true
  · simp [hdead] at hd
  · have hd0 : s.dead = false := by simpa using hdead
    have I := h hd0
    simp only [hd0, Bool.false_eq_true, if_false] at hd ⊢
    by_cases hcr : (created s.handlers f).all validScheme = true
    · simp only [hcr, Bool.not_true, Bool.false_eq_true, if_false] at hd ⊢
      -- facts about the two result lists
      have hfst : ∀ x ∈ (reloadAux s.started s.stream s.nextId s.nextEpoch 0 s.handlers f).1,
          ∃ (j : Nat) (c : Conf), f[j]? = some c ∧ ((s.handlers[j]? = some x ∧ x.conf = c) ∨
            x = newHandler s.started s.stream s.nextId s.nextEpoch j c) := fun x hx => reloadAux_fst_mem hx
      have hsnd : ∀ x ∈ (reloadAux s.started s.stream s.nextId s.nextEpoch 0 s.handlers f).2,
          x ∈ s.handlers := by
        intro x hx
        obtain ⟨j, hj, _⟩ := (reloadAux_snd_mem _ _ _ _ f 0 s.handlers x).mp hx
        exact List.mem_of_getElem? hj
      have hjlt : ∀ (j : Nat) (c : Conf), f[j]? = some c → j < f.length := by
        intro j c hj
        rcases Nat.lt_or_ge j f.length with h | h
        · exact h
        · rw [List.getElem?_eq_none h] at hj; cases hj
      -- the invariant of the state before the `toClose` handlers are stopped
      have core : ∀ (t : St) (ret : List Handler),
          t.handlers = (reloadAux s.started s.stream s.nextId s.nextEpoch 0 s.handlers f).1 →
          f = t.cfg → t.nextId = s.nextId + f.length → t.started = s.started → t.stream = s.stream →
          t.retired = s.retired ++ ret →
          (∀ x ∈ ret, ∃ o ∈ (reloadAux s.started s.stream s.nextId s.nextEpoch 0 s.handlers f).2,
            x.id = o.id ∧ x.conf = o.conf ∧ (x.running = false)) → Inv t := by
        intro t ret h1 h2 h3 h4 h5 h6 hret
        obtain ⟨th, tst, tstream, tnid, tnep, tleak, tret, tcfg, tdead⟩ := t
        simp only at h1 h2 h3 h4 h5 h6
        subst h1 h2 h3 h4 h5 h6
        refine ⟨reloadAux_fst_conf _ _ _ _ f 0 s.handlers, ?_, ?_, ?_, ?_, ?_, ?_, ?_, ?_⟩
        · intro j x hx
          have hx' : (reloadAux s.started s.stream s.nextId s.nextEpoch 0 s.handlers f).1[j]? = some x := hx
          rw [reloadAux_fst_get] at hx'
          cases hf : f[j]? with
          | none => simp [hf] at hx'
          | some c =>
            simp only [hf, Nat.zero_add] at hx'
            cases ho : s.handlers[j]? with
            | none => simp [ho] at hx'; subst hx'; exact newHandler_pos ..
            | some o =>
              simp only [ho] at hx'
              split at hx'
              · simp at hx'; subst hx'; exact I.pos j o ho
              · simp at hx'; subst hx'; exact newHandler_pos ..
        · intro x hx
          show x.id < s.nextId + f.length
          obtain ⟨j, c, hf, h | h⟩ := hfst x hx
          · have := I.idsLt x (List.mem_of_getElem? h.1); omega
          · have := hjlt j c hf; rw [h, newHandler_id]; omega
        · intro x hx
          show x.id < s.nextId + f.length
          rcases List.mem_append.mp hx with hx | hx
          · have := I.idsLtR x hx; omega
          · obtain ⟨o, ho, e, _⟩ := hret x hx
            have := I.idsLt o (hsnd o ho); omega
        · -- pairwise distinct ids, by index
          show ((reloadAux s.started s.stream s.nextId s.nextEpoch 0 s.handlers f).1.map (·.id)).Nodup
          rw [List.Nodup, List.pairwise_map, List.pairwise_iff_getElem]
          intro a b ha hb hab
          have ga := reloadAux_fst_get s.started s.stream s.nextId s.nextEpoch f 0 s.handlers a
          have gb := reloadAux_fst_get s.started s.stream s.nextId s.nextEpoch f 0 s.handlers b
          rw [List.getElem?_eq_getElem ha] at ga
          rw [List.getElem?_eq_getElem hb] at gb
          generalize (reloadAux s.started s.stream s.nextId s.nextEpoch 0 s.handlers f).1[a] = xa at ga
          generalize (reloadAux s.started s.stream s.nextId s.nextEpoch 0 s.handlers f).1[b] = xb at gb
          -- each is an old handler at its own index or the fresh one for its index
          have cls : ∀ (j : Nat) (x : Handler), (some x = match f[j]? with
              | none => none
              | some c => match s.handlers[j]? with
                | some o => if o.conf = c then some o else some (newHandler s.started s.stream s.nextId s.nextEpoch (0 + j) c)
                | none => some (newHandler s.started s.stream s.nextId s.nextEpoch (0 + j) c)) →
              (s.handlers[j]? = some x) ∨ x.id = s.nextId + j := by
            intro j x hx
            cases hf : f[j]? with
            | none => simp [hf] at hx
            | some c =>
              simp only [hf, Nat.zero_add] at hx
              cases ho : s.handlers[j]? with
              | none => simp [ho] at hx; subst hx; exact Or.inr (newHandler_id ..)
              | some o =>
                simp only [ho] at hx
                split at hx
                · simp at hx; subst hx; exact Or.inl rfl
                · simp at hx; subst hx; exact Or.inr (newHandler_id ..)
          rcases cls a xa ga with h1 | h1 <;> rcases cls b xb gb with h2 | h2
          · -- two old handlers at different indices
            have nd := I.idsNodup
            rw [List.Nodup, List.pairwise_map, List.pairwise_iff_getElem] at nd
            have la : a < s.handlers.length := by
              rcases Nat.lt_or_ge a s.handlers.length with h | h
              · exact h
              · rw [List.getElem?_eq_none h] at h1; cases h1
            have lb : b < s.handlers.length := by
              rcases Nat.lt_or_ge b s.handlers.length with h | h
              · exact h
              · rw [List.getElem?_eq_none h] at h2; cases h2
            have := nd a b la lb hab
            rw [List.getElem?_eq_getElem la] at h1
            rw [List.getElem?_eq_getElem lb] at h2
            simp at h1 h2
            rw [h1, h2] at this; exact this
          · have := I.idsLt xa (List.mem_of_getElem? h1); omega
          · have := I.idsLt xb (List.mem_of_getElem? h2); omega
          · omega
        · -- distinct from every retired one
          intro x hx y hy
          obtain ⟨j, c, hf, hxo | hxn⟩ := hfst x hx
          · rcases List.mem_append.mp hy with hy | hy
            · exact I.idsRetired x (List.mem_of_getElem? hxo.1) y hy
            · obtain ⟨o, ho, e, ec, _⟩ := hret y hy
              obtain ⟨j', hj', hcl⟩ := (reloadAux_snd_mem _ _ _ _ f 0 s.handlers o).mp ho
              rw [e]
              intro hid
              -- same id ⇒ same index ⇒ `o` was kept, not closed
              have nd := I.idsNodup
              rw [List.Nodup, List.pairwise_map, List.pairwise_iff_getElem] at nd
              have lj : j < s.handlers.length := by
                rcases Nat.lt_or_ge j s.handlers.length with h | h
                · exact h
                · rw [List.getElem?_eq_none h] at hxo; cases hxo.1
              have lj' : j' < s.handlers.length := by
                rcases Nat.lt_or_ge j' s.handlers.length with h | h
                · exact h
                · rw [List.getElem?_eq_none h] at hj'; cases hj'
              have e1 : s.handlers[j] = x := by
                have := hxo.1; rw [List.getElem?_eq_getElem lj] at this; simpa using this
              have e2 : s.handlers[j'] = o := by
                have := hj'; rw [List.getElem?_eq_getElem lj'] at this; simpa using this
              have hjj : j = j' := by
                rcases Nat.lt_trichotomy j j' with h | h | h
                · have := nd j j' lj lj' h; rw [e1, e2] at this; exact absurd hid this
                · exact h
                · have := nd j' j lj' lj h; rw [e1, e2] at this; exact absurd hid.symm this
              subst hjj
              have exo : x = o := by rw [← e1, ← e2]
              subst exo
              rcases hcl with hn | ⟨c', hc', hne⟩
              · rw [hn] at hf; cases hf
              · rw [hc'] at hf; cases hf; exact hne hxo.2
          · have hj := hjlt j c hf
            rw [hxn, newHandler_id]
            rcases List.mem_append.mp hy with hy | hy
            · have := I.idsLtR y hy; omega
            · obtain ⟨o, ho, e, _⟩ := hret y hy
              have := I.idsLt o (hsnd o ho); omega
        · intro hst x hx
          have hst' : s.started = true := hst
          obtain ⟨j, c, hf, hxo | hxn⟩ := hfst x hx
          · exact I.up hst' x (List.mem_of_getElem? hxo.1)
          · have := newHandler_running s.started s.stream s.nextId s.nextEpoch j c
            rw [hst'] at this
            rw [hxn, hst']
            exact ⟨this.2.1, this.1, this.2.2 rfl⟩
        · intro hst x hx
          have hst' : s.started = false := hst
          obtain ⟨j, c, hf, hxo | hxn⟩ := hfst x hx
          · exact I.down hst' x (List.mem_of_getElem? hxo.1)
          · have := newHandler_running s.started s.stream s.nextId s.nextEpoch j c
            rw [hxn, this.1, hst']
        · intro x hx
          rcases List.mem_append.mp hx with hx | hx
          · exact I.retiredDown x hx
          · obtain ⟨o, ho, _, _, e⟩ := hret x hx
            exact e
      by_cases hst : s.started = true
      · simp only [hst, if_true] at hd ⊢
        split
        · refine core _ ((reloadAux s.started s.stream s.nextId s.nextEpoch 0 s.handlers f).2.map hstop)
            (by simp [hst]) rfl rfl (by simp [hst]) rfl (by simp [hst]) ?_
          intro x hx
          obtain ⟨o, ho, rfl⟩ := List.mem_map.mp hx
          exact ⟨o, ho, by simp [hstop]⟩
        · rename_i hna
          simp [hna] at hd
      · have hst' : s.started = false := by simpa using hst
        simp only [hst', Bool.false_eq_true, if_false] at hd ⊢
        refine core _ (reloadAux s.started s.stream s.nextId s.nextEpoch 0 s.handlers f).2
          (by simp [hst']) rfl rfl (by simp [hst']) rfl (by simp [hst']) ?_
        intro x hx
        exact ⟨x, hx, rfl, rfl, I.down hst' x (hsnd x hx)⟩
    · simp [hcr] at hd

/-- Every operation keeps the invariant. -/
theorem inv_step (s : St) (op : Op) (h : Good s) : Good (step s op) := by
  cases op with
  | start k => exact inv_start s k h
  | stop => exact inv_stop s h
  | reload f => exact inv_reload s f h

/-- **All histories.**  After `Initialize` and any sequence of `Start` / `Stop` / `ReloadConf`
(in any order, even a misuse of the interface), unless Go has panicked: the handler list mirrors the
configured list position by position, forwarders are pairwise distinct; if the manager is started
every listed forwarder runs on the current stream; if it is stopped none runs; a removed or replaced
forwarder never runs. -/
theorem inv_run (ops : List Op) : ∀ s, Good s → Good (run s ops) := by
  induction ops with
  | nil => intro s h; exact h
  | cons op ops ih => intro s h; exact ih _ (inv_step s op h)

/-! ### Histories that respect the environment contract (`wf`) -/

/-- no panic and no leaked goroutine -/
structure Clean (s : St) : Prop where
  alive : s.dead = false
  noLeak : s.leaked = 0

theorem clean_step (s : St) (op : Op) (ops : List Op) (hg : Good s) (hc : Clean s)
    (hwf : wf s.started (op :: ops) = true) :
    Clean (step s op) ∧ wf (step s op).started ops = true := by
  have I := hg hc.alive
  cases op with
  | start k =>
    simp only [wf, Bool.and_eq_true, Bool.not_eq_true'] at hwf
    have hz := countRunning_eq_zero (I.down hwf.1)
    simp only [step, hc.alive, Bool.false_eq_true, if_false]
    exact ⟨⟨rfl, by simp [hc.noLeak, hz]⟩, hwf.2⟩
  | stop =>
    simp only [wf, Bool.and_eq_true] at hwf
    have ha : s.handlers.all (·.armed) = true := by
      rw [List.all_eq_true]; intro x hx; exact (I.up hwf.1 x hx).1
    simp only [step, hc.alive, Bool.false_eq_true, if_false, ha, if_true]
    exact ⟨⟨rfl, hc.noLeak⟩, hwf.2⟩
  | reload f =>
    simp only [wf, Bool.and_eq_true] at hwf
    have hcr : (created s.handlers f).all validScheme = true := by
      rw [List.all_eq_true]
      intro c hc'
      exact (List.all_eq_true.mp hwf.1) c (created_sub _ _ c hc')
    simp only [step, hc.alive, Bool.false_eq_true, if_false, hcr, Bool.not_true]
    by_cases hst : s.started = true
    · have ha : (reloadAux s.started s.stream s.nextId s.nextEpoch 0 s.handlers f).2.all (·.armed) = true := by
        rw [List.all_eq_true]
        intro x hx
        obtain ⟨j, hj, _⟩ := (reloadAux_snd_mem _ _ _ _ f 0 s.handlers x).mp hx
        exact (I.up hst x (List.mem_of_getElem? hj)).1
      simp only [hst, if_true] at ha ⊢
      simp only [ha, if_true]
      exact ⟨⟨rfl, hc.noLeak⟩, by simpa [hst] using hwf.2⟩
    · have hst' : s.started = false := by simpa using hst
      simp only [hst', Bool.false_eq_true, if_false]
      exact ⟨⟨rfl, hc.noLeak⟩, by simpa [hst'] using hwf.2⟩

theorem clean_run (ops : List Op) : ∀ s, Good s → Clean s → wf s.started ops = true →
    Clean (run s ops) := by
  induction ops with
  | nil => intro s _ hc _; exact hc
  | cons op ops ih =>
    intro s hg hc hwf
    have := clean_step s op ops hg hc hwf
    exact ih _ (inv_step s op hg) this.1 this.2

/-- **The property, over all histories.**  For every configured list with known schemes and every
sequence of reloads and alternating stream start/stop: Go never panics, and in the final state
(hence after every prefix)
* while the stream is available the listed forwarders are exactly the configured destinations in
  configuration order, every one of them runs, on the available stream, and the manager owns exactly
  as many forwarder goroutines as there are configured destinations (one each, none left over);
* while the stream is unavailable no forwarder goroutine exists. -/
theorem forward_reconciles (f : List Conf) (ops : List Op) (hf : f.all validScheme = true)
    (hwf : wf false ops = true) :
    let s := run (initSt f) ops
    s.dead = false ∧ s.handlers.map (·.conf) = s.cfg ∧ (s.handlers.map (·.id)).Nodup ∧
    (s.started = true → (∀ h ∈ s.handlers, h.running = true ∧ h.strm = s.stream) ∧
        goroutines s = s.cfg.length) ∧
    (s.started = false → goroutines s = 0) := by
  intro s
  have h0 : (initSt f).dead = false ∧ (initSt f).leaked = 0 ∧ (initSt f).started = false := by
    simp [initSt, hf]
  have hg := inv_run ops (initSt f) (inv_init f)
  have hc := clean_run ops (initSt f) (inv_init f) ⟨h0.1, h0.2.1⟩ (by rw [h0.2.2]; exact hwf)
  have I := hg hc.alive
  refine ⟨hc.alive, I.conf, I.idsNodup, ?_, ?_⟩
  · intro hst
    refine ⟨fun h hh => ⟨(I.up hst h hh).2.1, (I.up hst h hh).2.2⟩, ?_⟩
    unfold goroutines
    rw [hc.noLeak, countRunning_eq_zero I.retiredDown,
      countRunning_eq_length (fun x hx => (I.up hst x hx).2.1), ← I.conf]
    simp
  · intro hst
    unfold goroutines
    rw [hc.noLeak, countRunning_eq_zero I.retiredDown, countRunning_eq_zero (I.down hst)]

/-- The configured list is the argument of the last reload (or of `Initialize`). -/
theorem cfg_reload (s : St) (f : List Conf) (hd : (step s (.reload f)).dead = false) :
    (step s (.reload f)).cfg = f := by
  unfold step at hd ⊢
  by_cases hdead : s.dead = true
  · simp [hdead] at hd
  · have hd0 : s.dead = false := by simpa using hdead
    simp only [hd0, Bool.false_eq_true, if_false] at hd ⊢
    split
    · rename_i h; simp [h] at hd
    · split
      · split <;> rfl
      · rfl

/-- **Reload, position by position** (any state satisfying the invariant, no panic).
For every index `j` of the new list `f`:
* if the old list has a handler at `j` with the same configuration, the very same handler is at `j`
  afterwards — same forwarder id, same `done` channel (epoch), same running state: untouched;
* otherwise the handler at `j` is a fresh one (`id = nextId + j`, never used before), running iff the
  manager is started; and the old handler at `j`, if any, has been retired and does not run.
Every old handler beyond the end of `f` has been retired and does not run. -/
theorem reload_positionwise (s : St) (f : List Conf) (hg : Good s)
    (hd : (step s (.reload f)).dead = false) :
    let s' := step s (.reload f)
    (∀ (j : Nat) (c : Conf), f[j]? = some c →
      (∀ o : Handler, s.handlers[j]? = some o → o.conf = c → s'.handlers[j]? = some o) ∧
      ((s.handlers[j]? = none ∨ ∃ o : Handler, s.handlers[j]? = some o ∧ o.conf ≠ c) →
        ∃ h : Handler, s'.handlers[j]? = some h ∧ h.id = s.nextId + j ∧ h.conf = c ∧ h.pos = j + 1 ∧
          h.running = s.started ∧ (∀ o ∈ s.handlers ++ s.retired, o.id < h.id))) ∧
    (∀ (j : Nat) (o : Handler), s.handlers[j]? = some o → (f[j]? = none ∨ ∃ c, f[j]? = some c ∧ o.conf ≠ c) →
      ∃ x ∈ s'.retired, x.id = o.id ∧ x.running = false) ∧
    s'.handlers.length = f.length := by
  intro s'
  have hd0 : s.dead = false := by
    cases h : s.dead with
    | false => rfl
    | true => simp [step, h] at hd
  have I := hg hd0
  have hcr : (created s.handlers f).all validScheme = true := by
    cases h : (created s.handlers f).all validScheme with
    | true => rfl
    | false => simp [step, hd0, h] at hd
  -- shape of the post-state
  have hH : s'.handlers = (reloadAux s.started s.stream s.nextId s.nextEpoch 0 s.handlers f).1 := by
    show (step s (.reload f)).handlers = _
    simp only [step, hd0, Bool.false_eq_true, if_false, hcr, Bool.not_true]
    split
    · split <;> rfl
    · rfl
  have hR : ∀ o ∈ (reloadAux s.started s.stream s.nextId s.nextEpoch 0 s.handlers f).2,
      ∃ x ∈ s'.retired, x.id = o.id ∧ x.running = false := by
    intro o ho
    have hoH : o ∈ s.handlers := by
      obtain ⟨j, hj, _⟩ := (reloadAux_snd_mem _ _ _ _ f 0 s.handlers o).mp ho
      exact List.mem_of_getElem? hj
    show ∃ x ∈ (step s (.reload f)).retired, _
    simp only [step, hd0, Bool.false_eq_true, if_false, hcr, Bool.not_true]
    by_cases hst : s.started = true
    · have ho' := ho
      rw [hst] at ho'
      simp only [hst, if_true]
      split
      · exact ⟨hstop o, List.mem_append_right _ (List.mem_map_of_mem ho'), by simp [hstop]⟩
      · exact ⟨o, List.mem_append_right _ ho', rfl, by
          rename_i hna
          -- unreachable: every handler is armed while started
          exfalso; apply hna
          rw [List.all_eq_true]; intro x hx
          obtain ⟨j, hj, _⟩ := (reloadAux_snd_mem _ _ _ _ f 0 s.handlers x).mp (by simpa [hst] using hx)
          exact (I.up hst x (List.mem_of_getElem? hj)).1⟩
    · have hst' : s.started = false := by simpa using hst
      have ho' := ho
      rw [hst'] at ho'
      simp only [hst', Bool.false_eq_true, if_false]
      exact ⟨o, List.mem_append_right _ ho', rfl, I.down hst' o hoH⟩
  refine ⟨?_, ?_, by rw [hH, reloadAux_fst_length]⟩
  · intro j c hf
    have g := reloadAux_fst_get s.started s.stream s.nextId s.nextEpoch f 0 s.handlers j
    rw [hf] at g
    simp only [Nat.zero_add] at g
    constructor
    · intro o ho heq
      rw [hH, g, ho]; simp [heq]
    · intro hch
      have hnew : s'.handlers[j]? = some (newHandler s.started s.stream s.nextId s.nextEpoch j c) := by
        rw [hH, g]
        rcases hch with hn | ⟨o, ho, hne⟩
        · rw [hn]
        · rw [ho]; simp [hne]
      refine ⟨_, hnew, newHandler_id .., ?_, newHandler_pos .., (newHandler_running ..).1, ?_⟩
      · unfold newHandler; cases s.started <;> simp [mkHandler, hstart]
      · intro o ho
        rw [newHandler_id]
        rcases List.mem_append.mp ho with ho | ho
        · have := I.idsLt o ho; omega
        · have := I.idsLtR o ho; omega
  · intro j o ho hcl
    exact hR o ((reloadAux_snd_mem s.started s.stream s.nextId s.nextEpoch f 0 s.handlers o).mpr ⟨j, ho, hcl⟩)

/-- While the stream is available a reload leaves every position-wise unchanged destination running
on the same goroutine, and every listed destination runs afterwards. -/
theorem reload_while_available (s : St) (f : List Conf) (hg : Good s) (hst : s.started = true)
    (hd : (step s (.reload f)).dead = false) (j : Nat) (o : Handler) (c : Conf)
    (ho : s.handlers[j]? = some o) (hf : f[j]? = some c) (heq : o.conf = c) :
    (step s (.reload f)).handlers[j]? = some o ∧ o.running = true ∧
    (∀ h ∈ (step s (.reload f)).handlers, h.running = true) := by
  have hd0 : s.dead = false := by
    cases h : s.dead with
    | false => rfl
    | true => simp [step, h] at hd
  have I := hg hd0
  have R := reload_positionwise s f hg hd
  have I' := inv_reload s f hg hd
  have hst' : (step s (.reload f)).started = true := by
    have hcr : (created s.handlers f).all validScheme = true := by
      cases h : (created s.handlers f).all validScheme with
      | true => rfl
      | false => simp [step, hd0, h] at hd
    simp only [step, hd0, Bool.false_eq_true, if_false, hcr, Bool.not_true, hst, if_true]
    split <;> rfl
  exact ⟨(R.1 j c hf).1 o ho heq, (I.up hst o (List.mem_of_getElem? ho)).2.1,
    fun h hh => (I'.up hst' h hh).2.1⟩

/-! ### The contract is necessary: what misuse does (explicit outcomes, no silent totalisation) -/

/-- `Stop` before any `Start` on a non-empty list calls a nil `ctxCancel`: Go panics. -/
theorem stop_before_start_panics (c : Conf) (cs : List Conf) (hv : (c :: cs).all validScheme = true) :
    (step (initSt (c :: cs)) .stop).dead = true := by
  simp only [initSt, hv, if_true, step, Bool.false_eq_true, if_false]
  simp [initHandlers, mkHandler]

/-- A second `Start` without `Stop` leaves one uncancellable goroutine per destination behind. -/
theorem double_start_leaks (f : List Conf) (hv : f.all validScheme = true) (a b : Nat) :
    (run (initSt f) [.start a, .start b]).leaked = f.length := by
  have hg := inv_start (initSt f) a (inv_init f)
  have hdead : (step (initSt f) (.start a)).dead = false := by simp [initSt, hv, step]
  have I := hg hdead
  have hst : (step (initSt f) (.start a)).started = true := by simp [initSt, hv, step]
  have hl : (step (initSt f) (.start a)).leaked = 0 := by
    have I0 := inv_init f (by simp [initSt, hv])
    have : (initSt f).started = false := by simp [initSt, hv]
    have hz := countRunning_eq_zero (I0.down this)
    simp [initSt, hv, step] at hz ⊢
    exact hz
  show (step (step (initSt f) (.start a)) (.start b)).leaked = f.length
  have hlen : (step (initSt f) (.start a)).handlers.length = f.length := by
    have := congrArg List.length I.conf
    simp only [List.length_map] at this
    rw [this]; simp [initSt, hv, step]
  have hc := countRunning_eq_length (fun x hx => (I.up hst x hx).2.1)
  generalize step (initSt f) (.start a) = s1 at *
  simp only [step, hdead, Bool.false_eq_true, if_false]
  omega

/-! ### Non-vacuity -/

def cA : Conf := ⟨"rtmp://h/a", "", ""⟩
def cB : Conf := ⟨"rtsp://h/b", "", ""⟩
def cB' : Conf := ⟨"rtsp://h/b", "fp", ""⟩
def cC : Conf := ⟨"srt://h:1", "", ""⟩

/-- a contract-respecting history with an unchanged, a changed, an added and a removed destination -/
example : wf false [.start 1, .reload [cA, cB', cC], .stop, .reload [cA], .start 2] = true := by
  simp [wf, validScheme, cA, cB', cC]

example :
    let s := run (initSt [cA, cB]) [.start 1, .reload [cA, cB', cC]]
    s.handlers.map (fun h => (h.id, h.running, h.epoch)) = [(0, true, 1), (3, true, 4), (4, true, 5)] ∧
    s.retired.map (fun h => (h.id, h.running)) = [(1, false)] ∧ goroutines s = 3 := by
  simp [run, step, initSt, initHandlers, mkHandler, startAll, hstart, hstop, reloadAux, newHandler, created,
    validScheme, cA, cB, cB', cC, goroutines, countRunning]

end MtxVerif.C39
