/-
C42 — source and destination templates substitute placeholders exactly.  Property theorems
(model = the single-pass `strings.NewReplacer` the code uses since /repo 8657437).

* `sim_tokens` (ALL templates, ALL values): the result is the concatenation, token by token, of a
  tokenisation computed from the template and the placeholder texts alone — an inserted value is never
  scanned, so no placeholder is ever replaced inside one.
* A template is also read as a list of items (`lit c` / `ph i`) with meaning `renderAll` (every
  placeholder replaced by its value, nothing else touched).  `sim_exact`: for every DELIMITED template
  (no stray `$`; every placeholder followed by the end or by a byte that occurs in no placeholder) and
  ANY values the pass yields exactly `renderAll`.
* `resolveSource_delimited`, `resolveDest_delimited`: the two functions with their real placeholder
  lists (`$G<n>` n-th group incl. multi-digit indices, `$MTX_QUERY`, `$MTX_PATH`); the condition "a
  higher-priority placeholder is never a prefix of a lower-priority one" is proved for the descending
  `$G` family from decimal arithmetic (`prefixOK_source/_dest`).
-/
import MtxVerif.Model.C42

namespace MtxVerif.C42

/-! #### `simGo` basics -/

theorem simGo_skip (P : Phs) : ∀ (k : Nat) (s : Bytes), simGo P k s = simGo P 0 (s.drop k)
  | 0, s => by simp
  | k + 1, [] => by simp [simGo]
  | k + 1, _ :: r => by
    simp only [simGo, List.drop_succ_cons]
    exact simGo_skip P k r

/-- every placeholder text is `$` followed by bytes other than `$` -/
def ShapeOK (P : Phs) : Prop := ∀ p ∈ P, ∃ body, p.1 = DOLLAR :: body ∧ DOLLAR ∉ body

theorem firstMatch_none_of_ne_dollar {P : Phs} (hP : ShapeOK P) {c : UInt8} (hc : c ≠ DOLLAR) (r : Bytes) :
    firstMatch P (c :: r) = none := by
  induction P with
  | nil => rfl
  | cons p ps ih =>
    obtain ⟨body, hb, _⟩ := hP p List.mem_cons_self
    have hne : (DOLLAR == c) = false := by
      rw [beq_eq_false_iff_ne]; exact fun e => hc e.symm
    simp only [firstMatch, hb, List.isPrefixOf, hne, Bool.false_and]
    exact ih (fun q hq => hP q (List.mem_cons_of_mem _ hq))

theorem simGo_lit {P : Phs} (hP : ShapeOK P) {c : UInt8} (hc : c ≠ DOLLAR) (r : Bytes) :
    simGo P 0 (c :: r) = c :: simGo P 0 r := by
  simp only [simGo, firstMatch_none_of_ne_dollar hP hc]

/-- bytes without `$` pass through unchanged -/
theorem simGo_plain {P : Phs} (hP : ShapeOK P) (v r : Bytes) (hv : DOLLAR ∉ v) :
    simGo P 0 (v ++ r) = v ++ simGo P 0 r := by
  induction v with
  | nil => rfl
  | cons c v ih =>
    have hc : c ≠ DOLLAR := fun e => hv (e ▸ List.mem_cons_self)
    rw [List.cons_append, simGo_lit hP hc, ih (fun h => hv (List.mem_cons_of_mem _ h))]
    rfl

/-- a match: the value is emitted and the scan continues after the placeholder -/
theorem simGo_match {P : Phs} {p : Bytes × Bytes} {body rest : Bytes} (hp : p.1 = DOLLAR :: body)
    (hm : firstMatch P (DOLLAR :: (body ++ rest)) = some p) :
    simGo P 0 (p.1 ++ rest) = p.2 ++ simGo P 0 rest := by
  rw [hp, List.cons_append]
  simp only [simGo, hm]
  rw [simGo_skip, hp]
  simp

/-! #### prefixes and delimiters -/

/-- if `p` is a prefix of `a ++ X` and `X` is empty or starts with a byte not in `p`, then `p` is a prefix of `a` -/
theorem prefix_of_delim {p a X : Bytes} (h : p <+: a ++ X)
    (hX : X = [] ∨ ∃ c X', X = c :: X' ∧ c ∉ p) : p <+: a := by
  induction a generalizing p with
  | nil =>
    rcases hX with rfl | ⟨c, X', rfl, hc⟩
    · simpa using h
    · cases p with
      | nil => exact List.nil_prefix
      | cons d p' =>
        rw [List.nil_append, List.cons_prefix_cons] at h
        exact absurd (h.1 ▸ List.mem_cons_self) hc
  | cons b a ih =>
    cases p with
    | nil => exact List.nil_prefix
    | cons d p' =>
      rw [List.cons_append, List.cons_prefix_cons] at h
      rw [List.cons_prefix_cons]
      refine ⟨h.1, ih h.2 ?_⟩
      rcases hX with rfl | ⟨c, X', rfl, hc⟩
      · exact Or.inl rfl
      · exact Or.inr ⟨c, X', rfl, fun hm => hc (List.mem_cons_of_mem _ hm)⟩

/-! #### templates as item lists -/

inductive Item where
  | lit (c : UInt8)
  | ph (i : Nat)      -- i-th placeholder of the priority list
deriving Repr, DecidableEq

def oldAt (P : Phs) (i : Nat) : Bytes := (P.getD i ([], [])).1
def valAt (P : Phs) (i : Nat) : Bytes := (P.getD i ([], [])).2

/-- the template text -/
def flatten (P : Phs) : List Item → Bytes
  | [] => []
  | .lit c :: t => c :: flatten P t
  | .ph i :: t => oldAt P i ++ flatten P t

/-- **the meaning of a template**: every placeholder replaced by its value, nothing else touched -/
def renderAll (P : Phs) : List Item → Bytes
  | [] => []
  | .lit c :: t => c :: renderAll P t
  | .ph i :: t => valAt P i ++ renderAll P t

/-- a byte that occurs in no placeholder text -/
def Delim (P : Phs) (c : UInt8) : Prop := ∀ p ∈ P, c ∉ p.1

/-- what may follow a placeholder: the end of the template or a delimiter byte -/
def NextOK (P : Phs) : List Item → Prop
  | [] => True
  | .lit c :: _ => Delim P c
  | .ph _ :: _ => False

/-- DELIMITED templates: literals are not `$`; every placeholder exists, is not shadowed by a
higher-priority placeholder that is a prefix of it, and is followed by the end of the template or by
a delimiter byte. -/
def GoodItems (P : Phs) : List Item → Prop
  | [] => True
  | .lit c :: t => c ≠ DOLLAR ∧ GoodItems P t
  | .ph i :: t =>
    i < P.length ∧ (∀ n, n < i → ¬ oldAt P n <+: oldAt P i) ∧ NextOK P t ∧ GoodItems P t

instance (P : Phs) (c : UInt8) : Decidable (Delim P c) := by unfold Delim; exact inferInstance

instance (P : Phs) : (t : List Item) → Decidable (NextOK P t)
  | [] => isTrue trivial
  | .lit c :: _ => by unfold NextOK; exact inferInstance
  | .ph _ :: _ => isFalse id

instance goodItemsDec (P : Phs) : (t : List Item) → Decidable (GoodItems P t)
  | [] => isTrue trivial
  | .lit c :: t => by
    have := goodItemsDec P t
    unfold GoodItems; exact inferInstance
  | .ph i :: t => by
    have := goodItemsDec P t
    unfold GoodItems; exact inferInstance

theorem getD_mem {P : Phs} {i : Nat} (h : i < P.length) : P.getD i ([], []) ∈ P := by
  rw [List.getD_eq_getElem?_getD, List.getElem?_eq_getElem h]; exact List.getElem_mem h

theorem oldAt_shape {P : Phs} (hP : ShapeOK P) {i : Nat} (h : i < P.length) :
    ∃ body, oldAt P i = DOLLAR :: body ∧ DOLLAR ∉ body := hP _ (getD_mem h)

/-- what follows a placeholder in a delimited template, under any of the renderings -/
theorem next_delim {P : Phs} {t : List Item} (f : List Item → Bytes)
    (hf0 : f [] = []) (hfl : ∀ c t', f (.lit c :: t') = c :: f t')
    (h : NextOK P t) :
    f t = [] ∨ ∃ c X', f t = c :: X' ∧ Delim P c := by
  cases t with
  | nil => exact Or.inl hf0
  | cons x t' =>
    cases x with
    | lit c => exact Or.inr ⟨c, f t', hfl c t', h⟩
    | ph j => exact absurd h id

/-- in a delimited template no higher-priority placeholder matches where placeholder `i` stands -/
theorem no_shadow {P : Phs} {i n : Nat} {X : Bytes} (hi : i < P.length) (hn : n < i)
    (hpre : ∀ n, n < i → ¬ oldAt P n <+: oldAt P i)
    (hX : X = [] ∨ ∃ c X', X = c :: X' ∧ Delim P c) : ¬ oldAt P n <+: oldAt P i ++ X := by
  intro h
  apply hpre n hn
  apply prefix_of_delim h
  rcases hX with rfl | ⟨c, X', rfl, hc⟩
  · exact Or.inl rfl
  · exact Or.inr ⟨c, X', rfl, hc _ (getD_mem (by omega))⟩

/-! #### the simultaneous pass on a delimited template -/

theorem firstMatch_at : ∀ (P : Phs) (i : Nat) (s : Bytes), i < P.length → oldAt P i <+: s →
    (∀ n, n < i → ¬ oldAt P n <+: s) → firstMatch P s = some (P.getD i ([], [])) := by
  intro P
  induction P with
  | nil => intro i s h; cases h
  | cons p ps ih =>
    intro i s hi hpre hno
    cases i with
    | zero =>
      have : p.1.isPrefixOf s = true := List.isPrefixOf_iff_prefix.mpr hpre
      simp [firstMatch, this]
    | succ j =>
      have h0 : ¬ p.1 <+: s := hno 0 (by omega)
      have : p.1.isPrefixOf s = false := by
        cases hb : p.1.isPrefixOf s
        · rfl
        · exact absurd (List.isPrefixOf_iff_prefix.mp hb) h0
      simp only [firstMatch, this, List.getD_cons_succ]
      apply ih j s (by simpa using hi)
      · simpa [oldAt, List.getD_cons_succ] using hpre
      · intro n hn
        have := hno (n + 1) (by omega)
        simpa [oldAt, List.getD_cons_succ] using this

/-- **The simultaneous pass is exact on delimited templates** (no condition on the values). -/
theorem sim_exact {P : Phs} (hP : ShapeOK P) : ∀ t, GoodItems P t → sim P (flatten P t) = renderAll P t := by
  intro t
  unfold sim
  induction t with
  | nil => intro _; rfl
  | cons x t ih =>
    intro hg
    cases x with
    | lit c =>
      obtain ⟨hc, hg⟩ := hg
      simp only [flatten, renderAll]
      rw [simGo_lit hP hc, ih hg]
    | ph i =>
      obtain ⟨hi, hpre, hnext, hg⟩ := hg
      simp only [flatten, renderAll]
      obtain ⟨body, hb, _⟩ := oldAt_shape hP hi
      have hX := next_delim (P := P) (flatten P) rfl (fun _ _ => rfl) hnext
      have hm : firstMatch P (oldAt P i ++ flatten P t) = some (P.getD i ([], [])) :=
        firstMatch_at P i _ hi (List.prefix_append _ _) (fun n hn => no_shadow hi hn hpre hX)
      have hb' : (P.getD i ([], [])).1 = DOLLAR :: body := hb
      rw [hb, List.cons_append] at hm
      have := simGo_match (P := P) (p := P.getD i ([], [])) (rest := flatten P t) hb' hm
      rw [show oldAt P i = (P.getD i ([], [])).1 from rfl, this, ih hg]
      rfl

/-! #### the two functions -/

theorem decGo_digits : ∀ (f n : Nat) (c : UInt8), c ∈ decGo f n → 48 ≤ c.toNat ∧ c.toNat ≤ 57 := by
  intro f
  induction f with
  | zero => intro n c h; cases h
  | succ f ih =>
    intro n c h
    simp only [decGo] at h
    split at h
    · rename_i hn
      simp only [List.mem_singleton] at h
      subst h
      rw [UInt8.toNat_ofNat']
      omega
    · rcases List.mem_append.mp h with h | h
      · exact ih _ c h
      · simp only [List.mem_singleton] at h
        subst h
        rw [UInt8.toNat_ofNat']
        omega

theorem phG_shape (i : Nat) : ∃ body, phG i = DOLLAR :: body ∧ DOLLAR ∉ body := by
  refine ⟨71 :: dec i, rfl, ?_⟩
  intro h
  rcases List.mem_cons.mp h with h | h
  · revert h; decide
  · have := decGo_digits _ _ _ h
    have e : DOLLAR.toNat = 36 := by decide
    omega

theorem groupPhs_mem {ms : List Bytes} {p : Bytes × Bytes} (h : p ∈ groupPhs ms) :
    (∃ i, p.1 = phG i) ∧ (p.2 ∈ ms ∨ p.2 = []) := by
  simp only [groupPhs, List.mem_map, List.mem_reverse, List.mem_range] at h
  obtain ⟨j, _, rfl⟩ := h
  refine ⟨⟨j + 1, rfl⟩, ?_⟩
  simp only [List.getD_eq_getElem?_getD]
  cases hx : ms[j + 1]? with
  | none => exact Or.inr rfl
  | some v => exact Or.inl (List.mem_of_getElem? hx)

theorem shape_source (ms : List Bytes) (q : Bytes) : ShapeOK (sourcePhs ms q) := by
  intro p hp
  rcases List.mem_append.mp hp with h | h
  · obtain ⟨⟨i, hi⟩, _⟩ := groupPhs_mem h
    rw [hi]; exact phG_shape i
  · simp only [List.mem_singleton] at h
    subst h
    exact ⟨[77, 84, 88, 95, 81, 85, 69, 82, 89], rfl, by decide⟩

theorem shape_dest (pn : Bytes) (ms : List Bytes) : ShapeOK (destPhs pn ms) := by
  intro p hp
  rcases List.mem_cons.mp hp with h | h
  · subst h
    exact ⟨[77, 84, 88, 95, 80, 65, 84, 72], rfl, by decide⟩
  · obtain ⟨⟨i, hi⟩, _⟩ := groupPhs_mem h
    rw [hi]; exact phG_shape i

/-! #### descending `$G` indices never shadow each other -/

def dval (l : Bytes) : Nat := l.foldl (fun acc c => acc * 10 + (c.toNat - 48)) 0

theorem foldl_ge (r : Bytes) : ∀ a : Nat, a ≤ r.foldl (fun acc c => acc * 10 + (c.toNat - 48)) a := by
  induction r with
  | nil => intro a; exact Nat.le_refl a
  | cons c r ih =>
    intro a
    simp only [List.foldl_cons]
    exact Nat.le_trans (by omega) (ih _)

theorem dval_prefix {p s : Bytes} (h : p <+: s) : dval p ≤ dval s := by
  obtain ⟨r, rfl⟩ := h
  simp only [dval, List.foldl_append]
  exact foldl_ge r _

theorem dval_decGo : ∀ (f n : Nat), n < f → dval (decGo f n) = n := by
  intro f
  induction f with
  | zero => intro n h; omega
  | succ f ih =>
    intro n h
    simp only [decGo]
    split
    · rename_i hn
      simp only [dval, List.foldl_cons, List.foldl_nil, UInt8.toNat_ofNat']
      omega
    · rename_i hn
      have := ih (n / 10) (by omega)
      simp only [dval, List.foldl_append, List.foldl_cons, List.foldl_nil, UInt8.toNat_ofNat'] at this ⊢
      rw [this]
      omega

theorem dec_not_prefix {a b : Nat} (h : b < a) : ¬ dec a <+: dec b := by
  intro hp
  have := dval_prefix hp
  rw [dec, dec, dval_decGo _ _ (by omega), dval_decGo _ _ (by omega)] at this
  omega

theorem phG_not_prefix {a b : Nat} (h : b < a) : ¬ phG a <+: phG b := by
  intro hp
  simp only [phG, List.cons_prefix_cons] at hp
  exact dec_not_prefix h hp.2.2



theorem groupPhs_length (ms : List Bytes) : (groupPhs ms).length = ms.length - 1 := by
  simp [groupPhs]

theorem oldAt_group (ms : List Bytes) (j : Nat) (h : j < ms.length - 1) :
    oldAt (groupPhs ms) j = phG (ms.length - 1 - j) := by
  have hl : j < (groupPhs ms).length := by rw [groupPhs_length]; exact h
  simp only [oldAt, List.getD_eq_getElem?_getD, List.getElem?_eq_getElem hl, Option.getD_some]
  simp only [groupPhs, List.getElem_map, List.getElem_reverse, List.getElem_range, List.length_range]
  congr 1
  omega

theorem oldAt_append_left {A : Phs} {b : Bytes × Bytes} {i : Nat} (h : i < A.length) :
    oldAt (A ++ [b]) i = oldAt A i := by
  simp only [oldAt, List.getD_eq_getElem?_getD, List.getElem?_append_left h]

theorem oldAt_append_last {A : Phs} {b : Bytes × Bytes} : oldAt (A ++ [b]) A.length = b.1 := by
  simp [oldAt, List.getD_eq_getElem?_getD]

theorem phG_not_prefix_query (a : Nat) : ¬ phG a <+: MTX_QUERY := by
  intro h
  simp only [phG, MTX_QUERY, List.cons_prefix_cons] at h
  exact absurd h.2.1 (by decide)

theorem path_not_prefix_phG (a : Nat) : ¬ MTX_PATH <+: phG a := by
  intro h
  simp only [phG, MTX_PATH, List.cons_prefix_cons] at h
  exact absurd h.2.1 (by decide)

/-- in `resolveSource`'s list no earlier (higher-priority) placeholder is a prefix of a later one -/
theorem prefixOK_source (ms : List Bytes) (q : Bytes) (i n : Nat) (hn : n < i)
    (hi : i < (sourcePhs ms q).length) :
    ¬ oldAt (sourcePhs ms q) n <+: oldAt (sourcePhs ms q) i := by
  have hlen : (sourcePhs ms q).length = (groupPhs ms).length + 1 := by simp [sourcePhs]
  have hk := groupPhs_length ms
  unfold sourcePhs
  have hn' : n < (groupPhs ms).length := by omega
  rw [oldAt_append_left hn', oldAt_group ms n (by omega)]
  by_cases h : i < (groupPhs ms).length
  · rw [oldAt_append_left h, oldAt_group ms i (by omega)]
    exact phG_not_prefix (by omega)
  · have : i = (groupPhs ms).length := by omega
    rw [this, oldAt_append_last]
    exact phG_not_prefix_query _

theorem oldAt_cons_succ (p : Bytes × Bytes) (A : Phs) (i : Nat) : oldAt (p :: A) (i + 1) = oldAt A i := by
  simp [oldAt]

theorem prefixOK_dest (pn : Bytes) (ms : List Bytes) (i n : Nat) (hn : n < i)
    (hi : i < (destPhs pn ms).length) :
    ¬ oldAt (destPhs pn ms) n <+: oldAt (destPhs pn ms) i := by
  have hlen : (destPhs pn ms).length = (groupPhs ms).length + 1 := by simp [destPhs]
  have hk := groupPhs_length ms
  unfold destPhs
  cases i with
  | zero => omega
  | succ j =>
    rw [oldAt_cons_succ, oldAt_group ms j (by omega)]
    cases n with
    | zero => exact path_not_prefix_phG _
    | succ m =>
      rw [oldAt_cons_succ, oldAt_group ms m (by omega)]
      exact phG_not_prefix (by omega)

/-- DELIMITED template, stated without the shadowing condition -/
def DelimItems (P : Phs) : List Item → Prop
  | [] => True
  | .lit c :: t => c ≠ DOLLAR ∧ DelimItems P t
  | .ph i :: t => i < P.length ∧ NextOK P t ∧ DelimItems P t

instance delimItemsDec (P : Phs) : (t : List Item) → Decidable (DelimItems P t)
  | [] => isTrue trivial
  | .lit c :: t => by
    have := delimItemsDec P t
    unfold DelimItems; exact inferInstance
  | .ph i :: t => by
    have := delimItemsDec P t
    unfold DelimItems; exact inferInstance

theorem good_of_delim {P : Phs} (hpre : ∀ i n, n < i → i < P.length → ¬ oldAt P n <+: oldAt P i) :
    ∀ t, DelimItems P t → GoodItems P t
  | [], _ => trivial
  | .lit _ :: t, h => ⟨h.1, good_of_delim hpre t h.2⟩
  | .ph i :: t, h => ⟨h.1, fun n hn => hpre i n hn h.1, h.2.1, good_of_delim hpre t h.2.2⟩

/-- **C42 for static sources**: for every delimited template, all groups and every query (any bytes),
`resolveSource` returns the template with each `$G<n>` replaced by group n and `$MTX_QUERY` by the
query, and nothing else changed. -/
theorem resolveSource_delimited (ms : List Bytes) (q : Bytes) (t : List Item)
    (hd : DelimItems (sourcePhs ms q) t) :
    resolveSource (flatten (sourcePhs ms q) t) ms q = renderAll (sourcePhs ms q) t :=
  sim_exact (shape_source ms q) t (good_of_delim (prefixOK_source ms q) t hd)

/-- **C42 for forward destinations**. -/
theorem resolveDest_delimited (pn : Bytes) (ms : List Bytes) (t : List Item)
    (hd : DelimItems (destPhs pn ms) t) :
    resolveDest (flatten (destPhs pn ms) t) pn ms = renderAll (destPhs pn ms) t :=
  sim_exact (shape_dest pn ms) t (good_of_delim (prefixOK_dest pn ms) t hd)

/-! #### single pass, for every template: inserted values are never scanned -/

inductive Tok where
  | lit (c : UInt8)     -- byte copied
  | ph (i : Nat)        -- i-th placeholder of the list matched here
deriving Repr, DecidableEq

/-- index of the first placeholder text that is a prefix of `s` -/
def firstIdx : List Bytes → Bytes → Option Nat
  | [], _ => none
  | o :: os, s => if o.isPrefixOf s then some 0 else (firstIdx os s).map (· + 1)

/-- tokenisation of a template: depends on the placeholder TEXTS and the template only -/
def tokGo (olds : List Bytes) : Nat → Bytes → List Tok
  | _, [] => []
  | k + 1, _ :: r => tokGo olds k r
  | 0, c :: r =>
    match firstIdx olds (c :: r) with
    | some i => Tok.ph i :: tokGo olds ((olds.getD i []).length - 1) r
    | none => Tok.lit c :: tokGo olds 0 r

def renderTok (P : Phs) : Tok → Bytes
  | .lit c => [c]
  | .ph i => valAt P i

theorem firstMatch_firstIdx : ∀ (P : Phs) (s : Bytes),
    firstMatch P s = (firstIdx (P.map (·.1)) s).map fun i => P.getD i ([], []) := by
  intro P
  induction P with
  | nil => intro s; rfl
  | cons p ps ih =>
    intro s
    simp only [firstMatch, List.map_cons, firstIdx]
    split
    · rfl
    · rw [ih s]
      cases firstIdx (ps.map (·.1)) s <;> simp

/-- **No placeholder is replaced inside an inserted value** — for all templates, placeholder lists and
values: the output is the token-wise rendering of a tokenisation that does not depend on the values. -/
theorem sim_tokens (P : Phs) : ∀ (s : Bytes) (k : Nat),
    simGo P k s = (tokGo (P.map (·.1)) k s).flatMap (renderTok P) := by
  intro s
  induction s with
  | nil => intro k; simp [simGo, tokGo]
  | cons c r ih =>
    intro k
    cases k with
    | succ k => simp only [simGo, tokGo]; exact ih k
    | zero =>
      simp only [simGo, tokGo, firstMatch_firstIdx]
      cases h : firstIdx (P.map (·.1)) (c :: r) with
      | none => simp only [Option.map_none, List.flatMap_cons, ← ih]; rfl
      | some i =>
        simp only [Option.map_some, List.flatMap_cons, ← ih, renderTok, valAt]
        have e : (List.getD (List.map (fun x => x.1) P) i []).length = (P.getD i ([], [])).1.length := by
          simp only [List.getD_eq_getElem?_getD, List.getElem?_map]
          cases P[i]? <;> rfl
        rw [e]

/-! #### the Handler glue: activations are independent of each other's queries -/

theorem tmplAfter_append (t : Bytes) (pre : List Act) (a : Act) :
    tmplAfter t (pre ++ [a]) = tmplAfterAct (tmplAfter t pre) a := by
  induction pre generalizing t with
  | nil => rfl
  | cons b r ih => simp only [List.cons_append, tmplAfter]; exact ih _

theorem histRuns_append (t : Bytes) (ms : List Bytes) (pre : List Act) (a : Act) :
    histRuns t ms (pre ++ [a]) = histRuns t ms pre ++ [actRuns (tmplAfter t pre) ms a] := by
  induction pre generalizing t with
  | nil => rfl
  | cons b r ih => simp only [List.cons_append, histRuns, tmplAfter, ih]

/-- the template in force depends on the reloads only, never on a query -/
theorem tmplAfter_queries (t : Bytes) : ∀ (h h' : List Act), h.map (·.reload) = h'.map (·.reload) →
    tmplAfter t h = tmplAfter t h' := by
  intro h
  induction h generalizing t with
  | nil => intro h' e; cases h' with | nil => rfl | cons _ _ => cases e
  | cons a r ih =>
    intro h' e
    cases h' with
    | nil => cases e
    | cons a' r' =>
      simp only [List.map_cons, List.cons.injEq] at e
      simp only [tmplAfter, tmplAfterAct, e.1]
      exact ih _ r' e.2

/-- **State-free across activations.** What the k-th activation hands to the source is computed from the
template in force and ITS query; two histories that differ only in the queries (and retries) of EARLIER
activations give the same result for the last one. -/
theorem activation_independent (t : Bytes) (ms : List Bytes) (pre pre' : List Act) (a : Act)
    (h : pre.map (·.reload) = pre'.map (·.reload)) :
    (histRuns t ms (pre ++ [a])).getLast? = (histRuns t ms (pre' ++ [a])).getLast? := by
  rw [histRuns_append, histRuns_append, tmplAfter_queries t pre pre' h]
  simp

/-- without reloads every run of the k-th activation is `resolveSource template matches query_k` -/
theorem activation_runs (t : Bytes) (ms : List Bytes) (a : Act) (h : a.reload = none) :
    ∀ r ∈ actRuns t ms a, r = resolveSource t ms a.query := by
  intro r hr
  simp only [actRuns, tmplAfterAct, h, Option.getD_none, List.mem_cons, List.mem_replicate] at hr
  rcases hr with rfl | ⟨_, rfl⟩ <;> rfl

/-! #### samples (tests, not theorems) -/

-- `a$G1:$G2?$MTX_QUERY` with two groups is a delimited template (hypotheses are satisfiable) …
example : DelimItems (sourcePhs [[102], [120, 49], [121]] [36, 71, 49])
    [.lit 97, .ph 1, .lit 58, .ph 0, .lit 63, .ph 2] := by decide
example : GoodItems (sourcePhs [[102], [120, 49], [121]] [36, 71, 49])
    [.lit 97, .ph 1, .lit 58, .ph 0, .lit 63, .ph 2] := by decide
-- … its text and its meaning (the query "$G1" is inserted verbatim)
example : flatten (sourcePhs [[102], [120, 49], [121]] [36, 71, 49]) [.lit 97, .ph 1, .lit 58, .ph 0, .lit 63, .ph 2]
    = [97, 36,71,49, 58, 36,71,50, 63, 36,77,84,88,95,81,85,69,82,89] := by decide
example : resolveSource [97, 36,71,49, 58, 36,71,50, 63, 36,77,84,88,95,81,85,69,82,89] [[102], [120, 49], [121]] [36, 71, 49]
    = [97, 120,49, 58, 121, 63, 36,71,49] := by decide
-- multi-digit indices: `$G12` with 12 groups is group 12, with 5 groups it is group 1 followed by "2"
example : phG 12 = [36, 71, 49, 50] := by decide
example : sim (sourcePhs ([[102]] ++ List.replicate 12 [103]) []) [36, 71, 49, 50] = [103] := by decide
example : sim (sourcePhs ([[102]] ++ List.replicate 5 [103]) []) [36, 71, 49, 50] = [103, 50] := by decide
-- regressions of the pre-8657437 defect (sequence of ReplaceAll calls): `$G$G2` with groups (a, 1) stays
-- `$G1`; `$$MTX_PATH` with path "G1" stays `$G1`
example : resolveSource [36, 71, 36, 71, 50] [[97, 49], [97], [49]] [] = [36, 71, 49] := by decide
example : resolveDest [36, 36, 77, 84, 88, 95, 80, 65, 84, 72] [71, 49] [[71, 49], [120]] = [36, 71, 49] := by decide
-- a value that looks like a placeholder is inserted verbatim, wherever it comes from
example : resolveSource [36, 71, 50, 47, 36, 71, 49] [[102], [120], [36, 71, 49]] [] = [36, 71, 49, 47, 120] := by decide

end MtxVerif.C42
