/-
C44 — API list pagination partitions results.  Property theorems only.
-/
import MtxVerif.Model.C44

namespace MtxVerif.C44

/-- Pages are consecutive slices: page `p` is `items[p*ipp : p*ipp+ipp]` clipped to the list. -/
theorem page_eq_drop_take (l : List α) (ipp p : Nat) :
    page l ipp p = (l.drop (p * ipp)).take ipp := by
  unfold page lo hi
  by_cases h0 : l.length = 0
  · have : l = [] := List.length_eq_zero_iff.mp h0
    subst this; simp
  · simp only [h0, if_false]
    by_cases h : p * ipp ≤ l.length
    · rw [Nat.min_eq_left h]
      apply List.ext_getElem?
      intro i
      simp only [List.getElem?_take, List.getElem?_drop]
      by_cases hi : i < ipp
      · simp only [hi, if_true]
        by_cases hi2 : i < min ((p + 1) * ipp) l.length - p * ipp
        · simp [hi2]
        · simp only [hi2, if_false]
          have : l.length ≤ p * ipp + i := by
            have : (p + 1) * ipp = p * ipp + ipp := by rw [Nat.add_mul]; simp
            omega
          exact (List.getElem?_eq_none this).symm
      · have : ¬ i < min ((p + 1) * ipp) l.length - p * ipp := by
          have : (p + 1) * ipp = p * ipp + ipp := by rw [Nat.add_mul]; simp
          omega
        simp [hi, this]
    · have h' : l.length ≤ p * ipp := by omega
      have h2 : l.length ≤ (p + 1) * ipp := by
        have : (p + 1) * ipp = p * ipp + ipp := by rw [Nat.add_mul]; simp
        omega
      rw [Nat.min_eq_right h', Nat.min_eq_right h2, List.drop_of_length_le h']
      simp

theorem flatMap_pages_take (l : List α) (ipp n : Nat) :
    (List.range n).flatMap (fun i => page l ipp i) = l.take (n * ipp) := by
  induction n with
  | zero => simp
  | succ n ih =>
    rw [List.range_succ, List.flatMap_append, ih]
    simp only [List.flatMap_cons, List.flatMap_nil, List.append_nil]
    rw [page_eq_drop_take, Nat.add_mul, Nat.one_mul, List.take_add]

theorem pageCount_mul_ge (len ipp : Nat) (h : 0 < ipp) : len ≤ pageCount len ipp * ipp := by
  unfold pageCount
  by_cases h0 : len = 0
  · simp [h0]
  · simp only [h0, if_false]
    have hd := Nat.div_add_mod len ipp
    have hm := Nat.mod_lt len h
    by_cases hr : len % ipp = 0
    · simp only [hr, ne_eq, not_true_eq_false, if_false, Nat.add_zero]
      rw [Nat.mul_comm]; omega
    · simp only [ne_eq, hr, not_false_eq_true, if_true]
      rw [Nat.add_mul, Nat.one_mul, Nat.mul_comm]; omega

/-- **Main theorem**: concatenating pages `0 … pageCount-1` yields the whole list, for every list and
every positive `itemsPerPage`. -/
theorem concat_pages (l : List α) (ipp : Nat) (h : 0 < ipp) :
    (List.range (pageCount l.length ipp)).flatMap (fun i => page l ipp i) = l := by
  rw [flatMap_pages_take]
  exact List.take_of_length_le (pageCount_mul_ge l.length ipp h)

/-- Each page has at most `itemsPerPage` items. -/
theorem page_len (l : List α) (ipp p : Nat) : (page l ipp p).length ≤ ipp := by
  rw [page_eq_drop_take, List.length_take]; omega

/-- Pages past the end are empty. -/
theorem beyond_empty (l : List α) (ipp p : Nat) (h : 0 < ipp) (hp : pageCount l.length ipp ≤ p) :
    page l ipp p = [] := by
  rw [page_eq_drop_take]
  have h1 := pageCount_mul_ge l.length ipp h
  have h2 : pageCount l.length ipp * ipp ≤ p * ipp := Nat.mul_le_mul_right _ hp
  rw [List.drop_of_length_le (by omega)]; simp

/-- `pageCount = ⌈len / ipp⌉`. -/
theorem pageCount_ceil (len ipp : Nat) (h : 0 < ipp) :
    pageCount len ipp = (len + ipp - 1) / ipp := by
  unfold pageCount
  by_cases h0 : len = 0
  · subst h0; simp; exact (Nat.div_eq_of_lt (by omega)).symm
  · simp only [h0, if_false]
    have hd := Nat.div_add_mod len ipp
    have hm := Nat.mod_lt len h
    symm
    apply Nat.div_eq_of_lt_le
    · by_cases hr : len % ipp = 0
      · simp only [hr, ne_eq, not_true_eq_false, if_false, Nat.add_zero]
        rw [Nat.mul_comm]; omega
      · simp only [ne_eq, hr, not_false_eq_true, if_true]
        rw [Nat.add_mul, Nat.one_mul, Nat.mul_comm]; omega
    · by_cases hr : len % ipp = 0
      · simp only [hr, ne_eq, not_true_eq_false, if_false, Nat.add_zero]
        rw [Nat.add_mul, Nat.one_mul, Nat.mul_comm]; omega
      · simp only [ne_eq, hr, not_false_eq_true, if_true]
        rw [Nat.add_mul, Nat.add_mul, Nat.one_mul, Nat.mul_comm]; omega

/-- Parsed parameters are below 2^31, so the int64 products in `paginate2` cannot wrap. -/
theorem products_fit (a b : Bytes) (ipp p : Nat) (h : parseParams a b = some (ipp, p)) :
    0 < ipp ∧ ipp < 2 ^ 31 ∧ p < 2 ^ 31 ∧ (p + 1) * ipp < 2 ^ 63 := by
  have hpu : ∀ s v, parseUint31 s = some v → v < 2 ^ 31 := by
    intro s v hs
    unfold parseUint31 at hs
    split at hs <;> try contradiction
    split at hs <;> try contradiction
    simp only at hs
    split at hs <;> try contradiction
    cases hs; assumption
  unfold parseParams at h
  have key : ∀ ipp', (0 < ipp' ∧ ipp' < 2 ^ 31) →
      (if b.isEmpty then some (ipp', 0) else
        match parseUint31 b with | none => none | some p => some (ipp', p)) = some (ipp, p) →
      0 < ipp ∧ ipp < 2 ^ 31 ∧ p < 2 ^ 31 ∧ (p + 1) * ipp < 2 ^ 63 := by
    intro ipp' hi hb
    have hp : ipp' = ipp ∧ p < 2 ^ 31 := by
      split at hb
      · cases hb; exact ⟨rfl, by decide⟩
      · split at hb
        · contradiction
        · rename_i p' hp'; cases hb; exact ⟨rfl, hpu _ _ hp'⟩
    obtain ⟨rfl, hp⟩ := hp
    refine ⟨hi.1, hi.2, hp, ?_⟩
    calc (p + 1) * ipp' ≤ 2 ^ 31 * 2 ^ 31 := Nat.mul_le_mul (by omega) (by omega)
      _ < 2 ^ 63 := by decide
  by_cases ha : a.isEmpty
  · simp only [ha, if_true] at h
    exact key 100 (by decide) h
  · simp only [ha] at h
    cases hq : parseUint31 a with
    | none => simp [hq] at h
    | some v =>
      cases v with
      | zero => simp [hq] at h
      | succ v =>
        simp only [hq] at h
        exact key (v + 1) ⟨by omega, hpu _ _ hq⟩ h

/-- Invalid parameters are rejected: anything that is not a decimal number below 2^31, and 0 items per page. -/
theorem invalid_rejected (a b : Bytes) :
    (a ≠ [] ∧ (parseUint31 a = none ∨ parseUint31 a = some 0)) ∨ (b ≠ [] ∧ parseUint31 b = none) →
    parseParams a b = none := by
  intro h
  unfold parseParams
  rcases h with ⟨ha, hp⟩ | ⟨hb, hp⟩
  · have : a.isEmpty = false := by cases a <;> simp_all
    rcases hp with hp | hp <;> simp [this, hp]
  · have hb' : b.isEmpty = false := by cases b <;> simp_all
    by_cases ha : a.isEmpty
    · simp [ha, hb', hp]
    · simp only [ha]
      cases hq : parseUint31 a with
      | none => simp
      | some v => cases v <;> simp [hb', hp]

theorem parseUint31_rejects_nondigit (s : Bytes) (c : UInt8) (hc : c ∈ s)
    (hnd : ¬ (48 ≤ c.toNat ∧ c.toNat ≤ 57)) : parseUint31 s = none := by
  unfold parseUint31
  split
  · rfl
  · have : s.all (fun c => decide (48 ≤ c.toNat ∧ c.toNat ≤ 57)) = false := by
      rw [List.all_eq_false]
      exact ⟨c, hc, by simpa using hnd⟩
    rw [this]; rfl

/-- Non-vacuity: a concrete list, three pages, last one short. -/
example : (List.range (pageCount 7 3)).flatMap (fun i => page [10,11,12,13,14,15,16] 3 i)
    = [10,11,12,13,14,15,16] ∧ pageCount 7 3 = 3 ∧ page [10,11,12,13,14,15,16] 3 2 = [16] := by decide
example : parseParams (asc ['3']) (asc ['2']) = some (3, 2) := by decide
example : parseParams (asc ['0']) [] = none ∧ parseParams (asc ['-', '1']) [] = none
    ∧ parseParams (asc ['2','1','4','7','4','8','3','6','4','8']) [] = none
    ∧ parseParams (asc ['2','1','4','7','4','8','3','6','4','7']) [] = some (2147483647, 0) := by decide

end MtxVerif.C44
