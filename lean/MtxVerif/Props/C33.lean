/-
C33 — MoQ reorderer delivers groups in order with bounded buffering.  Property theorems.
-/
import MtxVerif.Model.C33

namespace MtxVerif.C33

/-- strictly increasing ids -/
def Sorted (l : List SG) : Prop := l.Pairwise (fun a b => a.id < b.id)

/-- Invariant of every reachable state. -/
structure Inv (lim : Limits) (s : St) : Prop where
  sorted : Sorted s.pending
  above : ∀ x ∈ s.pending, s.cur < x.id
  bytes : s.bytes = sumSize s.pending
  cnt : s.pending.length ≤ lim.maxReordered
  byt : sumSize s.pending ≤ lim.maxPendingBytes
  uninit : s.init = false → s.pending = []

/-! #### helper facts (kept here because they are short; no property is stated in this block) -/

theorem sumSize_cons (x : SG) (l : List SG) : sumSize (x :: l) = x.size + sumSize l := by
  simp [sumSize]

theorem sumSize_append (a b : List SG) : sumSize (a ++ b) = sumSize a + sumSize b := by
  simp [sumSize]

theorem sumSize_sublist {a b : List SG} (h : a.Sublist b) : sumSize a ≤ sumSize b := by
  induction h with
  | slnil => simp
  | cons x _ ih => rw [sumSize_cons]; omega
  | cons_cons x _ ih => rw [sumSize_cons, sumSize_cons]; omega

theorem sumSize_filter_split (p : SG → Bool) (l : List SG) :
    sumSize l = sumSize (l.filter p) + sumSize (l.filter (fun x => !p x)) := by
  induction l with
  | nil => simp [sumSize]
  | cons x xs ih =>
    by_cases hp : p x <;> simp [hp, sumSize_cons, ih] <;> omega

theorem mem_ins {sg x : SG} {l : List SG} (h : x ∈ ins sg l) : x = sg ∨ x ∈ l := by
  induction l with
  | nil => simpa [ins] using h
  | cons y ys ih =>
    unfold ins at h
    split at h
    · rcases List.mem_cons.mp h with h | h
      · exact Or.inl h
      · exact Or.inr h
    · split at h
      · rcases List.mem_cons.mp h with h | h
        · exact Or.inl h
        · exact Or.inr (List.mem_cons_of_mem _ h)
      · rcases List.mem_cons.mp h with h | h
        · exact Or.inr (h ▸ List.mem_cons_self)
        · rcases ih h with h | h
          · exact Or.inl h
          · exact Or.inr (List.mem_cons_of_mem _ h)

theorem sg_mem_ins (sg : SG) (l : List SG) : sg ∈ ins sg l := by
  induction l with
  | nil => simp [ins]
  | cons y ys ih =>
    unfold ins
    split
    · exact List.mem_cons_self
    · split
      · exact List.mem_cons_self
      · exact List.mem_cons_of_mem _ ih

theorem sorted_ins {sg : SG} {l : List SG} (h : Sorted l) : Sorted (ins sg l) := by
  induction l with
  | nil => simp [ins, Sorted]
  | cons y ys ih =>
    unfold Sorted at *
    rw [List.pairwise_cons] at h
    unfold ins
    split
    · rename_i hlt
      rw [List.pairwise_cons]
      refine ⟨?_, List.pairwise_cons.mpr h⟩
      intro a ha
      rcases List.mem_cons.mp ha with rfl | ha
      · exact hlt
      · exact Nat.lt_trans hlt (h.1 a ha)
    · split
      · rename_i heq
        rw [List.pairwise_cons]
        exact ⟨fun a ha => heq ▸ h.1 a ha, h.2⟩
      · rename_i hnlt hne
        rw [List.pairwise_cons]
        refine ⟨?_, ih h.2⟩
        intro a ha
        rcases mem_ins ha with rfl | ha
        · omega
        · exact h.1 a ha

theorem length_ins_le (sg : SG) (l : List SG) : (ins sg l).length ≤ l.length + 1 := by
  induction l with
  | nil => simp [ins]
  | cons y ys ih =>
    unfold ins
    split
    · simp
    · split
      · simp
      · simp; omega

/-- byte accounting of the map update: new sum + replaced size = old sum + new size. -/
theorem sumSize_ins {sg : SG} {l : List SG} (h : Sorted l) :
    sumSize (ins sg l) + prevSize sg.id l = sumSize l + sg.size := by
  induction l with
  | nil => simp [ins, prevSize, sumSize]
  | cons y ys ih =>
    unfold Sorted at *
    rw [List.pairwise_cons] at h
    have hnone : ∀ zs : List SG, (∀ a ∈ zs, sg.id < a.id) → prevSize sg.id zs = 0 := by
      intro zs
      induction zs with
      | nil => intro _; rfl
      | cons z zs ihz =>
        intro hz
        have := hz z List.mem_cons_self
        unfold prevSize
        rw [if_neg (by omega)]
        exact ihz (fun a ha => hz a (List.mem_cons_of_mem _ ha))
    unfold ins prevSize
    split
    · rename_i hlt
      rw [if_neg (by omega), hnone ys (fun a ha => Nat.lt_trans hlt (h.1 a ha))]
      simp only [sumSize_cons]; omega
    · split
      · rename_i heq
        rw [if_pos heq.symm]
        simp only [sumSize_cons]; omega
      · rename_i hne
        rw [if_neg (fun e => hne e.symm)]
        have := ih h.2
        simp only [sumSize_cons]; omega

/-- whatever survives a filter that rejects `sg` was already there before the update. -/
theorem filter_ins_sublist (q : SG → Bool) (sg : SG) (l : List SG) (hq : q sg = false) :
    ((ins sg l).filter q).Sublist l := by
  induction l with
  | nil => simp [ins, hq]
  | cons y ys ih =>
    unfold ins
    split
    · rw [List.filter_cons, hq]; simp
    · split
      · rw [List.filter_cons, hq]
        exact List.Sublist.trans List.filter_sublist (List.sublist_cons_self y ys)
      · rw [List.filter_cons]
        split
        · exact List.Sublist.cons_cons y ih
        · exact List.Sublist.cons y ih

theorem sorted_unique_id {l : List SG} (h : Sorted l) {x y : SG} (hx : x ∈ l) (hy : y ∈ l)
    (hid : x.id = y.id) : x = y := by
  induction l with
  | nil => cases hx
  | cons z zs ih =>
    unfold Sorted at h
    rw [List.pairwise_cons] at h
    rcases List.mem_cons.mp hx with hx | hx <;> rcases List.mem_cons.mp hy with hy | hy
    · rw [hx, hy]
    · have := h.1 y hy; rw [← hx] at this; omega
    · have := h.1 x hx; rw [← hy] at this; omega
    · exact ih h.2 hx hy

/-! #### `consec` -/

theorem consec_spec (c : Nat) (l : List SG) (hs : Sorted l) (ha : ∀ x ∈ l, c < x.id) :
    let r := consec c l
    r.1 ++ r.2.2 = l ∧ c ≤ r.2.1 ∧ (∀ x ∈ r.1, c < x.id ∧ x.id ≤ r.2.1) ∧ (∀ x ∈ r.2.2, r.2.1 < x.id)
      ∧ (r.2.2.head?.map (·.id) ≠ some (r.2.1 + 1)) := by
  induction l generalizing c with
  | nil => simp [consec]
  | cons x xs ih =>
    unfold Sorted at hs
    rw [List.pairwise_cons] at hs
    unfold consec
    split
    · rename_i heq
      have ha' : ∀ y ∈ xs, c + 1 < y.id := fun y hy => by have := hs.1 y hy; omega
      obtain ⟨h1, h2, h3, h4, h5⟩ := ih (c + 1) hs.2 ha'
      dsimp only at h1 h2 h3 h4 h5 ⊢
      refine ⟨by rw [List.cons_append, h1], by omega, ?_, h4, h5⟩
      intro y hy
      rcases List.mem_cons.mp hy with rfl | hy
      · constructor <;> omega
      · have := h3 y hy; omega
    · rename_i hne
      refine ⟨by simp, Nat.le_refl _, by simp, ha, by simpa using hne⟩

/-! #### `flushUpTo` -/

structure FlushOK (s : St) (maxId : Nat) (s' : St) (out : List SG) : Prop where
  outSorted : Sorted out
  outRange : ∀ x ∈ out, s.cur < x.id ∧ x.id ≤ s'.cur
  curGe : maxId ≤ s'.cur
  pendSub : s'.pending.Sublist (s.pending.filter (fun x => !inRange s.cur maxId x))
  pendSorted : Sorted s'.pending
  pendAbove : ∀ x ∈ s'.pending, s'.cur < x.id
  bytes : s'.bytes = sumSize s'.pending
  outMem : ∀ x ∈ out, x ∈ s.pending
  outAll : ∀ x ∈ s.pending, x.id ≤ maxId → x ∈ out
  initEq : s'.init = s.init

theorem flushUpTo_ok (s : St) (maxId : Nat) (hs : Sorted s.pending) (ha : ∀ x ∈ s.pending, s.cur < x.id)
    (hb : s.bytes = sumSize s.pending) (hm : s.cur ≤ maxId) :
    FlushOK s maxId (flushUpTo s maxId).1 (flushUpTo s maxId).2 := by
  have hrestS : Sorted (s.pending.filter (fun x => !inRange s.cur maxId x)) := List.Pairwise.filter _ hs
  have hrestA : ∀ x ∈ s.pending.filter (fun x => !inRange s.cur maxId x), maxId < x.id := by
    intro x hx
    rw [List.mem_filter] at hx
    have h1 := ha x hx.1
    have h2 := hx.2
    simp only [inRange, Bool.not_eq_true', decide_eq_false_iff_not] at h2
    omega
  have C := consec_spec maxId _ hrestS hrestA
  generalize hr : consec maxId (s.pending.filter (fun x => !inRange s.cur maxId x)) = r at C
  obtain ⟨c1, c2, c3, c4, _⟩ := C
  have e1 : (flushUpTo s maxId).1 = { s with cur := r.2.1, pending := r.2.2, bytes := s.bytes - sumSize (s.pending.filter (inRange s.cur maxId) ++ r.1) } := by
    unfold flushUpTo; rw [hr]
  have e2 : (flushUpTo s maxId).2 = s.pending.filter (inRange s.cur maxId) ++ r.1 := by
    unfold flushUpTo; rw [hr]
  rw [e1, e2]
  have hsub : r.2.2.Sublist (s.pending.filter (fun x => !inRange s.cur maxId x)) := by
    have := List.sublist_append_right r.1 r.2.2
    rwa [c1] at this
  have hsub1 : r.1.Sublist (s.pending.filter (fun x => !inRange s.cur maxId x)) := by
    have := List.sublist_append_left r.1 r.2.2
    rwa [c1] at this
  have hout1S : Sorted (s.pending.filter (inRange s.cur maxId)) := List.Pairwise.filter _ hs
  have hout1R : ∀ x ∈ s.pending.filter (inRange s.cur maxId), s.cur < x.id ∧ x.id ≤ maxId := by
    intro x hx
    rw [List.mem_filter] at hx
    simpa [inRange] using hx.2
  refine ⟨?_, ?_, c2, hsub, List.Pairwise.sublist hsub hrestS, c4, ?_, ?_, ?_, rfl⟩
  · unfold Sorted
    rw [List.pairwise_append]
    refine ⟨hout1S, List.Pairwise.sublist hsub1 hrestS, ?_⟩
    intro a ha1 b hb1
    have := hout1R a ha1
    have := c3 b hb1
    omega
  · intro x hx
    show s.cur < x.id ∧ x.id ≤ r.2.1
    rcases List.mem_append.mp hx with h | h
    · have := hout1R x h; omega
    · have := c3 x h; omega
  · show s.bytes - (sumSize (s.pending.filter (inRange s.cur maxId) ++ r.1) : Nat) = (sumSize r.2.2 : Nat)
    rw [hb, sumSize_append]
    have e1 := sumSize_filter_split (inRange s.cur maxId) s.pending
    have e2 : sumSize (s.pending.filter (fun x => !inRange s.cur maxId x)) = sumSize r.1 + sumSize r.2.2 := by
      rw [← sumSize_append, c1]
    omega
  · intro x hx
    rcases List.mem_append.mp hx with h | h
    · exact (List.mem_filter.mp h).1
    · exact (List.mem_filter.mp (hsub1.subset h)).1
  · intro x hx hle
    apply List.mem_append_left
    rw [List.mem_filter]
    exact ⟨hx, by simp [inRange, ha x hx, hle]⟩

/-! ### Property theorems -/

/-- What one push guarantees, from any state satisfying the invariant. -/
structure PushOK (lim : Limits) (s : St) (sg : SG) (s' : St) (out : List SG) : Prop where
  inv : Inv lim s'
  init' : s'.init = true
  outSorted : Sorted out
  /-- everything handed on is newer than what was handed on before, and not newer than the new `cur` -/
  outRange : ∀ x ∈ out, (s.init = true → s.cur < x.id) ∧ x.id ≤ s'.cur
  curMono : s.init = true → s.cur ≤ s'.cur
  /-- each handed-on subgroup is the one just received or one held back (never invented) -/
  outRecv : ∀ x ∈ out, x = sg ∨ (x ∈ s.pending ∧ x.id ≠ sg.id)
  /-- the direct successor of the last delivered group is delivered immediately -/
  nextNow : s.init = true → sg.id = s.cur + 1 → sg ∈ out
  /-- the very first subgroup is delivered immediately -/
  firstNow : s.init = false → out = [sg]
  /-- whatever is still held back is the subgroup just received or one held before with another id -/
  pendRecv : ∀ x ∈ s'.pending, x = sg ∨ (x ∈ s.pending ∧ x.id ≠ sg.id)

theorem push_ok (lim : Limits) (s : St) (sg : SG) (h : Inv lim s) :
    PushOK lim s sg (push lim s sg).1 (push lim s sg).2 := by
  unfold push
  by_cases hi : s.init = false
  · -- first push
    have hp := h.uninit hi
    simp only [hi, Bool.not_false, if_true]
    refine ⟨⟨by simp [hp, Sorted], by simp [hp], by simp [hp, h.bytes], by simp [hp],
      by simp [hp, sumSize], fun _ => hp⟩, rfl, by simp [Sorted], ?_, by simp [hi], by simp, by simp [hi], fun _ => rfl,
      by simp [hp]⟩
    intro x hx; simp at hx; subst hx; simp [hi]
  · have hi' : s.init = true := by cases hh : s.init <;> simp_all
    simp only [hi', Bool.not_true, Bool.false_eq_true, if_false]
    by_cases hle : sg.id ≤ s.cur
    · simp only [hle, if_true]
      refine ⟨h, hi', by simp [Sorted], by simp, fun _ => Nat.le_refl _, by simp, fun _ e => by omega,
        fun e => by simp [hi'] at e, ?_⟩
      intro x hx
      have := h.above x hx
      exact Or.inr ⟨hx, by omega⟩
    · simp only [hle, if_false]
      by_cases hnx : sg.id = s.cur + 1 ∧ s.pending.isEmpty = true
      · simp only [hnx, and_self, if_true]
        have hp : s.pending = [] := List.isEmpty_iff.mp hnx.2
        refine ⟨⟨by simp [hp, Sorted], by simp [hp], by simp [hp, h.bytes], by simp [hp], by simp [hp, sumSize],
          fun _ => hp⟩, rfl, by simp [Sorted], ?_, fun _ => Nat.le_succ _, by simp, fun _ _ => by simp,
          fun e => by simp [hi'] at e, by simp [hp]⟩
        intro x hx; simp at hx; subst hx; simp; omega
      · rw [if_neg hnx]
        -- the general branch: update the map, then maybe flush
        have hs1S : Sorted (ins sg s.pending) := sorted_ins h.sorted
        have hs1A : ∀ x ∈ ins sg s.pending, s.cur < x.id := by
          intro x hx
          rcases mem_ins hx with rfl | hx
          · omega
          · exact h.above x hx
        have hsum := sumSize_ins (sg := sg) h.sorted
        have hs1B : (s.bytes - (prevSize sg.id s.pending : Int) + (sg.size : Int)) =
            (sumSize (ins sg s.pending) : Nat) := by
          rw [h.bytes]; omega
        -- a flush at sg.id from the updated state
        let s1 : St := { init := true, cur := s.cur, pending := ins sg s.pending, bytes := s.bytes - prevSize sg.id s.pending + sg.size }
        have hflush : PushOK lim s sg (flushUpTo s1 sg.id).1 (flushUpTo s1 sg.id).2 := by
          have F := flushUpTo_ok s1 sg.id hs1S hs1A hs1B (by show s.cur ≤ sg.id; omega)
          have hsubP : ∀ (s' : St), s'.pending.Sublist
              ((ins sg s.pending).filter (fun x => !inRange s.cur sg.id x)) →
              s'.pending.Sublist s.pending := by
            intro s' hsub
            exact hsub.trans (filter_ins_sublist _ sg s.pending (by simp [inRange]; omega))
          have hsub := hsubP _ F.pendSub
          refine ⟨⟨F.pendSorted, F.pendAbove, F.bytes, Nat.le_trans hsub.length_le h.cnt,
            Nat.le_trans (sumSize_sublist hsub) h.byt, ?_⟩, ?_, F.outSorted, ?_, ?_, ?_, ?_, ?_, ?_⟩
          · intro e; rw [F.initEq] at e; cases e
          · rw [F.initEq]
          · intro x hx; have := F.outRange x hx; exact ⟨fun _ => this.1, this.2⟩
          · intro _; have := F.curGe; show s.cur ≤ _; omega
          · intro x hx
            have hm := F.outMem x hx
            rcases mem_ins hm with rfl | hm'
            · exact Or.inl rfl
            · by_cases hid : x.id = sg.id
              · exact Or.inl (sorted_unique_id hs1S hm (sg_mem_ins sg s.pending) hid)
              · exact Or.inr ⟨hm', hid⟩
          · intro _ _
            exact F.outAll sg (sg_mem_ins sg s.pending) (Nat.le_refl _)
          · intro e; simp [hi'] at e
          · intro x hx
            have hx1 := (List.mem_filter.mp (F.pendSub.subset hx))
            have hne : x ≠ sg := by
              intro e
              have := hx1.2
              rw [e] at this
              simp only [inRange, s1] at this
              simp at this
              omega
            rcases mem_ins hx1.1 with e | hm'
            · exact absurd e hne
            · refine Or.inr ⟨hm', fun hid => hne ?_⟩
              exact sorted_unique_id hs1S hx1.1 (sg_mem_ins sg s.pending) hid
        show PushOK lim s sg
          (if (s1.pending.filter (fun x => decide (x.id ≤ sg.id))).length = sg.id - s.cur then flushUpTo s1 sg.id
            else if s1.pending.length > lim.maxReordered then flushUpTo s1 sg.id
            else if s1.bytes > lim.maxPendingBytes then flushUpTo s1 sg.id else (s1, [])).1
          (if (s1.pending.filter (fun x => decide (x.id ≤ sg.id))).length = sg.id - s.cur then flushUpTo s1 sg.id
            else if s1.pending.length > lim.maxReordered then flushUpTo s1 sg.id
            else if s1.bytes > lim.maxPendingBytes then flushUpTo s1 sg.id else (s1, [])).2
        split
        · exact hflush
        · split
          · exact hflush
          · split
            · exact hflush
            · -- held back, no flush: the limits are respected because the guards were false
              rename_i hcnt hlen hbyt
              refine ⟨⟨hs1S, hs1A, hs1B, by simpa using hlen, ?_, fun e => by cases e⟩, rfl,
                by simp [Sorted], by simp, fun _ => Nat.le_refl _, by simp, ?_, fun e => by simp [hi'] at e, ?_⟩
              · have hbyt' : ¬ (s.bytes - (prevSize sg.id s.pending : Int) + (sg.size : Int) > lim.maxPendingBytes) := hbyt
                have : ((sumSize (ins sg s.pending) : Nat) : Int) ≤ lim.maxPendingBytes := by
                  rw [← hs1B]; omega
                exact_mod_cast this
              · -- sg.id = cur+1 cannot end here: countInRange would be 1 = diff
                intro _ hnext
                exfalso
                apply hcnt
                show ((ins sg s.pending).filter (fun x => decide (x.id ≤ sg.id))).length = sg.id - s.cur
                have hall : ∀ x ∈ ins sg s.pending, x.id ≤ sg.id → x = sg := by
                  intro x hx hle2
                  have := hs1A x hx
                  exact sorted_unique_id hs1S hx (sg_mem_ins sg s.pending) (by omega)
                have hlen : ∀ (l : List SG), (∀ x ∈ l, x.id ≤ sg.id → x = sg) → sg ∈ l → Sorted l →
                    (l.filter (fun x => decide (x.id ≤ sg.id))).length = 1 := by
                  intro l
                  induction l with
                  | nil => intro _ hm; cases hm
                  | cons z zs ih =>
                    intro hall hm hsrt
                    unfold Sorted at hsrt
                    rw [List.pairwise_cons] at hsrt
                    rw [List.filter_cons]
                    by_cases hz : z.id ≤ sg.id
                    · have hzs : z = sg := hall z List.mem_cons_self hz
                      simp only [hz, decide_true, if_true, List.length_cons]
                      have : zs.filter (fun x => decide (x.id ≤ sg.id)) = [] := by
                        rw [List.filter_eq_nil_iff]
                        intro a ha
                        have := hsrt.1 a ha
                        rw [hzs] at this
                        simp; omega
                      rw [this]; rfl
                    · simp only [hz, decide_false]
                      rcases List.mem_cons.mp hm with e | hm'
                      · exact absurd (e ▸ Nat.le_refl _) hz
                      · exact ih (fun x hx => hall x (List.mem_cons_of_mem _ hx)) hm' hsrt.2
                rw [hlen _ hall (sg_mem_ins sg s.pending) hs1S]; omega
              · intro x hx
                rcases mem_ins hx with e | hm'
                · exact Or.inl e
                · by_cases hid : x.id = sg.id
                  · exact Or.inl (sorted_unique_id hs1S hx (sg_mem_ins sg s.pending) hid)
                  · exact Or.inr ⟨hm', hid⟩


/-- The initial state satisfies the invariant (for any limits). -/
theorem inv_init (lim : Limits) : Inv lim {} :=
  ⟨by simp [Sorted], by simp, by simp [sumSize], by simp, by simp [sumSize], fun _ => rfl⟩

/-- `hist` = everything received so far, latest first; `Latest hist x` : `x` is the most recent
subgroup received with its id. -/
def Latest (hist : List SG) (x : SG) : Prop := hist.find? (fun y => y.id == x.id) = some x

/-- One push: everything handed on, and everything still held back, is the most recent subgroup
received for its id (a re-sent group replaces the held one). -/
theorem push_latest (lim : Limits) (s : St) (sg : SG) (hist : List SG) (h : Inv lim s)
    (hl : ∀ x ∈ s.pending, Latest hist x) :
    (∀ x ∈ (push lim s sg).2, Latest (sg :: hist) x) ∧
    (∀ x ∈ (push lim s sg).1.pending, Latest (sg :: hist) x) := by
  have P := push_ok lim s sg h
  have key : ∀ x, x = sg ∨ (x ∈ s.pending ∧ x.id ≠ sg.id) → Latest (sg :: hist) x := by
    intro x hx
    rcases hx with e | ⟨hm, hid⟩
    · subst e; simp [Latest]
    · have := hl x hm
      unfold Latest at *
      rw [List.find?_cons]
      have : (sg.id == x.id) = false := by simp; exact fun e => hid e.symm
      rw [this]; assumption
  exact ⟨fun x hx => key x (P.outRecv x hx), fun x hx => key x (P.pendRecv x hx)⟩

/-- **Whole-history theorem.**  From any state satisfying the invariant, for every sequence of pushes:
the invariant (hence both buffering bounds, after every push) holds, the concatenation of everything
handed on is strictly increasing in group id (so no id is handed on twice), every handed-on id is newer
than the starting `cur`, every handed-on subgroup was received, and what is held back is always the
latest subgroup received for its id. -/
theorem run_ok (lim : Limits) (l : List SG) : ∀ (s : St) (hist : List SG), Inv lim s →
    (∀ x ∈ s.pending, Latest hist x) →
    Inv lim (run lim s l).1 ∧ Sorted (run lim s l).2.flatten ∧
    (s.init = true → ∀ x ∈ (run lim s l).2.flatten, s.cur < x.id) ∧
    (∀ x ∈ (run lim s l).2.flatten, x ∈ l ∨ x ∈ s.pending) ∧
    (∀ x ∈ (run lim s l).1.pending, Latest (l.reverse ++ hist) x) := by
  induction l with
  | nil => intro s hist h hl; exact ⟨h, by simp [run, Sorted], by simp [run], by simp [run], by simpa [run] using hl⟩
  | cons sg rest ih =>
    intro s hist h hl
    have P := push_ok lim s sg h
    have hl' := (push_latest lim s sg hist h hl).2
    obtain ⟨i1, i2, i3, i4, i5⟩ := ih (push lim s sg).1 (sg :: hist) P.inv hl'
    have hrun : run lim s (sg :: rest) =
        ((run lim (push lim s sg).1 rest).1, (push lim s sg).2 :: (run lim (push lim s sg).1 rest).2) := rfl
    rw [hrun]
    refine ⟨i1, ?_, ?_, ?_, ?_⟩
    · show Sorted ((push lim s sg).2 ++ (run lim (push lim s sg).1 rest).2.flatten)
      unfold Sorted
      rw [List.pairwise_append]
      refine ⟨P.outSorted, i2, ?_⟩
      intro a ha b hb
      have := (P.outRange a ha).2
      have := i3 P.init' b hb
      omega
    · intro hi x hx
      have hx' : x ∈ (push lim s sg).2 ++ (run lim (push lim s sg).1 rest).2.flatten := hx
      rcases List.mem_append.mp hx' with hx' | hx'
      · exact (P.outRange x hx').1 hi
      · have := i3 P.init' x hx'
        have := P.curMono hi
        omega
    · intro x hx
      have hx' : x ∈ (push lim s sg).2 ++ (run lim (push lim s sg).1 rest).2.flatten := hx
      rcases List.mem_append.mp hx' with hx' | hx'
      · rcases P.outRecv x hx' with e | ⟨hm, _⟩
        · exact Or.inl (e ▸ List.mem_cons_self)
        · exact Or.inr hm
      · rcases i4 x hx' with hm | hm
        · exact Or.inl (List.mem_cons_of_mem _ hm)
        · rcases P.pendRecv x hm with e | ⟨hm', _⟩
          · exact Or.inl (e ▸ List.mem_cons_self)
          · exact Or.inr hm'
    · have hrev : (sg :: rest).reverse ++ hist = rest.reverse ++ (sg :: hist) := by simp
      rw [hrev]; exact i5

/-- Corollary for a fresh reorderer: the stated property for every push sequence and all limits. -/
theorem fresh_ok (lim : Limits) (l : List SG) :
    Sorted (run lim {} l).2.flatten ∧ (∀ x ∈ (run lim {} l).2.flatten, x ∈ l) ∧
    (run lim {} l).1.pending.length ≤ lim.maxReordered ∧
    sumSize (run lim {} l).1.pending ≤ lim.maxPendingBytes ∧
    (run lim {} l).1.bytes = sumSize (run lim {} l).1.pending := by
  obtain ⟨i1, i2, _, i4, _⟩ := run_ok lim l {} [] (inv_init lim) (by simp)
  exact ⟨i2, fun x hx => (i4 x hx).resolve_right (by simp), i1.cnt, i1.byt, i1.bytes⟩

/-- No group id is handed on twice. -/
theorem fresh_nodup (lim : Limits) (l : List SG) :
    ((run lim {} l).2.flatten.map (·.id)).Nodup := by
  have := (fresh_ok lim l).1
  unfold Sorted at this
  rw [List.Nodup, List.pairwise_map]
  exact this.imp (fun h => by omega)

/-- Non-vacuity: a concrete history with a hole, a duplicate, a late group and a forced flush. -/
example : (run ⟨2, 100⟩ {} [⟨5,1,0⟩, ⟨7,1,1⟩, ⟨7,2,2⟩, ⟨4,1,3⟩, ⟨6,1,4⟩, ⟨10,1,5⟩, ⟨12,1,6⟩, ⟨14,1,7⟩]).2
    = [[⟨5,1,0⟩], [], [], [], [⟨6,1,4⟩, ⟨7,2,2⟩], [], [], [⟨10,1,5⟩, ⟨12,1,6⟩, ⟨14,1,7⟩]] := by decide

end MtxVerif.C33
