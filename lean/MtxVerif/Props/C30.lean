/-
C30 — Retention deletes only expired segments of the right path.  Property theorems.

`deleted E files confs` = files removed by one cleaner pass over the tree `files` (model of
`Cleaner.doRun`).  All theorems hold for arbitrary oracles `E.rx` (regexp matching) and `E.cal`
(calendar), arbitrary trees and configurations.
-/
import MtxVerif.Model.C30
import MtxVerif.Props.C26

namespace MtxVerif.C30
open MtxVerif.C26 (tokenize substPath decodeV decodedPath decodedStart Match Start Producible unanchoredExtra repeatedMismatch)
open MtxVerif.C06 (isValidPathName findPathConf ConfEntry FindRes commonPath extMp4)

/-! ### what is deleted, exactly -/

theorem expired_iff (E : Env) (c : Conf) (name f : Bytes) :
    expired E c name f = true ↔
      ∃ m, decodeAt E (recPath E c.fmt name) f = some m ∧
        E.cal (decodedStart m.caps) ≤ E.now - (c.deleteAfter : Int) := by
  unfold expired
  cases h : decodeAt E (recPath E c.fmt name) f with
  | none => simp
  | some m => simp

theorem mem_deletedFor (E : Env) (files : List Bytes) (confs : List Conf) (name f : Bytes) :
    f ∈ deletedFor E files confs name ↔
      ∃ c, confOf E confs name = some c ∧ c.deleteAfter ≠ 0 ∧ isValidPathName name = none ∧
        f ∈ files ∧ expired E c name f = true := by
  unfold deletedFor
  cases hc : confOf E confs name with
  | none => simp
  | some c =>
    by_cases h0 : c.deleteAfter = 0
    · simp [h0]
    · cases hv : isValidPathName name with
      | some e => simp [h0]
      | none => simp [h0, List.mem_filter]

/-- **Characterisation of one pass**: a file is deleted iff it is in the tree and, for some path name
that `FindAllPathsWithSegments` reports, whose configuration (by `FindPathConf`) has a non-zero
`recordDeleteAfter`, the file is recognised below that path's record directory with a start not later
than `now − recordDeleteAfter`. -/
theorem mem_deleted (E : Env) (files : List Bytes) (confs : List Conf) (f : Bytes) :
    f ∈ deleted E files confs ↔
      f ∈ files ∧ ∃ name ∈ allPaths E files confs, ∃ c, confOf E confs name = some c ∧
        c.deleteAfter ≠ 0 ∧ isValidPathName name = none ∧
        ∃ m, decodeAt E (recPath E c.fmt name) f = some m ∧
          E.cal (decodedStart m.caps) ≤ E.now - (c.deleteAfter : Int) := by
  unfold deleted
  simp only [List.mem_filter, List.contains_iff_mem, List.mem_flatMap]
  constructor
  · rintro ⟨hf, name, hn, hd⟩
    obtain ⟨c, h1, h2, h3, _, h5⟩ := (mem_deletedFor E files confs name f).mp hd
    exact ⟨hf, name, hn, c, h1, h2, h3, (expired_iff E c name f).mp h5⟩
  · rintro ⟨hf, name, hn, c, h1, h2, h3, h5⟩
    exact ⟨hf, name, hn, (mem_deletedFor E files confs name f).mpr ⟨c, h1, h2, h3, hf, (expired_iff E c name f).mpr h5⟩⟩

/-- only files of the tree are deleted (directories are never candidates). -/
theorem deleted_sub_files (E : Env) (files : List Bytes) (confs : List Conf) :
    ∀ f ∈ deleted E files confs, f ∈ files :=
  fun f h => ((mem_deleted E files confs f).mp h).1

/-- a configuration without retention never causes a deletion. -/
theorem zero_retention_keeps (E : Env) (files : List Bytes) (confs : List Conf)
    (h0 : ∀ c ∈ confs, c.deleteAfter = 0) : deleted E files confs = [] := by
  rw [List.eq_nil_iff_forall_not_mem]
  intro f hf
  obtain ⟨_, name, _, c, hc, hne, _⟩ := (mem_deleted E files confs f).mp hf
  apply hne
  apply h0
  unfold confOf at hc
  split at hc
  · exact List.mem_of_find?_eq_some hc
  · cases hc

/-! ### "deletes a regular file only if it is an expired segment of a path with retention" -/

/-- what the statement requires of a deleted file. -/
def ExpiredSegment (E : Env) (confs : List Conf) (f : Bytes) : Prop :=
  ∃ name c m, confOf E confs name = some c ∧ c.deleteAfter ≠ 0 ∧ isValidPathName name = none ∧
    inWalk (commonPath (recPath E c.fmt name)) f = true ∧
    Producible (tokenize (recPath E c.fmt name)) f ∧
    decodeV E.anch E.coh (tokenize (recPath E c.fmt name)) f = some m ∧
    E.cal (decodedStart m.caps) ≤ E.now - (c.deleteAfter : Int)

theorem decodeAt_some (E : Env) (rp f : Bytes) (m : Match) (h : decodeAt E rp f = some m) :
    inWalk (commonPath rp) f = true ∧ decodeV E.anch E.coh (tokenize rp) f = some m := by
  unfold decodeAt at h
  split at h
  · rename_i hw; exact ⟨hw, h⟩
  · cases h

/-- Full strength for the code as written (`anch = coh = false`).  **False**: finding F-C26 carries over
(`deleted_only_segments_witness`). -/
def deleted_only_segments_full : Prop :=
  ∀ (E : Env) (files : List Bytes) (confs : List Conf), E.anch = false → E.coh = false →
    ∀ f ∈ deleted E files confs, ExpiredSegment E confs f

/-- With the fixed decoder the first half of the property holds for every tree and configuration. -/
theorem deleted_only_segments_fixed (E : Env) (files : List Bytes) (confs : List Conf)
    (ha : E.anch = true) (hc : E.coh = true) :
    ∀ f ∈ deleted E files confs, ExpiredSegment E confs f := by
  intro f hf
  obtain ⟨_, name, _, c, h1, h2, h3, m, h4, h5⟩ := (mem_deleted E files confs f).mp hf
  obtain ⟨hw, hd⟩ := decodeAt_some E _ f m h4
  refine ⟨name, c, m, h1, h2, h3, hw, ?_, hd, h5⟩
  rw [ha, hc] at hd
  exact MtxVerif.C26.recognized_only_if_fixed _ f m hd

/-- Code as written: the same, for trees in which no file falls into the two decidable finding classes
of C26 with respect to any record path (no look-alike names). -/
theorem deleted_only_segments_partial (E : Env) (files : List Bytes) (confs : List Conf)
    (ha : E.anch = false) (hc : E.coh = false)
    (hclean : ∀ f ∈ files, ∀ rp : Bytes, unanchoredExtra (tokenize rp) f = false ∧ repeatedMismatch (tokenize rp) f = false) :
    ∀ f ∈ deleted E files confs, ExpiredSegment E confs f := by
  intro f hf
  obtain ⟨hfm, name, _, c, h1, h2, h3, m, h4, h5⟩ := (mem_deleted E files confs f).mp hf
  obtain ⟨hw, hd⟩ := decodeAt_some E _ f m h4
  refine ⟨name, c, m, h1, h2, h3, hw, ?_, hd, h5⟩
  rw [ha, hc] at hd
  have := hclean f hfm (recPath E c.fmt name)
  exact MtxVerif.C26.recognized_only_if_partial _ f m hd this.1 this.2

/-! ### "every such segment is deleted on the next pass" -/

theorem fixed_conf_discovered (E : Env) (files : List Bytes) (confs : List Conf) (c : Conf)
    (hc : c ∈ confs) (hr : c.isRegexp = false) (f : Bytes) (hf : f ∈ files) (m : Match)
    (hd : decodeAt E (recPath E c.fmt c.key) f = some m) : c.key ∈ allPaths E files confs := by
  unfold allPaths
  rw [List.mem_flatMap]
  refine ⟨c, hc, ?_⟩
  have : hasSegments E files c = true := by
    unfold hasSegments
    rw [List.any_eq_true]
    exact ⟨f, hf, by simp [hd]⟩
  simp [hr, this]

theorem regexp_conf_discovered (E : Env) (files : List Bytes) (confs : List Conf) (c : Conf)
    (hc : c ∈ confs) (hr : c.isRegexp = true) (f : Bytes) (hf : f ∈ files) (m : Match)
    (hd : decodeAt E (recPathRx E c.fmt) f = some m)
    (hv : isValidPathName (decodedPath m.caps) = none) (hx : E.rx c.key (decodedPath m.caps) = true) :
    decodedPath m.caps ∈ allPaths E files confs := by
  unfold allPaths
  rw [List.mem_flatMap]
  refine ⟨c, hc, ?_⟩
  simp only [hr, if_true]
  unfold rxNames
  rw [List.mem_filterMap]
  exact ⟨f, hf, by simp [hd, hv, hx]⟩

/-- **Second half, paths with their own (non-regexp) configuration**: every file of the tree that
`FindSegments` recognises as a segment of that path with `start ≤ now − recordDeleteAfter` is deleted by
the pass.  (`confOf … = some c`: the name resolves to its own conf — keys of a map are unique.) -/
theorem expired_deleted_fixed_conf (E : Env) (files : List Bytes) (confs : List Conf) (c : Conf)
    (hc : c ∈ confs) (hr : c.isRegexp = false) (hself : confOf E confs c.key = some c)
    (h0 : c.deleteAfter ≠ 0) (hv : isValidPathName c.key = none)
    (f : Bytes) (hf : f ∈ files) (hx : expired E c c.key f = true) : f ∈ deleted E files confs := by
  obtain ⟨m, hd, hle⟩ := (expired_iff E c c.key f).mp hx
  exact (mem_deleted E files confs f).mpr
    ⟨hf, c.key, fixed_conf_discovered E files confs c hc hr f hf m hd, c, hself, h0, hv, m, hd, hle⟩

/-- **Second half, paths served by a regexp configuration**: if the listing flow recognises the file as
a segment of path `p` (this is what C26's round-trip theorem provides for the recorder's own files, with
the fix, for formats with one `%path`), `p` resolves to a conf `c'` with retention, and `FindSegments`
recognises the file as expired segment of `p`, the pass deletes it. -/
theorem expired_deleted_regexp_conf (E : Env) (files : List Bytes) (confs : List Conf) (c c' : Conf)
    (hc : c ∈ confs) (hr : c.isRegexp = true) (f : Bytes) (hf : f ∈ files) (m : Match)
    (hd : decodeAt E (recPathRx E c.fmt) f = some m)
    (hv : isValidPathName (decodedPath m.caps) = none) (hrx : E.rx c.key (decodedPath m.caps) = true)
    (hconf : confOf E confs (decodedPath m.caps) = some c') (h0 : c'.deleteAfter ≠ 0)
    (hx : expired E c' (decodedPath m.caps) f = true) : f ∈ deleted E files confs := by
  obtain ⟨m', hd', hle⟩ := (expired_iff E c' _ f).mp hx
  exact (mem_deleted E files confs f).mpr
    ⟨hf, _, regexp_conf_discovered E files confs c hc hr f hf m hd hv hrx, c', hconf, h0, hv, m', hd', hle⟩

/-! ### one pass reaches the fixpoint -/

theorem allPaths_mono (E : Env) (files files' : List Bytes) (confs : List Conf)
    (hsub : ∀ f ∈ files', f ∈ files) : ∀ n ∈ allPaths E files' confs, n ∈ allPaths E files confs := by
  intro n hn
  unfold allPaths at hn ⊢
  rw [List.mem_flatMap] at hn ⊢
  obtain ⟨c, hc, hm⟩ := hn
  refine ⟨c, hc, ?_⟩
  by_cases hr : c.isRegexp = true
  · simp only [hr, if_true] at hm ⊢
    unfold rxNames at hm ⊢
    rw [List.mem_filterMap] at hm ⊢
    obtain ⟨f, hf, he⟩ := hm
    exact ⟨f, hsub f hf, he⟩
  · simp only [hr, Bool.false_eq_true, if_false] at hm ⊢
    by_cases hs : hasSegments E files' c = true
    · simp only [hs, if_true] at hm
      have : hasSegments E files c = true := by
        unfold hasSegments at hs ⊢
        rw [List.any_eq_true] at hs ⊢
        obtain ⟨f, hf, he⟩ := hs
        exact ⟨f, hsub f hf, he⟩
      simpa [this] using hm
    · simp [hs] at hm

theorem remaining_sub (E : Env) (files : List Bytes) (confs : List Conf) :
    ∀ f ∈ remaining E files confs, f ∈ files ∧ f ∉ deleted E files confs := by
  intro f hf
  unfold remaining at hf
  simp only [List.mem_filter] at hf
  refine ⟨hf.1, ?_⟩
  intro hd
  have : (deleted E files confs).contains f = true := by simpa using hd
  rw [this] at hf
  simp at hf

/-- **A second pass (same instant, same configuration) deletes nothing**: everything that qualified was
removed by the first one. -/
theorem second_pass_deletes_nothing (E : Env) (files : List Bytes) (confs : List Conf) :
    deleted E (remaining E files confs) confs = [] := by
  rw [List.eq_nil_iff_forall_not_mem]
  intro f hf
  obtain ⟨hfr, name, hn, c, h1, h2, h3, m, h4, h5⟩ := (mem_deleted E _ confs f).mp hf
  have hsub : ∀ g ∈ remaining E files confs, g ∈ files := fun g hg => (remaining_sub E files confs g hg).1
  have hdel : f ∈ deleted E files confs :=
    (mem_deleted E files confs f).mpr
      ⟨hsub f hfr, name, allPaths_mono E files _ confs hsub name hn, c, h1, h2, h3, m, h4, h5⟩
  exact (remaining_sub E files confs f hfr).2 hdel

/-! ### every pass uses the latest configuration delivered before it started -/

theorem inForce_last (initial : List Conf) (delivered : List (List Conf)) (c : List Conf) :
    inForce initial (delivered ++ [c]) = c := by
  simp [inForce, List.foldl_append]

theorem inForce_none (initial : List Conf) : inForce initial [] = initial := rfl

/-- what the pass after the deliveries deletes is decided by the last delivered configuration alone. -/
theorem pass_uses_latest (E : Env) (files : List Bytes) (initial : List Conf) (delivered : List (List Conf))
    (c : List Conf) :
    deleted E files (inForce initial (delivered ++ [c])) = deleted E files c := by
  rw [inForce_last]

/-! ### witness for the code as written, and non-vacuity -/

/-- a one-conf world: path `c`, record path `%path/%s`, retention 1 µs, cwd `/t`, clock at 10 µs, every
decoded start = instant 0. -/
def wEnv : Env := { cwd := asc ['/','t'], anch := false, coh := false, rx := fun _ _ => false, cal := fun _ => 0, now := 10 }
def wConf : Conf := { key := asc ['c'], isRegexp := false, fmt := asc ['%','p','a','t','h','/','%','s'], deleteAfter := 1 }
/-- `/t/c/1700000000.mp4~` — an editor backup of a segment -/
def wFile : Bytes := asc ['/','t','/','c','/','1','7','0','0','0','0','0','0','0','0','.','m','p','4','~']
/-- `/t/c/1700000000.mp4` -/
def wSeg : Bytes := asc ['/','t','/','c','/','1','7','0','0','0','0','0','0','0','0','.','m','p','4']

/-- the backup file is deleted by the code as written … -/
theorem witness_deleted : wFile ∈ deleted wEnv [wFile] [wConf] := by decide

/-- … although it is not a segment: **the first half of the property is false for the code as written**
(class `unanchoredExtra`, same root cause as F-C26). -/
theorem deleted_only_segments_witness : ¬ deleted_only_segments_full := by
  intro h
  obtain ⟨name, c, m, h1, _, _, _, hp, _, _⟩ := h wEnv [wFile] [wConf] rfl rfl wFile witness_deleted
  -- the only name that resolves to a conf is `c`
  have hname : name = asc ['c'] ∧ c = wConf := by
    unfold confOf at h1
    split at h1
    · rename_i k hk
      unfold findPathConf at hk
      simp only [entries, List.map_cons, List.map_nil, List.find?_cons, List.find?_nil] at hk
      by_cases hn : (wConf.key == name) = true
      · have : name = asc ['c'] := by simpa [wConf] using (beq_iff_eq.mp hn).symm
        subst this
        simp [wConf] at h1
        exact ⟨rfl, h1.2.symm⟩
      · exfalso
        simp only [hn] at hk
        split at hk
        · cases hk
        · simp [List.filter, wConf, MtxVerif.C06.sortConfs] at hk
    · cases h1
  obtain ⟨rfl, rfl⟩ := hname
  rw [← MtxVerif.C26.producibleB_iff] at hp
  revert hp
  decide

/-- non-vacuity: with the fixed decoder the same world deletes the real segment and keeps the backup. -/
example : deleted { wEnv with anch := true, coh := true } [wFile, wSeg] [wConf] = [wSeg] := by decide
/-- retention 0 keeps everything; a start after `now − delay` keeps the file -/
example : deleted wEnv [wSeg] [{ wConf with deleteAfter := 0 }] = [] := by decide
example : deleted { wEnv with cal := fun _ => 10 } [wSeg] [wConf] = [] := by decide
/-- boundary: `start = now − delay` is deleted (the code compares with `!end.Before(start)`) -/
example : deleted { wEnv with cal := fun _ => 9 } [wSeg] [wConf] = [wSeg] := by decide

end MtxVerif.C30
