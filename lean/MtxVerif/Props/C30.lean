import MtxVerif.Model.C30
namespace MtxVerif.C30
theorem stub : True := trivial
end MtxVerif.C30
