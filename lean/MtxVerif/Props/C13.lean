/-
C13 — Hot reload applies every changed parameter to running components.

  "After any configuration change (file or API), every running server or service whose parameters
   changed is recreated or reloaded so that it runs with the new values, and every component holding a
   reference to a recreated component is recreated too.  Components none of whose parameters changed
   keep running, so their clients stay connected."

Structure.  `Model/C13.lean` is a generic model of reloadConf over an arbitrary table; the table of the
real code is regenerated from core.go on every run (`Gen/C13.lean`).  The generic theorems
(`Lemmas/C13*.lean`, re-exported below) are proved for every table satisfying decidable side
conditions; the side conditions are `decide`d on the generated table here.  Two side conditions are
FALSE on the real code; both are genuine defects (notes/C13.md):

* `uncomparedRead`  — 5 constructor fields of the RTSPS server are not compared by closeRTSPSServer;
* `ptrIdentityCmp`  — `RTSPUDPReadBufferSize` (`*uint`) is compared with `!=`.

The full statements are `AppliesAllFull` / `KeepsUnchangedFull`; the `_partial` theorems hold outside
the two decidable classes; the `_witness` theorems show the full statements fail whenever the
generated table contains such a pair (they stay true, vacuously, once the code is fixed).
-/
import MtxVerif.Lemmas.C13Keep
import MtxVerif.Model.C13_Spec

namespace MtxVerif.C13
open MtxVerif.Gen.C13

/-! ## generic theorems (any table) -/

/-- whole-history form of the invariant: boot, then any sequence of reloads between well-formed
configurations -/
def WFChain : Conf → List Conf → Prop
  | _, [] => True
  | c, d :: ds => WFConf c d ∧ WFChain d ds

def lastConf : Conf → List Conf → Conf
  | c, [] => c
  | _, d :: ds => lastConf d ds

theorem runHistory_conf (G : Nat → (Nat → Nat) → Bool) (T : List Row) :
    ∀ (cs : List Conf) (s : St), (runHistory G T s cs).conf = lastConf s.conf cs
  | [], _ => rfl
  | c :: cs, s => by
    have : (reload G T s c).conf = c := createAll_conf _ T _
    rw [runHistory, runHistory_conf G T cs, this, lastConf]

theorem history_consistent (gaps : List (Nat × Nat)) (G : Nat → (Nat → Nat) → Bool) (T : List Row)
    (hw : wfl T = true) (hcov : covers gaps T = true) (hrefs : refsCovered T = true)
    (hsafe : reloadsSafe T = true) (hG : GuardDet G T) (hGT : GuardTrue G T) :
    ∀ (cs : List Conf) (s : St), Consistent gaps G T s → WFChain s.conf cs →
      Consistent gaps G T (runHistory G T s cs)
  | [], _, hs, _ => hs
  | c :: cs, s, hs, hch => by
    have h1 := reload_consistent gaps G T hw hcov hrefs hsafe hG hGT s c hch.1 hs
    have hc : (reload G T s c).conf = c := createAll_conf _ T _
    exact history_consistent gaps G T hw hcov hrefs hsafe hG hGT cs _ h1 (by rw [hc]; exact hch.2)

/-- **applies_all** (first half of the property), for any table and any list of tolerated gaps:
after start-up and ANY history of reloads, exactly the components enabled by the current
configuration run; every running component holds, for every field its constructor reads (outside
`gaps`), the CURRENT value; every component pointer it holds points to the CURRENT instance of that
component; no nil component was dereferenced. -/
theorem applies_all_partial (gaps : List (Nat × Nat)) (G : Nat → (Nat → Nat) → Bool) (T : List Row)
    (hw : wfl T = true) (hcov : covers gaps T = true) (hrefs : refsCovered T = true)
    (hsafe : reloadsSafe T = true) (hG : GuardDet G T) (hGT : GuardTrue G T)
    (c0 : Conf) (cs : List Conf) (hch : WFChain c0 cs) :
    let s := runHistory G T (boot G T c0) cs
    let cur := lastConf c0 cs
    s.panicked = false ∧
    ∀ r ∈ T, (s.run r.comp).isSome = G r.comp cur.val ∧
      ∀ i, s.run r.comp = some i →
        (∀ f ∈ r.reads, (r.comp, f) ∉ gaps → i.args f = cur.val f) ∧
        (∀ c ∈ r.refs, i.refs c = (s.run c).map (·.id)) := by
  intro s cur
  have hb := boot_consistent gaps G T hw c0
  have hbc : (boot G T c0).conf = c0 := createAll_conf _ T _
  have hs : Consistent gaps G T s :=
    history_consistent gaps G T hw hcov hrefs hsafe hG hGT cs _ hb (by rw [hbc]; exact hch)
  have hconf : s.conf = cur := by
    show (runHistory G T (boot G T c0) cs).conf = _
    rw [runHistory_conf, hbc]
  refine ⟨hs.noPanic, fun r hr => ⟨?_, fun i hi => ⟨?_, hs.refs r hr i hi⟩⟩⟩
  · rw [← hconf]; exact hs.guard r hr
  · intro f hf hg; rw [← hconf]; exact hs.args r hr i hi f hf hg

/-- the full first half: no gaps tolerated -/
def AppliesAllFull (T : List Row) : Prop :=
  ∀ (G : Nat → (Nat → Nat) → Bool), GuardDet G T → GuardTrue G T →
  ∀ (c0 : Conf) (cs : List Conf), WFChain c0 cs →
    let s := runHistory G T (boot G T c0) cs
    let cur := lastConf c0 cs
    ∀ r ∈ T, ∀ i, s.run r.comp = some i → ∀ f ∈ r.reads, i.args f = cur.val f

/-- on a table without gaps the full statement holds -/
theorem applies_all (T : List Row)
    (hw : wfl T = true) (hcov : covers [] T = true) (hrefs : refsCovered T = true)
    (hsafe : reloadsSafe T = true) : AppliesAllFull T := by
  intro G hG hGT c0 cs hch s cur r hr i hi f hf
  exact ((applies_all_partial [] G T hw hcov hrefs hsafe hG hGT c0 cs hch).2 r hr).2 i hi |>.1 f hf
    (by simp)

/-- … and it fails as soon as the table has an actual gap (converse of the side condition) -/
theorem applies_all_witness (T : List Row) (hw : wfl T = true) (g : Nat × Nat)
    (hg : g ∈ actualGaps T) : ¬ AppliesAllFull T := by
  intro hfull
  simp only [actualGaps, List.mem_flatMap, List.mem_map, List.mem_filter, Bool.not_eq_true',
    Bool.or_eq_false_iff] at hg
  obtain ⟨r, hr, f, ⟨hread, hnc, hnr⟩, _⟩ := hg
  obtain ⟨i, hi, hne⟩ := gap_is_stale T hw r hr f hread hnc hnr
  have := hfull allOn (allOn_det T) (allOn_true T) conf0 [confFlip f]
    ⟨wfconf_flip f, trivial⟩ r hr i hi f hread
  exact hne this

/-- the full second half: whenever no parameter of r changed VALUE, r is the same instance -/
def KeepsUnchangedFull (T : List Row) : Prop :=
  ∀ (G : Nat → (Nat → Nat) → Bool), GuardDet G T →
  ∀ (s : St) (new : Conf), Consistent [] G T s → WFConf s.conf new →
  ∀ r ∈ T, (∀ f ∈ paramClosure T r.comp, s.conf.val f = new.val f) →
    ((reload G T s new).run r.comp).map (·.id) = (s.run r.comp).map (·.id)

/-- on a tight table without identity comparisons the full second half holds -/
theorem keeps_unchanged_full (T : List Row) (hw : wfl T = true) (ht : tight T = true)
    (hid : identityCmps T = []) : KeepsUnchangedFull T := by
  intro G hG s new hs _ r hr hsame
  have : identityClosure T r.comp = [] := by
    -- no own identity comparison anywhere ⇒ none in any closure
    have hnone : ∀ r ∈ T, ∀ c ∈ r.cmp, c.kind ≠ .identity := by
      intro r hr c hc hk
      have : (r.comp, c.field) ∈ identityCmps T := by
        simp only [identityCmps, List.mem_flatMap, List.mem_map, List.mem_filter, beq_iff_eq]
        exact ⟨r, hr, c, ⟨hc, hk⟩, rfl⟩
      rw [hid] at this; cases this
    have hcl : ∀ (E : List Row), (∀ r ∈ E, ∀ c ∈ r.cmp, c.kind ≠ .identity) →
        ∀ k, ∀ c ∈ cmpClosure E k, c.kind ≠ .identity := by
      intro E
      induction E with
      | nil => intro _ k c hc; simp [cmpClosure] at hc
      | cons r0 E ih =>
        intro h k c hc
        have hE := ih (fun r hr => h r (List.mem_cons_of_mem _ hr))
        by_cases hk : k = r0.comp
        · simp only [cmpClosure, hk, if_true, List.mem_append, List.mem_flatMap] at hc
          rcases hc with hc | ⟨d, _, hc⟩
          · exact h r0 (List.mem_cons_self ..) c hc
          · exact hE d c hc
        · simp only [cmpClosure, hk, if_false] at hc
          exact hE k c hc
    simp only [identityClosure]
    rw [List.map_eq_nil_iff, List.filter_eq_nil_iff]
    intro c hc
    simpa using hcl T hnone r.comp c hc
  rw [keeps_unchanged [] G T hw ht hG s new hs r hr hsame (by rw [this]; intro f hf; cases hf)]

/-- … and it fails as soon as some close predicate compares a pointer by identity -/
theorem keeps_unchanged_witness (T : List Row) (hw : wfl T = true)
    (p : Nat × Nat) (hp : p ∈ identityCmps T) : ¬ KeepsUnchangedFull T := by
  intro hfull
  simp only [identityCmps, List.mem_flatMap, List.mem_map, List.mem_filter, beq_iff_eq] at hp
  obtain ⟨r, hr, c, ⟨hc, hk⟩, _⟩ := hp
  have hcm : (⟨c.field, .identity⟩ : Cmp) ∈ r.cmp := by
    have : c = ⟨c.field, .identity⟩ := by cases c; simp_all
    rw [← this]; exact hc
  obtain ⟨i, j, hi, hj, hne⟩ := identity_cmp_recreates T hw r hr c.field hcm
  have hb := boot_consistent [] allOn T hw conf0
  have hbc : (boot allOn T conf0).conf = conf0 := createAll_conf _ T _
  have := hfull allOn (allOn_det T) (boot allOn T conf0) (confRealloc c.field) hb
    (by rw [hbc]; exact wfconf_realloc c.field) r hr (by intro f _; rw [hbc]; rfl)
  rw [hi, hj] at this
  simp only [Option.map_some, Option.some.injEq] at this
  exact hne this.symm

/-- a recreated instance never reuses an id (all running ids are below `s.next`, see
`Consistent.ids`): "points to the current instance" cannot be satisfied by a stale one -/
theorem recreated_has_new_id (G : Nat → (Nat → Nat) → Bool) (T : List Row)
    (hw : wfl T = true) (s : St) (new : Conf) (r : Row) (hr : r ∈ T)
    (hclosed : flags s.conf new T r.comp = true) (j : Inst)
    (hj : (reload G T s new).run r.comp = some j) : s.next ≤ j.id := by
  let fl := flags s.conf new T
  let g : Nat → Bool := fun k => G k new.val
  let s1 : St := { conf := new, run := midRun s.conf new fl s.run T, next := s.next,
                   panicked := s.panicked || panics s.conf new fl s.run T }
  have hm : s1.run r.comp = none := by
    show midRun s.conf new fl s.run T r.comp = _
    rw [midRun_mem s.conf new fl s.run T hw r hr]
    simp [fl, hclosed]
  exact ((createAll_spec g T s1 hw r hr).fresh hm j hj).2.2.1

/-! ## the real table (regenerated from core.go on every run) -/

theorem real_wfl : wfl L = true := by decide
theorem real_order : createOrder = comps rows := by decide
theorem real_shutdown : allShutdown L = true := by decide
theorem real_no_unknown : noUnknown L = true := by decide
theorem real_refs_covered : refsCovered L = true := by decide
theorem real_reloads_safe : reloadsSafe L = true := by decide
theorem real_tight : tight L = true := by decide
theorem real_extractor_checks :
    allConfTokensClassified = true ∧ reloadIsCloseStoreCreate = true ∧ coreLogUsesLogger = true ∧
    staticsAssignedOnlyInitially = true ∧ confStoredOnlyByReload = true := by decide
/-- every component is closed before the components it points to -/
theorem real_close_order :
    (L.all fun r => r.refs.all fun c =>
      closeOrder.idxOf r.comp < closeOrder.idxOf c) = true := by decide

/-- guard fields are all compared -/
theorem real_guard_gaps : guardGaps L = [] := by decide
/-- every uncovered constructor field is one of the five recorded ones -/
theorem real_gaps_known : (actualGaps L).all knownGaps.contains = true := by decide
theorem real_covers : covers knownGaps L = true := by decide
/-- every identity comparison is one of the two recorded ones -/
theorem real_identity_known : (identityCmps L).all knownIdentity.contains = true := by decide

/-- **C13, first half, on the real code** (partial: outside class `uncomparedRead`). -/
theorem c13_applies_all_partial (G : Nat → (Nat → Nat) → Bool) (hG : GuardDet G L)
    (hGT : GuardTrue G L) (c0 : Conf) (cs : List Conf) (hch : WFChain c0 cs) :
    let s := runHistory G L (boot G L c0) cs
    let cur := lastConf c0 cs
    s.panicked = false ∧
    ∀ r ∈ L, (s.run r.comp).isSome = G r.comp cur.val ∧
      ∀ i, s.run r.comp = some i →
        (∀ f ∈ r.reads, (r.comp, f) ∉ knownGaps → i.args f = cur.val f) ∧
        (∀ c ∈ r.refs, i.refs c = (s.run c).map (·.id)) :=
  applies_all_partial knownGaps G L real_wfl real_covers real_refs_covered real_reloads_safe hG hGT
    c0 cs hch

/-- the full first half is false on the real code for as long as the generated table has a gap -/
theorem c13_applies_all_witness (g : Nat × Nat) (hg : g ∈ actualGaps L) : ¬ AppliesAllFull L :=
  applies_all_witness L real_wfl g hg

/-- once the gaps are closed in core.go the full first half holds (the `_fixed` variant) -/
theorem c13_applies_all_fixed (h : actualGaps L = []) : AppliesAllFull L := by
  apply applies_all L real_wfl _ real_refs_covered real_reloads_safe
  -- covers [] follows from: no guard gaps, no actual gaps
  have hgg := real_guard_gaps
  simp only [covers, List.all_eq_true]
  intro r hr
  simp only [coversRow, Bool.and_eq_true, List.all_eq_true, Bool.or_eq_true]
  refine ⟨?_, ?_⟩
  · intro f hf
    cases hc : coveredByClose L r.comp f with
    | true => rfl
    | false =>
      have : (r.comp, f) ∈ guardGaps L := by
        simp only [guardGaps, List.mem_flatMap, List.mem_map, List.mem_filter, Bool.not_eq_true']
        exact ⟨r, hr, f, ⟨hf, hc⟩, rfl⟩
      rw [hgg] at this; cases this
  · intro f hf
    left
    cases hc : (coveredByClose L r.comp f || coveredByReload r f) with
    | true => simpa using hc
    | false =>
      have : (r.comp, f) ∈ actualGaps L := by
        simp only [actualGaps, List.mem_flatMap, List.mem_map, List.mem_filter, Bool.not_eq_true']
        exact ⟨r, hr, f, ⟨hf, hc⟩, rfl⟩
      rw [h] at this; cases this

/-- **C13, second half, on the real code** (partial: outside class `ptrIdentityCmp`): a component none
of whose parameters changed value — and whose close closure saw no re-allocated pointer that it
compares by identity — is the same instance after the reload. -/
theorem c13_keeps_unchanged_partial (G : Nat → (Nat → Nat) → Bool) (hG : GuardDet G L)
    (s : St) (new : Conf) (hs : Consistent knownGaps G L s) (r : Row) (hr : r ∈ L)
    (hsame : ∀ f ∈ paramClosure L r.comp, s.conf.val f = new.val f)
    (hid : ∀ f ∈ identityClosure L r.comp, s.conf.addr f = new.addr f) :
    (reload G L s new).run r.comp = s.run r.comp :=
  keeps_unchanged knownGaps G L real_wfl real_tight hG s new hs r hr hsame hid

theorem c13_keeps_unchanged_witness (p : Nat × Nat) (hp : p ∈ identityCmps L) :
    ¬ KeepsUnchangedFull L :=
  keeps_unchanged_witness L real_wfl p hp

theorem c13_keeps_unchanged_fixed (h : identityCmps L = []) : KeepsUnchangedFull L :=
  keeps_unchanged_full L real_wfl real_tight h

/-! ## non-vacuity -/

/-- the hypotheses of the main theorems are satisfiable: the all-enabled guard, a one-step history -/
example : GuardDet allOn L ∧ GuardTrue allOn L ∧ WFChain conf0 [confFlip F_ReadTimeout] :=
  ⟨allOn_det L, allOn_true L, wfconf_flip _, trivial⟩

/-- the model really recreates: flipping ReadTimeout raises every flag except the logger's and the record cleaner's -/
example : (comps rows).filter (fun k => !flags conf0 (confFlip F_ReadTimeout) L k) = [K_logger, K_recordCleaner] := by
  decide

/-- flipping MoQQUICAddress recreates the MoQ server and the API server that points to it -/
example : (comps rows).filter (flags conf0 (confFlip F_MoQQUICAddress) L) = [K_moqServer, K_api] := by
  decide

end MtxVerif.C13
