/-
C19 — Every held request is answered exactly once; on-demand start/stop automaton with timers.
Property theorems over the shared path state machine, for every valid configuration and every
history (all interleavings of requests, source ready/not-ready, timer expiries, reader removals,
publisher add/remove, reload, close).
-/
import MtxVerif.Model.C19
import MtxVerif.Lemmas.C19Replies
import MtxVerif.Lemmas.C19Auto
import MtxVerif.Lemmas.C18Out

namespace MtxVerif.C19
open MtxVerif.PathSM

def Reach (s : State) : Prop := ∃ c es, c.valid = true ∧ s = (run (init c) es).1

theorem reach_inv {s : State} (h : Reach s) : Inv s ∧ Inv2 s := by
  obtain ⟨c, es, hv, rfl⟩ := h
  exact ⟨inv_reach c hv es, inv2_reach c hv es⟩

/-! ### exactly one answer -/

/-- **One step.** Answers given in the step + requests still on hold afterwards = requests on hold
before + the request that entered with this event (counted per request id, with multiplicity). -/
theorem step_accounting {s : State} (h : Reach s) (e : Event) (rid : Nat) :
    (replyIds (step s e).2).count rid + (pending (step s e).1).count rid =
      (pending s).count rid + reqCount e rid := by
  have := tot_stepW e rid { s := s } (reach_inv h).1.np
  unfold tot at this
  simp only [replyIds_nil, List.count_nil, Nat.zero_add] at this
  exact this

/-- number of times request id `rid` enters in a history -/
def requested (es : List Event) (rid : Nat) : Nat := (es.map (reqCount · rid)).sum

theorem run_accounting (es : List Event) : ∀ (s : State), Inv s → ∀ rid,
    (replyIds (run s es).2.flatten).count rid + (pending (run s es).1).count rid =
      (pending s).count rid + requested es rid := by
  induction es with
  | nil => intro s _ rid; simp [run, requested]
  | cons e es ih =>
    intro s hi rid
    have h1 := tot_stepW e rid { s := s } hi.np
    unfold tot at h1
    simp only [replyIds_nil, List.count_nil, Nat.zero_add] at h1
    have h2 := ih (stepW e { s := s }).s (inv_stepW e { s := s } hi) rid
    have er : run s (e :: es) =
        ((run (stepW e { s := s }).s es).1, (stepW e { s := s }).out :: (run (stepW e { s := s }).s es).2) := rfl
    rw [er]
    simp only [List.flatten_cons, replyIds_append, List.count_append, requested, List.map_cons, List.sum_cons] at *
    omega

theorem pending_init (c : Conf) : pending (init c) = [] := by
  unfold init initW pending
  dsimp only
  (repeat' split) <;> simp [srcStart_s]

/-- **Whole histories.** For every history from the start state and every request id: answers in the
whole output trace + still on hold = number of times the id was requested. -/
theorem history_accounting (c : Conf) (hv : c.valid = true) (es : List Event) (rid : Nat) :
    (replyIds (trace (init c) es)).count rid + (pending (run (init c) es).1).count rid = requested es rid := by
  have := run_accounting es (init c) (inv_init c hv) rid
  rw [pending_init] at this
  simpa [trace] using this

/-- **Exactly once.** A request id used once in a history that ends with the path closed is answered
exactly once in the whole trace (with the stream, an error at timeout, or `terminated` at close). -/
theorem exactly_once (c : Conf) (hv : c.valid = true) (es : List Event) (rid : Nat)
    (hreq : requested es rid = 1) (hcl : (run (init c) es).1.closed = true) :
    (replyIds (trace (init c) es)).count rid = 1 := by
  have h := history_accounting c hv es rid
  have hi := inv_reach c hv es
  have hp : pending (run (init c) es).1 = [] := by
    unfold pending; rw [(hi.cl hcl).2.2.1, (hi.cl hcl).2.2.2.1]; rfl
  rw [hp, hreq] at h
  simpa using h

/-- **At most once, and held ⇔ not yet answered** (for histories that are still running). -/
theorem at_most_once (c : Conf) (hv : c.valid = true) (es : List Event) (rid : Nat)
    (hreq : requested es rid = 1) :
    (replyIds (trace (init c) es)).count rid ≤ 1 ∧
    ((replyIds (trace (init c) es)).count rid = 0 ↔ rid ∈ pending (run (init c) es).1) := by
  have h := history_accounting c hv es rid
  rw [hreq] at h
  constructor
  · omega
  · rw [← List.count_pos_iff]; omega

/-- an id that was never requested is never answered and never held -/
theorem never_unrequested (c : Conf) (hv : c.valid = true) (es : List Event) (rid : Nat)
    (hreq : requested es rid = 0) :
    rid ∉ replyIds (trace (init c) es) ∧ rid ∉ pending (run (init c) es).1 := by
  have h := history_accounting c hv es rid
  rw [hreq] at h
  constructor <;> (rw [← List.count_pos_iff]; omega)

/-- the start-timeout timer answers every held request (and holds none afterwards) -/
theorem timeout_answers_all {s : State} (h : Reach s) (hc : s.closed = false) (t : Timer)
    (ht : t = .srcReady ∨ t = .pubReady) (ha : timerArmed s t = true) :
    pending (step s (.timer t)).1 = [] := by
  have hi := (reach_inv h).1
  unfold step stepW
  rw [if_neg (by simp [hi.np]), if_neg (by simp [hc])]
  show pending (if timerArmed s t = true then fireTimer t { s := s } else _).s = []
  rw [if_pos ha]
  rcases ht with rfl | rfl <;> unfold fireTimer <;> dsimp only <;> rw [closeCheck_s]
  · unfold doOnDemandStaticSourceReadyTimer
    obtain ⟨_, a2, a3⟩ := silent_onDemandStaticSourceStop
      (failHolds .timedOut (upd (fun s => { s with tSrcReady := false }) { s := s }))
    unfold pending; rw [a2, a3]; rfl
  · unfold doOnDemandPublisherReadyTimer
    obtain ⟨_, a2, a3⟩ := silent_onDemandPublisherStop
      (failHolds .timedOut (upd (fun s => { s with tPubReady := false }) { s := s }))
    unfold pending; rw [a2, a3]; rfl

/-- closing the path answers every held request -/
theorem close_answers_all {s : State} (h : Reach s) (hc : s.closed = false) :
    pending (step s .close).1 = [] ∧ (step s .close).1.closed = true := by
  have hi := (reach_inv h).1
  unfold step stepW
  rw [if_neg (by simp [hi.np]), if_neg (by simp [hc])]
  exact ⟨(tot_doClose 0 _).2, by show (doClose _).s.closed = true; rw [doClose_s]⟩

/-! ### the on-demand automaton -/

/-- timers are armed exactly in the matching automaton state -/
theorem timers_match_state {s : State} (h : Reach s) (hc : s.closed = false) :
    (s.tSrcReady = true ↔ s.odSrc = .waiting) ∧ (s.tSrcClose = true ↔ s.odSrc = .closing) ∧
    (s.tPubReady = true ↔ s.odPub = .waiting) ∧ (s.tPubClose = true ↔ s.odPub = .closing) :=
  ⟨(reach_inv h).1.o2 hc, (reach_inv h).1.o2' hc, (reach_inv h).1.q2 hc, (reach_inv h).1.q2' hc⟩

/-- the on-demand source handler runs exactly while the automaton is not `initial`; the runOnDemand
pair is open exactly while the publisher automaton is not `initial` -/
theorem running_iff_state {s : State} (h : Reach s) (hc : s.closed = false) :
    (s.conf.odStatic = true → (s.srcRunning = true ↔ s.odSrc ≠ .initial)) ∧
    (s.hkDemand = true ↔ s.odPub ≠ .initial) :=
  ⟨fun ho => (reach_inv h).1.o3 ho hc, (reach_inv h).1.q3 hc⟩

/-- **Start on first demand** (on-demand static source): a describe that finds no stream while the
automaton is `initial` starts the source, arms the start timer and is held. -/
theorem start_on_first_demand_static {s : State} (h : Reach s) (hc : s.closed = false) (rid : Nat)
    (ho : s.conf.odStatic = true) (hs : s.stream = none) (h0 : s.odSrc = .initial) :
    Out.srcStart ∈ (step s (.describe rid)).2 ∧ (step s (.describe rid)).1.odSrc = .waiting ∧
    (step s (.describe rid)).1.tSrcReady = true ∧ rid ∈ pending (step s (.describe rid)).1 := by
  obtain ⟨hi, _⟩ := reach_inv h
  have hk : s.conf.kind = .static := ((odStatic_iff s.conf).mp ho).1
  have hsrc : ¬ s.source = some .redirect := by rw [hi.kStatic.mp hk]; simp
  have hrun : s.srcRunning = false := by
    have := hi.o3 ho hc; rw [h0] at this; simpa using this
  have e : stepW (.describe rid) { s := s } =
      closeCheck (upd (fun s => { s with descHold := s.descHold ++ [rid] })
        (onDemandStaticSourceStart { s := s })) := by
    unfold stepW
    rw [if_neg (by simp [hi.np]), if_neg (by simp [hc])]
    show closeCheck (doDescribe rid { s := s }) = _
    unfold doDescribe
    rw [if_neg hsrc, if_neg (by simp [hs]), if_pos (by simp [ho])]
    unfold holdDemand
    rw [if_pos ho, if_pos h0]
  unfold step
  rw [e]
  dsimp only
  refine ⟨?_, ?_, ?_, ?_⟩
  · apply mem_closeCheck; apply mem_upd
    unfold onDemandStaticSourceStart srcStart
    simp [hrun]
  · rw [closeCheck_s]; simp [onDemandStaticSourceStart]
  · rw [closeCheck_s]; simp [onDemandStaticSourceStart]
  · rw [closeCheck_s]; simp [pending, onDemandStaticSourceStart, srcStart_s]

/-- **Start on first demand** (runOnDemand publisher path) -/
theorem start_on_first_demand_pub {s : State} (h : Reach s) (hc : s.closed = false) (rid : Nat)
    (ho : s.conf.odPub = true) (hs : s.stream = none) (h0 : s.odPub = .initial) :
    Out.hook .demand true ∈ (step s (.describe rid)).2 ∧ (step s (.describe rid)).1.odPub = .waiting ∧
    (step s (.describe rid)).1.tPubReady = true ∧ rid ∈ pending (step s (.describe rid)).1 := by
  obtain ⟨hi, _⟩ := reach_inv h
  have hval := hi.valid
  unfold Conf.valid at hval
  have hk : s.conf.kind = .publisher := by unfold Conf.odPub at ho; simp [ho] at hval; exact hval.2
  have hns : s.conf.odStatic = false := by unfold Conf.odStatic; simp [hk]
  have hsrc : ¬ s.source = some .redirect := by
    intro e; have := hi.kRedirect.mpr e; rw [hk] at this; cases this
  have e : stepW (.describe rid) { s := s } =
      closeCheck (upd (fun s => { s with descHold := s.descHold ++ [rid] })
        (onDemandPublisherStart { s := s })) := by
    unfold stepW
    rw [if_neg (by simp [hi.np]), if_neg (by simp [hc])]
    show closeCheck (doDescribe rid { s := s }) = _
    unfold doDescribe
    rw [if_neg hsrc, if_neg (by simp [hs]), if_pos (by simp [ho])]
    unfold holdDemand
    rw [if_neg (by simp [hns]), if_pos h0]
  unfold step
  rw [e]
  dsimp only
  refine ⟨?_, ?_, ?_, ?_⟩
  · apply mem_closeCheck; apply mem_upd
    simp [onDemandPublisherStart]
  · rw [closeCheck_s]; simp [onDemandPublisherStart]
  · rw [closeCheck_s]; simp [onDemandPublisherStart]
  · rw [closeCheck_s]; simp [pending, onDemandPublisherStart]

/-- **Stop only when no reader remains**: a close timer is only ever armed while the path has no
readers (a reader arriving during the close delay disarms it — `Inv2.a1/a3`) ... -/
theorem close_timer_no_readers {s : State} (h : Reach s) (hc : s.closed = false)
    (ha : s.tSrcClose = true ∨ s.tPubClose = true) : s.readers = [] := by
  obtain ⟨hi, h2⟩ := reach_inv h
  rcases ha with ha | ha
  · have hcl := (hi.o2' hc).mp ha
    have ho : s.conf.odStatic = true := by
      cases hh : s.conf.odStatic with
      | true => rfl
      | false => have := hi.o1 hh; rw [this] at hcl; cases hcl
    exact h2.a1 ho hc hcl
  · have hcl := (hi.q2' hc).mp ha
    have ho : s.conf.odPub = true := by
      cases hh : s.conf.odPub with
      | true => rfl
      | false => have := hi.q1 hh; rw [this] at hcl; cases hcl
    exact h2.a3 ho hc hcl

/-- ... and when it expires the source is stopped / the runOnDemand pair closed and the automaton is
back in `initial`, from where later demand starts it again (`start_on_first_demand_*`). -/
theorem close_timer_stops {s : State} (h : Reach s) (hc : s.closed = false) :
    (s.tSrcClose = true → Out.srcStop ∈ (step s (.timer .srcClose)).2 ∧
        (step s (.timer .srcClose)).1.odSrc = .initial ∧ (step s (.timer .srcClose)).1.stream = none) ∧
    (s.tPubClose = true → Out.hook .demand false ∈ (step s (.timer .pubClose)).2 ∧
        (step s (.timer .pubClose)).1.odPub = .initial) := by
  obtain ⟨hi, h2⟩ := reach_inv h
  have hval := hi.valid
  unfold Conf.valid at hval
  constructor
  · intro ha
    have hcl := (hi.o2' hc).mp ha
    have ho : s.conf.odStatic = true := by
      cases hh : s.conf.odStatic with
      | true => rfl
      | false => have := hi.o1 hh; rw [this] at hcl; cases hcl
    have hrun : s.srcRunning = true := (hi.o3 ho hc).mpr (by rw [hcl]; simp)
    have haa : s.conf.alwaysAvailable = false := by
      have := (odStatic_iff s.conf).mp ho
      cases hh : s.conf.alwaysAvailable with
      | false => rfl
      | true => simp [hh, this.2] at hval
    have e : stepW (.timer .srcClose) { s := s } =
        closeCheck (onDemandStaticSourceStop (setNotAvailable (upd (fun s => { s with tSrcClose := false }) { s := s }))) := by
      unfold stepW
      rw [if_neg (by simp [hi.np]), if_neg (by simp [hc])]
      show (if timerArmed s .srcClose = true then fireTimer .srcClose { s := s } else _) = _
      rw [if_pos (by simpa [timerArmed] using ha)]
      unfold fireTimer doOnDemandStaticSourceCloseTimer
      simp [haa]
    unfold step
    rw [e]
    dsimp only
    refine ⟨?_, ?_, ?_⟩
    · apply mem_closeCheck
      unfold onDemandStaticSourceStop srcStop
      simp [setNotAvailable_s, hrun, hcl]
    · rw [closeCheck_s, onDemandStaticSourceStop_s]
    · rw [closeCheck_s, onDemandStaticSourceStop_s]; simp [setNotAvailable_s]
  · intro ha
    have hcl := (hi.q2' hc).mp ha
    have hdem : s.hkDemand = true := (hi.q3 hc).mpr (by rw [hcl]; simp)
    have e : stepW (.timer .pubClose) { s := s } =
        onDemandPublisherStop (upd (fun s => { s with tPubClose := false }) { s := s }) := by
      unfold stepW
      rw [if_neg (by simp [hi.np]), if_neg (by simp [hc])]
      show (if timerArmed s .pubClose = true then fireTimer .pubClose { s := s } else _) = _
      rw [if_pos (by simpa [timerArmed] using ha)]
      rfl
    unfold step
    rw [e]
    dsimp only
    refine ⟨?_, ?_⟩
    · unfold onDemandPublisherStop
      simp [hdem, hcl]
    · rw [onDemandPublisherStop_s]

/-! ### held requests are bounded by the start timeout (finding F-C19 `hold-no-timer`, fixed in 316e99c) -/

/-- a start-timeout timer is running whenever a request is on hold -/
def HoldHasTimer (s : State) : Prop := Holding s → s.tSrcReady = true ∨ s.tPubReady = true

/-- **Bounded wait, full strength**: in every reachable state of every valid configuration, a held
request has a start-timeout timer running (on-demand static source and runOnDemand paths alike). -/
theorem hold_has_timer (c : Conf) (hv : c.valid = true) (es : List Event) : HoldHasTimer (run (init c) es).1 := by
  have hi := inv_reach c hv es
  have h2 := inv2_reach c hv es
  have hp := holdPub_reach c hv es
  intro hh
  have hc : (run (init c) es).1.closed = false := by
    cases hcl : (run (init c) es).1.closed with
    | false => rfl
    | true => have := hi.cl hcl; unfold Holding at hh; rw [this.2.2.1, this.2.2.2.1] at hh; simp at hh
  cases ho : (run (init c) es).1.conf.odStatic with
  | true => exact Or.inl ((hi.o2 hc).mpr (h2.b2 ho hh))
  | false => exact Or.inr ((hi.q2 hc).mpr (hp ho hh))

/-- **Late demand re-arms.** A describe that arrives on a runOnDemand path after the publisher has
gone away (no stream, automaton still `ready` or `closing`) is held, cancels the close timer and arms
the start-timeout timer: the automaton is `waiting` again. -/
theorem late_demand_rearms {s : State} (h : Reach s) (hc : s.closed = false) (rid : Nat)
    (ho : s.conf.odPub = true) (hs : s.stream = none) (h0 : s.odPub = .ready ∨ s.odPub = .closing) :
    (step s (.describe rid)).1.odPub = .waiting ∧ (step s (.describe rid)).1.tPubReady = true ∧
    (step s (.describe rid)).1.tPubClose = false ∧ rid ∈ pending (step s (.describe rid)).1 ∧
    (step s (.describe rid)).1.hkDemand = true := by
  obtain ⟨hi, _⟩ := reach_inv h
  have hval := hi.valid
  unfold Conf.valid at hval
  have hk : s.conf.kind = .publisher := by unfold Conf.odPub at ho; simp [ho] at hval; exact hval.2
  have hns : s.conf.odStatic = false := by unfold Conf.odStatic; simp [hk]
  have hsrc : ¬ s.source = some .redirect := by
    intro e; have := hi.kRedirect.mpr e; rw [hk] at this; cases this
  have hdem : s.hkDemand = true := (hi.q3 hc).mpr (by rcases h0 with e | e <;> rw [e] <;> simp)
  have e : (stepW (.describe rid) { s := s }).s =
      { (holdDemand { s := s }).s with descHold := s.descHold ++ [rid] } := by
    unfold stepW
    rw [if_neg (by simp [hi.np]), if_neg (by simp [hc])]
    show (closeCheck (doDescribe rid { s := s })).s = _
    rw [closeCheck_s]
    unfold doDescribe
    rw [if_neg hsrc, if_neg (by simp [hs]), if_pos (by simp [ho])]
    simp [holdDemand_s]
  have hq2' := hi.q2' hc
  unfold step
  dsimp only
  rw [e, holdDemand_s]
  rcases h0 with e0 | e0 <;> simp [hns, e0, pending, hdem] <;> simp_all

/-- **Stop at the start timeout.** When the start-timeout timer of a runOnDemand path expires, every
held request is answered, the runOnDemand pair is closed and the automaton is back in `initial` —
from where the NEXT demand starts the command again (`start_on_first_demand_pub`). -/
theorem start_timeout_stops_pub {s : State} (h : Reach s) (hc : s.closed = false) (ha : s.tPubReady = true) :
    Out.hook .demand false ∈ (step s (.timer .pubReady)).2 ∧ (step s (.timer .pubReady)).1.odPub = .initial ∧
    (step s (.timer .pubReady)).1.hkDemand = false ∧ pending (step s (.timer .pubReady)).1 = [] := by
  obtain ⟨hi, _⟩ := reach_inv h
  have hw := (hi.q2 hc).mp ha
  have hdem : s.hkDemand = true := (hi.q3 hc).mpr (by rw [hw]; simp)
  have hp := timeout_answers_all h hc .pubReady (Or.inr rfl) (by simpa [timerArmed] using ha)
  have e : stepW (.timer .pubReady) { s := s } =
      closeCheck (onDemandPublisherStop (failHolds .timedOut (upd (fun s => { s with tPubReady := false }) { s := s }))) := by
    unfold stepW
    rw [if_neg (by simp [hi.np]), if_neg (by simp [hc])]
    show (if timerArmed s .pubReady = true then fireTimer .pubReady { s := s } else _) = _
    rw [if_pos (by simpa [timerArmed] using ha)]
    rfl
  refine ⟨?_, ?_, ?_, hp⟩
  · unfold step; rw [e]; dsimp only
    apply mem_closeCheck
    unfold onDemandPublisherStop
    simp [failHolds_s, hdem, hw]
  · unfold step; rw [e]; dsimp only; rw [closeCheck_s, onDemandPublisherStop_s]
  · unfold step; rw [e]; dsimp only; rw [closeCheck_s, onDemandPublisherStop_s]

def cDemand : Conf := { kind := .publisher, runOnDemand := true }

/-! #### non-vacuity -/

example : cDemand.valid = true := by decide

/-- demand → start; publisher → held request answered, close timer armed; no reader → stop; restart. -/
example : (run (init cDemand)
    [.describe 1, .addPublisher 0 true, .timer .pubClose, .describe 2, .removePublisher 0, .describe 3, .timer .pubReady]).2 =
  [[.hook .demand true, .arm .pubReady],
   [.hook .avail true, .hook .online true, .pathReady, .disarm .pubReady, .arm .pubClose, .reply 1 (.stream 0), .pubReply (.ok 0)],
   [.disarm .pubClose, .hook .demand false],
   [.reply 2 (.stream 0)],
   [.pathNotReady, .hook .online false, .hook .avail false],
   [.hook .demand true, .arm .pubReady],
   [.reply 3 .timedOut, .hook .demand false]] := by decide

/-- the publisher-went-away history (former finding F-C19): the late request re-arms the start timer
(the close timer is cancelled), the timeout answers it and stops runOnDemand, the next demand restarts it -/
example : (run (init cDemand)
    [.describe 1, .addPublisher 0 true, .removePublisher 0, .describe 2, .addReader 3 1, .timer .pubClose,
     .timer .pubReady, .describe 4]).2.drop 3 =
  [[.disarm .pubClose, .arm .pubReady], [], [.ignored],
   [.reply 2 .timedOut, .reply 3 .timedOut, .hook .demand false],
   [.hook .demand true, .arm .pubReady]] := by decide

end MtxVerif.C19
