/-
C41 — TLS fingerprint pinning accepts exactly the pinned certificate.
-/
import MtxVerif.Model.C41
import MtxVerif.Lemmas.C41Sites

namespace MtxVerif.C41

theorem lowerByte_hex (c : UInt8) (h : isLowerHex c = true) : lowerByte c = c := by
  unfold lowerByte
  simp only [isLowerHex, Bool.or_eq_true, Bool.and_eq_true, decide_eq_true_eq] at h
  have : ¬ (65 ≤ c ∧ c ≤ 90) := by
    rcases h with h | h
    · intro ⟨a, _⟩
      have h2 := h.2
      rw [UInt8.le_iff_toNat_le] at a h2
      simp at a h2; omega
    · intro ⟨_, b⟩
      have h1 := h.1
      rw [UInt8.le_iff_toNat_le] at b h1
      simp at b h1; omega
  simp [this]

theorem hex_ascii (c : UInt8) (h : isLowerHex c = true) : c < 128 := by
  simp only [isLowerHex, Bool.or_eq_true, Bool.and_eq_true, decide_eq_true_eq] at h
  rw [UInt8.lt_iff_toNat_lt]
  rcases h with h | h <;> have h2 := h.2 <;> rw [UInt8.le_iff_toNat_le] at h2 <;> simp at h2 ⊢ <;> omega

theorem lowerByte_ascii (c : UInt8) (h : c < 128) : lowerByte c < 128 := by
  unfold lowerByte
  split
  · rename_i hc
    have a := hc.1; have b := hc.2
    rw [UInt8.le_iff_toNat_le] at a b
    rw [UInt8.lt_iff_toNat_lt]
    have : (c + 32).toNat = c.toNat + 32 := by
      rw [UInt8.toNat_add]; simp at b ⊢; omega
    rw [this]; simp at b ⊢; omega
  · exact h

theorem lowerByte_idem (c : UInt8) : lowerByte (lowerByte c) = lowerByte c := by
  unfold lowerByte
  split
  · rename_i hc
    have a := hc.1; have b := hc.2
    rw [UInt8.le_iff_toNat_le] at a b
    have e : (c + 32).toNat = c.toNat + 32 := by
      rw [UInt8.toNat_add]; simp at b ⊢; omega
    have : ¬ (65 ≤ c + 32 ∧ c + 32 ≤ 90) := by
      intro ⟨_, y⟩
      rw [UInt8.le_iff_toNat_le, e] at y
      simp at a y; omega
    simp [this]
  · rfl

/-- **Main theorem.** For every fingerprint string and every digest made of lower-case hex characters,
the connection is accepted iff fingerprint and digest are equal up to ASCII letter case. Nothing else
(chain validity, host name, expiry) enters the decision. -/
theorem accept_iff (fp hash : Bytes) (hh : hash.all isLowerHex = true) :
    accept fp hash = true ↔ ciEq fp hash = true := by
  induction fp generalizing hash with
  | nil => cases hash <;> simp [accept, ciEq]
  | cons a as ih =>
    cases hash with
    | nil => simp [accept, ciEq]
    | cons b bs =>
      simp only [List.all_cons, Bool.and_eq_true] at hh
      have ihh := ih bs hh.2
      have hb := lowerByte_hex b hh.1
      have hba := hex_ascii b hh.1
      simp only [accept, List.all_cons, List.map_cons, Bool.and_eq_true, decide_eq_true_eq, beq_iff_eq,
        List.cons.injEq] at ihh ⊢
      simp only [ciEq, Bool.and_eq_true, Bool.or_eq_true, beq_iff_eq, decide_eq_true_eq]
      constructor
      · rintro ⟨⟨ha, has⟩, hab, hbs⟩
        refine ⟨Or.inr ⟨⟨ha, hba⟩, by rw [hab, hb]⟩, ihh.mp ⟨has, hbs⟩⟩
      · rintro ⟨hab, hrest⟩
        have ⟨has, hbs⟩ := ihh.mpr hrest
        rcases hab with hab | ⟨⟨ha, _⟩, hab⟩
        · subst hab; exact ⟨⟨hba, has⟩, hb, hbs⟩
        · exact ⟨⟨ha, has⟩, by rw [hab, hb], hbs⟩

/-- Accepted fingerprints have the digest's length (64 for SHA-256): separators, truncation or padding
are rejected. -/
theorem accept_length (fp hash : Bytes) (h : accept fp hash = true) : fp.length = hash.length := by
  simp only [accept, Bool.and_eq_true, beq_iff_eq] at h
  rw [← h.2]; simp

/-- A fingerprint that differs from the digest in some position by more than letter case is rejected. -/
theorem nibble_off_rejected (fp hash : Bytes) (i : Nat) (hi : i < fp.length) (hj : i < hash.length)
    (hne : lowerByte fp[i] ≠ hash[i]) : accept fp hash = false := by
  cases h : accept fp hash with
  | false => rfl
  | true =>
    exfalso
    simp only [accept, Bool.and_eq_true, beq_iff_eq] at h
    apply hne
    have := h.2
    have e : (fp.map lowerByte)[i]'(by simpa using hi) = hash[i] := by simp [this]
    simpa using e

/-- Non-vacuity. -/
example : accept (asc ['A','b','0','F']) (asc ['a','b','0','f']) = true ∧
    accept (asc ['a','b','0','e']) (asc ['a','b','0','f']) = false ∧
    accept (asc ['a','b',':','0','f']) (asc ['a','b','0','f']) = false := by decide

end MtxVerif.C41
