/-
C09 — environment overrides are equivalent to file values.  Property theorems about the model of
`loadEnvInternal` (Model/C09.lean):

* `env_local_fixed`, `env_eq_file_value`, `env_eq_file_optional`, `leaf_exact` — with the proposed fix of the
  prefix rule, a variable `<prefix>_<KEY>…` is handled by the addressed parameter alone, takes the value the text
  denotes whatever the file/default held, and leaves every sibling untouched (= writing the value in the file);
* `env_local_current_full` (the same for the CURRENT code) is false — `env_local_current_witness`
  (MTX_AUTHMETHODS) — and holds under the side condition of `env_local_current_partial`;
* `envName_injective` — no two parameters share a variable.
-/
import MtxVerif.Lemmas.C09

namespace MtxVerif.C09
/-! ### locality of the struct loader -/

def Outcome.mapV (o : Outcome V) (f : V → V) : Outcome V :=
  match o with
  | .ok v => .ok (f v)
  | .err => .err
  | .panic => .panic
  | .nondet => .nondet

/-- field list / value list pairs whose children the loader leaves alone -/
def InertFields (child : Bytes → Ty → V → Outcome V) (pfx : Bytes) : List (Bytes × Ty) → List V → Prop
  | [], [] => True
  | (tag, t) :: fs, v :: vs => ((tag == b!"-") = true ∨ child (pfx ++ [95] ++ fieldKey tag) t v = .ok v) ∧ InertFields child pfx fs vs
  | _, _ => False

theorem loadFieldsWith_inert' (child : Bytes → Ty → V → Outcome V) (pfx : Bytes) :
    ∀ (fs : List (Bytes × Ty)) (vs acc : List V), InertFields child pfx fs vs →
      loadFieldsWith child pfx fs vs acc = .ok (.struct (acc.reverse ++ vs))
  | [], [], acc, _ => by simp [loadFieldsWith]
  | [], _ :: _, _, h => by simp [InertFields] at h
  | _ :: _, [], _, h => by simp [InertFields] at h
  | (tag, t) :: fs, v :: vs, acc, h => by
    simp only [InertFields] at h
    unfold loadFieldsWith
    by_cases ht : (tag == b!"-") = true
    · simp only [ht, if_true]
      rw [loadFieldsWith_inert' child pfx fs vs (v :: acc) h.2]; simp
    · rcases h.1 with h1 | h1
      · exact absurd h1 ht
      · simp only [ht, Bool.false_eq_true, if_false, h1]
        rw [loadFieldsWith_inert' child pfx fs vs (v :: acc) h.2]; simp

/-- **locality**: if the loader leaves every sibling alone, loading a struct is loading the one addressed field -/
theorem loadFieldsWith_local (child : Bytes → Ty → V → Outcome V) (pfx : Bytes) (tag : Bytes) (t : Ty) (v : V)
    (htag : (tag == b!"-") = false) (fs2 : List (Bytes × Ty)) (vs2 : List V) (h2 : InertFields child pfx fs2 vs2) :
    ∀ (fs1 : List (Bytes × Ty)) (vs1 acc : List V), InertFields child pfx fs1 vs1 →
      loadFieldsWith child pfx (fs1 ++ (tag, t) :: fs2) (vs1 ++ v :: vs2) acc =
        (child (pfx ++ [95] ++ fieldKey tag) t v).mapV (fun w => .struct (acc.reverse ++ vs1 ++ w :: vs2))
  | [], [], acc, _ => by
    simp only [List.nil_append]
    unfold loadFieldsWith
    simp only [htag, Bool.false_eq_true, if_false]
    cases hc : child (pfx ++ [95] ++ fieldKey tag) t v with
    | ok w =>
      simp only [Outcome.mapV]
      rw [loadFieldsWith_inert' child pfx fs2 vs2 (w :: acc) h2]; simp
    | err => rfl
    | panic => rfl
    | nondet => rfl
  | [], _ :: _, _, h => by simp [InertFields] at h
  | _ :: _, [], _, h => by simp [InertFields] at h
  | (tg, t1) :: fs1, v1 :: vs1, acc, h => by
    simp only [InertFields] at h
    simp only [List.cons_append]
    unfold loadFieldsWith
    by_cases ht : (tg == b!"-") = true
    · simp only [ht, if_true]
      rw [loadFieldsWith_local child pfx tag t v htag fs2 vs2 h2 fs1 vs1 (v1 :: acc) h.2]
      simp
    · rcases h.1 with h1 | h1
      · exact absurd h1 ht
      · simp only [ht, Bool.false_eq_true, if_false, h1]
        rw [loadFieldsWith_local child pfx tag t v htag fs2 vs2 h2 fs1 vs1 (v1 :: acc) h.2]
        simp


/-! ### a single variable and its siblings -/

theorem isPrefixOf_append_cancel (p a b : Bytes) : (p ++ a).isPrefixOf (p ++ b) = a.isPrefixOf b := by
  induction p with
  | nil => rfl
  | cons c p ih => simp [ih]

theorem sibling_silent (fx : Bool) (pfx kj K ev : Bytes)
    (h1 : K ≠ pfx ++ [95] ++ kj) (h2 : (pfx ++ [95] ++ kj ++ [95]).isPrefixOf K = false)
    (h3 : fx = false → (pfx ++ [95] ++ kj).isPrefixOf K = false) :
    Silent fx [(K, ev)] (pfx ++ [95] ++ kj) := by
  refine ⟨⟨?_, ?_⟩, fun hf => ?_⟩
  · unfold Env.get
    have : (K == pfx ++ [95] ++ kj) = false := by
      cases hc : K == pfx ++ [95] ++ kj with
      | false => rfl
      | true => exact absurd (by simpa using hc) h1
    simp only [List.find?, this]; rfl
  · unfold hasKeyWithPrefix
    simp only [List.any_cons, List.any_nil, Bool.or_false]; exact h2
  · unfold hasKeyWithPrefix
    simp only [List.any_cons, List.any_nil, Bool.or_false]; exact h3 hf

/-- `_`-free segments are separated by the `_` that follows them -/
theorem underscore_sep : ∀ (a b tail : Bytes), (95 : UInt8) ∉ a → (95 : UInt8) ∉ b →
    (tail = [] ∨ ∃ r, tail = 95 :: r) → (a ++ [95]).isPrefixOf (b ++ tail) = true → a = b
  | [], [], _, _, _, _, _ => rfl
  | [], c :: b, tail, _, hb, _, h => by
    simp only [List.nil_append, List.cons_append, List.isPrefixOf_cons_cons, Bool.and_eq_true, beq_iff_eq] at h
    exact absurd (h.1 ▸ List.mem_cons_self) hb
  | c :: a, [], tail, ha, _, ht, h => by
    rcases ht with rfl | ⟨r, rfl⟩
    · simp at h
    · simp only [List.cons_append, List.nil_append, List.isPrefixOf_cons_cons, Bool.and_eq_true, beq_iff_eq] at h
      exact absurd (h.1 ▸ List.mem_cons_self) ha
  | c :: a, d :: b, tail, ha, hb, ht, h => by
    simp only [List.cons_append, List.isPrefixOf_cons_cons, Bool.and_eq_true, beq_iff_eq] at h
    have := underscore_sep a b tail (fun hm => ha (List.mem_cons_of_mem _ hm)) (fun hm => hb (List.mem_cons_of_mem _ hm)) ht h.2
    rw [h.1, this]

/-- in the fixed loader, a variable addressing (something below) the `_`-free key `ki` leaves every sibling with a
different `_`-free key alone -/
theorem sibling_silent_fixed (pfx kj ki tail ev : Bytes) (hj : (95 : UInt8) ∉ kj) (hi : (95 : UInt8) ∉ ki)
    (ht : tail = [] ∨ ∃ r, tail = 95 :: r) (hne : kj ≠ ki) :
    Silent true [(pfx ++ [95] ++ ki ++ tail, ev)] (pfx ++ [95] ++ kj) := by
  apply sibling_silent
  · intro h
    have h' : pfx ++ [95] ++ (ki ++ tail) = pfx ++ [95] ++ kj := by simpa [List.append_assoc] using h
    have : ki ++ tail = kj := List.append_cancel_left h'
    rcases ht with rfl | ⟨r, rfl⟩
    · simp at this; exact hne this.symm
    · exact hj (this ▸ by simp)
  · have e1 : pfx ++ [95] ++ kj ++ [95] = (pfx ++ [95]) ++ (kj ++ [95]) := by simp [List.append_assoc]
    have e2 : pfx ++ [95] ++ ki ++ tail = (pfx ++ [95]) ++ (ki ++ tail) := by simp [List.append_assoc]
    rw [e1, e2, isPrefixOf_append_cancel]
    cases hc : (kj ++ [95]).isPrefixOf (ki ++ tail) with
    | false => rfl
    | true => exact absurd (underscore_sep kj ki tail hj hi ht hc) hne
  · intro h; cases h


/-- siblings of the addressed field: skipped (`json:"-"`), or `_`-free key different from the addressed key
and a well-formed value -/
def SiblingsOK (fuel : Nat) (ki : Bytes) : List (Bytes × Ty) → List V → Prop
  | [], [] => True
  | (tag, t) :: fs, v :: vs =>
    ((tag == b!"-") = true ∨ ((95 : UInt8) ∉ fieldKey tag ∧ fieldKey tag ≠ ki ∧ wfD (wfAt fuel) t v = true)) ∧
      SiblingsOK fuel ki fs vs
  | _, _ => False

theorem siblings_inert_fixed (fl : FloatOracle) (fuel : Nat) (pfx ki tail ev : Bytes) (hi : (95 : UInt8) ∉ ki)
    (ht : tail = [] ∨ ∃ r, tail = 95 :: r) :
    ∀ (fs : List (Bytes × Ty)) (vs : List V), SiblingsOK fuel ki fs vs →
      InertFields (dispatch (loadAt true fl [(pfx ++ [95] ++ ki ++ tail, ev)] fuel)) pfx fs vs
  | [], [], _ => trivial
  | [], _ :: _, h => by simp [SiblingsOK] at h
  | _ :: _, [], h => by simp [SiblingsOK] at h
  | (tag, t) :: fs, v :: vs, h => by
    simp only [SiblingsOK] at h
    refine ⟨?_, siblings_inert_fixed fl fuel pfx ki tail ev hi ht fs vs h.2⟩
    rcases h.1 with h1 | ⟨hj, hne, hw⟩
    · exact Or.inl h1
    · right
      have hsil := sibling_silent_fixed pfx (fieldKey tag) ki tail ev hj hi ht hne
      exact dispatch_inert _ (wfAt fuel) _ (fun t c hc => loadAt_inert true fl _ fuel _ t c hsil hc) t v hw

/-- **env_eq_file, inductive step (fixed loader)**: in a struct whose other fields have `_`-free keys different
from `fieldKey tag`, a single variable `<pfx>_<KEY><tail>` (tail empty, or `_…` addressing something below) is
handled by the addressed field alone; every sibling keeps its value. -/
theorem env_local_fixed (fl : FloatOracle) (fuel : Nat) (pfx tag tail ev : Bytes) (t : Ty) (v : V)
    (fs1 fs2 : List (Bytes × Ty)) (vs1 vs2 : List V)
    (htag : (tag == b!"-") = false) (hi : (95 : UInt8) ∉ fieldKey tag) (ht : tail = [] ∨ ∃ r, tail = 95 :: r)
    (h1 : SiblingsOK fuel (fieldKey tag) fs1 vs1) (h2 : SiblingsOK fuel (fieldKey tag) fs2 vs2) :
    loadStructWith (dispatch (loadAt true fl [(pfx ++ [95] ++ fieldKey tag ++ tail, ev)] fuel)) pfx
        (fs1 ++ (tag, t) :: fs2) (.struct (vs1 ++ v :: vs2)) =
      (dispatch (loadAt true fl [(pfx ++ [95] ++ fieldKey tag ++ tail, ev)] fuel) (pfx ++ [95] ++ fieldKey tag) t v).mapV
        (fun w => .struct (vs1 ++ w :: vs2)) := by
  unfold loadStructWith
  simp only []
  rw [loadFieldsWith_local _ pfx tag t v htag fs2 vs2 (siblings_inert_fixed fl fuel pfx _ tail ev hi ht fs2 vs2 h2)
    fs1 vs1 [] (siblings_inert_fixed fl fuel pfx _ tail ev hi ht fs1 vs1 h1)]
  simp

/-! ### leaves: the variable text alone determines the value (override) -/

/-- what a variable text denotes for a leaf type (`none`: rejected, or not a leaf type) -/
def leafOf (fl : FloatOracle) (t : Ty) (name ev : Bytes) : Option V :=
  match t with
  | .str => some (.str ev)
  | .int => (parseInt32 ev).map .int
  | .uint => (parseUint32 ev).map .uint
  | .float => (fl.lookup ev).map .float
  | .bool => (parseBool ev).map .bool
  | .unm => (unmCall [] name ev).map .unm
  | .strList => some (.list (if ev.isEmpty then [] else (splitComma ev).map .str))
  | .uintList => if ev.isEmpty then some (.list []) else ((splitComma ev).mapM parseUint32).map fun l => .list (l.map .uint)
  | .floatList => if ev.isEmpty then some (.list []) else ((splitComma ev).mapM (fun x => fl.lookup x)).map fun l => .list (l.map .float)
  | _ => none

theorem get_single (K ev : Bytes) : Env.get [(K, ev)] K = some ev := by
  unfold Env.get; simp [List.find?]

/-- a leaf parameter addressed exactly takes the value of the variable, whatever it held before (file value or
default), and an unset optional parameter is created -/
theorem leaf_exact (fx : Bool) (fl : FloatOracle) (fuel : Nat) (K ev : Bytes) (t : Ty) (cur? : Option V) (d : V)
    (h : leafOf fl t K ev = some d) : loadAt fx fl [(K, ev)] (fuel + 1) K t cur? = .ok (.some d) := by
  unfold loadAt
  simp only [get_single]
  cases t with
  | str => simp only [leafOf, Option.some.injEq] at h; subst h; rfl
  | int =>
    simp only [leafOf] at h
    cases hp : parseInt32 ev with
    | none => simp [hp] at h
    | some x => simp only [hp, Option.map_some, Option.some.injEq] at h; subst h; rfl
  | uint =>
    simp only [leafOf] at h
    cases hp : parseUint32 ev with
    | none => simp [hp] at h
    | some x => simp only [hp, Option.map_some, Option.some.injEq] at h; subst h; rfl
  | float =>
    simp only [leafOf] at h
    cases hp : fl.lookup ev with
    | none => simp [hp] at h
    | some x => simp only [hp, Option.map_some, Option.some.injEq] at h; subst h; rfl
  | bool =>
    simp only [leafOf] at h
    cases hp : parseBool ev with
    | none => simp [hp] at h
    | some x => simp only [hp, Option.map_some, Option.some.injEq] at h; subst h; rfl
  | unm =>
    simp only [leafOf] at h
    cases hc : unmCall [] K ev with
    | none => simp [hc] at h
    | some x =>
      simp only [hc, Option.map_some, Option.some.injEq] at h; subst h
      have : ∀ hh, unmCall hh K ev = some x := fun hh => by unfold unmCall at hc ⊢; exact hc
      simp only [this]
  | strList =>
    simp only [leafOf, Option.some.injEq] at h; subst h
    by_cases he : ev.isEmpty = true <;> simp [he]
  | uintList =>
    simp only [leafOf] at h
    by_cases he : ev.isEmpty = true
    · simp only [he, if_true, Option.some.injEq] at h; subst h; simp [he]
    · simp only [he, Bool.false_eq_true, if_false] at h
      cases hp : (splitComma ev).mapM parseUint32 with
      | none => simp [hp] at h
      | some x => simp only [hp, Option.map_some, Option.some.injEq] at h; subst h; simp [he]
  | floatList =>
    simp only [leafOf] at h
    by_cases he : ev.isEmpty = true
    · simp only [he, if_true, Option.some.injEq] at h; subst h; simp [he]
    · simp only [he, Bool.false_eq_true, if_false] at h
      cases hp : (splitComma ev).mapM (fun x => fl.lookup x) with
      | none => simp [hp] at h
      | some x => simp only [hp, Option.map_some, Option.some.injEq] at h; subst h; simp [he]
  | _ => simp [leafOf] at h


theorem dispatch_leaf_value (fx : Bool) (fl : FloatOracle) (fuel : Nat) (K ev : Bytes) (t : Ty) (v d : V)
    (h : leafOf fl t K ev = some d) : dispatch (loadAt fx fl [(K, ev)] (fuel + 1)) K t v = .ok d := by
  have hl := leaf_exact fx fl fuel K ev t (some v) d h
  cases t <;> simp_all [dispatch, leafOf]

theorem dispatch_leaf_optional (fx : Bool) (fl : FloatOracle) (fuel : Nat) (K ev : Bytes) (t : Ty) (v d : V)
    (hv : v = .nil ∨ ∃ w, v = .some w) (h : leafOf fl t K ev = some d) :
    dispatch (loadAt fx fl [(K, ev)] (fuel + 1)) K (.ptr t) v = .ok (.some d) := by
  have hnp : ∀ t', t ≠ .ptr t' := by intro t' ht; subst ht; simp [leafOf] at h
  rcases hv with rfl | ⟨w, rfl⟩
  · have hl := leaf_exact fx fl fuel K ev t none d h
    cases t <;> simp_all [dispatch]
  · have hl := leaf_exact fx fl fuel K ev t (some w) d h
    cases t <;> simp_all [dispatch]

/-- **env_eq_file (fixed loader, a parameter of a struct)**: setting `<pfx>_<KEY>=text` yields the struct with
that one parameter set to the value the text denotes — whatever the parameter held before (file value or
default: *override*) — and every other parameter unchanged; the same as writing the value in the file. -/
theorem env_eq_file_value (fl : FloatOracle) (fuel : Nat) (pfx tag ev : Bytes) (t : Ty) (v d : V)
    (fs1 fs2 : List (Bytes × Ty)) (vs1 vs2 : List V)
    (htag : (tag == b!"-") = false) (hi : (95 : UInt8) ∉ fieldKey tag)
    (h1 : SiblingsOK (fuel + 1) (fieldKey tag) fs1 vs1) (h2 : SiblingsOK (fuel + 1) (fieldKey tag) fs2 vs2)
    (hleaf : leafOf fl t (pfx ++ [95] ++ fieldKey tag) ev = some d) :
    loadStructWith (dispatch (loadAt true fl [(pfx ++ [95] ++ fieldKey tag, ev)] (fuel + 1))) pfx
        (fs1 ++ (tag, t) :: fs2) (.struct (vs1 ++ v :: vs2)) = .ok (.struct (vs1 ++ d :: vs2)) := by
  have := env_local_fixed fl (fuel + 1) pfx tag [] ev t v fs1 fs2 vs1 vs2 htag hi (Or.inl rfl) h1 h2
  simp only [List.append_nil] at this
  rw [this, dispatch_leaf_value true fl fuel _ ev t v d hleaf]
  rfl

/-- the same for an optional (pointer) parameter, unset or set -/
theorem env_eq_file_optional (fl : FloatOracle) (fuel : Nat) (pfx tag ev : Bytes) (t : Ty) (v d : V)
    (fs1 fs2 : List (Bytes × Ty)) (vs1 vs2 : List V)
    (htag : (tag == b!"-") = false) (hi : (95 : UInt8) ∉ fieldKey tag) (hv : v = .nil ∨ ∃ w, v = .some w)
    (h1 : SiblingsOK (fuel + 1) (fieldKey tag) fs1 vs1) (h2 : SiblingsOK (fuel + 1) (fieldKey tag) fs2 vs2)
    (hleaf : leafOf fl t (pfx ++ [95] ++ fieldKey tag) ev = some d) :
    loadStructWith (dispatch (loadAt true fl [(pfx ++ [95] ++ fieldKey tag, ev)] (fuel + 1))) pfx
        (fs1 ++ (tag, .ptr t) :: fs2) (.struct (vs1 ++ v :: vs2)) = .ok (.struct (vs1 ++ .some d :: vs2)) := by
  have := env_local_fixed fl (fuel + 1) pfx tag [] ev (.ptr t) v fs1 fs2 vs1 vs2 htag hi (Or.inl rfl) h1 h2
  simp only [List.append_nil] at this
  rw [this, dispatch_leaf_optional true fl fuel _ ev t v d hv hleaf]
  rfl

/-! ### the current loader: the prefix rule looks at variables that merely start with the same letters -/

def SiblingsOKcur (fuel : Nat) (ki tail : Bytes) : List (Bytes × Ty) → List V → Prop
  | [], [] => True
  | (tag, t) :: fs, v :: vs =>
    ((tag == b!"-") = true ∨ ((95 : UInt8) ∉ fieldKey tag ∧ fieldKey tag ≠ ki ∧ wfD (wfAt fuel) t v = true ∧
        (fieldKey tag).isPrefixOf (ki ++ tail) = false)) ∧
      SiblingsOKcur fuel ki tail fs vs
  | _, _ => False

theorem siblings_inert_current (fl : FloatOracle) (fuel : Nat) (pfx ki tail ev : Bytes) (hi : (95 : UInt8) ∉ ki)
    (ht : tail = [] ∨ ∃ r, tail = 95 :: r) :
    ∀ (fs : List (Bytes × Ty)) (vs : List V), SiblingsOKcur fuel ki tail fs vs →
      InertFields (dispatch (loadAt false fl [(pfx ++ [95] ++ ki ++ tail, ev)] fuel)) pfx fs vs
  | [], [], _ => trivial
  | [], _ :: _, h => by simp [SiblingsOKcur] at h
  | _ :: _, [], h => by simp [SiblingsOKcur] at h
  | (tag, t) :: fs, v :: vs, h => by
    simp only [SiblingsOKcur] at h
    refine ⟨?_, siblings_inert_current fl fuel pfx ki tail ev hi ht fs vs h.2⟩
    rcases h.1 with h1 | ⟨hj, hne, hw, hp⟩
    · exact Or.inl h1
    · right
      have hfix := sibling_silent_fixed pfx (fieldKey tag) ki tail ev hj hi ht hne
      have hsil : Silent false [(pfx ++ [95] ++ ki ++ tail, ev)] (pfx ++ [95] ++ fieldKey tag) := by
        refine ⟨hfix.1, fun _ => ?_⟩
        unfold hasKeyWithPrefix
        simp only [List.any_cons, List.any_nil, Bool.or_false]
        have e2 : pfx ++ [95] ++ ki ++ tail = (pfx ++ [95]) ++ (ki ++ tail) := by simp [List.append_assoc]
        rw [e2, isPrefixOf_append_cancel]; exact hp
      exact dispatch_inert _ (wfAt fuel) _ (fun t c hc => loadAt_inert false fl _ fuel _ t c hsil hc) t v hw

/-- locality for the current code, under the extra side condition that no sibling key is a prefix of the
addressed name -/
theorem env_local_current_partial (fl : FloatOracle) (fuel : Nat) (pfx tag tail ev : Bytes) (t : Ty) (v : V)
    (fs1 fs2 : List (Bytes × Ty)) (vs1 vs2 : List V)
    (htag : (tag == b!"-") = false) (hi : (95 : UInt8) ∉ fieldKey tag) (ht : tail = [] ∨ ∃ r, tail = 95 :: r)
    (h1 : SiblingsOKcur fuel (fieldKey tag) tail fs1 vs1) (h2 : SiblingsOKcur fuel (fieldKey tag) tail fs2 vs2) :
    loadStructWith (dispatch (loadAt false fl [(pfx ++ [95] ++ fieldKey tag ++ tail, ev)] fuel)) pfx
        (fs1 ++ (tag, t) :: fs2) (.struct (vs1 ++ v :: vs2)) =
      (dispatch (loadAt false fl [(pfx ++ [95] ++ fieldKey tag ++ tail, ev)] fuel) (pfx ++ [95] ++ fieldKey tag) t v).mapV
        (fun w => .struct (vs1 ++ w :: vs2)) := by
  unfold loadStructWith
  simp only []
  rw [loadFieldsWith_local _ pfx tag t v htag fs2 vs2 (siblings_inert_current fl fuel pfx _ tail ev hi ht fs2 vs2 h2)
    fs1 vs1 [] (siblings_inert_current fl fuel pfx _ tail ev hi ht fs1 vs1 h1)]
  simp

/-- the statement of `env_local_fixed` for the CURRENT loader — false (finding: MTX_AUTHMETHODS) -/
def env_local_current_full : Prop :=
  ∀ (fl : FloatOracle) (fuel : Nat) (pfx tag tail ev : Bytes) (t : Ty) (v : V)
    (fs1 fs2 : List (Bytes × Ty)) (vs1 vs2 : List V),
    (tag == b!"-") = false → (95 : UInt8) ∉ fieldKey tag → (tail = [] ∨ ∃ r, tail = 95 :: r) →
    SiblingsOK fuel (fieldKey tag) fs1 vs1 → SiblingsOK fuel (fieldKey tag) fs2 vs2 →
    loadStructWith (dispatch (loadAt false fl [(pfx ++ [95] ++ fieldKey tag ++ tail, ev)] fuel)) pfx
        (fs1 ++ (tag, t) :: fs2) (.struct (vs1 ++ v :: vs2)) =
      (dispatch (loadAt false fl [(pfx ++ [95] ++ fieldKey tag ++ tail, ev)] fuel) (pfx ++ [95] ++ fieldKey tag) t v).mapV
        (fun w => .struct (vs1 ++ w :: vs2))


/-- witness: struct {authMethod: Unmarshaler, authMethods: *Unmarshaler}, variable MTX_AUTHMETHODS=basic — the
sibling `authMethod` is called with the empty string (the real `AuthMethod` rejects it: Load fails) -/
theorem env_local_current_witness : ¬ env_local_current_full := by
  intro h
  have h' := h [] 2 b!"MTX" b!"authMethods" [] b!"basic" (.ptr .unm) .nil [(b!"authMethod", .unm)] []
    [.unm b!"x"] [] rfl (by decide) (Or.inl rfl) ⟨Or.inr ⟨by decide, by decide, rfl⟩, trivial⟩ trivial
  have hl : loadStructWith (dispatch (loadAt false [] [(b!"MTX" ++ [95] ++ fieldKey b!"authMethods" ++ [], b!"basic")] 2)) b!"MTX"
      ([(b!"authMethod", Ty.unm)] ++ (b!"authMethods", Ty.ptr Ty.unm) :: []) (.struct ([V.unm b!"x"] ++ V.nil :: [])) =
      .ok (.struct [.unm b!"<MTX_AUTHMETHOD=>", .some (.unm b!"<MTX_AUTHMETHODS=basic>")]) := rfl
  have hr : (dispatch (loadAt false [] [(b!"MTX" ++ [95] ++ fieldKey b!"authMethods" ++ [], b!"basic")] 2)
      (b!"MTX" ++ [95] ++ fieldKey b!"authMethods") (Ty.ptr Ty.unm) V.nil).mapV (fun w => .struct ([V.unm b!"x"] ++ w :: [])) =
      .ok (.struct [.unm b!"x", .some (.unm b!"<MTX_AUTHMETHODS=basic>")]) := rfl
  rw [hl, hr] at h'
  injection h' with h1
  injection h1 with h2
  injection h2 with h3 _
  injection h3 with h4
  revert h4
  decide

/-- the fixed loader on the same input leaves `authMethod` alone and sets `authMethods` -/
example : loadStructWith (dispatch (loadAt true [] [(b!"MTX_AUTHMETHODS", b!"basic")] 2)) b!"MTX"
    [(b!"authMethod", .unm), (b!"authMethods", .ptr .unm)] (.struct [.unm b!"x", .nil]) =
    .ok (.struct [.unm b!"x", .some (.unm b!"<MTX_AUTHMETHODS=basic>")]) := rfl

/-! ### the name scheme: no two parameters share a variable -/

def nameSuffix : List Bytes → Bytes
  | [] => []
  | s :: p => 95 :: (s ++ nameSuffix p)

theorem nameSuffix_tail (p : List Bytes) : nameSuffix p = [] ∨ ∃ r, nameSuffix p = 95 :: r := by
  cases p with
  | nil => exact Or.inl rfl
  | cons s p => exact Or.inr ⟨s ++ nameSuffix p, rfl⟩

theorem envName_eq (pfx : Bytes) (p : List Seg) : envName pfx p = pfx ++ nameSuffix (p.map segName) := by
  induction p generalizing pfx with
  | nil => simp [envName, nameSuffix]
  | cons s p ih =>
    have : envName pfx (s :: p) = envName (pfx ++ [95] ++ segName s) p := rfl
    rw [this, ih]; simp [nameSuffix, List.append_assoc]

theorem nameSuffix_injective : ∀ (p q : List Bytes), (∀ s ∈ p, (95 : UInt8) ∉ s) → (∀ s ∈ q, (95 : UInt8) ∉ s) →
    nameSuffix p = nameSuffix q → p = q
  | [], [], _, _, _ => rfl
  | [], _ :: _, _, _, h => by simp [nameSuffix] at h
  | _ :: _, [], _, _, h => by simp [nameSuffix] at h
  | s :: p, s' :: q, hp, hq, h => by
    have h0 : s ++ nameSuffix p = s' ++ nameSuffix q := by
      simp only [nameSuffix, List.cons.injEq, true_and] at h; exact h
    have hs : (95 : UInt8) ∉ s := hp s List.mem_cons_self
    have hs' : (95 : UInt8) ∉ s' := hq s' List.mem_cons_self
    have hss : s = s' := by
      rcases nameSuffix_tail p with hnil | ⟨r, hr⟩
      · rw [hnil, List.append_nil] at h0
        rcases nameSuffix_tail q with hq0 | ⟨r', hr'⟩
        · rw [hq0, List.append_nil] at h0; exact h0
        · exact absurd (by rw [h0, hr']; simp) hs
      · apply underscore_sep s s' (nameSuffix q) hs hs' (nameSuffix_tail q)
        rw [← h0, hr]
        have e : s ++ 95 :: r = (s ++ [95]) ++ r := by simp
        rw [e]
        have := isPrefixOf_append_cancel (s ++ [95]) [] r
        simpa using this
    subst hss
    have ht : nameSuffix p = nameSuffix q := List.append_cancel_left h0
    rw [nameSuffix_injective p q (fun x hx => hp x (List.mem_cons_of_mem _ hx)) (fun x hx => hq x (List.mem_cons_of_mem _ hx)) ht]

/-- **no two parameters share a variable**: paths whose segment names are `_`-free (json tags of the real
configuration, addressable map keys, indices) have different variable names -/
theorem envName_injective (pfx : Bytes) (p q : List Seg)
    (hp : ∀ s ∈ p, (95 : UInt8) ∉ segName s) (hq : ∀ s ∈ q, (95 : UInt8) ∉ segName s)
    (h : envName pfx p = envName pfx q) : p.map segName = q.map segName := by
  rw [envName_eq, envName_eq] at h
  apply nameSuffix_injective
  · intro s hs; obtain ⟨x, hx, rfl⟩ := List.mem_map.mp hs; exact hp x hx
  · intro s hs; obtain ⟨x, hx, rfl⟩ := List.mem_map.mp hs; exact hq x hx
  · exact List.append_cancel_left h



/-! ### non-vacuity and behaviour examples (tests, not theorems) -/

-- the hypotheses of `env_eq_file_value` are satisfiable: {logLevel: Unmarshaler, api: bool, apiAddress: string}
example : loadStructWith (dispatch (loadAt true [] [(b!"MTX" ++ [95] ++ fieldKey b!"api", b!"yes")] 3)) b!"MTX"
    ([(b!"logLevel", Ty.unm)] ++ (b!"api", Ty.bool) :: [(b!"apiAddress", Ty.str)])
    (.struct ([V.unm b!"x"] ++ V.bool false :: [V.str b!":9997"])) =
    .ok (.struct ([V.unm b!"x"] ++ V.bool true :: [V.str b!":9997"])) :=
  env_eq_file_value [] 2 b!"MTX" b!"api" b!"yes" .bool (.bool false) (.bool true) _ _ _ _ rfl (by decide)
    ⟨Or.inr ⟨by decide, by decide, rfl⟩, trivial⟩ ⟨Or.inr ⟨by decide, by decide, rfl⟩, trivial⟩ rfl

-- map of pointers: the key is the next `_`-free upper-case token, lower-cased; a null entry is replaced
example : loadEnv false [] [(b!"MTX_PATHS_CAM_SOURCE", b!"x")] 6 b!"MTX"
    (.struct [(b!"paths", .map (.unmStruct [(b!"source,omitempty", .ptr .str)]))]) (.struct [.map [(b!"cam", .nil)]]) =
    .ok (.struct [.map [(b!"cam", .some (.opt (.some (.struct [.some (.str b!"x")]))))]]) := rfl
-- lower-case keys and keys with `_` cannot be addressed
example : loadEnv false [] [(b!"MTX_PATHS_cam_SOURCE", b!"x")] 6 b!"MTX"
    (.struct [(b!"paths", .map (.unmStruct [(b!"source,omitempty", .ptr .str)]))]) (.struct [.nilMap]) =
    .ok (.struct [.nilMap]) := rfl
-- struct list: items are addressed by index and merged into existing items
example : loadEnv false [] [(b!"MTX_USERS_0_PASS", b!"p")] 6 b!"MTX"
    (.struct [(b!"users", .structList [(b!"user", .str), (b!"pass", .str)])])
    (.struct [.list [.struct [.str b!"any", .str []]]]) =
    .ok (.struct [.list [.struct [.str b!"any", .str b!"p"]]]) := rfl
-- 32-bit integer parse: 2^31 is rejected
example : parseInt32 b!"2147483647" = some 2147483647 ∧ parseInt32 b!"2147483648" = none ∧
    parseInt32 b!"-2147483648" = some (-2147483648) ∧ parseUint32 b!"4294967296" = none := by decide
example : parseBool b!"YES" = some true ∧ parseBool b!"No" = some false ∧ parseBool b!"1" = none := by decide
-- nil receiver: a variable that merely extends the name of an unset optional Unmarshaler parameter
example : loadEnv false [] [(b!"MTX_RECORDPARTDURATIONX", b!"1s")] 4 b!"MTX"
    (.struct [(b!"recordPartDuration,omitempty", .ptr .unm)]) (.struct [.nil]) = .panic := rfl
example : loadEnv true [] [(b!"MTX_RECORDPARTDURATIONX", b!"1s")] 4 b!"MTX"
    (.struct [(b!"recordPartDuration,omitempty", .ptr .unm)]) (.struct [.nil]) = .ok (.struct [.nil]) := rfl

end MtxVerif.C09
