/-
C32 — MoQ wire codecs round-trip and reject malformed input safely.  Property theorems.

"Every MoQ varint, namespace, parameter list, property list, control message and subgroup stream the
server encodes is decoded back to the same value, and decoding arbitrary bytes either fails or
succeeds without panicking and without allocating more than the protocol limits."

* round trip  : `*_roundtrip`, for every value within the protocol limits (`wf…`), any trailing bytes;
* no panic    : `decoders_total`, for every byte string (the `panic` outcome covers slice/index out
                of range and loops without progress);
* allocation  : `alloc_bounded_stream` (a constant per control message / subgroup stream) and
                `alloc_bounded_buffer` (`≤ 128·|input| + B`), for every byte string;
* tie to the source: `all_makes_guarded`, `limits_match` over the regenerated Gen/C32.lean.
-/
import MtxVerif.Lemmas.C32Moq
import MtxVerif.Gen.C32

namespace MtxVerif.C32

/-! ### varint -/

/-- varint round trip for the whole `uint64` range, both decoders (`Unmarshal`, `Read`) -/
theorem varint_roundtrip (v : Nat) (hv : v < 2 ^ 64) (stream : Bool) (tail : Bytes) :
    (varint stream (encVarint v ++ tail)).r = .ok v tail := varint_rt stream v hv tail

/-- the size table: 7 payload bits per byte up to 8 bytes, 9 bytes beyond 2^56 -/
theorem varint_size_table (v : Nat) :
    (encVarint v).length =
      if v < 2 ^ 7 then 1 else if v < 2 ^ 14 then 2 else if v < 2 ^ 21 then 3 else if v < 2 ^ 28 then 4
      else if v < 2 ^ 35 then 5 else if v < 2 ^ 42 then 6 else if v < 2 ^ 49 then 7
      else if v < 2 ^ 56 then 8 else 9 := by
  rw [encVarint_length]; rfl

/-- a decoded varint is always in range and the decoder consumed 1…9 bytes -/
theorem varint_decoded_range (stream : Bool) (b : Bytes) (v : Nat) (rest : Bytes)
    (h : (varint stream b).r = .ok v rest) : rest.length < b.length ∧ b.length ≤ rest.length + 9 := by
  refine ⟨Strict.varint stream b v rest h, ?_⟩
  rw [varint_r] at h
  have := sizeOfFirst_pos
  cases b with
  | nil => simp at h
  | cons b0 r =>
    have := this b0.toNat
    simp only [] at h
    split at h
    · simp at h; rw [← h.2]; simp
    · split at h
      · simp at h; rw [← h.2]; simp; omega
      · simp at h

/-! ### combinators (the library's round-trip rules) -/

theorem bytesLP_roundtrip (max : Nat) (mode : AllocMode) (stream : Bool) (v tail : Bytes)
    (h1 : v.length ≤ max) (h2 : v.length < 2 ^ 64) :
    (bytesLP max mode stream (encBytesLP v ++ tail)).r = .ok v tail := bytesLP_rt max mode stream v tail h1 h2

theorem listLP_roundtrip (max sz : Nat) {e : α → Bytes} {d : Dec α} {wf : α → Prop} (h : RT e d wf) :
    RT (encListLP e) (listLP max sz d) (fun l => l.length ≤ max ∧ l.length < 2 ^ 64 ∧ ∀ x ∈ l, wf x) :=
  listLP_rt max sz h

theorem pair_roundtrip {e1 : α → Bytes} {e2 : β → Bytes} {d1 : Dec α} {d2 : Dec β} {w1 : α → Prop}
    {w2 : β → Prop} (h1 : RT e1 d1 w1) (h2 : RT e2 d2 w2) :
    RT (fun p => e1 p.1 ++ e2 p.2) (pair d1 d2) (fun p => w1 p.1 ∧ w2 p.2) := pair_rt h1 h2

theorem tagged_roundtrip {tag : Dec τ} {sel : τ → Option (Dec α)} {etag : τ → Bytes} {wt : τ → Prop}
    (ht : RT etag tag wt) (t : τ) (d : Dec α) (hs : sel t = some d) (hw : wt t)
    (body : Bytes) (v : α) (tail : Bytes) (hd : (d (body ++ tail)).r = .ok v tail) :
    (tagged tag sel (etag t ++ body ++ tail)).r = .ok v tail := tagged_rt ht t d hs hw body v tail hd

/-! ### every MoQ type: decode ∘ encode = id on well-formed values -/

theorem namespace_roundtrip (ns : Namespace) (h : wfNamespace ns = true) (tail : Bytes) :
    (decNamespace (encNamespace ns ++ tail)).r = .ok ns tail := rt_namespace ns h tail

theorem params_roundtrip (ps : Params) (h : wfParams ps = true) (tail : Bytes) :
    (paramsLoop ps.length 0 (encParams ps ++ tail)).r = .ok ps tail := by
  rw [wfParams_iff] at h
  exact rt_paramsLoop ps 0 (Or.inl rfl) h.2 tail

theorem props_roundtrip (ps : Props) (h : wfProps ps = true) :
    (decProps (encProps ps)).r = .ok ps [] := rt_props ps h

/-- control messages through `Marshal` / `controlmessage.Read`, all nine kinds -/
theorem message_roundtrip (m : Msg) (h : wfMsg m = true) (tail : Bytes) :
    (readMsg (encMsg m ++ tail)).r = .ok m tail := rt_readMsg m h tail

theorem header_roundtrip (h : Header) (hw : wfHeader h = true) (tail : Bytes) :
    (readHeader (encHeader h ++ tail)).r = .ok h tail := rt_header h hw tail

theorem object_roundtrip (hp : Bool) (o : Object) (h : wfObject hp o = true) (tail : Bytes) :
    (readObject hp (encObject hp o ++ tail)).r = .ok o tail := rt_object hp o h tail

theorem subgroup_roundtrip (s : SubGroup) (h : wfSubGroup s = true) (tail : Bytes) :
    (readSubGroup (encSubGroup s ++ tail)).r = .ok s tail := rt_subGroup s h tail

/-! ### decoding arbitrary bytes: never the panic outcome -/

/-- **totality**: no decoder panics (slice/index out of range, no-progress loop), whatever the bytes
and whatever the (unchecked) parameter count passed to `Parameters.Unmarshal` -/
theorem decoders_total (b : Bytes) :
    (varint false b).r ≠ .panic ∧ (varint true b).r ≠ .panic ∧
    (decNamespace b).r ≠ .panic ∧ (∀ count, (paramsLoop count 0 b).r ≠ .panic) ∧
    (decProps b).r ≠ .panic ∧ (readMsg b).r ≠ .panic ∧
    (readHeader b).r ≠ .panic ∧ (∀ hp, (readObject hp b).r ≠ .panic) ∧
    (readSubGroup b).r ≠ .panic :=
  ⟨Total.varint _ b, Total.varint _ b, total_namespace b, fun c => total_paramsLoop c 0 b,
   total_props b, total_readMsg b, total_readHeader b, fun hp => total_readObject hp b,
   total_readSubGroup b⟩

/-! ### decoding arbitrary bytes: bounded allocation -/

theorem msgAllocLimit_val : msgAllocLimit = 8454535 := by decide
theorem subGroupAllocLimit_val : subGroupAllocLimit = 54788176 := by decide

/-- stream readers: a constant, whatever the peer sends
(one control message ≤ 8.1 MiB, one subgroup stream ≤ 52.3 MiB; the dominating terms are the
payload limit 10 MiB per object and 128 bytes of decoded structure per payload byte) -/
theorem alloc_bounded_stream (b : Bytes) :
    (readMsg b).alloc ≤ msgAllocLimit ∧ (readSubGroup b).alloc ≤ subGroupAllocLimit ∧
    (readHeader b).alloc ≤ 16 ∧ (∀ hp, (readObject hp b).alloc ≤ objAllocLimit) ∧
    (varint true b).alloc ≤ 8 :=
  ⟨allocC_readMsg b, allocC_readSubGroup b, allocC_readHeader b, fun hp => allocC_readObject hp b,
   AllocC.varint true b⟩

/-- buffer decoders: at most 128 bytes per input byte plus a constant (`make(Namespace, count)` with
`count ≤ 32`); in particular the unchecked 64-bit parameter count cannot cause allocation by itself -/
theorem alloc_bounded_buffer (b : Bytes) :
    (varint false b).alloc = 0 ∧
    (decNamespace b).alloc ≤ 128 * b.length + 16 * maxFieldCount ∧
    (∀ count, (paramsLoop count 0 b).alloc ≤ 128 * b.length) ∧
    (decProps b).alloc ≤ 128 * b.length := by
  refine ⟨varint_alloc0 b, ?_, fun c => ?_, ?_⟩
  · have := allocB_namespace.le b; simpa [maxFieldCount] using this
  · have := (allocB_paramsLoop c 0).le b; simpa using this
  · have := allocB_props.le b; simpa using this

/-- decoded values respect the limits: a decoded namespace has at most 32 fields, a decoded object at
most 10 MiB of payload -/
theorem decoded_within_limits (b : Bytes) :
    (∀ ns r, (decNamespace b).r = .ok ns r → ns.length ≤ maxFieldCount) ∧
    (∀ p r, (bytesLP maxPayloadSize .pre true b).r = .ok p r → p.length ≤ maxPayloadSize) :=
  ⟨fun ns r h => namespace_le b ns r h, fun p r h => bytesLP_le _ _ _ b p r h⟩

/-! ### tie to the source: regenerated facts (Gen/C32.lean) -/

def _root_.MtxVerif.Gen.C32.Guard.bounded : Gen.C32.Guard → Bool
  | .unguarded => false
  | _ => true

/-- every `make(` in internal/protocols/moq has a bounded size: a constant, the size of data already
in memory, a 16-bit field, or a decoded value dominated by an explicit limit check.  A new `make`
sized by an unchecked decoded value makes this `decide` fail. -/
theorem all_makes_guarded : Gen.C32.makeSites.all (fun s => s.guard.bounded) = true := by decide

/-- the makes whose size is a decoded value, with their limits, are exactly the ones the model
accounts for: namespace field count, property block, payload (+ the 16-bit frame, the varint tail) -/
theorem decoded_makes :
    (Gen.C32.makeSites.filterMap fun s => match s.guard with
      | .checked n => some n | .u16 => some 65535 | .switchLit n => some n | _ => none)
    = [maxMsgPayload, maxFieldCount, maxPropsLen, maxPayloadSize, 9] := by decide

/-- the limits and wire constants of the model are the ones in the source -/
theorem limits_match :
    Gen.C32.maxFieldCount = maxFieldCount ∧ Gen.C32.maxPropsLen = maxPropsLen ∧
    Gen.C32.maxPayloadSize = maxPayloadSize ∧
    Gen.C32.objectStatusEndOfGroup = objectStatusEndOfGroup ∧
    Gen.C32.objectStatusEndOfTrack = objectStatusEndOfTrack ∧
    Gen.C32.typeAuthorizationToken = typeAuthorizationToken ∧ Gen.C32.aliasUseValue = aliasUseValue ∧
    Gen.C32.timestampPropertyType = timestampPropertyType ∧
    [Gen.C32.typeSetup, Gen.C32.typeClientSetup, Gen.C32.typeServerSetup, Gen.C32.typeSubscribe,
     Gen.C32.typeSubscribeOk, Gen.C32.typeRequestError, Gen.C32.typePublish, Gen.C32.typePublishOk,
     Gen.C32.typeRequestOk] =
    [typeSetup, typeClientSetup, typeServerSetup, typeSubscribe, typeSubscribeOk, typeRequestError,
     typePublish, typePublishOk, typeRequestOk] ∧
    Gen.C32.setupOptionPath = setupOptionPath ∧ Gen.C32.setupOptionAuthority = setupOptionAuthority := by
  decide

/-! ### finding: the 16-bit frame length is not checked by the encoders

`Marshal()` writes `byte(payloadSize>>8), byte(payloadSize)` whatever `payloadSize` is.  The round
trip of control messages therefore needs `fitsFrame` (payload ≤ 65535), which nothing enforces for
`RequestError{Reason: err.Error()}` built in servers/moq/session.go (the error text embeds the
client-chosen path name). -/

/-- the statement without the frame-size side condition -/
def message_roundtrip_full : Prop :=
  ∀ m : Msg, wfMsgBody m = true → (readMsg (encMsg m)).r = .ok m []

/-- what holds: under the decidable side condition `fitsFrame` -/
theorem message_roundtrip_partial (m : Msg) (hb : wfMsgBody m = true) (hf : fitsFrame m = true) :
    (readMsg (encMsg m)).r = .ok m [] := by
  have := rt_readMsg m (by simp [wfMsg, hb, hf]) []
  simpa using this

/-- REQUEST_ERROR with any 65536-byte reason is emitted with frame length 5 (65541 mod 65536) and
decoded as "not enough bytes" -/
theorem overlongReqErr_decodes_short (reason : Bytes) (hl : reason.length = 65536) :
    (readMsg (encMsg (.requestError ⟨0, reason⟩))).r = .err .short := by
  have h0 : encVarint 0 = [0] := by decide
  have h2 : encVarint 65536 = [0xC1, 0, 0] := by decide
  have h5 : encVarint 5 = [5] := by decide
  have hpay : (Msg.requestError ⟨0, reason⟩).payload = [0, 0, 0xC1, 0, 0] ++ reason := by
    simp [Msg.payload, encRequestErrorP, encBytesLP, h0, hl, h2]
  have hlen : (Msg.requestError ⟨0, reason⟩).payload.length = 65541 := by rw [hpay]; simp [hl]
  have htyp : encVarint (Msg.requestError ⟨0, reason⟩).typ = [5] := h5
  have hbe : beBytes 2 65541 = [0, 5] := by decide
  unfold readMsg tagged encMsg
  rw [hlen, htyp, hbe, hpay]
  simp only [bind_eq]
  have hp : (pair (varint true) frame16 ([5] ++ [0, 5] ++ ([0, 0, 0xC1, 0, 0] ++ reason))).r
      = .ok (5, [0, 0, 0xC1, 0, 0]) reason := by
    simp only [pair, bind_eq, pure_eq]
    have hv := varint_rt true 5 (by decide) ([0, 5] ++ ([0, 0, 0xC1, 0, 0] ++ reason))
    rw [h5] at hv
    rw [List.append_assoc, bind_ok hv]
    have hf : (frame16 ([0, 5] ++ ([0, 0, 0xC1, 0, 0] ++ reason))).r = .ok [0, 0, 0xC1, 0, 0] reason := by
      have := frame16_rt [0, 0, 0xC1, 0, 0] reason (by decide)
      simpa [beBytes] using this
    rw [bind_ok hf]
    rfl
  rw [bind_ok hp]
  have hs : selMsg 5 = some (Dec.map .requestError decRequestErrorP) := by rfl
  simp only [hs, Option.map_some]
  rw [onBytes_r]
  have hin : (Dec.map Msg.requestError decRequestErrorP [0, 0, 0xC1, 0, 0]).r = .err .short := by
    decide
  rw [hin]

def overlongReqErr : Msg := .requestError ⟨0, List.replicate 65536 0x61⟩

theorem message_roundtrip_witness : ¬ message_roundtrip_full := by
  intro h
  have hl : (List.replicate 65536 (0x61 : UInt8)).length = 65536 := List.length_replicate
  have hw : wfMsgBody overlongReqErr = true := by
    simp only [overlongReqErr, wfMsgBody, wfRequestError, hl]; decide
  have := h overlongReqErr hw
  rw [overlongReqErr, overlongReqErr_decodes_short _ hl] at this
  cases this

/-! ### non-vacuity -/

example : wfMsg (.subscribe ⟨7, [asc ['l','i','v','e']], asc ['0'], [⟨3, 0, asc ['j','w','t']⟩]⟩) = true := by
  decide
example : wfSubGroup ⟨⟨true, true, 1, 2⟩, [⟨0, [1234], asc ['x']⟩]⟩ = true := by decide
example : encVarint 300 = [0x81, 0x2C] := by decide
example : (varint false [0x81, 0x2C, 0xFF]).r.restLen = 1 := by decide
/-- non-canonical encodings are accepted by the decoder (the property speaks of encode→decode only) -/
example : ∃ b, b ≠ encVarint 1 ∧ (∃ r, (varint false b).r = .ok 1 r) :=
  ⟨[0x80, 0x01], by decide, [], by decide⟩

end MtxVerif.C32
