import MtxVerif.Model.C38
namespace MtxVerif.C38
theorem placeholder : True := trivial
end MtxVerif.C38
