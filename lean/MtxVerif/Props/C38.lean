/-
C38 — the configuration watcher never loses the final file content.  Property theorems on the
timed-event automaton of `ConfWatcher.run`.
-/
import MtxVerif.Model.C38

namespace MtxVerif.C38

/-! #### helper facts -/

theorem tooEarly_lt {s : St} {now : Nat} (h : tooEarly s now = true) :
    ∃ l, s.lastCalled = some l ∧ now < l + minInterval := by
  unfold tooEarly at h
  cases hl : s.lastCalled with
  | none => simp [hl] at h
  | some l =>
    simp only [hl, decide_eq_true_eq] at h
    exact ⟨l, rfl, by omega⟩

/-- for an existing file, with `prev` equal to what the path resolved to before the event, the
loop's condition is exactly "this event reports a change" -/
theorem relevant_eq_isChange (p : Nat) (e : Ev) (h : e.cur ≠ 0) : relevant p e = isChange p e := by
  have h1 : (e.cur != 0) = true := by simp [h]
  simp only [relevant, isChange, h1, Bool.true_and]
  rw [Bool.or_comm]

theorem notify_signals (s : St) (now : Nat) : (notify s now).signals = (now + additionalWait) :: s.signals := rfl

theorem allReported_iff (ch sg : List Nat) :
    allReported ch sg = true ↔ ∀ c ∈ ch, ∃ g ∈ sg, c ≤ g := by
  simp [allReported, List.all_eq_true, List.any_eq_true]

/-! ### The loop with the trailing-edge timer: every change is reported -/

/-- Invariant: `tl` = time of the latest delivered event, `ch` = times of the changes so far. -/
structure J (s : St) (tl : Nat) (ch : List Nat) : Prop where
  /-- `previousWatchedPath` always is what the path resolved to at the latest event -/
  prevEq : s.prev = s.lastCur
  chLe : ∀ c ∈ ch, c ≤ tl
  /-- an armed timer has not yet expired -/
  pendGt : ∀ d, s.pending = some d → tl < d
  /-- every change so far has been followed by a signal, or the timer is armed, or the file is gone -/
  cov : s.lastCur = 0 ∨ s.pending.isSome = true ∨ ∀ c ∈ ch, ∃ g ∈ s.signals, c ≤ g

theorem J_init (c0 : Nat) : J (initSt c0) 0 [] :=
  ⟨rfl, by simp, by simp [initSt], Or.inr (Or.inr (by simp))⟩

theorem preFire_lastCur (s : St) (t : Nat) : (preFire s t).lastCur = s.lastCur := by
  unfold preFire
  split
  · split
    · unfold fire; split <;> rfl
    · rfl
  · rfl

/-- the timer arm: afterwards no armed timer is due at `t`, and coverage is kept -/
theorem J_preFire (s : St) (tl : Nat) (ch : List Nat) (t : Nat) (h : J s tl ch) (ht : tl ≤ t) :
    J (preFire s t) tl ch ∧ ∀ d, (preFire s t).pending = some d → t < d := by
  unfold preFire
  cases hp : s.pending with
  | none => exact ⟨h, by simp [hp]⟩
  | some d =>
    simp only
    by_cases hd : d ≤ t
    · simp only [hd, if_true]
      have htd := h.pendGt d hp
      unfold fire
      by_cases h0 : s.lastCur = 0
      · simp only [h0, if_true]
        exact ⟨⟨by simp [h0], h.chLe, by simp, Or.inl (by simp [h0])⟩, by simp⟩
      · simp only [h0, if_false]
        refine ⟨⟨rfl, h.chLe, by simp [notify], Or.inr (Or.inr ?_)⟩, by simp [notify]⟩
        intro c hc
        refine ⟨max d s.free + additionalWait, by simp [notify], ?_⟩
        have := h.chLe c hc
        have : d ≤ max d s.free := Nat.le_max_left _ _
        omega
    · simp only [hd, if_false]
      exact ⟨h, fun d' hd' => by rw [hp] at hd'; cases hd'; omega⟩

/-- the event arm -/
theorem J_handleFix (s : St) (tl : Nat) (ch : List Nat) (e : Ev) (h : J s tl ch) (ht : tl ≤ e.t)
    (hp : ∀ d, s.pending = some d → e.t < d) :
    J (handleFix s e) e.t (if isChange s.lastCur e then ch ++ [e.t] else ch) ∧
    (handleFix s e).lastCur = e.cur := by
  have hch' : ∀ c ∈ (if isChange s.lastCur e then ch ++ [e.t] else ch), c ≤ e.t := by
    intro c hc
    split at hc
    · rcases List.mem_append.mp hc with hc | hc
      · have := h.chLe c hc; omega
      · simp at hc; omega
    · have := h.chLe c hc; omega
  unfold handleFix
  by_cases h0 : e.cur = 0
  · simp only [h0, if_true]
    exact ⟨⟨rfl, by simpa [h0] using hch', hp, Or.inl rfl⟩, by simp⟩
  · simp only [h0, if_false]
    by_cases hr : relevant s.prev e = true
    · simp only [hr, if_true]
      by_cases he : tooEarly s (max e.t s.free) = true
      · simp only [he, if_true]
        obtain ⟨l, hl, hlt⟩ := tooEarly_lt he
        refine ⟨⟨rfl, hch', ?_, Or.inr (Or.inl ?_)⟩, by simp⟩
        · intro d hd
          cases hpd : s.pending with
          | some d' =>
            simp only [hpd] at hd
            have hdd : d' = d := by simpa using hd
            subst hdd
            exact hp _ hpd
          | none =>
            simp only [hpd, hl, Option.map_some] at hd
            cases hd
            have : e.t ≤ max e.t s.free := Nat.le_max_left _ _
            omega
        · cases hpd : s.pending with
          | some d' => simp
          | none => simp [hl]
      · simp only [he, Bool.false_eq_true, if_false]
        refine ⟨⟨rfl, hch', by simp [notify], Or.inr (Or.inr ?_)⟩, by simp [notify]⟩
        intro c hc
        refine ⟨max e.t s.free + additionalWait, by simp [notify], ?_⟩
        have := hch' c hc
        have : e.t ≤ max e.t s.free := Nat.le_max_left _ _
        omega
    · simp only [hr, Bool.false_eq_true, if_false]
      -- not relevant: the path still resolves to `prev`, and the event is no change
      have hprev : e.cur = s.prev := by
        simp only [relevant, Bool.or_eq_true, bne_iff_ne, ne_eq, not_or] at hr
        exact Decidable.not_not.mp hr.1
      have hnc : isChange s.lastCur e = false := by
        rw [← h.prevEq, ← relevant_eq_isChange s.prev e h0]
        simpa using hr
      rw [hnc] at hch' ⊢
      refine ⟨⟨by simpa using hprev.symm, hch', hp, ?_⟩, by simp⟩
      rcases h.cov with hc | hc | hc
      · exact absurd (by rw [hprev, h.prevEq, hc]) h0
      · exact Or.inr (Or.inl hc)
      · exact Or.inr (Or.inr hc)

theorem J_stepFix (s : St) (tl : Nat) (ch : List Nat) (e : Ev) (h : J s tl ch) (ht : tl ≤ e.t) :
    J (stepFix s e) e.t (if isChange s.lastCur e then ch ++ [e.t] else ch) ∧ (stepFix s e).lastCur = e.cur := by
  obtain ⟨h1, h2⟩ := J_preFire s tl ch e.t h ht
  have := J_handleFix (preFire s e.t) tl ch e h1 ht h2
  rw [preFire_lastCur] at this
  exact this

theorem J_fold (evs : List Ev) : ∀ (s : St) (tl : Nat) (ch : List Nat), J s tl ch → sortedFrom tl evs = true →
    ∃ tl', J (evs.foldl stepFix s) tl' (ch ++ changeTimes s.lastCur evs) ∧
      (evs.foldl stepFix s).lastCur = finalCur s.lastCur evs := by
  induction evs with
  | nil => intro s tl ch h _; exact ⟨tl, by simpa [changeTimes] using h, rfl⟩
  | cons e es ih =>
    intro s tl ch h hs
    simp only [sortedFrom, Bool.and_eq_true, decide_eq_true_eq] at hs
    obtain ⟨h1, h2⟩ := J_stepFix s tl ch e h hs.1
    obtain ⟨tl', h3, h4⟩ := ih (stepFix s e) e.t _ h1 hs.2
    refine ⟨tl', ?_, ?_⟩
    · simp only [List.foldl_cons, changeTimes]
      rw [h2] at h3
      split
      · rename_i hc; simp only [hc, if_true] at h3; simpa [List.append_assoc] using h3
      · rename_i hc; simp only [hc, Bool.false_eq_true, if_false] at h3; exact h3
    · simp only [List.foldl_cons, finalCur]
      rw [h4, h2]

/-- **The property at full strength, for the loop with the trailing-edge timer.**  For every initial
state of the path and every time-ordered history of delivered events — any timing of writes, deletions,
re-creations, renames and symlink swaps — if the file exists at the end, every change is followed by a
signal: the consumer's last load happens after the last change. -/
theorem fix_reports_every_change (c0 : Nat) (evs : List Ev) (hs : sortedFrom 0 evs = true)
    (hfin : finalCur c0 evs ≠ 0) :
    allReported (changeTimes c0 evs) (runFix (initSt c0) evs).signals = true := by
  obtain ⟨tl, hJ, hcur⟩ := J_fold evs (initSt c0) 0 [] (J_init c0) hs
  simp only [List.nil_append] at hJ
  have hc0 : (initSt c0).lastCur = c0 := rfl
  rw [hc0] at hJ hcur
  rw [allReported_iff]
  unfold runFix finish
  cases hp : (evs.foldl stepFix (initSt c0)).pending with
  | none =>
    simp only
    rcases hJ.cov with h | h | h
    · rw [hcur] at h; exact absurd h hfin
    · simp [hp] at h
    · exact h
  | some d =>
    simp only
    have htd := hJ.pendGt d hp
    unfold fire
    have h0 : (evs.foldl stepFix (initSt c0)).lastCur ≠ 0 := by rw [hcur]; exact hfin
    simp only [h0, if_false]
    intro c hc
    refine ⟨max d (evs.foldl stepFix (initSt c0)).free + additionalWait, by simp [notify], ?_⟩
    have := hJ.chLe c hc
    have : d ≤ max d (evs.foldl stepFix (initSt c0)).free := Nat.le_max_left _ _
    omega

/-! ### Watcher errors (overflow of the kernel queue) -/

theorem closed_stays (l : List Inp) : ∀ x : StX, x.closed.isSome = true → (l.foldl stepX x).closed.isSome = true := by
  induction l with
  | nil => intro x h; exact h
  | cons i r ih =>
    intro x h
    apply ih
    cases i <;> simp [stepX, h]

/-- any watcher error closes the signal channel: the consumer is woken -/
theorem err_wakes_consumer (l : List Inp) : ∀ x : StX, hasErr l = true → (l.foldl stepX x).closed.isSome = true := by
  induction l with
  | nil => intro x h; simp [hasErr] at h
  | cons i r ih =>
    intro x h
    cases i with
    | ev e => exact ih _ (by simpa [hasErr] using h)
    | err t =>
      show (r.foldl stepX (stepX x (.err t))).closed.isSome = true
      apply closed_stays r
      by_cases hc : x.closed.isSome = true
      · simp [stepX, hc]
      · have : x.closed.isSome = false := by simpa using hc
        simp [stepX, this]

/-- without errors the loop is the one of `stepFix` -/
theorem noerr_runX (l : List Inp) : ∀ s : St, hasErr l = false →
    l.foldl stepX { s := s } = { s := (evsOf l).foldl stepFix s } := by
  induction l with
  | nil => intro s _; rfl
  | cons i r ih =>
    intro s h
    cases i with
    | ev e =>
      simp only [hasErr] at h
      simp only [List.foldl_cons, stepX, evsOf, Option.isSome_none, Bool.false_eq_true, if_false]
      exact ih _ h
    | err t => simp [hasErr] at h

/-- **With watcher errors in the alphabet:** for every time-ordered history of delivered events and
errors, either the signal channel has been closed (the consumer is woken for good and loads the file),
or every change has been followed by a signal. -/
theorem fix_reports_or_wakes (c0 : Nat) (l : List Inp) (hs : sortedFrom 0 (evsOf l) = true)
    (hfin : finalCur c0 (evsOf l) ≠ 0) :
    (runX c0 l).closed.isSome = true ∨
    allReported (changeTimes c0 (evsOf l)) (finish (runX c0 l).s).signals = true := by
  cases he : hasErr l with
  | true => exact Or.inl (err_wakes_consumer l _ he)
  | false =>
    right
    unfold runX
    rw [noerr_runX l (initSt c0) he]
    exact fix_reports_every_change c0 (evsOf l) hs hfin

/-! ### The loop as found: full statement, witness, partial theorem -/

/-- The property as stated, for the loop as found. -/
def cur_full : Prop :=
  ∀ (c0 : Nat) (evs : List Ev), sortedFrom 0 evs = true → finalCur c0 evs ≠ 0 →
    allReported (changeTimes c0 evs) (runCur (initSt c0) evs).signals = true

/-- witness: writes at 0 ms and 500 ms — the second one is discarded and never reported -/
theorem cur_witness : ¬ cur_full := by
  intro h
  have := h 1 [⟨0, 1, true, true⟩, ⟨500, 1, true, true⟩] (by decide) (by decide)
  revert this
  decide

/-- Invariant of the loop as found while no event is discarded. -/
structure K (s : St) (tl : Nat) (ch : List Nat) : Prop where
  prevEq : s.prev = s.lastCur
  chLe : ∀ c ∈ ch, c ≤ tl
  freeLe : s.free ≤ tl + additionalWait
  lastLe : ∀ l, s.lastCalled = some l → l ≤ tl + additionalWait
  cov : s.lastCur = 0 ∨ ∀ c ∈ ch, ∃ g ∈ s.signals, c ≤ g

theorem K_stepCur (s : St) (tl : Nat) (ch : List Nat) (e : Ev) (h : K s tl ch)
    (ht : s.lastCalled = none ∧ s.free ≤ e.t ∧ tl ≤ e.t ∨ tl + minInterval + additionalWait ≤ e.t) :
    K (stepCur s e) e.t (if isChange s.lastCur e then ch ++ [e.t] else ch) ∧ (stepCur s e).lastCur = e.cur := by
  have hfree : s.free ≤ e.t := by
    rcases ht with ht | ht
    · exact ht.2.1
    · have := h.freeLe; simp only [minInterval, additionalWait] at *; omega
  have htl : tl ≤ e.t := by
    rcases ht with ht | ht
    · exact ht.2.2
    · omega
  have hnow : max e.t s.free = e.t := Nat.max_eq_left hfree
  have hne : tooEarly s e.t = false := by
    unfold tooEarly
    cases hl : s.lastCalled with
    | none => rfl
    | some l =>
      rcases ht with ht | ht
      · rw [hl] at ht; cases ht.1
      · have hll := h.lastLe l hl
        have hge : ¬ (e.t - l < minInterval) := by
          simp only [minInterval, additionalWait] at hll ht ⊢; omega
        simp [hge]
  have hch' : ∀ c ∈ (if isChange s.lastCur e then ch ++ [e.t] else ch), c ≤ e.t := by
    intro c hc
    split at hc
    · rcases List.mem_append.mp hc with hc | hc
      · have := h.chLe c hc; omega
      · simp at hc; omega
    · have := h.chLe c hc; omega
  unfold stepCur
  simp only [hnow, hne, Bool.false_eq_true, if_false]
  by_cases h0 : e.cur = 0
  · simp only [h0, if_true]
    refine ⟨⟨rfl, by simpa [h0] using hch', by simp only; omega, ?_, Or.inl rfl⟩, by simp⟩
    intro l hl
    rcases ht with ht | ht
    · simp only at hl; rw [ht.1] at hl; cases hl
    · have := h.lastLe l hl; omega
  · simp only [h0, if_false]
    by_cases hr : relevant s.prev e = true
    · simp only [hr, if_true]
      refine ⟨⟨rfl, hch', by simp [notify], by simp [notify], Or.inr ?_⟩, by simp [notify]⟩
      intro c hc
      refine ⟨e.t + additionalWait, by simp [notify], ?_⟩
      have := hch' c hc
      omega
    · simp only [hr, Bool.false_eq_true, if_false]
      have hprev : e.cur = s.prev := by
        simp only [relevant, Bool.or_eq_true, bne_iff_ne, ne_eq, not_or] at hr
        exact Decidable.not_not.mp hr.1
      have hnc : isChange s.lastCur e = false := by
        rw [← h.prevEq, ← relevant_eq_isChange s.prev e h0]
        simpa using hr
      rw [hnc] at hch' ⊢
      refine ⟨⟨by simpa using hprev.symm, hch', by simp only; omega, ?_, ?_⟩, by simp⟩
      · intro l hl
        rcases ht with ht | ht
        · simp only at hl; rw [ht.1] at hl; cases hl
        · have := h.lastLe l hl; omega
      · rcases h.cov with hc | hc
        · exact absurd (by rw [hprev, h.prevEq, hc]) h0
        · exact Or.inr hc

theorem K_fold (evs : List Ev) : ∀ (s : St) (tl : Nat) (ch : List Nat) (prevT : Option Nat), K s tl ch →
    (match prevT with
      | none => s.lastCalled = none ∧ s.free = 0 ∧ tl = 0
      | some t => t = tl) →
    spacedFrom prevT evs = true →
    ∃ tl', K (evs.foldl stepCur s) tl' (ch ++ changeTimes s.lastCur evs) ∧
      (evs.foldl stepCur s).lastCur = finalCur s.lastCur evs := by
  induction evs with
  | nil => intro s tl ch _ h _ _; exact ⟨tl, by simpa [changeTimes] using h, rfl⟩
  | cons e es ih =>
    intro s tl ch prevT h hpt hs
    have hcond : s.lastCalled = none ∧ s.free ≤ e.t ∧ tl ≤ e.t ∨ tl + minInterval + additionalWait ≤ e.t := by
      cases prevT with
      | none => simp only at hpt; exact Or.inl ⟨hpt.1, by omega, by omega⟩
      | some t =>
        simp only at hpt
        simp only [spacedFrom, Bool.and_eq_true, decide_eq_true_eq] at hs
        exact Or.inr (by omega)
    have hrest : spacedFrom (some e.t) es = true := by
      cases prevT with
      | none => simpa [spacedFrom] using hs
      | some t => simp only [spacedFrom, Bool.and_eq_true] at hs; exact hs.2
    obtain ⟨h1, h2⟩ := K_stepCur s tl ch e h hcond
    obtain ⟨tl', h3, h4⟩ := ih (stepCur s e) e.t _ (some e.t) h1 rfl hrest
    refine ⟨tl', ?_, ?_⟩
    · simp only [List.foldl_cons, changeTimes]
      rw [h2] at h3
      split
      · rename_i hc; simp only [hc, if_true] at h3; simpa [List.append_assoc] using h3
      · rename_i hc; simp only [hc, Bool.false_eq_true, if_false] at h3; exact h3
    · simp only [List.foldl_cons, finalCur]
      rw [h4, h2]

/-- The loop as found reports every change when consecutive events are more than
`minInterval + additionalWait` (1010 ms) apart — exactly the regime `TestWriteMultipleTimes`-style
tests exercise. -/
theorem cur_partial (c0 : Nat) (evs : List Ev) (hs : spacedFrom none evs = true) (hfin : finalCur c0 evs ≠ 0) :
    allReported (changeTimes c0 evs) (runCur (initSt c0) evs).signals = true := by
  have hK : K (initSt c0) 0 [] := ⟨rfl, by simp, by simp [initSt], by simp [initSt], Or.inr (by simp)⟩
  obtain ⟨tl, hJ, hcur⟩ := K_fold evs (initSt c0) 0 [] none hK ⟨rfl, rfl, rfl⟩ hs
  simp only [List.nil_append] at hJ
  have hc0 : (initSt c0).lastCur = c0 := rfl
  rw [hc0] at hJ hcur
  rw [allReported_iff]
  unfold runCur
  rcases hJ.cov with h | h
  · rw [hcur] at h; exact absurd h hfin
  · exact h

/-- A discarded path switch (symlink swap inside the window) is recovered by the next event that is
handled, because `previousWatchedPath` is stale — a discarded *write* is not. -/
theorem cur_recovers_switch :
    allReported (changeTimes 1 [⟨0, 1, true, true⟩, ⟨500, 2, false, true⟩, ⟨1600, 2, false, false⟩])
      (runCur (initSt 1) [⟨0, 1, true, true⟩, ⟨500, 2, false, true⟩, ⟨1600, 2, false, false⟩]).signals = true ∧
    allReported (changeTimes 1 [⟨0, 1, true, true⟩, ⟨500, 1, true, true⟩, ⟨1600, 1, false, false⟩])
      (runCur (initSt 1) [⟨0, 1, true, true⟩, ⟨500, 1, true, true⟩, ⟨1600, 1, false, false⟩]).signals = false := by
  decide

/-! ### Non-vacuity -/

/-- the fixed loop on the witness history: signals at 10 ms and at 1020 ms -/
example : (runFix (initSt 1) [⟨0, 1, true, true⟩, ⟨500, 1, true, true⟩]).signals = [1020, 10] := by decide

/-- delete, then re-create inside the window: reported by the timer -/
example : (runFix (initSt 1) [⟨0, 1, true, true⟩, ⟨300, 0, false, false⟩, ⟨600, 1, true, true⟩]).signals = [1020, 10] ∧
    sortedFrom 0 [⟨0, 1, true, true⟩, ⟨300, 0, false, false⟩, ⟨600, 1, true, true⟩] = true ∧
    finalCur 1 [⟨0, 1, true, true⟩, ⟨300, 0, false, false⟩, ⟨600, 1, true, true⟩] ≠ 0 := by decide

example : spacedFrom none [⟨0, 1, true, true⟩, ⟨1010, 1, true, true⟩, ⟨2500, 0, false, false⟩, ⟨4000, 1, true, true⟩] = true := by
  decide

end MtxVerif.C38
