/-
C40 — "Concurrent publishing, reading, API queries, metrics scrapes, configuration reloads, kicks and
shutdown never cause a data race, and every operation (including shutdown) completes."

PARTIAL BY DESIGN.  What is proved here: deadlock freedom of the channel protocol between Core.run,
pathManager.run, path.run and their clients, on a wait-for model whose table of blocking operations is
regenerated from the source (`Gen/C40.lean`) and whose structural side conditions ("every request has
the callee's Done arm", "every upward request has both Done arms", "every reply channel is read by the
requester", "every join by a loop follows the cancellation of the joined context", the level
condition) are `decide`d on that table.  What is NOT proved: data-race freedom (no model of the Go
memory model; searched with `go test -race` in the thorough tier only), and that real executions
satisfy the model's invariant `Inv` beyond the extracted facts (in particular that every handler sends
exactly one reply, and that calls into other packages return).
-/
import MtxVerif.Model.C40
import MtxVerif.Gen.C40

namespace MtxVerif.C40

/-- What a configuration of the running system satisfies, relative to the wait table `T`. -/
structure Inv (T : List WaitRow) (σ : Config) : Prop where
  /-- a blocked goroutine is in one of the waits the table lists for its class, on a peer of the
  listed class -/
  conf : ∀ a w b, σ.status a = .blocked w b → w ∈ T ∧ w.cls = σ.cls a ∧ w.peer = σ.cls b
  /-- a join marked "after cancel" really comes after the cancellation of the joined context -/
  joinCancelled : ∀ a w b, σ.status a = .blocked w b → w.kind = .join → w.afterCancel = true →
    σ.cancelled b = true
  /-- a reply is sent to a requester that is reading the reply channel -/
  replyRead : ∀ a w b, σ.status a = .blocked w b → w.kind = .reply → (σ.status b).isAwaiting a = true
  /-- a goroutine awaits a reply only from a loop that accepted its request and is handling it -/
  served : ∀ a w b, σ.status a = .blocked w b → w.kind = .awaitReply →
    σ.status b ≠ .idle ∧ σ.status b ≠ .exited
  /-- a loop cancels its own context when it exits -/
  exitCancelled : ∀ b, σ.status b = .exited → σ.cancelled b = true
  /-- only loops sit in a main select -/
  idleIsServer : ∀ b, σ.status b = .idle → isServer (σ.cls b) = true

theorem stuck_iff {σ : Config} {a : Nat} :
    stuck σ a = true ↔ ∃ w b, σ.status a = .blocked w b ∧ enabled σ a w b = false := by
  unfold stuck
  cases h : σ.status a with
  | blocked w b =>
    simp only [Bool.not_eq_true', Status.blocked.injEq]
    constructor
    · intro he; exact ⟨w, b, ⟨rfl, rfl⟩, he⟩
    · rintro ⟨w', b', ⟨rfl, rfl⟩, he⟩; exact he
  | idle => simp
  | running => simp
  | exited => simp

/-- a reply is never stuck -/
theorem reply_not_stuck {T : List WaitRow} {σ : Config} (hI : Inv T σ) {a b : Nat} {w : WaitRow}
    (hs : σ.status a = .blocked w b) (hk : w.kind = .reply) : enabled σ a w b = true := by
  unfold enabled; rw [hk]; exact hI.replyRead a w b hs hk

/-- **the level argument**: if `a` is stuck waiting for `b` and `b` is stuck too, the level drops -/
theorem edge_decreases {T : List WaitRow} {σ : Config} (hI : Inv T σ) (hL : levelsOK T = true)
    {a b : Nat} (hab : waitsFor σ a b) (hb : stuck σ b = true) : lvl σ b < lvl σ a := by
  obtain ⟨w1, hs1, he1⟩ := hab
  obtain ⟨w2, c, hs2, he2⟩ := stuck_iff.mp hb
  obtain ⟨hm1, _, hp1⟩ := hI.conf a w1 b hs1
  obtain ⟨hm2, hc2, _⟩ := hI.conf b w2 c hs2
  have hl := List.all_eq_true.mp (List.all_eq_true.mp hL w1 hm1) w2 hm2
  simp only [Bool.or_eq_true, bne_iff_ne, ne_eq, beq_iff_eq, Bool.and_eq_true,
    decide_eq_true_eq] at hl
  simp only [lvl, hs1, hs2]
  rcases hl with (((h | h) | h) | h) | h
  · exact absurd (hp1.trans hc2.symm) h
  · rw [reply_not_stuck hI hs1 h] at he1; cases he1
  · rw [reply_not_stuck hI hs2 h] at he2; cases he2
  · -- a joins b after cancelling it, b is in a call with its own Done arm: b is not stuck
    obtain ⟨⟨⟨hj, hac⟩, hcall⟩, hds⟩ := h
    have hcb : σ.cancelled b = true := hI.joinCancelled a w1 b hs1 hj hac
    have : enabled σ b w2 c = true := by
      unfold enabled; rw [hcall]; simp [hds, hcb]
    rw [this] at he2; cases he2
  · exact h

/-- chains of stuck goroutines -/
def stuckEdge (σ : Config) (a b : Nat) : Prop := waitsFor σ a b ∧ stuck σ b = true

/-- **no_wait_cycle**: the wait-for graph restricted to stuck goroutines has no cycle -/
theorem no_wait_cycle {T : List WaitRow} {σ : Config} (hI : Inv T σ) (hL : levelsOK T = true)
    (a : Nat) : ¬ Relation.TransGen (stuckEdge σ) a a := by
  have mono : ∀ x y, Relation.TransGen (stuckEdge σ) x y → lvl σ y < lvl σ x := by
    intro x y h
    induction h with
    | single h => exact edge_decreases hI hL h.1 h.2
    | tail _ h ih => exact Nat.lt_trans (edge_decreases hI hL h.1 h.2) ih
  intro h
  exact Nat.lt_irrefl _ (mono a a h)

/-- reachability along wait-for edges -/
inductive Reach (σ : Config) : Nat → Nat → Prop
  | refl (a : Nat) : Reach σ a a
  | step {a b c : Nat} : waitsFor σ a b → Reach σ b c → Reach σ a c

/-- **no deadlock**: from every stuck goroutine the wait-for chain reaches, in at most `lvl` steps, a
goroutine that is not stuck (it is idle in its main select, running, exited, or blocked in a wait that
can complete).  So no set of goroutines waits only on itself. -/
theorem stuck_chain_ends {T : List WaitRow} {σ : Config} (hI : Inv T σ) (hL : levelsOK T = true) :
    ∀ (n a : Nat), lvl σ a ≤ n → stuck σ a = true →
      ∃ x b, Reach σ a x ∧ waitsFor σ x b ∧ stuck σ b = false := by
  intro n
  induction n with
  | zero =>
    intro a hn hs
    obtain ⟨w, b, hsa, he⟩ := stuck_iff.mp hs
    cases hb : stuck σ b with
    | false => exact ⟨a, b, Reach.refl a, ⟨w, hsa, he⟩, hb⟩
    | true =>
      have := edge_decreases hI hL ⟨w, hsa, he⟩ hb
      omega
  | succ n ih =>
    intro a hn hs
    obtain ⟨w, b, hsa, he⟩ := stuck_iff.mp hs
    cases hb : stuck σ b with
    | false => exact ⟨a, b, Reach.refl a, ⟨w, hsa, he⟩, hb⟩
    | true =>
      have hlt := edge_decreases hI hL ⟨w, hsa, he⟩ hb
      obtain ⟨x, c, hr, hw, hc⟩ := ih b (by omega) hb
      exact ⟨x, c, Reach.step ⟨w, hsa, he⟩ hr, hw, hc⟩

/-! ### shutdown -/

/-- every call has the callee's Done arm; calls and joins target loops -/
def shutdownOK (T : List WaitRow) : Bool :=
  T.all fun r =>
    (r.kind != .call || (r.doneTo && isServer r.peer)) &&
    (r.kind != .join || isServer r.peer)

/-- all loop contexts are cancelled -/
def AllCancelled (σ : Config) : Prop := ∀ b, isServer (σ.cls b) = true → σ.cancelled b = true

/-- during shutdown, a goroutine that someone is stuck on — and that is not stuck itself — can move -/
theorem shutdown_peer_moves {T : List WaitRow} {σ : Config} (hI : Inv T σ)
    (hS : shutdownOK T = true) (hC : AllCancelled σ) {x b : Nat}
    (hw : waitsFor σ x b) (hb : stuck σ b = false) : canMove σ b = true := by
  obtain ⟨w, hs, he⟩ := hw
  obtain ⟨hm, _, hp⟩ := hI.conf x w b hs
  have hrow := List.all_eq_true.mp hS w hm
  simp only [Bool.and_eq_true, Bool.or_eq_true, bne_iff_ne, ne_eq] at hrow
  -- what b is doing
  unfold canMove
  unfold stuck at hb
  cases hsb : σ.status b with
  | running => rfl
  | blocked w' c => simpa [hsb] using hb
  | idle =>
    exact hC b (hI.idleIsServer b hsb)
  | exited =>
    -- x is stuck on an exited goroutine: impossible for every kind of wait
    exfalso
    have hcb : σ.cancelled b = true := hI.exitCancelled b hsb
    cases hk : w.kind with
    | call =>
      rcases hrow.1 with h | h
      · exact h hk
      · unfold enabled at he; rw [hk] at he; simp [h.1, hcb] at he
    | awaitReply => exact (hI.served x w b hs hk).2 hsb
    | reply => rw [reply_not_stuck hI hs hk] at he; cases he
    | join => unfold enabled at he; rw [hk] at he; simp [hsb] at he

/-- during shutdown no call is stuck at all -/
theorem shutdown_calls_complete {T : List WaitRow} {σ : Config} (hI : Inv T σ)
    (hS : shutdownOK T = true) (hC : AllCancelled σ) {a b : Nat} {w : WaitRow}
    (hs : σ.status a = .blocked w b) (hk : w.kind = .call) : enabled σ a w b = true := by
  obtain ⟨hm, _, hp⟩ := hI.conf a w b hs
  have hrow := List.all_eq_true.mp hS w hm
  simp only [Bool.and_eq_true, Bool.or_eq_true, bne_iff_ne, ne_eq] at hrow
  rcases hrow.1 with h | h
  · exact absurd hk h
  · have : σ.cancelled b = true := hC b (hp ▸ h.2)
    unfold enabled; rw [hk]; simp [h.1, this]

/-- **shutdown cannot get stuck**: once every loop context is cancelled, if no goroutine can move then
every goroutine has exited -/
theorem shutdown_quiescent_exited {T : List WaitRow} {σ : Config} (hI : Inv T σ)
    (hL : levelsOK T = true) (hS : shutdownOK T = true) (hC : AllCancelled σ)
    (hq : ∀ b, canMove σ b = false) : ∀ a, σ.status a = .exited := by
  intro a
  have ha := hq a
  unfold canMove at ha
  cases hsa : σ.status a with
  | exited => rfl
  | running => simp [hsa] at ha
  | idle =>
    rw [hsa] at ha
    have := hC a (hI.idleIsServer a hsa)
    rw [this] at ha; cases ha
  | blocked w b =>
    rw [hsa] at ha
    have hst : stuck σ a = true := by unfold stuck; simp [hsa, ha]
    obtain ⟨x, c, _, hw, hc⟩ := stuck_chain_ends hI hL (lvl σ a) a (Nat.le_refl _) hst
    have := shutdown_peer_moves hI hS hC hw hc
    rw [hq c] at this; cases this

/-- An abstract shutdown run: steps preserve the invariant and the cancellation, every step consumes
fuel (each goroutine has finitely many operations left before it exits), and a goroutine that can
move gives rise to a step (the scheduler runs it). -/
structure ShutdownSys (T : List WaitRow) where
  step : Config → Config → Prop
  fuel : Config → Nat
  dec : ∀ σ τ, step σ τ → fuel τ < fuel σ
  presInv : ∀ σ τ, Inv T σ → step σ τ → Inv T τ
  presCancel : ∀ σ τ, AllCancelled σ → step σ τ → AllCancelled τ
  live : ∀ σ b, Inv T σ → canMove σ b = true → ∃ τ, step σ τ

/-- finitely many steps -/
inductive Steps {T : List WaitRow} (S : ShutdownSys T) : Config → Config → Prop
  | refl (σ : Config) : Steps S σ σ
  | head {σ τ υ : Config} : S.step σ τ → Steps S τ υ → Steps S σ υ

/-- **shutdown_terminates**: every such run reaches, in finitely many steps, a configuration in which
every goroutine has exited -/
theorem shutdown_terminates {T : List WaitRow} (S : ShutdownSys T)
    (hL : levelsOK T = true) (hS : shutdownOK T = true) :
    ∀ (n : Nat) (σ : Config), S.fuel σ ≤ n → Inv T σ → AllCancelled σ →
      ∃ τ, Steps S σ τ ∧ ∀ a, τ.status a = .exited := by
  intro n
  induction n with
  | zero =>
    intro σ hf hI hC
    refine ⟨σ, .refl σ, shutdown_quiescent_exited hI hL hS hC ?_⟩
    intro b
    cases h : canMove σ b with
    | false => rfl
    | true =>
      obtain ⟨τ, hst⟩ := S.live σ b hI h
      have := S.dec σ τ hst
      omega
  | succ n ih =>
    intro σ hf hI hC
    by_cases hq : ∀ b, canMove σ b = false
    · exact ⟨σ, .refl σ, shutdown_quiescent_exited hI hL hS hC hq⟩
    · have : ∃ b, canMove σ b = true := by
        apply Classical.byContradiction
        intro hne
        apply hq
        intro b
        cases h : canMove σ b with
        | false => rfl
        | true => exact absurd ⟨b, h⟩ hne
      obtain ⟨b, hb⟩ := this
      obtain ⟨τ, hst⟩ := S.live σ b hI hb
      have hd := S.dec σ τ hst
      obtain ⟨υ, hr, he⟩ := ih τ (by omega) (S.presInv σ τ hI hst) (S.presCancel σ τ hC hst)
      exact ⟨υ, .head hst hr, he⟩

/-! ## the real table (regenerated from the three files on every run) -/

open MtxVerif.Gen.C40

/-- the wait table of the real code -/
def T : List WaitRow := waitRows ops

theorem real_all_classified : allClassified ops = true := by decide
/-- every request has the callee's Done arm -/
theorem real_requests_have_callee_done : requestsHaveCalleeDone ops = true := by decide
/-- every upward request (path → pathManager) has both Done arms -/
theorem real_upward_have_own_done : upwardHaveOwnDone ops = true := by decide
/-- every reply channel is read by the requester -/
theorem real_replies_are_read : repliesAreRead ops = true := by decide
theorem real_upward_no_reply : upwardNoReply ops = true := by decide
/-- doClosePath: pa.close(); pa.wait() — pathManager.close: ctxCancel(); wg.Wait() -/
theorem real_loop_joins_after_cancel : loopJoinsAfterCancel ops = true := by decide
theorem real_main_selects_have_done : mainSelectsHaveDone ops = true := by decide
theorem real_exit_cancels :
    exitCancelsCore = true ∧ exitCancelsPM = true ∧ exitCancelsPath = true ∧
    wgCountsPM = true ∧ wgCountsPath = true := by decide
/-- every return after a Lock without defer is preceded by the Unlock (core and hls server/muxer files);
`muxer.initialize` hands its mutex to `muxer.runInner`, which releases it on every exit -/
theorem real_unlock_on_all_paths : unlockOnAllPaths lockFns = true := by decide
/-- Finding class `hlsMuxerLockCycle`: every lock-cycle hazard of the generated table is the HLS server
loop taking `muxer.mutex` (in its API handlers) while a muxer function holds that mutex across a request
to the path manager or a path. -/
theorem real_lock_hazards_known :
    (lockCycleHazards lockFns loopLockCalls).all
      (fun h => h.1 == LP_hls_Server_run &&
        (lockFns.any fun l => l.fn == h.2.1 && l.lockObj == LO_hls_muxer_mutex)) = true := by decide
/-- **no recursive lock**: no function calls, while it holds a mutex, a function of its package that
(transitively, through calls resolved with syntactic type hints) takes the same mutex object again — a
recursive `RLock` deadlocks as soon as a writer arrives in between.  The one listed pair is not the same
instance: `session.initialize` holds ITS `initMutex` while `muxer.addSession` may close ANOTHER session
(the CDN session being replaced), which takes that other session's `initMutex`. -/
theorem real_no_recursive_lock :
    recursiveLocks.all (· == (LF_hls_session_initialize, MU_hls_session_initMutex)) = true := by decide
theorem real_levels_ok : levelsOK T = true := by decide
theorem real_shutdown_ok : shutdownOK T = true := by decide

/-- **C40 (deadlock half) on the real table**: no cycle of stuck goroutines -/
theorem c40_no_wait_cycle {σ : Config} (hI : Inv T σ) (a : Nat) :
    ¬ Relation.TransGen (stuckEdge σ) a a :=
  no_wait_cycle hI real_levels_ok a

theorem c40_stuck_chain_ends {σ : Config} (hI : Inv T σ) (a : Nat) (hs : stuck σ a = true) :
    ∃ x b, Reach σ a x ∧ waitsFor σ x b ∧ stuck σ b = false :=
  stuck_chain_ends hI real_levels_ok (lvl σ a) a (Nat.le_refl _) hs

theorem c40_shutdown_terminates (S : ShutdownSys T) (σ : Config) (hI : Inv T σ)
    (hC : AllCancelled σ) :
    ∃ τ, Steps S σ τ ∧ ∀ a, τ.status a = .exited :=
  shutdown_terminates S real_levels_ok real_shutdown_ok (S.fuel σ) σ (Nat.le_refl _) hI hC

/-! ## the HLS server: a genuine wait cycle outside the three core files

`pathManager.run` → `hls.Server.PathReady` (request to the HLS loop, only the HLS Done arm) →
the HLS loop answering an API/metrics query → `muxer.apiItem` / `apiSessionsList` / … (`muxer.mutex.RLock`,
the mutex `muxer.initialize` locked and `muxer.runInner` still holds) → `muxer.runInner` →
`pathManager.AddReader` (request to `pathManager.run`).  Found by the stress harness on the unmodified
code; the lock half is the regenerated fact `lockCycleHazards`. -/

/-- the full deadlock-freedom statement for a table -/
def NoWaitCycleFull (T : List WaitRow) : Prop :=
  ∀ σ : Config, Inv T σ → ∀ a, ¬ Relation.TransGen (stuckEdge σ) a a

/-- the three waits of the cycle (hand-written: code outside the three core files) -/
def hlsCycleRows : List WaitRow :=
  [⟨.pm, .call, .hls, false, true, false⟩,      -- pathManager.run: s.chPathReady <- pa | <-s.ctx.Done()
   ⟨.hls, .call, .muxer, false, false, false⟩,  -- HLS loop: muxer.mutex.RLock() (no escape)
   ⟨.muxer, .call, .pm, false, true, false⟩]    -- muxer.runInner: pm.chAddReader <- req | <-pm.ctx.Done()

def hlsCycle : Config where
  status := fun a =>
    if a = 1 then .blocked ⟨.pm, .call, .hls, false, true, false⟩ 2
    else if a = 2 then .blocked ⟨.hls, .call, .muxer, false, false, false⟩ 3
    else if a = 3 then .blocked ⟨.muxer, .call, .pm, false, true, false⟩ 1
    else .running
  cls := fun a => if a = 1 then .pm else if a = 2 then .hls else if a = 3 then .muxer else .client
  cancelled := fun _ => false

/-- **witness**: with the HLS rows the full statement is false — three goroutines, each stuck on the
next, nothing cancelled -/
theorem hls_cycle_witness : ¬ NoWaitCycleFull (T ++ hlsCycleRows) := by
  intro h
  have hI : Inv (T ++ hlsCycleRows) hlsCycle := by
    refine ⟨?_, ?_, ?_, ?_, ?_, ?_⟩
    · intro a w b hs
      simp only [hlsCycle] at hs
      split at hs
      · rename_i h1; cases hs; subst h1; simp [hlsCycleRows, hlsCycle]
      · split at hs
        · rename_i h2; cases hs; subst h2; simp [hlsCycleRows, hlsCycle]
        · split at hs
          · rename_i h3; cases hs; subst h3; simp [hlsCycleRows, hlsCycle]
          · cases hs
    · intro a w b hs hk
      simp only [hlsCycle] at hs
      split at hs
      · cases hs; cases hk
      · split at hs
        · cases hs; cases hk
        · split at hs
          · cases hs; cases hk
          · cases hs
    · intro a w b hs hk
      simp only [hlsCycle] at hs
      split at hs
      · cases hs; cases hk
      · split at hs
        · cases hs; cases hk
        · split at hs
          · cases hs; cases hk
          · cases hs
    · intro a w b hs hk
      simp only [hlsCycle] at hs
      split at hs
      · cases hs; cases hk
      · split at hs
        · cases hs; cases hk
        · split at hs
          · cases hs; cases hk
          · cases hs
    · intro b hs
      simp only [hlsCycle] at hs
      split at hs
      · cases hs
      · split at hs
        · cases hs
        · split at hs <;> cases hs
    · intro b hs
      simp only [hlsCycle] at hs
      split at hs
      · cases hs
      · split at hs
        · cases hs
        · split at hs <;> cases hs
  have e12 : stuckEdge hlsCycle 1 2 := ⟨⟨_, rfl, by decide⟩, by decide⟩
  have e23 : stuckEdge hlsCycle 2 3 := ⟨⟨_, rfl, by decide⟩, by decide⟩
  have e31 : stuckEdge hlsCycle 3 1 := ⟨⟨_, rfl, by decide⟩, by decide⟩
  exact h hlsCycle hI 1 (.tail (.tail (.single e12) e23) e31)

/-- no level function can order these rows: the decided condition fails -/
example : levelsOK (T ++ hlsCycleRows) = false := by decide

/-- the `_fixed` variant: once the HLS loop no longer waits for a starting muxer's mutex (proposed fix:
requests wait on a `ready` channel, API queries never block), the remaining two rows fit the level
argument, so `no_wait_cycle` and `stuck_chain_ends` cover them -/
def hlsRowsFixed : List WaitRow :=
  [⟨.pm, .call, .hls, false, true, false⟩, ⟨.muxer, .call, .pm, false, true, false⟩,
   ⟨.muxer, .awaitReply, .pm, false, false, false⟩]

theorem hls_fixed_levels_ok : levelsOK (T ++ hlsRowsFixed) = true := by decide

theorem hls_fixed_no_wait_cycle {σ : Config} (hI : Inv (T ++ hlsRowsFixed) σ) (a : Nat) :
    ¬ Relation.TransGen (stuckEdge σ) a a :=
  no_wait_cycle hI hls_fixed_levels_ok a

/-! ## non-vacuity and sharpness -/

/-- the table is not empty and contains the interesting rows: the upward call with both Done arms and
the join after cancel -/
example : (⟨.path, .call, .pm, true, true, false⟩ : WaitRow) ∈ T ∧
    (⟨.pm, .join, .path, false, false, true⟩ : WaitRow) ∈ T := by decide

/-- a configuration satisfying `Inv T`: pathManager (1) joins path 2 after cancelling it while path 2
is in an upward call to pathManager; path 3 (not cancelled) is stuck behind pathManager -/
def demo : Config where
  status := fun a =>
    if a = 1 then .blocked ⟨.pm, .join, .path, false, false, true⟩ 2
    else if a = 2 then .blocked ⟨.path, .call, .pm, true, true, false⟩ 1
    else if a = 3 then .blocked ⟨.path, .call, .pm, true, true, false⟩ 1
    else .running
  cls := fun a => if a = 1 then .pm else if a = 2 ∨ a = 3 then .path else .client
  cancelled := fun a => a = 2

example : stuck demo 1 = true ∧ stuck demo 3 = true ∧ stuck demo 2 = false ∧ canMove demo 2 = true := by
  decide

/-- sharpness: drop the path's own Done arm from the upward call and the level condition fails — the
classic deadlock doClosePath ⇄ setPathReady becomes a cycle -/
example : levelsOK [⟨.pm, .join, .path, false, false, true⟩, ⟨.path, .call, .pm, false, true, false⟩] = false := by
  decide

end MtxVerif.C40
