/-
C04 — administrative HTTP endpoints enforce their permission.  Property theorems.

`admin_endpoints_enforce_permission` is the property at full strength: for EVERY route of the table
regenerated from the source, every authentication manager, every handler / unknown middleware (arbitrary
functions) and every request.  The generic theorems (`mw_chain_*`, `guarded_*`, `preflight_no_data`) hold
for all chains of the two shapes, any length.
-/
import MtxVerif.Model.C04
import MtxVerif.Gen.C04

namespace MtxVerif.C04

/-! #### chain semantics -/

theorem run_aborted (hs : List Handler) (r : Req) (c : Ctx) (h : c.aborted = true) : run hs r c = c := by
  cases hs with
  | nil => rfl
  | cons x xs => simp [run, h]

theorem run_cons (x : Handler) (hs : List Handler) (r : Req) (c : Ctx) (h : c.aborted = false) :
    run (x :: hs) r c = run hs r (x r c) := by
  simp [run, h]

/-- CORS preflight: whatever follows the preflight middleware (even a chain WITHOUT authentication), the
    response is 204 with the two literal headers appended, and body and effects are untouched. -/
theorem preflight_no_data (hs : List Handler) (r : Req) (c : Ctx) (hp : r.preflight = true)
    (hc : c.aborted = false) :
    run (preflightMw :: hs) r c =
      { c with aborted := true, status := 204, hdrs := c.hdrs ++ [.allowMethods, .allowHeaders] } := by
  rw [run_cons _ _ _ _ hc]
  simp only [preflightMw, hp, if_true]
  exact run_aborted _ _ _ rfl

theorem preflight_passes (hs : List Handler) (r : Req) (c : Ctx) (hp : r.preflight = false)
    (hc : c.aborted = false) : run (preflightMw :: hs) r c = run hs r c := by
  rw [run_cons _ _ _ _ hc]
  simp [preflightMw, hp]

theorem denyWith_aborted (ask : Bool) (c : Ctx) : (denyWith ask c).aborted = true := rfl

/-- the response of the auth step when the manager does not admit: independent of the continuation -/
theorem authStep_denied (auth : AuthFn) (a : Action) (wp : Bool) (r : Req) (c : Ctx) (k : Ctx → Ctx)
    (hd : auth (mkAuthReq a wp r) ≠ .ok) :
    authStep auth a wp r c k = denyWith (auth (mkAuthReq a wp r) == .denyAsk) c := by
  unfold authStep
  cases h : auth (mkAuthReq a wp r) with
  | ok => exact absurd h hd
  | denyAsk => rfl
  | deny => rfl

theorem authStep_admitted (auth : AuthFn) (a : Action) (wp : Bool) (r : Req) (c : Ctx) (k : Ctx → Ctx)
    (ha : auth (mkAuthReq a wp r) = .ok) : authStep auth a wp r c k = k c := by
  unfold authStep; rw [ha]

/-! #### shape A: `[preflight, auth] ++ handlers` (api, metrics, pprof) -/

/-- handlers behind the auth middleware have NO influence on the response to a client that is not admitted:
    the response is the constant denial, for every list of handlers. -/
theorem mw_chain_refused (auth : AuthFn) (a : Action) (hs : List Handler) (r : Req)
    (hp : r.preflight = false) (hd : auth (mkAuthReq a false r) ≠ .ok) :
    run ([preflightMw, authMw auth a] ++ hs) r {} =
      denyWith (auth (mkAuthReq a false r) == .denyAsk) {} := by
  show run (preflightMw :: authMw auth a :: hs) r {} = _
  rw [preflight_passes _ _ _ hp rfl, run_cons _ _ _ _ rfl]
  simp only [authMw]
  rw [authStep_denied auth a false r {} id hd]
  exact run_aborted _ _ _ rfl

/-- … and an admitted client reaches the handlers with an untouched context (the model is not vacuous). -/
theorem mw_chain_admitted (auth : AuthFn) (a : Action) (hs : List Handler) (r : Req)
    (hp : r.preflight = false) (ha : auth (mkAuthReq a false r) = .ok) :
    run ([preflightMw, authMw auth a] ++ hs) r {} = run hs r {} := by
  show run (preflightMw :: authMw auth a :: hs) r {} = _
  rw [preflight_passes _ _ _ hp rfl, run_cons _ _ _ _ rfl]
  simp only [authMw]
  rw [authStep_admitted auth a false r {} id ha]
  rfl

/-- handler output present ⇒ the auth manager admitted the request for the middleware's action. -/
theorem handler_runs_only_if_admitted (auth : AuthFn) (a : Action) (hs : List Handler) (r : Req)
    (hout : (run ([preflightMw, authMw auth a] ++ hs) r {}).carriesData = true ∨
            (run ([preflightMw, authMw auth a] ++ hs) r {}).changesState = true) :
    r.preflight = false ∧ auth (mkAuthReq a false r) = .ok := by
  cases hp : r.preflight with
  | true =>
    have := preflight_no_data (authMw auth a :: hs) r {} hp rfl
    rw [show [preflightMw, authMw auth a] ++ hs = preflightMw :: authMw auth a :: hs from rfl, this] at hout
    simp [Ctx.carriesData, Ctx.changesState] at hout
  | false =>
    refine ⟨rfl, ?_⟩
    cases ha : auth (mkAuthReq a false r) with
    | ok => rfl
    | denyAsk =>
      rw [mw_chain_refused auth a hs r hp (by rw [ha]; decide)] at hout
      simp [denyWith, Ctx.carriesData, Ctx.changesState, Chunk.isData] at hout
    | deny =>
      rw [mw_chain_refused auth a hs r hp (by rw [ha]; decide)] at hout
      simp [denyWith, Ctx.carriesData, Ctx.changesState, Chunk.isData] at hout

/-! #### shape B: `[preflight, guarded handler]` (playback) -/

theorem guarded_bad_path (auth : AuthFn) (a : Action) (wp : Bool) (inner : Handler) (r : Req)
    (hp : r.preflight = false) (hv : r.validPath = false) :
    run [preflightMw, guardedHandler auth a wp inner] r {} =
      { aborted := true, status := 400, body := [.badPath] } := by
  rw [preflight_passes _ _ _ hp rfl, run_cons _ _ _ _ rfl]
  simp [guardedHandler, hv, run]

theorem guarded_refused (auth : AuthFn) (a : Action) (wp : Bool) (inner : Handler) (r : Req)
    (hp : r.preflight = false) (hv : r.validPath = true) (hd : auth (mkAuthReq a wp r) ≠ .ok) :
    run [preflightMw, guardedHandler auth a wp inner] r {} =
      denyWith (auth (mkAuthReq a wp r) == .denyAsk) {} := by
  rw [preflight_passes _ _ _ hp rfl, run_cons _ _ _ _ rfl]
  simp only [guardedHandler, hv, Bool.not_true, Bool.false_eq_true, if_false]
  rw [authStep_denied auth a wp r {} _ hd]
  rfl

theorem guarded_admitted (auth : AuthFn) (a : Action) (wp : Bool) (inner : Handler) (r : Req)
    (hp : r.preflight = false) (hv : r.validPath = true) (ha : auth (mkAuthReq a wp r) = .ok) :
    run [preflightMw, guardedHandler auth a wp inner] r {} = inner r {} := by
  rw [preflight_passes _ _ _ hp rfl, run_cons _ _ _ _ rfl]
  simp only [guardedHandler, hv, Bool.not_true, Bool.false_eq_true, if_false]
  rw [authStep_admitted auth a wp r {} _ ha]
  rfl

/-! #### the refusal carries no data -/

theorem refusal_no_data (auth : AuthFn) (s : Srv) (r : Req) :
    (refusal auth s r).carriesData = false ∧ (refusal auth s r).changesState = false := by
  unfold refusal
  split
  · simp [Ctx.carriesData, Ctx.changesState]
  · split <;> simp [denyWith, Ctx.carriesData, Ctx.changesState, Chunk.isData]

/-- not a preflight, and (playback) a well-formed path name: the refusal is 401 with the constant body;
    `WWW-Authenticate` exactly when the manager asks for credentials. -/
theorem refusal_is_401 (auth : AuthFn) (s : Srv) (r : Req) (hp : r.preflight = false)
    (hv : s ≠ .playback ∨ r.validPath = true) :
    (refusal auth s r).status = 401 ∧ (refusal auth s r).body = [.authError] ∧
    ((refusal auth s r).hdrs.contains .wwwAuthenticate =
       (auth (mkAuthReq s.action (s == .playback) r) == .denyAsk)) := by
  have h2 : (s == .playback && !r.validPath) = false := by
    rcases hv with h | h
    · cases s <;> simp_all
    · simp [h]
  unfold refusal
  rw [hp, h2]
  simp only [Bool.false_eq_true, if_false]
  cases auth (mkAuthReq s.action (s == .playback) r) <;> simp [denyWith]

theorem refusal_preflight (auth : AuthFn) (s : Srv) (r : Req) (hp : r.preflight = true) :
    (refusal auth s r).status = 204 ∧ (refusal auth s r).body = [] := by
  unfold refusal; rw [hp]; simp

/-! #### the regenerated table -/

/-- every server found in the source has the shape the theorems need, uses the action constant the property
    names, denies by abort + constant body, and its router variables are used in no other way.
    (finite table: `decide`) -/
theorem gen_servers_ok : ∀ f ∈ Gen.C04.servers, serverOK f = true := by decide

/-- all four servers are present in the table -/
theorem gen_servers_complete : Gen.C04.servers.map (·.srv) = [.api, .metrics, .pprof, .playback] := by decide

/-- a well-shaped route refuses whoever is not admitted (or sends a preflight) with the constant response —
    whatever the handler and the auth manager are. -/
theorem chainFor_refuses (auth : AuthFn) (f : ServerF) (rt : RouteF) (other inner : Handler) (r : Req)
    (hf : serverOK f = true) (hr : rt ∈ f.routes)
    (hn : r.preflight = true ∨ Admitted auth f.srv r = false) :
    run (chainFor auth f rt other inner) r {} = refusal auth f.srv r := by
  simp only [serverOK, Bool.and_eq_true, decide_eq_true_eq, List.all_eq_true] at hf
  obtain ⟨⟨⟨⟨hact, _⟩, _⟩, _⟩, hall⟩ := hf
  have hrt := hall rt hr
  unfold routeOK at hrt
  by_cases hs : f.srv = .playback
  · -- playback: [preflight] → guarded handler
    rw [if_pos hs] at hrt
    simp only [Bool.and_eq_true, beq_iff_eq] at hrt
    obtain ⟨⟨hm, hg⟩, hwp⟩ := hrt
    have hchain : chainFor auth f rt other inner =
        [preflightMw, guardedHandler auth f.authAction f.authUsesPath inner] := by
      simp [chainFor, hm, hg]
    rw [hchain, hact, hwp, hs]
    cases hp : r.preflight with
    | true =>
      rw [preflight_no_data _ r {} hp rfl]
      simp [refusal, hp]
    | false =>
      have hadm : Admitted auth f.srv r = false := by
        rcases hn with h | h
        · rw [hp] at h; cases h
        · exact h
      rw [hs] at hadm
      cases hv : r.validPath with
      | false =>
        rw [guarded_bad_path auth _ _ inner r hp hv]
        simp [refusal, hp, hv]
      | true =>
        have hd : auth (mkAuthReq Srv.playback.action true r) ≠ .ok := by
          intro h
          simp [Admitted, hv, h] at hadm
        rw [guarded_refused auth _ _ inner r hp hv hd]
        simp [refusal, hp, hv]
  · -- api / metrics / pprof: [preflight, auth] → handler
    rw [if_neg hs] at hrt
    simp only [Bool.and_eq_true, beq_iff_eq, Bool.not_eq_true'] at hrt
    obtain ⟨hm, hg⟩ := hrt
    have hchain : chainFor auth f rt other inner = [preflightMw, authMw auth f.authAction] ++ [inner] := by
      simp [chainFor, hm, hg]
    have hpb : (f.srv == Srv.playback) = false := by simpa using hs
    rw [hchain, hact]
    cases hp : r.preflight with
    | true =>
      show run (preflightMw :: _) r {} = _
      rw [preflight_no_data _ r {} hp rfl]
      simp [refusal, hp]
    | false =>
      have hadm : Admitted auth f.srv r = false := by
        rcases hn with h | h
        · rw [hp] at h; cases h
        · exact h
      have hd : auth (mkAuthReq f.srv.action false r) ≠ .ok := by
        intro h
        have hne : (f.srv != Srv.playback) = true := by simp [bne, hpb]
        simp [Admitted, hne, hpb, h] at hadm
      rw [mw_chain_refused auth _ _ r hp hd]
      simp [refusal, hp, hpb]

/-- … and an admitted client reaches the handler with an untouched context. -/
theorem chainFor_admits (auth : AuthFn) (f : ServerF) (rt : RouteF) (other inner : Handler) (r : Req)
    (hf : serverOK f = true) (hr : rt ∈ f.routes)
    (hp : r.preflight = false) (ha : Admitted auth f.srv r = true) :
    run (chainFor auth f rt other inner) r {} = inner r {} := by
  simp only [serverOK, Bool.and_eq_true, decide_eq_true_eq, List.all_eq_true] at hf
  obtain ⟨⟨⟨⟨hact, _⟩, _⟩, _⟩, hall⟩ := hf
  have hrt := hall rt hr
  unfold routeOK at hrt
  simp only [Admitted, Bool.and_eq_true, Bool.or_eq_true, beq_iff_eq] at ha
  by_cases hs : f.srv = .playback
  · rw [if_pos hs] at hrt
    simp only [Bool.and_eq_true, beq_iff_eq] at hrt
    obtain ⟨⟨hm, hg⟩, hwp⟩ := hrt
    have hchain : chainFor auth f rt other inner =
        [preflightMw, guardedHandler auth f.authAction f.authUsesPath inner] := by
      simp [chainFor, hm, hg]
    have hv : r.validPath = true := by
      rcases ha.1 with h | h
      · simp [hs] at h
      · exact h
    rw [hchain, hact, hwp]
    have hok := ha.2
    rw [hs] at hok ⊢
    exact guarded_admitted auth _ _ inner r hp hv (by simpa using hok)
  · rw [if_neg hs] at hrt
    simp only [Bool.and_eq_true, beq_iff_eq, Bool.not_eq_true'] at hrt
    obtain ⟨hm, hg⟩ := hrt
    have hchain : chainFor auth f rt other inner = [preflightMw, authMw auth f.authAction] ++ [inner] := by
      simp [chainFor, hm, hg]
    have hpb : (f.srv == Srv.playback) = false := by simpa using hs
    rw [hchain, hact, mw_chain_admitted auth _ _ r hp (by have := ha.2; rw [hpb] at this; exact this)]
    simp [run]

/-- **C04, full strength.**  For every route registered by the four servers (table regenerated from the
    source), every authentication manager, every handler and every request:
    * the response carries handler data or a state change happened ⇒ the request is not a preflight and the
      manager admitted it for the server's action (playback: with the requested path, which is well-formed);
    * not admitted (and not a preflight) ⇒ the response is the constant refusal: 401 + constant body, except
      playback's 400 for a malformed path name, which is constant as well;
    * preflight ⇒ 204 without body. -/
theorem admin_endpoints_enforce_permission (auth : AuthFn) (other inner : Handler) :
    ∀ f ∈ Gen.C04.servers, ∀ rt ∈ f.routes, ∀ r : Req,
      let out := run (chainFor auth f rt other inner) r {}
      ((out.carriesData = true ∨ out.changesState = true) →
          r.preflight = false ∧ Admitted auth f.srv r = true) ∧
      (r.preflight = false → Admitted auth f.srv r = false →
          out = refusal auth f.srv r ∧
          ((f.srv ≠ .playback ∨ r.validPath = true) → out.status = 401 ∧ out.body = [.authError])) ∧
      (r.preflight = true → out.status = 204 ∧ out.body = [] ∧ out.effects = []) := by
  intro f hf rt hrt r
  have hok := gen_servers_ok f hf
  refine ⟨?_, ?_, ?_⟩
  · intro hout
    by_cases hn : r.preflight = true ∨ Admitted auth f.srv r = false
    · rw [chainFor_refuses auth f rt other inner r hok hrt hn] at hout
      have := refusal_no_data auth f.srv r
      rcases hout with h | h
      · rw [this.1] at h; cases h
      · rw [this.2] at h; cases h
    · constructor
      · cases h : r.preflight with
        | false => rfl
        | true => exact absurd (Or.inl h) hn
      · cases h : Admitted auth f.srv r with
        | true => rfl
        | false => exact absurd (Or.inr h) hn
  · intro hp ha
    have e := chainFor_refuses auth f rt other inner r hok hrt (Or.inr ha)
    refine ⟨e, fun hv => ?_⟩
    rw [e]
    have := refusal_is_401 auth f.srv r hp hv
    exact ⟨this.1, this.2.1⟩
  · intro hp
    rw [chainFor_refuses auth f rt other inner r hok hrt (Or.inl hp)]
    have := refusal_preflight auth f.srv r hp
    refine ⟨this.1, this.2, ?_⟩
    simp [refusal, hp]

/-! #### the executable spec used by the driver -/

/-- the spec accepts the model's own refusal (so a spec FAIL is a deviation from the proved behaviour) -/
theorem spec_accepts_refusal (auth : AuthFn) (s : Srv) (routed : Bool) (r : Req)
    (hn : r.preflight = true ∨ Admitted auth s r = false) :
    specObs s routed r (auth (mkAuthReq s.action (s == .playback) r)) (observe (refusal auth s r)) = none := by
  cases hp : r.preflight with
  | true =>
    simp [specObs, hp, refusal, observe, Ctx.carriesData, Ctx.changesState]
  | false =>
    have ha : Admitted auth s r = false := by
      rcases hn with h | h
      · rw [hp] at h; cases h
      · exact h
    have hnd := refusal_no_data auth s r
    unfold specObs
    simp only [hp, Bool.false_eq_true, if_false]
    have hadm : ((s != Srv.playback || r.validPath) &&
        auth (mkAuthReq s.action (s == Srv.playback) r) == AuthRes.ok) = false := ha
    rw [hadm]
    simp only [Bool.false_eq_true, if_false, observe, hnd.1, hnd.2]
    by_cases hv : (s != Srv.playback || r.validPath) = true
    · have hv' : s ≠ .playback ∨ r.validPath = true := by
        simp only [Bool.or_eq_true, bne_iff_ne, ne_eq] at hv; exact hv
      have h401 := refusal_is_401 auth s r hp hv'
      simp [h401.1, h401.2.1, hv]
    · have hv2 : (s != Srv.playback || r.validPath) = false := by simpa using hv
      have hs : s = .playback := by
        cases s <;> simp_all
      have hvp : r.validPath = false := by
        cases h : r.validPath <;> simp_all
      simp [refusal, hp, hs, hvp]

/-- a response the spec accepts for a request that is not admitted carries no canary, changed no state and
    is not a success; on a registered route it is the 401 constant. -/
theorem spec_sound (s : Srv) (routed : Bool) (r : Req) (res : AuthRes) (o : Obs)
    (hp : r.preflight = false) (hn : ((s != .playback || r.validPath) && res == .ok) = false)
    (hs : specObs s routed r res o = none) :
    o.canary = false ∧ o.changed = false ∧ ¬ (200 ≤ o.status ∧ o.status < 300) ∧
    (routed = true → (s ≠ .playback ∨ r.validPath = true) → o.status = 401 ∧ o.body = .authErr) := by
  unfold specObs at hs
  simp only [hp, Bool.false_eq_true, if_false, hn] at hs
  cases hc : o.canary <;> simp only [hc, if_true, Bool.false_eq_true, if_false] at hs
  · cases hch : o.changed <;> simp only [hch, if_true, Bool.false_eq_true, if_false] at hs
    · by_cases h2 : (decide (200 ≤ o.status) && decide (o.status < 300)) = true
      · simp [h2] at hs
      · simp only [h2] at hs
        refine ⟨rfl, rfl, ?_, ?_⟩
        · intro hh; apply h2; simp [hh.1, hh.2]
        · intro hr hv
          have hv' : (s != Srv.playback || r.validPath) = true := by
            rcases hv with h | h
            · simp [h]
            · simp [h]
          simp only [hr, hv', Bool.and_self, if_true] at hs
          by_cases h401 : o.status = 401
          · by_cases hb : o.body = .authErr
            · exact ⟨h401, hb⟩
            · simp [h401, hb] at hs
          · simp [h401] at hs
    · cases hs
  · cases hs

/-! #### non-vacuity -/

/-- a manager that admits exactly the user `admin` for `api`; a handler that returns data and changes state -/
example :
    let auth : AuthFn := fun q => if q.action = .api ∧ q.creds.user = asc ['a'] then .ok else .denyAsk
    let h : Handler := fun _ c => { c with body := c.body ++ [.data 7], effects := [1] }
    let good : Req := ⟨false, false, ⟨asc ['a'], [], []⟩, [], [], [], true⟩
    let anon : Req := ⟨false, false, ⟨[], [], []⟩, [], [], [], true⟩
    (run ([preflightMw, authMw auth .api] ++ [h]) good {}).carriesData = true ∧
    (run ([preflightMw, authMw auth .api] ++ [h]) anon {}) = denyWith true {} ∧
    (run ([preflightMw, authMw auth .metrics] ++ [h]) good {}).status = 401 := by decide

/-- without the auth middleware in front, the same handler would answer anybody: the shape matters -/
example :
    let h : Handler := fun _ c => { c with body := c.body ++ [.data 7] }
    let anon : Req := ⟨false, false, ⟨[], [], []⟩, [], [], [], true⟩
    (run ([preflightMw] ++ [h]) anon {}).carriesData = true := by decide

end MtxVerif.C04
