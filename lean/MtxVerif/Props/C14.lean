import MtxVerif.Model.C14
namespace MtxVerif.C14
theorem stub : True := trivial
end MtxVerif.C14
