/-
C14 — path configuration resolution is deterministic and precedence-correct.  Property theorems.

Reading of the property (relation `Resolves`):
  * a configuration with exactly the requested name exists  → that configuration, no groups;
  * otherwise, name invalid                                  → rejected (invalid);
  * otherwise, some regex configuration matches              → the matching one that is before every
    other matching one in name order with all/all_others last, with that match's capture groups;
  * otherwise                                                → rejected (not configured).
`find_spec` : for EVERY conforming sort, `find` returns a resolution.  `resolves_unique` : there is
only one.  `find_perm_invariant` : hence the answer does not depend on map iteration order nor on which
conforming (possibly unstable) sort is used.

Hypothesis `WF` (distinct keys; at most one of all / all_others) is what a Go map and `Conf.Validate`
guarantee (`validate_ok_wf`).  Without the second half the comparator does not order `all` against
`all_others` (`less_incomparable_all_allOthers`) — unreachable through `Validate`.

Not demanded (the property names only all/all_others): the third alias `~^.*$` is ordered as an
ordinary name (`tildeAll_not_last`), so it shadows every regex configuration whose name is greater.
-/
import MtxVerif.Model.C14

namespace MtxVerif.C14

/-! #### byte-wise string order is a strict total order -/

theorem ltB_irrefl (a : Bytes) : ltB a a = false := by
  induction a with
  | nil => rfl
  | cons x xs ih => simp [ltB, ih, UInt8.lt_irrefl]

theorem ltB_trans : ∀ {a b c : Bytes}, ltB a b = true → ltB b c = true → ltB a c = true
  | [], [], _, h, _ => by simp [ltB] at h
  | [], _ :: _, [], _, h => by simp [ltB] at h
  | [], _ :: _, _ :: _, _, _ => by simp [ltB]
  | _ :: _, [], _, h, _ => by simp [ltB] at h
  | _ :: _, _ :: _, [], _, h => by simp [ltB] at h
  | x :: xs, y :: ys, z :: zs, h1, h2 => by
    simp only [ltB, Bool.or_eq_true, decide_eq_true_eq, Bool.and_eq_true, beq_iff_eq] at *
    rcases h1 with h1 | ⟨rfl, h1⟩
    · rcases h2 with h2 | ⟨rfl, _⟩
      · exact Or.inl (UInt8.lt_trans h1 h2)
      · exact Or.inl h1
    · rcases h2 with h2 | ⟨rfl, h2⟩
      · exact Or.inl h2
      · exact Or.inr ⟨rfl, ltB_trans h1 h2⟩

theorem ltB_total : ∀ {a b : Bytes}, a ≠ b → ltB a b = true ∨ ltB b a = true
  | [], [], h => absurd rfl h
  | [], _ :: _, _ => by simp [ltB]
  | _ :: _, [], _ => by simp [ltB]
  | x :: xs, y :: ys, h => by
    simp only [ltB, Bool.or_eq_true, decide_eq_true_eq, Bool.and_eq_true, beq_iff_eq]
    by_cases hxy : x = y
    · subst hxy
      have : xs ≠ ys := fun e => h (by rw [e])
      rcases ltB_total this with h | h
      · exact Or.inl (Or.inr ⟨rfl, h⟩)
      · exact Or.inr (Or.inr ⟨rfl, h⟩)
    · rcases UInt8.lt_or_lt_of_ne hxy with h | h
      · exact Or.inl (Or.inl h)
      · exact Or.inr (Or.inl h)

theorem ltB_asymm {a b : Bytes} (h : ltB a b = true) : ltB b a = false := by
  cases hb : ltB b a with
  | false => rfl
  | true => have := ltB_trans h hb; rw [ltB_irrefl] at this; cases this

/-! #### the comparator -/

/-- well-formed configuration set: keys distinct (it is a map); at most one of all/all_others
(`Conf.Validate` rejects aliases) -/
structure WF (confs : List Entry) : Prop where
  nodup : (confs.map (·.name)).Nodup
  oneAll : ∀ a ∈ confs, ∀ b ∈ confs, isAllName a.name = true → isAllName b.name = true → a = b

/-- the code's comparator is the property's order -/
theorem less_eq_before (a b : Entry) : less a b = before a b := by
  unfold less before
  cases isAllName a.name <;> cases isAllName b.name <;> simp

theorem map_nodup_inj {α : Type} (f : α → Bytes) {l : List α} (h : (l.map f).Nodup) :
    ∀ a ∈ l, ∀ b ∈ l, f a = f b → a = b := by
  induction l with
  | nil => intro a ha; cases ha
  | cons x xs ih =>
    simp only [List.map_cons, List.nodup_cons, List.mem_map, not_exists, not_and] at h
    intro a ha b hb hab
    rcases List.mem_cons.mp ha with h1 | h1 <;> rcases List.mem_cons.mp hb with h2 | h2
    · rw [h1, h2]
    · subst h1; exact absurd hab.symm (h.1 b h2)
    · subst h2; exact absurd hab (h.1 a h1)
    · exact ih h.2 a h1 b h2 hab

theorem name_inj {confs : List Entry} (h : (confs.map (·.name)).Nodup) :
    ∀ a ∈ confs, ∀ b ∈ confs, a.name = b.name → a = b := map_nodup_inj Entry.name h

theorem less_irrefl (a : Entry) : less a a = false := by
  unfold less; cases isAllName a.name <;> simp [ltB_irrefl]

theorem less_trans {a b c : Entry} (h1 : less a b = true) (h2 : less b c = true) : less a c = true := by
  unfold less at *
  cases ha : isAllName a.name <;> cases hb : isAllName b.name <;> cases hc : isAllName c.name <;>
    simp_all
  exact ltB_trans h1 h2

theorem less_asymm {a b : Entry} (h : less a b = true) : less b a = false := by
  cases hb : less b a with
  | false => rfl
  | true => have := less_trans h hb; rw [less_irrefl] at this; cases this

/-- negative transitivity (the comparator is a strict weak order on ALL entries, well-formed or not) -/
theorem less_neg_trans {x y e : Entry} (hxe : less x e = false) (hyx : less y x = false) :
    less y e = false := by
  unfold less at *
  cases hY : isAllName y.name <;> cases hX : isAllName x.name <;> cases hE : isAllName e.name <;>
    simp only [hY, hX, hE, if_true, if_false, Bool.false_eq_true, Bool.true_eq_false] at hxe hyx ⊢ <;>
    first | rfl | skip
  cases hye : ltB y.name e.name with
  | false => rfl
  | true =>
    by_cases hxy : x.name = y.name
    · rw [hxy] at hxe; rw [hxe] at hye; cases hye
    · rcases ltB_total hxy with h' | h'
      · have := ltB_trans h' hye; rw [hxe] at this; cases this
      · rw [hyx] at h'; cases h'

/-- **cmp_strict_total_on_distinct_names**: on a well-formed set two different entries are ordered one
way or the other (with irreflexivity and transitivity above: a strict total order). -/
theorem less_total {confs : List Entry} (wf : WF confs) {a b : Entry} (ha : a ∈ confs) (hb : b ∈ confs)
    (hne : a ≠ b) : less a b = true ∨ less b a = true := by
  have hn : a.name ≠ b.name := fun e => hne (name_inj wf.nodup a ha b hb e)
  unfold less
  cases hA : isAllName a.name <;> cases hB : isAllName b.name <;> simp
  · exact ltB_total hn
  · exact hne (wf.oneAll a ha b hb hA hB)

/-- with both `all` and `all_others` present (which `Validate` rejects) the comparator leaves them
unordered: the sort may put either first, and both match every valid name. -/
theorem less_incomparable_all_allOthers (r1 r2 : Bool) (m1 m2 : Option (List Bytes)) :
    less ⟨nAll, r1, m1⟩ ⟨nAllOthers, r2, m2⟩ = false ∧ less ⟨nAllOthers, r2, m2⟩ ⟨nAll, r1, m1⟩ = false := by
  constructor <;> rfl

/-- recorded, not demanded: the alias `~^.*$` is not kept last — it precedes e.g. `~^cam` -/
theorem tildeAll_not_last :
    less ⟨nTildeAll, true, none⟩ ⟨asc ['~', '^', 'c', 'a', 'm'], true, none⟩ = true := by decide

/-! #### conforming sorts -/

/-- what `sort.Slice(s, less)` guarantees: a permutation in which no later element is less than an
earlier one -/
structure IsSort (sort : List Entry → List Entry) : Prop where
  perm : ∀ l, (sort l).Perm l
  sorted : ∀ l, (sort l).Pairwise (fun a b => less b a = false)

theorem insert_perm (e : Entry) (l : List Entry) : (insert e l).Perm (e :: l) := by
  induction l with
  | nil => exact List.Perm.refl _
  | cons x xs ih =>
    unfold insert
    split
    · exact ((List.Perm.cons x ih).trans (List.Perm.swap e x xs))
    · exact List.Perm.refl _

theorem insert_sorted (e : Entry) {l : List Entry} (h : l.Pairwise (fun a b => less b a = false)) :
    (insert e l).Pairwise (fun a b => less b a = false) := by
  induction l with
  | nil => simp [insert]
  | cons x xs ih =>
    rw [List.pairwise_cons] at h
    unfold insert
    split
    · rename_i hxe
      rw [List.pairwise_cons]
      refine ⟨?_, ih h.2⟩
      intro y hy
      rcases List.mem_cons.mp ((insert_perm e xs).subset hy) with rfl | hy
      · exact less_asymm hxe
      · exact h.1 y hy
    · rename_i hxe
      have hxe : less x e = false := by simpa using hxe
      rw [List.pairwise_cons]
      refine ⟨?_, List.pairwise_cons.mpr h⟩
      intro y hy
      rcases List.mem_cons.mp hy with rfl | hy
      · exact hxe
      · exact less_neg_trans hxe (h.1 y hy)

/-- non-vacuity of `IsSort`: insertion sort conforms (it is the one the driver runs) -/
theorem isort_isSort : IsSort isort := by
  constructor
  · intro l
    induction l with
    | nil => exact List.Perm.refl _
    | cons e es ih => exact (insert_perm e _).trans (List.Perm.cons e ih)
  · intro l
    induction l with
    | nil => exact List.Pairwise.nil
    | cons e es ih => exact insert_sorted e ih

/-! #### the property relation -/

/-- `r` is a resolution of `name` in `confs`, in the property's words -/
inductive Resolves (confs : List Entry) (name : Bytes) : Res → Prop
  | exact (e : Entry) : e ∈ confs → e.name = name → Resolves confs name (.found name none)
  | invalid : (∀ e ∈ confs, e.name ≠ name) → validName name = false → Resolves confs name .errInvalid
  | regex (e : Entry) (g : List Bytes) : (∀ e ∈ confs, e.name ≠ name) → validName name = true →
      e ∈ confs → e.regex = true → e.m = some g →
      (∀ e' ∈ confs, e'.regex = true → e'.m ≠ none → e' = e ∨ before e e' = true) →
      Resolves confs name (.found e.name (some g))
  | notConfigured : (∀ e ∈ confs, e.name ≠ name) → validName name = true →
      (∀ e ∈ confs, e.regex = true → e.m = none) → Resolves confs name .errNotConfigured

theorem firstMatch_spec {l : List Entry} (hs : l.Pairwise (fun a b => less b a = false)) :
    (firstMatch l = .errNotConfigured ∧ ∀ e ∈ l, e.m = none) ∨
    (∃ e g, e ∈ l ∧ e.m = some g ∧ firstMatch l = .found e.name (some g) ∧
      ∀ e' ∈ l, e'.m ≠ none → e' = e ∨ less e' e = false) := by
  induction l with
  | nil => left; simp [firstMatch]
  | cons x xs ih =>
    rw [List.pairwise_cons] at hs
    unfold firstMatch
    cases hm : x.m with
    | some g =>
      right
      refine ⟨x, g, List.mem_cons_self, hm, rfl, ?_⟩
      intro e' he' _
      rcases List.mem_cons.mp he' with rfl | he'
      · exact Or.inl rfl
      · exact Or.inr (hs.1 e' he')
    | none =>
      rcases ih hs.2 with ⟨h1, h2⟩ | ⟨e, g, he, hg, hf, hall⟩
      · left
        refine ⟨h1, ?_⟩
        intro e he
        rcases List.mem_cons.mp he with rfl | he
        · exact hm
        · exact h2 e he
      · right
        refine ⟨e, g, List.mem_cons_of_mem _ he, hg, hf, ?_⟩
        intro e' he' hne
        rcases List.mem_cons.mp he' with rfl | he'
        · exact absurd hm hne
        · exact hall e' he' hne

theorem find?_name_none {confs : List Entry} {name : Bytes}
    (h : confs.find? (fun e => e.name == name) = none) : ∀ e ∈ confs, e.name ≠ name := by
  intro e he hn
  have := List.find?_eq_none.mp h e he
  simp [hn] at this

/-- **find_spec** — the property at full strength: for every conforming sort, every well-formed
configuration set, every requested name and every regexp oracle, `FindPathConf`'s answer is a
resolution in the property's sense. -/
theorem find_spec {sort : List Entry → List Entry} (hsort : IsSort sort) {confs : List Entry}
    (wf : WF confs) (name : Bytes) : Resolves confs name (find sort confs name) := by
  unfold find
  cases hf : confs.find? (fun e => e.name == name) with
  | some e =>
    have hmem := List.mem_of_find?_eq_some hf
    have hn : e.name = name := by simpa using List.find?_some hf
    simp only
    rw [hn]
    exact .exact e hmem hn
  | none =>
    have hno := find?_name_none hf
    simp only
    cases hv : validName name with
    | false => simpa using Resolves.invalid hno hv
    | true =>
      simp only [Bool.not_true, Bool.false_eq_true, if_false]
      have hperm := hsort.perm (confs.filter (fun e => e.regex))
      have hmemIff : ∀ e, e ∈ sort (confs.filter (fun e => e.regex)) ↔ (e ∈ confs ∧ e.regex = true) := by
        intro e; rw [hperm.mem_iff, List.mem_filter]
      rcases firstMatch_spec (hsort.sorted (confs.filter (fun e => e.regex))) with
        ⟨h1, h2⟩ | ⟨e, g, he, hg, hfm, hall⟩
      · rw [h1]
        exact .notConfigured hno hv (fun e he hr => h2 e ((hmemIff e).mpr ⟨he, hr⟩))
      · rw [hfm]
        have hec := (hmemIff e).mp he
        refine .regex e g hno hv hec.1 hec.2 hg ?_
        intro e' he' hr' hm'
        by_cases hee : e' = e
        · exact Or.inl hee
        · right
          rcases hall e' ((hmemIff e').mpr ⟨he', hr'⟩) hm' with h | h
          · exact absurd h hee
          · rw [← less_eq_before]
            rcases less_total wf hec.1 he' (fun x => hee x.symm) with h' | h'
            · exact h'
            · rw [h] at h'; cases h'

/-- **resolves_unique** — the property relation determines the answer (on any set; well-formedness is
only needed for existence, `find_spec`). -/
theorem resolves_unique {confs : List Entry} {name : Bytes} {r1 r2 : Res}
    (h1 : Resolves confs name r1) (h2 : Resolves confs name r2) : r1 = r2 := by
  cases h1 with
  | exact e he hn =>
    cases h2 with
    | exact => rfl
    | invalid hno => exact absurd hn (hno e he)
    | regex _ _ hno => exact absurd hn (hno e he)
    | notConfigured hno => exact absurd hn (hno e he)
  | invalid hno hv =>
    cases h2 with
    | exact e he hn => exact absurd hn (hno e he)
    | invalid => rfl
    | regex _ _ _ hv' => rw [hv] at hv'; cases hv'
    | notConfigured _ hv' => rw [hv] at hv'; cases hv'
  | regex e g hno hv he hr hg hall =>
    cases h2 with
    | exact e' he' hn => exact absurd hn (hno e' he')
    | invalid _ hv' => rw [hv] at hv'; cases hv'
    | regex e2 g2 _ _ he2 hr2 hg2 hall2 =>
      have hee : e = e2 := by
        rcases hall e2 he2 hr2 (by rw [hg2]; simp) with h | h
        · exact h.symm
        · rcases hall2 e he hr (by rw [hg]; simp) with h' | h'
          · exact h'
          · rw [← less_eq_before] at h h'
            rw [less_asymm h] at h'; cases h'
      subst hee
      rw [hg] at hg2
      cases hg2
      rfl
    | notConfigured _ _ hnone => rw [hnone e he hr] at hg; cases hg
  | notConfigured hno hv hnone =>
    cases h2 with
    | exact e he hn => exact absurd hn (hno e he)
    | invalid _ hv' => rw [hv] at hv'; cases hv'
    | regex e g _ _ he hr hg => rw [hnone e he hr] at hg; cases hg
    | notConfigured => rfl

theorem resolves_perm {confs confs' : List Entry} (hp : confs.Perm confs') {name : Bytes} {r : Res}
    (h : Resolves confs name r) : Resolves confs' name r := by
  have hm : ∀ e, e ∈ confs ↔ e ∈ confs' := fun e => hp.mem_iff
  cases h with
  | exact e he hn => exact .exact e ((hm e).mp he) hn
  | invalid hno hv => exact .invalid (fun e he => hno e ((hm e).mpr he)) hv
  | regex e g hno hv he hr hg hall =>
    exact .regex e g (fun e he => hno e ((hm e).mpr he)) hv ((hm e).mp he) hr hg
      (fun e' he' => hall e' ((hm e').mpr he'))
  | notConfigured hno hv hnone =>
    exact .notConfigured (fun e he => hno e ((hm e).mpr he)) hv (fun e he => hnone e ((hm e).mpr he))

/-- **find_perm_invariant** — the result does not depend on map iteration order (any permutation of
the entries) nor on the sort implementation (any two conforming, possibly unstable, sorts). -/
theorem find_perm_invariant {s1 s2 : List Entry → List Entry} (h1 : IsSort s1) (h2 : IsSort s2)
    {confs confs' : List Entry} (wf : WF confs) (hp : confs.Perm confs') (name : Bytes) :
    find s1 confs name = find s2 confs' name := by
  have wf' : WF confs' := by
    constructor
    · exact (hp.map (·.name)).nodup_iff.mp wf.nodup
    · intro a ha b hb
      exact wf.oneAll a (hp.mem_iff.mpr ha) b (hp.mem_iff.mpr hb)
  exact resolves_unique (resolves_perm hp (find_spec h1 wf name)) (find_spec h2 wf' name)

/-! #### the executable spec run by the driver is the property relation -/

theorem find?_name_some {confs : List Entry} (wf : WF confs) {e : Entry} (he : e ∈ confs) :
    confs.find? (fun x => x.name == e.name) = some e := by
  cases hf : confs.find? (fun x => x.name == e.name) with
  | none => exact absurd rfl (find?_name_none hf e he)
  | some x =>
    have hx := List.mem_of_find?_eq_some hf
    have hn : x.name = e.name := by simpa using List.find?_some hf
    rw [name_inj wf.nodup x hx e he hn]

/-- `spec … = ok` (what the driver evaluates on the implementation's answer) iff `Resolves`. -/
theorem spec_ok_iff {confs : List Entry} (wf : WF confs) (name : Bytes) (r : Res) :
    spec confs name r = .ok ↔ Resolves confs name r := by
  constructor
  · intro h
    unfold spec at h
    split at h
    · rename_i hany
      split at h
      · rename_i hr
        obtain ⟨e, he, hn⟩ := List.any_eq_true.mp hany
        have hr : r = .found name none := by simpa using hr
        rw [hr]
        exact .exact e he (by simpa using hn)
      · cases h
    · rename_i hany
      have hno : ∀ e ∈ confs, e.name ≠ name := by
        intro e he hn
        exact hany (List.any_eq_true.mpr ⟨e, he, by simp [hn]⟩)
      split at h
      · rename_i hv
        split at h
        · rename_i hr
          have hr : r = .errInvalid := by simpa using hr
          rw [hr]
          exact .invalid hno (by simpa using hv)
        · cases h
      · rename_i hv
        have hv : validName name = true := by simpa using hv
        split at h
        · rename_i n g
          split at h
          · cases h
          · rename_i e hf
            have he := List.mem_of_find?_eq_some hf
            have hn : e.name = n := by simpa using List.find?_some hf
            split at h
            · cases h
            · rename_i hc
              split at h
              · rename_i hall
                simp only [Bool.not_eq_true', Bool.not_eq_false, Bool.and_eq_true, beq_iff_eq] at hc
                rw [← hn]
                refine .regex e g hno hv he hc.1 hc.2 ?_
                intro e' he' hr' hm'
                have := List.all_eq_true.mp hall e' he'
                simp only [hasMatch, hr', Bool.true_and, Bool.or_eq_true, Bool.not_eq_true',
                  beq_iff_eq] at this
                rcases this with (h | h) | h
                · cases hm'' : e'.m with
                  | none => exact absurd hm'' hm'
                  | some _ => rw [hm''] at h; cases h
                · exact Or.inl h
                · exact Or.inr h
              · cases h
        · split at h
          · cases h
          · rename_i hany2
            refine .notConfigured hno hv ?_
            intro e he hr
            cases hm : e.m with
            | none => rfl
            | some g =>
              exact absurd (List.any_eq_true.mpr ⟨e, he, by simp [hasMatch, hr, hm]⟩) hany2
        · cases h
  · intro h
    cases h with
    | exact e he hn =>
      have : confs.any (fun e => e.name == name) = true := List.any_eq_true.mpr ⟨e, he, by simp [hn]⟩
      simp [spec, this]
    | invalid hno hv =>
      have : confs.any (fun e => e.name == name) = false := by
        apply Bool.eq_false_iff.mpr
        intro h
        obtain ⟨e, he, hn⟩ := List.any_eq_true.mp h
        exact hno e he (by simpa using hn)
      simp [spec, this, hv]
    | regex e g hno hv he hr hg hall =>
      have : confs.any (fun e => e.name == name) = false := by
        apply Bool.eq_false_iff.mpr
        intro h
        obtain ⟨e, he, hn⟩ := List.any_eq_true.mp h
        exact hno e he (by simpa using hn)
      have hall' : confs.all (fun e' => !hasMatch e' || e' == e || before e e') = true := by
        apply List.all_eq_true.mpr
        intro e' he'
        cases hh : hasMatch e' with
        | false => simp
        | true =>
          simp only [hasMatch, Bool.and_eq_true] at hh
          rcases hall e' he' hh.1 (by intro h0; rw [h0] at hh; simp at hh) with h | h
          · simp [h]
          · simp [h]
      simp [spec, this, hv, find?_name_some wf he, hr, hg, hall']
    | notConfigured hno hv hnone =>
      have : confs.any (fun e => e.name == name) = false := by
        apply Bool.eq_false_iff.mpr
        intro h
        obtain ⟨e, he, hn⟩ := List.any_eq_true.mp h
        exact hno e he (by simpa using hn)
      have h2 : confs.any hasMatch = false := by
        apply Bool.eq_false_iff.mpr
        intro h
        obtain ⟨e, he, hm⟩ := List.any_eq_true.mp h
        simp only [hasMatch, Bool.and_eq_true] at hm
        rw [hnone e he hm.1] at hm
        simp at hm
      simp [spec, this, hv, h2]

/-- the driver's verdict on an answer is `ok` exactly for the model's answer -/
theorem spec_ok_iff_eq_find {sort : List Entry → List Entry} (hsort : IsSort sort) {confs : List Entry}
    (wf : WF confs) (name : Bytes) (r : Res) : spec confs name r = .ok ↔ r = find sort confs name := by
  rw [spec_ok_iff wf]
  constructor
  · intro h; exact resolves_unique h (find_spec hsort wf name)
  · intro h; rw [h]; exact find_spec hsort wf name

/-! #### `Conf.Validate` establishes the hypotheses -/

def entriesOf (names : List VName) (ms : Bytes → Option (List Bytes)) : List Entry :=
  names.map fun v => ⟨v.name, isRegexName v.name, ms v.name⟩

/-- an accepted key set (distinct keys, as in a map) gives a well-formed configuration set -/
theorem validate_ok_wf {names : List VName} {fl : List Bool} (ms : Bytes → Option (List Bytes))
    (hd : (names.map (·.name)).Nodup) (hok : validateNames names = .ok fl) :
    WF (entriesOf names ms) ∧ fl = (entriesOf names ms).map (·.regex) := by
  unfold validateNames at hok
  split at hok
  · cases hok
  · rename_i hal
    split at hok
    · rename_i e he
      -- an error value is never `.ok`
      exfalso
      obtain ⟨v, _, hv⟩ := List.exists_of_findSome?_eq_some he
      subst hok
      unfold nameErr at hv
      repeat' split at hv
      all_goals cases hv
    · cases hok
      refine ⟨⟨?_, ?_⟩, ?_⟩
      · simpa [entriesOf, List.map_map, Function.comp_def] using hd
      · intro a ha b hb hA hB
        simp only [entriesOf, List.mem_map] at ha hb
        obtain ⟨va, hva, rfl⟩ := ha
        obtain ⟨vb, hvb, rfl⟩ := hb
        simp only at hA hB
        by_cases hab : va.name = vb.name
        · rw [map_nodup_inj VName.name hd va hva vb hvb hab]
        · -- two different alias names ⇒ the alias filter has length ≥ 2
          exfalso
          apply hal
          have hA' : isAlias va.name = true := by
            simp only [isAllName, Bool.or_eq_true] at hA; simp only [isAlias, Bool.or_eq_true]; exact Or.inl hA
          have hB' : isAlias vb.name = true := by
            simp only [isAllName, Bool.or_eq_true] at hB; simp only [isAlias, Bool.or_eq_true]; exact Or.inl hB
          have ha' : va ∈ names.filter (fun v => isAlias v.name) := List.mem_filter.mpr ⟨hva, hA'⟩
          have hb' : vb ∈ names.filter (fun v => isAlias v.name) := List.mem_filter.mpr ⟨hvb, hB'⟩
          generalize names.filter (fun v => isAlias v.name) = l at ha' hb'
          match l, ha', hb' with
          | [], ha', _ => cases ha'
          | [x], ha', hb' =>
            have h1 : va = x := by simpa using ha'
            have h2 : vb = x := by simpa using hb'
            exact absurd (by rw [h1, h2]) hab
          | _ :: _ :: _, _, _ => simp
      · simp [entriesOf, List.map_map, Function.comp_def]

/-! #### non-vacuity / sanity examples -/

private def eCam : Entry := ⟨asc ['~', '^', 'c', 'a', 'm'], true, some [asc ['c', 'a', 'm']]⟩
private def eAll : Entry := ⟨nAllOthers, true, some [asc ['c', 'a', 'm', '1']]⟩
private def eStatic : Entry := ⟨asc ['c', 'a', 'm', '1'], false, none⟩

example : find isort [eAll, eCam] (asc ['c', 'a', 'm', '1']) = .found eCam.name eCam.m := by decide
example : find isort [eCam, eAll] (asc ['c', 'a', 'm', '1']) = .found eCam.name eCam.m := by decide
example : find isort [eAll, eStatic, eCam] (asc ['c', 'a', 'm', '1']) = .found eStatic.name none := by decide
example : find isort [eAll, eCam] (asc ['/', 'x']) = .errInvalid := by decide
example : find isort [⟨eCam.name, true, none⟩] (asc ['x']) = .errNotConfigured := by decide
example : validName (asc ['a', '/', '.', '.', '/', 'b']) = false := by decide
example : validName (asc ['a', '/', '.', '.', '.', '/', 'b']) = true := by decide
example : WF [eAll, eStatic, eCam] := by
  constructor
  · decide
  · intro a ha b hb hA hB
    simp only [List.mem_cons, List.not_mem_nil, or_false] at ha hb
    rcases ha with rfl | rfl | rfl <;> rcases hb with rfl | rfl | rfl <;> first | rfl | (revert hA hB; decide)
example : validateNames [⟨nAll, true⟩, ⟨nTildeAll, true⟩] = .errAlias := by decide
example : validateNames [⟨nAll, true⟩, ⟨asc ['c'], true⟩] = .ok [true, false] := by decide

end MtxVerif.C14
