/-
C18 — Reader limits hold and readers are torn down when the stream goes away.  Property theorems
over the shared path state machine (Model/PathSM.lean), for every valid configuration and every
history of loop events (all interleavings of reader add/remove, publisher add/remove/replace, static
source ready/not-ready, timers, reload, close).
-/
import MtxVerif.Model.C18
import MtxVerif.Lemmas.C18Conf
import MtxVerif.Lemmas.C18Out

namespace MtxVerif.C18
open MtxVerif.PathSM

/-- every state the loop can be in: start state of a valid configuration, then any event history -/
def Reach (s : State) : Prop := ∃ c es, c.valid = true ∧ s = (run (init c) es).1

theorem reach_inv {s : State} (h : Reach s) : Inv s := by
  obtain ⟨c, es, hv, rfl⟩ := h
  exact inv_reach c hv es

theorem reach_step {s : State} (h : Reach s) (e : Event) : Reach (step s e).1 := by
  obtain ⟨c, es, hv, rfl⟩ := h
  refine ⟨c, es ++ [e], hv, ?_⟩
  have : ∀ (l : List Event) (s : State), (run s (l ++ [e])).1 = (step (run s l).1 e).1 := by
    intro l; induction l with
    | nil => intro s; rfl
    | cons x xs ih => intro s; exact ih _
  rw [this]

/-- **Limit.** A path never has more readers than its non-zero `maxReaders`
(`maxReaders` is not hot-reloadable: see `maxReaders_const`). -/
theorem readers_le_max {s : State} (h : Reach s) (hm : s.conf.maxReaders ≠ 0) :
    s.readers.length ≤ s.conf.maxReaders := (reach_inv h).bound hm

/-- the limit the loop applies is the configured one, whatever was hot-reloaded meanwhile -/
theorem maxReaders_const (c : Conf) (es : List Event) : (run (init c) es).1.conf.maxReaders = c.maxReaders := by
  have := run_conf es (init c)
  rw [initW_conf] at this
  unfold ConfEq at this
  rw [this]

/-- the limit, stated on whole histories for the configured value -/
theorem history_le_max (c : Conf) (hv : c.valid = true) (es : List Event) (hm : c.maxReaders ≠ 0) :
    (run (init c) es).1.readers.length ≤ c.maxReaders := by
  have h := readers_le_max ⟨c, es, hv, rfl⟩
  rw [maxReaders_const] at h
  exact h hm

/-- **Not counted twice.** The reader set never contains a reader twice. -/
theorem readers_nodup {s : State} (h : Reach s) : s.readers.Nodup := (reach_inv h).nodup

/-- **Re-adding an attached reader** changes neither the reader set nor anything else the limit looks
at, and is answered with the stream (never with "maximum reader count reached"). -/
theorem readd_idempotent {s : State} (h : Reach s) (hc : s.closed = false) (rid r : Nat) (hr : r ∈ s.readers) :
    (step s (.addReader rid r)).1.readers = s.readers ∧
    ∃ sid, s.stream = some sid ∧ Out.reply rid (.stream sid) ∈ (step s (.addReader rid r)).2 ∧
      Out.reply rid .maxReaders ∉ (step s (.addReader rid r)).2 := by
  have hi := reach_inv h
  have hs : s.stream.isSome = true := hi.r3 (List.ne_nil_of_mem hr)
  obtain ⟨sid, hsid⟩ := Option.isSome_iff_exists.mp hs
  have e : stepW (.addReader rid r) { s := s } =
      closeCheck (emit (.reply rid (.stream sid)) (upd (register r sid) { s := s })) := by
    unfold stepW
    rw [if_neg (by simp [hi.np]), if_neg (by simp [hc])]
    show closeCheck (doAddReader rid r { s := s }) = _
    unfold doAddReader
    rw [if_pos hs]
    unfold addReaderPost
    rw [if_pos hr]
    unfold replyReader
    simp only [hsid]
  unfold step
  rw [e]
  dsimp only
  refine ⟨by rw [closeCheck_s]; rfl, sid, hsid, ?_, ?_⟩
  · exact mem_closeCheck (by simp)
  · unfold closeCheck; split <;> simp

/-- **Readers need a stream.** Whenever the path has no stream it has no readers. -/
theorem no_stream_no_readers {s : State} (h : Reach s) (hs : s.stream = none) : s.readers = [] := by
  have hi := reach_inv h
  cases hr : s.readers with
  | nil => rfl
  | cons x xs =>
    have := hi.r3 (by rw [hr]; exact List.cons_ne_nil _ _)
    rw [hs] at this; cases this

/-- **Teardown.** Any step after which the stream that was up before is no longer the path's stream
(it became unavailable, or a new stream object took its place) has called `Close()` on every reader
that was attached before the step ... -/
theorem teardown {s : State} (h : Reach s) (e : Event) (sid : Nat) (hs : s.stream = some sid)
    (hch : (step s e).1.stream ≠ some sid) :
    ∀ r ∈ s.readers, Out.readerClosed r ∈ (step s e).2 :=
  teardown_stepW e { s := s } (reach_inv h) sid hs hch

/-- ... and if the path is left without a stream, every reader has been detached. -/
theorem teardown_detached {s : State} (h : Reach s) (e : Event) (hn : (step s e).1.stream = none) :
    (step s e).1.readers = [] :=
  no_stream_no_readers (reach_step h e) hn

/-- a closed path holds no reader and no stream -/
theorem closed_clean {s : State} (h : Reach s) (hc : s.closed = true) : s.readers = [] ∧ s.stream = none :=
  ⟨((reach_inv h).cl hc).2.1, ((reach_inv h).cl hc).1⟩

/-- **Path termination.** Destroying the path (`close`) calls `Close()` on every attached reader —
also on an alwaysAvailable path without a publisher — and leaves neither reader nor stream. -/
theorem close_closes_all_readers {s : State} (h : Reach s) (hc : s.closed = false) :
    (∀ r ∈ s.readers, Out.readerClosed r ∈ (step s .close).2) ∧
    (step s .close).1.readers = [] ∧ (step s .close).1.stream = none := by
  have hi := reach_inv h
  have hcl : (step s .close).1.closed = true := by
    unfold step stepW
    rw [if_neg (by simp [hi.np]), if_neg (by simp [hc])]
    show (doClose _).s.closed = true
    rw [doClose_s]
  have hclean := closed_clean (reach_step h .close) hcl
  refine ⟨?_, hclean.1, hclean.2⟩
  intro r hr
  obtain ⟨sid, hsid⟩ := Option.isSome_iff_exists.mp (hi.r3 (List.ne_nil_of_mem hr))
  exact teardown h .close sid hsid (by rw [hclean.2]; simp) r hr

/-- The model never reaches one of the Go panics it makes explicit (nil hook call, double
`Handler.Start`, `Handler.Stop` while stopped, failed type assertion, "should not happen"). -/
theorem no_panic {s : State} (h : Reach s) : s.panicked = false := (reach_inv h).np

/-! #### non-vacuity -/

def cPub : Conf := { kind := .publisher, overridePublisher := true, maxReaders := 2 }

/-- publisher, two readers admitted, third refused, re-add accepted, replacement closes both. -/
example : (run (init cPub)
    [.addPublisher 1 true, .addReader 1 10, .addReader 2 11, .addReader 3 12, .addReader 4 10,
     .addPublisher 2 true]).2 =
  [[.hook .avail true, .hook .online true, .pathReady, .pubReply (.ok 0)],
   [.reply 1 (.stream 0)], [.reply 2 (.stream 0)], [.reply 3 .maxReaders], [.reply 4 (.stream 0)],
   [.pubClosed 1, .pathNotReady, .hook .online false, .readerClosed 10, .readerClosed 11, .hook .avail false,
    .hook .avail true, .hook .online true, .pathReady, .pubReply (.ok 1)]] := by decide

/-- a failed sub-stream initialisation leaves no stream behind (regression for finding `subinit-fail`) -/
example : (run (init cPub) [.addPublisher 1 false]).1.stream = none ∧
    (run (init cPub) [.addPublisher 1 false]).2 =
      [[.hook .avail true, .hook .online true, .pathReady, .pathNotReady, .hook .online false, .hook .avail false,
        .pubReply .subErr]] := by decide

example : cPub.valid = true := by decide

end MtxVerif.C18
