/-
C35 — no unauthenticated network input crashes the server.  Property theorems (partial by design).

What is proved: for ALL inputs, the models of the MediaMTX-owned code that handles client-chosen
bytes before authentication never reach the `panic` outcome (index / slice out of range, division by
zero), i.e. they cannot be the cause of a process exit (HTTP handlers run under `handlerExitOnPanic`,
which turns a panic into `os.Exit(1)`; a panic in a connection goroutine kills the process too).

What is NOT proved: anything about the third-party protocol stacks (gortsplib, gortmplib, gosrt, pion,
quic-go, net/http, gin) that parse the bytes first — see `level_note` in props/C35.json.
-/
import MtxVerif.Model.C35
import MtxVerif.Lemmas.C32Moq
import MtxVerif.Gen.C35

namespace MtxVerif.C35

/-! ### helpers -/

theorem idx_ok (l : List α) (i : Nat) (h : i < l.length) : idx l (i : Int) = .ok l[i] := by
  unfold idx
  have : ¬ ((i : Int) < 0) := by omega
  simp [this, h]

theorem idx_ne_panic (l : List α) (i : Int) (h0 : 0 ≤ i) (h : i < l.length) : idx l i ≠ .panic := by
  unfold idx
  have : ¬ (i < 0) := by omega
  simp only [this, if_false]
  have hl : i.toNat < l.length := by omega
  simp [hl]

theorem sliceR_ne_panic (s : List α) (lo hi : Int) (h : 0 ≤ lo ∧ lo ≤ hi ∧ hi ≤ s.length) :
    sliceR s lo hi ≠ .panic := by
  unfold sliceR; simp [h]

theorem sliceFrom_ne_panic (s : List α) (lo : Int) (h : 0 ≤ lo ∧ lo ≤ s.length) :
    sliceFrom s lo ≠ .panic := by
  unfold sliceFrom; exact sliceR_ne_panic s lo _ ⟨h.1, h.2, Int.le_refl _⟩

theorem bind_ne_panic {r : R α} {f : α → R β} (h1 : r ≠ .panic) (h2 : ∀ v, r = .ok v → f v ≠ .panic) :
    r.bind f ≠ .panic := by
  cases r with
  | ok v => exact h2 v rfl
  | err => simp [R.bind]
  | panic => exact absurd rfl h1

@[simp] theorem bind_eq (r : R α) (f : α → R β) : (r >>= f) = r.bind f := rfl
@[simp] theorem pure_eq (v : α) : (pure v : R α) = .ok v := rfl

theorem hasPrefix_len {p s : Bytes} (h : hasPrefix p s = true) : p.length ≤ s.length := by
  unfold hasPrefix at h
  have := congrArg List.length (beq_iff_eq.mp h)
  simp at this; omega

theorem hasSuffix_len {p s : Bytes} (h : hasSuffix p s = true) : p.length ≤ s.length := by
  unfold hasSuffix at h
  simp at h; exact h.1

theorem splitOn_ne_nil (sep : UInt8) (b : Bytes) : splitOn sep b ≠ [] := by
  induction b with
  | nil => simp [splitOn]
  | cons c cs ih =>
    unfold splitOn
    cases h : splitOn sep cs with
    | nil => exact absurd h ih
    | cons x t => simp only []; split <;> simp

/-! ### SRT stream id -/

theorem srtStdKV_total (s : StreamID) (kv : Bytes) : srtStdKV s kv ≠ .panic := by
  unfold srtStdKV
  generalize splitN2 61 kv = kv2
  match kv2 with
  | [] => simp
  | [_] => simp
  | [k, v] =>
    simp only [List.length_cons, List.length_nil, ne_eq, not_true_eq_false, if_false, bind_eq, pure_eq]
    have h0 := idx_ok [k, v] 0 (by simp)
    have h1 := idx_ok [k, v] 1 (by simp)
    simp only [Int.natCast_zero, Int.natCast_one] at h0 h1
    simp only [h0, h1, R.bind, List.getElem_cons_zero, List.getElem_cons_succ]
    repeat' split
    all_goals simp
  | _ :: _ :: _ :: _ => simp

theorem srtStdLoop_total (s : StreamID) (kvs : List Bytes) : srtStdLoop s kvs ≠ .panic := by
  induction kvs generalizing s with
  | nil => simp [srtStdLoop]
  | cons kv rest ih =>
    simp only [srtStdLoop, bind_eq]
    exact bind_ne_panic (srtStdKV_total s kv) fun s' _ => ih s'

theorem mode_ne_panic (a : Bytes)
    (h : (if a = asc ['r', 'e', 'a', 'd'] then R.ok false
      else if a = asc ['p', 'u', 'b', 'l', 'i', 's', 'h'] then R.ok true else R.err) = R.panic) : False := by
  split at h
  · cases h
  · split at h <;> cases h

theorem srtLegacy_total (raw : Bytes) : srtLegacy raw ≠ .panic := by
  unfold srtLegacy
  generalize splitOn 58 raw = parts
  match parts with
  | [] => simp
  | [_] => simp
  | [a, b] =>
    simp [idx, R.bind]
    repeat' split
    all_goals first | (simp; done) | (exfalso; rename_i heq; exact mode_ne_panic _ heq)
  | [a, b, c] =>
    simp [idx, R.bind]
    repeat' split
    all_goals first | (simp; done) | (exfalso; rename_i heq; exact mode_ne_panic _ heq)
  | [a, b, c, d] =>
    simp [idx, R.bind]
    repeat' split
    all_goals first | (simp; done) | (exfalso; rename_i heq; exact mode_ne_panic _ heq)
  | [a, b, c, d, e] =>
    simp [idx, R.bind]
    repeat' split
    all_goals first | (simp; done) | (exfalso; rename_i heq; exact mode_ne_panic _ heq)
  | _ :: _ :: _ :: _ :: _ :: _ :: t =>
    simp only [List.length_cons]
    split
    · simp
    · rename_i h; exfalso; apply h; omega

/-- **SRT**: no stream id string makes `streamID.unmarshal` index out of range -/
theorem srt_total (raw : Bytes) : srtUnmarshal raw ≠ .panic := by
  unfold srtUnmarshal
  split
  · rename_i h
    have hl := hasPrefix_len h
    simp only [bind_eq]
    refine bind_ne_panic (sliceFrom_ne_panic _ _ ⟨by omega, ?_⟩) fun rest _ => srtStdLoop_total _ _
    simp [asc] at hl ⊢; omega
  · exact srtLegacy_total raw

/-! ### HTTP credentials and the empty-path filter -/

/-- **credentials**: whatever the Authorization header values -/
theorem credentials_total (auths : List Bytes) (basic : Bytes × Bytes) :
    credentials auths basic ≠ .panic := by
  induction auths with
  | nil => simp [credentials]
  | cons a rest ih =>
    unfold credentials
    split
    · rename_i h
      have hl := hasPrefix_len h
      simp only [bind_eq]
      refine bind_ne_panic (sliceFrom_ne_panic _ _ ⟨by omega, by omega⟩) fun tok _ => ?_
      generalize splitOn 58 tok = parts
      match parts with
      | [] => simp
      | [_] => simp
      | [u, p] => simp [idx, R.bind]
      | _ :: _ :: _ :: _ => simp
    · exact ih

theorem filterPath_total (p : Bytes) : filterPath p ≠ .panic := by
  unfold filterPath
  cases p with
  | nil => simp
  | cons c cs => simp [idx, R.bind]

/-- a path that passed the filter starts with `/` -/
theorem filterPath_pass (p : Bytes) (h : filterPath p = .ok true) : ∃ rest, p = 47 :: rest := by
  unfold filterPath at h
  cases p with
  | nil => simp at h
  | cons c cs =>
    simp [idx, R.bind] at h
    exact ⟨cs, by rw [h]⟩

/-! ### HLS -/

theorem hlsRoute_total_of_nonempty (isGet : Bool) (p q oDir oBase oClean : Bytes) (hp : p ≠ []) :
    hlsRoute isGet p q oDir oBase oClean ≠ .panic := by
  unfold hlsRoute
  split
  · simp
  · have hl : 1 ≤ p.length := by
      cases p with
      | nil => exact absurd rfl hp
      | cons _ _ => simp
    simp only [bind_eq]
    refine bind_ne_panic (sliceFrom_ne_panic _ _ ⟨by omega, by omega⟩) fun pa _ => ?_
    repeat' split
    all_goals try simp
    -- the index branch: `dir[:len(dir)-1]` after `HasSuffix(dir, "/")`
    rename_i hs
    have : hasSuffix (asc ['/']) pa = true := by simpa using hs
    have hl2 := hasSuffix_len this
    simp [asc] at hl2
    refine bind_ne_panic (sliceR_ne_panic _ _ _ ⟨by omega, by omega, by omega⟩) fun _ _ => ?_
    simp

/-- **HLS**: behind the empty-path filter, no request path makes `onRequest` slice out of range -/
theorem hls_total (isGet : Bool) (p q oDir oBase oClean : Bytes) :
    hlsServe isGet p q oDir oBase oClean ≠ .panic := by
  unfold hlsServe
  simp only [bind_eq]
  refine bind_ne_panic (filterPath_total p) fun pass hpass => ?_
  cases pass with
  | false => simp
  | true =>
    obtain ⟨rest, rfl⟩ := filterPath_pass p hpass
    simp only [if_true]
    exact bind_ne_panic (hlsRoute_total_of_nonempty _ _ _ _ _ _ (by simp)) fun _ _ => by simp

/-- the filter is load-bearing: `URL.Path[1:]` on the empty path (absolute-form request target
`GET http://host HTTP/1.1`) is a slice out of range, which `handlerExitOnPanic` turns into exit(1) -/
theorem hlsRoute_needs_filter (q d b c : Bytes) : hlsRoute true [] q d b c = .panic := by
  simp [hlsRoute, sliceFrom, sliceR, R.bind]

/-! ### WebRTC / WHIP -/

theorem pagePub (p : Bytes)
    (h : (decide (p.length > slashPublish.length) && hasSuffix slashPublish p) = true) :
    ((sliceR p 1 ((p.length : Int) - slashPublish.length)).bind fun name =>
      R.ok (RtcRoute.page name true)) ≠ .panic := by
  simp at h
  have hl : slashPublish.length = 8 := by decide
  rw [hl] at h ⊢
  refine bind_ne_panic (sliceR_ne_panic _ _ _ ⟨by omega, by omega, by omega⟩) fun _ _ => by simp

theorem pageRead (p q oClean : Bytes) (h : p.length ≥ 2) :
    ((idx p ((p.length : Int) - 1)).bind fun last =>
      if (last != 47) = true then R.ok (RtcRoute.redirect (trailingSlashLocation oClean q))
      else (sliceR p 1 ((p.length : Int) - 1)).bind fun name => R.ok (RtcRoute.page name false))
      ≠ .panic := by
  refine bind_ne_panic (idx_ne_panic _ _ (by omega) (by omega)) fun last _ => ?_
  split
  · simp
  · exact bind_ne_panic (sliceR_ne_panic _ _ _ ⟨by omega, by omega, by omega⟩) fun _ _ => by simp

/-- **WebRTC**: `FindStringSubmatch` returns 1 + (number of groups) strings when it matches; under
that contract of the regexp package no method / path makes `onRequest` index out of range -/
theorem rtc_total (meth : Method) (p q : Bytes) (m1 m2 : Option (List Bytes)) (oClean : Bytes)
    (h1 : ∀ m, m1 = some m → m.length = 3) (h2 : ∀ m, m2 = some m → m.length = 4) :
    rtcRoute meth p q m1 m2 oClean ≠ .panic := by
  unfold rtcRoute
  cases m1 with
  | some m =>
    have := h1 m rfl
    match m, this with
    | [a, b, c], _ => cases meth <;> simp [idx, R.bind]
  | none =>
    cases m2 with
    | some m =>
      have := h2 m rfl
      match m, this with
      | [a, b, c, d], _ => cases meth <;> simp [idx, R.bind]
    | none =>
      simp only [bind_eq, pure_eq]
      split
      · simp
      · split
        · simp
        · split
          · simp
          · split
            · simp
            · split
              · rename_i hlen
                split
                · rename_i hp; exact pagePub p hp
                · exact pageRead p q oClean hlen
              · simp

/-! ### API -/

theorem paramName_total (name : Bytes) : paramName name ≠ .panic := by
  unfold paramName
  split
  · intro h; cases h
  · rename_i h
    simp only [bind_eq]
    refine bind_ne_panic (idx_ne_panic _ _ (by omega) (by omega)) fun c _ => ?_
    split
    · intro h; cases h
    · exact bind_ne_panic (sliceFrom_ne_panic _ _ ⟨by omega, by omega⟩) fun _ _ => by
        intro h; cases h

/-- accepted parameters are never zero items per page -/
theorem parseParams_pos (a b : Bytes) (ipp page : Nat) (h : C44.parseParams a b = some (ipp, page)) :
    0 < ipp := by
  have key : ∀ (k : Nat) (x : Option (Nat × Nat)), 0 < k →
      (x = some (k, 0) ∨ (∃ p, x = some (k, p)) ∨ x = none) → x = some (ipp, page) → 0 < ipp := by
    intro k x hk hx he
    rcases hx with hx | ⟨p, hx⟩ | hx
    · rw [hx] at he; injection he with he; injection he with h1 _; omega
    · rw [hx] at he; injection he with he; injection he with h1 _; omega
    · rw [hx] at he; cases he
  unfold C44.parseParams at h
  by_cases ha : a.isEmpty
  · simp [ha] at h
    refine key 100 _ (by decide) ?_ h
    split
    · exact Or.inl rfl
    · cases C44.parseUint31 b with
      | none => exact Or.inr (Or.inr rfl)
      | some p => exact Or.inr (Or.inl ⟨p, rfl⟩)
  · simp only [ha, Bool.false_eq_true, if_false] at h
    cases hp : C44.parseUint31 a with
    | none => simp [hp] at h
    | some v =>
      cases v with
      | zero => simp [hp] at h
      | succ n =>
        simp only [hp] at h
        refine key (n + 1) _ (by omega) ?_ h
        split
        · exact Or.inl rfl
        · cases C44.parseUint31 b with
          | none => exact Or.inr (Or.inr rfl)
          | some p => exact Or.inr (Or.inl ⟨p, rfl⟩)

/-- **pagination**: no division by zero, no slice out of range, for every list length and parameters -/
theorem paginate_total (len : Nat) (ippStr pageStr : Bytes) : paginateR len ippStr pageStr ≠ .panic := by
  unfold paginateR
  cases h : C44.parseParams ippStr pageStr with
  | none => simp
  | some v =>
    obtain ⟨ipp, page⟩ := v
    have hpos := parseParams_pos _ _ _ _ h
    simp only []
    split
    · simp
    · have hd : divR (len : Int) (ipp : Int) = .ok ((len : Int) / ipp) := by
        unfold divR; have : (ipp : Int) ≠ 0 := by omega
        simp [this]; omega
      simp only [bind_eq, hd, R.bind]
      have hle : min (page * ipp) len ≤ min ((page + 1) * ipp) len := by
        have : page * ipp ≤ (page + 1) * ipp := Nat.mul_le_mul_right _ (by omega)
        omega
      refine bind_ne_panic (sliceR_ne_panic _ _ _ ⟨by omega, by omega, ?_⟩) fun _ _ => by simp
      simp; omega

/-! ### MoQ (from C32): the decoders that run on the first bytes of every stream -/

theorem moq_total (b : Bytes) :
    (C32.readMsg b).r ≠ .panic ∧ (C32.readSubGroup b).r ≠ .panic :=
  ⟨C32.total_readMsg b, C32.total_readSubGroup b⟩

/-! ### connection → access request (SRT, RTMP, RTSP) -/

/-- **SRT conn**: stream id → request mapping -/
theorem srtConn_total (raw : Bytes) : srtConnRequest raw ≠ .panic := by
  unfold srtConnRequest
  simp only [bind_eq]
  exact bind_ne_panic (srt_total raw) fun _ _ => by simp

/-- **RTMP conn**: no indexing at all (`strings.TrimLeft`) -/
theorem rtmpConn_total (pub : Bool) (p q u w : Bytes) : rtmpConnRequest pub p q u w ≠ .panic := by
  simp [rtmpConnRequest]

/-- **RTSP** `onDescribe` / `onAnnounce` / `onSetup`: the guard dominates `ctx.Path[1:]` -/
theorem rtspStrip_total (path : Bytes) : rtspStrip path ≠ .panic := by
  unfold rtspStrip
  split
  · intro h; cases h
  · rename_i h
    simp only [bind_eq]
    refine bind_ne_panic (idx_ne_panic _ _ (by omega) (by omega)) fun c _ => ?_
    split
    · intro h; cases h
    · exact sliceFrom_ne_panic _ _ ⟨by omega, by omega⟩

/-- **RTSP** `rsession.Path()[1:]` after an accepted ANNOUNCE -/
theorem rtspStored_total (announced : Bytes) : rtspStoredPathName announced ≠ .panic := by
  unfold rtspStoredPathName
  simp only [bind_eq]
  refine bind_ne_panic (rtspStrip_total announced) fun v hv => ?_
  have hl : 1 ≤ announced.length := by
    unfold rtspStrip at hv
    split at hv
    · cases hv
    · omega
  exact sliceFrom_ne_panic _ _ ⟨by omega, by omega⟩

/-- …and it is the same name `onAnnounce` passed to the path manager -/
theorem rtspStored_eq (announced name : Bytes) (h : rtspStrip announced = .ok name) :
    rtspStoredPathName announced = .ok name := by
  unfold rtspStoredPathName
  simp only [bind_eq, h, R.bind]
  unfold rtspStrip at h
  split at h
  · cases h
  · simp only [bind_eq] at h
    cases hi : idx announced 0 with
    | ok c =>
      rw [hi] at h; simp only [R.bind] at h
      split at h
      · cases h
      · exact h
    | err => rw [hi] at h; cases h
    | panic => rw [hi] at h; cases h

/-! ### path-name validation and the playback server -/

theorem isValidPathName_total (name : Bytes) (reOk : Bool) : isValidPathName name reOk ≠ .panic := by
  unfold isValidPathName
  cases name with
  | nil => simp
  | cons c cs =>
    simp only [List.isEmpty_cons, Bool.false_eq_true, if_false, bind_eq]
    refine bind_ne_panic (idx_ne_panic _ _ (by omega) (by simp)) fun c0 _ => ?_
    split
    · intro h; cases h
    · refine bind_ne_panic (idx_ne_panic _ _ (by simp) (by simp; omega)) fun cl _ => ?_
      repeat' split
      all_goals (intro h; cases h)

/-- **playback /get**: whatever the query parameters and whatever the library parsers answer -/
theorem playbackGet_total (path : Bytes) (reOk authOk startOk durOk confOk : Bool) (format : Bytes) :
    playbackGet path reOk authOk startOk durOk confOk format ≠ .panic := by
  unfold playbackGet
  simp only [bind_eq]
  refine bind_ne_panic (isValidPathName_total _ _) fun v _ => ?_
  repeat' split
  all_goals (intro h; cases h)

/-- **playback /list** -/
theorem playbackList_total (path : Bytes) (reOk authOk confOk : Bool) (st en : Bytes) (sOk eOk : Bool) :
    playbackList path reOk authOk confOk st en sOk eOk ≠ .panic := by
  unfold playbackList
  simp only [bind_eq]
  refine bind_ne_panic (isValidPathName_total _ _) fun v _ => ?_
  repeat' split
  all_goals (intro h; cases h)

/-- **Content-Type**: `strings.Split(v, ";")[0]` always exists -/
theorem parseContentType_total (v : Bytes) : parseContentType v ≠ .panic := by
  unfold parseContentType
  simp only [bind_eq]
  have := splitOn_ne_nil 59 v
  cases h : splitOn 59 v with
  | nil => exact absurd h this
  | cons x t => simp [idx, R.bind]

/-! ### the request logger in front of every HTTP handler -/

/-- **dumpRequest**: the logged part of the body never depends on the declared Content-Length
(−1 for chunked / HTTP-2 bodies) and the truncation slice is in range -/
theorem dumpCapped_total (contentLength : Int) (body : Bytes) : dumpCapped contentLength body ≠ .panic := by
  unfold dumpCapped
  simp only []
  split
  · rename_i h
    simp only [bind_eq]
    refine bind_ne_panic (sliceR_ne_panic _ _ _ ⟨by omega, by omega, ?_⟩) fun _ _ => by intro h; cases h
    simp only [logPeek, List.length_take] at h ⊢; omega
  · intro h; cases h

/-! ### media packets of an anonymous publisher (WebRTC inbound track) -/

/-- **stripTWCCExtension**: under pion/rtp's contract (`GetExtension(id) != nil` only if an element
with that id exists) `DelExtension` cannot fail, so the `panic(err)` is unreachable -/
theorem stripTWCC_total (twccID : Nat) (p : RtpExt) (getNonNil : Bool)
    (h : getNonNil = true → twccID ∈ p.ids) : stripTWCC twccID p getNonNil ≠ .panic := by
  unfold stripTWCC
  split
  · intro h'; cases h'
  · rename_i hg
    simp only [Bool.or_eq_true, Bool.not_eq_true', not_or] at hg
    have hm := h (by cases getNonNil <;> simp_all)
    have : p.ids.contains twccID = true := by simpa using hm
    simp only [this, Bool.not_true, Bool.false_eq_true, if_false]
    split <;> (intro h'; cases h')

/-- the guard matters: a packet that has an extension block but no TWCC element, treated as if
`GetExtension` had answered non-nil (the seeded "fast path" `!pkt.Extension`), reaches the panic -/
theorem stripTWCC_needs_guard : stripTWCC 3 ⟨true, 0xBEDE, [1]⟩ true = .panic := by decide

/-! ### the scoped property -/

/-- the modelled pre-authentication code never panics, whatever the client sends -/
theorem preauth_owned_code_total :
    (∀ raw, srtUnmarshal raw ≠ .panic) ∧ (∀ raw, srtConnRequest raw ≠ .panic) ∧
    (∀ pub p q u w, rtmpConnRequest pub p q u w ≠ .panic) ∧
    (∀ p, rtspStrip p ≠ .panic) ∧ (∀ p, rtspStoredPathName p ≠ .panic) ∧
    (∀ auths basic, credentials auths basic ≠ .panic) ∧
    (∀ p, filterPath p ≠ .panic) ∧
    (∀ g p q d b c, hlsServe g p q d b c ≠ .panic) ∧
    (∀ meth p q m1 m2 c, (∀ m, m1 = some m → m.length = 3) → (∀ m, m2 = some m → m.length = 4) →
      rtcRoute meth p q m1 m2 c ≠ .panic) ∧
    (∀ v, parseContentType v ≠ .panic) ∧
    (∀ name, paramName name ≠ .panic) ∧
    (∀ len a b, paginateR len a b ≠ .panic) ∧
    (∀ n re, isValidPathName n re ≠ .panic) ∧
    (∀ p re a s d c f, playbackGet p re a s d c f ≠ .panic) ∧
    (∀ p re a c s e so eo, playbackList p re a c s e so eo ≠ .panic) ∧
    (∀ id p g, (g = true → id ∈ p.ids) → stripTWCC id p g ≠ .panic) ∧
    (∀ b, (C32.readMsg b).r ≠ .panic ∧ (C32.readSubGroup b).r ≠ .panic) :=
  ⟨srt_total, srtConn_total, rtmpConn_total, rtspStrip_total, rtspStored_total, credentials_total,
   filterPath_total, hls_total,
   fun meth p q m1 m2 c h1 h2 => rtc_total meth p q m1 m2 c h1 h2, parseContentType_total,
   paramName_total, paginate_total, isValidPathName_total, playbackGet_total, playbackList_total,
   stripTWCC_total, moq_total⟩

/-! ### MoQ: what the session indexes after decoding -/

theorem dec_bind_ok_inv {d : C32.Dec α} {f : α → C32.Dec β} {b : Bytes} {v : β} {r : Bytes}
    (h : (C32.Dec.bind d f b).r = .ok v r) : ∃ w r1, (d b).r = .ok w r1 ∧ (f w r1).r = .ok v r := by
  rw [C32.bind_r] at h
  cases hd : (d b).r with
  | ok w r1 => rw [hd] at h; exact ⟨w, r1, rfl, h⟩
  | err e => rw [hd] at h; cases h
  | panic => rw [hd] at h; cases h

/-- `onDataCatalog` reads `sg.Objects[0]`: a successfully read subgroup has exactly one object -/
theorem moq_subgroup_one_object (b : Bytes) (s : C32.SubGroup) (rest : Bytes)
    (h : (C32.readSubGroup b).r = .ok s rest) : s.objects.length = 1 := by
  simp only [C32.readSubGroup, C32.bind_eq, C32.pure_eq] at h
  obtain ⟨hd, r1, _, h⟩ := dec_bind_ok_inv h
  obtain ⟨o1, r2, _, h⟩ := dec_bind_ok_inv h
  obtain ⟨_, r3, _, h⟩ := dec_bind_ok_inv h
  obtain ⟨o2, r4, _, h⟩ := dec_bind_ok_inv h
  obtain ⟨_, r5, _, h⟩ := dec_bind_ok_inv h
  simp at h
  rw [← h.1]
  rfl

/-! ### tie to the source: inventory of index / slice expressions and of the authentication boundary

`Gen/C35.lean` is regenerated from /repo at every check.  The two `rfl` theorems state that the
inventory is EXACTLY the reviewed list below: a new index or slice expression in the inventoried
pre-authentication code, or a new function calling the path manager / authentication manager, changes
the generated list and breaks the build until it is reviewed (modelled, or classified). -/

inductive Cover
  | model (name : String)      -- obligation carried by the named model of Model/C35 (proved total)
  | map                        -- map / header lookup: cannot panic
  | fixed                      -- slice of a fixed-size array with constant bounds
  | guarded (by_ : String)     -- not a client string; guarded in the same function as quoted
  | postAuth (why : String)    -- only reachable after the authentication boundary

/-- expected inventory, each row with what covers its run-time check -/
def expectedSites : List ((String × String × String) × Cover) := [
  (("internal/protocols/httpp/credentials.go", "Credentials", "h.Header[\"Authorization\"]"), .map),
  (("internal/protocols/httpp/credentials.go", "Credentials", "auth[len(\"Bearer \"):]"), .model "credentials"),
  (("internal/protocols/httpp/credentials.go", "Credentials", "parts[0]"), .model "credentials"),
  (("internal/protocols/httpp/credentials.go", "Credentials", "parts[1]"), .model "credentials"),
  (("internal/protocols/httpp/credentials.go", "Credentials", "auth[len(\"Bearer \"):]"), .model "credentials"),
  (("internal/protocols/httpp/handler_filter_requests.go", "*handlerFilterRequests.ServeHTTP", "r.URL.Path[0]"), .model "filterPath"),
  (("internal/protocols/httpp/content_type.go", "ParseContentType", "strings.Split(v, \";\")[0]"), .model "parseContentType"),
  (("internal/protocols/httpp/handler_logger.go", "dumpRequest", "capped[:maxRequestBodySizeToLog]"), .model "dumpCapped"),
  (("internal/protocols/httpp/handler_logger.go", "dumpRequest", "req.Header[k]"), .map),
  (("internal/protocols/httpp/handler_logger.go", "dumpRequest", "requestHeadersToRedact[http.CanonicalHeaderKey(k)]"), .map),
  (("internal/protocols/httpp/handler_logger.go", "*responseRecorder.Write", "requestBodyContentTypeToLog[contentType]"), .map),
  (("internal/protocols/httpp/handler_exit_on_panic.go", "*handlerExitOnPanic.ServeHTTP", "buf[:n]"), .guarded "n = runtime.Stack(buf) <= len(buf)"),
  (("internal/conf/path.go", "IsValidPathName", "name[0]"), .model "isValidPathName"),
  (("internal/conf/path.go", "IsValidPathName", "name[len(name)-1]"), .model "isValidPathName"),
  (("internal/servers/srt/streamid.go", "*streamID.unmarshal", "raw[len(\"#!::\"):]"), .model "srtUnmarshal"),
  (("internal/servers/srt/streamid.go", "*streamID.unmarshal", "kv2[0]"), .model "srtUnmarshal"),
  (("internal/servers/srt/streamid.go", "*streamID.unmarshal", "kv2[1]"), .model "srtUnmarshal"),
  (("internal/servers/srt/streamid.go", "*streamID.unmarshal", "parts[len(parts)-1]"), .model "srtUnmarshal"),
  (("internal/servers/srt/streamid.go", "*streamID.unmarshal", "parts[len(parts)-1]"), .model "srtUnmarshal"),
  (("internal/servers/srt/streamid.go", "*streamID.unmarshal", "parts[0]"), .model "srtUnmarshal"),
  (("internal/servers/srt/streamid.go", "*streamID.unmarshal", "parts[1]"), .model "srtUnmarshal"),
  (("internal/servers/srt/streamid.go", "*streamID.unmarshal", "parts[2]"), .model "srtUnmarshal"),
  (("internal/servers/srt/streamid.go", "*streamID.unmarshal", "parts[3]"), .model "srtUnmarshal"),
  (("internal/servers/srt/streamid.go", "*streamID.unmarshal", "parts[2]"), .model "srtUnmarshal"),
  (("internal/servers/srt/streamid.go", "*streamID.unmarshal", "parts[4]"), .model "srtUnmarshal"),
  (("internal/servers/rtsp/conn.go", "*conn.onDescribe", "ctx.Path[0]"), .model "rtspStrip"),
  (("internal/servers/rtsp/conn.go", "*conn.onDescribe", "ctx.Path[1:]"), .model "rtspStrip"),
  (("internal/servers/rtsp/session.go", "findSingleMPEGTSFormat", "desc.Medias[0]"), .guarded "len(desc.Medias) != 1 || len(Formats) != 1 returns first"),
  (("internal/servers/rtsp/session.go", "findSingleMPEGTSFormat", "desc.Medias[0].Formats[0]"), .guarded "len(desc.Medias) != 1 || len(Formats) != 1 returns first"),
  (("internal/servers/rtsp/session.go", "findSingleMPEGTSFormat", "desc.Medias[0]"), .guarded "len(desc.Medias) != 1 || len(Formats) != 1 returns first"),
  (("internal/servers/rtsp/session.go", "findSingleMPEGTSFormat", "desc.Medias[0]"), .guarded "len(desc.Medias) != 1 || len(Formats) != 1 returns first"),
  (("internal/servers/rtsp/session.go", "*session.Log", "s.uuid[:4]"), .fixed),
  (("internal/servers/rtsp/session.go", "*session.onAnnounce", "ctx.Path[0]"), .model "rtspStrip"),
  (("internal/servers/rtsp/session.go", "*session.onAnnounce", "ctx.Path[1:]"), .model "rtspStrip"),
  (("internal/servers/rtsp/session.go", "*session.onAnnounce", "ctx.Request.Header[\"User-Agent\"]"), .map),
  (("internal/servers/rtsp/session.go", "*session.onAnnounce", "ua[0]"), .guarded "len(ua) > 0"),
  (("internal/servers/rtsp/session.go", "*session.onSetup", "ctx.Path[0]"), .model "rtspStrip"),
  (("internal/servers/rtsp/session.go", "*session.onSetup", "ctx.Path[1:]"), .model "rtspStrip"),
  (("internal/servers/rtsp/session.go", "*session.onSetup", "s.transports[gortsplib.ProtocolTCP]"), .map),
  (("internal/servers/rtsp/session.go", "*session.onSetup", "ctx.Request.Header[\"User-Agent\"]"), .map),
  (("internal/servers/rtsp/session.go", "*session.onSetup", "ua[0]"), .guarded "len(ua) > 0"),
  (("internal/servers/rtsp/session.go", "*session.onRecord", "s.rsession.Path()[1:]"), .model "rtspStoredPathName"),
  (("internal/servers/rtsp/session.go", "*session.onRecord", "s.rsession.Path()[1:]"), .model "rtspStoredPathName"),
  (("internal/servers/rtsp/session.go", "*session.apiItem", "pa[1:]"), .guarded "len(pa) >= 1"),
  (("internal/servers/hls/http_server.go", "*httpServer.onRequest", "ctx.Request.URL.Path[1:]"), .model "hlsRoute"),
  (("internal/servers/hls/http_server.go", "*httpServer.onRequest", "dir[:len(dir)-1]"), .model "hlsRoute"),
  (("internal/servers/webrtc/http_server.go", "*httpServer.onWHIPOptions", "ctx.Writer.Header()[\"Link\"]"), .map),
  (("internal/servers/webrtc/http_server.go", "*httpServer.onWHIPPost", "ctx.Writer.Header()[\"Link\"]"), .map),
  (("internal/servers/webrtc/http_server.go", "*httpServer.onRequest", "m[1]"), .model "rtcRoute"),
  (("internal/servers/webrtc/http_server.go", "*httpServer.onRequest", "m[2]"), .model "rtcRoute"),
  (("internal/servers/webrtc/http_server.go", "*httpServer.onRequest", "m[1]"), .model "rtcRoute"),
  (("internal/servers/webrtc/http_server.go", "*httpServer.onRequest", "m[2]"), .model "rtcRoute"),
  (("internal/servers/webrtc/http_server.go", "*httpServer.onRequest", "m[3]"), .model "rtcRoute"),
  (("internal/servers/webrtc/http_server.go", "*httpServer.onRequest", "m[3]"), .model "rtcRoute"),
  (("internal/servers/webrtc/http_server.go", "*httpServer.onRequest", "ctx.Request.URL.Path[1 : len(ctx.Request.URL.Path)-len(\"/publish\")]"), .model "rtcRoute"),
  (("internal/servers/webrtc/http_server.go", "*httpServer.onRequest", "ctx.Request.URL.Path[len(ctx.Request.URL.Path)-1]"), .model "rtcRoute"),
  (("internal/servers/webrtc/http_server.go", "*httpServer.onRequest", "ctx.Request.URL.Path[1 : len(ctx.Request.URL.Path)-1]"), .model "rtcRoute"),
  (("internal/servers/moq/session.go", "*session.Log", "s.uuid[:4]"), .fixed),
  (("internal/servers/moq/session.go", "*session.runUniStream", "firstByte[0]"), .guarded "br.Peek(1) returned no error"),
  (("internal/servers/moq/session.go", "truncateReason", "s[:maxReasonLen]"), .guarded "len(s) > maxReasonLen"),
  (("internal/servers/moq/session.go", "*session.onSubscribeTrack", "s.setupTracks[trackID]"), .postAuth "0 <= trackID < len(s.setupTracks) checked under the mutex"),
  (("internal/servers/moq/session.go", "*session.onPublishCatalog", "writeFuncs[trackAlias]"), .map),
  (("internal/servers/moq/session.go", "*session.onPublishCatalog", "s.inboundTracks[trackAlias]"), .map),
  (("internal/servers/moq/session.go", "*session.onDataCatalog", "sg.Objects[0]"), .postAuth "SubGroup.Read returns exactly one object (moq_subgroup_one_object)"),
  (("internal/servers/moq/session.go", "*session.onDataTrack", "s.inboundTracks[sg.Header.TrackAlias]"), .map),
  (("internal/api/api.go", "paramName", "name[0]"), .model "paramName"),
  (("internal/api/api.go", "paramName", "name[1:]"), .model "paramName"),
  (("internal/playback/on_list.go", "*Server.onList", "entries[0]"), .postAuth "after doAuth and FindSegments; entries non-empty checks in place (not modelled)"),
  (("internal/playback/on_list.go", "*Server.onList", "entries[1:]"), .postAuth "after doAuth and FindSegments; entries non-empty checks in place (not modelled)"),
  (("internal/playback/on_list.go", "*Server.onList", "entries[0]"), .postAuth "after doAuth and FindSegments; entries non-empty checks in place (not modelled)"),
  (("internal/playback/on_list.go", "*Server.onList", "entries[0]"), .postAuth "after doAuth and FindSegments; entries non-empty checks in place (not modelled)"),
  (("internal/playback/on_list.go", "*Server.onList", "entries[len(entries)-1]"), .postAuth "after doAuth and FindSegments; entries non-empty checks in place (not modelled)"),
  (("internal/playback/on_list.go", "*Server.onList", "entries[len(entries)-1]"), .postAuth "after doAuth and FindSegments; entries non-empty checks in place (not modelled)"),
  (("internal/playback/on_list.go", "*Server.onList", "entries[i]"), .postAuth "after doAuth and FindSegments; entries non-empty checks in place (not modelled)"),
  (("internal/playback/on_list.go", "*Server.onList", "entries[i]"), .postAuth "after doAuth and FindSegments; entries non-empty checks in place (not modelled)"),
  (("internal/playback/on_list.go", "*Server.onList", "entries[i]"), .postAuth "after doAuth and FindSegments; entries non-empty checks in place (not modelled)")
]

def expectedBoundary : List (String × String × String) := [
  ("internal/servers/srt/conn.go", "*conn.runPublish", "FindPathConf"),
  ("internal/servers/srt/conn.go", "*conn.runPublishReader", "AddPublisher"),
  ("internal/servers/srt/conn.go", "*conn.runRead", "AddReader"),
  ("internal/servers/rtmp/conn.go", "*conn.runRead", "AddReader"),
  ("internal/servers/rtmp/conn.go", "*conn.runPublish", "FindPathConf"),
  ("internal/servers/rtmp/conn.go", "*conn.runPublish", "AddPublisher"),
  ("internal/servers/rtsp/conn.go", "*conn.onDescribe", "Describe"),
  ("internal/servers/rtsp/session.go", "*session.onAnnounce", "FindPathConf"),
  ("internal/servers/rtsp/session.go", "*session.onSetup", "AddReader"),
  ("internal/servers/rtsp/session.go", "*session.onRecord", "AddPublisher"),
  ("internal/servers/hls/http_server.go", "*httpServer.onRequest", "FindPathConf"),
  ("internal/servers/webrtc/http_server.go", "*httpServer.checkAuthOutsideSession", "FindPathConf"),
  ("internal/servers/webrtc/http_server.go", "*httpServer.onWHIPOptions", "checkAuthOutsideSession"),
  ("internal/servers/webrtc/http_server.go", "*httpServer.onWHIPPost", "newSession"),
  ("internal/servers/webrtc/http_server.go", "*httpServer.onPage", "checkAuthOutsideSession"),
  ("internal/servers/moq/session.go", "*session.onSubscribeCatalog", "AddReader"),
  ("internal/servers/moq/session.go", "*session.onSubscribeTrack", "AddReader"),
  ("internal/servers/moq/session.go", "*session.onPublishCatalog", "AddPublisher"),
  ("internal/playback/server.go", "*Server.safeFindPathConf", "FindPathConf"),
  ("internal/playback/server.go", "*Server.doAuth", "Authenticate"),
  ("internal/playback/on_get.go", "*Server.onGet", "doAuth"),
  ("internal/playback/on_list.go", "*Server.onList", "doAuth")
]

/-- the index / slice expressions of the inventoried code are exactly the reviewed ones -/
theorem sites_inventory : Gen.C35.sites = expectedSites.map (·.1) := rfl

/-- the functions that call the authentication boundary are exactly the reviewed ones -/
theorem boundary_inventory : Gen.C35.boundary = expectedBoundary := rfl

/-- run-time sized `make`s in the inventoried code: none is sized by a client-declared length
(`len(req.Header)` is the size of an already parsed map; `1<<20` is a constant) -/
def expectedMakes : List (String × String × String) := [
  ("internal/protocols/httpp/handler_logger.go", "dumpRequest", "make([]string, 0, len(req.Header))"),
  ("internal/protocols/httpp/handler_exit_on_panic.go", "*handlerExitOnPanic.ServeHTTP", "make([]byte, 1<<20)")
]

/-- `close(ch)` sites of the MoQ session: `s.done` (once, deferred in `run`), `s.setupReceived` (inside
`processSetupMessage`, in the `default` branch of a `select` on the same channel, under `s.mutex` — the
check and the close are atomic; moving either is a new row), `streamClosed` (local channel),
`s.publishReady` (under the mutex, state-guarded) -/
def expectedCloses : List (String × String × String) := [
  ("internal/servers/moq/session.go", "*session.run", "close(s.done)"),
  ("internal/servers/moq/session.go", "*session.processSetupMessage", "close(s.setupReceived)"),
  ("internal/servers/moq/session.go", "*session.onSubscribeTrack", "close(streamClosed)"),
  ("internal/servers/moq/session.go", "*session.onPublishCatalog", "close(s.publishReady)")
]

/-- why a `panic(` in network-reachable code cannot fire -/
inductive PanicCover
  | stub                        -- unimplemented method of an adapter type, never called
  | model (name : String)       -- unreachable by the totality theorem of the named model
  | invariant (why : String)    -- local state invariant (read, not modelled)
  | library (why : String)      -- depends on a third-party contract or a local (non-input) error

def expectedPanics : List ((String × String × String) × PanicCover) := [
  (("internal/protocols/hls/to_stream.go", "ToStream", "!pathConf.UseAbsoluteTimestamp ; !avail ; !avail => panic(\"should not happen\")"), .invariant "NTP state machine: PacketNTP/AbsoluteTime is available once the state is ntpStateAvailable; exhaustive type switch"),
  (("internal/protocols/hls/to_stream.go", "ToStream", "!avail ; !avail ; avail ; err != nil => panic(\"should not happen\")"), .invariant "NTP state machine: PacketNTP/AbsoluteTime is available once the state is ntpStateAvailable; exhaustive type switch"),
  (("internal/protocols/rtsp/to_stream.go", "ToStream", "!pathConf.UseAbsoluteTimestamp ; !avail ; !avail => panic(\"should not happen\")"), .invariant "NTP state machine: PacketNTP/AbsoluteTime is available once the state is ntpStateAvailable; exhaustive type switch"),
  (("internal/protocols/udp/listener.go", "*Listener.Write", " => panic(\"unimplemented\")"), .stub),
  (("internal/protocols/udp/listener.go", "*Listener.LocalAddr", " => panic(\"unimplemented\")"), .stub),
  (("internal/protocols/udp/listener.go", "*Listener.RemoteAddr", " => panic(\"unimplemented\")"), .stub),
  (("internal/protocols/udp/listener.go", "*Listener.SetDeadline", " => panic(\"unimplemented\")"), .stub),
  (("internal/protocols/udp/listener.go", "*Listener.SetWriteDeadline", " => panic(\"unimplemented\")"), .stub),
  (("internal/protocols/unix/listener.go", "*Listener.Write", " => panic(\"unimplemented\")"), .stub),
  (("internal/protocols/unix/listener.go", "*Listener.LocalAddr", " => panic(\"unimplemented\")"), .stub),
  (("internal/protocols/unix/listener.go", "*Listener.RemoteAddr", " => panic(\"unimplemented\")"), .stub),
  (("internal/protocols/unix/listener.go", "*Listener.SetDeadline", " => panic(\"unimplemented\")"), .stub),
  (("internal/protocols/unix/listener.go", "*Listener.SetWriteDeadline", " => panic(\"unimplemented\")"), .stub),
  (("internal/protocols/webrtc/inbound_track.go", "*InboundTrack.stripTWCCExtension", "t.twccExtID == 0 || pkt.GetExtension(t.twccExtID) == nil ; err != nil => panic(err)"), .model "stripTWCC"),
  (("internal/protocols/webrtc/inbound_track.go", "*InboundTrack.start", "val == 1 ; err != nil => panic(err)"), .library "local initialisation error (rtpreceiver.Initialize / crypto/rand), not input dependent"),
  (("internal/protocols/webrtc/inbound_track.go", "*InboundTrack.start", "val == 1 ; err != nil ; err2 != nil ; err2 != nil => panic(err2)"), .library "rtcp.Unmarshal after pion/interceptor has already validated the packet (comment in the source) - NOT verified here"),
  (("internal/protocols/webrtc/inbound_track.go", "*InboundTrack.start", "ok ; t.track.Kind() == webrtc.RTPCodecTypeVideo ; err2 != nil ; err != nil => panic(err)"), .library "rtcp.Unmarshal after pion/interceptor has already validated the packet (comment in the source) - NOT verified here"),
  (("internal/protocols/webrtc/outbound_track.go", "*OutboundTrack.setup", "err != nil ; err != nil ; err2 != nil ; err2 != nil => panic(err2)"), .library "rtcp.Unmarshal after pion/interceptor has already validated the packet - NOT verified here"),
  (("internal/protocols/webrtc/to_stream.go", "ToStream", "channels > 1 ; !pathConf.UseAbsoluteTimestamp ; !avail ; !avail => panic(\"should not happen\")"), .invariant "NTP state machine: PacketNTP/AbsoluteTime is available once the state is ntpStateAvailable; exhaustive type switch")
]

/-- every `panic(` of internal/protocols and internal/servers, with the guards that precede it, is one
of the reviewed rows: a new panic, or a changed guard in front of one (e.g. the `GetExtension … == nil`
guard of stripTWCCExtension), breaks the build -/
theorem panics_inventory : Gen.C35.panics = expectedPanics.map (·.1) := rfl

theorem makes_inventory : Gen.C35.makes = expectedMakes := rfl
theorem closes_inventory : Gen.C35.closes = expectedCloses := rfl

/-- the three RTSP handlers start with the modelled guard + strip; httpp.Server installs the
empty-path filter around every router -/
theorem guards_in_place : Gen.C35.rtspGuards = true ∧ Gen.C35.filterBeforeRouter = true := by decide

/-! ### non-vacuity / examples -/

example : srtUnmarshal (asc ['r','e','a','d',':','a',':','u',':','p',':','q']) =
    .ok { publish := false, path := asc ['a'], query := asc ['q'], user := asc ['u'], pass := asc ['p'] } := by
  decide
example : srtUnmarshal (asc ['#','!',':',':','r','=','x',',','m','=','p','u','b','l','i','s','h']) =
    .ok { publish := true, path := asc ['x'] } := by decide
example : srtUnmarshal (asc ['#','!',':',':']) = .err := by decide
example : hlsServe true (asc ['/','a','/']) [] [] [] [] = .ok (some (.index (asc ['a']))) := by decide
example : hlsServe true [] [] [] [] [] = .ok none := by decide
example : rtcRoute .get (asc ['/','a','/']) [] none none [] = .ok (.page (asc ['a']) false) := by decide

end MtxVerif.C35
