/-
C21 — ties of the property theorems (Lemmas/C21Core.lean) to the CURRENT source: facts regenerated on
every run by tools/xlate/c21 into Gen/C21.lean.  If the extractor no longer finds a fact, only this file
stops building (tie broken); the theorems of the core file and the driver are unaffected.
-/
import MtxVerif.Lemmas.C21Core
import MtxVerif.Gen.C21

namespace MtxVerif.C21

/-- the `Wait` closure of the current source returns the exit code (the driver's model assumes it) -/
theorem tie_wait_returns_code : MtxVerif.Gen.C21.waitReturnsExitCode = true := rfl


/-- the source applies `expandEnv` to the elements of `shellquote.Split`'s result -/
theorem tie_expand_after_split : MtxVerif.Gen.C21.expandAfterSplit = true := rfl

/-- On the CURRENT source every status is either reported correctly or lies in the known class. -/
theorem exit_current (code : Nat) (h : code ≠ 0) :
    exitReport MtxVerif.Gen.C21.waitReturnsExitCode code = some code ∨
    exitCodeDropped MtxVerif.Gen.C21.waitReturnsExitCode code = true := by
  cases hd : exitCodeDropped MtxVerif.Gen.C21.waitReturnsExitCode code
  · exact Or.inl ((exit_reported_partial _ code hd).1 h)
  · exact Or.inr rfl


end MtxVerif.C21
