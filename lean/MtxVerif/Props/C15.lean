/-
C15 — live paths reconcile with configuration after reloads.  Property theorems.

Histories: `Reach V orc P pm` = `pm` is reached from a validated initial configuration set by events
(`reload`, `deliver`, client requests) each satisfying `okEv` (validated sets; client requests at quiet
paths) and the side condition `P`.  `P = fun _ _ => True` is "all histories, all delivery orders".

  * all histories, all orders, code as is:  `live_resolves`, `no_nil_conf_panic`
  * in-order delivery (or variant `fixOrder`):  `static_have_paths`, `conf_is_resolved`
  * no stale migration (or variant `fixGroups`):  `groups_are_resolved`
  * the property's first sentence at full strength = `reconciled_full` — FALSE for the code as is
    (`reconciled_full_false_order` F-C15a, `reconciled_full_false_groups` F-C15b, both decided on concrete
    histories), proved under the two side conditions (`reconciled_partial`) and, with no side condition,
    for the repaired variant (`reconciled_fixed`)
  * the second sentence, per reload step:  `hot_change_keeps`, `other_change_recreates`
  * `specState_ok_iff`: the check the driver runs on the implementation's state IS `Reconciled`.
-/
import MtxVerif.Lemmas.C15InvB
import MtxVerif.Gen.C15

namespace MtxVerif.C15

inductive Reach (V : Variant) (orc : Oracle) (P : PM → Ev → Prop) : PM → Prop
  | init {confs : List Conf} : WFconfs confs → Reach V orc P (initPM confs)
  | step {pm : PM} {ev : Ev} : Reach V orc P pm → okEv pm ev → P pm ev → Reach V orc P (step V orc pm ev)

def Quiescent (pm : PM) : Prop := ∀ p ∈ pm.paths, p.mailbox = []

/-- the first sentence of the property, for a configuration set and the live paths -/
structure Reconciled (orc : Oracle) (confs : List Conf) (D : List LivePath) : Prop where
  /-- every static path configuration has a live path -/
  static : ∀ c ∈ confs, c.regex = false → ∃ p ∈ D, p.name = c.name
  /-- every live path's name resolves, and the path runs with exactly the configuration and the capture
  groups resolution selects -/
  live : ∀ p ∈ D, ∃ c m, resolve orc confs p.name = some (c, m) ∧ p.conf = c ∧ p.confName = c.name ∧
    p.groups = groupsOf m

/-! ### invariants hold along histories -/

theorem reach_invA {V : Variant} {orc : Oracle} {P : PM → Ev → Prop} {pm : PM} (h : Reach V orc P pm) :
    InvA orc pm := by
  induction h with
  | init wf => exact (init_inv wf).1
  | step _ hok _ ih => exact invA_step ih hok

theorem reach_invB {V : Variant} {orc : Oracle} {P : PM → Ev → Prop}
    (hP : V.fixOrder = true ∨ ∀ pm ev, P pm ev → Fifo ev) {pm : PM} (h : Reach V orc P pm) : InvB pm := by
  induction h with
  | init wf => exact (init_inv (orc := orc) wf).2.1
  | step hr hok hp ih =>
    refine invB_step (reach_invA hr) ih hok ?_
    rcases hP with h | h
    · exact Or.inl h
    · exact Or.inr (h _ _ hp)

theorem reach_invG {V : Variant} {orc : Oracle} {P : PM → Ev → Prop}
    (hP : V.fixGroups = true ∨ ∀ pm ev, P pm ev → NoStale orc pm ev) {pm : PM} (h : Reach V orc P pm) :
    InvG orc pm := by
  induction h with
  | init wf => exact (init_inv wf).2.2
  | step hr hok hp ih =>
    refine invG_step (reach_invA hr) ih hok ?_
    rcases hP with h | h
    · exact Or.inl h
    · exact Or.inr (h _ _ hp)

/-! ### the clauses -/

/-- every live path's name still resolves to a configuration (the one the pathManager files it under) —
every history, every delivery order, code as is -/
theorem live_resolves {V : Variant} {orc : Oracle} {pm : PM} (h : Reach V orc (fun _ _ => True) pm) :
    ∀ p ∈ pm.paths, ∃ c m, resolve orc pm.confs p.name = some (c, m) ∧ c.name = p.confName :=
  (reach_invA h).res

/-- `pm.pathConfs[pa.confName]` is never nil in `doReloadConf` (the model's explicit panic is unreachable) -/
theorem no_nil_conf_panic {V : Variant} {orc : Oracle} {pm : PM} (h : Reach V orc (fun _ _ => True) pm) :
    pm.panicked = false :=
  (reach_invA h).noPanic

/-- every static path configuration has a live path (in-order delivery) -/
theorem static_have_paths {orc : Oracle} {pm : PM} (h : Reach asIs orc (fun _ ev => Fifo ev) pm) :
    ∀ c ∈ pm.confs, c.regex = false → ∃ p ∈ pm.paths, p.name = c.name :=
  (reach_invB (Or.inr fun _ _ hp => hp) h).stat

/-- each quiet live path runs with exactly the configuration resolution selects (in-order delivery) -/
theorem conf_is_resolved {orc : Oracle} {pm : PM} (h : Reach asIs orc (fun _ ev => Fifo ev) pm) :
    ∀ p ∈ pm.paths, p.mailbox = [] →
      ∃ m, resolve orc pm.confs p.name = some (p.conf, m) ∧ p.confName = p.conf.name :=
  fun p hp hq => conf_resolved ((reach_invA h).res p hp) ((reach_invB (Or.inr fun _ _ hp => hp) h).eff p hp) hq

/-- each live path carries the capture groups resolution selects (no migration with other groups) -/
theorem groups_are_resolved {orc : Oracle} {pm : PM} (h : Reach asIs orc (fun pm ev => NoStale orc pm ev) pm) :
    ∀ p ∈ pm.paths, ∃ c m, resolve orc pm.confs p.name = some (c, m) ∧ p.groups = groupsOf m :=
  reach_invG (Or.inr fun _ _ hp => hp) h

theorem reconciled_of_inv {orc : Oracle} {pm : PM} (a : InvA orc pm) (b : InvB pm) (g : InvG orc pm)
    (hq : Quiescent pm) : Reconciled orc pm.confs pm.paths := by
  constructor
  · exact b.stat
  · intro p hp
    obtain ⟨m, hr, hcn⟩ := conf_resolved (a.res p hp) (b.eff p hp) (hq p hp)
    obtain ⟨c', m', hr', hg⟩ := g p hp
    rw [hr] at hr'
    simp only [Option.some.injEq, Prod.mk.injEq] at hr'
    exact ⟨p.conf, m, hr, rfl, hcn, by rw [hg, hr'.2]⟩

/-- **the property's first sentence at full strength**: after ANY history (any delivery order), at
quiescence the live paths are reconciled with the configuration.  False for the code as is. -/
def reconciled_full : Prop :=
  ∀ (orc : Oracle) (pm : PM), Reach asIs orc (fun _ _ => True) pm → Quiescent pm →
    Reconciled orc pm.confs pm.paths

/-- proved for the code as is under the two explicit side conditions: pending configurations reach a
path in order (F-C15a) and no path migrates to a configuration with other capture groups (F-C15b) -/
theorem reconciled_partial {orc : Oracle} {pm : PM}
    (h : Reach asIs orc (fun pm ev => Fifo ev ∧ NoStale orc pm ev) pm) (hq : Quiescent pm) :
    Reconciled orc pm.confs pm.paths :=
  reconciled_of_inv (reach_invA h) (reach_invB (Or.inr fun _ _ hp => hp.1) h)
    (reach_invG (Or.inr fun _ _ hp => hp.2) h) hq

/-- one theorem for every variant: a side condition is needed only for the defect that is not repaired -/
theorem reconciled_variant {V : Variant} {orc : Oracle} {P : PM → Ev → Prop}
    (hO : V.fixOrder = true ∨ ∀ pm ev, P pm ev → Fifo ev)
    (hG : V.fixGroups = true ∨ ∀ pm ev, P pm ev → NoStale orc pm ev)
    {pm : PM} (h : Reach V orc P pm) (hq : Quiescent pm) : Reconciled orc pm.confs pm.paths :=
  reconciled_of_inv (reach_invA h) (reach_invB hO h) (reach_invG hG h) hq

/-- with only the capture-group repair (notes/C15-fix-stale-groups.diff): in-order delivery is the only
side condition left -/
theorem reconciled_groupsFixed {orc : Oracle} {pm : PM}
    (h : Reach ⟨true, false⟩ orc (fun _ ev => Fifo ev) pm) (hq : Quiescent pm) :
    Reconciled orc pm.confs pm.paths :=
  reconciled_variant (Or.inr fun _ _ hp => hp) (Or.inl rfl) h hq

/-- the full statement holds for the repaired variant: every history, every delivery order -/
theorem reconciled_fixed {orc : Oracle} {pm : PM} (h : Reach fixed orc (fun _ _ => True) pm)
    (hq : Quiescent pm) : Reconciled orc pm.confs pm.paths :=
  reconciled_of_inv (reach_invA h) (reach_invB (Or.inl rfl) h) (reach_invG (Or.inl rfl) h) hq

/-! ### the driver's state check is `Reconciled` -/

theorem specState_ok (orc : Oracle) (confs : List Conf) (D : List LivePath) :
    specState orc confs [] [] D = .ok ↔
      (condStatic confs [] D = true ∧ condResolve orc confs D = true ∧ condConf orc confs [] D = true ∧
        condGroups orc confs [] D = true) := by
  unfold specState
  cases condStatic confs [] D <;> cases condResolve orc confs D <;> cases condConf orc confs [] D <;>
    cases condGroups orc confs [] D <;> simp

theorem specState_ok_iff (orc : Oracle) (confs : List Conf) (D : List LivePath) :
    specState orc confs [] [] D = .ok ↔ Reconciled orc confs D := by
  have hA : condStatic confs [] D = true ↔ ∀ c ∈ confs, c.regex = false → ∃ p ∈ D, p.name = c.name := by
    unfold condStatic
    rw [List.all_eq_true]
    constructor
    · intro h c hc hs
      have := h c hc
      rw [hs, Bool.false_or, List.contains_nil, Bool.or_false] at this
      exact hasPath_true this
    · intro h c hc
      cases hs : c.regex with
      | true => rfl
      | false =>
        obtain ⟨p, hp, hn⟩ := h c hc hs
        have : hasPath D c.name = true := List.any_eq_true.mpr ⟨p, hp, by simp [hn]⟩
        rw [this]; rfl
  rw [specState_ok]
  constructor
  · intro ⟨h1, _, h3, h4⟩
    refine ⟨hA.mp h1, ?_⟩
    intro p hp
    unfold condConf at h3
    unfold condGroups at h4
    have c3 := List.all_eq_true.mp h3 p hp
    have c4 := List.all_eq_true.mp h4 p hp
    cases hr : resolve orc confs p.name with
    | none => rw [hr] at c3; simp at c3
    | some cm =>
      obtain ⟨c, m⟩ := cm
      rw [hr] at c3 c4
      simp only [List.contains_nil, Bool.false_or, Bool.and_eq_true, beq_iff_eq] at c3 c4
      exact ⟨c, m, rfl, c3.1, c3.2, c4⟩
  · intro h
    refine ⟨hA.mpr h.static, ?_, ?_, ?_⟩
    · unfold condResolve
      rw [List.all_eq_true]
      intro p hp
      obtain ⟨c, m, hr, _⟩ := h.live p hp
      rw [hr]; rfl
    · unfold condConf
      rw [List.all_eq_true]
      intro p hp
      obtain ⟨c, m, hr, hc, hcn, _⟩ := h.live p hp
      rw [hr]; simp [hc, hcn]
    · unfold condGroups
      rw [List.all_eq_true]
      intro p hp
      obtain ⟨c, m, hr, _, _, hg⟩ := h.live p hp
      rw [hr]; simp [hg]

/-! ### witnesses: the full statement fails for the code as is -/

theorem wf_single (c : Conf) : WFconfs [c] := by
  constructor
  · simp
  · intro a ha b hb _ _
    rw [List.mem_singleton.mp ha, List.mem_singleton.mp hb]

private def nX : Bytes := asc ['x']
private def orcNone : Oracle := fun _ _ => none

/-- F-C15a: static path `x`; two hot reloads; the second pending configuration is received first -/
private def histOrder : PM :=
  step asIs orcNone (step asIs orcNone (step asIs orcNone (step asIs orcNone (initPM [⟨nX, false, 0, 0⟩])
    (.reload [⟨nX, false, 1, 0⟩])) (.reload [⟨nX, false, 2, 0⟩])) (.deliver nX 1)) (.deliver nX 0)

theorem reconciled_full_false_order : ¬ reconciled_full := by
  intro h
  have hr : Reach asIs orcNone (fun _ _ => True) histOrder :=
    .step (.step (.step (.step (.init (wf_single _)) (wf_single _) trivial) (wf_single _) trivial) trivial trivial)
      trivial trivial
  have hq : Quiescent histOrder := by
    show ∀ p ∈ histOrder.paths, p.mailbox = []
    decide
  have := (specState_ok_iff _ _ _).mpr (h orcNone histOrder hr hq)
  revert this
  decide

private def nCam1 : Bytes := asc ['c', 'a', 'm', '1']
private def nRA : Bytes := asc ['~', 'A']
private def nRB : Bytes := asc ['~', 'B']
/-- `~A` matches `cam1` with group "1", `~B` with group "c" -/
private def orcAB : Oracle := fun cn n =>
  if n = nCam1 then
    (if cn = nRA then some [nCam1, asc ['1']] else if cn = nRB then some [nCam1, asc ['c']] else none)
  else none

/-- F-C15b: a publisher creates `cam1` under `~A`; `~A` is replaced by `~B` with the same values -/
private def histGroups : PM :=
  step asIs orcAB (step asIs orcAB (step asIs orcAB (initPM [⟨nRA, true, 0, 0⟩]) (.pub nCam1))
    (.reload [⟨nRB, true, 0, 0⟩])) (.deliver nCam1 0)

theorem okPub : okEv (initPM [⟨nRA, true, 0, 0⟩]) (.pub nCam1) := by
  show ∀ p ∈ (initPM [⟨nRA, true, 0, 0⟩]).paths, p.name = nCam1 → p.mailbox = []
  decide

theorem reconciled_full_false_groups : ¬ reconciled_full := by
  intro h
  have hr : Reach asIs orcAB (fun _ _ => True) histGroups :=
    .step (.step (.step (.init (wf_single _)) okPub trivial) (wf_single _) trivial) trivial trivial
  have hq : Quiescent histGroups := by
    show ∀ p ∈ histGroups.paths, p.mailbox = []
    decide
  have := (specState_ok_iff _ _ _).mpr (h orcAB histGroups hr hq)
  revert this
  decide

/-- the same two histories are reconciled in the repaired variant (the path is recreated / takes the
latest configuration) -/
example : (step fixed orcNone (step fixed orcNone (step fixed orcNone (step fixed orcNone
    (initPM [⟨nX, false, 0, 0⟩]) (.reload [⟨nX, false, 1, 0⟩])) (.reload [⟨nX, false, 2, 0⟩]))
    (.deliver nX 1)) (.deliver nX 0)).paths.map (·.conf.hot) = [2] := by decide
example : (step fixed orcAB (step fixed orcAB (initPM [⟨nRA, true, 0, 0⟩]) (.pub nCam1))
    (.reload [⟨nRB, true, 0, 0⟩])).paths = [] := by decide

/-! ### the second sentence: kept / recreated, per reload -/

/-- a change limited to hot-reloadable fields (the path's name resolves to the configuration it already
has, other fields equal) keeps the path object and its clients -/
theorem hot_change_keeps {V : Variant} {orc : Oracle} {pm : PM} (a : InvA orc pm) (b : InvB pm)
    {new : List Conf} {p : LivePath} (hp : p ∈ pm.paths) {nc : Conf} {m : Option (List Bytes)}
    (hr : resolve orc new p.name = some (nc, m)) (hname : nc.name = p.confName)
    (hcold : nc.cold = p.effective.cold) :
    ∃ q ∈ (reload V orc pm new).paths, q.name = p.name ∧ q.inc = p.inc ∧ q.pub = p.pub ∧ q.readers = p.readers := by
  have heff := b.eff p hp
  have hnot : (toRecreate pm.confs new).contains nc.name = false := by
    apply Bool.eq_false_iff.mpr
    intro hc
    obtain ⟨c, hcm, hcn, n', hl, _, hu⟩ := toRecreate_mem hc
    have hce : c = p.effective := by
      have := lookup_mem a.wf.nodup hcm
      rw [hcn, hname, heff] at this
      exact (Option.some.inj this).symm
    rw [(resolve_some hr).2] at hl
    rw [← Option.some.inj hl, hce] at hu
    unfold canUpdate at hu
    rw [hcold] at hu
    simp at hu
  have hdec : decidePath V orc pm.confs new p = .hot nc ∨ decidePath V orc pm.confs new p = .keep := by
    unfold decidePath
    rw [hr]
    dsimp only
    split
    · rename_i h; simp [hname] at h
    · split
      · rename_i h; rw [hnot] at h; cases h
      · split
        · exact Or.inl rfl
        · exact Or.inr rfl
  have : ∃ q, applyDec p (decidePath V orc pm.confs new p) = some q := by
    rcases hdec with h | h <;> rw [h] <;> exact ⟨_, rfl⟩
  obtain ⟨q, hq⟩ := this
  obtain ⟨h1, h2, h3, h4, _⟩ := applyDec_some hq
  exact ⟨q, reload_kept_mem hp hq, h1, h2, h3, h4⟩

/-- any other change — the name no longer resolves, or a field that is not hot-reloadable differs —
ends the path object (a static configuration gets a new one, without clients) -/
theorem other_change_recreates {V : Variant} {orc : Oracle} {pm : PM} (a : InvA orc pm) (b : InvB pm)
    {new : List Conf} {p : LivePath} (hp : p ∈ pm.paths)
    (hchg : resolve orc new p.name = none ∨
      ∃ nc m, resolve orc new p.name = some (nc, m) ∧ nc.cold ≠ p.effective.cold) :
    ∀ q ∈ (reload V orc pm new).paths, q.inc ≠ p.inc := by
  have heff := b.eff p hp
  have hclose : applyDec p (decidePath V orc pm.confs new p) = none := by
    rcases hchg with hr | ⟨nc, m, hr, hcold⟩
    · unfold decidePath; rw [hr]; rfl
    · have hcu : canUpdate p.effective nc = false := by
        unfold canUpdate
        cases hb : (p.effective.cold == nc.cold) with
        | false => rfl
        | true => exact absurd (by simpa using hb : p.effective.cold = nc.cold).symm hcold
      unfold decidePath
      rw [hr]
      dsimp only
      by_cases hname : nc.name = p.confName
      · have hmem := lookup_some heff
        have hl : lookup new p.effective.name = some nc := by rw [hmem.2, ← hname]; exact (resolve_some hr).2
        have hne : nc ≠ p.effective := fun e => hcold (by rw [e])
        have := mem_toRecreate hmem.1 hl hne hcu
        rw [hmem.2, ← hname] at this
        split
        · rename_i h; simp [hname] at h
        · first
          | rfl
          | (split
             · rfl
             · rename_i h; exact absurd this h)
      · split
        · unfold EffOK at heff
          rw [heff]
          dsimp only
          simp only [hcu, Bool.false_and, Bool.false_eq_true, if_false]
          rfl
        · rename_i h
          exact absurd (by simpa using h) hname
  intro q hq hinc
  rcases mem_reload hq with ⟨p', hp', hpq⟩ | ⟨c, _, _, i, hi, _, rfl⟩
  · have : p' = p := key_inj (·.inc) a.incs p' hp' p hp (by rw [← (applyDec_some hpq).2.1]; exact hinc)
    rw [this, hclose] at hpq
    cases hpq
  · have := a.incLt p hp
    simp only [mkPath] at hinc
    omega

/-! ### facts regenerated from the source (tools/xlate/c15) -/

/-- `pathConfCanBeUpdated` has the shape `clone := old.Clone(); clone.X = new.X …; return new.Equal(clone)`
(checked by the extractor) and the overwritten fields are exactly: name, regexp, forwarding, recording, and
these camera controls — the property's hot-reloadable fields.  Everything else is `cold` in the model. -/
theorem hot_fields_fact : Gen.C15.hotAssigned =
    ["Name", "Regexp", "Forward",
     "Record", "RecordPath", "RecordFormat", "RecordPartDuration", "RecordMaxPartSize", "RecordSegmentDuration",
     "RecordDeleteAfter",
     "RPICameraBrightness", "RPICameraContrast", "RPICameraSaturation", "RPICameraSharpness", "RPICameraExposure",
     "RPICameraFlickerPeriod", "RPICameraAWB", "RPICameraAWBGains", "RPICameraDenoise", "RPICameraShutter",
     "RPICameraMetering", "RPICameraGain", "RPICameraEV", "RPICameraFPS", "RPICameraTextOverlayEnable",
     "RPICameraTextOverlay", "RPICameraIDRPeriod", "RPICameraBitrate"] := rfl

/-- `doReloadConf` hands a configuration to a path with `go pa.reloadConf(c)` (two call sites): hence the
mailbox with arbitrary delivery order in the model -/
theorem reload_is_go_fact : Gen.C15.reloadIsGo = true ∧ Gen.C15.reloadConfCalls = 2 := ⟨rfl, rfl⟩

/-! ### non-vacuity -/

/-- a history satisfying both side conditions that exercises reload, in-order delivery and clients -/
example : Reach asIs orcAB (fun pm ev => Fifo ev ∧ NoStale orcAB pm ev)
    (step asIs orcAB (step asIs orcAB (step asIs orcAB (initPM [⟨nRA, true, 0, 0⟩]) (.pub nCam1))
      (.reload [⟨nRA, true, 3, 0⟩])) (.deliver nCam1 0)) :=
  .step (.step (.step (.init (wf_single _)) okPub ⟨trivial, trivial⟩) (wf_single _)
    ⟨trivial, by
      show ∀ p ∈ (step asIs orcAB (initPM [⟨nRA, true, 0, 0⟩]) (.pub nCam1)).paths, ∀ nc m,
        resolve orcAB [⟨nRA, true, 3, 0⟩] p.name = some (nc, m) → nc.name ≠ p.confName → groupsOf m = p.groups
      intro p hp nc m hr hn
      have hpp : (step asIs orcAB (initPM [⟨nRA, true, 0, 0⟩]) (.pub nCam1)).paths =
          [mkPath ⟨nRA, true, 0, 0⟩ nCam1 (some [nCam1, asc ['1']]) 0 |> setPub true] := by decide
      rw [hpp] at hp
      rw [List.mem_singleton.mp hp] at hr hn ⊢
      have : resolve orcAB [⟨nRA, true, 3, 0⟩] nCam1 = some (⟨nRA, true, 3, 0⟩, some [nCam1, asc ['1']]) := by decide
      rw [show (setPub true (mkPath ⟨nRA, true, 0, 0⟩ nCam1 (some [nCam1, asc ['1']]) 0)).name = nCam1 from rfl, this] at hr
      simp only [Option.some.injEq, Prod.mk.injEq] at hr
      exact absurd (by rw [← hr.1]; rfl) hn⟩) trivial ⟨rfl, trivial⟩

example : (step asIs orcAB (step asIs orcAB (step asIs orcAB (initPM [⟨nRA, true, 0, 0⟩]) (.pub nCam1))
      (.reload [⟨nRA, true, 3, 0⟩])) (.deliver nCam1 0)).paths.map (fun p => (p.conf.hot, p.groups, p.pub)) =
    [(3, [asc ['1']], true)] := by decide

end MtxVerif.C15
