/-
C17 — readers get the publisher's units in order; drops are counted.  Property theorems
(all quantified over every event list from the empty stream and every queue size).

Property at full strength = `order` + `at_most_once` + `only_subscribed` + `accounting` +
`skip_only_when_full` + `silent_after_remove` (+ `written_is_history` tying the ghost field to the events,
`no_backlog_when_idle`: an accepted unit is handed over as soon as the reader is free).
-/
import MtxVerif.Model.C17

namespace MtxVerif.C17

/-- invariant of one reader (without the quiescence part) -/
structure RCore (r : Rd) : Prop where
  sub : (r.delivered ++ r.q).Sublist r.written
  acct : r.written.length = r.delivered.length + r.discarded + r.q.length + r.dropped
  subs : ∀ u ∈ r.written, r.subs.contains u.fmt = true
  bound : r.q.length ≤ r.cap
  detached : r.attached = false → r.q = [] ∧ r.infl = none
  noDrop : r.attached = true → r.dropped = 0

/-- invariant of one reader between two events -/
structure RInv (r : Rd) : Prop where
  core : RCore r
  idleEmpty : r.idle = true → r.q = []

theorem rinv_fresh (id : Nat) (subs : List Nat) (cap : Nat) :
    RInv { id := id, subs := subs, cap := cap } := by
  constructor
  · constructor <;> simp
  · simp

/-- the goroutine's pull re-establishes quiescence -/
theorem rinv_settle {r : Rd} (h : RCore r) : RInv r.settle := by
  unfold Rd.settle
  split
  · rename_i hi
    split
    · rename_i u rest hq
      have hs := h.sub
      have ha := h.acct
      have hb := h.bound
      rw [hq] at hs ha hb
      constructor
      · constructor
        · simpa using hs
        · simp at ha ⊢; omega
        · exact h.subs
        · simp at hb ⊢; omega
        · intro hd
          simp [Rd.idle] at hi
          simp [hi.1.1] at hd
        · exact h.noDrop
      · intro hi'; simp [Rd.idle] at hi'
    · rename_i hq
      exact ⟨h, fun _ => hq⟩
  · rename_i hi
    exact ⟨h, fun hi' => absurd hi' hi⟩

theorem settle_fields (r : Rd) :
    r.settle.id = r.id ∧ r.settle.subs = r.subs ∧ r.settle.cap = r.cap ∧ r.settle.attached = r.attached ∧
    r.settle.dead = r.dead ∧ r.settle.discarded = r.discarded ∧ r.settle.written = r.written ∧
    r.settle.dropped = r.dropped := by
  unfold Rd.settle
  split
  · split <;> simp
  · simp

theorem rinv_push {r : Rd} (h : RInv r) (u : U) : RInv (r.push u) := by
  unfold Rd.push
  split
  · rename_i hsub
    simp only [Bool.and_eq_true] at hsub
    have hc := h.core
    split
    · rename_i hlt
      apply rinv_settle
      constructor
      · simp only
        rw [← List.append_assoc]
        exact List.Sublist.append hc.sub (List.Sublist.refl _)
      · have := hc.acct; simp; omega
      · intro x hx
        simp only [List.mem_append, List.mem_singleton] at hx
        rcases hx with hx | hx
        · exact hc.subs x hx
        · rw [hx]; exact hsub.2
      · simp; omega
      · intro hd; simp [hsub.1] at hd
      · exact hc.noDrop
    · rename_i hge
      constructor
      · constructor
        · simp only
          exact List.Sublist.trans hc.sub (List.sublist_append_left _ _)
        · have := hc.acct; simp; omega
        · intro x hx
          simp only [List.mem_append, List.mem_singleton] at hx
          rcases hx with hx | hx
          · exact hc.subs x hx
          · rw [hx]; exact hsub.2
        · exact hc.bound
        · intro hd; simp [hsub.1] at hd
        · exact hc.noDrop
      · intro hi; exact h.idleEmpty (by simpa [Rd.idle] using hi)
  · exact h

theorem rinv_done {r : Rd} (h : RInv r) : RInv r.done := by
  unfold Rd.done
  split
  · apply rinv_settle
    have hc := h.core
    constructor
    · exact hc.sub
    · exact hc.acct
    · exact hc.subs
    · exact hc.bound
    · intro hd; exact ⟨(hc.detached hd).1, rfl⟩
    · exact hc.noDrop
  · exact h

theorem rinv_fail {r : Rd} (h : RInv r) : RInv r.fail := by
  unfold Rd.fail
  split
  · have hc := h.core
    constructor
    · constructor
      · exact hc.sub
      · exact hc.acct
      · exact hc.subs
      · exact hc.bound
      · intro hd; exact ⟨(hc.detached hd).1, rfl⟩
      · exact hc.noDrop
    · intro hi; simp [Rd.idle] at hi
  · exact h

theorem rinv_remove {r : Rd} (h : RInv r) : RInv r.remove := by
  unfold Rd.remove
  split
  · have hc := h.core
    constructor
    · constructor
      · simp only [List.append_nil]
        exact List.Sublist.trans (List.sublist_append_left _ _) hc.sub
      · have := hc.acct; simp; omega
      · exact hc.subs
      · simp
      · intro _; exact ⟨rfl, rfl⟩
      · intro hd; simp at hd
    · intro _; rfl
  · exact h

/-! #### fields that the reader functions never touch -/

theorem push_id (r : Rd) (u : U) : (r.push u).id = r.id := by
  unfold Rd.push; split
  · split
    · exact (settle_fields _).1
    · rfl
  · rfl

theorem done_id (r : Rd) : r.done.id = r.id := by
  unfold Rd.done; split
  · exact (settle_fields _).1
  · rfl

theorem fail_id (r : Rd) : r.fail.id = r.id := by unfold Rd.fail; split <;> rfl
theorem remove_id (r : Rd) : r.remove.id = r.id := by unfold Rd.remove; split <;> rfl

/-- a removed reader is frozen: no event changes anything about it -/
theorem push_frozen (r : Rd) (u : U) (h : r.attached = false) : r.push u = r := by
  simp [Rd.push, h]
theorem done_frozen (r : Rd) (h : r.infl = none) : r.done = r := by simp [Rd.done, h]
theorem fail_frozen (r : Rd) (h : r.infl = none) : r.fail = r := by simp [Rd.fail, h]
theorem remove_frozen (r : Rd) (h : r.attached = false) : r.remove = r := by simp [Rd.remove, h]

/-! #### the stream -/

def Inv (s : St) : Prop := ∀ r ∈ s.rds, RInv r

theorem inv_onReader {s : St} (id : Nat) (f : Rd → Rd) (hf : ∀ r, RInv r → RInv (f r)) (h : Inv s) :
    ∀ r ∈ onReader id f s.rds, RInv r := by
  intro r hr
  simp only [onReader, List.mem_map] at hr
  obtain ⟨r0, hr0, rfl⟩ := hr
  split
  · exact hf r0 (h r0 hr0)
  · exact h r0 hr0

theorem inv_step {s : St} (h : Inv s) (ev : Ev) : Inv (step s ev) := by
  cases ev with
  | add id subs =>
    simp only [step]
    split
    · exact h
    · intro r hr
      simp only [List.mem_append, List.mem_singleton] at hr
      rcases hr with hr | hr
      · exact h r hr
      · rw [hr]; exact rinv_fresh _ _ _
  | write f tag data =>
    intro r hr
    simp only [step, List.mem_map] at hr
    obtain ⟨r0, hr0, rfl⟩ := hr
    exact rinv_push (h r0 hr0) _
  | done id => exact inv_onReader id _ (fun _ => rinv_done) h
  | fail id => exact inv_onReader id _ (fun _ => rinv_fail) h
  | remove id => exact inv_onReader id _ (fun _ => rinv_remove) h

theorem inv_run {s : St} (h : Inv s) (evs : List Ev) : Inv (run s evs) := by
  induction evs generalizing s with
  | nil => exact h
  | cons e r ih => exact ih (inv_step h e)

def init (cap : Nat) : St := { cap := cap }

theorem inv_init (cap : Nat) : Inv (init cap) := by intro r hr; simp [init] at hr

theorem inv_reach (cap : Nat) (evs : List Ev) : Inv (run (init cap) evs) := inv_run (inv_init cap) evs

/-! ### the property -/

/-- **order**: what a reader has been handed is a subsequence, in write order, of what was written to
its subscribed formats while it was attached. -/
theorem order (cap : Nat) (evs : List Ev) (r : Rd) (hr : r ∈ (run (init cap) evs).rds) :
    r.delivered.Sublist r.written :=
  List.Sublist.trans (List.sublist_append_left _ _) (inv_reach cap evs r hr).core.sub

/-- **at most once**: distinct written units are never delivered twice. -/
theorem at_most_once (cap : Nat) (evs : List Ev) (r : Rd) (hr : r ∈ (run (init cap) evs).rds)
    (hd : r.written.Nodup) : r.delivered.Nodup :=
  List.Pairwise.sublist (order cap evs r hr) hd

/-- **only subscribed**: every delivered unit belongs to a format the reader subscribed to. -/
theorem only_subscribed (cap : Nat) (evs : List Ev) (r : Rd) (hr : r ∈ (run (init cap) evs).rds)
    (u : U) (hu : u ∈ r.delivered) : r.subs.contains u.fmt = true :=
  (inv_reach cap evs r hr).core.subs u ((order cap evs r hr).subset hu)

/-- **accounting**: every unit written to the reader is delivered, counted as discarded, still queued,
or was queued when the reader was removed (nothing is lost silently while attached); the queue never
exceeds the configured size. -/
theorem accounting (cap : Nat) (evs : List Ev) (r : Rd) (hr : r ∈ (run (init cap) evs).rds) :
    r.written.length = r.delivered.length + r.discarded + r.q.length + r.dropped ∧ r.q.length ≤ r.cap ∧
    (r.attached = true → r.dropped = 0) :=
  ⟨(inv_reach cap evs r hr).core.acct, (inv_reach cap evs r hr).core.bound,
   (inv_reach cap evs r hr).core.noDrop⟩

/-- an accepted unit is handed over as soon as the reader is free -/
theorem no_backlog_when_idle (cap : Nat) (evs : List Ev) (r : Rd) (hr : r ∈ (run (init cap) evs).rds)
    (hi : r.idle = true) : r.q = [] :=
  (inv_reach cap evs r hr).idleEmpty hi

/-! #### per-event effect on one reader -/

/-- what an event does to an existing reader -/
def evFun : Ev → Rd → Rd
  | .add _ _ => id
  | .write f tag data => fun r => r.push ⟨f, tag, data⟩
  | .done i => fun r => if r.id == i then r.done else r
  | .fail i => fun r => if r.id == i then r.fail else r
  | .remove i => fun r => if r.id == i then r.remove else r

/-- every step acts pointwise on the existing readers (plus possibly one fresh reader at the end) -/
theorem step_pointwise (s : St) (ev : Ev) :
    ∃ fresh, (step s ev).rds = s.rds.map (evFun ev) ++ fresh := by
  cases ev with
  | add i subs =>
    simp only [step]
    split
    · exact ⟨[], by simp [evFun]⟩
    · exact ⟨[{ id := i, subs := subs, cap := s.cap }], by simp [evFun]⟩
  | write f tag data => exact ⟨[], by simp [step, evFun]⟩
  | done i => exact ⟨[], by simp [step, evFun, onReader]⟩
  | fail i => exact ⟨[], by simp [step, evFun, onReader]⟩
  | remove i => exact ⟨[], by simp [step, evFun, onReader]⟩

theorem settle_delivered_prefix (r : Rd) : r.delivered <+: r.settle.delivered := by
  unfold Rd.settle
  split
  · split
    · exact List.prefix_append _ _
    · exact List.prefix_refl _
  · exact List.prefix_refl _

/-- deliveries are never retracted or reordered by later events -/
theorem delivered_grows (ev : Ev) (r : Rd) : r.delivered <+: (evFun ev r).delivered := by
  cases ev with
  | add i subs => exact List.prefix_refl _
  | write f tag data =>
    simp only [evFun, Rd.push]
    split
    · split
      · exact settle_delivered_prefix { r with written := r.written ++ [⟨f, tag, data⟩], q := r.q ++ [⟨f, tag, data⟩] }
      · exact List.prefix_refl _
    · exact List.prefix_refl _
  | done i =>
    simp only [evFun]
    split
    · unfold Rd.done
      split
      · exact settle_delivered_prefix { r with infl := none }
      · exact List.prefix_refl _
    · exact List.prefix_refl _
  | fail i =>
    simp only [evFun]
    split
    · unfold Rd.fail; split <;> exact List.prefix_refl _
    · exact List.prefix_refl _
  | remove i =>
    simp only [evFun]
    split
    · unfold Rd.remove; split <;> exact List.prefix_refl _
    · exact List.prefix_refl _

/-- the ghost field `written` is exactly: the units written to a subscribed format while attached -/
theorem written_is_history (ev : Ev) (r : Rd) :
    (evFun ev r).written =
      match ev with
      | .write f tag data => if r.attached && r.subs.contains f then r.written ++ [⟨f, tag, data⟩] else r.written
      | _ => r.written := by
  cases ev with
  | add i subs => rfl
  | write f tag data =>
    simp only [evFun, Rd.push]
    split
    · split
      · rw [(settle_fields _).2.2.2.2.2.2.1]
      · rfl
    · rfl
  | done i =>
    simp only [evFun]
    split
    · unfold Rd.done
      split
      · rw [(settle_fields _).2.2.2.2.2.2.1]
      · rfl
    · rfl
  | fail i =>
    simp only [evFun]
    split
    · unfold Rd.fail; split <;> rfl
    · rfl
  | remove i =>
    simp only [evFun]
    split
    · unfold Rd.remove; split <;> rfl
    · rfl

/-- **skip only when full, and every skip is counted**: the discard counter of a reader changes only in
a step that writes a unit to one of its subscribed formats while its queue holds `cap` units; it then
grows by exactly one and that unit is not delivered.  Conversely a unit written to a subscribed format
of an attached reader whose queue is not full is accepted. -/
theorem skip_only_when_full (cap : Nat) (evs : List Ev) (r : Rd) (hr : r ∈ (run (init cap) evs).rds)
    (ev : Ev) :
    ((evFun ev r).discarded ≠ r.discarded →
      ∃ f tag data, ev = .write f tag data ∧ r.attached = true ∧ r.subs.contains f = true ∧ r.q.length = r.cap ∧
        (evFun ev r).discarded = r.discarded + 1 ∧ (evFun ev r).delivered = r.delivered ∧
        (evFun ev r).q = r.q) ∧
    (∀ f tag data, ev = .write f tag data → r.attached = true → r.subs.contains f = true → r.q.length < r.cap →
      (evFun ev r).discarded = r.discarded ∧
      (evFun ev r).delivered ++ (evFun ev r).q = r.delivered ++ r.q ++ [⟨f, tag, data⟩]) := by
  have hb := (inv_reach cap evs r hr).core.bound
  cases ev with
  | add i subs => simp [evFun]
  | write f tag data =>
    constructor
    · intro hne
      refine ⟨f, tag, data, rfl, ?_⟩
      simp only [evFun, Rd.push] at hne ⊢
      split at hne
      · rename_i hs
        simp only [Bool.and_eq_true] at hs
        split at hne
        · rw [(settle_fields _).2.2.2.2.2.1] at hne; exact absurd rfl hne
        · rename_i hge
          simp only [hs.1, hs.2, Bool.and_self, if_true, hge, if_false]
          exact ⟨trivial, trivial, by omega, trivial, trivial, trivial⟩
      · exact absurd rfl hne
    · intro f' tag' data' he ha hs hlt
      cases he
      simp only [evFun, Rd.push, ha, hs, Bool.and_self, if_true, hlt]
      refine ⟨(settle_fields _).2.2.2.2.2.1, ?_⟩
      unfold Rd.settle
      split
      · split
        · rename_i u rest hq
          simp only at hq
          simp only [List.append_assoc]
          rw [hq]; simp
        · simp
      · simp
  | done i =>
    simp only [evFun]
    refine ⟨?_, by intro f tag data he; cases he⟩
    intro hne
    split at hne
    · unfold Rd.done at hne
      split at hne
      · rw [(settle_fields _).2.2.2.2.2.1] at hne; exact absurd rfl hne
      · exact absurd rfl hne
    · exact absurd rfl hne
  | fail i =>
    simp only [evFun]
    refine ⟨?_, by intro f tag data he; cases he⟩
    intro hne
    split at hne
    · unfold Rd.fail at hne; split at hne <;> exact absurd rfl hne
    · exact absurd rfl hne
  | remove i =>
    simp only [evFun]
    refine ⟨?_, by intro f tag data he; cases he⟩
    intro hne
    split at hne
    · unfold Rd.remove at hne; split at hne <;> exact absurd rfl hne
    · exact absurd rfl hne

/-! #### after RemoveReader -/

theorem evFun_id (ev : Ev) (r : Rd) : (evFun ev r).id = r.id := by
  cases ev with
  | add i subs => rfl
  | write f tag data => exact push_id _ _
  | done i => simp only [evFun]; split; exact done_id _; rfl
  | fail i => simp only [evFun]; split; exact fail_id _; rfl
  | remove i => simp only [evFun]; split; exact remove_id _; rfl

theorem evFun_frozen (ev : Ev) (r : Rd) (ha : r.attached = false) (hi : r.infl = none) :
    evFun ev r = r := by
  cases ev with
  | add i subs => rfl
  | write f tag data => exact push_frozen _ _ ha
  | done i => simp only [evFun]; split; exact done_frozen _ hi; rfl
  | fail i => simp only [evFun]; split; exact fail_frozen _ hi; rfl
  | remove i => simp only [evFun]; split; exact remove_frozen _ ha; rfl

theorem get_step (s : St) (ev : Ev) (i : Nat) (r : Rd) (h : get s i = some r) :
    get (step s ev) i = some (evFun ev r) := by
  obtain ⟨fresh, hf⟩ := step_pointwise s ev
  unfold get at h ⊢
  rw [hf, List.find?_append, List.find?_map]
  have : ((fun x : Rd => x.id == i) ∘ evFun ev) = (fun x : Rd => x.id == i) := by
    funext x; simp [evFun_id]
  rw [this, h]; rfl

theorem get_frozen (s : St) (evs : List Ev) (i : Nat) (r : Rd) (h : get s i = some r)
    (ha : r.attached = false) (hi : r.infl = none) : get (run s evs) i = some r := by
  induction evs generalizing s with
  | nil => exact h
  | cons e rest ih =>
    apply ih
    have := get_step s e i r h
    rw [evFun_frozen e r ha hi] at this
    exact this

theorem run_append (s : St) (a b : List Ev) : run s (a ++ b) = run (run s a) b := by
  simp [run, List.foldl_append]

/-- **silent after remove**: once `RemoveReader` has returned, nothing about the reader changes any more —
no callback is entered (its `delivered` list is final), nothing is counted, whatever happens next. -/
theorem silent_after_remove (cap : Nat) (evs1 evs2 : List Ev) (i : Nat) (r : Rd)
    (h : get (run (init cap) (evs1 ++ [.remove i])) i = some r) :
    r.attached = false ∧ r.infl = none ∧ r.q = [] ∧
    get (run (init cap) (evs1 ++ [.remove i] ++ evs2)) i = some r := by
  have hinv := inv_reach cap (evs1 ++ [.remove i])
  have hr : r ∈ (run (init cap) (evs1 ++ [.remove i])).rds := List.mem_of_find?_eq_some h
  have hri : r.id = i := by simpa using List.find?_some h
  -- the reader is the image under `remove` of a reader of the state before
  have ha : r.attached = false := by
    rw [run_append] at hr
    simp only [run, List.foldl_cons, List.foldl_nil, step, onReader, List.mem_map] at hr
    obtain ⟨r0, _, hr0⟩ := hr
    have h0 : r0.id = i := by
      by_cases hid : (r0.id == i) = true
      · simpa using hid
      · rw [if_neg hid] at hr0; rw [← hr0] at hri; exact absurd (by simpa using hri) hid
    rw [if_pos (by simpa using h0)] at hr0
    rw [← hr0]
    unfold Rd.remove
    split
    · rfl
    · rename_i hna; simpa using hna
  have hd := (hinv r hr).core.detached ha
  exact ⟨ha, hd.2, hd.1, by rw [run_append]; exact get_frozen _ evs2 i r h ha hd.2⟩

/-! #### publisher switch -/

/-- **only the current publisher**: a unit reaches the readers only if the sub stream that wrote it is the
current one at the moment the write takes effect — in particular a write that starts while the replacement is
already waiting for the stream lock is never delivered. -/
theorem only_current_publisher (s : PubSt) (ev : PubEv) (tag : Nat) (h : (pubStep s ev).2 = some tag) :
    (∃ p, ev = .write p tag ∧ p = s.cur) ∨ (∃ p, ev = .race p tag ∧ p = (pubStep s ev).1.cur) := by
  cases ev with
  | pub => simp [pubStep] at h
  | write p t =>
    simp only [pubStep] at h
    split at h
    · rename_i hp; cases h; exact Or.inl ⟨p, rfl, by simpa using hp⟩
    · cases h
  | race p t =>
    simp only [pubStep] at h
    split at h
    · rename_i hp; cases h; exact Or.inr ⟨p, rfl, by simpa [pubStep] using hp⟩
    · cases h

theorem replaced_publisher_silent (s : PubSt) (p tag : Nat) (h : p ≤ s.cur) :
    (pubStep s (.race p tag)).2 = none := by
  simp [pubStep]; omega

/-- **a new publisher starts clean**: whatever the previous publisher left incomplete, the first unit after a
take-over is the new publisher's priming unit alone, and nothing is pending. -/
theorem new_publisher_starts_clean (s : RtpSt) :
    (rtpStep s .pubr).2 = some [65535] ∧ (rtpStep s .pubr).1.pending = [] := ⟨rfl, rfl⟩

/-- a delivered unit ends with the tag just sent by the CURRENT publisher and otherwise holds what that same
publisher collected since its last marker -/
theorem rtp_unit_of_current (s : RtpSt) (p tag : Nat) (m : Bool) (au : List Nat)
    (h : (rtpStep s (.rtp p tag m)).2 = some au) : s.cur = some p ∧ m = true ∧ au = s.pending ++ [tag] := by
  simp only [rtpStep] at h
  split at h
  · rename_i hc
    split at h
    · rename_i hm; cases h; exact ⟨by simpa using hc, hm, rfl⟩
    · cases h
  · cases h

/-! #### non-vacuity and regression examples (kernel-decided) -/

def exRun := run (init 1) [.add 0 [0], .add 1 [1], .write 0 10 [], .write 0 11 [], .write 0 12 [], .write 1 13 [],
  .done 0, .remove 0, .write 0 14 []]

-- reader 0: unit 10 handed over at once, 11 queued, 12 skipped (queue of 1 full) and counted,
-- after `done` 11 is handed over; after `remove` nothing more
example : ((get exRun 0).map fun r => (r.delivered.map (·.tag), r.discarded, r.attached)) =
    some ([10, 11], 1, false) := by decide
example : ((get exRun 1).map fun r => (r.delivered.map (·.tag), r.discarded)) = some ([13], 0) := by decide

-- MPEG-4 Video (format 3): tag 4 carries configuration 2 in-band, tag 5 starts with a GOV and must be delivered
-- with that configuration in front (C22's model), tag 7 is a plain VOP and passes unaltered
example : (C22.stepM4V [] (writtenM4V 4)) = ([0, 0, 1, 0xB0, 2], writtenM4V 4) := by decide
example : (C22.stepM4V [0, 0, 1, 0xB0, 2] (writtenM4V 5)).2 = [0, 0, 1, 0xB0, 2] ++ writtenM4V 5 := by decide
example : (C22.stepM4V [0, 0, 1, 0xB0, 2] (writtenM4V 7)).2 = writtenM4V 7 := by decide

end MtxVerif.C17
