import MtxVerif.Model.C06
namespace MtxVerif.C06
theorem stub : True := trivial
end MtxVerif.C06
