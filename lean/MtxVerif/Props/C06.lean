/-
C06 — Path names cannot escape the recording tree.  Property theorems.
-/
import MtxVerif.Lemmas.C06

namespace MtxVerif.C06
open MtxVerif.C26 (Tok Kind tokenize encodeA substPath)

/-! ### 1. accepted names have the stated shape -/

/-- `IsValidPathName` accepts exactly the names the property describes: non-empty, only letters,
digits, `_ - . /`, no leading/trailing slash, no `.` or `..` segment. -/
theorem valid_iff_spec (n : Bytes) : isValidPathName n = none ↔ validSpec n = true := by
  rw [valid_facts]
  unfold validSpec
  simp only [Bool.and_eq_true, Bool.not_eq_true', bne_iff_ne, ne_eq]
  constructor
  · intro F
    refine ⟨⟨⟨⟨⟨?_, F.chars⟩, F.lead⟩, F.trail⟩, ?_⟩, ?_⟩
    · cases n with
      | nil => exact absurd rfl F.ne
      | cons c r => rfl
    · cases h : (splitOn 47 n).contains dot
      · rfl
      · exact absurd rfl (F.nodots dot (by simpa using h)).1
    · cases h : (splitOn 47 n).contains dotdot
      · rfl
      · exact absurd rfl (F.nodots dotdot (by simpa using h)).2
  · rintro ⟨⟨⟨⟨⟨h1, h2⟩, h3⟩, h4⟩, h5⟩, h6⟩
    refine ⟨?_, h3, h4, h2, ?_⟩
    · intro e; subst e; simp at h1
    · intro c hc
      constructor
      · intro e; subst e
        have : (splitOn 47 n).contains dot = true := by simpa using hc
        rw [this] at h5; cases h5
      · intro e; subst e
        have : (splitOn 47 n).contains dotdot = true := by simpa using hc
        rw [this] at h6; cases h6

theorem valid_chars (n : Bytes) (h : isValidPathName n = none) : ∀ c ∈ n, okChar c = true := by
  have := ((valid_facts n).mp h).chars
  rwa [List.all_eq_true] at this

theorem valid_no_dot_segments (n : Bytes) (h : isValidPathName n = none) :
    dot ∉ splitOn 47 n ∧ dotdot ∉ splitOn 47 n :=
  ⟨fun hm => (((valid_facts n).mp h).nodots _ hm).1 rfl, fun hm => (((valid_facts n).mp h).nodots _ hm).2 rfl⟩

theorem valid_nonempty_no_edge_slash (n : Bytes) (h : isValidPathName n = none) :
    n ≠ [] ∧ n.head? ≠ some 47 ∧ n.getLast? ≠ some 47 :=
  let F := (valid_facts n).mp h
  ⟨F.ne, F.lead, F.trail⟩

/-! ### 2. FindPathConf — which names reach a configuration -/

/-- the property's first sentence for publishing / reading / segment deletion, code as written:
every name `FindPathConf` accepts is valid.  **False** (witness below): the static map lookup comes
before the validation, and the keys of regexp confs (`~…`) are in that map. -/
def find_accepts_only_valid_full : Prop :=
  ∀ (confs : List ConfEntry) (name key : Bytes), (∀ c ∈ confs, keyOK c = true) →
    findPathConf confs name = .found key → validSpec name = true

theorem allKeys_valid : validSpec allKey = true ∧ validSpec allOthersKey = true := by decide

/-- Code as written: outside the decidable class `regexKeyAsName` every accepted name is valid. -/
theorem find_accepts_only_valid_partial (confs : List ConfEntry) (name key : Bytes)
    (hk : ∀ c ∈ confs, keyOK c = true) (hx : regexKeyAsName confs name = false)
    (h : findPathConf confs name = .found key) : validSpec name = true := by
  unfold findPathConf at h
  split at h
  · rename_i c hc
    have hmem := List.mem_of_find?_eq_some hc
    have hkey : c.key = name := by simpa using List.find?_some hc
    have hok := hk c hmem
    unfold keyOK at hok
    by_cases hr : c.isRegexp = true
    · simp only [hr, if_true, Bool.or_eq_true, beq_iff_eq] at hok
      rcases hok with ht | ha
      · exfalso
        unfold regexKeyAsName at hx
        rw [hkey] at ht
        have : confs.any (·.key == name) = true := by
          rw [List.any_eq_true]; exact ⟨c, hmem, by simp [hkey]⟩
        simp [ht, this] at hx
      · rw [hkey] at ha
        unfold isAllKey at ha
        simp only [Bool.or_eq_true, beq_iff_eq] at ha
        rcases ha with e | e
        · rw [e]; exact allKeys_valid.1
        · rw [e]; exact allKeys_valid.2
    · simp only [hr, Bool.false_eq_true, if_false, Option.isNone_iff_eq_none] at hok
      rw [hkey] at hok
      exact (valid_iff_spec name).mp hok
  · split at h
    · cases h
    · rename_i hv
      exact (valid_iff_spec name).mp hv

/-- With the alternative order (validate first; not adopted, it contradicts C14's "exact name wins") the
statement would hold for every configuration map. -/
theorem find_accepts_only_valid_fixed (confs : List ConfEntry) (name key : Bytes)
    (h : findPathConfFixed confs name = .found key) : validSpec name = true := by
  unfold findPathConfFixed at h
  split at h
  · cases h
  · rename_i hv
    exact (valid_iff_spec name).mp hv

/-- the alternative order changes nothing for valid names. -/
theorem find_fixed_eq (confs : List ConfEntry) (name : Bytes) (hv : isValidPathName name = none) :
    findPathConfFixed confs name = findPathConf confs name := by
  simp [findPathConfFixed, hv]

/-- Witness: one regexp conf `~^.*$`; the name `~^.*$` is accepted. -/
theorem find_accepts_only_valid_witness : ¬ find_accepts_only_valid_full := by
  intro h
  have := h [⟨asc ['~','^','.','*','$'], true, true⟩] (asc ['~','^','.','*','$']) (asc ['~','^','.','*','$'])
    (by decide) (by decide)
  revert this
  decide

/-! ### 3. no valid name puts a `..` component into a file name -/

theorem step_plain (q : St) (hq : q ≠ .found) (c : UInt8) (h7 : c ≠ 47) (h6 : c ≠ 46) : step q c = .sx := by
  cases q <;> simp_all [step]

theorem scan_sx_plain (v : Bytes) (h : ∀ c ∈ v, c ≠ 47 ∧ c ≠ 46) : scan .sx v = .sx := by
  induction v with
  | nil => rfl
  | cons c r ih =>
    have hc := h c List.mem_cons_self
    rw [scan_cons, step_plain .sx (by simp) c hc.1 hc.2]
    exact ih fun x hx => h x (List.mem_cons_of_mem _ hx)

theorem scan_plain (v : Bytes) (hv : plainText v = true) (q : St) (hq : q ≠ .found) : scan q v = .sx := by
  unfold plainText at hv
  simp only [Bool.and_eq_true, Bool.not_eq_true', List.all_eq_true, bne_iff_ne, ne_eq] at hv
  cases v with
  | nil => simp at hv
  | cons c r =>
    have hc := hv.2 c List.mem_cons_self
    rw [scan_cons, step_plain q hq c hc.1 hc.2]
    exact scan_sx_plain r fun x hx => hv.2 x (List.mem_cons_of_mem _ hx)

theorem text_plain (k : Kind) : plainText (Kind.text k) = true := by cases k <;> decide

/-- **Expansion lemma**: the scanner cannot tell a name written for a valid path name (and time texts
without `/` and `.`) from the format string itself — from any state.  In particular the written name
has a `..` component iff the format has one. -/
theorem scan_encodeA (toks : List Tok) (A : Kind → Bytes) (hA : goodAssign A = true) (q : St) :
    scan q (encodeA toks A) = scan q (raw toks) := by
  unfold goodAssign at hA
  simp only [Bool.and_eq_true, Option.isNone_iff_eq_none, List.all_eq_true] at hA
  have hAk : ∀ k : Kind, ∀ q : St, q ≠ .found → scan q (A k) = .sx := by
    intro k q hq
    cases k
    · exact scan_valid_name _ hA.1 q hq
    all_goals exact scan_plain _ (hA.2 _ (by simp)) q hq
  induction toks generalizing q with
  | nil => rfl
  | cons t ts ih =>
    cases t with
    | lit b =>
      show scan q ([b] ++ encodeA ts A) = scan q ([b] ++ raw ts)
      rw [scan_append, scan_append, ih]
    | cap k =>
      show scan q (A k ++ encodeA ts A) = scan q (Kind.text k ++ raw ts)
      rw [scan_append, scan_append]
      by_cases hq : q = .found
      · subst hq; rw [scan_found, scan_found, scan_found, scan_found]
      · rw [hAk k q hq, scan_plain _ (text_plain k) q hq, ih]

theorem hasDotDot_encodeA (toks : List Tok) (A : Kind → Bytes) (hA : goodAssign A = true) :
    hasDotDot (encodeA toks A) = hasDotDot (raw toks) := by
  unfold hasDotDot
  rw [scan_encodeA toks A hA]

/-! ### 4. lexical containment -/

/-- cleaning never pops below what was there when only non-`..` components follow. -/
theorem cleanComps_prefix (rooted : Bool) (A B : List Bytes) (hB : dotdot ∉ B) :
    cleanComps rooted A <+: cleanComps rooted (A ++ B) := by
  unfold cleanComps
  rw [List.foldl_append]
  generalize List.foldl (cleanStep rooted) [] A = base
  suffices h : ∀ out : List Bytes, base <+: out → base <+: List.foldl (cleanStep rooted) out B from
    h base (List.prefix_refl _)
  induction B with
  | nil => intro out h; exact h
  | cons c cs ih =>
    intro out h
    have hc : c ≠ dotdot := fun e => hB (e ▸ List.mem_cons_self)
    have hcs : dotdot ∉ cs := fun hm => hB (List.mem_cons_of_mem _ hm)
    rw [List.foldl_cons]
    apply ih hcs
    unfold cleanStep
    by_cases h1 : c = [] ∨ c = dot
    · rw [if_pos h1]; exact h
    · rw [if_neg h1, if_neg hc]; exact h.trans (List.prefix_append _ _)

/-- **Containment** (component level).  `base` = absolute directory (as text), `X` = what follows it in
the written file name.  If no component of `X` is `..`, the cleaned file path has the cleaned base
directory as a component-wise prefix. -/
theorem contained_text (base X : Bytes) (hX : hasDotDot X = false) :
    cleanComps true (splitOn 47 base) <+: cleanComps true (splitOn 47 (base ++ 47 :: X)) := by
  rw [splitOn_append_slash]
  apply cleanComps_prefix
  intro hm
  have := (hasDotDot_iff X).mpr hm
  rw [hX] at this
  cases this

/-- **C06, containment for every file name the recorder writes** (and hence for everything found by
walking from the prefix): format = `C/R` where `C` is the `%`-free common path and `R` the rest as
token sequence; if the format's rest has no literal `..` component, then for every valid path name and
all time texts the cleaned absolute file path lies component-wise under the cleaned absolute `C`
(`cwd` absolute; relative format). -/
theorem contained (cwd C : Bytes) (R : List Tok) (A : Kind → Bytes)
    (hA : goodAssign A = true) (hR : hasDotDot (raw R) = false) :
    cleanComps true (splitOn 47 (cwd ++ 47 :: C)) <+:
      cleanComps true (splitOn 47 (cwd ++ 47 :: (C ++ 47 :: encodeA R A))) := by
  have := contained_text (cwd ++ 47 :: C) (encodeA R A) (by rw [hasDotDot_encodeA R A hA, hR])
  simpa using this

/-- the same for an absolute format `C/R` (`C` starts with `/`). -/
theorem contained_abs (C : Bytes) (R : List Tok) (A : Kind → Bytes)
    (hA : goodAssign A = true) (hR : hasDotDot (raw R) = false) :
    cleanComps true (splitOn 47 C) <+: cleanComps true (splitOn 47 (C ++ 47 :: encodeA R A)) :=
  contained_text C (encodeA R A) (by rw [hasDotDot_encodeA R A hA, hR])

/-- `absComps` is what the two statements above talk about. -/
theorem absComps_rel (cwd p : Bytes) (h : p.head? ≠ some 47) :
    absComps cwd p = cleanComps true (splitOn 47 (cwd ++ 47 :: p)) := by
  unfold absComps
  rw [if_neg h, splitOn_append_slash]

theorem absComps_abs (cwd p : Bytes) (h : p.head? = some 47) :
    absComps cwd p = cleanComps true (splitOn 47 p) := by
  unfold absComps
  rw [if_pos h]

/-- `absolutePathInside` only tests a *string* prefix … -/
theorem absolutePathInside_sound (cwd base cand r : Bytes) (h : absolutePathInside cwd base cand = some r) :
    r = abs cwd (clean cand) ∧ (abs cwd (clean base)).isPrefixOf r = true := by
  unfold absolutePathInside at h
  simp only at h
  split at h
  · rename_i hp; cases h; exact ⟨rfl, hp⟩
  · cases h

/-- … which is not containment (`/rec` vs `/rec2`): the code relies on the validity of the name, as its
comment says; that reliance is what `contained` justifies. -/
example : absolutePathInside (asc ['/']) (asc ['/','r','e','c']) (asc ['/','r','e','c','2','/','x'])
    = some (asc ['/','r','e','c','2','/','x']) := by decide

/-! ### non-vacuity / sanity -/

example : isValidPathName (asc ['c','a','m','/','a','.','b','/','.','.','.']) = none := by decide
example : isValidPathName (asc ['a','/','.','.','/','b']) = some .dots
    ∧ isValidPathName (asc ['/','a']) = some .lead ∧ isValidPathName (asc ['a','/']) = some .trail
    ∧ isValidPathName (asc ['a','%','2','e']) = some .chars ∧ isValidPathName [] = some .empty
    ∧ isValidPathName (asc ['a','/','/','b']) = none := by decide
/-- default format `./recordings/%path/%Y-…`: common path and a good assignment -/
example : commonPath (asc ['.','/','r','e','c','/','%','p','a','t','h','/','%','s']) = asc ['.','/','r','e','c'] := by decide
example : goodAssign (fun k => match k with
    | .path => asc ['c','a','m','/','1'] | .z => asc ['+','0','1','0','0'] | _ => asc ['0','7']) = true := by decide
example : hasDotDot (raw [.cap .path, .lit 47, .cap .s]) = false := by decide
/-- a `..` literally in the format (after the placeholders) is the format's fault, not the name's -/
example : hasDotDot (raw [.cap .path, .lit 47, .lit 46, .lit 46, .lit 47, .cap .s]) = true := by decide
/-- traversal with an invalid name does climb out lexically -/
example : cleanComps true (splitOn 47 (asc ['/','r','/','.','.','/','.','.','/','e','t','c'])) = [asc ['e','t','c']] := by decide

/-! ### 5. token sequences are formats: `raw ∘ tokenize = id` -/

theorem kindOfLetter_text (c : UInt8) (k : Kind) (h : MtxVerif.C26.kindOfLetter c = some k) :
    Kind.text k = [37, c] := by
  unfold MtxVerif.C26.kindOfLetter at h
  repeat' split at h
  all_goals first | (cases h; done) | (cases h; rename_i hc; rw [hc]; rfl)

theorem tokAt_text (s : Bytes) (k : Kind) (n : Nat) (h : MtxVerif.C26.tokAt s = some (k, n)) :
    s = Kind.text k ++ s.drop (n + 1) ∧ (Kind.text k).length = n + 1 := by
  unfold MtxVerif.C26.tokAt at h
  split at h
  · rename_i c r
    split at h
    · rename_i hp
      cases h
      obtain ⟨t, ht⟩ := List.isPrefixOf_iff_prefix.mp hp
      have hlen : MtxVerif.C26.pathPat.length = 5 := rfl
      refine ⟨?_, rfl⟩
      rw [← ht]
      show MtxVerif.C26.pathPat ++ t = MtxVerif.C26.pathPat ++ (MtxVerif.C26.pathPat ++ t).drop 5
      rw [← hlen, List.drop_left]
    · simp only [Option.map_eq_some_iff, Prod.mk.injEq] at h
      obtain ⟨k', hk, rfl, rfl⟩ := h
      rw [kindOfLetter_text c k' hk]
      exact ⟨rfl, rfl⟩
  · cases h

theorem raw_tokenizeAux (fmt : Bytes) : ∀ skip, raw (MtxVerif.C26.tokenizeAux skip fmt) = fmt.drop skip := by
  induction fmt with
  | nil => intro skip; cases skip <;> rfl
  | cons c r ih =>
    intro skip
    cases skip with
    | succ n => simp only [MtxVerif.C26.tokenizeAux, List.drop_succ_cons]; exact ih n
    | zero =>
      simp only [MtxVerif.C26.tokenizeAux, List.drop_zero]
      split
      · rename_i k n hk
        obtain ⟨h1, h2⟩ := tokAt_text (c :: r) k n hk
        show Kind.text k ++ raw (MtxVerif.C26.tokenizeAux n r) = c :: r
        rw [ih n]
        simpa using h1.symm
      · show [c] ++ raw (MtxVerif.C26.tokenizeAux 0 r) = c :: r
        rw [ih 0]; rfl

/-- tokenising a format and writing the tokens back gives the format: the theorems above, stated for
token sequences, are statements about all format strings. -/
theorem raw_tokenize (fmt : Bytes) : raw (tokenize fmt) = fmt := raw_tokenizeAux fmt 0

/-- **C06 containment, format-string form**: relative record path `C/rest` where `rest` (the part from
the first component that contains `%`) has no literal `..` component. -/
theorem contained_fmt (cwd C rest : Bytes) (A : Kind → Bytes)
    (hA : goodAssign A = true) (hR : hasDotDot rest = false) :
    cleanComps true (splitOn 47 (cwd ++ 47 :: C)) <+:
      cleanComps true (splitOn 47 (cwd ++ 47 :: (C ++ 47 :: encodeA (tokenize rest) A))) :=
  contained cwd C (tokenize rest) A hA (by rw [raw_tokenize]; exact hR)

end MtxVerif.C06
