/-
C31 — Segment operations identify segments by instant.  Property theorems.

`Fo` = calendar fields of the requested instant in the offset it was written with (what `time.Parse`
returns), `Fl` = fields of the same instant in the server's zone (what the recorder used).  `toks` =
tokens of the record path after the path name has been substituted (no `%path` left).
-/
import MtxVerif.Model.C31
import MtxVerif.Props.C26

namespace MtxVerif.C31
open MtxVerif.C26

/-! ### when do two field tuples give the same file name? -/

theorem encodeA_congr (toks : List Tok) (A A' : Kind → Bytes)
    (h : ∀ k, Tok.cap k ∈ toks → A k = A' k) : encodeA toks A = encodeA toks A' := by
  induction toks with
  | nil => rfl
  | cons t ts ih =>
    have ih' := ih fun k hk => h k (List.mem_cons_of_mem _ hk)
    cases t with
    | lit b =>
      show [b] ++ encodeA ts A = [b] ++ encodeA ts A'
      rw [ih']
    | cap k =>
      show A k ++ encodeA ts A = A' k ++ encodeA ts A'
      rw [ih', h k List.mem_cons_self]

/-- **Name coincidence**: for admissible field texts, the names written from two tuples coincide iff
the tuples agree on the text of every placeholder that occurs in the record path. -/
theorem names_equal_iff (toks : List Tok) (h0 : pathCount toks = 0) (Fo Fl : Fields)
    (ho : fieldsOK toks Fo = true) (hl : fieldsOK toks Fl = true) :
    encode toks [] Fo = encode toks [] Fl ↔ ∀ k, Tok.cap k ∈ toks → val Fo k = val Fl k := by
  have hAo := admissible_assign toks [] Fo (by decide) ho
  have hAl := admissible_assign toks [] Fl (by decide) hl
  have hnp : ∀ k, Tok.cap k ∈ toks → k ≠ .path := by
    intro k hk e
    subst e
    exact pathFree_of_count toks h0 _ hk rfl
  have hval : ∀ (F : Fields) k, k ≠ .path → assign [] F k = val F k := by
    intro F k hk; cases k <;> first | rfl | exact absurd rfl hk
  rw [encode_eq_encodeA, encode_eq_encodeA]
  constructor
  · intro he k hk
    have hr : render toks (capsOf toks (assign [] Fo)) = render toks (capsOf toks (assign [] Fl)) := by
      rw [render_capsOf, render_capsOf]; exact he
    have hc := render_inj toks (by omega) _ _ ((fits_capsOf_iff toks _).mpr hAo) ((fits_capsOf_iff toks _).mpr hAl) hr
    have h1 := lastCap_capsOf toks (assign [] Fo) k hk
    have h2 := lastCap_capsOf toks (assign [] Fl) k hk
    rw [hc, h2] at h1
    have := Option.some.inj h1
    rw [hval Fo k (hnp k hk), hval Fl k (hnp k hk)] at this
    exact this.symm
  · intro h
    apply encodeA_congr
    intro k hk
    rw [hval Fo k (hnp k hk), hval Fl k (hnp k hk)]
    exact h k hk

/-! ### "whatever UTC offset the instant is written with" -/

/-- Full strength for the handler that encodes the parsed value as is (`convertsToLocal = false`, the
code before the fix): the same instant names the same file whatever offset it is written in.
**False** (witness below): finding F-C31. -/
def delete_offset_independent_full : Prop :=
  ∀ (toks : List Tok) (Fo Fl : Fields), pathCount toks = 0 → sameInstant Fo Fl = true →
    fieldsOK toks Fo = true → fieldsOK toks Fl = true → encode toks [] Fo = encode toks [] Fl

/-- Without conversion: outside the decidable class `offsetMismatch` the names coincide.  (`hcal`: the
calendar is a function — same instant read at the same offset gives the same tuple.) -/
theorem delete_offset_independent_partial (toks : List Tok) (Fo Fl : Fields) (h0 : pathCount toks = 0)
    (hs : sameInstant Fo Fl = true) (ho : fieldsOK toks Fo = true) (hl : fieldsOK toks Fl = true)
    (hcal : Fo.off = Fl.off → Fo = Fl) (hx : offsetMismatch toks Fo Fl = false) :
    encode toks [] Fo = encode toks [] Fl := by
  unfold offsetMismatch at hx
  by_cases hoff : Fo.off = Fl.off
  · rw [hcal hoff]
  · have hany : toks.any zoneDependent = false := by
      cases h : toks.any zoneDependent
      · rfl
      · simp [h, hoff] at hx
    rw [names_equal_iff toks h0 Fo Fl ho hl]
    intro k hk
    have hz : zoneDependent (Tok.cap k) = false := by
      cases h : zoneDependent (Tok.cap k)
      · rfl
      · have : toks.any zoneDependent = true := List.any_eq_true.mpr ⟨_, hk, h⟩
        rw [hany] at this; cases this
    unfold sameInstant at hs
    simp only [Bool.and_eq_true, beq_iff_eq] at hs
    cases k <;> simp [zoneDependent] at hz
    · exact absurd rfl (pathFree_of_count toks h0 _ hk)
    · simp [val, hs.2]
    · simp [val, hs.1]

/-- With the conversion (`start.Local()` before `Encode`) the handler's file does not depend on the
written offset at all, and is computed from the very tuple the recorder used: **the property's first
half at full strength for the fixed handler.** -/
theorem delete_offset_independent_fixed (cwd fmt name : Bytes) (Fo Fo' Fl : Fields) :
    deleteFile true cwd fmt name Fo Fl = deleteFile true cwd fmt name Fo' Fl ∧
    deleteFile true cwd fmt name Fo Fl = C06.deleteTarget cwd fmt name (texts Fl) := ⟨rfl, rfl⟩

/-- Witness 1: format `%H`; 11:00Z on a server at +01:00 (local 12:00): the request written with `Z`
names file `11`, the recorder wrote `12`. -/
theorem delete_offset_independent_witness : ¬ delete_offset_independent_full := by
  intro h
  have := h [.cap .H] ⟨2023, 11, 14, 11, 0, 0, 0, 0, 1699959600⟩ ⟨2023, 11, 14, 12, 0, 0, 0, 3600, 1699959600⟩
    (by decide) (by decide) (by decide) (by decide)
  revert this
  decide

/-- Witness 2 (the dangerous half): the name computed for 11:00Z is the recorder's name of *another*
segment — the one that started at 11:00 local time, an hour earlier. -/
theorem wrong_segment_witness :
    encode [.cap .H] [] ⟨2023, 11, 14, 11, 0, 0, 0, 0, 1699959600⟩
      = encode [.cap .H] [] ⟨2023, 11, 14, 11, 0, 0, 0, 3600, 1699956000⟩ := by decide

/-! ### listing, playback and deletion agree -/

/-- What listing/playback decode from a file name determines the name: writing the decoded texts back
gives the file again.  Together with the calendar round trip (`time.Date(fields, Local)` read back in
`Local` gives the fields again — oracle; false only for non-existent local times) this is "deleting the
start instant that listing reports removes that very file" for the converting handler. -/
theorem list_then_delete (toks : List Tok) (f : Bytes) (m : Match) (h : decode toks f = some m) :
    encodeA toks (fun k => (lastCap k m.caps).getD []) = f := by
  have hm := match_whole true true toks f m h (Or.inl rfl)
  have hcons : consistent m.caps = true := by
    unfold decode decodeV at h
    split at h
    · rename_i m' _
      split at h
      · cases h
      · rename_i hn
        cases h
        simpa using hn
    · cases h
  obtain ⟨hf, hs⟩ := (mem_allM toks f m.caps []).mp hm
  have he := fits_eq_capsOf toks m.caps (fun k => (lastCap k m.caps).getD []) hf (consistent_agree m.caps hcons)
  rw [hs, List.append_nil]
  conv => rhs; rw [he]
  rw [render_capsOf]

/-- and the decoded start is the one C26 describes: same decoder for listing (`FindSegments`), playback
(`FindSegments`) and the cleaner — they cannot disagree with each other. -/
theorem one_decoder (toks : List Tok) (f : Bytes) (m m' : Match)
    (h : decode toks f = some m) (h' : decode toks f = some m') : decodedStart m.caps = decodedStart m'.caps := by
  rw [h] at h'; cases h'; rfl

/-! ### non-vacuity -/

example : offsetMismatch [.cap .H] ⟨2023, 11, 14, 11, 0, 0, 0, 0, 1699959600⟩ ⟨2023, 11, 14, 12, 0, 0, 0, 3600, 1699959600⟩ = true
    ∧ offsetMismatch [.cap .s, .lit 45, .cap .f] ⟨2023, 11, 14, 11, 0, 0, 0, 0, 1699959600⟩ ⟨2023, 11, 14, 12, 0, 0, 0, 3600, 1699959600⟩ = false := by
  decide
/-- `%s-%f` names do not depend on the zone -/
example : encode [.cap .s, .lit 45, .cap .f] [] ⟨2023, 11, 14, 11, 0, 0, 7, 0, 1699959600⟩
    = encode [.cap .s, .lit 45, .cap .f] [] ⟨2023, 11, 14, 12, 0, 0, 7, 3600, 1699959600⟩ := by decide
/-- a `%z` in the name does not help: the zone text itself differs -/
example : encode [.cap .H, .cap .z] [] ⟨2023, 11, 14, 11, 0, 0, 0, 0, 1699959600⟩
    ≠ encode [.cap .H, .cap .z] [] ⟨2023, 11, 14, 12, 0, 0, 0, 3600, 1699959600⟩ := by decide

/-! ### the listed start instant identifies the segment for playback -/

/-- segments sorted by strictly increasing start (distinct files have distinct starts). -/
def Sorted (l : List (Bytes × Int)) : Prop := l.Pairwise (fun a b => a.2 < b.2)

theorem dropTo_exact (l : List (Bytes × Int)) (hs : Sorted l) (x : Bytes × Int) (hx : x ∈ l) :
    ∃ r, dropTo x.2 l = x :: r := by
  induction l with
  | nil => cases hx
  | cons a t ih =>
    cases t with
    | nil =>
      have : x = a := by simpa using hx
      subst this
      exact ⟨[], rfl⟩
    | cons b r =>
      unfold Sorted at hs
      rw [List.pairwise_cons] at hs
      have hab : a.2 < b.2 := hs.1 b List.mem_cons_self
      unfold dropTo
      by_cases hc : a.2 ≤ x.2 ∧ x.2 < b.2
      · rw [if_pos hc]
        rcases List.mem_cons.mp hx with e | hm
        · exact ⟨b :: r, by rw [e]⟩
        · exfalso
          rcases List.mem_cons.mp hm with e | hm'
          · rw [e] at hc; omega
          · have h1 := (List.pairwise_cons.mp hs.2).1 x hm'
            omega
      · rw [if_neg hc]
        have hm : x ∈ b :: r := by
          rcases List.mem_cons.mp hx with e | hm
          · exfalso; apply hc; rw [e]; omega
          · exact hm
        exact ih hs.2 hm

/-- **`FindSegments` with the start bound set to the listed start of a segment returns that segment
first** (so playback `/get` and `/list?start=` address the segment the listings mean), for every sorted
list of recognised segments. -/
theorem selectFrom_exact (l : List (Bytes × Int)) (hs : Sorted l) (x : Bytes × Int) (hx : x ∈ l) :
    ∃ r, selectFrom l x.2 = some (x :: r) := by
  cases l with
  | nil => cases hx
  | cons a t =>
    have hle : a.2 ≤ x.2 := by
      rcases List.mem_cons.mp hx with e | hm
      · rw [e]; omega
      · unfold Sorted at hs
        have := (List.pairwise_cons.mp hs).1 x hm
        omega
    obtain ⟨r, hr⟩ := dropTo_exact (a :: t) hs x hx
    unfold selectFrom
    by_cases hlt : x.2 < a.2
    · omega
    · simp only [hlt, if_false, hr]
      cases r with
      | nil => simp
      | cons y ys => exact ⟨y :: ys, rfl⟩

end MtxVerif.C31
