import MtxVerif.Model.C31
namespace MtxVerif.C31
theorem stub : True := trivial
end MtxVerif.C31
