/-
C23 — RTP re-packetization is size-bounded and lossless.  Property theorems.

(a) `writeUnit_*`: MediaMTX's own logic, for ANY packetiser satisfying the contract `PackOK`;
(b1) `frag_*`: the generic fragmenter satisfies it for every non-empty frame and every `max ≥ 1`;
(b2) `h264_*`: the H264 packetiser satisfies it for every non-empty access unit of clean NAL units and
     every `max ≥ 3`.
-/
import MtxVerif.Model.C23

namespace MtxVerif.C23

/-! ### numbering and stamping -/

theorem number_length (ssrc seq : Nat) (raws : List Raw) : (number ssrc seq raws).length = raws.length := by
  induction raws generalizing seq with
  | nil => rfl
  | cons r rest ih => simp [number, ih]

/-- the i-th generated packet: sequence number `seq + i` (uint16), the packetiser's payload / marker -/
theorem number_get (ssrc seq : Nat) (raws : List Raw) (i : Nat) (r : Raw) (h : raws[i]? = some r) :
    (number ssrc seq raws)[i]? = some ⟨ssrc, (seq + i) % two16, r.dts % two32, r.marker, r.payload⟩ := by
  induction raws generalizing seq i with
  | nil => simp at h
  | cons x rest ih =>
    cases i with
    | zero => simp at h; subst h; simp [number]
    | succ j =>
      simp only [List.getElem?_cons_succ] at h
      simp only [number, List.getElem?_cons_succ]
      rw [ih (seq + 1) j h, show seq + 1 + j = seq + (j + 1) by omega]

theorem u32_lt (pts : Int) : u32 pts < two32 := by
  unfold u32 two32
  have h1 : (0 : Int) ≤ pts % 4294967296 := Int.emod_nonneg _ (by decide)
  have h2 : pts % 4294967296 < 4294967296 := Int.emod_lt_of_pos _ (by decide)
  omega

/-- `stamp`: timestamp = packetiser timestamp + offset + uint32(PTS)  (mod 2^32); nothing else changes -/
theorem stamp_ts (off : Nat) (pts : Int) (p : Pkt) :
    (stamp off pts p).ts = (p.ts + off + u32 pts) % two32 ∧ (stamp off pts p).seq = p.seq ∧
    (stamp off pts p).payload = p.payload ∧ (stamp off pts p).marker = p.marker ∧
    (stamp off pts p).ssrc = p.ssrc := by
  refine ⟨?_, rfl, rfl, rfl, rfl⟩
  simp only [stamp, two32]
  omega

/-! ### (a) `writeUnitInner` -/

theorem writeUnit_eq {P : Type} (cfg : Cfg) (remux : P → Option P) (pack : P → List Raw)
    (s : SF) (pts : Int) (inRtp : List Pkt) (payload : Option P) :
    writeUnit cfg remux pack s pts inRtp payload =
      match trigger cfg s pts inRtp with
      | .error e => .error e
      | .ok s1 =>
        let rtp1 := if s1.enc.isSome then [] else inRtp
        match payload with
        | none => .ok (s1, ⟨rtp1, none⟩)
        | some pl =>
          match remux pl, s1.enc with
          | some pl', some e =>
            .ok ({ s1 with enc := some ⟨e.ssrc, (e.seq + (pack pl').length) % two16⟩ },
                 ⟨(number e.ssrc e.seq (pack pl')).map (stamp s1.timeOffset pts), some pl'⟩)
          | pl', _ => .ok (s1, ⟨rtp1, pl'⟩) := rfl

/-- once an encoder exists the trigger never touches it: SSRC, sequence and `rtpTimeOffset` are fixed
per format; without an encoder, one is created exactly when some incoming payload exceeds the maximum,
seeded with that packet's SSRC and sequence number. -/
theorem trigger_spec (cfg : Cfg) (s : SF) (pts : Int) (inRtp : List Pkt) (s1 : SF)
    (h : trigger cfg s pts inRtp = .ok s1) :
    (s.enc.isSome = true → s1 = s) ∧
    (s1.enc.isNone = true → s1 = s ∧ ∀ p ∈ inRtp, p.payload.length ≤ cfg.max) ∧
    (s.enc.isNone = true → s1.enc.isSome = true →
      ∃ p ∈ inRtp, p.payload.length > cfg.max ∧ s1.enc = some ⟨p.ssrc, p.seq⟩ ∧
        s1.timeOffset = (p.ts + two32 - u32 pts) % two32) := by
  unfold trigger at h
  split at h
  · rename_i he
    have : inRtp = [] := by simpa using he
    cases h; subst this
    exact ⟨fun _ => rfl, fun _ => ⟨rfl, by simp⟩, fun h1 h2 => by rw [Option.isNone_iff_eq_none.mp h1] at h2; cases h2⟩
  · split at h
    · rename_i hs
      cases h
      exact ⟨fun _ => rfl, fun hn => by rw [Option.isSome_iff_ne_none] at hs; exact absurd (Option.isNone_iff_eq_none.mp hn) hs,
        fun h1 => by rw [Option.isNone_iff_eq_none.mp h1] at hs; cases hs⟩
    · rename_i hs
      split at h
      · rename_i hf
        cases h
        refine ⟨fun h1 => absurd h1 hs, fun _ => ⟨rfl, ?_⟩, fun h1 h2 => absurd h2 hs⟩
        intro p hp
        have := List.find?_eq_none.mp hf p hp
        simpa using this
      · rename_i p hf
        split at h
        · cases h
          refine ⟨fun h1 => absurd h1 hs, fun hn => by simp at hn, fun _ _ => ?_⟩
          exact ⟨p, List.mem_of_find?_eq_some hf, by simpa using List.find?_some hf, rfl, rfl⟩
        · cases h

/-- **size bound (a)**: whatever `writeUnitInner` hands on for a unit — the publisher's packets or
generated ones — fits the configured maximum, provided the packetiser keeps its contract on the remuxed
payload. -/
theorem writeUnit_sizes {P : Type} (cfg : Cfg) (remux : P → Option P) (pack : P → List Raw)
    (unpack : List Raw → Option P) (Valid : P → Prop) (hok : PackOK cfg.max pack unpack Valid)
    (s s' : SF) (pts : Int) (inRtp : List Pkt) (payload : Option P) (out : Out P)
    (hv : ∀ pl pl', payload = some pl → remux pl = some pl' → Valid pl')
    (h : writeUnit cfg remux pack s pts inRtp payload = .ok (s', out)) :
    ∀ p ∈ out.rtp, p.payload.length ≤ cfg.max := by
  rw [writeUnit_eq] at h
  cases ht : trigger cfg s pts inRtp with
  | error e => rw [ht] at h; cases h
  | ok s1 =>
    rw [ht] at h
    have hts := trigger_spec cfg s pts inRtp s1 ht
    have hpass : ∀ p ∈ (if s1.enc.isSome then [] else inRtp), p.payload.length ≤ cfg.max := by
      intro p hp
      split at hp
      · cases hp
      · rename_i hn
        exact (hts.2.1 (by simpa using hn)).2 p hp
    simp only at h
    cases payload with
    | none => simp only at h; cases h; exact hpass
    | some pl =>
      simp only at h
      cases hr : remux pl with
      | none => rw [hr] at h; simp only at h; cases h; exact hpass
      | some pl' =>
        rw [hr] at h
        cases he : s1.enc with
        | none => rw [he] at h; simp only at h; cases h; rw [he] at hpass; exact hpass
        | some e =>
          rw [he] at h; simp only at h; cases h
          intro p hp
          simp only [List.mem_map] at hp
          obtain ⟨q, hq, rfl⟩ := hp
          rw [(stamp_ts _ _ q).2.2.1]
          obtain ⟨i, hi, hqi⟩ := List.mem_iff_getElem.mp hq
          have hi' : i < (pack pl').length := by rw [number_length] at hi; exact hi
          have hg := number_get e.ssrc e.seq (pack pl') i (pack pl')[i] (List.getElem?_eq_getElem hi')
          rw [List.getElem?_eq_getElem hi] at hg
          simp only [Option.some.injEq] at hg
          rw [← hqi, hg]
          exact hok.size pl' (hv pl pl' rfl hr) _ (List.getElem_mem hi')

/-- **generated packets (a)**: when an encoder exists (or is created by the oversize trigger) and the remuxed
payload is not nil, the delivered packets are exactly the packetiser's output, numbered consecutively from
the encoder's sequence number and stamped `packetiser timestamp + rtpTimeOffset + uint32(PTS)`; the
encoder's sequence number advances by the number of packets; the publisher's packets are dropped. -/
theorem writeUnit_generated {P : Type} (cfg : Cfg) (remux : P → Option P) (pack : P → List Raw)
    (s s1 : SF) (e : EncSt) (pts : Int) (inRtp : List Pkt) (pl pl' : P)
    (ht : trigger cfg s pts inRtp = .ok s1) (he : s1.enc = some e) (hr : remux pl = some pl') :
    writeUnit cfg remux pack s pts inRtp (some pl) =
      .ok ({ s1 with enc := some ⟨e.ssrc, (e.seq + (pack pl').length) % two16⟩ },
           ⟨(number e.ssrc e.seq (pack pl')).map (stamp s1.timeOffset pts), some pl'⟩) := by
  rw [writeUnit_eq, ht]; simp only [hr, he]

/-- i-th generated packet, spelled out -/
theorem generated_get (ssrc seq off : Nat) (pts : Int) (raws : List Raw) (i : Nat) (r : Raw)
    (h : raws[i]? = some r) :
    ((number ssrc seq raws).map (stamp off pts))[i]? =
      some ⟨ssrc, (seq + i) % two16, (r.dts % two32 + off + u32 pts) % two32, r.marker, r.payload⟩ := by
  rw [List.getElem?_map, number_get ssrc seq raws i r h]
  simp only [Option.map_some, Option.some.injEq]
  have := stamp_ts off pts ⟨ssrc, (seq + i) % two16, r.dts % two32, r.marker, r.payload⟩
  cases hs : stamp off pts ⟨ssrc, (seq + i) % two16, r.dts % two32, r.marker, r.payload⟩ with
  | mk a b c d e =>
    rw [hs] at this
    simp only at this
    obtain ⟨h1, h2, h3, h4, h5⟩ := this
    subst h1 h2 h3 h4 h5
    rfl

/-- **continuity at the oversize trigger**: the first generated packet of the triggering unit carries the
oversized packet's own sequence number and (for a packetiser timestamp of 0) its own RTP timestamp. -/
theorem trigger_continuity (p : Pkt) (pts : Int) (hp : p.ts < two32) :
    (0 % two32 + (p.ts + two32 - u32 pts) % two32 + u32 pts) % two32 = p.ts := by
  have := u32_lt pts
  simp only [two32] at *
  omega

/-- a later sub stream finds the encoder of the stream and leaves SSRC, sequence and offset alone -/
theorem initSF_keeps (cfg : Cfg) (s : SF) (a b c : Bool) (ssrc seq off : Nat) (h : s.enc.isSome = true) :
    initSF cfg s a b c ssrc seq off = some s := by
  have : s.enc.isNone = false := by
    cases he : s.enc with
    | none => rw [he] at h; cases h
    | some _ => rfl
  simp [initSF, this]

theorem lifeStep_keeps {P : Type} (cfg : Cfg) (remux : P → Option P) (pack : P → List Raw) (s s' : SF)
    (e : EncSt) (ev : LifeEv P) (he : s.enc = some e) (h : lifeStep cfg remux pack s ev = some s') :
    s'.timeOffset = s.timeOffset ∧ ∃ e', s'.enc = some e' ∧ e'.ssrc = e.ssrc := by
  cases ev with
  | sub a b c ssrc seq off =>
    simp only [lifeStep] at h
    rw [initSF_keeps cfg s a b c ssrc seq off (by simp [he])] at h
    cases h
    exact ⟨rfl, e, he, rfl⟩
  | unit pts inRtp payload =>
    simp only [lifeStep] at h
    cases hw : writeUnit cfg remux pack s pts inRtp payload with
    | error x => rw [hw] at h; cases h; exact ⟨rfl, e, he, rfl⟩
    | ok r =>
      rw [hw] at h
      obtain ⟨s2, out⟩ := r
      simp only [Option.some.injEq] at h
      subst h
      rw [writeUnit_eq] at hw
      cases ht : trigger cfg s pts inRtp with
      | error x => rw [ht] at hw; cases hw
      | ok s1 =>
        rw [ht] at hw
        have h1 : s1 = s := (trigger_spec cfg s pts inRtp s1 ht).1 (by simp [he])
        subst h1
        simp only at hw
        cases payload with
        | none => simp only at hw; cases hw; exact ⟨rfl, e, he, rfl⟩
        | some pl =>
          simp only [he] at hw
          cases hr : remux pl with
          | none => rw [hr] at hw; simp only at hw; cases hw; exact ⟨rfl, e, he, rfl⟩
          | some pl' =>
            rw [hr] at hw; simp only at hw; cases hw
            exact ⟨rfl, _, rfl, rfl⟩

/-- **fixed per-format offset over the whole life of a stream**: once the encoder of a stream format exists,
no sequence of sub-stream initialisations and units — offline filler, publisher, filler again, another
publisher … — changes `rtpTimeOffset` or the SSRC (the sequence number only advances by the packets generated,
`writeUnit_generated`). -/
theorem offset_fixed_for_life {P : Type} (cfg : Cfg) (remux : P → Option P) (pack : P → List Raw)
    (evs : List (LifeEv P)) (s s' : SF) (e : EncSt) (he : s.enc = some e)
    (h : lifeRun cfg remux pack s evs = some s') :
    s'.timeOffset = s.timeOffset ∧ ∃ e', s'.enc = some e' ∧ e'.ssrc = e.ssrc := by
  induction evs generalizing s e with
  | nil => simp [lifeRun] at h; subst h; exact ⟨rfl, e, he, rfl⟩
  | cons ev rest ih =>
    simp only [lifeRun] at h
    cases hs : lifeStep cfg remux pack s ev with
    | none => rw [hs] at h; cases h
    | some s1 =>
      rw [hs] at h
      simp only [Option.bind_some] at h
      obtain ⟨h1, e1, he1, hss⟩ := lifeStep_keeps cfg remux pack s s1 e ev he hs
      obtain ⟨h2, e2, he2, hss2⟩ := ih s1 e1 he1 h
      exact ⟨h2.trans h1, e2, he2, hss2.trans hss⟩

/-! ### (b1) the generic fragmenter -/

theorem chunksAux_flatten (k : Nat) (hk : 0 < k) (fuel : Nat) (b : Bytes) (hf : b.length ≤ fuel) :
    (chunksAux k fuel b).flatten = b := by
  induction fuel generalizing b with
  | zero =>
    have : b = [] := List.length_eq_zero_iff.mp (by omega)
    subst this; rfl
  | succ f ih =>
    unfold chunksAux
    split
    · split
      · rename_i he; simp at he; simp [he]
      · simp
    · rename_i hgt
      simp only [List.flatten_cons]
      rw [ih (b.drop k) (by simp only [List.length_drop]; omega)]
      exact List.take_append_drop k b

theorem chunks_flatten (k : Nat) (hk : 0 < k) (b : Bytes) : (chunks k b).flatten = b := by
  unfold chunks
  rw [if_neg (by omega)]
  exact chunksAux_flatten k hk _ b (Nat.le_refl _)

theorem chunksAux_size (k : Nat) (hk : 0 < k) (fuel : Nat) (b : Bytes) :
    ∀ c ∈ chunksAux k fuel b, 0 < c.length ∧ c.length ≤ k := by
  induction fuel generalizing b with
  | zero => intro c hc; simp [chunksAux] at hc
  | succ f ih =>
    unfold chunksAux
    split
    · rename_i hle
      split
      · intro c hc; cases hc
      · rename_i hne
        intro c hc
        simp only [List.mem_singleton] at hc
        subst hc
        refine ⟨?_, hle⟩
        cases c with
        | nil => simp at hne
        | cons _ _ => simp
    · rename_i hgt
      intro c hc
      rcases List.mem_cons.mp hc with rfl | hc
      · simp only [List.length_take]; omega
      · exact ih _ c hc

theorem chunks_size (k : Nat) (b : Bytes) : ∀ c ∈ chunks k b, 0 < c.length ∧ c.length ≤ k := by
  unfold chunks
  split
  · intro c hc; cases hc
  · rename_i hk
    exact chunksAux_size k (by omega) _ b

theorem chunks_ne_nil (k : Nat) (hk : 0 < k) (b : Bytes) (hb : b ≠ []) : chunks k b ≠ [] := by
  intro h
  have := chunks_flatten k hk b
  rw [h] at this
  exact hb this.symm

theorem markLast_payloads (l : List Bytes) : (markLast l).map (·.payload) = l := by
  induction l with
  | nil => rfl
  | cons c rest ih =>
    cases rest with
    | nil => rfl
    | cons d rest' => simp only [markLast, List.map_cons, ih]

theorem markLast_dts (l : List Bytes) : ∀ r ∈ markLast l, r.dts = 0 := by
  induction l with
  | nil => simp [markLast]
  | cons c rest ih =>
    cases rest with
    | nil => simp [markLast]
    | cons d rest' =>
      intro r hr
      simp only [markLast, List.mem_cons] at hr
      rcases hr with rfl | hr
      · rfl
      · exact ih r (by simpa [markLast] using hr)

/-- **size bound (b1)** -/
theorem frag_size (max : Nat) (frame : Bytes) : ∀ r ∈ fragPack max frame, r.payload.length ≤ max := by
  intro r hr
  have : r.payload ∈ (fragPack max frame).map (·.payload) := List.mem_map_of_mem hr
  rw [fragPack, markLast_payloads] at this
  exact (chunks_size max frame r.payload this).2

/-- decoding is blind to the timestamp -/
theorem fragDecode_stamp (d : FragDec) (off : Nat) (pts : Int) (p : Pkt) :
    fragDecode d (stamp off pts p) = fragDecode d p := rfl

theorem fragDecodeAll_stamp (d : FragDec) (off : Nat) (pts : Int) (l : List Pkt) :
    fragDecodeAll d (l.map (stamp off pts)) = fragDecodeAll d l := by
  induction l generalizing d with
  | nil => rfl
  | cons p rest ih =>
    cases rest with
    | nil => rfl
    | cons q rest' =>
      simp only [List.map_cons, fragDecodeAll, fragDecode_stamp]
      split <;> simp_all

theorem markLast_length (l : List Bytes) : (markLast l).length = l.length := by
  have := congrArg List.length (markLast_payloads l)
  simpa using this

theorem fragDecodeAll_cons (d : FragDec) (p : Pkt) (l : List Pkt) (hl : l ≠ []) :
    fragDecodeAll d (p :: l) =
      match fragDecode d p with
      | (d', .more) => fragDecodeAll d' l
      | (d', r) => (d', r) := by
  cases l with
  | nil => exact absurd rfl hl
  | cons q r => rfl

/-- feeding the numbered pieces: from a decoder that has collected `acc` (expecting `seq`), the last
piece completes `acc ++ pieces.flatten` -/
theorem frag_decode_aux (ssrc : Nat) (cs : List Bytes) (hne : cs ≠ []) (hpos : ∀ c ∈ cs, c ≠ [])
    (seq : Nat) (acc : Bytes) (d : FragDec) (hd : d.frags = acc) (hn : acc ≠ [] → d.next = seq % two16) :
    (fragDecodeAll d (number ssrc seq (markLast cs))).2 = .out (acc ++ cs.flatten) := by
  induction cs generalizing seq acc d with
  | nil => exact absurd rfl hne
  | cons c rest ih =>
    have hc : c ≠ [] := hpos c List.mem_cons_self
    have hce : c.isEmpty = false := by cases c with | nil => exact absurd rfl hc | cons _ _ => rfl
    cases rest with
    | nil =>
      simp only [markLast, number, fragDecodeAll, fragDecode, hce, List.flatten_cons, List.flatten_nil,
        List.append_nil]
      by_cases ha : acc = []
      · subst ha; simp [hd]
      · simp [hn ha, hd, ha]
    | cons c2 rest' =>
      have hstep : fragDecode d ⟨ssrc, seq % two16, 0 % two32, false, c⟩ =
          ({ frags := acc ++ c, next := (seq % two16 + 1) % two16 }, .more) := by
        simp only [fragDecode, hce]
        by_cases ha : acc = []
        · subst ha; simp [hd]
        · simp [hn ha, hd, ha]
      have hl : number ssrc (seq + 1) (markLast (c2 :: rest')) ≠ [] := by
        intro e
        have := congrArg List.length e
        rw [number_length, markLast_length] at this
        simp at this
      have hm : markLast (c :: c2 :: rest') = { marker := false, payload := c } :: markLast (c2 :: rest') := rfl
      rw [hm]
      simp only [number]
      rw [fragDecodeAll_cons _ _ _ hl]
      rw [hstep]
      simp only
      have := ih (by simp) (fun x hx => hpos x (List.mem_cons_of_mem _ hx)) (seq + 1) (acc ++ c)
        { frags := acc ++ c, next := (seq % two16 + 1) % two16 } rfl
        (fun _ => by simp only [two16]; omega)
      rw [this]
      simp

/-- **lossless (b1)**: for every non-empty frame and every `max ≥ 1`, feeding the delivered packets of the unit
(numbered from any sequence number, stamped with any offset) to a fresh `rtpfragmented.Decoder` yields the
frame. -/
theorem frag_roundtrip (max : Nat) (hmax : 0 < max) (frame : Bytes) (hf : frame ≠ []) (ssrc seq off : Nat)
    (pts : Int) :
    (fragDecodeAll {} ((number ssrc seq (fragPack max frame)).map (stamp off pts))).2 = .out frame := by
  rw [fragDecodeAll_stamp, fragPack]
  have := frag_decode_aux ssrc (chunks max frame) (chunks_ne_nil max hmax frame hf)
    (fun c hc => by have := (chunks_size max frame c hc).1; intro e; rw [e] at this; simp at this)
    seq [] {} rfl (fun h => absurd rfl h)
  rw [this, chunks_flatten max hmax]; rfl

theorem frag_nonempty (max : Nat) (hmax : 0 < max) (frame : Bytes) (hf : frame ≠ []) :
    fragPack max frame ≠ [] := by
  intro h
  have := markLast_payloads (chunks max frame)
  rw [fragPack] at h
  rw [h] at this
  exact chunks_ne_nil max hmax frame hf this.symm

/-! ### (b2) H264: sizes -/

theorem lenAgg_append (a : List NALU) (n : NALU) : lenAgg (a ++ [n]) = lenAgg a + (2 + n.length) := by
  simp [lenAgg]; omega

theorem stapA_length (b : List NALU) : (stapA b).length = lenAgg b := by
  unfold stapA lenAgg
  induction b with
  | nil => simp
  | cons n r ih =>
    simp only [List.flatMap_cons, List.length_cons, List.length_append, List.map_cons, List.sum_cons] at ih ⊢
    omega

/-- every batch is a single NAL unit or fits an aggregation packet -/
theorem splitBatches_ok (max : Nat) (l cur : List NALU) (hc : cur.length ≤ 1 ∨ lenAgg cur ≤ max) :
    ∀ b ∈ splitBatches max cur l, b.length ≤ 1 ∨ lenAgg b ≤ max := by
  induction l generalizing cur with
  | nil => intro b hb; simp [splitBatches] at hb; subst hb; exact hc
  | cons n rest ih =>
    intro b hb
    unfold splitBatches at hb
    split at hb
    · rename_i hfit
      exact ih (cur ++ [n]) (Or.inr (by rw [lenAgg_append]; exact hfit)) b hb
    · split at hb
      · exact ih [n] (Or.inl (by simp)) b hb
      · rcases List.mem_cons.mp hb with rfl | hb
        · exact hc
        · exact ih [n] (Or.inl (by simp)) b hb

theorem splitBatches_flatten (max : Nat) (l cur : List NALU) :
    (splitBatches max cur l).flatten = cur ++ l := by
  induction l generalizing cur with
  | nil => simp [splitBatches]
  | cons n rest ih =>
    unfold splitBatches
    split
    · rw [ih]; simp
    · split
      · rename_i he
        have : cur = [] := by simpa using he
        rw [ih, this]; simp
      · simp [ih]

theorem splitBatches_ne (max : Nat) (l cur : List NALU) (h : cur ≠ [] ∨ l ≠ []) :
    ∀ b ∈ splitBatches max cur l, b ≠ [] := by
  induction l generalizing cur with
  | nil =>
    intro b hb
    simp [splitBatches] at hb
    subst hb
    rcases h with h | h
    · exact h
    · exact absurd rfl h
  | cons n rest ih =>
    intro b hb
    unfold splitBatches at hb
    split at hb
    · exact ih (cur ++ [n]) (Or.inl (by simp)) b hb
    · split at hb
      · exact ih [n] (Or.inl (by simp)) b hb
      · rename_i hne
        rcases List.mem_cons.mp hb with rfl | hb
        · intro e; rw [e] at hne; simp at hne
        · exact ih [n] (Or.inl (by simp)) b hb

theorem fuFrags_size (hdr : UInt8) (k : Nat) (cs : List Bytes) (hcs : ∀ c ∈ cs, c.length ≤ k) (start : Bool) :
    ∀ p ∈ fuFrags hdr start cs, p.length ≤ 2 + k := by
  induction cs generalizing start with
  | nil => simp [fuFrags]
  | cons c rest ih =>
    cases rest with
    | nil =>
      intro p hp
      simp only [fuFrags, List.mem_singleton] at hp
      subst hp
      have := hcs c List.mem_cons_self
      simp [fuHdr]; omega
    | cons c2 r2 =>
      intro p hp
      simp only [fuFrags, List.mem_cons] at hp
      rcases hp with rfl | hp
      · have := hcs c List.mem_cons_self
        simp [fuHdr]; omega
      · exact ih (fun x hx => hcs x (List.mem_cons_of_mem _ hx)) false p (by simpa [fuFrags] using hp)

theorem batchPayloads_size (max : Nat) (hmax : 3 ≤ max) (b : List NALU)
    (hb : b.length ≤ 1 ∨ lenAgg b ≤ max) (pls : List Bytes) (h : batchPayloads max b = some pls) :
    ∀ p ∈ pls, p.length ≤ max := by
  unfold batchPayloads at h
  split at h
  · rename_i n
    split at h
    · rename_i hlt
      cases h
      intro p hp; simp at hp; subst hp; omega
    · split at h
      · omega
      · cases h
        intro p hp
        have := fuFrags_size (n.headD 0) (max - 2) (chunks (max - 2) n.tail)
          (fun c hc => (chunks_size _ _ c hc).2) true p hp
        omega
  · rename_i hns
    cases h
    intro p hp
    simp only [List.mem_singleton] at hp
    subst hp
    rw [stapA_length]
    rcases hb with hb | hb
    · cases b with
      | nil => simp [lenAgg]; omega
      | cons x r =>
        cases r with
        | nil => exact absurd rfl (hns x)
        | cons y r' => simp at hb
    · exact hb

theorem allSome_mem {α : Type} (l : List (Option (List α))) (res : List α) (h : allSome l = some res)
    (x : α) (hx : x ∈ res) : ∃ y, some y ∈ l ∧ x ∈ y := by
  induction l generalizing res with
  | nil => simp [allSome] at h; subst h; cases hx
  | cons o rest ih =>
    cases o with
    | none => simp [allSome] at h
    | some y =>
      simp only [allSome, Option.map_eq_some_iff] at h
      obtain ⟨r, hr, rfl⟩ := h
      rcases List.mem_append.mp hx with hx | hx
      · exact ⟨y, List.mem_cons_self, hx⟩
      · obtain ⟨z, hz, hxz⟩ := ih r hr hx
        exact ⟨z, List.mem_cons_of_mem _ hz, hxz⟩

/-- **size bound (b2)**: for every access unit (whatever its NAL units) and every `max ≥ 3`, every payload
generated by the H264 packetiser fits `max`. -/
theorem h264_size (max : Nat) (hmax : 3 ≤ max) (au : List NALU) (raws : List Raw)
    (h : h264Pack max au = some raws) : ∀ r ∈ raws, r.payload.length ≤ max := by
  unfold h264Pack at h
  simp only [Option.map_eq_some_iff] at h
  obtain ⟨pls, hpls, rfl⟩ := h
  intro r hr
  have hm : r.payload ∈ (markLast pls).map (·.payload) := List.mem_map_of_mem hr
  rw [markLast_payloads] at hm
  obtain ⟨y, hy, hxy⟩ := allSome_mem _ _ hpls _ hm
  simp only [List.mem_map] at hy
  obtain ⟨b, hb, hby⟩ := hy
  exact batchPayloads_size max hmax b (splitBatches_ok max au [] (Or.inl (by simp)) b hb) y hby _ hxy

/-- … and it never panics for `max ≥ 3` -/
theorem h264_no_panic (max : Nat) (hmax : 3 ≤ max) (au : List NALU) : (h264Pack max au).isSome = true := by
  unfold h264Pack
  simp only [Option.isSome_map]
  generalize splitBatches max [] au = bs
  induction bs with
  | nil => rfl
  | cons b rest ih =>
    simp only [List.map_cons]
    have : ∃ y, batchPayloads max b = some y := by
      unfold batchPayloads
      split
      · split
        · exact ⟨_, rfl⟩
        · split
          · omega
          · exact ⟨_, rfl⟩
      · exact ⟨_, rfl⟩
    obtain ⟨y, hy⟩ := this
    rw [hy]
    cases hr : allSome (rest.map (batchPayloads max)) with
    | none => rw [hr] at ih; cases ih
    | some r => simp [allSome, hr]

/-! ### (b2) H264: lossless -/

theorem allU8 (P : UInt8 → Prop) (h : ∀ n : Nat, n < 256 → P (UInt8.ofNat n)) (x : UInt8) : P x := by
  have := h x.toNat (UInt8.toNat_lt x)
  simpa using this

set_option maxRecDepth 100000 in
theorem fuInd_typ : ∀ hdr : UInt8, (fuInd hdr &&& 0x1F).toNat = 28 := by
  apply allU8; decide

set_option maxRecDepth 100000 in
theorem fuB1_bits : ∀ hdr : UInt8, ∀ s f : Bool,
    ((fuB1 hdr s f >>> 7) == 1) = s ∧ (((fuB1 hdr s f >>> 6) &&& 1) == 1) = f := by
  apply allU8; decide

set_option maxRecDepth 100000 in
theorem fu_restore : ∀ hdr : UInt8, hdr &&& 0x80 = 0 → ∀ s f : Bool,
    (((fuInd hdr >>> 5) &&& 3) <<< 5) ||| (fuB1 hdr s f &&& 0x1F) = hdr := by
  apply allU8; decide

/-- state of the decoder between two NAL units of a unit: nothing under reassembly, `fb` collected -/
structure Ready (d : H264Dec) (fb : List NALU) : Prop where
  frag : d.frag = none
  unm : d.unmodelled = false
  frame : d.frame = fb

theorem contains4_of (n : Bytes) (h : containsSeq [0, 0, 0, 1] n = true) : containsSeq [0, 0, 1] n = true := by
  induction n with
  | nil => simp [containsSeq] at h
  | cons x r ih =>
    simp only [containsSeq, Bool.or_eq_true] at h ⊢
    rcases h with h | h
    · right
      match r, h with
      | y :: z :: w :: r3, h =>
        simp only [List.isPrefixOf, Bool.and_eq_true, beq_iff_eq] at h
        obtain ⟨_, hy, hz, hw, _⟩ := h
        subst hy hz hw
        simp [containsSeq, List.isPrefixOf]
      | [], h => simp [List.isPrefixOf] at h
      | [_], h => simp [List.isPrefixOf] at h
      | [_, _], h => simp [List.isPrefixOf] at h
    · exact Or.inr (ih h)

theorem afterFU_clean (d : H264Dec) (n : Bytes) (h : containsSeq [0, 0, 1] n = false) :
    afterFU d n = ({ d with frag := none }, .out [n]) := by
  simp [afterFU, h]

/-- packets of a batch: consecutive sequence numbers, marker only on the last one and only if `last` -/
def numberM (ssrc seq : Nat) (last : Bool) : List Bytes → List Pkt
  | [] => []
  | c :: rest => ⟨ssrc, seq % two16, 0, last && rest.isEmpty, c⟩ :: numberM ssrc (seq + 1) last rest

theorem number_markLast (ssrc seq : Nat) (l : List Bytes) :
    number ssrc seq (markLast l) = numberM ssrc seq true l := by
  induction l generalizing seq with
  | nil => rfl
  | cons c rest ih =>
    cases rest with
    | nil => simp [markLast, number, numberM, two32]
    | cons c2 r2 =>
      have hm : markLast (c :: c2 :: r2) = { marker := false, payload := c } :: markLast (c2 :: r2) := rfl
      rw [hm]
      simp only [number, numberM, ih]
      simp [two32]

theorem numberM_append (ssrc seq : Nat) (xs ys : List Bytes) (hy : ys ≠ []) :
    numberM ssrc seq true (xs ++ ys) = numberM ssrc seq false xs ++ numberM ssrc (seq + xs.length) true ys := by
  induction xs generalizing seq with
  | nil => simp [numberM]
  | cons c rest ih =>
    simp only [List.cons_append, numberM, List.length_cons, ih (seq + 1)]
    have : (rest ++ ys).isEmpty = false := by
      cases rest with
      | nil => cases ys with | nil => exact absurd rfl hy | cons _ _ => rfl
      | cons _ _ => rfl
    simp [this, show seq + 1 + rest.length = seq + (rest.length + 1) by omega]

theorem numberM_ne (ssrc seq : Nat) (last : Bool) (l : List Bytes) (h : l ≠ []) :
    numberM ssrc seq last l ≠ [] := by
  cases l with
  | nil => exact absurd rfl h
  | cons c r => simp [numberM]

theorem h264DecodeAll_cons (d : H264Dec) (p : Pkt) (l : List Pkt) (hl : l ≠ []) :
    h264DecodeAll d (p :: l) =
      match h264Decode d p with
      | (d', .more) => h264DecodeAll d' l
      | (d', r) => (d', r) := by
  cases l with
  | nil => exact absurd rfl hl
  | cons q r => rfl

/-- if feeding `xs` only ever answers "more", decoding goes on with the rest -/
theorem h264DecodeAll_append (d d' : H264Dec) (xs ys : List Pkt)
    (h : h264DecodeAll d xs = (d', .more)) : h264DecodeAll d (xs ++ ys) = h264DecodeAll d' ys := by
  induction xs generalizing d with
  | nil => simp [h264DecodeAll] at h; subst h; rfl
  | cons p rest ih =>
    cases rest with
    | nil =>
      simp only [h264DecodeAll] at h
      cases ys with
      | nil => simp [h264DecodeAll, h]
      | cons y ys' =>
        simp only [List.cons_append, List.nil_append]
        rw [h264DecodeAll_cons _ _ _ (by simp), h]
    | cons q rest' =>
      rw [h264DecodeAll_cons _ _ _ (by simp)] at h
      simp only [List.cons_append]
      rw [h264DecodeAll_cons _ _ _ (by simp)]
      cases hp : h264Decode d p with
      | mk d1 r =>
        rw [hp] at h
        cases r with
        | more => simp only at h ⊢; exact ih d1 h
        | out a => simp only at h; cases h
        | err => simp only at h; cases h

/-- what one batch does to the decoder -/
def BatchDec (d : H264Dec) (fb b : List NALU) (pkts : List Pkt) (last : Bool) : Prop :=
  ∃ d', h264DecodeAll d pkts = (d', if last then .out (fb ++ b) else .more) ∧
    (last = false → Ready d' (fb ++ b))

theorem h264Decode_of_nalus (d d1 : H264Dec) (p : Pkt) (ns : List NALU) (hu : d.unmodelled = false)
    (h : h264Nalus d p = (d1, .out ns)) :
    h264Decode d p = if p.marker then ({ d1 with frame := [] }, .out (d1.frame ++ ns))
                     else ({ d1 with frame := d1.frame ++ ns }, .more) := by
  simp [h264Decode, hu, h]

theorem h264Decode_of_more (d d1 : H264Dec) (p : Pkt) (hu : d.unmodelled = false)
    (h : h264Nalus d p = (d1, .more)) : h264Decode d p = (d1, .more) := by
  simp [h264Decode, hu, h]

/-- single NAL unit packet -/
theorem single_nalus (d : H264Dec) (p : Pkt) (hc : cleanNALU p.payload = true) :
    h264Nalus d p = ({ d with frag := none }, .out [p.payload]) := by
  unfold h264Nalus
  cases hp : p.payload with
  | nil => rw [hp] at hc; simp [cleanNALU] at hc
  | cons b0 rest =>
    rw [hp] at hc
    unfold cleanNALU at hc
    simp only [List.headD_cons, Bool.and_eq_true] at hc
    obtain ⟨⟨⟨_, htyp⟩, hsc⟩, _⟩ := hc
    have h4 : containsSeq [0, 0, 0, 1] (b0 :: rest) = false := by
      cases h : containsSeq [0, 0, 0, 1] (b0 :: rest) with
      | false => rfl
      | true => rw [contains4_of _ h] at hsc; cases hsc
    simp only
    have ht : ¬ (24 ≤ (b0 &&& 0x1F).toNat ∧ (b0 &&& 0x1F).toNat ≤ 29) := by
      intro hh
      have h1 : decide (24 ≤ (b0 &&& 0x1F).toNat) = true := decide_eq_true hh.1
      have h2 : decide ((b0 &&& 0x1F).toNat ≤ 29) = true := decide_eq_true hh.2
      have h3 : (!(decide (24 ≤ (b0 &&& 0x1F).toNat) && decide ((b0 &&& 0x1F).toNat ≤ 29))) = true := htyp
      rw [h1, h2] at h3
      exact absurd h3 (by decide)
    have e28 : ((b0 &&& 0x1F).toNat == 28) = false := beq_eq_false_iff_ne.mpr (by omega)
    have e24 : ((b0 &&& 0x1F).toNat == 24) = false := beq_eq_false_iff_ne.mpr (by omega)
    have e25 : ((b0 &&& 0x1F).toNat == 25) = false := beq_eq_false_iff_ne.mpr (by omega)
    have e26 : ((b0 &&& 0x1F).toNat == 26) = false := beq_eq_false_iff_ne.mpr (by omega)
    have e27 : ((b0 &&& 0x1F).toNat == 27) = false := beq_eq_false_iff_ne.mpr (by omega)
    have e29 : ((b0 &&& 0x1F).toNat == 29) = false := beq_eq_false_iff_ne.mpr (by omega)
    simp only [e28, e24, e25, e26, e27, e29, h4, Bool.false_eq_true, if_false, Bool.or_self]

/-- body of a STAP-A packet -/
def stapBody (b : List NALU) : Bytes := b.flatMap fun n => hi8 n.length :: lo8 n.length :: n

theorem size_decode (n : Nat) (h : n < two16) : (hi8 n).toNat * 256 + (lo8 n).toNat = n := by
  simp only [hi8, lo8, UInt8.toNat_ofNat', two16] at *
  omega

theorem stapBody_len (b : List NALU) : b.length ≤ (stapBody b).length := by
  induction b with
  | nil => simp [stapBody]
  | cons n r ih =>
    simp only [stapBody, List.flatMap_cons, List.length_append, List.length_cons] at ih ⊢
    omega

theorem parseStap_body (b : List NALU) (hb : b ≠ []) (hc : ∀ n ∈ b, n ≠ [] ∧ n.length < two16)
    (fuel : Nat) (hf : b.length ≤ fuel) : parseStap fuel (stapBody b) = some b := by
  induction b generalizing fuel with
  | nil => exact absurd rfl hb
  | cons n rest ih =>
    cases fuel with
    | zero => simp at hf
    | succ f =>
      have hn := hc n List.mem_cons_self
      have hbody : stapBody (n :: rest) = hi8 n.length :: lo8 n.length :: (n ++ stapBody rest) := by
        simp [stapBody]
      rw [hbody]
      unfold parseStap
      simp only [size_decode n.length hn.2]
      have hne : (n.length == 0) = false := by
        cases n with
        | nil => exact absurd rfl hn.1
        | cons _ _ => simp
      have hle : ¬ n.length > (n ++ stapBody rest).length := by simp
      simp only [hne, Bool.false_eq_true, if_false, hle, List.take_left', List.drop_left']
      cases rest with
      | nil => simp [stapBody]
      | cons m rest' =>
        have hne2 : (stapBody (m :: rest')).isEmpty = false := by simp [stapBody]
        simp only [hne2, Bool.false_eq_true, if_false]
        rw [ih (by simp) (fun x hx => hc x (List.mem_cons_of_mem _ hx)) f (by simp at hf ⊢; omega)]
        rfl

/-- STAP-A packet -/
theorem stap_nalus (d : H264Dec) (p : Pkt) (b : List NALU) (hp : p.payload = stapA b) (hb : b ≠ [])
    (hc : ∀ n ∈ b, n ≠ [] ∧ n.length < two16) :
    h264Nalus d p = ({ d with frag := none }, .out b) := by
  unfold h264Nalus
  rw [hp]
  have : stapA b = 24 :: stapBody b := rfl
  rw [this]
  simp only
  have h24 : ((24 : UInt8) &&& 0x1F).toNat = 24 := by decide
  simp only [h24]
  rw [parseStap_body b hb hc _ (Nat.le_succ_of_le (stapBody_len b))]
  cases b with
  | nil => exact absurd rfl hb
  | cons n ns => rfl

/-- FU-A packet -/
theorem fu_nalus (d : H264Dec) (p : Pkt) (hdr : UInt8) (s f : Bool) (c : Bytes)
    (hp : p.payload = fuHdr hdr s f ++ c) (hF : hdr &&& 0x80 = 0) :
    h264Nalus d p =
      if s then
        (if f then afterFU d (hdr :: c)
         else ({ d with frag := some (hdr :: c), next := (p.seq + 1) % two16 }, .more))
      else
        match d.frag with
        | none => (d, .err)
        | some acc =>
          if p.seq != d.next then ({ d with frag := none }, .err)
          else if f then afterFU d (acc ++ c)
          else ({ d with frag := some (acc ++ c), next := (d.next + 1) % two16 }, .more) := by
  unfold h264Nalus
  rw [hp]
  simp only [fuHdr, List.cons_append, List.nil_append, fuInd_typ, (fuB1_bits hdr s f).1,
    (fuB1_bits hdr s f).2, fu_restore hdr hF s f]
  rfl

theorem clean_facts (n : NALU) (h : cleanNALU n = true) :
    n ≠ [] ∧ (n.headD 0 &&& 0x80 = 0) ∧ containsSeq [0, 0, 1] n = false ∧ n.length < two16 := by
  unfold cleanNALU at h
  simp only [Bool.and_eq_true, Bool.not_eq_true', beq_iff_eq, decide_eq_true_eq] at h
  obtain ⟨⟨⟨⟨h1, h2⟩, _⟩, h4⟩, h5⟩ := h
  refine ⟨?_, h2, h4, h5⟩
  intro e; rw [e] at h1; simp at h1

theorem fuFrags_ne (hdr : UInt8) (s : Bool) (cs : List Bytes) (h : cs ≠ []) : fuFrags hdr s cs ≠ [] := by
  cases cs with
  | nil => exact absurd rfl h
  | cons c r => cases r <;> simp [fuFrags]

theorem batchDec_of_nalus (d d1 : H264Dec) (fb : List NALU) (p : Pkt) (ns : List NALU) (last : Bool)
    (hu : d.unmodelled = false) (hm : p.marker = last) (h : h264Nalus d p = (d1, .out ns))
    (h1 : d1.frag = none ∧ d1.unmodelled = false ∧ d1.frame = fb) :
    BatchDec d fb ns [p] last := by
  have hd := h264Decode_of_nalus d d1 p ns hu h
  unfold BatchDec
  simp only [h264DecodeAll, hd, hm]
  cases last with
  | true =>
    refine ⟨{ d1 with frame := [] }, ?_, fun e => by cases e⟩
    simp [h1.2.2]
  | false =>
    refine ⟨{ d1 with frame := d1.frame ++ ns }, ?_, fun _ => ⟨h1.1, h1.2.1, ?_⟩⟩
    · simp
    · simp [h1.2.2]

theorem batch_single (ssrc sq : Nat) (last : Bool) (n : NALU) (hc : cleanNALU n = true)
    (d : H264Dec) (fb : List NALU) (hr : Ready d fb) :
    BatchDec d fb [n] (numberM ssrc sq last [n]) last := by
  simp only [numberM]
  exact batchDec_of_nalus d _ fb _ [n] last hr.unm (by simp) (single_nalus d _ hc)
    ⟨rfl, hr.unm, hr.frame⟩

theorem batch_stap (ssrc sq : Nat) (last : Bool) (b : List NALU) (hb : b ≠ [])
    (hc : ∀ n ∈ b, cleanNALU n = true) (d : H264Dec) (fb : List NALU) (hr : Ready d fb) :
    BatchDec d fb b (numberM ssrc sq last [stapA b]) last := by
  simp only [numberM]
  exact batchDec_of_nalus d _ fb _ b last hr.unm (by simp)
    (stap_nalus d _ b rfl hb (fun n hn => ⟨(clean_facts n (hc n hn)).1, (clean_facts n (hc n hn)).2.2.2⟩))
    ⟨rfl, hr.unm, hr.frame⟩

/-- FU-A: the fragments after the first one -/
theorem fu_cont (ssrc : Nat) (hdr : UInt8) (hF : hdr &&& 0x80 = 0) (last : Bool) (cs : List Bytes)
    (hne : cs ≠ []) (sq : Nat) (acc : Bytes) (d : H264Dec) (fb : List NALU)
    (hfrag : d.frag = some acc) (hnext : d.next = sq % two16) (hu : d.unmodelled = false)
    (hframe : d.frame = fb) (hclean : containsSeq [0, 0, 1] (acc ++ cs.flatten) = false) :
    BatchDec d fb [acc ++ cs.flatten] (numberM ssrc sq last (fuFrags hdr false cs)) last := by
  induction cs generalizing sq acc d with
  | nil => exact absurd rfl hne
  | cons c rest ih =>
    cases rest with
    | nil =>
      simp only [fuFrags, numberM, List.flatten_cons, List.flatten_nil, List.append_nil] at hclean ⊢
      have hn := fu_nalus d ⟨ssrc, sq % two16, 0, last && ([] : List Bytes).isEmpty, fuHdr hdr false true ++ c⟩
        hdr false true c rfl hF
      simp only [hfrag, hnext, bne_self_eq_false, Bool.false_eq_true, if_false, if_true,
        afterFU_clean d _ hclean] at hn
      exact batchDec_of_nalus d _ fb _ _ last hu (by simp) hn ⟨rfl, hu, hframe⟩
    | cons c2 rest' =>
      have hf : fuFrags hdr false (c :: c2 :: rest') =
          (fuHdr hdr false false ++ c) :: fuFrags hdr false (c2 :: rest') := rfl
      rw [hf]
      simp only [numberM]
      have hl := numberM_ne ssrc (sq + 1) last _ (fuFrags_ne hdr false (c2 :: rest') (by simp))
      have hn := fu_nalus d ⟨ssrc, sq % two16, 0,
        last && (fuFrags hdr false (c2 :: rest')).isEmpty, fuHdr hdr false false ++ c⟩ hdr false false c rfl hF
      simp only [hfrag, hnext, bne_self_eq_false, Bool.false_eq_true, if_false] at hn
      have hd := h264Decode_of_more d _ _ hu hn
      have hcl : containsSeq [0, 0, 1] ((acc ++ c) ++ (c2 :: rest').flatten) = false := by
        simpa [List.append_assoc] using hclean
      have := ih (by simp) (sq + 1) (acc ++ c)
        { d with frag := some (acc ++ c), next := (sq % two16 + 1) % two16 }
        rfl (by simp only [two16]; omega) hu hframe hcl
      unfold BatchDec at this ⊢
      obtain ⟨d', h1, h2⟩ := this
      refine ⟨d', ?_, ?_⟩
      · rw [h264DecodeAll_cons _ _ _ hl, hd]
        simp only
        rw [h1]
        simp [List.append_assoc]
      · intro hlast
        have := h2 hlast
        simpa [List.append_assoc] using this

/-- FU-A: a whole fragmented NAL unit `hdr :: body` -/
theorem fu_start (ssrc : Nat) (hdr : UInt8) (hF : hdr &&& 0x80 = 0) (last : Bool) (cs : List Bytes)
    (hne : cs ≠ []) (sq : Nat) (d : H264Dec) (fb : List NALU) (hr : Ready d fb)
    (hclean : containsSeq [0, 0, 1] (hdr :: cs.flatten) = false) :
    BatchDec d fb [hdr :: cs.flatten] (numberM ssrc sq last (fuFrags hdr true cs)) last := by
  cases cs with
  | nil => exact absurd rfl hne
  | cons c rest =>
    cases rest with
    | nil =>
      simp only [fuFrags, numberM, List.flatten_cons, List.flatten_nil, List.append_nil] at hclean ⊢
      have hn := fu_nalus d ⟨ssrc, sq % two16, 0, last && ([] : List Bytes).isEmpty, fuHdr hdr true true ++ c⟩
        hdr true true c rfl hF
      simp only [if_true, afterFU_clean d _ hclean] at hn
      exact batchDec_of_nalus d _ fb _ _ last hr.unm (by simp) hn ⟨rfl, hr.unm, hr.frame⟩
    | cons c2 rest' =>
      have hf : fuFrags hdr true (c :: c2 :: rest') =
          (fuHdr hdr true false ++ c) :: fuFrags hdr false (c2 :: rest') := rfl
      rw [hf]
      simp only [numberM]
      have hl := numberM_ne ssrc (sq + 1) last _ (fuFrags_ne hdr false (c2 :: rest') (by simp))
      have hn := fu_nalus d ⟨ssrc, sq % two16, 0,
        last && (fuFrags hdr false (c2 :: rest')).isEmpty, fuHdr hdr true false ++ c⟩ hdr true false c rfl hF
      simp only [if_true, Bool.false_eq_true, if_false] at hn
      have hd := h264Decode_of_more d _ _ hr.unm hn
      have hcl : containsSeq [0, 0, 1] ((hdr :: c) ++ (c2 :: rest').flatten) = false := by
        simpa using hclean
      have := fu_cont ssrc hdr hF last (c2 :: rest') (by simp) (sq + 1) (hdr :: c)
        { d with frag := some (hdr :: c), next := (sq % two16 + 1) % two16 } fb
        rfl (by simp only [two16]; omega) hr.unm hr.frame hcl
      unfold BatchDec at this ⊢
      obtain ⟨d', h1, h2⟩ := this
      refine ⟨d', ?_, ?_⟩
      · rw [h264DecodeAll_cons _ _ _ hl, hd]
        simp only
        rw [h1]
        simp
      · intro hlast
        have := h2 hlast
        simpa using this

/-- one batch of the packetiser, decoded -/
theorem batch_decode (max : Nat) (hmax : 3 ≤ max) (ssrc sq : Nat) (last : Bool) (b : List NALU)
    (hb : b ≠ []) (hc : ∀ n ∈ b, cleanNALU n = true) (pls : List Bytes)
    (hp : batchPayloads max b = some pls) (d : H264Dec) (fb : List NALU) (hr : Ready d fb) :
    pls ≠ [] ∧ BatchDec d fb b (numberM ssrc sq last pls) last := by
  unfold batchPayloads at hp
  split at hp
  · rename_i n
    have hcn := hc n List.mem_cons_self
    split at hp
    · cases hp
      exact ⟨by simp, batch_single ssrc sq last n hcn d fb hr⟩
    · rename_i hge
      split at hp
      · omega
      · cases hp
        obtain ⟨hne, hF, hcl, _⟩ := clean_facts n hcn
        cases n with
        | nil => exact absurd rfl hne
        | cons hdr body =>
          simp only [List.headD_cons, List.tail_cons, fuA] at hF ⊢
          have hbody : body ≠ [] := by
            intro e; rw [e] at hge; simp at hge; omega
          have hk : 0 < max - 2 := by omega
          have hcs := chunks_ne_nil (max - 2) hk body hbody
          have hfl := chunks_flatten (max - 2) hk body
          have := fu_start ssrc hdr hF last (chunks (max - 2) body) hcs sq d fb hr (by rw [hfl]; exact hcl)
          rw [hfl] at this
          exact ⟨fuFrags_ne _ _ _ hcs, this⟩
  · cases hp
    exact ⟨by simp, batch_stap ssrc sq last b hb hc d fb hr⟩

theorem allSome_cons {α : Type} (x : Option (List α)) (l : List (Option (List α))) (P : List α)
    (h : allSome (x :: l) = some P) : ∃ y P', x = some y ∧ allSome l = some P' ∧ P = y ++ P' := by
  cases x with
  | none => simp [allSome] at h
  | some y =>
    simp only [allSome, Option.map_eq_some_iff] at h
    obtain ⟨P', h1, h2⟩ := h
    exact ⟨y, P', rfl, h1, h2.symm⟩

/-- all batches of a unit, decoded: the last packet completes `fb ++ all NAL units` -/
theorem batches_decode (max : Nat) (hmax : 3 ≤ max) (ssrc : Nat) (bs : List (List NALU)) (hbs : bs ≠ [])
    (hgood : ∀ b ∈ bs, b ≠ [] ∧ ∀ n ∈ b, cleanNALU n = true) (P : List Bytes)
    (hP : allSome (bs.map (batchPayloads max)) = some P) (sq : Nat) (d : H264Dec) (fb : List NALU)
    (hr : Ready d fb) :
    P ≠ [] ∧ (h264DecodeAll d (numberM ssrc sq true P)).2 = .out (fb ++ bs.flatten) := by
  induction bs generalizing P sq d fb with
  | nil => exact absurd rfl hbs
  | cons b rest ih =>
    simp only [List.map_cons] at hP
    obtain ⟨pls, P', hb, hrest, rfl⟩ := allSome_cons _ _ _ hP
    have hg := hgood b List.mem_cons_self
    cases rest with
    | nil =>
      simp only [List.map_nil, allSome, Option.some.injEq] at hrest
      subst hrest
      obtain ⟨hne, d', h1, _⟩ := batch_decode max hmax ssrc sq true b hg.1 hg.2 pls hb d fb hr
      simp only [List.append_nil]
      refine ⟨hne, ?_⟩
      rw [h1]; simp
    | cons b2 rest' =>
      obtain ⟨hne, d', h1, h2⟩ := batch_decode max hmax ssrc sq false b hg.1 hg.2 pls hb d fb hr
      have hih := ih (by simp) (fun x hx => hgood x (List.mem_cons_of_mem _ hx)) P' hrest
        (sq + pls.length) d' (fb ++ b) (h2 rfl)
      refine ⟨by simp [hne], ?_⟩
      rw [numberM_append ssrc sq pls P' hih.1, h264DecodeAll_append d d' _ _ (by simpa using h1), hih.2]
      simp [List.append_assoc]

theorem h264Decode_stamp (d : H264Dec) (off : Nat) (pts : Int) (p : Pkt) :
    h264Decode d (stamp off pts p) = h264Decode d p := rfl

theorem h264DecodeAll_stamp (d : H264Dec) (off : Nat) (pts : Int) (l : List Pkt) :
    h264DecodeAll d (l.map (stamp off pts)) = h264DecodeAll d l := by
  induction l generalizing d with
  | nil => rfl
  | cons p rest ih =>
    cases rest with
    | nil => rfl
    | cons q rest' =>
      simp only [List.map_cons, h264DecodeAll, h264Decode_stamp]
      split <;> simp_all

/-- **lossless (b2)**: for every non-empty access unit of clean NAL units (not empty, forbidden bit clear,
type outside 24–29, no start code inside, < 64 KiB) and every `max ≥ 3`, the packetiser does not panic and
feeding the delivered packets of the unit (numbered from any sequence number, stamped with any offset) to a
fresh `rtph264.Decoder` yields exactly the access unit. -/
theorem h264_roundtrip (max : Nat) (hmax : 3 ≤ max) (au : List NALU) (hau : au ≠ [])
    (hc : ∀ n ∈ au, cleanNALU n = true) (ssrc seq off : Nat) (pts : Int) :
    ∃ raws, h264Pack max au = some raws ∧ raws ≠ [] ∧
      (h264DecodeAll {} ((number ssrc seq raws).map (stamp off pts))).2 = .out au := by
  have hs := h264_no_panic max hmax au
  cases hpk : h264Pack max au with
  | none => rw [hpk] at hs; cases hs
  | some raws =>
    refine ⟨raws, rfl, ?_⟩
    unfold h264Pack at hpk
    simp only [Option.map_eq_some_iff] at hpk
    obtain ⟨P, hP, rfl⟩ := hpk
    have hfl := splitBatches_flatten max au []
    have hgood : ∀ b ∈ splitBatches max [] au, b ≠ [] ∧ ∀ n ∈ b, cleanNALU n = true := by
      intro b hb
      refine ⟨splitBatches_ne max au [] (Or.inr hau) b hb, fun n hn => hc n ?_⟩
      have : n ∈ (splitBatches max [] au).flatten := List.mem_flatten.mpr ⟨b, hb, hn⟩
      rw [hfl] at this
      simpa using this
    have hbs : splitBatches max [] au ≠ [] := by
      intro e; rw [e] at hfl; simp at hfl; exact hau hfl
    have := batches_decode max hmax ssrc (splitBatches max [] au) hbs hgood P hP seq {} []
      ⟨rfl, rfl, rfl⟩
    refine ⟨?_, ?_⟩
    · intro e
      have h1 := congrArg List.length e
      rw [markLast_length] at h1
      exact this.1 (List.length_eq_zero_iff.mp h1)
    · rw [h264DecodeAll_stamp, number_markLast, this.2, hfl]
      simp

/-- the H264 packetiser satisfies the contract used in (a) -/
theorem h264_packOK (max : Nat) (hmax : 3 ≤ max) :
    PackOK max (fun au => (h264Pack max au).getD [])
      (fun raws => match (h264DecodeAll {} (number 0 0 raws)).2 with | .out au => some au | _ => none)
      (fun au => au ≠ [] ∧ ∀ n ∈ au, cleanNALU n = true) := by
  constructor
  · intro au _ r hr
    cases h : h264Pack max au with
    | none => rw [h] at hr; simp at hr
    | some raws => rw [h] at hr; exact h264_size max hmax au raws h r hr
  · intro au hv
    obtain ⟨raws, h1, h2, _⟩ := h264_roundtrip max hmax au hv.1 hv.2 0 0 0 0
    rw [h1]; exact h2
  · intro au hv
    obtain ⟨raws, h1, _, h3⟩ := h264_roundtrip max hmax au hv.1 hv.2 0 0 0 0
    rw [h264DecodeAll_stamp] at h3
    simp only [h1, Option.getD_some, h3]

/-- the generic fragmenter satisfies the contract used in (a) -/
theorem frag_packOK (max : Nat) (hmax : 0 < max) :
    PackOK max (fragPack max)
      (fun raws => match (fragDecodeAll {} (number 0 0 raws)).2 with | .out f => some f | _ => none)
      (fun f => f ≠ []) := by
  constructor
  · intro f _ r hr; exact frag_size max f r hr
  · intro f hf; exact frag_nonempty max hmax f hf
  · intro f hf
    have := frag_roundtrip max hmax f hf 0 0 0 0
    rw [fragDecodeAll_stamp] at this
    simp only [this]

/-! ### (b3) Opus -/

theorem opusPackFrom_get (acc : Nat) (l : List Bytes) (i : Nat) (p : Bytes) (h : l[i]? = some p) :
    (opusPackFrom acc l)[i]? =
      some { marker := false, payload := p, dts := acc + ((l.take i).map opusDur).sum } := by
  induction l generalizing acc i with
  | nil => simp at h
  | cons x rest ih =>
    cases i with
    | zero => simp at h; subst h; simp [opusPackFrom]
    | succ j =>
      simp only [List.getElem?_cons_succ] at h
      simp only [opusPackFrom, List.getElem?_cons_succ, List.take_succ_cons, List.map_cons, List.sum_cons]
      rw [ih (acc + opusDur x) j h, Nat.add_assoc]

/-- **Opus timestamp rule**: packet `i` of a unit carries the packet itself, no marker, and the summed
durations of the packets before it — so after `number`/`stamp` its RTP timestamp is
`unit timestamp + fixed offset + Σ_{j<i} duration(packet j)` (`generated_get`). -/
theorem opus_ts (l : List Bytes) (i : Nat) (p : Bytes) (h : l[i]? = some p) :
    (opusPack l)[i]? = some { marker := false, payload := p, dts := ((l.take i).map opusDur).sum } := by
  have := opusPackFrom_get 0 l i p h
  simpa [opusPack] using this

theorem opusPackFrom_payloads (acc : Nat) (l : List Bytes) : (opusPackFrom acc l).map (·.payload) = l := by
  induction l generalizing acc with
  | nil => rfl
  | cons x rest ih => simp [opusPackFrom, ih]

/-- the Opus packetiser satisfies the contract of (a) on units whose packets fit the maximum (the encoder
itself never splits or checks a packet) -/
theorem opus_packOK (max : Nat) :
    PackOK max opusPack opusUnpack (fun l => l ≠ [] ∧ ∀ p ∈ l, p.length ≤ max) := by
  constructor
  · intro l hv r hr
    have : r.payload ∈ (opusPack l).map (·.payload) := List.mem_map_of_mem hr
    rw [opusPack, opusPackFrom_payloads] at this
    exact hv.2 _ this
  · intro l hv h
    have := congrArg (List.map (·.payload)) h
    rw [opusPack, opusPackFrom_payloads] at this
    exact hv.1 this
  · intro l _
    simp [opusUnpack, opusPack, opusPackFrom_payloads]

/-! #### non-vacuity / regression examples (kernel-decided) -/

-- 20 ms (config 1, code 0), then 2 x 60 ms (config 3, code 1), then code 3 with 3 frames of 10 ms (config 16..: 2.5 ms)
example : (opusPack [[0x08, 1], [0x19, 2], [0x83, 0x03, 9], [0x08]]).map (·.dts) = [0, 960, 960 + 5760, 960 + 5760 + 360] := by
  decide
example : opusDur [0x83] = 0 := by decide

example : cleanNALU [0x65, 1, 2, 3] = true := by decide
example : cleanNALU [0x65, 0, 0, 1] = false := by decide     -- start code inside
example : cleanNALU [0x7C, 1] = false := by decide           -- type 28
-- max = 5: [65 01 02 03 04 05 06] is fragmented into FU-A pieces of ≤ 3 bytes
example : (h264Pack 5 [[0x65, 1, 2, 3, 4, 5, 6]]).map (·.map (·.payload)) =
    some [[0x7C, 0x85, 1, 2, 3], [0x7C, 0x45, 4, 5, 6]] := by decide
-- two small NAL units are aggregated (STAP-A), the third one does not fit any more
example : (h264Pack 12 [[0x67, 1], [0x68, 2], [0x65, 3, 4, 5, 6, 7, 8]]).map (·.map (·.payload)) =
    some [[24, 0, 2, 0x67, 1, 0, 2, 0x68, 2], [0x65, 3, 4, 5, 6, 7, 8]] := by decide
example : (h264DecodeAll {} (number 7 65535 ((h264Pack 5 [[0x65, 1, 2, 3, 4, 5, 6], [0x41, 9]]).getD []))).2 =
    .out [[0x65, 1, 2, 3, 4, 5, 6], [0x41, 9]] := by decide
example : h264Pack 2 [[0x65, 1, 2]] = none := by decide       -- Go: integer division by zero
example : (fragPack 3 [1, 2, 3, 4, 5, 6, 7]).map (·.payload) = [[1, 2, 3], [4, 5, 6], [7]] := by decide
example : av1NoRoom 64 [List.replicate 35 0, List.replicate 26 0, List.replicate 17 0] = true := by decide
example : av1NoRoom 64 [List.replicate 35 0, List.replicate 25 0, List.replicate 17 0] = false := by decide

end MtxVerif.C23
