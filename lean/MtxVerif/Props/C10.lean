/-
C10 — loading any configuration input never panics; accepted configurations satisfy the documented
constraints.  Property theorems.
-/
import MtxVerif.Lemmas.C10

namespace MtxVerif.C10

/-! ### decrypt -/

/-- **`decrypt.Decrypt` never panics**, for every behaviour of base64 / secretbox and every key and file. -/
theorem decrypt_total (b64 : Bytes → Option Bytes) (sopen : Bytes → Bytes → Bytes → Option Bytes) (key file : Bytes) :
    decrypt b64 sopen key file ≠ .panic := by
  unfold decrypt
  cases b64 file with
  | none => simp
  | some enc =>
    by_cases hl : enc.length < 24
    · simp [hl]
    · simp only [hl, if_false]
      cases sopen (key32 key) (enc.take 24) (enc.drop 24) <;> simp

theorem stage_total (s : Option StageCol) : stage s ≠ .panic := by
  cases s with
  | none => simp [stage]
  | some s =>
    simp only [stage]
    have := decrypt_total (fun _ => s.b64) (fun _ _ _ => s.opened) s.key []
    cases h : decrypt (fun _ => s.b64) (fun _ _ _ => s.opened) s.key [] <;> simp_all

/-- the decryption stages of `loadFromFile` (RTSP_CONFKEY, MTX_CONFKEY) never panic. -/
theorem loadDecrypt_total (rk mk : Option StageCol) : loadDecrypt rk mk ≠ .panic := by
  unfold loadDecrypt
  have h1 := stage_total rk
  have h2 := stage_total mk
  cases h : stage rk <;> simp_all

/-- regression record of F-C10 (fixed in a83b2fa): without the length check the function panicked exactly when
the base64 text decoded to fewer than 24 bytes … -/
theorem decryptUnchecked_panic_iff (b64 : Bytes → Option Bytes) (sopen : Bytes → Bytes → Bytes → Option Bytes) (key file : Bytes) :
    decryptUnchecked b64 sopen key file = .panic ↔ ∃ enc, b64 file = some enc ∧ enc.length < 24 := by
  unfold decryptUnchecked
  cases hb : b64 file with
  | none => simp
  | some enc =>
    by_cases hl : enc.length < 24
    · simp [hl]
    · simp only [hl, if_false]
      cases sopen (key32 key) (enc.take 24) (enc.drop 24) <;> simp [hl]

/-- … and the check changed nothing else. -/
theorem decrypt_agrees_unchecked (b64 : Bytes → Option Bytes) (sopen : Bytes → Bytes → Bytes → Option Bytes) (key file : Bytes)
    (h : decryptUnchecked b64 sopen key file ≠ .panic) : decrypt b64 sopen key file = decryptUnchecked b64 sopen key file := by
  unfold decrypt decryptUnchecked at *
  cases hb : b64 file with
  | none => rfl
  | some enc =>
    by_cases hl : enc.length < 24
    · simp [hb, hl] at h
    · simp [hl]

/-! ### Validate -/

/-- **Main theorem**: every configuration accepted by (the model of) `Conf.Validate` satisfies all the
constraints of the executable spec. -/
theorem validate_ok_constraints {c c' : ConfV} (hn : (c.paths.map (·.name)).Nodup)
    (h : validate c = .ok c') : constraints c' = true := by
  unfold validate at h
  cases hg : validateGlobal c with
  | error e => simp [hg] at h
  | ok g =>
    simp only [hg, chk_ok] at h
    obtain ⟨halias, h⟩ := h
    have hgp : g.paths = c.paths := by rw [validateGlobal_eq_norm hg]; rfl
    split at h
    · simp at h
    · next ps' us hl =>
      have hmm : (g.paths.map ((fun x : PathV => x.name) ∘ remerge c)) = (g.paths.map (remerge c)).map (·.name) := by
        rw [List.map_map]
      try rw [hmm] at hl
      injection h with h
      subst h
      -- the loop
      have hkeys0 : (g.paths.map (remerge c)).map key = g.paths.map key := by
        rw [List.map_map]; exact List.map_congr_left (fun q _ => remerge_key c q)
      have hu : UniqNames (g.paths.map (remerge c)) := by
        apply uniq_of_nodup
        rw [names_of_keys hkeys0, hgp]; exact hn
      obtain ⟨f, hps', hus, hf⟩ := validatePaths_ok g.playback (depMode g) _ _ _ _ _ hl hu
      have hkeys : ps'.map key = (g.paths.map (remerge c)).map key := by
        rw [hps', List.map_map]; exact List.map_congr_left (fun q hq => (hf q hq).1)
      have hgood : ∀ q ∈ ps', Good g.playback (depMode g) (ps'.map key) q := by
        intro q hq
        rw [hps'] at hq
        obtain ⟨q0, hq0, rfl⟩ := List.mem_map.mp hq
        rw [hkeys]
        exact (hf q0 hq0).2.1 (List.mem_map_of_mem hq0)
      have hdep : depMode { g with paths := ps', users := us } = depMode g := by
        unfold depMode
        show (g.pdDepc || ps'.any (·.depc)) = (g.pdDepc || g.paths.any (·.depc))
        rw [any_depc_of_keys ps' g.paths (hkeys.trans hkeys0)]
      apply violations_nil
      · intro k hk
        simp only [globalConstraints, List.mem_append] at hk
        rcases hk with hk | hk
        · exact globalOnly_congr hdep hus k hk (validateGlobal_ok hg k hk)
        · simp only [crossConstraints, List.mem_cons, List.not_mem_nil, or_false] at hk
          rcases hk with rfl | rfl | rfl
          · show decide ((ps'.filter (fun p => isAlias p.name)).length ≤ 1) = true
            rw [alias_count, names_of_keys (hkeys.trans hkeys0), ← alias_count]
            have := of_decide_eq_false halias
            exact decide_eq_true (by omega)
          · exact rpiUnique_of_good hgood
          · exact rpiSecondary_of_good hgood
      · intro p hp k hk
        obtain ⟨all, p0, r, _, _, hv, hcore⟩ := hgood p hp
        obtain ⟨_, hc, _⟩ := validatePath_ok hv
        have hk' : k ∈ pathConstraints g.playback := hk
        rw [← pathConstraint_core _ k hk' p, hcore, pathConstraint_core _ k hk' r.self]
        exact hc k hk'


/-- what the executable spec `constraints` means: every global/cross-path constraint holds and every
per-path constraint holds for every path. -/
theorem constraints_iff (c : ConfV) : constraints c = true ↔
    (∀ k ∈ globalConstraints, k.2 c = true) ∧ ∀ p ∈ c.paths, ∀ k ∈ pathConstraints c.playback, k.2 p = true := by
  constructor
  · intro hc
    unfold constraints violations at hc
    have := (by simpa using hc :
      (∀ (a : String) (b : ConfV → Bool), (a, b) ∈ globalConstraints → b c = true) ∧
      ∀ (x : PathV), x ∈ c.paths → ∀ (a : String) (b : PathV → Bool), (a, b) ∈ pathConstraints c.playback → b x = true)
    exact ⟨fun k hk => this.1 k.1 k.2 hk, fun p hp k hk => this.2 p hp k.1 k.2 hk⟩
  · intro h; exact violations_nil h.1 h.2

/-- Validate never changes name, source, camera id, secondary flag of a path (nor adds/removes paths). -/
theorem validate_ok_keys {c c' : ConfV} (hn : (c.paths.map (·.name)).Nodup) (h : validate c = .ok c') :
    c'.paths.map key = c.paths.map key := by
  unfold validate at h
  cases hg : validateGlobal c with
  | error e => simp [hg] at h
  | ok g =>
    simp only [hg, chk_ok] at h
    obtain ⟨_, h⟩ := h
    have hgp : g.paths = c.paths := by rw [validateGlobal_eq_norm hg]; rfl
    split at h
    · simp at h
    · next ps' us hl =>
      have hmm : (g.paths.map ((fun x : PathV => x.name) ∘ remerge c)) = (g.paths.map (remerge c)).map (·.name) := by
        rw [List.map_map]
      try rw [hmm] at hl
      injection h with h
      subst h
      have hkeys0 : (g.paths.map (remerge c)).map key = g.paths.map key := by
        rw [List.map_map]; exact List.map_congr_left (fun q _ => remerge_key c q)
      have hu : UniqNames (g.paths.map (remerge c)) := by
        apply uniq_of_nodup
        rw [names_of_keys hkeys0, hgp]; exact hn
      obtain ⟨f, hps', _, hf⟩ := validatePaths_ok g.playback (depMode g) _ _ _ _ _ hl hu
      show ps'.map key = c.paths.map key
      rw [← hgp, ← hkeys0, hps', List.map_map]
      exact List.map_congr_left (fun q hq => (hf q hq).1)

/-- a small configuration that the model accepts -/
def sampleOK : ConfV :=
  { rto := 1, wto := 1, wqs := 512, ump := 1452,
    paths := [{ name := b!"cam", nameValid := true, source := b!"publisher", recordPath := b!"%path/%s" }] }

/-- regression record of F-C10d (fixed in /repo 9ca8a07): `Path.validate` now rejects an `rtspUDPSourcePortRange` that
is not a pair, so "the port range has exactly two entries" is one of the per-path constraints `validate_ok_constraints`
proves. The configuration that used to be accepted: -/
def sampleRange1 : ConfV :=
  { sampleOK with paths := [{ name := b!"cam", nameValid := true, source := b!"publisher", recordPath := b!"%path/%s", udpRange := 1 }] }

/-- `writeQueueSize` of an accepted configuration really is a power of two (the bit trick of the code is exact). -/
theorem accepted_wqs_pow2 {c c' : ConfV} (hn : (c.paths.map (·.name)).Nodup) (h : validate c = .ok c') :
    ∃ k : Nat, c'.wqs = (2 ^ k : Nat) := by
  have hc := ((constraints_iff c').mp (validate_ok_constraints hn h)).1
  have hk := hc ("writeQueueSize is a positive power of two", fun c => isPow2 c.wqs)
    (by simp [globalConstraints, globalOnlyConstraints])
  simp only [isPow2, Bool.and_eq_true, decide_eq_true_eq, beq_iff_eq] at hk
  obtain ⟨hpos, hland⟩ := hk
  have hne : c'.wqs.toNat ≠ 0 := by omega
  obtain ⟨k, hk⟩ := (Nat.and_sub_one_eq_zero_iff_isPowerOfTwo hne).mp hland
  exact ⟨k, by omega⟩

/-- Go iterates `conf.Paths` (a map) in random order when it looks for other rpiCamera streams; the model
looks in sorted order. The verdict cannot depend on that order: whenever two primary streams share a
camera id the configuration is rejected (and otherwise there is at most one candidate). -/
theorem two_primaries_rejected {c : ConfV} (hn : (c.paths.map (·.name)).Nodup)
    (p q : PathV) (hp : p ∈ c.paths) (hq : q ∈ c.paths) (hne : p.name ≠ q.name)
    (h1 : isRpiPrimary p = true) (h2 : isRpiPrimary q = true) (hcam : p.camID = q.camID) :
    ∀ c', validate c ≠ .ok c' := by
  intro c' h
  have hkeys := validate_ok_keys hn h
  have hc := ((constraints_iff c').mp (validate_ok_constraints hn h)).1
  have hu := hc ("rpiCamera ids are unique among primary streams", fun c => rpiUnique c.paths)
    (by simp [globalConstraints, crossConstraints])
  obtain ⟨p', hp', kp⟩ := mem_of_keys hkeys.symm hp
  obtain ⟨q', hq', kq⟩ := mem_of_keys hkeys.symm hq
  obtain ⟨a1, a2, a3, a4⟩ := key_fields kp
  obtain ⟨b1, b2, b3, b4⟩ := key_fields kq
  simp only [rpiUnique, List.all_eq_true, imp, Bool.or_eq_true, Bool.not_eq_true', beq_iff_eq] at hu
  have hp1 : isRpiPrimary p' = true := by unfold isRpiPrimary at *; rw [a2, a4]; exact h1
  have hq1 : isRpiPrimary q' = true := by unfold isRpiPrimary at *; rw [b2, b4]; exact h2
  rcases hu p' hp' with h0 | h0
  · rw [hp1] at h0; cases h0
  · rcases h0 q' hq' with h0 | h0
    · have : (q'.camID == p'.camID) = true := by rw [a3, b3, hcam]; simp
      simp [hq1, this] at h0
    · exact hne (by rw [← a1, ← b1]; exact h0.symm)

/-! ### non-vacuity and sanity examples (tests, not theorems) -/

example : (validate sampleOK).toBool = true := by decide
example : (validate sampleRange1).toBool = false := by decide
example : (match validate sampleOK with | .ok c' => constraints c' | .error _ => false) = true := by decide
-- a writeQueueSize that is not a power of two is rejected
example : (validate { sampleOK with wqs := 6 }).toBool = false := by decide
-- an `all` path with a static source must be on demand
def sampleAll : PathV := { name := b!"all", source := b!"rtsp://h/p", urlOk := true, recordPath := b!"%path/%s" }
example : (validate { sampleOK with paths := [sampleAll] }).toBool = false := by decide
example : (validate { sampleOK with paths := [{ sampleAll with sod := true }] }).toBool = true := by decide
-- class of the open env finding
example : envNilReceiver [b!"MTX_RECORDFORMAT"] [b!"MTX_RECORDFORMATX"] = true := by decide
example : envNilReceiver [b!"MTX_RECORDFORMAT"] [b!"MTX_RECORDFORMAT", b!"MTX_RECORDFORMATX"] = false := by decide
example : envNilReceiver [b!"MTX_RECORDFORMAT"] [b!"MTX_RECORDPATH"] = false := by decide

end MtxVerif.C10
