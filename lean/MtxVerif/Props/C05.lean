/-
C05 — CORS allows only configured origins.  Property theorems about `Model/C05`.
-/
import MtxVerif.Model.C05

namespace MtxVerif.C05

/-! ### the pattern language -/

theorem mem_tails {s t : Bytes} : t ∈ tails s ↔ ∃ pre, s = pre ++ t := by
  induction s with
  | nil =>
    simp only [tails, List.mem_singleton]
    constructor
    · intro h; exact ⟨[], by simp [h]⟩
    · rintro ⟨pre, h⟩
      have := List.append_eq_nil_iff.mp h.symm
      exact this.2
  | cons c rest ih =>
    simp only [tails, List.mem_cons]
    constructor
    · rintro (h | h)
      · exact ⟨[], by simp [h]⟩
      · obtain ⟨pre, hp⟩ := ih.mp h
        exact ⟨c :: pre, by simp [hp]⟩
    · rintro ⟨pre, h⟩
      cases pre with
      | nil => left; simpa using h.symm
      | cons x pre =>
        right
        simp only [List.cons_append, List.cons.injEq] at h
        exact ih.mpr ⟨pre, h.2⟩

theorem mem_afterDots {s t : Bytes} : t ∈ afterDots s ↔ ∃ pre, s = pre ++ 46 :: t := by
  induction s with
  | nil => simp [afterDots]
  | cons c rest ih =>
    unfold afterDots
    constructor
    · intro h
      split at h
      · rename_i hc
        rcases List.mem_cons.mp h with h | h
        · exact ⟨[], by simp [h, hc]⟩
        · obtain ⟨pre, hp⟩ := ih.mp h
          exact ⟨c :: pre, by simp [hp]⟩
      · obtain ⟨pre, hp⟩ := ih.mp h
        exact ⟨c :: pre, by simp [hp]⟩
    · rintro ⟨pre, h⟩
      cases pre with
      | nil =>
        simp only [List.nil_append, List.cons.injEq] at h
        rw [if_pos h.1]; exact List.mem_cons.mpr (Or.inl h.2.symm)
      | cons x pre =>
        simp only [List.cons_append, List.cons.injEq] at h
        have := ih.mpr ⟨pre, h.2⟩
        split
        · exact List.mem_cons_of_mem _ this
        · exact this

theorem mem_afterDots1 {s t : Bytes} : t ∈ afterDots1 s ↔ ∃ pre, pre ≠ [] ∧ s = pre ++ 46 :: t := by
  cases s with
  | nil => simp [afterDots1]
  | cons c rest =>
    simp only [afterDots1, mem_afterDots]
    constructor
    · rintro ⟨pre, h⟩; exact ⟨c :: pre, by simp, by simp [h]⟩
    · rintro ⟨pre, hne, h⟩
      cases pre with
      | nil => exact absurd rfl hne
      | cons x pre =>
        simp only [List.cons_append, List.cons.injEq] at h
        exact ⟨pre, h.2⟩

/-- every character other than `*` matches literally: a pattern of literals matches exactly itself -/
theorem matchT_lits (p s : Bytes) : matchT (p.map Tok.lit) s = true ↔ s = p := by
  induction p generalizing s with
  | nil => cases s <;> simp [matchT]
  | cons c p ih =>
    cases s with
    | nil => simp [matchT]
    | cons x s =>
      simp only [List.map_cons, matchT, Bool.and_eq_true, beq_iff_eq, ih, List.cons.injEq]
      constructor
      · rintro ⟨a, b⟩; exact ⟨a.symm, b⟩
      · rintro ⟨a, b⟩; exact ⟨a.symm, b⟩

/-- a literal token consumes exactly that character -/
theorem matchT_lit (c : UInt8) (ts : List Tok) (s : Bytes) :
    matchT (.lit c :: ts) s = true ↔ ∃ s', s = c :: s' ∧ matchT ts s' = true := by
  cases s with
  | nil => simp [matchT]
  | cons x s =>
    simp only [matchT, Bool.and_eq_true, beq_iff_eq, List.cons.injEq]
    constructor
    · rintro ⟨a, b⟩; exact ⟨s, ⟨a.symm, rfl⟩, b⟩
    · rintro ⟨s', ⟨a, b⟩, h⟩; exact ⟨a.symm, b ▸ h⟩

/-- each `*` stands for any (possibly empty) string -/
theorem matchT_star (ts : List Tok) (s : Bytes) :
    matchT (.star :: ts) s = true ↔ ∃ pre suf, s = pre ++ suf ∧ matchT ts suf = true := by
  simp only [matchT, List.any_eq_true, mem_tails]
  constructor
  · rintro ⟨t, ⟨pre, h⟩, hm⟩; exact ⟨pre, t, h, hm⟩
  · rintro ⟨pre, suf, h, hm⟩; exact ⟨suf, ⟨pre, h⟩, hm⟩

/-- `*.` stands for nothing at all, or for a non-empty string followed by a dot -/
theorem matchT_optSub (ts : List Tok) (s : Bytes) :
    matchT (.optSub :: ts) s = true ↔
      matchT ts s = true ∨ ∃ pre suf, pre ≠ [] ∧ s = pre ++ 46 :: suf ∧ matchT ts suf = true := by
  simp only [matchT, Bool.or_eq_true, List.any_eq_true, mem_afterDots1]
  constructor
  · rintro (h | ⟨t, ⟨pre, hne, h⟩, hm⟩)
    · exact Or.inl h
    · exact Or.inr ⟨pre, t, hne, h, hm⟩
  · rintro (h | ⟨pre, suf, hne, h, hm⟩)
    · exact Or.inl h
    · exact Or.inr ⟨suf, ⟨pre, hne, h⟩, hm⟩

/-- `HasStarDot p`: the byte string contains `*.` -/
def hasStarDot : Bytes → Bool
  | [] => false
  | [_] => false
  | c :: d :: rest => (c == 42 && d == 46) || hasStarDot (d :: rest)

/-- Without a `*.` the code's pattern is exactly the property's literal reading. -/
theorem tokenize_eq_lit (p : Bytes) (h : hasStarDot p = false) : tokenize p = tokenizeLit p := by
  induction p with
  | nil => rfl
  | cons c rest ih =>
    cases rest with
    | nil => simp only [tokenize, tokenizeLit]; split <;> rfl
    | cons d rest =>
      simp only [hasStarDot, Bool.or_eq_false_iff, Bool.and_eq_false_imp, beq_iff_eq] at h
      have ih' := ih h.2
      unfold tokenize
      by_cases hc : c = 42
      · have hd : ¬ d = 46 := by
          intro hd; have := h.1 hc; simp [hd] at this
        simp only [hc, if_true, hd, if_false]
        rw [ih']; simp [tokenizeLit]
      · simp only [hc, if_false]
        rw [ih']; simp [tokenizeLit, hc]

/-! ### the decision -/

/-- An echoed origin is non-empty, parses, and is admitted by some parsable allowed entry, either as
the same scheme + host:port or through that entry's wildcard pattern. -/
theorem echo_sound (origin : Bytes) (o : PURL) (allow : List (Bytes × PURL))
    (h : isOriginAllowed origin o allow = .echo) :
    origin ≠ [] ∧ o.ok = true ∧ o.scheme ≠ [] ∧
    ∃ a ∈ allow, a.2.ok = true ∧ (exactMatch o a.2 = true ∨ wildMatch o a.2 = true) := by
  unfold isOriginAllowed at h
  split at h
  · cases h
  · have hfb : ∀ (b : Bool), (if b then Res.star else Res.none) ≠ Res.echo := by
      intro b; cases b <;> simp
    simp only at h
    split at h
    · exact absurd h (hfb _)
    · split at h
      · cases h
      · split at h
        · rename_i hne hok hany
          rw [List.any_eq_true] at hany
          obtain ⟨a, ha, hm⟩ := hany
          simp only [Bool.and_eq_true, Bool.or_eq_true] at hm
          simp only [Bool.or_eq_true, Bool.not_eq_true', not_or, Bool.not_eq_false] at hok
          refine ⟨?_, by simpa using hok.1, ?_, a, ha, hm.1, hm.2⟩
          · intro e; apply hne; simp [e]
          · intro e; have := hok.2; simp [e] at this
        · exact absurd h (hfb _)

/-- exact branch: same scheme, same host and same effective port -/
theorem exact_same (o a : PURL) (h : exactMatch o a = true) :
    a.scheme = o.scheme ∧ withDefaultPort a = withDefaultPort o ∧
    portOf (withDefaultPort a) = portOf (withDefaultPort o) := by
  unfold exactMatch at h
  simp only [Bool.and_eq_true, beq_iff_eq] at h
  exact ⟨h.1.1, h.1.2, h.2⟩

/-- wildcard branch: same scheme, and `host:port` (port included, so the effective port is matched by the
literal port of the pattern) lies in the language of the allowed entry's pattern -/
theorem wild_same_scheme (o a : PURL) (h : wildMatch o a = true) :
    a.scheme = o.scheme ∧ matchT (tokenize (withDefaultPort a)) (withDefaultPort o) = true := by
  unfold wildMatch at h
  simp only [Bool.and_eq_true, beq_iff_eq] at h
  exact ⟨h.1.2, h.2⟩

/-- For allowed entries without `*.` the wildcard branch is exactly the property's reading
(`*` = any characters, every other character literal, same scheme). -/
theorem wild_eq_literal (o a : PURL) (h : hasStarDot (withDefaultPort a) = false) :
    wildMatch o a = litWild o a := by
  unfold wildMatch litWild
  rw [tokenize_eq_lit _ h]

/-- `*` is returned only when `*` is listed. -/
theorem star_only_if_listed (origin : Bytes) (o : PURL) (allow : List (Bytes × PURL))
    (h : isOriginAllowed origin o allow = .star) : ∃ a ∈ allow, a.1 = starBytes := by
  unfold isOriginAllowed at h
  have key : ∀ (b : Bool), b = allow.any (fun a => a.1 == starBytes) →
      (if b then Res.star else Res.none) = Res.star → ∃ a ∈ allow, a.1 = starBytes := by
    intro b hb hs
    cases b with
    | false => simp at hs
    | true =>
      have := hb.symm
      rw [List.any_eq_true] at this
      obtain ⟨a, ha, he⟩ := this
      exact ⟨a, ha, by simpa using he⟩
  split at h
  · cases h
  · simp only at h
    split at h
    · exact key _ rfl h
    · split at h
      · cases h
      · split at h
        · cases h
        · exact key _ rfl h

/-- The model never fails the property's executable spec: every answer is either justified by the
property's wording, or lies in the recorded class `optionalSubdomainDot`. -/
theorem model_meets_spec (origin : Bytes) (o : PURL) (allow : List (Bytes × PURL)) :
    spec origin o allow (isOriginAllowed origin o allow) = .ok ∨
    spec origin o allow (isOriginAllowed origin o allow) = .knownOptSub := by
  cases hr : isOriginAllowed origin o allow with
  | none => left; rfl
  | star =>
    left
    obtain ⟨a, ha, he⟩ := star_only_if_listed origin o allow hr
    have : allow.any (fun a => a.1 == starBytes) = true := by
      rw [List.any_eq_true]; exact ⟨a, ha, by simp [he]⟩
    simp [spec, this]
  | echo =>
    obtain ⟨h1, h2, hs, a, ha, hok, hm⟩ := echo_sound origin o allow hr
    have hne : origin.isEmpty = false := by cases origin <;> simp_all
    have hsne : o.scheme.isEmpty = false := by
      cases hsc : o.scheme with
      | nil => exact absurd hsc hs
      | cons _ _ => rfl
    unfold spec
    simp only [hne, h2, hsne, Bool.not_true, Bool.or_self, Bool.false_and, Bool.false_eq_true, if_false]
    by_cases hlit : allow.any (fun a => a.2.ok && (specExact o a.2 || litWild o a.2)) = true
    · left; simp [hlit]
    · right
      have hw : allow.any (fun a => a.2.ok && wildMatch o a.2) = true := by
        rw [List.any_eq_true]
        refine ⟨a, ha, ?_⟩
        rcases hm with hm | hm
        · exfalso; apply hlit
          rw [List.any_eq_true]
          refine ⟨a, ha, ?_⟩
          have := exact_same o a.2 hm
          simp [hok, specExact, this.1, this.2.1]
        · simp [hok, hm]
      simp [hlit, hw]

/-- The recorded class only arises from an allowed entry that contains `*.`. -/
theorem known_needs_stardot (origin : Bytes) (o : PURL) (allow : List (Bytes × PURL)) (r : Res)
    (h : spec origin o allow r = .knownOptSub) :
    ∃ a ∈ allow, hasStarDot (withDefaultPort a.2) = true ∧ wildMatch o a.2 = true := by
  unfold spec at h
  cases r with
  | none => simp at h
  | star => simp only at h; split at h <;> cases h
  | echo =>
    simp only at h
    split at h
    · cases h
    · split at h
      · cases h
      · split at h
        · cases h
        · rename_i hlit
          split at h
          · rename_i hw
            rw [List.any_eq_true] at hw
            obtain ⟨a, ha, hm⟩ := hw
            simp only [Bool.and_eq_true] at hm
            refine ⟨a, ha, ?_, hm.2⟩
            cases hsd : hasStarDot (withDefaultPort a.2) with
            | true => rfl
            | false =>
              exfalso; apply hlit
              rw [List.any_eq_true]
              refine ⟨a, ha, ?_⟩
              rw [← wild_eq_literal o a.2 hsd]
              simp [hm.1, hm.2]
          · cases h

/-- The property at full strength ("every other character matches literally"), as a statement about
the wildcard branch. -/
def wildcard_literal_full : Prop := ∀ o a : PURL, wildMatch o a = true → litWild o a = true

def exCom : Bytes := asc ['e','x','a','m','p','l','e','.','c','o','m']
def starExCom : Bytes := asc ['*','.','e','x','a','m','p','l','e','.','c','o','m']

/-- It is false for the code (before and after the fix): `https://*.example.com` admits
`https://example.com`.  Recorded as known finding `optionalSubdomainDot`. -/
theorem wildcard_literal_full_false : ¬ wildcard_literal_full := by
  intro h
  have := h ⟨true, https, exCom⟩ ⟨true, https, starExCom⟩ (by decide)
  revert this
  decide

/-- Non-vacuity / regression examples (decided in the kernel). -/
example : isOriginAllowed (asc ['x']) ⟨true, https, asc ['a','.','b']⟩
    [(asc ['y'], ⟨true, https, asc ['*','.','b']⟩)] = .echo := by decide
-- the scheme is compared in the wildcard branch
example : isOriginAllowed (asc ['x']) ⟨true, https, asc ['a','.','b',':','8','0']⟩
    [(asc ['y'], ⟨true, http, asc ['*','.','b']⟩)] = .none := by decide
-- '.' in an allowed host is literal
example : isOriginAllowed (asc ['x']) ⟨true, https, asc ['a','X','b']⟩
    [(asc ['y'], ⟨true, https, asc ['*','a','.','b']⟩)] = .none := by decide

end MtxVerif.C05
