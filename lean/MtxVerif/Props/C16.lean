/-
C16 — At most one publisher per path; replaced publishers are cut off.  Property theorems over the
shared path state machine, for every valid configuration and every history (all interleavings of
publisher add/remove/write, reader add/remove/detach, static source events, timers, reload, close).
-/
import MtxVerif.Model.C16
import MtxVerif.Lemmas.C16Stream
import MtxVerif.Lemmas.C16Prefix
import MtxVerif.Lemmas.C18Out

namespace MtxVerif.C16
open MtxVerif.PathSM

def Reach (s : State) : Prop := ∃ c es, c.valid = true ∧ s = (run (init c) es).1

theorem reach_inv {s : State} (h : Reach s) : Inv s ∧ SInv s := by
  obtain ⟨c, es, hv, rfl⟩ := h
  exact ⟨inv_reach c hv es, sinv_reach c hv es⟩

theorem reach_run {s : State} (h : Reach s) (es : List Event) : Reach (run s es).1 := by
  obtain ⟨c, es0, hv, rfl⟩ := h
  refine ⟨c, es0 ++ es, hv, ?_⟩
  have : ∀ (l : List Event) (s : State), (run s (l ++ es)).1 = (run (run s l).1 es).1 := by
    intro l; induction l with
    | nil => intro s; rfl
    | cons x xs ih => intro s; exact ih _
  rw [this]

/-- the attached publisher makes the path a publisher path -/
theorem pub_kind {s : State} (h : Inv s) {q : Nat} (hs : s.source = some (.pub q)) : s.conf.kind = .publisher := by
  cases hk : s.conf.kind with
  | publisher => rfl
  | static => have := h.kStatic.mp hk; rw [hs] at this; cases this
  | redirect => have := h.kRedirect.mp hk; rw [hs] at this; cases this

/-- **One source: rejection.** While a publisher is attached and `overridePublisher` is off, another
`addPublisher` is answered "someone is already publishing" and changes nothing at all. -/
theorem second_publisher_rejected {s : State} (h : Reach s) (hc : s.closed = false) (q p : Nat) (ok : Bool)
    (hs : s.source = some (.pub q)) (ho : s.conf.overridePublisher = false) :
    step s (.addPublisher p ok) = (s, [.pubReply .busy]) := by
  have hi := (reach_inv h).1
  have hk := pub_kind hi hs
  unfold step stepW
  rw [if_neg (by simp [hi.np]), if_neg (by simp [hc])]
  show ((closeCheck (doAddPublisher p ok { s := s })).s, (closeCheck (doAddPublisher p ok { s := s })).out) = _
  unfold doAddPublisher
  rw [if_neg (by simp [hk]), if_pos (by simp [hs, ho])]
  unfold closeCheck shouldClose
  simp [hs]

theorem pubAttach_ok (p : Nat) (w : W) :
    (pubAttach p true w).s.source = some (.pub p) ∧ (pubAttach p true w).s.srcSub = some w.s.nextSub ∧
    Out.pubReply (.ok w.s.nextSub) ∈ (pubAttach p true w).out := by
  unfold pubAttach
  dsimp only
  simp only [Bool.not_true, Bool.false_eq_true, if_false, emit_s, emit_out]
  have consume_source : ∀ w : W, (consumeOnHoldRequests w).s.source = w.s.source := by
    intro w; obtain ⟨s1, R, e⟩ := consume_rd w; rw [e]; exact R.f4
  refine ⟨?_, ?_, ?_⟩
  · rw [consume_source]
    (repeat' split) <;> simp [newSub_s, setOnline_s, setAvailable_s, onDemandPublisherScheduleClose]
  · rw [(consume_sub _).1]
    (repeat' split) <;> simp [newSub_s, setOnline_s, setAvailable_s, onDemandPublisherScheduleClose]
  · have : (if w.s.conf.alwaysAvailable = true then w else setAvailable w).s.nextSub = w.s.nextSub := by
      split <;> simp [setAvailable_s]
    rw [this]; simp

/-- **One source: replacement.** With `overridePublisher`, the first thing the step does is
`Close()` the previous publisher — before the new stream is created, before the path is reported
ready, before the new publisher is answered; an accepted new publisher is then the (only) source and
owns a brand-new sub-stream. -/
theorem override_closes_first {s : State} (h : Reach s) (hc : s.closed = false) (q p : Nat) (ok : Bool)
    (hs : s.source = some (.pub q)) (ho : s.conf.overridePublisher = true) :
    [Out.pubClosed q] <+: (step s (.addPublisher p ok)).2 ∧
    (ok = true → (step s (.addPublisher p ok)).1.source = some (.pub p) ∧
      (step s (.addPublisher p ok)).1.srcSub = some s.nextSub ∧
      Out.pubReply (.ok s.nextSub) ∈ (step s (.addPublisher p ok)).2) := by
  have hi := (reach_inv h).1
  have hk := pub_kind hi hs
  have e : stepW (.addPublisher p ok) { s := s } =
      closeCheck (pubAttach p ok (executeRemovePublisher (emit (.pubClosed q) { s := s }))) := by
    unfold stepW
    rw [if_neg (by simp [hi.np]), if_neg (by simp [hc])]
    show closeCheck (doAddPublisher p ok { s := s }) = _
    unfold doAddPublisher
    rw [if_neg (by simp [hk]), if_neg (by simp [ho])]
    unfold pubOverride
    simp only [hs]
  unfold step
  rw [e]
  dsimp only
  constructor
  · exact pre_closeCheck (pre_pubAttach _ _ (pre_executeRemovePublisher (by simp [emit])))
  · intro hok; subst hok
    have A := pubAttach_ok p (executeRemovePublisher (emit (.pubClosed q) { s := s }))
    have hn : (executeRemovePublisher (emit (.pubClosed q) { s := s })).s.nextSub = s.nextSub := by
      simp [executeRemovePublisher_s]
    rw [hn] at A
    exact ⟨by rw [closeCheck_s]; exact A.1, by rw [closeCheck_s]; exact A.2.1, mem_closeCheck A.2.2⟩

/-- a removed publisher no longer owns a live sub-stream, and the path has no source -/
theorem remove_detaches {s : State} (h : Reach s) (hc : s.closed = false) (p : Nat)
    (hs : s.source = some (.pub p)) :
    (step s (.removePublisher p)).1.source = none ∧ (step s (.removePublisher p)).1.srcSub = none := by
  have hi := (reach_inv h).1
  have e : (step s (.removePublisher p)).1 = (executeRemovePublisher { s := s }).s := by
    unfold step stepW
    rw [if_neg (by simp [hi.np]), if_neg (by simp [hc])]
    show (closeCheck (doRemovePublisher p { s := s })).s = _
    rw [closeCheck_s]
    unfold doRemovePublisher
    rw [if_pos hs]
  rw [e]
  simp [executeRemovePublisher_s]

/-- a live sub-stream always belongs to the path's current source -/
theorem live_sub_has_source {s : State} (h : Reach s) (hk : s.srcSub.isSome = true) : s.source.isSome = true := by
  obtain ⟨hi, hsi⟩ := reach_inv h
  rcases hsi.d9 hk with ⟨p, hp⟩ | hup
  · rw [hp]; rfl
  · have := hi.kStatic.mp (hi.s4 (hi.s3 hup)); rw [this]; rfl

/-- **No stale delivery.** In every reachable state: a unit written through a sub-stream that is not
the live sub-stream of the current source (its publisher was replaced or removed, its static source
went not-ready or was stopped, or the path closed) is delivered to no reader attached to the path. -/
theorem no_stale_delivery {s : State} (h : Reach s) (k : Nat) (hk : s.srcSub ≠ some k) :
    ∀ r ∈ deliver s k, r ∉ s.readers := by
  obtain ⟨hi, hsi⟩ := reach_inv h
  intro r hr hmem
  unfold deliver at hr
  split at hr
  · cases hr
  · rename_i k' sid hf
    have hkk : k' = k := by simpa using List.find?_some hf
    have hm : (k', sid) ∈ s.subs := List.mem_of_find?_eq_some hf
    by_cases haa : s.conf.alwaysAvailable = true
    · by_cases hcl : s.closed = true
      · rw [(hi.cl hcl).2.1] at hmem; cases hmem
      · have hd5 := hsi.d5 haa (by simpa using hcl)
        rw [haa] at hr
        by_cases hcur : s.aaCur = some k
        · rw [hd5] at hcur; exact hk hcur
        · simp [hcur] at hr
    · have haa' : s.conf.alwaysAvailable = false := by simpa using haa
      rw [haa'] at hr
      simp only [Bool.false_and, Bool.false_eq_true, if_false, List.mem_map, List.mem_filter] at hr
      obtain ⟨x, ⟨hx, hxs⟩, hxr⟩ := hr
      have hxs' : x.2 = sid := by simpa using hxs
      have hreg : (r, sid) ∈ s.sreg := by rw [← hxr, ← hxs']; exact hx
      have hst := hsi.d3 r hmem sid hreg
      have := hsi.d7 haa' (k', sid) hm hst
      rw [hkk] at this
      exact hk this

/-- On an alwaysAvailable stream the stale-sub-stream guard of `SubStream.WriteUnit` drops the unit
altogether, not even readers that linger at stream level see it. -/
theorem stale_write_dropped_aa {s : State} (h : Reach s) (k : Nat) (haa : s.conf.alwaysAvailable = true)
    (hc : s.closed = false) (hk : s.srcSub ≠ some k) : deliver s k = [] := by
  obtain ⟨hi, hsi⟩ := reach_inv h
  unfold deliver
  split
  · rfl
  · have hd5 := hsi.d5 haa hc
    have : s.aaCur ≠ some k := by rw [hd5]; exact hk
    simp [haa, this]

/-- **Cut off for good.** Sub-stream ids are never reused: once a sub-stream that has been handed out
is not the live one, it never becomes live again, whatever happens afterwards. -/
theorem stale_forever {s : State} (h : Reach s) (k : Nat) (hlt : k < s.nextSub) (hk : s.srcSub ≠ some k)
    (es : List Event) : (run s es).1.srcSub ≠ some k ∧ k < (run s es).1.nextSub := by
  induction es generalizing s with
  | nil => exact ⟨hk, hlt⟩
  | cons e es ih =>
    have hsi := (reach_inv h).2
    have hstep := stepW_sub e { s := s } hsi.d8
    have hr : Reach (step s e).1 := reach_run h [e]
    have hk' : (step s e).1.srcSub ≠ some k := by
      show (stepW e { s := s }).s.srcSub ≠ some k
      rcases hstep.1 with h1 | h1 | ⟨k2, h1, h2⟩
      · rw [h1]; exact hk
      · rw [h1]; exact fun e => by cases e
      · rw [h1]; intro e; injection e with e
        have h2' : s.nextSub ≤ k2 := h2
        omega
    exact ih hr (Nat.lt_of_lt_of_le hlt hstep.2) hk'

/-- **The property, over whole histories.** Take any reachable state in which sub-stream `k` has been
handed out but is not live (its publisher has been replaced or removed).  After any further history —
any interleaving of writes, publisher and reader adds/removes, source events, timers, close — a unit
written through `k` reaches no reader attached to the path. -/
theorem replaced_publisher_cut_off {s : State} (h : Reach s) (k : Nat) (hlt : k < s.nextSub)
    (hk : s.srcSub ≠ some k) (es : List Event) :
    ∀ r ∈ deliver (run s es).1 k, r ∉ (run s es).1.readers :=
  no_stale_delivery (reach_run h es) k (stale_forever h k hlt hk es).1

/-! #### non-vacuity -/

def cOvr : Conf := { kind := .publisher, overridePublisher := true }
def cAA : Conf := { kind := .publisher, overridePublisher := true, alwaysAvailable := true }

/-- replacement: the old reader lingers on the old stream object and still sees the old publisher's
unit; the reader of the new stream does not; the new publisher's unit reaches its reader. -/
example : (run (init cOvr)
    [.addPublisher 1 true, .addReader 1 7, .addPublisher 2 true, .addReader 2 8, .write 0, .write 1]).2.drop 4 =
  [[.delivered [7]], [.delivered [8]]] := by decide

/-- alwaysAvailable: same stream object for everybody; the replaced publisher's write is dropped -/
example : (run (init cAA)
    [.addPublisher 1 true, .addReader 1 7, .write 0, .addPublisher 2 true, .write 0, .write 1]).2.drop 2 =
  [[.delivered [7]], [.pubClosed 1, .hook .online false, .hook .online true, .pubReply (.ok 1)],
   [.delivered []], [.delivered [7]]] := by decide

example : cOvr.valid = true ∧ cAA.valid = true := by decide

end MtxVerif.C16
