/-
C20 — Hooks fire in well-formed start/stop pairs.  Property theorems: path-level pairs over the
shared path state machine for every valid configuration and every event history; per-object pairs
(runOnRead per reader, runOnConnect per connection) over the small consumer machines of Model/C20.
-/
import MtxVerif.Model.C20
import MtxVerif.Lemmas.C20Hooks
import MtxVerif.Gen.C20

namespace MtxVerif.C20
open MtxVerif.PathSM

def Reach (s : State) : Prop := ∃ c es, c.valid = true ∧ s = (run (init c) es).1

theorem reach_inv {s : State} (h : Reach s) : Inv s := by
  obtain ⟨c, es, hv, rfl⟩ := h
  exact inv_reach c hv es

/-! ### what `alt` says -/

/-- a start can only follow a closed pair, a stop only an open one -/
theorem alt_head {f f' b : Bool} {l : List Bool} (h : alt f (b :: l) = some f') : b ≠ f := by
  unfold alt at h; split at h
  · cases h
  · assumption

/-- consecutive events of one kind always differ: start, stop, start, stop, … -/
theorem alt_adjacent {f f' : Bool} {l : List Bool} (h : alt f l = some f') :
    ∀ i (hi : i + 1 < l.length), l[i] ≠ l[i + 1] := by
  induction l generalizing f with
  | nil => intro i hi; simp at hi
  | cons b bs ih =>
    unfold alt at h
    split at h
    · cases h
    · intro i hi
      cases i with
      | zero =>
        cases bs with
        | nil => simp at hi
        | cons c cs => simpa using (alt_head h).symm
      | succ j => simpa using ih h j (by simpa using hi)

/-- the resulting flag is the last event (or the initial flag if there was none) -/
theorem alt_last {f f' : Bool} {l : List Bool} (h : alt f l = some f') : f' = l.getLast?.getD f := by
  induction l generalizing f with
  | nil => simpa [alt] using h.symm
  | cons b bs ih =>
    unfold alt at h
    split at h
    · cases h
    · have := ih h
      cases bs with
      | nil => simpa using this
      | cons c cs =>
        rw [this]
        have : (c :: cs).getLast? = some ((c :: cs).getLast (by simp)) := List.getLast?_eq_some_getLast (by simp)
        rw [List.getLast?_cons_cons, this]; rfl

/-! ### path-level pairs -/

/-- **One step.** For each hook kind, the start/stop events fired by a step form a legal
alternating sequence from the state's open/closed flag to the new state's flag. -/
theorem step_hooks {s : State} (h : Reach s) (e : Event) (k : Hook) :
    alt (flag k s) (hookEvents k (step s e).2) = some (flag k (step s e).1) := by
  have : HK k (flag k s) { s := s } := by simp [HK, alt]
  exact hk_stepW e { s := s } (reach_inv h) this

theorem init_hooks (c : Conf) (k : Hook) :
    alt false (hookEvents k (initW c).out) = some (flag k (init c)) := by
  unfold init initW
  dsimp only
  cases k <;> (repeat' split) <;> simp [flag, alt, srcStart, emit, upd] <;> (repeat' split) <;> simp [alt]

theorem run_hooks (k : Hook) (es : List Event) : ∀ s, PathSM.Inv s →
    alt (flag k s) (hookEvents k (run s es).2.flatten) = some (flag k (run s es).1) := by
  induction es with
  | nil => intro s _; simp [run, alt]
  | cons e es ih =>
    intro s hi
    have h1 : alt (flag k s) (hookEvents k (stepW e { s := s }).out) = some (flag k (stepW e { s := s }).s) := by
      have : HK k (flag k s) { s := s } := by simp [HK, alt]
      exact hk_stepW e { s := s } hi this
    have h2 := ih (stepW e { s := s }).s (inv_stepW e { s := s } hi)
    have er : run s (e :: es) =
        ((run (stepW e { s := s }).s es).1, (stepW e { s := s }).out :: (run (stepW e { s := s }).s es).2) := rfl
    rw [er]
    simp only [List.flatten_cons, hookEvents_append, alt_append, h1, Option.bind_some]
    exact h2

/-- **Whole histories.** From the creation of the path (prologue of `path.run` included), over any
event history, the executions of each hook pair strictly alternate, the first one being the start
hook, and the pair is open at the end iff the state says so. -/
theorem history_hooks (c : Conf) (hv : c.valid = true) (es : List Event) (k : Hook) :
    alt false (hookEvents k ((initW c).out ++ trace (init c) es)) = some (flag k (run (init c) es).1) := by
  simp only [hookEvents_append, alt_append, init_hooks, Option.bind_some]
  exact run_hooks k es (init c) (inv_init c hv)

/-- **Closed on close.** Once the path has closed, no pair is open: every start has had its stop. -/
theorem closed_pairs_closed (c : Conf) (hv : c.valid = true) (es : List Event) (k : Hook)
    (hcl : (run (init c) es).1.closed = true) :
    alt false (hookEvents k ((initW c).out ++ trace (init c) es)) = some false := by
  rw [history_hooks c hv es k]
  have hi := inv_reach c hv es
  have := hi.cl hcl
  cases k
  · show some (run (init c) es).1.hkAvail = some false
    rw [hi.hkA, this.1]; rfl
  · show some (run (init c) es).1.hkOnline = some false
    rw [this.2.2.2.2.2.2.2.2.2]
  · show some (run (init c) es).1.hkDemand = some false
    rw [this.2.2.2.2.2.2.2.2.1]

/-- runOnOnline/runOnOffline pairs lie inside runOnReady/runOnNotReady pairs -/
theorem online_within_ready {s : State} (h : Reach s) (ho : s.hkOnline = true) : s.hkAvail = true := by
  have hi := reach_inv h
  rw [hi.hkA]; exact hi.hkO ho

/-- the runOnDemand pair is open exactly while the on-demand automaton is not `initial` -/
theorem demand_iff_automaton {s : State} (h : Reach s) (hc : s.closed = false) :
    s.hkDemand = true ↔ s.odPub ≠ .initial := (reach_inv h).q3 hc

/-! ### per-object pairs -/

def rOpen : RState → Bool
  | .play => true
  | _ => false

/-- RTSP session: runOnRead/runOnUnread alternate over every sequence of handler calls -/
theorem rtsp_pairs (es : List REv) : ∀ s, alt (rOpen s) (rtspRun s es).2 = some (rOpen (rtspRun s es).1) := by
  induction es with
  | nil => intro s; simp [rtspRun, alt]
  | cons e es ih =>
    intro s
    have h1 : alt (rOpen s) (rtspStep s e).2 = some (rOpen (rtspStep s e).1) := by
      cases s <;> cases e <;> simp [rtspStep, alt, rOpen]
    show alt (rOpen s) ((rtspStep s e).2 ++ (rtspRun (rtspStep s e).1 es).2) = _
    rw [alt_append, h1]
    exact ih _

/-- ... and a closed session has no open pair -/
theorem rtsp_closed (es : List REv) (s : RState) (h : (rtspRun s es).1 = .closed) :
    alt (rOpen s) (rtspRun s es).2 = some false := by
  rw [rtsp_pairs, h]; rfl

/-- a session that receives `close` ends closed, whatever came before and comes after -/
theorem rtsp_close_closes (es es' : List REv) (s : RState) : (rtspRun s (es ++ .close :: es')).1 = .closed := by
  have hc : ∀ (l : List REv), (rtspRun .closed l).1 = .closed := by
    intro l; induction l with
    | nil => rfl
    | cons x xs ih => cases x <;> exact ih
  induction es generalizing s with
  | nil =>
    show (rtspRun (rtspStep s .close).1 es').1 = .closed
    have : (rtspStep s .close).1 = .closed := by cases s <;> rfl
    rw [this]; exact hc _
  | cons e es ih => exact ih _

/-- `defer`-style and assign-once/call-once consumers: one start, one stop, in this order -/
theorem obj_pairs (es : List ObjEv) : ∀ a, alt a (objRun a es).2 = some (objRun a es).1 := by
  induction es with
  | nil => intro a; cases a <;> simp [objRun, alt]
  | cons e es ih =>
    intro a
    cases a <;> cases e <;> simp [objRun, alt, ih]

/-! #### HLS sessions -/

/-- runOnRead (true) / runOnUnread (false) executions of session `n` -/
def hProj (n : Nat) (out : List HOut) : List Bool :=
  out.filterMap fun o => match o with | .hook m b => if m = n then some b else none | _ => none

/-- the muxer references session `n` (its runOnRead pair is open) -/
def hOpen (s : HState) (n : Nat) : Bool := decide (n ∈ s.plain) || decide (s.cdn = some n)

structure HInv (s : HState) : Prop where
  nodup : s.plain.Nodup
  plainSeen : ∀ n ∈ s.plain, n ∈ s.seen
  cdnSeen : ∀ m, s.cdn = some m → m ∈ s.seen ∧ m ∉ s.plain

theorem hProj_append (n : Nat) (a b : List HOut) : hProj n (a ++ b) = hProj n a ++ hProj n b := by
  simp [hProj]

theorem hProj_stops (n : Nat) (l : List Nat) (hl : l.Nodup) :
    hProj n (l.map fun m => HOut.hook m false) = if n ∈ l then [false] else [] := by
  induction l with
  | nil => rfl
  | cons x xs ih =>
    rw [List.nodup_cons] at hl
    simp only [List.map_cons, hProj, List.filterMap_cons]
    have ih' := ih hl.2
    unfold hProj at ih'
    by_cases hx : x = n
    · subst hx; simp [ih', hl.1]
    · have : ¬ n = x := fun e => hx e.symm
      simp [hx, this, ih']

theorem hls_stopAll (s : HState) (hi : HInv s) (n : Nat) :
    hProj n (stopAll s) = if hOpen s n then [false] else [] := by
  unfold stopAll hOpen
  rw [hProj_append, hProj_stops n s.plain hi.nodup]
  cases hc : s.cdn with
  | none => by_cases hp : n ∈ s.plain <;> simp [hp, hProj]
  | some m =>
    have := hi.cdnSeen m hc
    by_cases hp : n ∈ s.plain
    · have : m ≠ n := fun e => this.2 (e ▸ hp)
      simp [hp, hProj, this]
    · by_cases hm : m = n <;> simp [hp, hProj, hm]

theorem hls_step (s : HState) (hi : HInv s) (e : HEv) (n : Nat) :
    HInv (hlsStep s e).1 ∧ alt (hOpen s n) (hProj n (hlsStep s e).2) = some (hOpen (hlsStep s e).1 n) := by
  obtain ⟨h1, h2, h3⟩ := hi
  have hi : HInv s := ⟨h1, h2, h3⟩
  cases e with
  | openS k =>
    by_cases hk : k ∈ s.seen
    · have e : hlsStep s (.openS k) = (s, []) := by simp [hlsStep, hk]
      rw [e]; exact ⟨hi, by simp [hProj, alt]⟩
    by_cases hu : s.up = true
    · have e : hlsStep s (.openS k) =
          ({ s with plain := s.plain ++ [k], seen := k :: s.seen }, [.hook k true]) := by simp [hlsStep, hk, hu]
      rw [e]
      have hkp : k ∉ s.plain := fun h => hk (h2 k h)
      refine ⟨⟨?_, ?_, ?_⟩, ?_⟩
      · exact List.nodup_append.mpr ⟨h1, by simp, by intro a ha b hb; simp at hb; subst hb; exact fun e => hkp (e ▸ ha)⟩
      · intro a ha; simp at ha; rcases ha with ha | ha
        · exact List.mem_cons_of_mem _ (h2 a ha)
        · subst ha; exact List.mem_cons_self
      · intro m hm
        have := h3 m hm
        refine ⟨List.mem_cons_of_mem _ this.1, ?_⟩
        simp; exact ⟨this.2, fun e => hk (e ▸ this.1)⟩
      · by_cases hkn : k = n
        · subst hkn
          have hc : s.cdn ≠ some k := fun e => hk (h3 k e).1
          simp [hProj, alt, hOpen, hkp, hc]
        · have : ¬ n = k := fun e => hkn e.symm
          simp [hProj, alt, hOpen, hkn, this]
    · have e : hlsStep s (.openS k) = ({ s with seen := k :: s.seen }, [.err k]) := by simp [hlsStep, hk, hu]
      rw [e]
      refine ⟨⟨h1, fun a ha => List.mem_cons_of_mem _ (h2 a ha), fun m hm => ⟨List.mem_cons_of_mem _ (h3 m hm).1, (h3 m hm).2⟩⟩, ?_⟩
      simp [hProj, alt, hOpen]
  | cdnS k =>
    by_cases hk : k ∈ s.seen
    · have e : hlsStep s (.cdnS k) = (s, []) := by simp [hlsStep, hk]
      rw [e]; exact ⟨hi, by simp [hProj, alt]⟩
    by_cases hu : s.up = true
    · have e : hlsStep s (.cdnS k) = ({ s with cdn := some k, seen := k :: s.seen },
          (match s.cdn with | some m => [HOut.hook m false] | none => []) ++ [.hook k true]) := by
        simp only [hlsStep, hk, hu, if_true, if_false]
        cases s.cdn <;> rfl
      rw [e]
      have hkp : k ∉ s.plain := fun h => hk (h2 k h)
      refine ⟨⟨h1, fun a ha => List.mem_cons_of_mem _ (h2 a ha), ?_⟩, ?_⟩
      · intro m hm; simp at hm; subst hm; exact ⟨List.mem_cons_self, hkp⟩
      · rw [hProj_append]
        cases hc : s.cdn with
        | none =>
          by_cases hkn : k = n
          · subst hkn; simp [hProj, alt, hOpen, hkp, hc]
          · have : ¬ n = k := fun e => hkn e.symm
            simp [hProj, alt, hOpen, hkn, this, hc]
        | some m =>
          have hm := h3 m hc
          have hmk : m ≠ k := fun e => hk (e ▸ hm.1)
          by_cases hkn : k = n
          · subst hkn
            simp [hProj, alt, hOpen, hkp, hc, hmk]
          · have hnk : ¬ n = k := fun e => hkn e.symm
            by_cases hmn : m = n
            · subst hmn; simp [hProj, alt, hOpen, hc, hkn, hm.2, hnk]
            · have : ¬ n = m := fun e => hmn e.symm
              simp [hProj, alt, hOpen, hc, hkn, hmn, hnk, this]
    · have e : hlsStep s (.cdnS k) = ({ s with seen := k :: s.seen }, [.err k]) := by simp [hlsStep, hk, hu]
      rw [e]
      refine ⟨⟨h1, fun a ha => List.mem_cons_of_mem _ (h2 a ha), fun m hm => ⟨List.mem_cons_of_mem _ (h3 m hm).1, (h3 m hm).2⟩⟩, ?_⟩
      simp [hProj, alt, hOpen]
  | down =>
    refine ⟨⟨by simp [hlsStep], by simp [hlsStep], by simp [hlsStep]⟩, ?_⟩
    show alt (hOpen s n) (hProj n (stopAll s)) = _
    rw [hls_stopAll s hi n]
    cases ho : hOpen s n <;> simp [alt, hlsStep, hOpen]
  | up =>
    exact ⟨⟨h1, h2, h3⟩, by simp only [hlsStep, hProj, List.filterMap_nil, alt]; rfl⟩
  | kick k =>
    by_cases hc : s.cdn = some k
    · have e : hlsStep s (.kick k) = ({ s with cdn := none }, [.hook k false]) := by simp [hlsStep, hc]
      rw [e]
      refine ⟨⟨h1, h2, by simp⟩, ?_⟩
      have hk := h3 k hc
      by_cases hkn : k = n
      · subst hkn; simp [hProj, alt, hOpen, hc, hk.2]
      · have : ¬ n = k := fun e => hkn e.symm
        simp [hProj, alt, hOpen, hc, hkn, this]
    by_cases hp : k ∈ s.plain
    · have e : hlsStep s (.kick k) = ({ s with plain := s.plain.filter (· != k) }, [.hook k false]) := by
        simp [hlsStep, hc, hp]
      rw [e]
      refine ⟨⟨h1.filter _, fun a ha => h2 a (List.mem_filter.mp ha).1,
        fun m hm => ⟨(h3 m hm).1, fun h => (h3 m hm).2 (List.mem_filter.mp h).1⟩⟩, ?_⟩
      by_cases hkn : k = n
      · subst hkn
        have : s.cdn ≠ some k := hc
        simp [hProj, alt, hOpen, hp, this]
      · have hnk : ¬ n = k := fun e => hkn e.symm
        simp [hProj, alt, hOpen, hkn, List.mem_filter, hnk]
    · have e : hlsStep s (.kick k) = (s, []) := by simp [hlsStep, hc, hp]
      rw [e]; exact ⟨hi, by simp [hProj, alt]⟩
  | fin =>
    refine ⟨⟨by simp [hlsStep], by simp [hlsStep], by simp [hlsStep]⟩, ?_⟩
    show alt (hOpen s n) (hProj n (stopAll s)) = _
    rw [hls_stopAll s hi n]
    cases ho : hOpen s n <;> simp [alt, hlsStep, hOpen]

/-- HLS sessions: for every script and every session, runOnRead/runOnUnread alternate, the pair is open
exactly while the muxer references the session -/
theorem hls_pairs (es : List HEv) (n : Nat) : ∀ s, HInv s →
    alt (hOpen s n) (hProj n (hlsRun s es).2) = some (hOpen (hlsRun s es).1 n) := by
  induction es with
  | nil => intro s _; simp [hlsRun, hProj, alt]
  | cons e es ih =>
    intro s hi
    obtain ⟨hi', h1⟩ := hls_step s hi e n
    show alt (hOpen s n) (hProj n ((hlsStep s e).2 ++ (hlsRun (hlsStep s e).1 es).2)) = _
    rw [hProj_append, alt_append, h1]
    exact ih _ hi'

/-- ... and once the muxer is destroyed (`fin` last) every pair is closed -/
theorem hls_end_closed (es : List HEv) (n : Nat) :
    alt false (hProj n (hlsRun {} (es ++ [.fin])).2) = some false := by
  have h0 : HInv ({} : HState) := ⟨by simp, by simp, by simp⟩
  have := hls_pairs (es ++ [.fin]) n {} h0
  have hopen0 : hOpen ({} : HState) n = false := by simp [hOpen]
  rw [hopen0] at this
  rw [this]
  have hfin : ∀ (l : List HEv) (s : HState), hOpen (hlsRun s (l ++ [.fin])).1 n = false := by
    intro l; induction l with
    | nil => intro s; simp [hlsRun, hlsStep, hOpen]
    | cons x xs ih => intro s; exact ih _
  rw [hfin]

/-- **Tie for the per-object machines** (regenerated from the Go sources by tools/xlate/c20): these are
all call sites of hooks.OnRead / hooks.OnConnect in the protocol servers and the way each consumes
the returned closure — `defer` in the serving function (`objRun`), one assignment in the object's
initialisation with one call in its close function (`objRun`), or the RTSP session's
onPlay / onPause / onClose triple (`rtspStep`).  A new call site or a changed consumer breaks this. -/
theorem hook_sites_as_modelled : Gen.C20.hookSites = [
    ("internal/servers/hls/session.go", "initialize", "OnRead", "field onUnreadHook@close2"),
    ("internal/servers/rtmp/conn.go", "run", "OnConnect", "defer"),
    ("internal/servers/rtmp/conn.go", "runRead", "OnRead", "defer"),
    ("internal/servers/rtsp/conn.go", "initialize", "OnConnect", "field onDisconnectHook@onClose"),
    ("internal/servers/rtsp/session.go", "onPlay", "OnRead", "field onUnreadHook@onClose,onPause"),
    ("internal/servers/srt/conn.go", "run", "OnConnect", "defer"),
    ("internal/servers/srt/conn.go", "runRead", "OnRead", "defer"),
    ("internal/servers/webrtc/session.go", "runRead", "OnRead", "defer")] := rfl

/-! #### non-vacuity -/

def cHooks : Conf := { kind := .publisher, overridePublisher := true, runOnDemand := true }

example : cHooks.valid = true := by decide

example : hookEvents .avail (trace (init cHooks)
    [.describe 1, .addPublisher 1 true, .addPublisher 2 true, .addPublisher 3 false, .addPublisher 4 true, .close]) =
  [true, false, true, false, true, false, true, false] := by decide

example : (rtspRun .initial [.setup, .play, .play, .pause, .play, .close]).2 = [true, false, true, false] := by decide

example : (hlsRun {} [.openS 1, .cdnS 5, .cdnS 6, .down, .openS 2, .up, .openS 3, .kick 3, .openS 4, .fin]).2 =
  [.hook 1 true, .hook 5 true, .hook 5 false, .hook 6 true, .hook 1 false, .hook 6 false, .err 2,
   .hook 3 true, .hook 3 false, .hook 4 true, .hook 4 false] := by decide

end MtxVerif.C20
