/-
C20 — Hooks fire in well-formed start/stop pairs.  Property theorems: path-level pairs over the
shared path state machine for every valid configuration and every event history; per-object pairs
(runOnRead per reader, runOnConnect per connection) over the small consumer machines of Model/C20.
-/
import MtxVerif.Model.C20
import MtxVerif.Lemmas.C20Hooks
import MtxVerif.Gen.C20

namespace MtxVerif.C20
open MtxVerif.PathSM

def Reach (s : State) : Prop := ∃ c es, c.valid = true ∧ s = (run (init c) es).1

theorem reach_inv {s : State} (h : Reach s) : Inv s := by
  obtain ⟨c, es, hv, rfl⟩ := h
  exact inv_reach c hv es

/-! ### what `alt` says -/

/-- a start can only follow a closed pair, a stop only an open one -/
theorem alt_head {f f' b : Bool} {l : List Bool} (h : alt f (b :: l) = some f') : b ≠ f := by
  unfold alt at h; split at h
  · cases h
  · assumption

/-- consecutive events of one kind always differ: start, stop, start, stop, … -/
theorem alt_adjacent {f f' : Bool} {l : List Bool} (h : alt f l = some f') :
    ∀ i (hi : i + 1 < l.length), l[i] ≠ l[i + 1] := by
  induction l generalizing f with
  | nil => intro i hi; simp at hi
  | cons b bs ih =>
    unfold alt at h
    split at h
    · cases h
    · intro i hi
      cases i with
      | zero =>
        cases bs with
        | nil => simp at hi
        | cons c cs => simpa using (alt_head h).symm
      | succ j => simpa using ih h j (by simpa using hi)

/-- the resulting flag is the last event (or the initial flag if there was none) -/
theorem alt_last {f f' : Bool} {l : List Bool} (h : alt f l = some f') : f' = l.getLast?.getD f := by
  induction l generalizing f with
  | nil => simpa [alt] using h.symm
  | cons b bs ih =>
    unfold alt at h
    split at h
    · cases h
    · have := ih h
      cases bs with
      | nil => simpa using this
      | cons c cs =>
        rw [this]
        have : (c :: cs).getLast? = some ((c :: cs).getLast (by simp)) := List.getLast?_eq_some_getLast (by simp)
        rw [List.getLast?_cons_cons, this]; rfl

/-! ### path-level pairs -/

/-- **One step.** For each hook kind, the start/stop events fired by a step form a legal
alternating sequence from the state's open/closed flag to the new state's flag. -/
theorem step_hooks {s : State} (h : Reach s) (e : Event) (k : Hook) :
    alt (flag k s) (hookEvents k (step s e).2) = some (flag k (step s e).1) := by
  have : HK k (flag k s) { s := s } := by simp [HK, alt]
  exact hk_stepW e { s := s } (reach_inv h) this

theorem init_hooks (c : Conf) (k : Hook) :
    alt false (hookEvents k (initW c).out) = some (flag k (init c)) := by
  unfold init initW
  dsimp only
  cases k <;> (repeat' split) <;> simp [flag, alt, srcStart, emit, upd] <;> (repeat' split) <;> simp [alt]

theorem run_hooks (k : Hook) (es : List Event) : ∀ s, PathSM.Inv s →
    alt (flag k s) (hookEvents k (run s es).2.flatten) = some (flag k (run s es).1) := by
  induction es with
  | nil => intro s _; simp [run, alt]
  | cons e es ih =>
    intro s hi
    have h1 : alt (flag k s) (hookEvents k (stepW e { s := s }).out) = some (flag k (stepW e { s := s }).s) := by
      have : HK k (flag k s) { s := s } := by simp [HK, alt]
      exact hk_stepW e { s := s } hi this
    have h2 := ih (stepW e { s := s }).s (inv_stepW e { s := s } hi)
    have er : run s (e :: es) =
        ((run (stepW e { s := s }).s es).1, (stepW e { s := s }).out :: (run (stepW e { s := s }).s es).2) := rfl
    rw [er]
    simp only [List.flatten_cons, hookEvents_append, alt_append, h1, Option.bind_some]
    exact h2

/-- **Whole histories.** From the creation of the path (prologue of `path.run` included), over any
event history, the executions of each hook pair strictly alternate, the first one being the start
hook, and the pair is open at the end iff the state says so. -/
theorem history_hooks (c : Conf) (hv : c.valid = true) (es : List Event) (k : Hook) :
    alt false (hookEvents k ((initW c).out ++ trace (init c) es)) = some (flag k (run (init c) es).1) := by
  simp only [hookEvents_append, alt_append, init_hooks, Option.bind_some]
  exact run_hooks k es (init c) (inv_init c hv)

/-- **Closed on close.** Once the path has closed, no pair is open: every start has had its stop. -/
theorem closed_pairs_closed (c : Conf) (hv : c.valid = true) (es : List Event) (k : Hook)
    (hcl : (run (init c) es).1.closed = true) :
    alt false (hookEvents k ((initW c).out ++ trace (init c) es)) = some false := by
  rw [history_hooks c hv es k]
  have hi := inv_reach c hv es
  have := hi.cl hcl
  cases k
  · show some (run (init c) es).1.hkAvail = some false
    rw [hi.hkA, this.1]; rfl
  · show some (run (init c) es).1.hkOnline = some false
    rw [this.2.2.2.2.2.2.2.2.2]
  · show some (run (init c) es).1.hkDemand = some false
    rw [this.2.2.2.2.2.2.2.2.1]

/-- runOnOnline/runOnOffline pairs lie inside runOnReady/runOnNotReady pairs -/
theorem online_within_ready {s : State} (h : Reach s) (ho : s.hkOnline = true) : s.hkAvail = true := by
  have hi := reach_inv h
  rw [hi.hkA]; exact hi.hkO ho

/-- the runOnDemand pair is open exactly while the on-demand automaton is not `initial` -/
theorem demand_iff_automaton {s : State} (h : Reach s) (hc : s.closed = false) :
    s.hkDemand = true ↔ s.odPub ≠ .initial := (reach_inv h).q3 hc

/-! ### per-object pairs -/

def rOpen : RState → Bool
  | .play => true
  | _ => false

/-- RTSP session: runOnRead/runOnUnread alternate over every sequence of handler calls -/
theorem rtsp_pairs (es : List REv) : ∀ s, alt (rOpen s) (rtspRun s es).2 = some (rOpen (rtspRun s es).1) := by
  induction es with
  | nil => intro s; simp [rtspRun, alt]
  | cons e es ih =>
    intro s
    have h1 : alt (rOpen s) (rtspStep s e).2 = some (rOpen (rtspStep s e).1) := by
      cases s <;> cases e <;> simp [rtspStep, alt, rOpen]
    show alt (rOpen s) ((rtspStep s e).2 ++ (rtspRun (rtspStep s e).1 es).2) = _
    rw [alt_append, h1]
    exact ih _

/-- ... and a closed session has no open pair -/
theorem rtsp_closed (es : List REv) (s : RState) (h : (rtspRun s es).1 = .closed) :
    alt (rOpen s) (rtspRun s es).2 = some false := by
  rw [rtsp_pairs, h]; rfl

/-- a session that receives `close` ends closed, whatever came before and comes after -/
theorem rtsp_close_closes (es es' : List REv) (s : RState) : (rtspRun s (es ++ .close :: es')).1 = .closed := by
  have hc : ∀ (l : List REv), (rtspRun .closed l).1 = .closed := by
    intro l; induction l with
    | nil => rfl
    | cons x xs ih => cases x <;> exact ih
  induction es generalizing s with
  | nil =>
    show (rtspRun (rtspStep s .close).1 es').1 = .closed
    have : (rtspStep s .close).1 = .closed := by cases s <;> rfl
    rw [this]; exact hc _
  | cons e es ih => exact ih _

/-- `defer`-style and assign-once/call-once consumers: one start, one stop, in this order -/
theorem obj_pairs (es : List ObjEv) : ∀ a, alt a (objRun a es).2 = some (objRun a es).1 := by
  induction es with
  | nil => intro a; cases a <;> simp [objRun, alt]
  | cons e es ih =>
    intro a
    cases a <;> cases e <;> simp [objRun, alt, ih]

/-- **Tie for the per-object machines** (regenerated from the Go sources by tools/xlate/c20): these are
all call sites of hooks.OnRead / hooks.OnConnect in the protocol servers and the way each consumes
the returned closure — `defer` in the serving function (`objRun`), one assignment in the object's
initialisation with one call in its close function (`objRun`), or the RTSP session's
onPlay / onPause / onClose triple (`rtspStep`).  A new call site or a changed consumer breaks this. -/
theorem hook_sites_as_modelled : Gen.C20.hookSites = [
    ("internal/servers/hls/session.go", "initialize", "OnRead", "field onUnreadHook@close2"),
    ("internal/servers/rtmp/conn.go", "run", "OnConnect", "defer"),
    ("internal/servers/rtmp/conn.go", "runRead", "OnRead", "defer"),
    ("internal/servers/rtsp/conn.go", "initialize", "OnConnect", "field onDisconnectHook@onClose"),
    ("internal/servers/rtsp/session.go", "onPlay", "OnRead", "field onUnreadHook@onClose,onPause"),
    ("internal/servers/srt/conn.go", "run", "OnConnect", "defer"),
    ("internal/servers/srt/conn.go", "runRead", "OnRead", "defer"),
    ("internal/servers/webrtc/session.go", "runRead", "OnRead", "defer")] := rfl

/-! #### non-vacuity -/

def cHooks : Conf := { kind := .publisher, overridePublisher := true, runOnDemand := true }

example : cHooks.valid = true := by decide

example : hookEvents .avail (trace (init cHooks)
    [.describe 1, .addPublisher 1 true, .addPublisher 2 true, .addPublisher 3 false, .addPublisher 4 true, .close]) =
  [true, false, true, false, true, false, true, false] := by decide

example : (rtspRun .initial [.setup, .play, .play, .pause, .play, .close]).2 = [true, false, true, false] := by decide

end MtxVerif.C20
