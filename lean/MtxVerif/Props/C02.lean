/-
C02 — HTTP and JWT authentication admit only what the authority grants; token precedence.
Property theorems.  They hold for every oracle (regexp, url.ParseQuery, the auth server as a function
of the POSTed body, golang-jwt verdicts per key set, JSON decoding results of the permission claim).
-/
import MtxVerif.Model.C02
import MtxVerif.Props.C01

namespace MtxVerif.C02

open MtxVerif.C01 (Perm Oracle Outcome matchesPermission Grants matchesPermission_iff
  matchesPermission_eq_anyGrants aPlayback aAPI aMetrics aPprof)

/-- "its action/path is excluded" -/
def Excluded (env : Env) (cfg : Cfg) (r : Req) : Prop := Grants env.o cfg.excl r.action r.path

theorem excluded_iff (env : Env) (cfg : Cfg) (r : Req) :
    matchesPermission env.o cfg.excl r.action r.path = true ↔ Excluded env cfg r :=
  matchesPermission_iff _ _ _ _

/-! ### token source precedence -/

/-- 1. the token field wins -/
theorem token_field_first (q : Bool) (pq : Option QueryVals) (r : Req) (h : r.token ≠ []) :
    getToken q pq r = r.token := by
  simp [getToken, h]

/-- 2. else the password -/
theorem token_pass_second (q : Bool) (pq : Option QueryVals) (r : Req) (h1 : r.token = [])
    (h2 : r.pass ≠ []) : getToken q pq r = r.pass := by
  simp [getToken, h1, h2]

/-- 3. else, where the query may be consulted, the single `token` parameter -/
theorem token_query_token (q : Bool) (v : QueryVals) (r : Req) (t : Bytes) (h1 : r.token = [])
    (h2 : r.pass = []) (ha : queryAllowed q r = true) (ht : v.token = [t]) :
    getToken q (some v) r = t := by
  simp [getToken, h1, h2, ha, ht]

/-- 4. else the single legacy `jwt` parameter -/
theorem token_query_jwt (q : Bool) (v : QueryVals) (r : Req) (t : Bytes) (h1 : r.token = [])
    (h2 : r.pass = []) (ha : queryAllowed q r = true) (ht : v.token.length ≠ 1) (hj : v.jwt = [t]) :
    getToken q (some v) r = t := by
  unfold getToken
  simp only [h1, h2, ne_eq, not_true_eq_false, if_false, ha, if_true]
  split
  · rename_i x hx; rw [hx] at ht; simp at ht
  · simp [hj]

/-- 5. otherwise there is no token -/
theorem token_none (q : Bool) (pq : Option QueryVals) (r : Req) (h1 : r.token = []) (h2 : r.pass = [])
    (h : queryAllowed q r = false ∨ pq = none ∨
      ∃ v, pq = some v ∧ v.token.length ≠ 1 ∧ v.jwt.length ≠ 1) :
    getToken q pq r = [] := by
  unfold getToken
  simp only [h1, h2, ne_eq, not_true_eq_false, if_false]
  rcases h with h | h | ⟨v, hv, ht, hj⟩
  · simp [h]
  · simp [h]
  · subst hv
    split
    · simp only
      split
      · rename_i x hx; rw [hx] at ht; simp at ht
      · split
        · rename_i x hx; rw [hx] at hj; simp at hj
        · rfl
    · rfl

/-- where the query may be consulted: "RTSP/RTMP, or HTTP protocols when allowed" -/
theorem queryAllowed_iff (q : Bool) (r : Req) :
    queryAllowed q r = true ↔
      (r.proto = pRTSP ∨ r.proto = pRTMP ∨
        (q = true ∧ (r.proto = pHLS ∨ r.proto = pWebRTC ∨ r.action = aPlayback ∨ r.action = aAPI ∨
          r.action = aMetrics ∨ r.action = aPprof))) := by
  simp [queryAllowed, isHTTP, or_assoc]

/-- "when allowed" only exists for the jwt method: under the http method an HTTP-protocol request
never gets a token from its query (mirrored behaviour of `Authenticate`). -/
theorem http_method_query_only_rtsp_rtmp (cfg : Cfg) (env : Env) (r : Req) (hm : cfg.method = .http)
    (h1 : r.token = []) (h2 : r.pass = []) (hp : r.proto ≠ pRTSP ∧ r.proto ≠ pRTMP) :
    tokenOf cfg env r = [] := by
  unfold tokenOf
  apply token_none _ _ _ h1 h2
  left
  simp [queryAllowed, hm, hp.1, hp.2]

/-- the statement-style token rule used by the driver's spec is `getToken` -/
theorem tokenOf_eq_spec (cfg : Cfg) (env : Env) (r : Req) : tokenOf cfg env r = specToken cfg env r := by
  unfold tokenOf specToken getToken queryAllowed
  by_cases h1 : r.token = []
  · by_cases h2 : r.pass = []
    · simp only [h1, h2, ne_eq, not_true_eq_false, if_false, List.isEmpty_nil, Bool.not_true,
        Bool.false_eq_true]
      have e : (r.proto == pRTSP || r.proto == pRTMP || cfg.method == Method.jwt && cfg.inQuery && isHTTP r) =
          (r.proto == pRTSP || r.proto == pRTMP || (cfg.method == Method.jwt && cfg.inQuery) && isHTTP r) := by
        simp [Bool.and_assoc]
      rw [e]
      cases (r.proto == pRTSP || r.proto == pRTMP || (cfg.method == Method.jwt && cfg.inQuery) && isHTTP r)
      · simp
      · simp only [if_true]
        cases env.pq with
        | none => rfl
        | some v =>
          simp only
          cases ht : v.token with
          | nil =>
            cases hj : v.jwt with
            | nil => simp
            | cons b bs => cases bs <;> simp
          | cons a as =>
            cases as with
            | nil => simp
            | cons a' as' =>
              cases hj : v.jwt with
              | nil => simp
              | cons b bs => cases bs <;> simp
    · simp [h1, h2]
  · simp [h1]

/-! ### HTTP method -/

def Is2xx (rep : Reply) : Prop := ∃ c, rep = .status c ∧ 200 ≤ c ∧ c ≤ 299

theorem is2xx_iff (rep : Reply) : is2xx rep = true ↔ Is2xx rep := by
  unfold Is2xx
  cases rep with
  | fail => simp [is2xx]
  | status c => simp [is2xx]

theorem mkOut_ok_iff (x : Option Bytes) (a : Bool) (u : Bytes) : mkOut x a = .ok u ↔ x = some u := by
  cases x <;> simp [mkOut]

theorem mkOut_err_iff (x : Option Bytes) (a b : Bool) : mkOut x a = .err b ↔ (x = none ∧ a = b) := by
  cases x <;> simp [mkOut]

theorem authenticateHTTP_eq (o : Oracle) (excl : List Perm) (auth : Post → Reply) (r : Req) (t : Bytes) :
    authenticateHTTP o excl auth r t =
      if matchesPermission o excl r.action r.path then (some [], none)
      else (if is2xx (auth (postOf r t)) then some r.user else none, some (postOf r t)) := by
  unfold authenticateHTTP
  split
  · rfl
  · simp only
    cases h : auth (postOf r t) with
    | fail => simp [is2xx]
    | status c =>
      by_cases hc : c < 200 ∨ c > 299
      · have : ¬ (200 ≤ c ∧ c ≤ 299) := by omega
        simp [is2xx, hc, this]
      · have : (200 ≤ c ∧ c ≤ 299) := by omega
        simp [is2xx, hc, this]

theorem auth_http_eq (cfg : Cfg) (env : Env) (st : St) (r : Req) (hm : cfg.method = .http) :
    authenticate cfg env st r =
      (st, ⟨mkOut (authenticateHTTP env.o cfg.excl env.authority r (tokenOf cfg env r)).1
              (askOf r (tokenOf cfg env r)),
            (authenticateHTTP env.o cfg.excl env.authority r (tokenOf cfg env r)).2⟩) := by
  unfold authenticate
  simp only [hm]

theorem auth_jwt_eq (cfg : Cfg) (env : Env) (st : St) (r : Req) (hm : cfg.method = .jwt) :
    authenticate cfg env st r =
      ((authenticateJWT env.o cfg.excl env.tok st env.served r (tokenOf cfg env r)).1,
        ⟨mkOut (authenticateJWT env.o cfg.excl env.tok st env.served r (tokenOf cfg env r)).2
              (askOf r (tokenOf cfg env r)), none⟩) := by
  unfold authenticate
  simp only [hm]

/-- **C02 (http)**: admitted iff excluded, or the auth server answers 2xx to the POST carrying the
request's user, password, token (by precedence), IP, action, path, protocol and query. -/
theorem http_iff (cfg : Cfg) (env : Env) (st : St) (r : Req) (hm : cfg.method = .http) :
    (∃ u, (authenticate cfg env st r).2.out = .ok u) ↔
      (Excluded env cfg r ∨ Is2xx (env.authority (postOf r (tokenOf cfg env r)))) := by
  rw [auth_http_eq cfg env st r hm, authenticateHTTP_eq, ← excluded_iff, ← is2xx_iff]
  simp only [mkOut_ok_iff]
  cases matchesPermission env.o cfg.excl r.action r.path
  · cases is2xx (env.authority (postOf r (tokenOf cfg env r))) <;> simp
  · simp

/-- the POST that is made carries exactly the request's fields; none is made for excluded requests -/
theorem http_post (cfg : Cfg) (env : Env) (st : St) (r : Req) (hm : cfg.method = .http) :
    (Excluded env cfg r → (authenticate cfg env st r).2.post = none) ∧
    (¬ Excluded env cfg r →
      (authenticate cfg env st r).2.post = some (postOf r (tokenOf cfg env r))) := by
  rw [auth_http_eq cfg env st r hm, authenticateHTTP_eq, ← excluded_iff]
  cases matchesPermission env.o cfg.excl r.action r.path <;> simp

/-- field by field -/
theorem postOf_fields (r : Req) (t : Bytes) :
    (postOf r t).ip = r.ipStr ∧ (postOf r t).user = r.user ∧ (postOf r t).password = r.pass ∧
    (postOf r t).token = t ∧ (postOf r t).action = r.action ∧ (postOf r t).path = r.path ∧
    (postOf r t).protocol = r.proto ∧ (postOf r t).query = r.query ∧ (postOf r t).id = r.id ∧
    (postOf r t).userAgent = r.userAgent :=
  ⟨rfl, rfl, rfl, rfl, rfl, rfl, rfl, rfl, rfl, rfl⟩

/-- reported user: the supplied one, or none for excluded requests -/
theorem http_user (cfg : Cfg) (env : Env) (st : St) (r : Req) (u : Bytes) (hm : cfg.method = .http)
    (h : (authenticate cfg env st r).2.out = .ok u) :
    (Excluded env cfg r ∧ u = []) ∨ (¬ Excluded env cfg r ∧ u = r.user) := by
  rw [auth_http_eq cfg env st r hm, authenticateHTTP_eq] at h
  rw [← excluded_iff]
  simp only [mkOut_ok_iff] at h
  cases hx : matchesPermission env.o cfg.excl r.action r.path
  · rw [hx] at h
    right
    refine ⟨by simp, ?_⟩
    cases h2 : is2xx (env.authority (postOf r (tokenOf cfg env r)))
    · rw [h2] at h; simp at h
    · rw [h2] at h; simp at h; exact h.symm
  · rw [hx] at h
    simp at h
    first | exact Or.inl ⟨rfl, h⟩ | exact Or.inl ⟨rfl, h.symm⟩

/-- the JWKS state is not touched by the http method -/
theorem http_state (cfg : Cfg) (env : Env) (st : St) (r : Req) (hm : cfg.method = .http) :
    (authenticate cfg env st r).1 = st := by
  rw [auth_http_eq cfg env st r hm]

/-! ### JWT method -/

/-- "the token verifies against the JWKS keys, satisfies issuer/audience and expiry (oracle verdict
for key set `k`), and its permission claim grants the action on the path" -/
def JwtGrants (env : Env) (k : Nat) (r : Req) (t : Bytes) (sub : Bytes) : Prop :=
  t ≠ [] ∧ (env.tok t).verdict k = some sub ∧
    ∃ perms, decodeClaim (env.tok t).claim = some perms ∧ Grants env.o perms r.action r.path

theorem jwtDecide_iff (env : Env) (k : Nat) (r : Req) (t sub : Bytes) :
    jwtDecide env.o env.tok k r t = some sub ↔ JwtGrants env k r t sub := by
  unfold jwtDecide JwtGrants
  by_cases ht : t = []
  · simp [ht]
  · simp only [ht, if_false, ne_eq, not_false_eq_true, true_and]
    cases hv : (env.tok t).verdict k with
    | none => simp
    | some s =>
      cases hd : decodeClaim (env.tok t).claim with
      | none => simp
      | some perms =>
        simp only [Option.some.injEq, exists_eq_left']
        rw [← matchesPermission_iff]
        cases matchesPermission env.o perms r.action r.path <;> simp

theorem jwt_core (cfg : Cfg) (env : Env) (st : St) (r : Req) (hm : cfg.method = .jwt) (u : Bytes) :
    (authenticate cfg env st r).2.out = .ok u ↔
      ((Excluded env cfg r ∧ u = []) ∨
       (¬ Excluded env cfg r ∧ ∃ k, (pull st env.served).2 = some k ∧
          JwtGrants env k r (tokenOf cfg env r) u)) := by
  rw [auth_jwt_eq cfg env st r hm, ← excluded_iff]
  simp only [mkOut_ok_iff]
  unfold authenticateJWT
  cases matchesPermission env.o cfg.excl r.action r.path
  · simp only [Bool.false_eq_true, if_false, false_and, not_false_eq_true, true_and, false_or]
    cases (pull st env.served).2 with
    | none => simp
    | some k => simp [jwtDecide_iff]
  · simp [eq_comm]

/-- **C02 (jwt)**: admitted iff excluded, or a key set could be obtained, a token is present (by
precedence), verifies against that key set, and its permission claim grants the action on the path. -/
theorem jwt_iff (cfg : Cfg) (env : Env) (st : St) (r : Req) (hm : cfg.method = .jwt) :
    (∃ u, (authenticate cfg env st r).2.out = .ok u) ↔
      (Excluded env cfg r ∨ ∃ k sub, (pull st env.served).2 = some k ∧
          JwtGrants env k r (tokenOf cfg env r) sub) := by
  constructor
  · rintro ⟨u, h⟩
    rcases (jwt_core cfg env st r hm u).mp h with ⟨he, _⟩ | ⟨_, k, hk, hg⟩
    · exact Or.inl he
    · exact Or.inr ⟨k, u, hk, hg⟩
  · intro h
    by_cases he : Excluded env cfg r
    · exact ⟨[], (jwt_core cfg env st r hm []).mpr (Or.inl ⟨he, rfl⟩)⟩
    · rcases h with h | ⟨k, sub, hk, hg⟩
      · exact absurd h he
      · exact ⟨sub, (jwt_core cfg env st r hm sub).mpr (Or.inr ⟨he, k, hk, hg⟩)⟩

/-- reported user of an admitted JWT request: the verified token's subject (none if excluded) -/
theorem jwt_user (cfg : Cfg) (env : Env) (st : St) (r : Req) (u : Bytes) (hm : cfg.method = .jwt)
    (h : (authenticate cfg env st r).2.out = .ok u) (he : ¬ Excluded env cfg r) :
    ∃ k, (pull st env.served).2 = some k ∧ (env.tok (tokenOf cfg env r)).verdict k = some u := by
  rcases (jwt_core cfg env st r hm u).mp h with ⟨he', _⟩ | ⟨_, k, hk, hg⟩
  · exact absurd he' he
  · exact ⟨k, hk, hg.2.1⟩

/-! ### permission-claim decoding -/

/-- the claim decodes iff it is present and is a permission array, or is a JSON string whose content
is a permission array (and the direct decoding failed) -/
theorem decodeClaim_some_iff (c : Claim) (perms : List Perm) :
    decodeClaim c = some perms ↔
      ((∃ s, c = .present (some perms) s) ∨ c = .present none (some (some perms))) := by
  cases c with
  | missing => simp [decodeClaim]
  | present a s =>
    cases a with
    | some p => simp [decodeClaim]
    | none =>
      cases s with
      | none => simp [decodeClaim]
      | some s' => cases s' <;> simp [decodeClaim]

/-- a token without the permission claim is never admitted (unless the request is excluded) -/
theorem jwt_missing_claim (cfg : Cfg) (env : Env) (st : St) (r : Req) (hm : cfg.method = .jwt)
    (he : ¬ Excluded env cfg r) (hc : (env.tok (tokenOf cfg env r)).claim = .missing) :
    ∃ a, (authenticate cfg env st r).2.out = .err a := by
  cases hout : (authenticate cfg env st r).2.out with
  | err a => exact ⟨a, rfl⟩
  | ok u =>
    rcases (jwt_core cfg env st r hm u).mp hout with ⟨he', _⟩ | ⟨_, k, _, _, _, perms, hd, _⟩
    · exact absurd he' he
    · rw [hc] at hd; simp [decodeClaim] at hd

/-! ### ask-for-credentials -/

theorem out_cases (cfg : Cfg) (env : Env) (st : St) (r : Req) :
    (∃ u, (authenticate cfg env st r).2.out = .ok u) ∨
      (authenticate cfg env st r).2.out = .err (askOf r (tokenOf cfg env r)) := by
  have : ∀ x : Option Bytes, (∃ u, mkOut x (askOf r (tokenOf cfg env r)) = .ok u) ∨
      mkOut x (askOf r (tokenOf cfg env r)) = .err (askOf r (tokenOf cfg env r)) := by
    intro x; cases x
    · exact Or.inr rfl
    · exact Or.inl ⟨_, rfl⟩
  cases hm : cfg.method
  · rw [auth_http_eq cfg env st r hm]; exact this _
  · rw [auth_jwt_eq cfg env st r hm]; exact this _

/-- rejected requests ask for credentials iff asking is allowed and no user, password or token (by
precedence, including the query) was supplied — both methods -/
theorem ask_iff (cfg : Cfg) (env : Env) (st : St) (r : Req) :
    (authenticate cfg env st r).2.out = .err true ↔
      ((¬ ∃ u, (authenticate cfg env st r).2.out = .ok u) ∧ r.enableAsk = true ∧ r.user = [] ∧
        r.pass = [] ∧ tokenOf cfg env r = []) := by
  rcases out_cases cfg env st r with ⟨u, h⟩ | h
  · rw [h]
    constructor
    · intro h'; cases h'
    · rintro ⟨hn, _⟩; exact absurd ⟨u, rfl⟩ hn
  · rw [h]
    simp [askOf, List.isEmpty_iff, and_assoc]

/-! ### JWKS refresh state -/

/-- after `RefreshJWTJWKS` the next pull uses what the endpoint serves now -/
theorem pull_after_refresh (st : St) (k : Nat) : (pull (refresh st) (.keys k)).2 = some k := by
  simp [pull, refresh]

/-- without a refresh the loaded key set keeps being used, whatever the endpoint serves -/
theorem pull_cached (st : St) (served : Served) (h : st.due = false) :
    pull st served = (st, some st.loaded) := by
  simp [pull, h]

/-- a failed fetch yields no keys and stays due (it is retried on the next request) -/
theorem pull_broken (st : St) (h : st.due = true) : pull st .broken = (st, none) := by
  simp [pull, h]

/-- a failed fetch never admits a non-excluded request -/
theorem jwt_no_keys_no_admission (cfg : Cfg) (env : Env) (st : St) (r : Req) (hm : cfg.method = .jwt)
    (he : ¬ Excluded env cfg r) (hd : st.due = true) (hs : env.served = .broken) :
    ∃ a, (authenticate cfg env st r).2.out = .err a := by
  cases hout : (authenticate cfg env st r).2.out with
  | err a => exact ⟨a, rfl⟩
  | ok u =>
    rcases (jwt_core cfg env st r hm u).mp hout with ⟨he', _⟩ | ⟨_, k, hk, _⟩
    · exact absurd he' he
    · rw [hs, pull_broken st hd] at hk; cases hk

/-- state after a jwt authentication: untouched if excluded, else the state after the pull -/
theorem jwt_state (cfg : Cfg) (env : Env) (st : St) (r : Req) (hm : cfg.method = .jwt) :
    (authenticate cfg env st r).1 =
      if matchesPermission env.o cfg.excl r.action r.path then st else (pull st env.served).1 := by
  rw [auth_jwt_eq cfg env st r hm]
  unfold authenticateJWT
  cases matchesPermission env.o cfg.excl r.action r.path <;> rfl

/-- events that touch the JWKS state -/
inductive Ev where
  | serve (s : Served)      -- the endpoint's content changes
  | refresh                 -- RefreshJWTJWKS
  | pull                    -- a non-excluded jwt authentication
deriving DecidableEq, Repr

def stepEv : St × Served → Ev → St × Served
  | (st, _), .serve s => (st, s)
  | (st, s), .refresh => (refresh st, s)
  | (st, s), .pull => ((pull st s).1, s)

/-- everything the endpoint has served during a history -/
def servedHist (s0 : Served) (evs : List Ev) : List Served :=
  s0 :: evs.filterMap fun e => match e with | .serve s => some s | _ => none

theorem loaded_inv (H : List Served) (p : St × Served) (e : Ev)
    (hs : p.2 ∈ H) (he : ∀ s, e = .serve s → s ∈ H)
    (hinv : p.1.due = false → Served.keys p.1.loaded ∈ H) :
    (stepEv p e).2 ∈ H ∧ ((stepEv p e).1.due = false → Served.keys (stepEv p e).1.loaded ∈ H) := by
  obtain ⟨st, s⟩ := p
  cases e with
  | serve s' => exact ⟨he s' rfl, hinv⟩
  | refresh => exact ⟨hs, by simp [stepEv, refresh]⟩
  | pull =>
    refine ⟨hs, ?_⟩
    simp only [stepEv, pull]
    by_cases hd : st.due = true
    · cases s with
      | keys k => simp only [hd, if_true]; intro _; exact hs
      | broken => simp [hd]
    · simp only [hd, Bool.false_eq_true, if_false]
      intro _
      exact hinv (by simpa using hd)

/-- **whole-history**: in every history of serve / refresh / authenticate events, the key set the
manager verifies against is one that the JWKS endpoint actually served at some point. -/
theorem loaded_was_served (s0 : Served) (evs : List Ev) :
    let fin := evs.foldl stepEv ({}, s0)
    fin.1.due = false → Served.keys fin.1.loaded ∈ servedHist s0 evs := by
  have gen : ∀ (evs : List Ev) (H : List Served) (p : St × Served),
      p.2 ∈ H → (∀ s, Ev.serve s ∈ evs → s ∈ H) →
      (p.1.due = false → Served.keys p.1.loaded ∈ H) →
      ((evs.foldl stepEv p).1.due = false → Served.keys (evs.foldl stepEv p).1.loaded ∈ H) := by
    intro evs
    induction evs with
    | nil => intro H p _ _ hinv; exact hinv
    | cons e es ih =>
      intro H p hs he hinv
      have := loaded_inv H p e hs (fun s h => he s (h ▸ List.mem_cons_self)) hinv
      exact ih H (stepEv p e) this.1 (fun s h => he s (List.mem_cons_of_mem _ h)) this.2
  intro fin
  apply gen evs (servedHist s0 evs) ({}, s0)
  · simp [servedHist]
  · intro s hs
    simp only [servedHist, List.mem_cons, List.mem_filterMap]
    exact Or.inr ⟨_, hs, rfl⟩
  · intro h; simp at h

/-! ### the model satisfies the executable spec used by the driver -/

theorem excluded_eq (env : Env) (cfg : Cfg) (r : Req) :
    excluded env cfg r = matchesPermission env.o cfg.excl r.action r.path := by
  unfold excluded
  rw [matchesPermission_eq_anyGrants]

theorem jwtDecide_isSome (o : Oracle) (tok : Bytes → TokInfo) (k : Nat) (r : Req) (t : Bytes) :
    (jwtDecide o tok k r t).isSome = specJwt o tok k r t := by
  unfold jwtDecide specJwt
  by_cases ht : t = []
  · simp [ht]
  · have hte : t.isEmpty = false := by simp [ht]
    simp only [ht, if_false, hte, Bool.not_false, Bool.true_and]
    cases (tok t).verdict k with
    | none => simp
    | some s =>
      cases decodeClaim (tok t).claim with
      | none => simp
      | some perms =>
        simp only [Option.isSome_some, Bool.true_and]
        rw [← matchesPermission_eq_anyGrants]
        cases matchesPermission o perms r.action r.path <;> simp

theorem jwtDecide_sub (o : Oracle) (tok : Bytes → TokInfo) (k : Nat) (r : Req) (t u : Bytes)
    (h : jwtDecide o tok k r t = some u) : (tok t).verdict k = some u := by
  unfold jwtDecide at h
  by_cases ht : t = []
  · simp [ht] at h
  · simp only [ht, if_false] at h
    cases hv : (tok t).verdict k with
    | none => rw [hv] at h; simp at h
    | some s =>
      rw [hv] at h
      cases hd : decodeClaim (tok t).claim with
      | none => rw [hd] at h; simp at h
      | some perms =>
        rw [hd] at h
        simp only at h
        split at h
        · exact congrArg some (Option.some.inj h)
        · cases h

theorem model_conforms (cfg : Cfg) (env : Env) (st : St) (r : Req) :
    specCheck cfg env (pull st env.served).2 r (authenticate cfg env st r).2 = none := by
  unfold specCheck specAdmit
  rw [excluded_eq, ← tokenOf_eq_spec]
  cases hm : cfg.method
  · -- http
    rw [auth_http_eq cfg env st r hm, authenticateHTTP_eq]
    cases hx : matchesPermission env.o cfg.excl r.action r.path
    · cases is2xx (env.authority (postOf r (tokenOf cfg env r))) <;> simp [mkOut, askOf]
    · simp [mkOut]
  · -- jwt
    rw [auth_jwt_eq cfg env st r hm]
    unfold authenticateJWT
    cases hx : matchesPermission env.o cfg.excl r.action r.path
    · cases hp : (pull st env.served).2 with
      | none => simp [mkOut, askOf]
      | some k =>
        simp only [← jwtDecide_isSome]
        cases hd : jwtDecide env.o env.tok k r (tokenOf cfg env r) with
        | none => simp [mkOut, askOf]
        | some u => simp [mkOut, jwtDecide_sub _ _ _ _ _ _ hd]
    · simp [mkOut]

/-! ### non-vacuity -/

section Examples

def exO : Oracle := ⟨fun _ _ => some false, fun _ => [], fun _ _ => false⟩

def exReq : Req :=
  { action := C01.aRead, path := asc ['c','a','m'], query := asc ['t','o','k','e','n','=','q'],
    proto := pRTSP, user := [], pass := [], token := [], enableAsk := true,
    ipStr := asc ['1','.','2','.','3','.','4'], userAgent := [], id := none }

def exTok : Bytes → TokInfo := fun t =>
  if t = asc ['q'] then
    ⟨fun k => if k = 1 then some (asc ['b','o','b']) else none,
     .present none (some (some [⟨C01.aRead, []⟩]))⟩
  else ⟨fun _ => none, .missing⟩

def exEnv (served : Served) (status : Nat) : Env :=
  ⟨exO, some ⟨[asc ['q']], []⟩, fun _ => .status status, exTok, served⟩

-- jwt: token from the query (RTSP), claim given as a string, key set 1 served: admitted as `bob`
example : (authenticate ⟨.jwt, [], false⟩ (exEnv (.keys 1) 0) {} exReq).2.out = .ok (asc ['b','o','b']) := by
  decide
-- same token but the endpoint serves key set 2: rejected; a token was supplied ⇒ no ask
example : (authenticate ⟨.jwt, [], false⟩ (exEnv (.keys 2) 0) {} exReq).2.out = .err false := by decide
-- stale keys: set 1 already loaded, endpoint now serves 2, no refresh ⇒ still admitted
example : (authenticate ⟨.jwt, [], false⟩ (exEnv (.keys 2) 0) ⟨false, 1⟩ exReq).2.out
    = .ok (asc ['b','o','b']) := by decide
-- http: 204 admits and the POST carries the query token; 300 rejects
example : (authenticate ⟨.http, [], false⟩ (exEnv .broken 204) {} exReq).2
    = ⟨.ok [], some (postOf exReq (asc ['q']))⟩ := by decide
example : (authenticate ⟨.http, [], false⟩ (exEnv .broken 300) {} exReq).2.out = .err false := by decide
-- excluded: admitted without contacting anyone
example : (authenticate ⟨.http, [⟨C01.aRead, []⟩], false⟩ (exEnv .broken 500) {} exReq).2 = ⟨.ok [], none⟩ := by
  decide
-- no credentials at all and asking allowed ⇒ ask
example : (authenticate ⟨.jwt, [], false⟩ (exEnv (.keys 1) 0) {} { exReq with query := [], proto := pHLS }).2.out
    = .err true := by decide

end Examples

end MtxVerif.C02
