/-
C27 — recordings are playable up to the last complete part at any crash point.  Property theorems.

(R) reader: `prefix_parts` — on ANY crash image (prefix at any byte offset, optionally followed by any number
    of zero bytes) of a file `hdr ++ part₁ … partₙ`, the moof/mdat scan of the playback server accepts exactly
    the parts whose moof box and mdat header lie inside the kept prefix; hence every complete part is counted
    (`complete_parts_counted`), nothing after the first incomplete part is (`accepted` is a prefix of the part
    list), and at most ONE counted part is incomplete (`overcount_at_most_one`: its moof is intact, its mdat
    payload is torn).  `moofLoop_eq_scan` links `scan` to the model of the real loop that C28 ties to the code.
(W) writer: by induction over arbitrary sample sequences — segment numbers of one instance are consecutive from
    0 (`numbers_consecutive`, hence `consecutive_concat`); the part being assembled in memory (= what a crash
    loses besides the torn tail) consists of samples ending less than `partDuration` after the part's start,
    plus at most one more sample (`unflushed_bound`); a closed segment's header holds its duration to the
    millisecond (`closed_duration`).
-/
import MtxVerif.Model.C27
import MtxVerif.Props.C28

namespace MtxVerif.C27

open MtxVerif.C28 (rd32 byteAt tagAt tMoof tMdat u32 moofLoop)

/-! ### bytes -/

theorem get?_mid (a b c : Bytes) (j : Nat) (h : j < b.length) : (a ++ b ++ c)[a.length + j]? = b[j]? := by
  rw [List.append_assoc, List.getElem?_append_right (by omega), List.getElem?_append_left (by omega)]
  congr 1; omega

theorem byteAt_eq (f : Bytes) (i : Nat) : byteAt f i = (f[i]?.getD 0).toNat := by
  simp [byteAt, List.getD_eq_getElem?_getD]

theorem rd32_congr (f g : Bytes) (p q : Nat) (h : ∀ j < 4, f[p + j]? = g[q + j]?) : rd32 f p = rd32 g q := by
  unfold rd32
  rw [byteAt_eq, byteAt_eq, byteAt_eq, byteAt_eq, byteAt_eq, byteAt_eq, byteAt_eq, byteAt_eq]
  have h0 := h 0 (by omega); have h1 := h 1 (by omega); have h2 := h 2 (by omega); have h3 := h 3 (by omega)
  simp only [Nat.add_zero] at h0
  rw [h0, h1, h2, h3]

theorem tagAt_get? (f : Bytes) (p j : Nat) (hj : j < 4) : (tagAt f p)[j]? = f[p + j]? := by
  simp [tagAt, List.getElem?_take, List.getElem?_drop, hj]

theorem tagAt_length_le (f : Bytes) (p : Nat) : (tagAt f p).length ≤ 4 := by
  simp [tagAt]; omega

theorem tagAt_eq_of (f : Bytes) (p : Nat) (t : Bytes) (ht : t.length = 4) (h : ∀ j < 4, f[p + j]? = t[j]?) :
    tagAt f p = t := by
  apply List.ext_getElem?
  intro j
  by_cases hj : j < 4
  · rw [tagAt_get? f p j hj]; exact h j hj
  · have h1 : (tagAt f p)[j]? = none := by
      apply List.getElem?_eq_none; have := tagAt_length_le f p; omega
    have h2 : t[j]? = none := by apply List.getElem?_eq_none; omega
    rw [h1, h2]

theorem be32_length (n : Nat) : (be32 n).length = 4 := rfl

theorem rd32_be32 (n : Nat) (h : n < u32) : rd32 (be32 n) 0 = n := by
  unfold rd32 byteAt be32
  simp only [List.getD_cons_zero, List.getD_cons_succ, Nat.zero_add]
  simp only [UInt8.toNat_ofNat']
  unfold u32 at h
  omega

/-! ### crash images -/

theorem image_length (F : Bytes) (k z : Nat) : (image F k z).length = min k F.length + z := by
  simp [image]

theorem image_lt (F : Bytes) (k z i : Nat) (hk : i < k) (hF : i < F.length) : (image F k z)[i]? = F[i]? := by
  unfold image
  rw [List.getElem?_append_left (by simp; omega), List.getElem?_take, if_pos hk]

theorem image_ge (F : Bytes) (k z i : Nat) (hk : k ≤ i) (hi : i < (image F k z).length) :
    (image F k z)[i]? = some 0 := by
  rw [image_length] at hi
  unfold image
  by_cases h : i < (F.take k).length
  · simp at h; omega
  · rw [List.getElem?_append_right (by omega), List.getElem?_replicate, if_pos]
    simp; omega

/-! ### one part -/

/-- the four header fields of the first part of `pre ++ encPart p ++ tail` -/
theorem part_fields (pre tail : Bytes) (p : Part) :
    let F := pre ++ encPart p ++ tail
    (∀ j < 4, F[pre.length + j]? = (be32 (moofLen p))[j]?) ∧
    (∀ j < 4, F[pre.length + 4 + j]? = tMoof[j]?) ∧
    (∀ j < 4, F[pre.length + moofLen p + j]? = (be32 (p.mdat.length + 8))[j]?) ∧
    (∀ j < 4, F[pre.length + moofLen p + 4 + j]? = tMdat[j]?) := by
  intro F
  have e1 : F = pre ++ be32 (moofLen p) ++ (tMoof ++ p.moof ++ box tMdat p.mdat ++ tail) := by
    simp [F, encPart, box, moofLen, List.append_assoc]
  have e2 : F = (pre ++ be32 (moofLen p)) ++ tMoof ++ (p.moof ++ box tMdat p.mdat ++ tail) := by
    simp [F, encPart, box, moofLen, List.append_assoc]
  have e3 : F = (pre ++ box tMoof p.moof) ++ be32 (p.mdat.length + 8) ++ (tMdat ++ p.mdat ++ tail) := by
    simp [F, encPart, box, List.append_assoc]
  have e4 : F = (pre ++ box tMoof p.moof ++ be32 (p.mdat.length + 8)) ++ tMdat ++ (p.mdat ++ tail) := by
    simp [F, encPart, box, List.append_assoc]
  have l2 : (pre ++ be32 (moofLen p)).length = pre.length + 4 := by simp [be32_length]
  have l3 : (pre ++ box tMoof p.moof).length = pre.length + moofLen p := by
    simp [box, be32_length, moofLen, tMoof, asc]; omega
  have l4 : (pre ++ box tMoof p.moof ++ be32 (p.mdat.length + 8)).length = pre.length + moofLen p + 4 := by
    simp [box, be32_length, moofLen, tMoof, asc]; omega
  refine ⟨?_, ?_, ?_, ?_⟩
  · intro j hj; rw [e1]; exact get?_mid _ _ _ j (by simp [be32_length]; exact hj)
  · intro j hj; rw [e2, ← l2]; exact get?_mid _ _ _ j (by simp [tMoof, asc]; exact hj)
  · intro j hj; rw [e3, ← l3]; exact get?_mid _ _ _ j (by simp [be32_length]; exact hj)
  · intro j hj; rw [e4, ← l4]; exact get?_mid _ _ _ j (by simp [tMdat, asc]; exact hj)

theorem encPart_length (p : Part) : (encPart p).length = partLen p := by
  simp [encPart, box, be32_length, partLen, tMoof, tMdat, asc]; omega

theorem rd32_of_be32 (f : Bytes) (q n : Nat) (hn : n < u32) (h : ∀ j < 4, f[q + j]? = (be32 n)[j]?) :
    rd32 f q = n := by
  rw [rd32_congr f (be32 n) q 0 (by intro j hj; rw [h j hj]; simp)]
  exact rd32_be32 n hn

theorem tMoof_last : tMoof[3]? = some 102 := by decide
theorem tMdat_last : tMdat[3]? = some 116 := by decide

/-- if the byte at `q+3` is zero the tag at `q` is neither "moof" nor "mdat" -/
theorem tag_ne_of_zero (f : Bytes) (q : Nat) (h : f[q + 3]? = some 0) : tagAt f q ≠ tMoof ∧ tagAt f q ≠ tMdat := by
  constructor
  · intro e
    have := tagAt_get? f q 3 (by omega)
    rw [e, tMoof_last, h] at this
    cases this
  · intro e
    have := tagAt_get? f q 3 (by omega)
    rw [e, tMdat_last, h] at this
    cases this

/-! ### prefix_parts -/

/-- **prefix_parts.**  For every header `pre`, every list of well-formed parts, every cut offset `k` and every
number `z` of zero bytes after the cut: the scan of the crash image accepts exactly the parts whose moof box and
mdat header lie within the first `k` bytes. -/
theorem prefix_parts : ∀ (ps : List Part) (pre : Bytes) (k z fuel : Nat), (∀ p ∈ ps, p.wf) →
    k < fuel + pre.length →
    scan (image (pre ++ encParts ps) k z) fuel pre.length = accepted pre.length k ps := by
  intro ps
  induction ps with
  | nil =>
    intro pre k z fuel _ hf
    cases fuel with
    | zero => simp [scan, accepted]
    | succ n =>
      simp only [encParts, List.append_nil, accepted]
      unfold scan
      split
      · rfl
      · rename_i hlen
        -- there is nothing but (part of) the header and zeros at `pre.length`
        have hi : pre.length + 4 + 3 < (image pre k z).length := by omega
        have hz : (image pre k z)[pre.length + 4 + 3]? = some 0 := by
          by_cases hk : k ≤ pre.length + 4 + 3
          · exact image_ge _ _ _ _ hk hi
          · rw [image_length] at hi
            -- k > pre.length + 7: the index is beyond `pre`, inside the zeros
            unfold image
            rw [List.getElem?_append_right (by simp; omega), List.getElem?_replicate, if_pos]
            · simp; omega
        have := (tag_ne_of_zero _ _ hz).1
        rw [if_pos (by simpa using this)]
  | cons p rest ih =>
    intro pre k z fuel hwf hf
    have hp := hwf p List.mem_cons_self
    cases fuel with
    | zero =>
      unfold accepted
      rw [if_neg (by omega)]
      rfl
    | succ n =>
      have hF : pre ++ encParts (p :: rest) = pre ++ encPart p ++ encParts rest := by
        simp [encParts, List.append_assoc]
      rw [hF]
      obtain ⟨f1, f2, f3, f4⟩ := part_fields pre (encParts rest) p
      generalize hFd : pre ++ encPart p ++ encParts rest = F at f1 f2 f3 f4
      have hFlen : F.length = pre.length + partLen p + (encParts rest).length := by
        rw [← hFd]; simp [encPart_length]; omega
      have hM : moofLen p < u32 := hp.1
      have hD : p.mdat.length + 8 < u32 := hp.2
      have hpl : partLen p = moofLen p + (p.mdat.length + 8) := rfl
      have hm8 : 8 ≤ moofLen p := by unfold moofLen; omega
      unfold scan accepted
      by_cases hacc : pre.length + moofLen p + 8 ≤ k
      · -- accepted: both headers are inside the kept prefix
        rw [if_pos hacc]
        have hlen : (image F k z).length ≥ pre.length + moofLen p + 8 := by rw [image_length]; omega
        rw [if_neg (by omega)]
        have t1 : tagAt (image F k z) (pre.length + 4) = tMoof :=
          tagAt_eq_of _ _ _ rfl (fun j hj => by rw [image_lt F k z _ (by omega) (by omega)]; exact f2 j hj)
        rw [if_neg (by simp [t1])]
        have r1 : rd32 (image F k z) pre.length = moofLen p :=
          rd32_of_be32 _ _ _ hM (fun j hj => by rw [image_lt F k z _ (by omega) (by omega)]; exact f1 j hj)
        simp only [r1]
        rw [if_neg (by omega)]
        have t2 : tagAt (image F k z) (pre.length + moofLen p + 4) = tMdat :=
          tagAt_eq_of _ _ _ rfl (fun j hj => by rw [image_lt F k z _ (by omega) (by omega)]; exact f4 j hj)
        rw [if_neg (by simp [t2])]
        have r2 : rd32 (image F k z) (pre.length + moofLen p) = p.mdat.length + 8 :=
          rd32_of_be32 _ _ _ hD (fun j hj => by rw [image_lt F k z _ (by omega) (by omega)]; exact f3 j hj)
        rw [r2]
        have hpre : pre.length + moofLen p + (p.mdat.length + 8) = (pre ++ encPart p).length := by
          simp [encPart_length]; omega
        have hoff : pre.length + partLen p = (pre ++ encPart p).length := by simp [encPart_length]
        rw [hpre, hoff, ← hFd]
        congr 1
        exact ih (pre ++ encPart p) k z n (fun q hq => hwf q (List.mem_cons_of_mem _ hq))
          (by simp [encPart_length]; unfold partLen; omega)
      · -- rejected: one of the two headers is cut
        rw [if_neg hacc]
        by_cases hl1 : (image F k z).length < pre.length + 8
        · rw [if_pos hl1]
        · rw [if_neg hl1]
          by_cases hk8 : pre.length + 8 ≤ k
          · -- moof header intact, mdat header cut
            have t1 : tagAt (image F k z) (pre.length + 4) = tMoof :=
              tagAt_eq_of _ _ _ rfl (fun j hj => by rw [image_lt F k z _ (by omega) (by omega)]; exact f2 j hj)
            rw [if_neg (by simp [t1])]
            have r1 : rd32 (image F k z) pre.length = moofLen p :=
              rd32_of_be32 _ _ _ hM (fun j hj => by rw [image_lt F k z _ (by omega) (by omega)]; exact f1 j hj)
            simp only [r1]
            by_cases hl2 : (image F k z).length < pre.length + moofLen p + 8
            · rw [if_pos hl2]
            · rw [if_neg hl2]
              have hz : (image F k z)[pre.length + moofLen p + 4 + 3]? = some 0 :=
                image_ge _ _ _ _ (by omega) (by omega)
              have := (tag_ne_of_zero _ _ hz).2
              rw [if_pos (by simpa using this)]
          · -- moof header cut
            have hz : (image F k z)[pre.length + 4 + 3]? = some 0 := image_ge _ _ _ _ (by omega) (by omega)
            have := (tag_ne_of_zero _ _ hz).1
            rw [if_pos (by simpa using this)]

/-! ### corollaries -/

/-- `complete` (parts entirely inside the prefix) is a prefix of `accepted`: every complete part is counted -/
theorem complete_parts_counted : ∀ (ps : List Part) (off k : Nat),
    complete off k ps <+: accepted off k ps := by
  intro ps
  induction ps with
  | nil => intro off k; simp [complete, accepted]
  | cons p r ih =>
    intro off k
    unfold complete accepted
    by_cases hc : off + partLen p ≤ k
    · have : off + moofLen p + 8 ≤ k := by unfold partLen at hc; unfold moofLen; omega
      rw [if_pos hc, if_pos this]
      exact List.prefix_cons_inj _ |>.mpr (ih _ _)
    · rw [if_neg hc]; exact List.nil_prefix

/-- at most one counted part is not complete (and it is the last counted one) -/
theorem overcount_at_most_one : ∀ (ps : List Part) (off k : Nat),
    (accepted off k ps).length ≤ (complete off k ps).length + 1 := by
  intro ps
  induction ps with
  | nil => intro off k; simp [complete, accepted]
  | cons p r ih =>
    intro off k
    unfold complete accepted
    by_cases ha : off + moofLen p + 8 ≤ k
    · rw [if_pos ha]
      by_cases hc : off + partLen p ≤ k
      · rw [if_pos hc]; simp; exact ih _ _
      · rw [if_neg hc]
        -- the next part starts beyond k: nothing more is accepted
        have : accepted (off + partLen p) k r = [] := by
          cases r with
          | nil => rfl
          | cons q r' => unfold accepted; rw [if_neg (by omega)]
        simp [this]
    · rw [if_neg ha]; simp

/-- the file cut at its very end (or not cut at all): every part is counted -/
theorem whole_file_all_parts : ∀ (ps : List Part) (off k : Nat),
    off + (encParts ps).length ≤ k → (accepted off k ps).length = ps.length := by
  intro ps
  induction ps with
  | nil => intro off k _; rfl
  | cons p r ih =>
    intro off k h
    have hl : (encParts (p :: r)).length = partLen p + (encParts r).length := by
      simp [encParts, encPart_length]
    unfold accepted
    rw [if_pos (by unfold partLen at hl; unfold moofLen; omega)]
    simp
    exact ih _ _ (by omega)

/-! ### link to the model of the real loop (C28.moofLoop, tied to the code by C28's harness) -/

theorem moofLoop_eq_scan (f : Bytes) : ∀ (fuel pos : Nat) (last : Option Nat),
    moofLoop f fuel pos last ≠ none →
    moofLoop f fuel pos last = some (((scan f fuel pos).getLast?).or last) := by
  intro fuel
  induction fuel with
  | zero => intro pos last h; simp [moofLoop] at h
  | succ n ih =>
    intro pos last h
    unfold moofLoop at h ⊢
    unfold scan
    split
    · simp
    · split
      · simp
      · simp only []
        split
        · simp
        · split
          · simp
          · rename_i h1 h2 h3 h4
            simp only [h1, h2, h3, h4, if_false] at h
            rw [ih _ _ h]
            congr 1
            cases hs : scan f n (pos + rd32 f pos + rd32 f (pos + rd32 f pos)) with
            | nil => simp
            | cons a l =>
              rw [List.getLast?_cons_cons]
              cases hl : (a :: l).getLast? with
              | none => simp at hl
              | some v => simp

/-- **What the real duration loop selects on a crash image**: the last part whose moof and mdat header survived
(`none` = "no moof boxes found").  Combines `prefix_parts` with the model of the loop that C28 ties to the code
and its termination proof. -/
theorem reader_selects_last_accepted (ps : List Part) (pre : Bytes) (k z : Nat) (hwf : ∀ p ∈ ps, p.wf)
    (hk : k ≤ (pre ++ encParts ps).length) :
    moofLoop (image (pre ++ encParts ps) k z) ((image (pre ++ encParts ps) k z).length + 1) pre.length none
      = some ((accepted pre.length k ps).getLast?) := by
  have hnh := C28.moofLoop_no_hang (image (pre ++ encParts ps) k z)
    ((image (pre ++ encParts ps) k z).length + 1) pre.length none (by omega) (by omega)
  rw [moofLoop_eq_scan _ _ _ _ hnh, prefix_parts ps pre k z _ hwf (by rw [image_length]; omega)]
  simp

/-! ### (W) writer invariants -/

/-- in-memory part: everything but the sample written last ended less than `partDur` after the part's start -/
def PartBound (c : Cfg) (p : PartSt) : Prop :=
  ∃ (initl : List WS) (lastw : WS), p.all = initl ++ [lastw] ∧
    (∀ w ∈ initl, w.fin - p.start < c.partDur) ∧ (∀ w ∈ p.all, w.fin ≤ p.fin)

theorem addToPart_all (p : PartSt) (w : WS) (b : Nat) : (addToPart p w b).all = p.all ++ [w] := by
  unfold addToPart; rfl

theorem addToPart_fin (p : PartSt) (w : WS) (b : Nat) : (addToPart p w b).fin = max p.fin w.fin := by
  unfold addToPart; rfl

theorem addToPart_start (p : PartSt) (w : WS) (b : Nat) : (addToPart p w b).start = p.start := by
  unfold addToPart; rfl

theorem partBound_fresh (c : Cfg) (w : WS) (b : Nat) : PartBound c (addToPart ⟨w.dts, 0, [], []⟩ w b) := by
  refine ⟨[], w, by simp [addToPart_all], by simp, ?_⟩
  intro x hx
  rw [addToPart_all] at hx
  simp at hx; subst hx
  rw [addToPart_fin]; exact Nat.le_max_right _ _

/-- **loss bound** (one step): after `formatFMP4Segment.write`, the part still in memory satisfies `PartBound` -/
theorem segWrite_bound (c : Cfg) (sg : SegSt) (w : WS) (rate : Nat)
    (h : ∀ p, sg.cur = some p → PartBound c p) :
    ∀ p, (segWrite c sg w rate).cur = some p → PartBound c p := by
  intro p hp
  unfold segWrite at hp
  simp only [] at hp
  split at hp
  · simp at hp; subst hp; exact partBound_fresh c w _
  · rename_i q hq
    have hq' : sg.cur = some q := hq
    obtain ⟨il, lw, e1, e2, e3⟩ := h q hq'
    split at hp
    · simp at hp; subst hp; exact partBound_fresh c w _
    · rename_i hdur
      simp at hp; subst hp
      refine ⟨q.all, w, by rw [addToPart_all], ?_, ?_⟩
      · intro x hx
        rw [addToPart_start]
        have := e3 x hx
        omega
      · intro x hx
        rw [addToPart_all] at hx
        rw [addToPart_fin]
        rcases List.mem_append.mp hx with hx | hx
        · have := e3 x hx; omega
        · simp at hx; subst hx; exact Nat.le_max_right _ _

/-- state invariant of the writer -/
structure Inv (c : Cfg) (s : St) : Prop where
  /-- numbers of the files written so far are 0,1,2,… -/
  nums : s.files.map (·.number) = List.range s.files.length
  /-- the open segment carries the next number, and `nextNumber` is one ahead -/
  segNum : ∀ sg, s.seg = some sg → sg.number = s.files.length ∧ s.nextNumber = s.files.length + 1
  noSeg : s.seg = none → s.closed = false → s.nextNumber = s.files.length
  /-- the open segment has written something unless it has just been created by a switch -/
  bound : ∀ sg p, s.seg = some sg → sg.cur = some p → PartBound c p

theorem segClose_number (sg : SegSt) (f : FileSt) (h : segClose sg = some f) : f.number = sg.number := by
  unfold segClose at h
  split at h
  · cases h
  · injection h with h; rw [← h]

theorem segClose_some_of_cur (sg : SegSt) (p : PartSt) (h : sg.cur = some p) : ∃ f, segClose sg = some f := by
  unfold segClose segParts
  rw [h]
  simp

theorem segWrite_cur_some (c : Cfg) (sg : SegSt) (w : WS) (rate : Nat) :
    ∃ p, (segWrite c sg w rate).cur = some p := by
  unfold segWrite
  simp only []
  split
  · exact ⟨_, rfl⟩
  · split <;> exact ⟨_, rfl⟩

theorem segWrite_number (c : Cfg) (sg : SegSt) (w : WS) (rate : Nat) :
    (segWrite c sg w rate).number = sg.number := by
  unfold segWrite
  simp only []
  split
  · rfl
  · split <;> rfl

theorem range_succ_map (l : List FileSt) (f : FileSt) (h : l.map (·.number) = List.range l.length)
    (hf : f.number = l.length) : (l ++ [f]).map (·.number) = List.range (l ++ [f]).length := by
  simp [List.range_succ, h, hf]

theorem init_inv (c : Cfg) : Inv c (init c) :=
  ⟨by simp [init], by intro sg h; simp [init] at h, by intro _ _; simp [init], by intro sg p h; simp [init] at h⟩

/-- closing the instance keeps the numbering -/
theorem closeInst_nums (c : Cfg) (s : St) (h : Inv c s) :
    (closeInst s).files.map (·.number) = List.range (closeInst s).files.length ∧ (closeInst s).seg = none ∧
    (closeInst s).closed = true := by
  unfold closeInst
  split
  · exact ⟨h.nums, by assumption, rfl⟩
  · rename_i sg hseg
    refine ⟨?_, rfl, rfl⟩
    cases hc : segClose sg with
    | none => simpa [hc] using h.nums
    | some f =>
      have hf := segClose_number sg f hc
      have := (h.segNum sg hseg).1
      simpa [hc] using range_succ_map s.files f h.nums (by omega)

theorem curSeg_facts (c : Cfg) (s : St) (h : Inv c s) (hcl : s.closed = false) (dts : Nat) (ntp : Int) :
    (curSeg s dts ntp).number = s.files.length ∧ curNext s = s.files.length + 1 ∧
    (∀ p, (curSeg s dts ntp).cur = some p → PartBound c p) := by
  unfold curSeg curNext
  cases hs : s.seg with
  | none =>
    have := h.noSeg hs hcl
    exact ⟨by simp [freshSeg, this], by simp [this], by intro p e; simp [freshSeg] at e⟩
  | some sg0 =>
    exact ⟨(h.segNum sg0 hs).1, (h.segNum sg0 hs).2, fun p e => h.bound sg0 p hs e⟩

/-- **one write preserves the invariant** (every branch of formatFMP4Track.write) -/
theorem write_inv (c : Cfg) (s : St) (x : In) (h : Inv c s) : Inv c (write c s x) := by
  unfold write
  split
  · exact h
  · rename_i hclosed
    have hcl : s.closed = false := by simpa using hclosed
    split
    · -- first sample of the track: only stored
      exact ⟨h.nums, h.segNum, h.noSeg, h.bound⟩
    · rename_i smp hsmp
      simp only []
      split
      · -- drift error: the instance closes
        have hinv1 : Inv c { s with hasVideo := s.hasVideo || isVideo c x.track,
                                    pend := s.pend.set x.track (some (adjNext x smp)),
                                    startI := newStartI s x.track (mkWS c x smp).dts smp.ntp } :=
          ⟨h.nums, h.segNum, h.noSeg, h.bound⟩
        have := closeInst_nums c _ hinv1
        refine ⟨this.1, ?_, ?_, ?_⟩
        · intro sg e; rw [this.2.1] at e; cases e
        · intro _ e; rw [this.2.2] at e; cases e
        · intro sg p e; rw [this.2.1] at e; cases e
      · have F := curSeg_facts c s h hcl (mkWS c x smp).dts smp.ntp
        split
        · -- late sample discarded
          refine ⟨h.nums, ?_, by intro e; simp at e, ?_⟩
          · intro sg' e; simp at e; subst e; exact ⟨F.1, F.2.1⟩
          · intro sg' p e; simp at e; subst e; exact F.2.2 p
        · split
          · -- segment switch: the segment just written into is closed, it has a file
            obtain ⟨p, hp⟩ := segWrite_cur_some c (curSeg s (mkWS c x smp).dts smp.ntp) (mkWS c x smp) (rateOf c x.track)
            obtain ⟨f, hc⟩ := segClose_some_of_cur _ p hp
            have hf := segClose_number _ f hc
            rw [segWrite_number] at hf
            refine ⟨?_, ?_, by intro e; simp at e, ?_⟩
            · simpa [hc] using range_succ_map s.files f h.nums (by omega)
            · intro sg' e
              simp at e; subst e
              simp [hc, freshSeg]; omega
            · intro sg' p' e e2
              simp at e; subst e
              simp [freshSeg] at e2
          · -- ordinary write
            refine ⟨h.nums, ?_, by intro e; simp at e, ?_⟩
            · intro sg' e; simp at e; subst e
              rw [segWrite_number]; exact ⟨F.1, F.2.1⟩
            · intro sg' p e e2
              simp at e; subst e
              exact segWrite_bound c _ _ _ F.2.2 p e2

theorem run_inv (c : Cfg) : ∀ (l : List In) (s : St), Inv c s → Inv c (run c s l) := by
  intro l
  induction l with
  | nil => intro s h; exact h
  | cons x r ih => intro s h; exact ih _ (write_inv c s x h)

theorem close_files_nums (c : Cfg) (s : St) (h : Inv c s) :
    (close s).files.map (·.number) = List.range (close s).files.length := by
  unfold close
  split
  · exact h.nums
  · exact (closeInst_nums c s h).1

/-- **Segment numbers**: for every sample sequence, at every moment (crash) and after a normal close, the
files of one recorder instance are numbered 0,1,2,… in creation order. -/
theorem numbers_consecutive (c : Cfg) (l : List In) :
    (close (run c (init c) l)).files.map (·.number) = List.range (close (run c (init c) l)).files.length ∧
    (crash (run c (init c) l)).map (·.number) = List.range (crash (run c (init c) l)).length := by
  have hi := run_inv c l (init c) (init_inv c)
  refine ⟨close_files_nums c _ hi, ?_⟩
  unfold crash
  split
  · exact hi.nums
  · rename_i sg hseg
    unfold segCrash
    split
    · simpa using hi.nums
    · have := (hi.segNum sg hseg).1
      simpa using range_succ_map _ ⟨sg.number, sg.startDTS, sg.startNTP, 0, sg.flushed, sg.trigger, 0⟩ hi.nums (by simpa using this)

/-- hence consecutive files of one instance are recognised as continuous by the playback server
(segmentFMP4CanBeConcatenated: same stream id, number + 1) -/
theorem consecutive_concat (sid n i : Nat) (hi : i + 1 < n) :
    canConcat sid ((List.range n)[i]'(by simp; omega)) sid ((List.range n)[i + 1]'(by simp; omega)) = true := by
  simp [canConcat]

/-- and files of different instances never are -/
theorem different_instance_no_concat (s1 s2 n1 n2 : Nat) (h : s1 ≠ s2) : canConcat s1 n1 s2 n2 = false := by
  simp [canConcat, h]

/-- **Loss bound**: at every moment of every recording, the part that exists only in memory consists of samples
that ended less than `partDuration` after the part's start, plus at most one more sample. -/
theorem unflushed_bound (c : Cfg) (l : List In) (sg : SegSt) (p : PartSt)
    (h1 : (run c (init c) l).seg = some sg) (h2 : sg.cur = some p) : PartBound c p :=
  (run_inv c l (init c) (init_inv c)).bound sg p h1 h2

/-- **Closed duration**: what the playback server reads back from a closed header is the segment's duration
`d = endDTS - startDTS` rounded down to the millisecond (for d < 2^32 ms ≈ 49 days). -/
theorem closed_duration (d : Nat) (h : d / 1000000 < u32) :
    readHdr ((d / 1000000) % u32) ≤ d ∧ d < readHdr ((d / 1000000) % u32) + 1000000 := by
  rw [Nat.mod_eq_of_lt h]
  unfold readHdr
  omega

/-! ### "segments begin with a random-access sample when the stream has video" -/

def OneVideo (c : Cfg) : Prop := ∀ a b, isVideo c a = true → isVideo c b = true → a = b

def pendSync (s : St) (V : Nat) : Prop := ∀ p, s.pend.getD V none = some p → p.nonSync = false

def firstSync (l : List WS) (V : Nat) : Prop := ∀ w, l.find? (fun w => w.track == V) = some w → w.nonSync = false

/-- the clause as the property words it, for every recording (gate + writer), at normal termination -/
def starts_with_sync_full : Prop :=
  ∀ (c : Cfg) (l : List In), ∀ f ∈ (close (grun c (init c) l)).files, fileSync c f = true

structure Good (c : Cfg) (s : St) : Prop where
  files : ∀ f ∈ s.files, fileSync c f = true
  seg : ∀ sg, s.seg = some sg → ∀ V, isVideo c V = true →
    firstSync (segSamples sg) V ∧ (segHas sg V = false → pendSync s V)
  noseg : s.seg = none → s.closed = false → ∀ V, isVideo c V = true → pendSync s V
  nov : s.hasVideo = false → ∀ V, isVideo c V = true → s.pend.getD V none = none

theorem fileSync_of (c : Cfg) (f : FileSt) (h : ∀ V, isVideo c V = true → firstSync (f.parts.flatMap (·.all)) V) :
    fileSync c f = true := by
  unfold fileSync
  rw [List.all_eq_true]
  intro V _
  cases hv : isVideo c V with
  | false => simp
  | true =>
    simp only [Bool.not_true, Bool.false_or]
    have := h V hv
    unfold firstOf
    cases hf : (f.parts.flatMap (·.all)).find? (fun w => w.track == V) with
    | none => rfl
    | some w => simp [this w hf]

theorem segSamples_segWrite (c : Cfg) (sg : SegSt) (w : WS) (rate : Nat) :
    segSamples (segWrite c sg w rate) = segSamples sg ++ [w] := by
  unfold segWrite
  simp only []
  cases hc : sg.cur with
  | none => simp [segSamples, segParts, hc, addToPart_all]
  | some p =>
    simp only []
    by_cases hd : p.fin - p.start ≥ c.partDur
    · rw [if_pos hd]; simp [segSamples, segParts, hc, addToPart_all]
    · rw [if_neg hd]; simp [segSamples, segParts, hc, addToPart_all]

theorem firstSync_nil (V : Nat) : firstSync [] V := by intro w h; simp at h

theorem firstSync_append (l : List WS) (w : WS) (V : Nat) (h : firstSync l V)
    (hw : l.any (fun x => x.track == V) = false → w.track = V → w.nonSync = false) : firstSync (l ++ [w]) V := by
  intro x hx
  rw [List.find?_append] at hx
  cases hl : l.find? (fun w => w.track == V) with
  | some y => rw [hl] at hx; simp at hx; subst hx; exact h y hl
  | none =>
    rw [hl] at hx
    simp at hx
    have hany : l.any (fun x => x.track == V) = false := by
      rw [List.find?_eq_none] at hl
      rw [List.any_eq_false]
      intro y hy; simpa using hl y hy
    obtain ⟨h1, h2⟩ := hx
    subst h2
    exact hw hany h1

theorem segHas_segWrite (c : Cfg) (sg : SegSt) (w : WS) (rate : Nat) (V : Nat) :
    segHas (segWrite c sg w rate) V = (segHas sg V || (w.track == V)) := by
  unfold segHas
  rw [segSamples_segWrite]
  simp [List.any_append]

theorem getD_set_ne (l : List (Option In)) (i j : Nat) (v : Option In) (h : i ≠ j) :
    (l.set i v).getD j none = l.getD j none := by
  simp [List.getD_eq_getElem?_getD, List.getElem?_set, h]

theorem getD_set_self (l : List (Option In)) (i : Nat) (v : In) (p : In)
    (h : (l.set i (some v)).getD i none = some p) : p = v := by
  simp only [List.getD_eq_getElem?_getD, List.getElem?_set] at h
  by_cases hi : i < l.length
  · simp [hi] at h; exact h.symm
  · simp [hi] at h

theorem closeInst_hasVideo (s : St) : (closeInst s).hasVideo = s.hasVideo := by
  unfold closeInst; split <;> rfl

theorem closeInst_pend (s : St) : (closeInst s).pend = s.pend := by
  unfold closeInst; split <;> rfl

theorem freshSeg_samples (n d : Nat) (t : Int) (tr : Option Nat) : segSamples (freshSeg n d t tr) = [] := by
  simp [segSamples, segParts, freshSeg]

theorem segClose_parts (sg : SegSt) (f : FileSt) (h : segClose sg = some f) :
    f.parts.flatMap (·.all) = segSamples sg := by
  unfold segClose at h
  split at h
  · cases h
  · injection h with h; rw [← h]; rfl

theorem files_append_close (c : Cfg) (files : List FileSt) (sg : SegSt)
    (hf : ∀ f ∈ files, fileSync c f = true) (hs : ∀ V, isVideo c V = true → firstSync (segSamples sg) V) :
    ∀ f ∈ files ++ (segClose sg).toList, fileSync c f = true := by
  intro f hmem
  rcases List.mem_append.mp hmem with hmem | hmem
  · exact hf f hmem
  · cases hc : segClose sg with
    | none => rw [hc] at hmem; simp at hmem
    | some g =>
      rw [hc] at hmem; simp at hmem; subst hmem
      apply fileSync_of
      intro V hV
      rw [segClose_parts sg f hc]
      exact hs V hV

theorem closeInst_files (c : Cfg) (s : St) (hf : ∀ f ∈ s.files, fileSync c f = true)
    (hs : ∀ sg, s.seg = some sg → ∀ V, isVideo c V = true → firstSync (segSamples sg) V) :
    ∀ f ∈ (closeInst s).files, fileSync c f = true := by
  unfold closeInst
  split
  · exact hf
  · rename_i sg hseg
    exact files_append_close c s.files sg hf (hs sg hseg)

theorem curSeg_cases (s : St) (d : Nat) (n : Int) :
    (∃ sg0, s.seg = some sg0 ∧ curSeg s d n = sg0) ∨ (s.seg = none ∧ curSeg s d n = freshSeg s.nextNumber d n) := by
  unfold curSeg
  cases hs : s.seg with
  | none => exact Or.inr ⟨rfl, rfl⟩
  | some sg0 => exact Or.inl ⟨sg0, rfl, rfl⟩

theorem lateP_seg (s : St) (d : Nat) (h : lateP s d = true) : ∃ sg0, s.seg = some sg0 := by
  unfold lateP at h
  cases hs : s.seg with
  | none => rw [hs] at h; simp at h
  | some sg0 => exact ⟨sg0, rfl⟩

theorem mkWS_track (c : Cfg) (x smp : In) : (mkWS c x smp).track = x.track := rfl
theorem mkWS_nonSync (c : Cfg) (x smp : In) : (mkWS c x smp).nonSync = smp.nonSync := rfl

/-- **one write keeps `Good`**, provided it records no late discard of a video track's first sample -/
theorem write_good (c : Cfg) (hone : OneVideo c) (s : St) (x : In) (h : Good c s)
    (hx : isVideo c x.track = true → s.pend.getD x.track none = none → x.nonSync = false)
    (hnd : (write c s x).drops = []) (hd0 : s.drops = []) : Good c (write c s x) := by
  unfold write at hnd ⊢
  split
  · exact h
  · rename_i hclosed
    have hcl : s.closed = false := by simpa using hclosed
    rw [if_neg hclosed] at hnd
    split
    · -- first call for this track: the sample is only stored
      rename_i hnone
      have hpend : ∀ V, isVideo c V = true →
          ∀ p, (s.pend.set x.track (some x)).getD V none = some p → p.nonSync = false ∨ s.pend.getD V none = some p := by
        intro V hV p hp
        by_cases e : x.track = V
        · subst e
          have := getD_set_self _ _ _ _ hp
          subst this
          exact Or.inl (hx hV hnone)
        · rw [getD_set_ne _ _ _ _ e] at hp; exact Or.inr hp
      refine ⟨h.files, ?_, ?_, ?_⟩
      · intro sg hseg V hV
        have := h.seg sg hseg V hV
        refine ⟨this.1, fun hh p hp => ?_⟩
        rcases hpend V hV p hp with r | r
        · exact r
        · exact this.2 hh p r
      · intro hseg _ V hV p hp
        rcases hpend V hV p hp with r | r
        · exact r
        · exact h.noseg hseg hcl V hV p r
      · intro hhv V hV
        simp only [Bool.or_eq_false_iff] at hhv
        have e : x.track ≠ V := by intro e; subst e; rw [hV] at hhv; exact absurd hhv.2 (by simp)
        show (s.pend.set x.track (some x)).getD V none = none
        rw [getD_set_ne _ _ _ _ e]; exact h.nov hhv.1 V hV
    · rename_i smp hsmp
      rw [hsmp] at hnd
      simp only [] at hnd ⊢
      have hpendO : ∀ V, x.track ≠ V →
          (s.pend.set x.track (some (adjNext x smp))).getD V none = s.pend.getD V none :=
        fun V e => getD_set_ne _ _ _ _ e
      -- the segment written into, before the write
      have base : ∀ V, isVideo c V = true →
          firstSync (segSamples (curSeg s (mkWS c x smp).dts smp.ntp)) V ∧
          (segHas (curSeg s (mkWS c x smp).dts smp.ntp) V = false → pendSync s V) := by
        intro V hV
        rcases curSeg_cases s (mkWS c x smp).dts smp.ntp with ⟨sg0, h1, h2⟩ | ⟨h1, h2⟩
        · rw [h2]; exact h.seg sg0 h1 V hV
        · rw [h2, freshSeg_samples]
          exact ⟨firstSync_nil V, fun _ => h.noseg h1 hcl V hV⟩
      have hnov : (s.hasVideo || isVideo c x.track) = false → ∀ V, isVideo c V = true →
          (s.pend.set x.track (some (adjNext x smp))).getD V none = none := by
        intro hhv V hV
        simp only [Bool.or_eq_false_iff] at hhv
        have e : x.track ≠ V := by intro e; subst e; rw [hV] at hhv; exact absurd hhv.2 (by simp)
        rw [hpendO V e]; exact h.nov hhv.1 V hV
      -- the sample written is a random-access one if it is the first of its (video) track in the segment
      have hwsync : ∀ V, isVideo c V = true →
          (segSamples (curSeg s (mkWS c x smp).dts smp.ntp)).any (fun y => y.track == V) = false →
          (mkWS c x smp).track = V → (mkWS c x smp).nonSync = false := by
        intro V hV hany hT
        rw [mkWS_track] at hT
        subst hT
        exact (base _ hV).2 hany smp hsmp
      have afterW : ∀ V, isVideo c V = true →
          firstSync (segSamples (segWrite c (curSeg s (mkWS c x smp).dts smp.ntp) (mkWS c x smp) (rateOf c x.track))) V := by
        intro V hV
        rw [segSamples_segWrite]
        exact firstSync_append _ _ V (base V hV).1 (hwsync V hV)
      split
      · -- drift error: the instance closes
        refine ⟨?_, ?_, ?_, ?_⟩
        · exact closeInst_files c _ h.files (fun sg hseg V hV => (h.seg sg hseg V hV).1)
        · intro sg hseg
          exfalso
          unfold closeInst at hseg
          split at hseg <;> simp_all
        · intro _ hc
          exfalso
          unfold closeInst at hc
          split at hc <;> simp at hc
        · intro hhv V hV
          rw [closeInst_hasVideo] at hhv
          rw [closeInst_pend]
          exact hnov hhv V hV
      · rename_i hdrift
        rw [if_neg hdrift] at hnd
        split
        · -- late sample discarded
          rename_i hlate
          rw [if_pos hlate] at hnd
          obtain ⟨sg0, hs0⟩ := lateP_seg s _ hlate
          have hcur : curSeg s (mkWS c x smp).dts smp.ntp = sg0 := by unfold curSeg; rw [hs0]
          have hnodrop : ¬ (isVideo c x.track = true ∧ segHas sg0 x.track = false) := by
            intro hh
            simp only [hcur, hh.1, hh.2, Bool.not_false, Bool.and_self, if_true, hd0] at hnd
            simp at hnd
          refine ⟨h.files, ?_, by intro e; simp at e, ?_⟩
          · intro sg' e V hV
            simp at e; subst e
            rw [hcur]
            refine ⟨(h.seg sg0 hs0 V hV).1, fun hh p hp => ?_⟩
            by_cases e : x.track = V
            · subst e; exact absurd ⟨hV, hh⟩ hnodrop
            · have hp' : (s.pend.set x.track (some (adjNext x smp))).getD V none = some p := hp
              rw [hpendO V e] at hp'
              exact (h.seg sg0 hs0 V hV).2 hh p hp'
          · intro hhv V hV
            exact hnov hhv V hV
        · rename_i hlate
          split
          · -- segment switch
            rename_i hsw
            refine ⟨?_, ?_, by intro e; simp at e, ?_⟩
            · exact files_append_close c s.files _ h.files afterW
            · intro sg' e V hV
              simp at e; subst e
              rw [freshSeg_samples]
              refine ⟨firstSync_nil V, fun _ p hp => ?_⟩
              have hp' : (s.pend.set x.track (some (adjNext x smp))).getD V none = some p := hp
              unfold switchCond at hsw
              simp only [Bool.and_eq_true, Bool.or_eq_true, Bool.not_eq_true', decide_eq_true_eq] at hsw
              by_cases e : x.track = V
              · subst e
                have := getD_set_self _ _ _ _ hp'
                subst this
                exact hsw.1.2
              · rw [hpendO V e] at hp'
                rcases hsw.1.1 with hnv | hvT
                · have := hnov hnv V hV
                  rw [hpendO V e] at this
                  rw [this] at hp'; cases hp'
                · exact absurd (hone _ _ hvT hV) e
            · intro hhv V hV
              exact hnov hhv V hV
          · -- ordinary write
            refine ⟨h.files, ?_, by intro e; simp at e, ?_⟩
            · intro sg' e V hV
              simp at e; subst e
              refine ⟨afterW V hV, fun hh p hp => ?_⟩
              rw [segHas_segWrite] at hh
              simp only [Bool.or_eq_false_iff, mkWS_track] at hh
              have e : x.track ≠ V := by intro e; subst e; simp at hh
              have hp' : (s.pend.set x.track (some (adjNext x smp))).getD V none = some p := hp
              rw [hpendO V e] at hp'
              exact (base V hV).2 hh.1 p hp'
            · intro hhv V hV
              exact hnov hhv V hV

theorem write_drops_mono (c : Cfg) (s : St) (x : In) (h : (write c s x).drops = []) : s.drops = [] := by
  unfold write at h
  split at h
  · exact h
  · split at h
    · exact h
    · simp only [] at h
      split at h
      · unfold closeInst at h; split at h <;> exact h
      · split at h
        · simp only [] at h
          split at h
          · simp at h
          · exact h
        · split at h <;> exact h

theorem gwrite_good (c : Cfg) (hone : OneVideo c) (s : St) (x : In) (h : Good c s)
    (hnd : (gwrite c s x).drops = []) : Good c (gwrite c s x) ∧ s.drops = [] := by
  unfold gwrite at hnd ⊢
  by_cases hg : (isVideo c x.track && (s.pend.getD x.track none).isNone && x.nonSync) = true
  · rw [if_pos hg] at hnd ⊢
    exact ⟨h, hnd⟩
  · rw [if_neg hg] at hnd ⊢
    have hd0 := write_drops_mono c s x hnd
    refine ⟨write_good c hone s x h ?_ hnd hd0, hd0⟩
    intro hv hn
    simp only [hv, hn, Option.isNone_none, Bool.and_self, Bool.true_and, Bool.not_eq_true] at hg
    exact hg

theorem init_good (c : Cfg) : Good c (init c) := by
  refine ⟨by simp [init], by intro sg h; simp [init] at h, ?_, ?_⟩
  · intro _ _ V _ p hp
    simp [init, List.getD_eq_getElem?_getD] at hp
    by_cases hV : V < c.tracks.length <;> simp [hV] at hp
  · intro _ V _
    simp [init, List.getD_eq_getElem?_getD]
    by_cases hV : V < c.tracks.length <;> simp [hV]

theorem grun_good (c : Cfg) (hone : OneVideo c) : ∀ (l : List In) (s : St), Good c s →
    (grun c s l).drops = [] → Good c (grun c s l) := by
  intro l
  induction l with
  | nil => intro s h _; exact h
  | cons x r ih =>
    intro s h hnd
    have hmono : ∀ (l : List In) (t : St), (grun c t l).drops = [] → t.drops = [] := by
      intro l
      induction l with
      | nil => intro t ht; exact ht
      | cons y r' ih' =>
        intro t ht
        have := ih' (gwrite c t y) ht
        unfold gwrite at this
        split at this
        · exact this
        · exact write_drops_mono c t y this
    have h1 := hmono r (gwrite c s x) hnd
    exact ih _ (gwrite_good c hone s x h h1).1 hnd

theorem close_drops (s : St) : (close s).drops = s.drops := by
  unfold close closeInst
  split
  · rfl
  · split <;> rfl

/-- **starts_with_sync, where it holds**: one video track, and no video sample was discarded as "received too late"
while its track had nothing in the segment yet (`drops = []`, decidable on the history; it is implied by
"no track is ever more than 1 s ahead of the video track and the first key frame is not older than the segment"). -/
theorem starts_with_sync_partial (c : Cfg) (l : List In) (hone : OneVideo c)
    (hnd : (close (grun c (init c) l)).drops = []) :
    ∀ f ∈ (close (grun c (init c) l)).files, fileSync c f = true := by
  rw [close_drops] at hnd
  have hg := grun_good c hone l (init c) (init_good c) hnd
  unfold close
  split
  · exact hg.files
  · exact closeInst_files c _ hg.files (fun sg hseg V hV => (hg.seg sg hseg V hV).1)

/-! #### the clause is false in general: three concrete histories (each replayed on the real recorder by the
harness scenarios 6, 7, 8; times in ms at a 1 kHz clock) -/

def ms (t d : Nat) (ns : Bool) (id : Nat) : In := ⟨t, d, (d : Int) * 1000000, ns, id⟩

/-- two video tracks: the switch is triggered by track 0's key frame; track 1's pending frame is not one -/
def cfg2v : Cfg := ⟨[⟨true, 1000⟩, ⟨true, 1000⟩], 1000000000, 1000000000⟩
def hist2v : List In :=
  [ms 0 0 false 1, ms 1 0 false 2, ms 0 500 true 3, ms 1 600 true 4, ms 0 1000 false 5, ms 1 1100 true 6, ms 0 1500 true 7]

theorem sync_witness_second_video :
    (close (grun cfg2v (init cfg2v) hist2v)).files.map (fileSync cfg2v) = [true, false] ∧
    (close (grun cfg2v (init cfg2v) hist2v)).drops = [] := by decide

/-- one video track, audio 1.5 s ahead: nextSegmentStartingPos ignores the key frame (more than 1 s behind the
newest pending sample), the new segment starts at the audio sample, the key frame is "received too late" -/
def cfgva : Cfg := ⟨[⟨true, 1000⟩, ⟨false, 1000⟩], 1000000000, 1000000000⟩
def histAhead : List In :=
  [ms 0 0 false 1, ms 1 0 false 2, ms 0 500 true 3, ms 1 2500 false 4, ms 0 1000 false 5, ms 0 1500 true 6,
   ms 0 2600 true 7, ms 0 2700 true 8, ms 1 3000 false 9]

theorem sync_witness_audio_ahead :
    (close (grun cfgva (init cfgva) histAhead)).files.map (fileSync cfgva) = [true, false] ∧
    (close (grun cfgva (init cfgva) histAhead)).drops = [(1, 0), (1, 0)] := by decide

/-- first segment: audio opened it at 0.5 s, the first key frame carries 0.4 s -/
def histLate : List In :=
  [ms 1 500 false 1, ms 1 600 false 2, ms 0 400 false 3, ms 0 450 true 4, ms 0 520 true 5, ms 0 560 true 6]

theorem sync_witness_late_keyframe :
    (close (grun cfgva (init cfgva) histLate)).files.map (fileSync cfgva) = [false] ∧
    (close (grun cfgva (init cfgva) histLate)).drops = [(0, 0), (0, 0)] := by decide

theorem starts_with_sync_witness : ¬ starts_with_sync_full := by
  intro h
  have h1 := sync_witness_late_keyframe.1
  cases hf : (close (grun cfgva (init cfgva) histLate)).files with
  | nil => rw [hf] at h1; simp at h1
  | cons f r =>
    have := h cfgva histLate f (by rw [hf]; exact List.mem_cons_self)
    rw [hf] at h1
    simp at h1
    rw [this] at h1
    exact absurd h1.1 (by simp)

/-! #### file names -/

/-- "each segment on disk …": segments of one recording have distinct file names (start time to the µs) -/
def names_distinct_full : Prop :=
  ∀ (c : Cfg) (l : List In), ((close (grun c (init c) l)).files.map (fun f => f.startNTP / 1000)).Nodup

/-- segmentDuration 0.5 s, the audio track delivers one sample and stalls: every key frame closes the segment and
the next one starts again at the same pending audio sample -/
def cfgShort : Cfg := ⟨[⟨true, 1000⟩, ⟨false, 1000⟩], 500000000, 1000000000⟩
def histColl : List In := [ms 1 0 false 1, ⟨0, 0, 1000000, false, 2⟩, ms 0 600 false 3, ms 0 700 false 4, ms 0 800 false 5]

theorem name_collision_witness_value :
    (close (grun cfgShort (init cfgShort) histColl)).files.map (fun f => (f.number, f.startNTP / 1000)) =
      [(0, 1000), (1, 0), (2, 0)] := by decide

theorem names_distinct_witness : ¬ names_distinct_full := by
  intro h
  have := h cfgShort histColl
  revert this
  decide

/-! ### non-vacuity -/

def exParts : List Part := [⟨[1, 2, 3], [9]⟩, ⟨[4], [8, 8]⟩]

example : (pre : Bytes) = pre := rfl
example : accepted 2 1000 exParts = [2, 22] := by decide
example : accepted 2 20 exParts = [] := by decide          -- mdat header of part 1 ends at 21
example : accepted 2 21 exParts = [2] := by decide         -- moof + mdat header inside, payload torn: counted
example : complete 2 21 exParts = [] := by decide
example : scan (image ([7, 7] ++ encParts exParts) 21 5) 30 2 = [2] := by decide

end MtxVerif.C27
