import MtxVerif.Model.C27
namespace MtxVerif.C27
theorem placeholder : True := trivial
end MtxVerif.C27
