/-
C01 — internal authentication decides exactly per configured users.  Property theorems.
All statements hold for every oracle (regexp / sha256 / argon2 results) and every custom verifier.
-/
import MtxVerif.Model.C01

namespace MtxVerif.C01

/-! ### the property's wording as propositions -/

/-- "grants that action (for publish/read/playback: empty path, equal path, or a '~' regular
expression found in the path)".  The three path forms are the three forms of a *configured* path:
empty, `~`+regex, or a literal. -/
def Grants (o : Oracle) (perms : List Perm) (action path : Bytes) : Prop :=
  ∃ p ∈ perms, p.action = action ∧
    (isPathAction action = false ∨ p.path = [] ∨
     (∃ pat, p.path = tilde :: pat ∧ o.regexFind pat path = some true) ∨
     (p.path.head? ≠ some tilde ∧ p.path = path))

/-- a configured credential "matches" a supplied value (plain, sha256 or argon2; empty accepts all) -/
def Matches (o : Oracle) (d guess : Bytes) : Prop :=
  (∃ h, d = sha256Prefix ++ h ∧ h = o.sha256b64 guess) ∨
  (∃ e, d = argon2Prefix ++ e ∧ o.argon2ok guess e = true) ∨
  (¬ sha256Prefix <+: d ∧ ¬ argon2Prefix <+: d ∧ (d = [] ∨ d = guess))

/-- "matches the supplied username and password" — through the protocol's digest verifier if the
request carries one. -/
def CredsMatch (o : Oracle) (u : User) (r : Req) : Prop :=
  match r.custom with
  | some f => f u.user u.pass = true
  | none => Matches o u.user r.user ∧ Matches o u.pass r.pass

/-- one configured user entry admits the request -/
def Admits (o : Oracle) (r : Req) (u : User) : Prop :=
  (u.ips = [] ∨ ∃ n ∈ u.ips, ipnetContains n r.ip = true) ∧
  Grants o u.perms r.action r.path ∧
  (u.user = anyUser ∨ CredsMatch o u r)

/-! ### helper lemmas -/

theorem permMatches_iff (o : Oracle) (p : Perm) (a path : Bytes) :
    permMatches o p a path = true ↔
      (p.action = a ∧ (isPathAction a = false ∨ p.path = [] ∨
        (∃ pat, p.path = tilde :: pat ∧ o.regexFind pat path = some true) ∨
        (p.path.head? ≠ some tilde ∧ p.path = path))) := by
  unfold permMatches
  by_cases ha : p.action = a
  · subst ha
    simp only [if_true, true_and]
    cases hpa : isPathAction p.action
    · simp
    · simp only [if_true, Bool.true_eq_false, false_or]
      cases hp : p.path with
      | nil => simp
      | cons c pat =>
        simp only [List.cons_ne_nil, false_or, List.head?_cons, Option.some.injEq, ne_eq]
        by_cases hc : c = tilde
        · subst hc
          simp only [if_true, List.cons.injEq, true_and, not_true_eq_false, false_and, or_false,
            exists_eq_left']
          cases o.regexFind pat path with
          | none => simp
          | some b => cases b <;> simp
        · simp only [hc, if_false, List.cons.injEq, false_and, exists_false, not_false_eq_true,
            true_and, false_or, decide_eq_true_eq]
  · simp [ha]

theorem matchesPermission_iff (o : Oracle) (perms : List Perm) (a path : Bytes) :
    matchesPermission o perms a path = true ↔ Grants o perms a path := by
  unfold Grants
  induction perms with
  | nil => simp [matchesPermission]
  | cons p ps ih =>
    unfold matchesPermission
    by_cases h : permMatches o p a path = true
    · simp only [h, if_true, true_iff]
      exact ⟨p, List.mem_cons_self, (permMatches_iff o p a path).mp h⟩
    · simp only [h, Bool.false_eq_true, if_false, ih]
      constructor
      · rintro ⟨q, hq, hh⟩
        exact ⟨q, List.mem_cons_of_mem _ hq, hh⟩
      · rintro ⟨q, hq, hh⟩
        rcases List.mem_cons.mp hq with rfl | hq
        · exact absurd ((permMatches_iff o q a path).mpr hh) h
        · exact ⟨q, hq, hh⟩

theorem matchesPermission_eq_any (o : Oracle) (perms : List Perm) (a path : Bytes) :
    matchesPermission o perms a path = perms.any (permMatches o · a path) := by
  induction perms with
  | nil => rfl
  | cons p ps ih =>
    unfold matchesPermission
    cases h : permMatches o p a path <;> simp [h, ih]

theorem prefix7 {p d : Bytes} (hp : p.length = 7) :
    p.isPrefixOf d = true ↔ d = p ++ d.drop 7 := by
  rw [List.isPrefixOf_iff_prefix]
  constructor
  · rintro ⟨t, rfl⟩
    rw [← hp, List.drop_left]
  · intro h
    exact ⟨d.drop 7, h.symm⟩

theorem prefixes_disjoint (d : Bytes) : ¬ (sha256Prefix <+: d ∧ argon2Prefix <+: d) := by
  rintro ⟨⟨t, rfl⟩, ⟨t', h⟩⟩
  have := congrArg List.head? h
  simp [sha256Prefix, argon2Prefix, asc] at this

theorem credCheck_iff (o : Oracle) (d g : Bytes) : credCheck o d g = true ↔ Matches o d g := by
  unfold credCheck Matches
  by_cases hs : sha256Prefix.isPrefixOf d = true
  · have hd := (prefix7 (p := sha256Prefix) (by decide)).mp hs
    have hpre : sha256Prefix <+: d := List.isPrefixOf_iff_prefix.mp hs
    simp only [hs, if_true, beq_iff_eq]
    constructor
    · intro h
      exact Or.inl ⟨d.drop 7, hd, h⟩
    · rintro (⟨h, hd', hh⟩ | ⟨e, hd', _⟩ | ⟨hn, _⟩)
      · rw [hd', ← (by decide : sha256Prefix.length = 7), List.drop_left]; exact hh
      · exact absurd ⟨hpre, ⟨e, hd'.symm⟩⟩ (prefixes_disjoint d)
      · exact absurd hpre hn
  · have hns : ¬ sha256Prefix <+: d := fun h => hs (List.isPrefixOf_iff_prefix.mpr h)
    simp only [hs, Bool.false_eq_true, if_false]
    by_cases ha : argon2Prefix.isPrefixOf d = true
    · have hd := (prefix7 (p := argon2Prefix) (by decide)).mp ha
      have hpre : argon2Prefix <+: d := List.isPrefixOf_iff_prefix.mp ha
      simp only [ha, if_true]
      constructor
      · intro h
        exact Or.inr (Or.inl ⟨d.drop 7, hd, h⟩)
      · rintro (⟨h, hd', _⟩ | ⟨e, hd', hh⟩ | ⟨_, hn, _⟩)
        · exact absurd ⟨h, hd'.symm⟩ hns
        · rw [hd', ← (by decide : argon2Prefix.length = 7), List.drop_left]; exact hh
        · exact absurd hpre hn
    · have hna : ¬ argon2Prefix <+: d := fun h => ha (List.isPrefixOf_iff_prefix.mpr h)
      simp only [ha, Bool.false_eq_true, if_false]
      constructor
      · intro h
        refine Or.inr (Or.inr ⟨hns, hna, ?_⟩)
        by_cases hd : d = []
        · exact Or.inl hd
        · simp only [ne_eq, hd, not_false_eq_true, if_true, beq_iff_eq] at h
          exact Or.inr h
      · rintro (⟨h, hd', _⟩ | ⟨e, hd', _⟩ | ⟨_, _, hd | hd⟩)
        · exact absurd ⟨h, hd'.symm⟩ hns
        · exact absurd ⟨e, hd'.symm⟩ hna
        · simp [hd]
        · by_cases hd0 : d = []
          · simp [hd0]
          · simp [hd]

/-- for a non-empty configured credential (config validation rejects empty user names) "matches" has
no accept-anything case: it is the hash comparison or byte equality.  For the empty credential it
accepts every supplied value — for user names too, not only for passwords (mirrored quirk). -/
theorem matches_nonempty (o : Oracle) (d g : Bytes) (hd : d ≠ []) :
    Matches o d g ↔
      ((∃ h, d = sha256Prefix ++ h ∧ h = o.sha256b64 g) ∨
       (∃ e, d = argon2Prefix ++ e ∧ o.argon2ok g e = true) ∨
       (¬ sha256Prefix <+: d ∧ ¬ argon2Prefix <+: d ∧ d = g)) := by
  unfold Matches
  simp [hd]

theorem matches_empty (o : Oracle) (g : Bytes) : Matches o [] g := by
  refine Or.inr (Or.inr ⟨?_, ?_, Or.inl rfl⟩) <;> simp [sha256Prefix, argon2Prefix, asc]

theorem ipsContain_iff (ns : List IPNet) (ip : Bytes) :
    ipsContain ns ip = true ↔ ∃ n ∈ ns, ipnetContains n ip = true := by
  induction ns with
  | nil => simp [ipsContain]
  | cons n ns ih =>
    unfold ipsContain
    by_cases h : ipnetContains n ip = true
    · simp [h]
    · simp [h, ih]

theorem credsOK_iff (o : Oracle) (u : User) (r : Req) : credsOK o u r = true ↔ CredsMatch o u r := by
  unfold credsOK CredsMatch
  cases r.custom with
  | some f => simp
  | none => simp [credCheck_iff]

theorem authWithUser_iff (o : Oracle) (r : Req) (u : User) :
    authWithUser o r u = true ↔ Admits o r u := by
  unfold authWithUser Admits
  rw [← matchesPermission_iff, ← credsOK_iff, ← ipsContain_iff]
  cases hips : u.ips with
  | nil =>
    simp only [List.length_nil, ne_eq, not_true_eq_false, false_and, if_false, true_or, true_and]
    cases matchesPermission o u.perms r.action r.path
    · simp
    · by_cases hu : u.user = anyUser <;> simp [hu]
  | cons n ns =>
    simp only [List.length_cons, ne_eq, Nat.add_one_ne_zero, not_false_eq_true, true_and,
      List.cons_ne_nil, false_or]
    cases ipsContain (n :: ns) r.ip
    · simp
    · simp only [Bool.true_eq_false, if_false, true_and]
      cases matchesPermission o u.perms r.action r.path
      · simp
      · by_cases hu : u.user = anyUser <;> simp [hu]

theorem authInternal_iff (o : Oracle) (r : Req) (us : List User) :
    authInternal o r us = true ↔ ∃ u ∈ us, authWithUser o r u = true := by
  induction us with
  | nil => simp [authInternal]
  | cons u us ih =>
    unfold authInternal
    by_cases h : authWithUser o r u = true
    · simp [h]
    · simp [h, ih]

theorem authInternal_eq_any (o : Oracle) (r : Req) (us : List User) :
    authInternal o r us = us.any (authWithUser o r) := by
  induction us with
  | nil => rfl
  | cons u us ih =>
    unfold authInternal
    cases h : authWithUser o r u <;> simp [h, ih]

/-! ### the property -/

/-- **C01, decision at full strength**: under the internal method a request is admitted iff some
configured user entry has an empty IP list or one containing the client IP, grants the action on the
path, and either is `any` or matches the supplied credentials.  For all user lists, requests,
oracles and custom verifiers. -/
theorem auth_iff (o : Oracle) (us : List User) (r : Req) :
    (∃ name, authenticate o us r = .ok name) ↔ ∃ u ∈ us, Admits o r u := by
  unfold authenticate
  cases h : authInternal o r us
  · simp only [Bool.false_eq_true, if_false, reduceCtorEq, exists_false, false_iff]
    rintro ⟨u, hu, ha⟩
    have := (authInternal_iff o r us).mpr ⟨u, hu, (authWithUser_iff o r u).mpr ha⟩
    rw [h] at this; exact absurd this (by simp)
  · simp only [if_true, Outcome.ok.injEq, exists_eq', true_iff]
    obtain ⟨u, hu, ha⟩ := (authInternal_iff o r us).mp h
    exact ⟨u, hu, (authWithUser_iff o r u).mp ha⟩

/-- admitted requests report the supplied username -/
theorem auth_user (o : Oracle) (us : List User) (r : Req) (name : Bytes)
    (h : authenticate o us r = .ok name) : name = r.user := by
  unfold authenticate at h
  split at h
  · exact (Outcome.ok.inj h).symm
  · exact absurd h (by simp)

/-- rejected requests ask for credentials exactly when asking is allowed and neither a username nor
a password was supplied (the token field is not consulted by the internal method). -/
theorem ask_iff (o : Oracle) (us : List User) (r : Req) :
    authenticate o us r = .err true ↔
      ((¬ ∃ u ∈ us, Admits o r u) ∧ r.enableAsk = true ∧ r.user = [] ∧ r.pass = []) := by
  rw [← auth_iff]
  unfold authenticate
  cases authInternal o r us
  · simp [List.isEmpty_iff, and_assoc]
  · simp

/-- every outcome is either `ok` or `err`: rejection iff not admitted -/
theorem reject_iff (o : Oracle) (us : List User) (r : Req) :
    (∃ ask, authenticate o us r = .err ask) ↔ ¬ ∃ u ∈ us, Admits o r u := by
  rw [← auth_iff]
  unfold authenticate
  cases authInternal o r us <;> simp

theorem permGrants_eq (o : Oracle) (p : Perm) (a path : Bytes) :
    permGrants o p a path = permMatches o p a path := by
  unfold permGrants permMatches
  by_cases ha : p.action = a
  · rw [ha]
    simp only [beq_self_eq_true, Bool.true_and, if_true]
    cases isPathAction a
    · simp
    · simp only [Bool.not_true, Bool.false_or, if_true]
      cases hp : p.path with
      | nil => simp
      | cons c pat =>
        by_cases hc : c = tilde
        · subst hc
          cases hre : o.regexFind pat path with
          | none => simp [hre]
          | some b => cases b <;> simp [hre]
        · have hb : (c == tilde) = false := beq_eq_false_iff_ne.mpr hc
          rw [Bool.eq_iff_iff]
          simp [hc, hb]
  · simp [ha]

/-- the executable "grants" of the spec is the code's `matchesPermission` -/
theorem matchesPermission_eq_anyGrants (o : Oracle) (perms : List Perm) (a path : Bytes) :
    matchesPermission o perms a path = perms.any (permGrants o · a path) := by
  rw [matchesPermission_eq_any]
  simp only [permGrants_eq]

/-- the executable spec used by the driver is the right-hand side of `auth_iff` -/
theorem userAdmits_iff (o : Oracle) (r : Req) (u : User) : userAdmits o r u = true ↔ Admits o r u := by
  have hperm : ∀ p : Perm, permGrants o p r.action r.path = permMatches o p r.action r.path :=
    fun p => permGrants_eq o p r.action r.path
  have hcred : ∀ d g, credMatches o d g = credCheck o d g := by
    intro d g
    unfold credMatches credCheck
    cases sha256Prefix.isPrefixOf d <;> cases argon2Prefix.isPrefixOf d <;> simp
    by_cases hd : d = [] <;> simp [hd]
  rw [← authWithUser_iff]
  unfold userAdmits authWithUser
  rw [matchesPermission_eq_any]
  simp only [hperm, hcred]
  have hips : ipsContain u.ips r.ip = u.ips.any (ipnetContains · r.ip) := by
    induction u.ips with
    | nil => rfl
    | cons n ns ih => unfold ipsContain; cases h : ipnetContains n r.ip <;> simp [h, ih]
  rw [hips]
  unfold credsOK
  cases hi : u.ips with
  | nil =>
    simp only [List.isEmpty_nil, Bool.true_or, Bool.true_and, List.length_nil, ne_eq,
      not_true_eq_false, false_and, if_false]
    cases List.any u.perms fun x => permMatches o x r.action r.path
    · simp
    · by_cases hu : u.user = anyUser <;> simp [hu]
  | cons n ns =>
    simp only [List.isEmpty_cons, Bool.false_or, List.length_cons, ne_eq, Nat.add_one_ne_zero,
      not_false_eq_true, true_and]
    cases (n :: ns).any (ipnetContains · r.ip)
    · simp
    · cases List.any u.perms fun x => permMatches o x r.action r.path
      · simp
      · by_cases hu : u.user = anyUser <;> simp [hu]

theorem specAdmit_iff (o : Oracle) (us : List User) (r : Req) :
    specAdmit o us r = true ↔ ∃ u ∈ us, Admits o r u := by
  unfold specAdmit
  simp only [List.any_eq_true, userAdmits_iff]

/-- the model always satisfies the executable spec (so a spec FAIL can only come from the code) -/
theorem model_conforms (o : Oracle) (us : List User) (r : Req) :
    specCheck o us r (authenticate o us r) = none := by
  have h : specAdmit o us r = authInternal o r us := by
    rw [Bool.eq_iff_iff, specAdmit_iff, authInternal_iff]
    simp only [authWithUser_iff]
  unfold specCheck authenticate
  rw [h]
  cases authInternal o r us <;> simp

/-! ### order independence -/

/-- the decision does not depend on the order of the configured users -/
theorem auth_users_perm (o : Oracle) (us us' : List User) (r : Req) (h : us.Perm us') :
    authenticate o us r = authenticate o us' r := by
  unfold authenticate
  rw [authInternal_eq_any, authInternal_eq_any, h.any_eq]

/-- entry-wise: same credentials, IP entries and permissions permuted -/
def SameUpToOrder : List User → List User → Prop
  | [], [] => True
  | u :: us, u' :: us' =>
    (u.user = u'.user ∧ u.pass = u'.pass ∧ u.ips.Perm u'.ips ∧ u.perms.Perm u'.perms) ∧
      SameUpToOrder us us'
  | _, _ => False

/-- … nor on the order of the permissions (or of the IP entries) inside each user entry -/
theorem auth_perms_perm (o : Oracle) (us us' : List User) (r : Req) (h : SameUpToOrder us us') :
    authenticate o us r = authenticate o us' r := by
  have hu : ∀ u u' : User, (u.user = u'.user ∧ u.pass = u'.pass ∧ u.ips.Perm u'.ips ∧
      u.perms.Perm u'.perms) → authWithUser o r u = authWithUser o r u' := by
    rintro u u' ⟨h1, h2, h3, h4⟩
    rw [Bool.eq_iff_iff, authWithUser_iff, authWithUser_iff]
    unfold Admits Grants CredsMatch
    rw [h1, h2]
    have e1 : u.ips = [] ↔ u'.ips = [] := by
      constructor
      · intro e; rw [e] at h3; exact h3.symm.eq_nil
      · intro e; rw [e] at h3; exact h3.eq_nil
    simp only [e1, h3.mem_iff, h4.mem_iff]
  have : authInternal o r us = authInternal o r us' := by
    induction us generalizing us' with
    | nil =>
      cases us' with
      | nil => rfl
      | cons _ _ => exact absurd h (by simp [SameUpToOrder])
    | cons u us ih =>
      cases us' with
      | nil => exact absurd h (by simp [SameUpToOrder])
      | cons u' us' =>
        unfold SameUpToOrder at h
        unfold authInternal
        rw [hu _ _ h.1, ih us' h.2]
  unfold authenticate
  rw [this]

/-! ### IP containment -/

/-- `networkNumberAndMask` returns slices of equal length: `m[i]` in `Contains` cannot panic. -/
theorem to4_length {x y : Bytes} (hx : to4 x = some y) : y.length = 4 := by
  unfold to4 at hx
  split at hx
  · rename_i h; cases hx; exact h
  · split at hx
    · rename_i h; cases hx; simp [h.1]
    · cases hx

theorem netIP_length {x y : Bytes} (hx : netIP x = some y) : y.length = 4 ∨ y.length = 16 := by
  unfold netIP at hx
  cases hto : to4 x with
  | some v =>
    rw [hto] at hx
    cases hx
    exact Or.inl (to4_length hto)
  | none =>
    rw [hto] at hx
    simp only at hx
    split at hx
    · rename_i h; cases hx; exact Or.inr h
    · cases hx

theorem nnm_len (n : IPNet) : (networkNumberAndMask n).1.length = (networkNumberAndMask n).2.length := by
  unfold networkNumberAndMask
  cases hip : netIP n.ip with
  | none => rfl
  | some ip =>
    have hl := netIP_length hip
    simp only
    by_cases hm4 : n.mask.length = 4
    · by_cases hi : ip.length = 4 <;> simp [hm4, hi]
    · by_cases hm16 : n.mask.length = 16
      · by_cases hi : ip.length = 4
        · simp [hm16, hi]
        · have : ip.length = 16 := by omega
          simp [hm16, this]
      · simp [hm4, hm16]

/-- bit `k` of a byte string in network order (bit 0 = most significant bit of the first byte) -/
def bitAt : Bytes → Nat → Bool
  | [], _ => false
  | a :: as, k => if k < 8 then a.toNat.testBit (7 - k) else bitAt as (k - 8)

theorem maskByte_testBit (j i : Nat) (hj : j ≤ 8) :
    (if j ≥ 8 then (0xff : UInt8) else maskByte j).toNat.testBit i = decide (8 - j ≤ i ∧ i < 8) := by
  by_cases hi : i < 8
  · have : ∀ j, j < 9 → ∀ i, i < 8 →
        (if j ≥ 8 then (0xff : UInt8) else maskByte j).toNat.testBit i = decide (8 - j ≤ i ∧ i < 8) := by
      decide
    exact this j (by omega) i hi
  · have hlt : (if j ≥ 8 then (0xff : UInt8) else maskByte j).toNat < 2 ^ i :=
      Nat.lt_of_lt_of_le (UInt8.toNat_lt _) (Nat.pow_le_pow_right (by decide) (by omega : 8 ≤ i))
    rw [Nat.testBit_lt_two_pow hlt]
    simp [hi]

/-- masked comparison of one byte = agreement on the leading `j` bits -/
theorem byte_masked_eq (a b : UInt8) (j : Nat) :
    (a &&& (if j ≥ 8 then (0xff : UInt8) else maskByte j) = b &&& (if j ≥ 8 then 0xff else maskByte j)) ↔
      ∀ k, k < j → k < 8 → a.toNat.testBit (7 - k) = b.toNat.testBit (7 - k) := by
  have key : ∀ j, j ≤ 8 →
      ((a &&& (if j ≥ 8 then (0xff : UInt8) else maskByte j) = b &&& (if j ≥ 8 then 0xff else maskByte j)) ↔
        ∀ k, k < j → k < 8 → a.toNat.testBit (7 - k) = b.toNat.testBit (7 - k)) := by
    intro j hj
    have hMb := fun i => maskByte_testBit j i hj
    generalize (if j ≥ 8 then (0xff : UInt8) else maskByte j) = M at hMb ⊢
    rw [← UInt8.toNat_inj, UInt8.toNat_and, UInt8.toNat_and]
    constructor
    · intro h k hk hk8
      have h' : (a.toNat &&& M.toNat).testBit (7 - k) = (b.toNat &&& M.toNat).testBit (7 - k) := by
        rw [h]
      rw [Nat.testBit_and, Nat.testBit_and, hMb,
        decide_eq_true (show 8 - j ≤ 7 - k ∧ 7 - k < 8 by omega), Bool.and_true, Bool.and_true] at h'
      exact h'
    · intro h
      apply Nat.eq_of_testBit_eq
      intro i
      rw [Nat.testBit_and, Nat.testBit_and, hMb]
      by_cases hi : 8 - j ≤ i ∧ i < 8
      · have := h (7 - i) (by omega) (by omega)
        have e : 7 - (7 - i) = i := by omega
        rw [e] at this
        rw [decide_eq_true hi, Bool.and_true, Bool.and_true]
        exact this
      · rw [decide_eq_false hi, Bool.and_false, Bool.and_false]
  by_cases hj : j ≤ 8
  · exact key j hj
  · have h8 := key 8 (by omega)
    have e : (if j ≥ 8 then (0xff : UInt8) else maskByte j) = (if 8 ≥ 8 then (0xff : UInt8) else maskByte 8) := by
      simp [show j ≥ 8 by omega]
    rw [e, h8]
    constructor
    · intro h k _ hk8; exact h k hk8 hk8
    · intro h k hk _; exact h k (by omega) hk

/-- **mask characterisation (list level, any length, any prefix size)**: comparing under
`CIDRMask(n, 8·len)` is agreement on the first `n` bits. -/
theorem maskedEq_cidr (nn ip : Bytes) (n : Nat) (hlen : ip.length = nn.length) :
    maskedEq nn (cidrMask n nn.length) ip = true ↔ ∀ k, k < n → bitAt nn k = bitAt ip k := by
  induction nn generalizing ip n with
  | nil =>
    cases ip with
    | nil => simp [maskedEq, bitAt]
    | cons _ _ => simp at hlen
  | cons a as ih =>
    cases ip with
    | nil => simp at hlen
    | cons b bs =>
      simp only [List.length_cons, Nat.add_right_cancel_iff] at hlen
      simp only [List.length_cons, cidrMask, maskedEq, Bool.and_eq_true, beq_iff_eq]
      rw [byte_masked_eq, ih bs (n - 8) hlen]
      constructor
      · rintro ⟨h1, h2⟩ k hk
        unfold bitAt
        by_cases hk8 : k < 8
        · simp only [hk8, if_true]; exact h1 k hk hk8
        · simp only [hk8, if_false]; exact h2 (k - 8) (by omega)
      · intro h
        constructor
        · intro k hk hk8
          have := h k hk
          unfold bitAt at this
          simpa [hk8] using this
        · intro k hk
          have := h (k + 8) (by omega)
          unfold bitAt at this
          rw [if_neg (by omega), if_neg (by omega), Nat.add_sub_cancel] at this
          exact this

/-- well-formed network as produced by `IPNetwork.UnmarshalJSON`: 4-byte address, or 16-byte address
that is not v4-mapped; mask = `CIDRMask(n, 8·len)`. -/
def WellFormed (net : IPNet) (n : Nat) : Prop :=
  (net.ip.length = 4 ∨ (net.ip.length = 16 ∧ to4 net.ip = none)) ∧ net.mask = cidrMask n net.ip.length

theorem cidrMask_length (n len : Nat) : (cidrMask n len).length = len := by
  induction len generalizing n with
  | zero => rfl
  | succ l ih => simp [cidrMask, ih]

/-- **IP mask characterisation**: for a well-formed `/n` network (v4 or v6, any `n`), the client IP
(v4-mapped v6 addresses collapsed to 4 bytes, as `To4` does) is contained iff it has the network's
address length and agrees with the network address on the first `n` bits. -/
theorem ipContains_mask (net : IPNet) (n : Nat) (ip : Bytes) (h : WellFormed net n) :
    ipnetContains net ip = true ↔
      (((to4 ip).getD ip).length = net.ip.length ∧
        ∀ k, k < n → bitAt net.ip k = bitAt ((to4 ip).getD ip) k) := by
  obtain ⟨hlen, hmask⟩ := h
  have hnm : networkNumberAndMask net = (net.ip, cidrMask n net.ip.length) := by
    unfold networkNumberAndMask
    rcases hlen with h4 | ⟨h16, hto⟩
    · have : to4 net.ip = some net.ip := by simp [to4, h4]
      simp [netIP, this, hmask, cidrMask_length, h4]
    · simp [netIP, hto, h16, hmask, cidrMask_length]
  unfold ipnetContains
  simp only [hnm]
  by_cases hl : ((to4 ip).getD ip).length = net.ip.length
  · simp only [hl, ne_eq, not_true_eq_false, if_false, true_and]
    exact maskedEq_cidr net.ip _ n hl
  · simp [hl]

/-- what `IPNetwork.UnmarshalJSON` builds from a well-formed `net.ParseCIDR` / `net.ParseIP` result is
well-formed (so `ipContains_mask` applies to every configured entry), and it never panics. -/
theorem unmarshal_wellformed (cidr : Option IPNet) (pip : Option Bytes) (n : Nat)
    (hc : ∀ c, cidr = some c → (c.ip.length = 4 ∨ c.ip.length = 16) ∧ c.mask = cidrMask n c.ip.length ∧
      (c.ip.length = 16 → to4 c.ip ≠ none → 96 ≤ n))
    (hp : ∀ p, pip = some p → p.length = 16) :
    unmarshalIPNet cidr pip = .err ∨
      ∃ net m, unmarshalIPNet cidr pip = .ok net ∧ WellFormed net m := by
  have cidr_drop : ∀ m, 96 ≤ m → (cidrMask m 16).drop 12 = cidrMask (m - 96) 4 := by
    intro m hm
    simp only [cidrMask, List.drop_succ_cons, List.drop_zero]
    have h1 : (m - 8 - 8 - 8 - 8 - 8 - 8 - 8 - 8 - 8 - 8 - 8 - 8) = m - 96 := by omega
    rw [h1]
  unfold unmarshalIPNet
  cases cidr with
  | some c =>
    obtain ⟨hl, hm, hv⟩ := hc c rfl
    cases hto : to4 c.ip with
    | some v4 =>
      have h4 := to4_length hto
      right
      rcases hl with hl4 | hl16
      · have hv4 : v4 = c.ip := by simp [to4, hl4] at hto; exact hto.symm
        have hml : c.mask.length = 4 := by rw [hm, cidrMask_length, hl4]
        refine ⟨⟨v4, c.mask⟩, n, ?_, Or.inl h4, ?_⟩
        · simp [hto, hml]
        · show c.mask = cidrMask n v4.length
          rw [hv4]; exact hm
      · have h96 := hv hl16 (by simp [hto])
        have hml : c.mask.length = 16 := by rw [hm, cidrMask_length, hl16]
        refine ⟨⟨v4, cidrMask (n - 96) 4⟩, n - 96, ?_, Or.inl h4, ?_⟩
        · simp only [hto, hml, show ¬ (16 < 4) by omega, if_false, Unm.ok.injEq, IPNet.mk.injEq, true_and]
          rw [hm, hl16]
          exact cidr_drop n h96
        · show cidrMask (n - 96) 4 = cidrMask (n - 96) v4.length
          rw [h4]
    | none =>
      right
      rcases hl with hl4 | hl16
      · simp [to4, hl4] at hto
      · exact ⟨c, n, by simp [hto], Or.inr ⟨hl16, hto⟩, hm⟩
  | none =>
    cases pip with
    | none => left; rfl
    | some p =>
      have h16 := hp p rfl
      right
      cases hto : to4 p with
      | some v4 =>
        refine ⟨⟨v4, cidrMask 32 4⟩, 32, by simp [hto], Or.inl (to4_length hto), ?_⟩
        show cidrMask 32 4 = cidrMask 32 v4.length
        rw [to4_length hto]
      | none =>
        refine ⟨⟨p, cidrMask 128 16⟩, 128, by simp [hto], Or.inr ⟨h16, hto⟩, ?_⟩
        show cidrMask 128 16 = cidrMask 128 p.length
        rw [h16]

/-- containment only depends on the (network number, mask) pair -/
theorem contains_of_nnm (a b : IPNet) (ip : Bytes) (h : networkNumberAndMask a = networkNumberAndMask b) :
    ipnetContains a ip = ipnetContains b ip := by
  unfold ipnetContains
  rw [h]

theorem unm_cidr_v6 {c : IPNet} (pip : Option Bytes) (h : to4 c.ip = none) :
    unmarshalIPNet (some c) pip = .ok c := by
  simp [unmarshalIPNet, h]

theorem unm_cidr_v4 {c : IPNet} {v4 : Bytes} (pip : Option Bytes) (h : to4 c.ip = some v4)
    (hl : ¬ c.mask.length < 4) :
    unmarshalIPNet (some c) pip = .ok ⟨v4, c.mask.drop (c.mask.length - 4)⟩ := by
  simp [unmarshalIPNet, h, hl]

theorem nnm_collapse {c : IPNet} {v4 : Bytes} (hto : to4 c.ip = some v4)
    (hm : c.mask.length = 4 ∨ c.mask.length = 16) :
    networkNumberAndMask ⟨v4, c.mask.drop (c.mask.length - 4)⟩ = networkNumberAndMask c := by
  have h4 := to4_length hto
  have hv : to4 v4 = some v4 := by simp [to4, h4]
  unfold networkNumberAndMask netIP
  simp only [hv, hto]
  rcases hm with hm | hm <;> simp [hm, h4]

/-- **the glue preserves meaning**: the network stored by `IPNetwork.UnmarshalJSON` contains exactly
the client addresses that the `net.ParseCIDR` result contains (v4-mapped CIDRs are collapsed to 4
bytes with the last 4 mask bytes). -/
theorem unmarshal_equiv (c : IPNet) (pip : Option Bytes) (hm : c.mask.length = 4 ∨ c.mask.length = 16) :
    ∃ n, unmarshalIPNet (some c) pip = .ok n ∧ ∀ ip, ipnetContains n ip = ipnetContains c ip := by
  cases hto : to4 c.ip with
  | none => exact ⟨c, unm_cidr_v6 pip hto, fun _ => rfl⟩
  | some v4 =>
    exact ⟨_, unm_cidr_v4 pip hto (by omega), fun ip => contains_of_nnm _ _ ip (nnm_collapse hto hm)⟩

/-- the model's answer always satisfies the glue spec evaluated by the driver -/
theorem unmarshal_conforms (c : Option IPNet) (pip : Option Bytes)
    (hm : ∀ x, c = some x → x.mask.length = 4 ∨ x.mask.length = 16)
    (hp : ∀ a, pip = some a → a.length = 16) :
    specIPNet c pip (unmarshalIPNet c pip) = none := by
  cases c with
  | some x =>
    have hm' := hm x rfl
    cases hto : to4 x.ip with
    | none => rw [unm_cidr_v6 pip hto]; simp [specIPNet]
    | some v4 =>
      rw [unm_cidr_v4 pip hto (by omega)]
      simp [specIPNet, nnm_collapse hto hm']
  | none =>
    cases pip with
    | none => rfl
    | some a =>
      have h16 := hp a rfl
      cases hto : to4 a with
      | none => simp [unmarshalIPNet, specIPNet, hto, h16]
      | some v4 =>
        have h4 := to4_length hto
        have hv : to4 v4 = some v4 := by simp [to4, h4]
        have : networkNumberAndMask ⟨v4, cidrMask 32 4⟩ =
            networkNumberAndMask ⟨a, cidrMask (8 * a.length) a.length⟩ := by
          unfold networkNumberAndMask netIP
          simp only [hv, hto, h16, cidrMask_length]
          simp [h4]
          decide
        simp [unmarshalIPNet, specIPNet, hto, this]

/-! ### the `~` corner: literal reading of "equal path"

If one reads the statement's three path forms as a plain disjunction (so that a configured path
`~x` would also grant the request path `~x` by equality), the code agrees whenever the regular
expression `x` is found in the string `~x` — true for every expression built from characters that are
legal in a path name (they all match themselves). -/
def GrantsDisj (o : Oracle) (perms : List Perm) (action path : Bytes) : Prop :=
  ∃ p ∈ perms, p.action = action ∧
    (isPathAction action = false ∨ p.path = [] ∨
     (∃ pat, p.path = tilde :: pat ∧ o.regexFind pat path = some true) ∨ p.path = path)

theorem grants_disj (o : Oracle) (perms : List Perm) (action path : Bytes)
    (hself : ∀ pat, (⟨action, tilde :: pat⟩ : Perm) ∈ perms → path = tilde :: pat →
      o.regexFind pat path = some true) :
    Grants o perms action path ↔ GrantsDisj o perms action path := by
  unfold Grants GrantsDisj
  constructor
  · rintro ⟨p, hp, ha, h⟩
    refine ⟨p, hp, ha, ?_⟩
    rcases h with h | h | h | h
    · exact Or.inl h
    · exact Or.inr (Or.inl h)
    · exact Or.inr (Or.inr (Or.inl h))
    · exact Or.inr (Or.inr (Or.inr h.2))
  · rintro ⟨p, hp, ha, h⟩
    refine ⟨p, hp, ha, ?_⟩
    rcases h with h | h | h | h
    · exact Or.inl h
    · exact Or.inr (Or.inl h)
    · exact Or.inr (Or.inr (Or.inl h))
    · by_cases ht : p.path.head? = some tilde
      · cases hpp : p.path with
        | nil => exact Or.inr (Or.inl rfl)
        | cons c pat =>
          rw [hpp] at ht
          simp only [List.head?_cons, Option.some.injEq] at ht
          subst ht
          have hmem : (⟨action, tilde :: pat⟩ : Perm) ∈ perms := by
            have : p = ⟨action, tilde :: pat⟩ := by cases p; simp_all
            rw [← this]; exact hp
          exact Or.inr (Or.inr (Or.inl ⟨pat, rfl, hself pat hmem (by rw [← h, hpp])⟩))
      · exact Or.inr (Or.inr (Or.inr ⟨ht, h⟩))

/-- without that side condition the disjunctive reading is strictly weaker than the code: witness -/
theorem grants_disj_witness :
    ∃ (o : Oracle) (perms : List Perm) (a path : Bytes),
      GrantsDisj o perms a path ∧ ¬ Grants o perms a path := by
  refine ⟨⟨fun _ _ => some false, fun _ => [], fun _ _ => false⟩,
    [⟨aRead, [tilde, 94, 97]⟩], aRead, [tilde, 94, 97], ?_, ?_⟩
  · exact ⟨_, List.mem_singleton.mpr rfl, rfl, Or.inr (Or.inr (Or.inr rfl))⟩
  · rintro ⟨p, hp, _, h⟩
    rw [List.mem_singleton] at hp
    subst hp
    rcases h with h | h | ⟨pat, _, h⟩ | ⟨h, _⟩
    · exact absurd h (by decide)
    · exact absurd h (by decide)
    · exact absurd h (by simp)
    · exact h (by decide)

/-! ### non-vacuity: two users with overlapping permissions, an IPv6 /64, a regex path -/

section Examples

/-- oracle for the examples: regex `^cam[0-9]$`-like stub = "subject starts with c", sha/argon off -/
def exOracle : Oracle :=
  ⟨fun pat subj => if pat = asc ['^','c'] then some (subj.head? == some 99) else none,
   fun _ => asc ['h'], fun _ _ => false⟩

def exNet6 : IPNet := ⟨[0x20, 0x01, 0x0d, 0xb8, 0, 0, 0, 1, 0, 0, 0, 0, 0, 0, 0, 0], cidrMask 64 16⟩

def exUsers : List User :=
  [ ⟨asc ['b','o','b'], asc ['p','w'], [exNet6], [⟨aRead, tilde :: asc ['^','c']⟩, ⟨aPublish, asc ['x']⟩]⟩,
    ⟨anyUser, [], [], [⟨aRead, asc ['c','a','m']⟩]⟩ ]

def exReq (ip : Bytes) (user pass path : Bytes) : Req :=
  ⟨aRead, path, user, pass, [], ip, none, true⟩

def exIP6 : Bytes := [0x20, 0x01, 0x0d, 0xb8, 0, 0, 0, 1, 9, 9, 9, 9, 9, 9, 9, 9]
def exIP6out : Bytes := [0x20, 0x01, 0x0d, 0xb8, 0, 0, 0, 2, 9, 9, 9, 9, 9, 9, 9, 9]

example : WellFormed exNet6 64 := ⟨Or.inr ⟨by decide, by decide⟩, by decide⟩
-- bob from inside the /64 reading a regex path: admitted by the first entry
example : authenticate exOracle exUsers (exReq exIP6 (asc ['b','o','b']) (asc ['p','w']) (asc ['c','1']))
    = .ok (asc ['b','o','b']) := by decide
-- wrong password, path `cam`: rejected by the first entry, admitted by the overlapping `any` entry
example : authenticate exOracle exUsers (exReq exIP6 (asc ['b','o','b']) (asc ['n','o']) (asc ['c','a','m']))
    = .ok (asc ['b','o','b']) := by decide
-- outside the /64 with a path only the first entry grants: rejected; credentials supplied ⇒ no ask
example : authenticate exOracle exUsers (exReq exIP6out (asc ['b','o','b']) (asc ['p','w']) (asc ['c','1']))
    = .err false := by decide
-- anonymous, nothing grants `zzz`: rejected and asked for credentials
example : authenticate exOracle exUsers (exReq exIP6 [] [] (asc ['z'])) = .err true := by decide
-- v4-mapped client address is collapsed before comparing with a v4 /24
example : ipnetContains ⟨[10, 0, 0, 0], cidrMask 24 4⟩ [0,0,0,0,0,0,0,0,0,0,0xff,0xff,10,0,0,77] = true := by
  decide
example : ipnetContains ⟨[10, 0, 0, 0], cidrMask 24 4⟩ [10, 0, 1, 77] = false := by decide
-- nil network + empty client IP: `Contains` says true (quirk of net.IPNet.Contains, mirrored)
example : ipnetContains ⟨[], []⟩ [] = true := by decide

end Examples

end MtxVerif.C01
