/-
C07 — secrets are not disclosed by API responses or debug dumps.  Property theorems.

A: `redact_safe` (every password position of the served view is empty or the placeholder, for all
configurations), `redact_shape`/`redact_keeps_absent` (nothing else about those positions changes),
`uncovered_sound` (the decidable type-tree condition the driver evaluates on the reflected field list),
`redact_pure` (the live configuration is not modified: uses the C11 heap model; needs no C11 side
condition because the cells `redactCredentials` writes are not behind an interface).
B: `dump_noninterference` (the dump is a function of the request with the values of the redact-listed
headers erased), `line_redacted`, `line_kept`.
-/
import MtxVerif.Model.C07
import MtxVerif.Lemmas.C11Heap
import MtxVerif.Gen.C07

namespace MtxVerif.C07

/-! ### A. redaction -/

theorem redactPass_safe (p : Bytes) : safePass (redactPass p) = true := by
  unfold redactPass safePass
  by_cases h : p = [] <;> simp [h]

theorem redactOpt_safe (o : Option Bytes) : safeOpt (redactOpt o) = true := by
  cases o <;> simp [redactOpt, safeOpt, redactPass_safe]

theorem redactPath_safe (p : PathS) : safePath (redactPath p) = true := by
  simp [safePath, redactPath, redactOpt_safe]

/-- **No password leaks**: for every configuration, every password position of the redacted view — all
internal users, path defaults, every path — shows the empty string or the fixed placeholder. -/
theorem redact_safe (c : ConfS) : safeConf (redact c) = true := by
  simp [safeConf, redact, redactPath_safe, List.all_map, redactPass_safe, Function.comp_def]

/-- **Every page is safe**: whatever `itemsPerPage` and `page`, the page of the redacted view shows no
password — redaction does not depend on which slice of the path list is served. -/
theorem redact_page_safe (c : ConfS) (ipp p : Nat) :
    (pageOf (redact c).paths ipp p).all (fun e => safePath e.2) = true := by
  rw [List.all_eq_true]
  intro e he
  have hmem : e ∈ (redact c).paths := List.mem_of_mem_drop (List.mem_of_mem_take he)
  simp only [redact, List.mem_map] at hmem
  obtain ⟨x, _, rfl⟩ := hmem
  exact redactPath_safe x.2

/-- the page of the view is the redaction of the page of the configuration (same names, same order) -/
theorem redact_page_comm (c : ConfS) (ipp p : Nat) :
    pageOf (redact c).paths ipp p = (pageOf c.paths ipp p).map fun e => (e.1, redactPath e.2) := by
  simp [pageOf, redact, List.map_take, List.map_drop]

/-- a password that is set is replaced by exactly the placeholder; an empty one stays empty -/
theorem redactPass_set (p : Bytes) (h : p ≠ []) : redactPass p = placeholder := by simp [redactPass, h]
theorem redactPass_empty : redactPass [] = [] := by simp [redactPass]

/-- the view has the same users and the same paths (by name, in order) as the configuration -/
theorem redact_shape (c : ConfS) :
    (redact c).users.length = c.users.length ∧ (redact c).paths.map (·.1) = c.paths.map (·.1) := by
  simp [redact, List.map_map, Function.comp_def]

/-- an unset (nil) deprecated password stays unset -/
theorem redact_keeps_absent (p : PathS) :
    ((redactPath p).publishPass = none ↔ p.publishPass = none) ∧ ((redactPath p).readPass = none ↔ p.readPass = none) := by
  cases p with
  | mk a b => cases a <;> cases b <;> simp [redactPath, redactOpt]

theorem redact_idempotent (c : ConfS) : redact (redact c) = redact c := by
  have hp : ∀ p, redactPass (redactPass p) = redactPass p := by
    intro p; unfold redactPass
    by_cases h : p = []
    · simp [h]
    · simp [h, placeholder, asc]
  have ho : ∀ o, redactOpt (redactOpt o) = redactOpt o := by
    intro o; cases o <;> simp [redactOpt, hp]
  simp [redact, redactPath, List.map_map, Function.comp_def, hp, ho]

/-- what the driver's type-tree check means: if `uncovered` is empty, every credential-typed,
password-named field the API serialises is a position `redact` rewrites -/
theorem uncovered_sound (fields : List (String × String × String)) (h : uncovered fields = [])
    (f : String × String × String) (hf : f ∈ fields) (hty : f.2.2 = "conf.Credential") (hp : passLike f.2.1 = true) :
    (f.1, f.2.1) ∈ redactedPositions := by
  unfold uncovered at h
  rw [List.map_eq_nil_iff, List.filter_eq_nil_iff] at h
  have := h f hf
  simp [hty, hp] at this
  exact this

/-! ### A. purity — the live configuration is not modified (on the C11 heap model) -/

open MtxVerif.C11 in
mutual
/-- pointer / slice / map cells of a value that are not behind an interface node -/
def outer : V → List Nat
  | .atom _ => []
  | .ptr l p => l :: outer p
  | .slice l es => l :: outerS es
  | .map l kvs => l :: outerS kvs
  | .struct fs => outerS fs
  | .iface _ => []
  | .other _ => []
def outerS : Vs → List Nat
  | .nil => []
  | .cons _ _ hd tl => outer hd ++ outerS tl
end

open MtxVerif.C11 in
mutual
/-- whatever the value (interfaces, chans and all), the cells of its copy that are not behind an interface
are new — with or without an Interface case in `deepClone` -/
theorem clone_outer_fresh (ci : Bool) : ∀ (v : V) (n : Nat),
    n ≤ (clone ci v n).2 ∧ ∀ l ∈ outer (clone ci v n).1, n ≤ l ∧ l < (clone ci v n).2
  | .atom a, n => by simp [clone, outer]
  | .ptr l p, n => by
    have ih := clone_outer_fresh ci p (n + 1)
    simp only [clone, outer]
    refine ⟨by omega, ?_⟩
    intro x hx
    rcases List.mem_cons.mp hx with rfl | hx
    · omega
    · have := ih.2 x hx; omega
  | .slice l es, n => by
    have ih := cloneS_outer_fresh ci es (n + 1)
    simp only [clone, outer]
    refine ⟨by omega, ?_⟩
    intro x hx
    rcases List.mem_cons.mp hx with rfl | hx
    · omega
    · have := ih.2 x hx; omega
  | .map l es, n => by
    have ih := cloneS_outer_fresh ci es (n + 1)
    simp only [clone, outer]
    refine ⟨by omega, ?_⟩
    intro x hx
    rcases List.mem_cons.mp hx with rfl | hx
    · omega
    · have := ih.2 x hx; omega
  | .struct fs, n => by
    have ih := cloneF_outer_fresh ci fs n
    simpa only [clone, outer] using ih
  | .iface v, n => by
    cases ci with
    | true =>
      have ih := clone_outer_fresh true v n
      simp [clone, outer, ih.1]
    | false => simp [clone, outer]
  | .other l, n => by simp [clone, outer]
theorem cloneS_outer_fresh (ci : Bool) : ∀ (vs : Vs) (n : Nat),
    n ≤ (cloneS ci vs n).2 ∧ ∀ l ∈ outerS (cloneS ci vs n).1, n ≤ l ∧ l < (cloneS ci vs n).2
  | .nil, n => by simp [cloneS, outerS]
  | .cons f k hd tl, n => by
    have ih1 := clone_outer_fresh ci hd n
    have ih2 := cloneS_outer_fresh ci tl (clone ci hd n).2
    simp only [cloneS, outerS]
    refine ⟨by omega, ?_⟩
    intro x hx
    rcases List.mem_append.mp hx with hx | hx
    · have := ih1.2 x hx; omega
    · have := ih2.2 x hx; omega
theorem cloneF_outer_fresh (ci : Bool) : ∀ (vs : Vs) (n : Nat),
    n ≤ (cloneF ci vs n).2 ∧ ∀ l ∈ outerS (cloneF ci vs n).1, n ≤ l ∧ l < (cloneF ci vs n).2
  | .nil, n => by simp [cloneF, outerS]
  | .cons f k hd tl, n => by
    cases f with
    | true =>
      have ih1 := clone_outer_fresh ci hd n
      have ih2 := cloneF_outer_fresh ci tl (clone ci hd n).2
      simp only [cloneF, outerS, if_true]
      refine ⟨by omega, ?_⟩
      intro x hx
      rcases List.mem_append.mp hx with hx | hx
      · have := ih1.2 x hx; omega
      · have := ih2.2 x hx; omega
    | false =>
      have ih2 := cloneF_outer_fresh ci tl n
      simpa [cloneF, outerS, outer] using ih2
end

open MtxVerif.C11 in
/-- **Redaction is pure**: `redactCredentials` clones and then writes only into cells of the copy that are
not behind an interface (the users slice, the `*Credential` cells of the defaults and of each `*Path`).
Any such sequence of writes leaves the live configuration unchanged — for every configuration value,
even though today's `deepClone` shares the cells behind `OptionalPath.Values` (C11). -/
theorem redact_pure (ci : Bool) (v : V) (n : Nat) (hb : Below n v)
    (ws : List (Nat × (V → V) × (Vs → Vs)))
    (hws : ∀ w ∈ ws, w.1 = n ∨ w.1 ∈ outer (clone ci v (n + 1)).1) :
    applyWrites ws v = v := by
  induction ws with
  | nil => rfl
  | cons w ws ih =>
    have hw : mutate w.1 w.2.1 w.2.2 v = v := by
      apply mutate_noop
      intro hin
      have hlt := hb _ hin
      rcases hws w List.mem_cons_self with hl | hl
      · omega
      · have := (clone_outer_fresh ci v (n + 1)).2 _ hl; omega
    simp only [applyWrites, List.foldl_cons, hw]
    exact ih (fun w' hw' => hws w' (List.mem_cons_of_mem _ hw'))

/-! ### B. request dumps -/

theorem line_redacted (p : Bytes → Bool) (k v : Bytes) (h : p k = true) :
    headerLineBy p k v = k ++ colonSp ++ placeholder ++ crlf := by
  unfold headerLineBy; rw [if_pos h]

theorem line_kept (p : Bytes → Bool) (k v : Bytes) (h : p k = false) :
    headerLineBy p k v = k ++ colonSp ++ v ++ crlf := by
  unfold headerLineBy; simp only [h, Bool.false_eq_true, if_false]

theorem lines_erased (p : Bytes → Bool) (k : Bytes) (h : p k = true) (vs : List Bytes) :
    (vs.map fun _ => ([] : Bytes)).flatMap (fun v => headerLineBy p k v) = vs.flatMap (fun v => headerLineBy p k v) := by
  induction vs with
  | nil => rfl
  | cons v vs ih =>
    rw [List.map_cons, List.flatMap_cons, List.flatMap_cons, ih, line_redacted p k [] h, line_redacted p k v h]

theorem dumpHeaders_erase (p : Bytes → Bool) (hs : List Header) :
    dumpHeadersBy p (eraseBy p hs) = dumpHeadersBy p hs := by
  induction hs with
  | nil => rfl
  | cons h hs ih =>
    unfold dumpHeadersBy eraseBy at *
    simp only [List.map_cons, List.flatMap_cons, ih]
    congr 1
    by_cases hc : p h.1 = true
    · rw [if_pos hc]
      exact lines_erased p h.1 hc h.2
    · rw [if_neg hc]

/-- **Non-interference** of the header loop, for whatever lookup `p` it uses: two requests that differ only
in the values of the headers the lookup hits produce byte-identical dumps (every value of a repeated header,
empty or not, first or not). -/
theorem dump_noninterference (canon : Bool) (rs : List Bytes) (reqLine hostLine body : Bytes) (hs hs' : List Header)
    (h : eraseBy (hit canon rs) hs = eraseBy (hit canon rs) hs') :
    dump canon rs reqLine hostLine hs body = dump canon rs reqLine hostLine hs' body := by
  unfold dump dumpHeaders
  rw [← dumpHeaders_erase (hit canon rs) hs, ← dumpHeaders_erase (hit canon rs) hs', h]

/-! #### header names are case-insensitive: the full statement, and where it fails -/

/-- **Full statement** for the dump: two requests that differ only in the values of credential headers —
whatever the spelling of their names — produce the same dump. -/
def dump_ci_full (canon : Bool) (rs : List Bytes) : Prop :=
  ∀ (reqLine hostLine body : Bytes) (hs hs' : List Header),
    eraseSecretsCI rs hs = eraseSecretsCI rs hs' →
    dump canon rs reqLine hostLine hs body = dump canon rs reqLine hostLine hs' body

/-- with a canonicalising lookup the full statement holds, for every redact list -/
theorem dump_ci_fixed (rs : List Bytes) : dump_ci_full true rs := by
  intro rl hl body hs hs' h
  apply dump_noninterference
  have : hit true rs = listedCI rs := by funext k; simp [hit]
  rw [this]; exact h

theorem eraseCI_eq_erase (rs : List Bytes) (hs : List Header) (hc : keysCanonical rs hs = true) :
    eraseSecretsCI rs hs = eraseBy (hit false rs) hs := by
  unfold eraseSecretsCI eraseBy
  apply List.map_congr_left
  intro h hh
  have := (List.all_eq_true.mp hc) h hh
  have hl : ∀ r ∈ rs, r = h.1 → listedCI rs h.1 = true := by
    intro r hr e
    unfold listedCI
    exact List.any_eq_true.mpr ⟨r, hr, by simp [e]⟩
  have hhit : hit false rs h.1 = rs.contains h.1 := by simp [hit]
  by_cases h1 : rs.contains h.1 = true
  · have h2 : listedCI rs h.1 = true := by
      have hm : h.1 ∈ rs := by simpa using h1
      exact hl h.1 hm rfl
    show (if listedCI rs h.1 = true then _ else _) = (if hit false rs h.1 = true then _ else _)
    rw [hhit, if_pos h2, if_pos h1]
  · have h2 : ¬ listedCI rs h.1 = true := by
      intro hx
      rw [hx] at this
      exact h1 (by simpa using this)
    show (if listedCI rs h.1 = true then _ else _) = (if hit false rs h.1 = true then _ else _)
    rw [hhit, if_neg h2, if_neg h1]

/-- **Under the decidable side condition** that credential headers are spelled as in the list (true for
every header map built by net/http, which canonicalises), the full statement holds for the exact lookup. -/
theorem dump_ci_partial (rs : List Bytes) (reqLine hostLine body : Bytes) (hs hs' : List Header)
    (hc : keysCanonical rs hs = true) (hc' : keysCanonical rs hs' = true)
    (h : eraseSecretsCI rs hs = eraseSecretsCI rs hs') :
    dump false rs reqLine hostLine hs body = dump false rs reqLine hostLine hs' body := by
  apply dump_noninterference
  rw [← eraseCI_eq_erase rs hs hc, ← eraseCI_eq_erase rs hs' hc', h]

/-- Outside it the full statement is false for the exact lookup: a header map with the key `cookie` (lower
case, as code building a Request by hand could write it) is dumped in clear. -/
theorem dump_ci_witness : ¬ dump_ci_full false [asc ['C', 'o', 'o', 'k', 'i', 'e']] := by
  intro h
  have := h [] [] [] [(asc ['c', 'o', 'o', 'k', 'i', 'e'], [asc ['a']])] [(asc ['c', 'o', 'o', 'k', 'i', 'e'], [asc ['b']])]
    (by decide)
  revert this
  decide

/-- the executable spec accepts the ideal dump: nothing is reported as leaked when every credential value
was replaced -/
theorem leaked_ideal (rs : List Bytes) (reqLine hostLine : Bytes) (hs : List Header) (body : Bytes) :
    leaked rs reqLine hostLine hs body (reqLine ++ hostLine ++ idealHeaders rs hs ++ crlf ++ body) = ([], []) := by
  have h0 : ∀ (X : Bytes) (cs : List Bytes), cs.any (leaks1 X X) = false := by
    intro X cs
    rw [List.any_eq_false]
    intro c _
    unfold leaks1
    cases isInfixB c X <;> simp
  unfold leaked
  simp only [Prod.mk.injEq, List.flatMap_eq_nil_iff, List.filter_eq_nil_iff, h0]
  constructor <;> intro h _ v _ <;> simp

/-- tie to the source: the lookup canonicalises the map key (`http.CanonicalHeaderKey`) — the model variant
the driver runs, for which `dump_ci_fixed` is the full statement -/
theorem gen_lookup_canonical : Gen.C07.lookupCanonical = true := by decide

/-- tie to the source (regenerated on every check): the redaction test sits inside the loop over ALL values
of a key and assigns the placeholder to the loop variable that is printed -/
theorem gen_loop_shape : Gen.C07.redactsEveryValue = true := by decide

/-! ### non-vacuity / samples (tests, not theorems) -/

example : keysCanonical [asc ['C']] [(asc ['C'], [[1]]), (asc ['A'], [[2]])] = true
    ∧ keysCanonical [asc ['C']] [(asc ['c'], [[1]])] = false := by decide
#guard (chunks (List.replicate 300 (7 : UInt8))).length = 4
example : leaked [asc ['C']] [] [] [(asc ['C'], [[], asc ['s', 'e', 'c']])] []
    (asc ['C', ':', ' ', '\r', '\n', 'C', ':', ' ', 's', 'e', 'c', '\r', '\n', '\r', '\n']) = ([asc ['s', 'e', 'c']], []) := by decide


#guard redact ⟨[asc ['s', '3'], []], ⟨some (asc ['p']), none⟩, [("a", ⟨none, some []⟩)]⟩
    = ⟨[placeholder, []], ⟨some placeholder, none⟩, [("a", ⟨none, some []⟩)]⟩
example : safeConf ⟨[asc ['s', '3']], ⟨none, none⟩, []⟩ = false := by decide
#guard passLike "authInternalUsers[].pass" && passLike "publishPass" && !passLike "readUser"
    && passLike "webrtcICEServers2[].password"
#guard uncovered [("g", "authInternalUsers[].pass", "conf.Credential"), ("p", "readPass", "conf.Credential"),
    ("p", "newPass", "conf.Credential")] = [("p", "newPass")]
example : dumpHeaders false [asc ['C']] [(asc ['A'], [asc ['x']]), (asc ['C'], [asc ['s'], asc ['t']])]
    = asc ['A', ':', ' ', 'x', '\r', '\n', 'C', ':', ' '] ++ placeholder ++ asc ['\r', '\n', 'C', ':', ' ']
      ++ placeholder ++ asc ['\r', '\n'] := by decide
open MtxVerif.C11 in
example : avoidsIface (.struct (.cons true (.slice (.struct (.cons true .scalar .nil))) (.cons true (.iface .scalar) .nil))) [1, 0, 1] = true
    ∧ avoidsIface (.struct (.cons true .scalar (.cons true (.iface (.ptr .scalar)) .nil))) [2, 0] = false := by decide

end MtxVerif.C07
