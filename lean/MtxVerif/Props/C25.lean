/-
C25 — absolute timestamps track the wall clock.  Property theorems about the estimator automaton
(Model/C25.lean), over arbitrary sequences of (wall-clock reading, frame timestamp), including jumps.
-/
import MtxVerif.Model.C25
import MtxVerif.Lemmas.C24Arith

namespace MtxVerif.C25
open MtxVerif.C24

/-! ### single step: exact case analysis -/

/-- first call (or estimator anchored at the zero instant): anchor at the wall clock -/
theorem step_init (rate : Int) (s : St) (now pts : Int) (h : s.refNTP = 0) :
    step rate s now pts = ({ refNTP := now, refPTS := pts }, some now) := by
  simp [step, h]

/-- zero clock rate: the scaling panics, state unchanged (explicit outcome) -/
theorem step_panic (s : St) (now pts : Int) (h : s.refNTP ≠ 0) :
    step 0 s now pts = (s, none) := by
  simp [step, h, delta, muldiv]

/-- non-zero clock rate: `Estimate` never panics -/
theorem step_no_panic (rate : Int) (s : St) (now pts : Int) (hr : rate ≠ 0) :
    (step rate s now pts).2 ≠ none := by
  unfold step
  split
  · simp
  · simp only [delta, muldiv, if_neg hr]
    split <;> simp

/-- anchored estimate inside the window: it is returned and the anchor is kept -/
theorem step_anchored (rate : Int) (s : St) (now pts dlt : Int) (h : s.refNTP ≠ 0)
    (hd : delta rate s pts = some dlt)
    (hw : now - maxDiff ≤ s.refNTP + dlt ∧ s.refNTP + dlt ≤ now) :
    step rate s now pts = (s, some (s.refNTP + dlt)) := by
  have : ¬ (s.refNTP + dlt > now ∨ s.refNTP + dlt < now - maxDiff) := by omega
  simp [step, h, hd, this]

/-- anchored estimate outside the window: re-anchor at the wall clock -/
theorem step_reanchor (rate : Int) (s : St) (now pts dlt : Int) (h : s.refNTP ≠ 0)
    (hd : delta rate s pts = some dlt)
    (hw : s.refNTP + dlt > now ∨ s.refNTP + dlt < now - maxDiff) :
    step rate s now pts = ({ refNTP := now, refPTS := pts }, some now) := by
  simp [step, h, hd, hw]

/-- **reset condition, exactly**: with an anchor and a non-panicking scaling, the estimator keeps its
anchor iff the anchored estimate lies in `[now - 5 s, now]`. -/
theorem keeps_anchor_iff (rate : Int) (s : St) (now pts dlt : Int) (h : s.refNTP ≠ 0)
    (hd : delta rate s pts = some dlt) (hne : s ≠ { refNTP := now, refPTS := pts }) :
    (step rate s now pts).1 = s ↔ (now - maxDiff ≤ s.refNTP + dlt ∧ s.refNTP + dlt ≤ now) := by
  constructor
  · intro hs
    apply Classical.byContradiction
    intro hn
    have hw : s.refNTP + dlt > now ∨ s.refNTP + dlt < now - maxDiff := by omega
    rw [step_reanchor rate s now pts dlt h hd hw] at hs
    exact hne hs.symm
  · intro hw
    rw [step_anchored rate s now pts dlt h hd hw]

/-! ### bounds — for every call, whatever the history, the clock jumps, the overflow behaviour -/

/-- **Bounds (one call)**: any returned timestamp is never later than the wall clock and never more than
5 s behind it.  No hypothesis on the state, the rate or the operands. -/
theorem step_bounds (rate : Int) (s : St) (now pts out : Int)
    (h : (step rate s now pts).2 = some out) : now - maxDiff ≤ out ∧ out ≤ now := by
  have hm : maxDiff = 5000000000 := rfl
  unfold step at h
  by_cases h0 : s.refNTP = 0
  · simp [h0] at h; omega
  · simp only [h0, if_false] at h
    cases hd : delta rate s pts with
    | none => simp [hd] at h
    | some dlt =>
      simp only [hd] at h
      by_cases hw : s.refNTP + dlt > now ∨ s.refNTP + dlt < now - maxDiff
      · simp [hw] at h; omega
      · simp [hw] at h; omega

/-- outputs paired with their wall-clock readings -/
def BoundsOK : List (Int × Int) → List (Option Int) → Prop
  | [], [] => True
  | (now, _) :: hs, o :: os =>
    (match o with | none => True | some out => now - maxDiff ≤ out ∧ out ≤ now) ∧ BoundsOK hs os
  | _, _ => False

/-- **Bounds (whole history)**: for every initial state and every sequence of (wall clock, pts) — any
jumps, any values — every timestamp produced is within `[now_i - 5 s, now_i]` of its own reading. -/
theorem run_bounds (rate : Int) (hist : List (Int × Int)) :
    ∀ s : St, BoundsOK hist (run rate s hist).2 := by
  induction hist with
  | nil => intro s; simp [run, BoundsOK]
  | cons p rest ih =>
    intro s
    obtain ⟨now, pts⟩ := p
    simp only [run, BoundsOK]
    refine ⟨?_, ih _⟩
    cases ho : (step rate s now pts).2 with
    | none => trivial
    | some out => exact step_bounds rate s now pts out ho

theorem run_length (rate : Int) (hist : List (Int × Int)) :
    ∀ s : St, (run rate s hist).2.length = hist.length := by
  induction hist with
  | nil => intro s; simp [run]
  | cons p rest ih => intro s; obtain ⟨now, pts⟩ := p; simp [run, ih]

/-! ### steady clock — anchored to one reference, no accumulated drift -/

/-- the clock runs steadily relative to the anchor of `s` over a history -/
def Steady (rate : Int) (s : St) (hist : List (Int × Int)) : Prop :=
  ∀ p ∈ hist, ∃ dlt, delta rate s p.2 = some dlt ∧
    p.1 - maxDiff ≤ s.refNTP + dlt ∧ s.refNTP + dlt ≤ p.1

/-- **Steady (whole history)**: from an anchored state, as long as every anchored estimate stays in its
window, the anchor never changes and every output is `refNTP + scale(pts_i - refPTS)` — each output is
computed from the one reference, so errors do not accumulate. -/
theorem steady_run (rate : Int) (hist : List (Int × Int)) (s : St) (h0 : s.refNTP ≠ 0)
    (hs : Steady rate s hist) :
    run rate s hist = (s, hist.map fun p => (delta rate s p.2).map (s.refNTP + ·)) := by
  induction hist with
  | nil => simp [run]
  | cons p rest ih =>
    obtain ⟨now, pts⟩ := p
    obtain ⟨dlt, hd, hw⟩ := hs (now, pts) List.mem_cons_self
    have hrest : Steady rate s rest := fun q hq => hs q (List.mem_cons_of_mem _ hq)
    simp only [run, step_anchored rate s now pts dlt h0 hd hw, ih hrest, List.map_cons, hd, Option.map]

/-- **Consecutive timestamps differ by the scaled frame-timestamp difference**: any two outputs of a
steady run differ exactly by the difference of their scaled offsets from the common anchor. -/
theorem steady_diff (rate : Int) (s : St) (now₁ pts₁ now₂ pts₂ d₁ d₂ : Int) (h0 : s.refNTP ≠ 0)
    (hs : Steady rate s [(now₁, pts₁), (now₂, pts₂)])
    (h1 : delta rate s pts₁ = some d₁) (h2 : delta rate s pts₂ = some d₂) :
    ∃ o₁ o₂, (run rate s [(now₁, pts₁), (now₂, pts₂)]).2 = [some o₁, some o₂] ∧ o₂ - o₁ = d₂ - d₁ := by
  refine ⟨s.refNTP + d₁, s.refNTP + d₂, ?_, by omega⟩
  rw [steady_run rate _ s h0 hs]
  simp [h1, h2]

/-- In the exact range (rate in `1 … 2^32`, no wrap of `pts - refPTS`, scaled value representable) the
offset is the mathematically exact `(pts - refPTS) * 10^9 / rate`, truncated toward zero (uses C24). -/
theorem delta_exact (rate : Int) (s : St) (pts : Int) (h : exactRange rate s.refPTS pts = true) :
    delta rate s pts = some (exact (pts - s.refPTS) nsPerSec rate) := by
  simp only [exactRange, Bool.and_eq_true, decide_eq_true_eq, rateOK] at h
  obtain ⟨⟨hr, hp⟩, hx⟩ := h
  unfold delta
  rw [wrap64_of_in hp]
  exact ticks_to_ns_exact _ rate hr hx

/-- … and that exact offset difference is within one nanosecond of the real-valued scaled difference when
frame timestamps advance (`refPTS ≤ pts₁ ≤ pts₂`): `|rate·(e₂ - e₁) - (pts₂ - pts₁)·10^9| < rate`. -/
theorem exact_diff_within_1ns (rate p0 pts₁ pts₂ : Int) (hr : 0 < rate) (h1 : p0 ≤ pts₁) (h2 : pts₁ ≤ pts₂) :
    -rate < rate * (exact (pts₂ - p0) nsPerSec rate - exact (pts₁ - p0) nsPerSec rate)
        - (pts₂ - pts₁) * nsPerSec ∧
    rate * (exact (pts₂ - p0) nsPerSec rate - exact (pts₁ - p0) nsPerSec rate)
        - (pts₂ - pts₁) * nsPerSec < rate := by
  simp only [exact, nsPerSec]
  have n1 : 0 ≤ (pts₁ - p0) * 1000000000 := by omega
  have n2 : 0 ≤ (pts₂ - p0) * 1000000000 := by omega
  rw [Int.tdiv_eq_ediv_of_nonneg n1, Int.tdiv_eq_ediv_of_nonneg n2]
  have a1 := Int.emod_add_mul_ediv ((pts₁ - p0) * 1000000000) rate
  have a2 := Int.emod_add_mul_ediv ((pts₂ - p0) * 1000000000) rate
  have b1 := Int.emod_nonneg ((pts₁ - p0) * 1000000000) (by omega : rate ≠ 0)
  have b2 := Int.emod_nonneg ((pts₂ - p0) * 1000000000) (by omega : rate ≠ 0)
  have c1 := Int.emod_lt_of_pos ((pts₁ - p0) * 1000000000) hr
  have c2 := Int.emod_lt_of_pos ((pts₂ - p0) * 1000000000) hr
  rw [Int.mul_sub]
  constructor <;> omega

/-! ### the executable spec demands no more than the model does -/

/-- **Spec soundness w.r.t. the model**: on the model's own answer the executable spec never reports a
violation — for every state, rate, reading and timestamp (int64 operands).  Together with `step_bounds`
and `step_anchored` this is the property: bounds always, and the anchored estimate whenever it is in its
window. -/
theorem spec_accepts_model (rate : Int) (s : St) (last : Option Int) (now pts out : Int)
    (h : (step rate s now pts).2 = some out) :
    (specStep rate { refNTP := s.refNTP, refPTS := s.refPTS, lastPTS := last } now pts out
      (step rate s now pts).1.refNTP (step rate s now pts).1.refPTS).2 = none := by
  have hb := step_bounds rate s now pts out h
  unfold specStep
  simp only
  rw [if_neg (by omega), if_neg (by omega)]
  split
  · rename_i hc
    obtain ⟨h0, _, hx⟩ := hc
    have hd := delta_exact rate s pts hx
    split
    · rename_i hw
      rw [step_anchored rate s now pts _ h0 hd hw] at h ⊢
      simp at h
      simp [h]
    · rfl
  · rfl

/-! ### non-vacuity / samples (tests, not theorems) -/

-- the upstream unit test, in nanoseconds relative to an arbitrary non-zero origin 10^18
example : (run 90000 {} [(10^18, 90000), (10^18 + 1000000000, 180000), (10^18 + 3000000000, 270000),
    (10^18 + 2000000000, 360000), (10^18 + 8000000000, 450000), (10^18 + 13000000000, 540000)]).2
  = [some (10^18), some (10^18 + 1000000000), some (10^18 + 2000000000), some (10^18 + 2000000000),
     some (10^18 + 3000000000), some (10^18 + 13000000000)] := by decide
-- a steady history exists (hypothesis of `steady_run` is satisfiable)
example : Steady 90000 ⟨10^18, 0⟩ [(10^18 + 1000000000, 90000), (10^18 + 2000000001, 180000)] := by
  intro p hp
  simp only [List.mem_cons, List.not_mem_nil, or_false] at hp
  rcases hp with rfl | rfl
  · exact ⟨1000000000, by decide, by decide, by decide⟩
  · exact ⟨2000000000, by decide, by decide, by decide⟩
-- outside the exact range (pts difference wraps / scaled value not representable) only the bounds remain:
example : delta 1 ⟨1, 0⟩ (2^62) ≠ some (exact (2^62) nsPerSec 1) := by decide
example : (step 1 ⟨10^18, 0⟩ (10^18 + 5) (2^62)).2 = some (10^18) := by decide  -- 2^62·10^9 ≡ 0 (mod 2^64)
-- zero clock rate panics on the second call
example : (run 0 {} [(10^18, 0), (10^18 + 1, 1)]).2 = [some (10^18), none] := by decide
-- quirk kept from the code: an estimator anchored at the zero instant counts as not initialised
example : (run 90000 {} [(0, 7), (1000000000, 90007)]).1 = ⟨1000000000, 90007⟩ := by decide

end MtxVerif.C25
