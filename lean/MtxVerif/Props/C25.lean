/-
C25 — absolute timestamps track the wall clock.  Property theorems about the estimator automaton
(Model/C25.lean), over arbitrary sequences of (wall-clock reading, frame timestamp), including jumps.
-/
import MtxVerif.Model.C25
import MtxVerif.Lemmas.C24Arith

namespace MtxVerif.C25
open MtxVerif.C24

/-! ### single step: exact case analysis -/

/-- first call (or estimator anchored at the zero instant): anchor at the wall clock -/
theorem step_init (rate : Int) (s : St) (now pts : Int) (h : s.refNTP = 0) :
    step rate s now pts = ({ refNTP := now, refPTS := pts }, some now) := by
  simp [step, h]

/-- zero clock rate: the scaling panics, state unchanged (explicit outcome) -/
theorem step_panic (s : St) (now pts : Int) (h : s.refNTP ≠ 0) :
    step 0 s now pts = (s, none) := by
  simp [step, h, delta, muldiv]

/-- non-zero clock rate: `Estimate` never panics -/
theorem step_no_panic (rate : Int) (s : St) (now pts : Int) (hr : rate ≠ 0) :
    (step rate s now pts).2 ≠ none := by
  unfold step
  split
  · simp
  · simp only [delta, muldiv, if_neg hr]
    split <;> simp

/-- anchored estimate inside the window: it is returned and the anchor is kept -/
theorem step_anchored (rate : Int) (s : St) (now pts dlt : Int) (h : s.refNTP ≠ 0)
    (hd : delta rate s pts = some dlt)
    (hw : now - maxDiff ≤ s.refNTP + dlt ∧ s.refNTP + dlt ≤ now) :
    step rate s now pts = (s, some (s.refNTP + dlt)) := by
  have : ¬ (s.refNTP + dlt > now ∨ s.refNTP + dlt < now - maxDiff) := by omega
  simp [step, h, hd, this]

/-- anchored estimate outside the window: re-anchor at the wall clock -/
theorem step_reanchor (rate : Int) (s : St) (now pts dlt : Int) (h : s.refNTP ≠ 0)
    (hd : delta rate s pts = some dlt)
    (hw : s.refNTP + dlt > now ∨ s.refNTP + dlt < now - maxDiff) :
    step rate s now pts = ({ refNTP := now, refPTS := pts }, some now) := by
  simp [step, h, hd, hw]

/-- **reset condition, exactly**: with an anchor and a non-panicking scaling, the estimator keeps its
anchor iff the anchored estimate lies in `[now - 5 s, now]`. -/
theorem keeps_anchor_iff (rate : Int) (s : St) (now pts dlt : Int) (h : s.refNTP ≠ 0)
    (hd : delta rate s pts = some dlt) (hne : s ≠ { refNTP := now, refPTS := pts }) :
    (step rate s now pts).1 = s ↔ (now - maxDiff ≤ s.refNTP + dlt ∧ s.refNTP + dlt ≤ now) := by
  constructor
  · intro hs
    apply Classical.byContradiction
    intro hn
    have hw : s.refNTP + dlt > now ∨ s.refNTP + dlt < now - maxDiff := by omega
    rw [step_reanchor rate s now pts dlt h hd hw] at hs
    exact hne hs.symm
  · intro hw
    rw [step_anchored rate s now pts dlt h hd hw]

/-! ### bounds — for every call, whatever the history, the clock jumps, the overflow behaviour -/

/-- **Bounds (one call)**: any returned timestamp is never later than the wall clock and never more than
5 s behind it.  No hypothesis on the state, the rate or the operands. -/
theorem step_bounds (rate : Int) (s : St) (now pts out : Int)
    (h : (step rate s now pts).2 = some out) : now - maxDiff ≤ out ∧ out ≤ now := by
  have hm : maxDiff = 5000000000 := rfl
  unfold step at h
  by_cases h0 : s.refNTP = 0
  · simp [h0] at h; omega
  · simp only [h0, if_false] at h
    cases hd : delta rate s pts with
    | none => simp [hd] at h
    | some dlt =>
      simp only [hd] at h
      by_cases hw : s.refNTP + dlt > now ∨ s.refNTP + dlt < now - maxDiff
      · simp [hw] at h; omega
      · simp [hw] at h; omega

/-- outputs paired with their wall-clock readings -/
def BoundsOK : List (Int × Int) → List (Option Int) → Prop
  | [], [] => True
  | (now, _) :: hs, o :: os =>
    (match o with | none => True | some out => now - maxDiff ≤ out ∧ out ≤ now) ∧ BoundsOK hs os
  | _, _ => False

/-- **Bounds (whole history)**: for every initial state and every sequence of (wall clock, pts) — any
jumps, any values — every timestamp produced is within `[now_i - 5 s, now_i]` of its own reading. -/
theorem run_bounds (rate : Int) (hist : List (Int × Int)) :
    ∀ s : St, BoundsOK hist (run rate s hist).2 := by
  induction hist with
  | nil => intro s; simp [run, BoundsOK]
  | cons p rest ih =>
    intro s
    obtain ⟨now, pts⟩ := p
    simp only [run, BoundsOK]
    refine ⟨?_, ih _⟩
    cases ho : (step rate s now pts).2 with
    | none => trivial
    | some out => exact step_bounds rate s now pts out ho

theorem run_length (rate : Int) (hist : List (Int × Int)) :
    ∀ s : St, (run rate s hist).2.length = hist.length := by
  induction hist with
  | nil => intro s; simp [run]
  | cons p rest ih => intro s; obtain ⟨now, pts⟩ := p; simp [run, ih]

/-! ### steady clock — anchored to one reference, no accumulated drift -/

/-- the clock runs steadily relative to the anchor of `s` over a history -/
def Steady (rate : Int) (s : St) (hist : List (Int × Int)) : Prop :=
  ∀ p ∈ hist, ∃ dlt, delta rate s p.2 = some dlt ∧
    p.1 - maxDiff ≤ s.refNTP + dlt ∧ s.refNTP + dlt ≤ p.1

/-- **Steady (whole history)**: from an anchored state, as long as every anchored estimate stays in its
window, the anchor never changes and every output is `refNTP + scale(pts_i - refPTS)` — each output is
computed from the one reference, so errors do not accumulate. -/
theorem steady_run (rate : Int) (hist : List (Int × Int)) (s : St) (h0 : s.refNTP ≠ 0)
    (hs : Steady rate s hist) :
    run rate s hist = (s, hist.map fun p => (delta rate s p.2).map (s.refNTP + ·)) := by
  induction hist with
  | nil => simp [run]
  | cons p rest ih =>
    obtain ⟨now, pts⟩ := p
    obtain ⟨dlt, hd, hw⟩ := hs (now, pts) List.mem_cons_self
    have hrest : Steady rate s rest := fun q hq => hs q (List.mem_cons_of_mem _ hq)
    simp only [run, step_anchored rate s now pts dlt h0 hd hw, ih hrest, List.map_cons, hd, Option.map]

/-- **Consecutive timestamps differ by the scaled frame-timestamp difference**: any two outputs of a
steady run differ exactly by the difference of their scaled offsets from the common anchor. -/
theorem steady_diff (rate : Int) (s : St) (now₁ pts₁ now₂ pts₂ d₁ d₂ : Int) (h0 : s.refNTP ≠ 0)
    (hs : Steady rate s [(now₁, pts₁), (now₂, pts₂)])
    (h1 : delta rate s pts₁ = some d₁) (h2 : delta rate s pts₂ = some d₂) :
    ∃ o₁ o₂, (run rate s [(now₁, pts₁), (now₂, pts₂)]).2 = [some o₁, some o₂] ∧ o₂ - o₁ = d₂ - d₁ := by
  refine ⟨s.refNTP + d₁, s.refNTP + d₂, ?_, by omega⟩
  rw [steady_run rate _ s h0 hs]
  simp [h1, h2]

/-- In the exact range (rate in `1 … 2^32`, no wrap of `pts - refPTS`, scaled value representable) the
offset is the mathematically exact `(pts - refPTS) * 10^9 / rate`, truncated toward zero (uses C24). -/
theorem delta_exact (rate : Int) (s : St) (pts : Int) (h : exactRange rate s.refPTS pts = true) :
    delta rate s pts = some (exact (pts - s.refPTS) nsPerSec rate) := by
  simp only [exactRange, Bool.and_eq_true, decide_eq_true_eq, rateOK] at h
  obtain ⟨⟨hr, hp⟩, hx⟩ := h
  unfold delta
  rw [wrap64_of_in hp]
  exact ticks_to_ns_exact _ rate hr hx

/-- … and that exact offset difference is within one nanosecond of the real-valued scaled difference when
frame timestamps advance (`refPTS ≤ pts₁ ≤ pts₂`): `|rate·(e₂ - e₁) - (pts₂ - pts₁)·10^9| < rate`. -/
theorem exact_diff_within_1ns (rate p0 pts₁ pts₂ : Int) (hr : 0 < rate) (h1 : p0 ≤ pts₁) (h2 : pts₁ ≤ pts₂) :
    -rate < rate * (exact (pts₂ - p0) nsPerSec rate - exact (pts₁ - p0) nsPerSec rate)
        - (pts₂ - pts₁) * nsPerSec ∧
    rate * (exact (pts₂ - p0) nsPerSec rate - exact (pts₁ - p0) nsPerSec rate)
        - (pts₂ - pts₁) * nsPerSec < rate := by
  simp only [exact, nsPerSec]
  have n1 : 0 ≤ (pts₁ - p0) * 1000000000 := by omega
  have n2 : 0 ≤ (pts₂ - p0) * 1000000000 := by omega
  rw [Int.tdiv_eq_ediv_of_nonneg n1, Int.tdiv_eq_ediv_of_nonneg n2]
  have a1 := Int.emod_add_mul_ediv ((pts₁ - p0) * 1000000000) rate
  have a2 := Int.emod_add_mul_ediv ((pts₂ - p0) * 1000000000) rate
  have b1 := Int.emod_nonneg ((pts₁ - p0) * 1000000000) (by omega : rate ≠ 0)
  have b2 := Int.emod_nonneg ((pts₂ - p0) * 1000000000) (by omega : rate ≠ 0)
  have c1 := Int.emod_lt_of_pos ((pts₁ - p0) * 1000000000) hr
  have c2 := Int.emod_lt_of_pos ((pts₂ - p0) * 1000000000) hr
  rw [Int.mul_sub]
  constructor <;> omega

/-! ### the executable spec demands no more than the model does -/

/-- **Spec soundness w.r.t. the model**: on the model's own answer the executable spec never reports a
violation — for every state, rate, reading and timestamp (int64 operands).  Together with `step_bounds`
and `step_anchored` this is the property: bounds always, and the anchored estimate whenever it is in its
window. -/
theorem spec_accepts_model (rate : Int) (s : St) (last : Option Int) (now pts out : Int)
    (h : (step rate s now pts).2 = some out) :
    (specStep rate { refNTP := s.refNTP, refPTS := s.refPTS, lastPTS := last } now pts out
      (step rate s now pts).1.refNTP (step rate s now pts).1.refPTS).2 = none := by
  have hb := step_bounds rate s now pts out h
  unfold specStep
  simp only
  rw [if_neg (by omega), if_neg (by omega)]
  split
  · rename_i hc
    obtain ⟨h0, _, hx⟩ := hc
    have hd := delta_exact rate s pts hx
    split
    · rename_i hw
      rw [step_anchored rate s now pts _ h0 hd hw] at h ⊢
      simp at h
      simp [h]
    · rfl
  · rfl

/-! ### round 2: the observable form of the property (Model/C25 `obsStep`) is met by the model

`obsStep` is what the check evaluates at the integration sites (`stream` always-available paths,
`hls.ToStream`), where only the emitted frames `(now, pts, ntp)` are visible.  The theorem below shows it
demands nothing the estimator does not deliver when it is fed the outgoing frame timestamps at the outgoing
clock rate: over every history, from the initial state. -/

/-- truncated division is additive up to 2 -/
theorem tdiv_add_close (x y d : Int) (hd : 0 < d) :
    -2 ≤ Int.tdiv (x + y) d - Int.tdiv x d - Int.tdiv y d ∧
    Int.tdiv (x + y) d - Int.tdiv x d - Int.tdiv y d ≤ 2 := by
  have e1 := Int.tdiv_mul_add_tmod x d
  have e2 := Int.tdiv_mul_add_tmod y d
  have e3 := Int.tdiv_mul_add_tmod (x + y) d
  have u1 := Int.tmod_lt_of_pos x hd
  have u2 := Int.tmod_lt_of_pos y hd
  have u3 := Int.tmod_lt_of_pos (x + y) hd
  have l1 := Int.lt_tmod_of_pos x hd
  have l2 := Int.lt_tmod_of_pos y hd
  have l3 := Int.lt_tmod_of_pos (x + y) hd
  have hk : (Int.tdiv (x + y) d - Int.tdiv x d - Int.tdiv y d) * d
      = Int.tmod x d + Int.tmod y d - Int.tmod (x + y) d := by
    rw [Int.sub_mul, Int.sub_mul]; omega
  generalize Int.tdiv (x + y) d - Int.tdiv x d - Int.tdiv y d = k at hk
  constructor
  · apply Int.not_lt.mp
    intro hlt
    have h3 : k ≤ -3 := by omega
    have : k * d ≤ -3 * d := Int.mul_le_mul_of_nonneg_right h3 (by omega)
    omega
  · apply Int.not_lt.mp
    intro hlt
    have h3 : 3 ≤ k := by omega
    have : 3 * d ≤ k * d := Int.mul_le_mul_of_nonneg_right h3 (by omega)
    omega

theorem exact_add_close (a b rate : Int) (hr : 0 < rate) :
    -2 ≤ exact (a + b) nsPerSec rate - exact a nsPerSec rate - exact b nsPerSec rate ∧
    exact (a + b) nsPerSec rate - exact a nsPerSec rate - exact b nsPerSec rate ≤ 2 := by
  unfold exact
  rw [Int.add_mul]
  exact tdiv_add_close _ _ rate hr

theorem exact_in_of_small (x rate : Int) (hx : -(2 ^ 33) ≤ x ∧ x ≤ 2 ^ 33) :
    InI64 (exact x nsPerSec rate) := by
  unfold exact nsPerSec InI64
  have h := Int.natAbs_tdiv_le_natAbs (x * 1000000000) rate
  omega

/-- the model's outputs over a history, as a trace of emitted frames -/
def modelTrace (rate : Int) : St → List (Int × Int) → List (Bool × Int × Int × Int)
  | _, [] => []
  | s, (now, pts) :: rest =>
    let r := step rate s now pts
    (true, now, pts, r.2.getD 0) :: modelTrace rate r.1 rest

/-- what links the observer's memory to the estimator's state -/
def ObsInv (rate : Int) (s : St) (o : Obs) : Prop :=
  match o.last with
  | none => s.refNTP = 0
  | some (pn, pp) =>
    o.small = true → (s.refNTP ≠ 0 ∧ ptsSmall s.refPTS = true ∧ ptsSmall pp = true ∧
      pn = s.refNTP + exact (pp - s.refPTS) nsPerSec rate)

theorem obsStep_fst (rOut tol : Int) (o : Obs) (sm : Bool) (now pts ntp : Int) :
    (obsStep rOut tol o sm now pts ntp).1
      = { last := some (ntp, pts), small := o.small && ptsSmall pts && sm } := rfl

/-- the observable spec is satisfied as soon as the bounds hold and, when a demand is made, it is met -/
theorem obsStep_ok (rOut tol : Int) (o : Obs) (sm : Bool) (now pts ntp : Int)
    (hb : now - maxDiff ≤ ntp ∧ ntp ≤ now)
    (hd : ∀ pn pp, o.last = some (pn, pp) → (o.small && ptsSmall pts && sm) = true → pp ≤ pts →
      now - maxDiff + tol ≤ pn + exact (pts - pp) nsPerSec rOut →
      pn + exact (pts - pp) nsPerSec rOut ≤ now + tol →
      ntp - (pn + exact (pts - pp) nsPerSec rOut) ≤ 2 * tol ∧
      (pn + exact (pts - pp) nsPerSec rOut) - ntp ≤ 2 * tol) :
    (obsStep rOut tol o sm now pts ntp).2 = none := by
  simp only [obsStep]
  rw [if_neg (by omega), if_neg (by omega)]
  cases hl : o.last with
  | none => rfl
  | some lp =>
    obtain ⟨pn, pp⟩ := lp
    simp only
    split
    · rename_i c1
      split
      · rename_i c2
        rw [if_pos (hd pn pp hl c1.1 c1.2.2 c2.1 c2.2)]
      · rfl
    · rfl

theorem obsStep_model (rate : Int) (hr : rateOK rate = true) (s : St) (o : Obs) (now pts : Int)
    (hn : now ≠ 0) (hi : ObsInv rate s o) :
    (obsStep rate 4 o true now pts ((step rate s now pts).2.getD 0)).2 = none ∧
    ObsInv rate (step rate s now pts).1 (obsStep rate 4 o true now pts ((step rate s now pts).2.getD 0)).1 := by
  have hr' := hr
  simp only [rateOK, decide_eq_true_eq] at hr'
  have hne : rate ≠ 0 := by omega
  cases hout : (step rate s now pts).2 with
  | none => exact absurd hout (step_no_panic rate s now pts hne)
  | some out =>
  have hb := step_bounds rate s now pts out hout
  simp only [Option.getD]
  rw [obsStep_fst]
  by_cases h0 : s.refNTP = 0
  · -- (re-)initialisation: output = now, new anchor (now, pts)
    have hs := step_init rate s now pts h0
    rw [hs] at hout ⊢
    simp only [Option.some.injEq] at hout
    subst hout
    constructor
    · apply obsStep_ok _ _ _ _ _ _ _ hb
      intro pn pp hl hsm _ _ _
      -- an observer that still trusts its memory contradicts an uninitialised estimator
      unfold ObsInv at hi
      rw [hl] at hi
      simp only [Bool.and_eq_true] at hsm
      exact absurd h0 (hi hsm.1.1).1
    · unfold ObsInv
      simp only
      intro hsm
      simp only [Bool.and_eq_true] at hsm
      exact ⟨hn, hsm.1.2, hsm.1.2, by simp [exact]⟩
  · -- anchored
    by_cases hsmall : (o.small && ptsSmall pts && true) = true
    · have hos : o.small = true := by simp only [Bool.and_eq_true] at hsmall; exact hsmall.1.1
      have hps : ptsSmall pts = true := by simp only [Bool.and_eq_true] at hsmall; exact hsmall.1.2
      cases hl : o.last with
      | none => unfold ObsInv at hi; rw [hl] at hi; exact absurd hi h0
      | some lp =>
        obtain ⟨pn, pp⟩ := lp
        have hi' := hi
        unfold ObsInv at hi'
        rw [hl] at hi'
        obtain ⟨_, hp0, hpp, hpn⟩ := hi' hos
        have hps' := hps
        have hp0' := hp0
        have hpp' := hpp
        simp only [ptsSmall, decide_eq_true_eq] at hps' hp0' hpp'
        have hx : exactRange rate s.refPTS pts = true := by
          simp only [exactRange, Bool.and_eq_true, decide_eq_true_eq]
          refine ⟨⟨hr, ?_⟩, exact_in_of_small _ rate (by omega)⟩
          unfold InI64; omega
        have hd := delta_exact rate s pts hx
        have hclose := exact_add_close (pp - s.refPTS) (pts - pp) rate (by omega)
        have hsum : pp - s.refPTS + (pts - pp) = pts - s.refPTS := by omega
        rw [hsum] at hclose
        by_cases hw : now - maxDiff ≤ s.refNTP + exact (pts - s.refPTS) nsPerSec rate ∧
            s.refNTP + exact (pts - s.refPTS) nsPerSec rate ≤ now
        · have hs := step_anchored rate s now pts _ h0 hd hw
          rw [hs] at hout ⊢
          simp only [Option.some.injEq] at hout
          subst hout
          constructor
          · apply obsStep_ok _ _ _ _ _ _ _ hb
            intro pn2 pp2 hl2 _ _ _ _
            rw [hl] at hl2
            simp only [Option.some.injEq, Prod.mk.injEq] at hl2
            obtain ⟨rfl, rfl⟩ := hl2
            omega
          · unfold ObsInv
            simp only
            intro _
            exact ⟨h0, hp0, hps, trivial⟩
        · have hw' : s.refNTP + exact (pts - s.refPTS) nsPerSec rate > now ∨
              s.refNTP + exact (pts - s.refPTS) nsPerSec rate < now - maxDiff := by omega
          have hs := step_reanchor rate s now pts _ h0 hd hw'
          rw [hs] at hout ⊢
          simp only [Option.some.injEq] at hout
          subst hout
          constructor
          · apply obsStep_ok _ _ _ _ _ _ _ hb
            intro pn2 pp2 hl2 _ _ h1 h2
            rw [hl] at hl2
            simp only [Option.some.injEq, Prod.mk.injEq] at hl2
            obtain ⟨rfl, rfl⟩ := hl2
            omega
          · unfold ObsInv
            simp only
            intro _
            exact ⟨hn, hps, hps, by simp [exact]⟩
    · -- a timestamp outside ±2^32 was seen: only the bounds are demanded from now on
      have hsf : (o.small && ptsSmall pts && true) = false := by
        cases h : (o.small && ptsSmall pts && true) <;> simp_all
      constructor
      · apply obsStep_ok _ _ _ _ _ _ _ hb
        intro _ _ _ hsm
        rw [hsf] at hsm
        contradiction
      · unfold ObsInv
        simp only
        intro hsm
        rw [hsf] at hsm
        contradiction

/-- **The observable spec accepts every run of the model** (rate in `1 … 2^32`, wall clock never at the zero
instant, any timestamps, any jumps): bounds always; consecutive absolute timestamps differ by the scaled
frame-timestamp difference (±4 ns of truncation) whenever that prediction is inside the window. -/
theorem obs_accepts_model (rate : Int) (hr : rateOK rate = true) (hist : List (Int × Int))
    (hn : ∀ p ∈ hist, p.1 ≠ 0) :
    ∀ (s : St) (o : Obs) (i : Nat), ObsInv rate s o →
      obsRun rate 4 o i (modelTrace rate s hist) = none := by
  induction hist with
  | nil => intro s o i _; simp [modelTrace, obsRun]
  | cons p rest ih =>
    intro s o i hi
    obtain ⟨now, pts⟩ := p
    have h := obsStep_model rate hr s o now pts (hn (now, pts) List.mem_cons_self) hi
    simp only [modelTrace, obsRun]
    cases hstep : obsStep rate 4 o true now pts ((step rate s now pts).2.getD 0) with
    | mk o' e =>
      rw [hstep] at h
      simp only at h
      rw [h.1]
      exact ih (fun q hq => hn q (List.mem_cons_of_mem _ hq)) _ o' (i + 1) h.2

theorem obs_accepts_model_init (rate : Int) (hr : rateOK rate = true) (hist : List (Int × Int))
    (hn : ∀ p ∈ hist, p.1 ≠ 0) : obsRun rate 4 {} 0 (modelTrace rate {} hist) = none :=
  obs_accepts_model rate hr hist hn {} {} 0 rfl

/-! ### non-vacuity / samples (tests, not theorems) -/

-- the upstream unit test, in nanoseconds relative to an arbitrary non-zero origin 10^18
example : (run 90000 {} [(10^18, 90000), (10^18 + 1000000000, 180000), (10^18 + 3000000000, 270000),
    (10^18 + 2000000000, 360000), (10^18 + 8000000000, 450000), (10^18 + 13000000000, 540000)]).2
  = [some (10^18), some (10^18 + 1000000000), some (10^18 + 2000000000), some (10^18 + 2000000000),
     some (10^18 + 3000000000), some (10^18 + 13000000000)] := by decide
-- a steady history exists (hypothesis of `steady_run` is satisfiable)
example : Steady 90000 ⟨10^18, 0⟩ [(10^18 + 1000000000, 90000), (10^18 + 2000000001, 180000)] := by
  intro p hp
  simp only [List.mem_cons, List.not_mem_nil, or_false] at hp
  rcases hp with rfl | rfl
  · exact ⟨1000000000, by decide, by decide, by decide⟩
  · exact ⟨2000000000, by decide, by decide, by decide⟩
-- outside the exact range (pts difference wraps / scaled value not representable) only the bounds remain:
example : delta 1 ⟨1, 0⟩ (2^62) ≠ some (exact (2^62) nsPerSec 1) := by decide
example : (step 1 ⟨10^18, 0⟩ (10^18 + 5) (2^62)).2 = some (10^18) := by decide  -- 2^62·10^9 ≡ 0 (mod 2^64)
-- zero clock rate panics on the second call
example : (run 0 {} [(10^18, 0), (10^18 + 1, 1)]).2 = [some (10^18), none] := by decide
-- quirk kept from the code: an estimator anchored at the zero instant counts as not initialised
-- (this is why `obs_accepts_model` excludes a wall clock reading of exactly 0, i.e. January 1 of year 1)
example : (run 90000 {} [(0, 7), (1000000000, 90007)]).1 = ⟨1000000000, 90007⟩ := by decide

end MtxVerif.C25
