/-
C34 — client-supplied descriptors parse faithfully.  Property theorems about `Model/C34`.
-/
import MtxVerif.Model.C34

namespace MtxVerif.C34

/-! ### helper facts on the `strings` model (no property is stated in this block) -/

theorem noByte_nil (c : UInt8) : noByte c [] = true := by simp [noByte]

theorem noByte_cons (c x : UInt8) (s : Bytes) :
    noByte c (x :: s) = true ↔ x ≠ c ∧ noByte c s = true := by
  simp only [noByte, List.contains_cons, Bool.not_eq_true', Bool.or_eq_false_iff, beq_eq_false_iff_ne,
    ne_eq]
  constructor
  · rintro ⟨a, b⟩; exact ⟨fun h => a h.symm, b⟩
  · rintro ⟨a, b⟩; exact ⟨fun h => a h.symm, b⟩

theorem noByte_append (c : UInt8) (a b : Bytes) :
    noByte c (a ++ b) = true ↔ noByte c a = true ∧ noByte c b = true := by
  induction a with
  | nil => simp [noByte_nil]
  | cons x a ih => simp only [List.cons_append, noByte_cons, ih, and_assoc]

theorem splitB_ne_nil (sep : UInt8) (s : Bytes) : splitB sep s ≠ [] := by
  induction s with
  | nil => simp [splitB]
  | cons c rest ih =>
    unfold splitB
    split
    · simp
    · cases h : splitB sep rest with
      | nil => exact absurd h ih
      | cons a b => simp [consHead]

theorem splitB_noSep (sep : UInt8) (a : Bytes) (h : noByte sep a = true) : splitB sep a = [a] := by
  induction a with
  | nil => rfl
  | cons c a ih =>
    obtain ⟨hc, ha⟩ := (noByte_cons _ _ _).mp h
    simp [splitB, hc, ih ha, consHead]

theorem splitB_append (sep : UInt8) (a r : Bytes) (h : noByte sep a = true) :
    splitB sep (a ++ sep :: r) = a :: splitB sep r := by
  induction a with
  | nil => simp [splitB]
  | cons c a ih =>
    obtain ⟨hc, ha⟩ := (noByte_cons _ _ _).mp h
    simp [splitB, hc, ih ha, consHead]

/-- `strings.Split(strings.Join(parts, sep), sep) = parts` when no part contains the separator -/
theorem splitB_joinB (sep : UInt8) (parts : List Bytes) (hne : parts ≠ [])
    (h : parts.all (noByte sep) = true) : splitB sep (joinB sep parts) = parts := by
  induction parts with
  | nil => exact absurd rfl hne
  | cons a rest ih =>
    cases rest with
    | nil =>
      simp only [List.all_cons, List.all_nil, Bool.and_true] at h
      simpa [joinB] using splitB_noSep sep a h
    | cons b rest =>
      simp only [List.all_cons, Bool.and_eq_true] at h
      have := ih (by simp) (by simp only [List.all_cons, Bool.and_eq_true]; exact h.2)
      simp only [joinB] at this ⊢
      rw [splitB_append sep a _ h.1, this]

theorem cutB_append (sep : UInt8) (k v : Bytes) (h : noByte sep k = true) :
    cutB sep (k ++ sep :: v) = some (k, v) := by
  induction k with
  | nil => simp [cutB]
  | cons c k ih =>
    obtain ⟨hc, hk⟩ := (noByte_cons _ _ _).mp h
    simp [cutB, hc, ih hk]

theorem cutB_none (sep : UInt8) (s : Bytes) (h : noByte sep s = true) : cutB sep s = none := by
  induction s with
  | nil => rfl
  | cons c s ih =>
    obtain ⟨hc, hs⟩ := (noByte_cons _ _ _).mp h
    simp [cutB, hc, ih hs]

theorem trimSuffix_append (suf s : Bytes) : trimSuffix suf (s ++ suf) = s := by
  have : suf.isSuffixOf (s ++ suf) = true := by
    rw [List.isSuffixOf_iff_suffix]; exact List.suffix_append s suf
  simp [trimSuffix, this]

theorem trimSuffix_id (suf s : Bytes) (h : suf.isSuffixOf s = false) : trimSuffix suf s = s := by
  simp [trimSuffix, h]

/-! ### SRT stream id, custom syntax `action:pathname[:user:pass][:query]` -/

theorem action_ne_std (p : Bool) (rest : Bytes) : kStd.isPrefixOf (action p ++ rest) = false := by
  cases p <;> simp [action, kStd, kRead, kPublish, List.isPrefixOf]

theorem mkCustom_action (p : Bool) (path query user pass : Bytes) :
    mkCustom (action p) path query user pass =
      .ok { publish := p, path := path, query := query, user := user, pass := pass } := by
  cases p <;> simp [mkCustom, action, kRead, kPublish]

theorem render_eq (d : CDesc) : d.render = action d.publish ++ 58 :: joinB 58 d.fields := by
  simp only [CDesc.render, CDesc.parts, CDesc.fields, joinB]

theorem action_noColon (p : Bool) : noByte 58 (action p) = true := by
  cases p <;> decide

/-- splitting a rendered descriptor (with anything `:`-free appended) gives back its parts -/
theorem split_render (d : CDesc) (h : d.sepFree = true) :
    splitB 58 d.render = d.parts := by
  apply splitB_joinB
  · simp [CDesc.parts]
  · simp only [CDesc.parts, List.all_cons, Bool.and_eq_true]
    exact ⟨action_noColon _, by simpa [CDesc.sepFree, CDesc.fields] using h⟩

/-- the descriptor the parser sees: one `#feedbackplay` suffix is removed from the last field -/
def CDesc.trimLast (d : CDesc) : CDesc :=
  match d.query, d.creds with
  | some q, _ => { d with query := some (trimFb q) }
  | none, some (u, w) => { d with creds := some (u, trimFb w) }
  | none, none => { d with path := trimFb d.path }

/-- **Custom syntax, exact result.**  For every descriptor whose fields contain no `:` the parser
returns the descriptor with one trailing `#feedbackplay` removed from its last field. -/
theorem custom_parse (d : CDesc) (hsep : d.sepFree = true) :
    unmarshal d.render = .ok d.trimLast.sid := by
  have hsplit := split_render d hsep
  have hstd : kStd.isPrefixOf d.render = false := by rw [render_eq]; exact action_ne_std _ _
  simp only [unmarshal, hstd, hsplit, CDesc.parts]
  obtain ⟨pub, path, creds, query⟩ := d
  cases creds with
  | none =>
    cases query <;>
      simp [CDesc.tailParts, customParts, mkCustom_action, CDesc.sid, CDesc.trimLast]
  | some up =>
    obtain ⟨u, w⟩ := up
    cases query <;>
      simp [CDesc.tailParts, customParts, mkCustom_action, CDesc.sid, CDesc.trimLast]

theorem trimLast_id (d : CDesc) (hfb : kFeedback.isSuffixOf d.last = false) : d.trimLast = d := by
  obtain ⟨pub, path, creds, query⟩ := d
  cases creds with
  | none =>
    cases query <;>
      (simp only [CDesc.last, CDesc.fields, CDesc.tailParts, List.append_nil, List.nil_append,
        List.getLastD_cons, List.getLastD_nil] at hfb
       simp [CDesc.trimLast, trimFb, trimSuffix_id _ _ hfb])
  | some up =>
    obtain ⟨u, w⟩ := up
    cases query <;>
      (simp only [CDesc.last, CDesc.fields, CDesc.tailParts, List.append_nil, List.cons_append,
        List.nil_append, List.getLastD_cons, List.getLastD_nil] at hfb
       simp [CDesc.trimLast, trimFb, trimSuffix_id _ _ hfb])

/-- **Custom syntax, round trip.**  For every descriptor whose fields contain no `:` and whose last
field does not end in `#feedbackplay`, the parser returns exactly action, path, credentials, query. -/
theorem custom_roundtrip (d : CDesc) (hsep : d.sepFree = true)
    (hfb : kFeedback.isSuffixOf d.last = false) :
    unmarshal d.render = .ok d.sid := by
  rw [custom_parse d hsep, trimLast_id d hfb]

theorem trimFb_length (s : Bytes) (h : kFeedback.isSuffixOf s = true) :
    (trimFb s).length + 13 = s.length := by
  have hl : 13 ≤ s.length := by
    have := (List.isSuffixOf_iff_suffix.mp h).length_le
    simpa [kFeedback] using this
  unfold trimFb trimSuffix
  rw [if_pos h, List.length_take]
  simp only [kFeedback, List.length_cons, List.length_nil]
  omega

/-- the `#feedbackplay` side condition is exact: a last field that ends in it is NOT read back -/
theorem custom_roundtrip_iff (d : CDesc) (hsep : d.sepFree = true) :
    unmarshal d.render = .ok d.sid ↔ kFeedback.isSuffixOf d.last = false := by
  constructor
  · intro h
    cases hfb : kFeedback.isSuffixOf d.last with
    | false => rfl
    | true =>
      exfalso
      rw [custom_parse d hsep] at h
      have h' : d.trimLast.sid = d.sid := by injection h
      obtain ⟨pub, path, creds, query⟩ := d
      cases creds with
      | none =>
        cases query with
        | none =>
          simp only [CDesc.last, CDesc.fields, CDesc.tailParts, List.append_nil,
            List.getLastD_cons, List.getLastD_nil] at hfb
          have := trimFb_length _ hfb
          simp only [CDesc.trimLast, CDesc.sid, SID.mk.injEq] at h'
          rw [h'.2.1] at this; omega
        | some q =>
          simp only [CDesc.last, CDesc.fields, CDesc.tailParts, List.nil_append,
            List.getLastD_cons, List.getLastD_nil] at hfb
          have := trimFb_length _ hfb
          simp only [CDesc.trimLast, CDesc.sid, SID.mk.injEq, Option.getD_some] at h'
          rw [h'.2.2.1] at this; omega
      | some up =>
        obtain ⟨u, w⟩ := up
        cases query with
        | none =>
          simp only [CDesc.last, CDesc.fields, CDesc.tailParts, List.append_nil,
            List.getLastD_cons, List.getLastD_nil] at hfb
          have := trimFb_length _ hfb
          simp only [CDesc.trimLast, CDesc.sid, SID.mk.injEq, Option.map_some, Option.getD_some] at h'
          rw [h'.2.2.2.2] at this; omega
        | some q =>
          simp only [CDesc.last, CDesc.fields, CDesc.tailParts, List.cons_append, List.nil_append,
            List.getLastD_cons, List.getLastD_nil] at hfb
          have := trimFb_length _ hfb
          simp only [CDesc.trimLast, CDesc.sid, SID.mk.injEq, Option.getD_some] at h'
          rw [h'.2.2.1] at this; omega
  · exact custom_roundtrip d hsep

/-- a descriptor with `#feedbackplay` appended to its last field -/
def CDesc.withFb (d : CDesc) : CDesc :=
  match d.query, d.creds with
  | some q, _ => { d with query := some (q ++ kFeedback) }
  | none, some (u, w) => { d with creds := some (u, w ++ kFeedback) }
  | none, none => { d with path := d.path ++ kFeedback }

theorem withFb_render (d : CDesc) : d.withFb.render = d.render ++ kFeedback := by
  obtain ⟨pub, path, creds, query⟩ := d
  cases creds with
  | none =>
    cases query <;> simp [CDesc.withFb, CDesc.render, CDesc.parts, CDesc.tailParts, joinB]
  | some up =>
    obtain ⟨u, w⟩ := up
    cases query <;> simp [CDesc.withFb, CDesc.render, CDesc.parts, CDesc.tailParts, joinB]

/-- **`#feedbackplay` suffix rule** (issue 5414): a stream id followed by `#feedbackplay` yields the
same action, path, credentials and query as the stream id alone — for EVERY `:`-free descriptor. -/
theorem custom_feedback_suffix (d : CDesc) (hsep : d.sepFree = true) :
    unmarshal (d.render ++ kFeedback) = .ok d.sid := by
  have hsep' : d.withFb.sepFree = true := by
    have hk : noByte 58 kFeedback = true := by decide
    obtain ⟨pub, path, creds, query⟩ := d
    cases creds with
    | none =>
      cases query <;>
        simp_all [CDesc.withFb, CDesc.sepFree, CDesc.fields, CDesc.tailParts, noByte_append]
    | some up =>
      obtain ⟨u, w⟩ := up
      cases query <;>
        simp_all [CDesc.withFb, CDesc.sepFree, CDesc.fields, CDesc.tailParts, noByte_append]
  rw [← withFb_render, custom_parse _ hsep']
  congr 1
  obtain ⟨pub, path, creds, query⟩ := d
  cases creds with
  | none =>
    cases query <;> simp [CDesc.withFb, CDesc.trimLast, CDesc.sid, trimFb, trimSuffix_append]
  | some up =>
    obtain ⟨u, w⟩ := up
    cases query <;> simp [CDesc.withFb, CDesc.trimLast, CDesc.sid, trimFb, trimSuffix_append]

/-- error cases of the custom syntax: fewer than 2 or more than 5 `:`-separated parts, or an action
other than `read` / `publish` — and nothing else — is rejected -/
theorem custom_ok_iff (raw : Bytes) (hstd : kStd.isPrefixOf raw = false) :
    (∃ s, unmarshal raw = .ok s) ↔
      2 ≤ (splitB 58 raw).length ∧ (splitB 58 raw).length ≤ 5 ∧
        ((splitB 58 raw).head? = some kRead ∨ (splitB 58 raw).head? = some kPublish) := by
  simp only [unmarshal, hstd, Bool.false_eq_true, if_false]
  generalize splitB 58 raw = parts
  have mk : ∀ a p q u w, (∃ s, mkCustom a p q u w = .ok s) ↔ (a = kRead ∨ a = kPublish) := by
    intro a p q u w
    unfold mkCustom
    by_cases h1 : a = kRead
    · simp [h1]
    · by_cases h2 : a = kPublish
      · have : kPublish ≠ kRead := by decide
        simp [h2, this]
      · simp [h1, h2]
  match parts with
  | [] => simp [customParts]
  | [_] => simp [customParts]
  | [a, p] => simp [customParts, mk]
  | [a, p, q] => simp [customParts, mk]
  | [a, p, u, w] => simp [customParts, mk]
  | [a, p, u, w, q] => simp [customParts, mk]
  | _ :: _ :: _ :: _ :: _ :: _ :: _ => simp [customParts]

/-- every rejection of the custom syntax is the format error -/
theorem custom_err_format (raw : Bytes) (hstd : kStd.isPrefixOf raw = false) (e : Err)
    (h : unmarshal raw = .err e) : e = .format := by
  simp only [unmarshal, hstd, Bool.false_eq_true, if_false] at h
  have mk : ∀ a p q u w, mkCustom a p q u w = .err e → e = .format := by
    intro a p q u w
    unfold mkCustom
    split
    · intro h; cases h
    · split
      · intro h; cases h
      · intro h; injection h with h; exact h.symm
  revert h
  generalize splitB 58 raw = parts
  intro h
  unfold customParts at h
  split at h
  · exact mk _ _ _ _ _ h
  · exact mk _ _ _ _ _ h
  · exact mk _ _ _ _ _ h
  · exact mk _ _ _ _ _ h
  · injection h with h; exact h.symm

/-! ### SRT stream id, standard syntax `#!::key=value,…` -/

theorem stdItem_render (s : SID) (k v : Bytes) (hk : noByte 61 k = true) :
    stdItem s (renderKV (k, v)) = applyKV s k v := by
  simp [stdItem, renderKV, cutB_append 61 k v hk]

/-- an item without `=` is rejected -/
theorem stdItem_noEq (s : SID) (kv : Bytes) (h : noByte 61 kv = true) :
    stdItem s kv = .err .invalidValue := by
  simp [stdItem, cutB_none 61 kv h]

theorem stdFold_render (s : SID) (kvs : List (Bytes × Bytes)) (h : stdSepFree kvs = true) :
    stdFold s (kvs.map renderKV) = applyAll s kvs := by
  induction kvs generalizing s with
  | nil => rfl
  | cons kv rest ih =>
    simp only [stdSepFree, List.all_cons, Bool.and_eq_true] at h
    obtain ⟨k, v⟩ := kv
    simp only [List.map_cons, stdFold, applyAll, stdItem_render s k v h.1.1.1]
    cases applyKV s k v with
    | ok s' => exact ih s' (by simpa [stdSepFree] using h.2)
    | err e => rfl

/-- **Standard syntax, exact result.**  For every non-empty key/value list whose keys avoid `=` and
`,` and whose values avoid `,` (values may contain `=`), the parser applies exactly the listed items:
`u` user, `r` path, `s` password, `m` mode (`request`/`publish`, anything else is an error), every
other key ignored, later items override earlier ones, no query. -/
theorem std_parse (kvs : List (Bytes × Bytes)) (hne : kvs ≠ []) (h : stdSepFree kvs = true) :
    unmarshal (renderStd kvs) = applyAll {} kvs := by
  have hp : kStd.isPrefixOf (kStd ++ joinB 44 (kvs.map renderKV)) = true := by
    simp [kStd, List.isPrefixOf]
  have hd : (kStd ++ joinB 44 (kvs.map renderKV)).drop 4 = joinB 44 (kvs.map renderKV) := by
    simp [kStd]
  have hall : (kvs.map renderKV).all (noByte 44) = true := by
    simp only [List.all_map, List.all_eq_true]
    intro kv hkv
    have := List.all_eq_true.mp h kv hkv
    simp only [Bool.and_eq_true] at this
    simp only [Function.comp, renderKV]
    exact (noByte_append _ _ _).mpr ⟨this.1.2, (noByte_cons _ _ _).mpr ⟨by decide, this.2⟩⟩
  simp only [unmarshal, renderStd, hp, hd, if_true]
  rw [splitB_joinB 44 _ (by simpa using hne) hall]
  exact stdFold_render {} kvs h

/-- **Standard syntax, round trip** of the documented descriptor `#!::m=…,r=…,u=…,s=…`: exactly the
action, path and credentials come back whenever path, user and password contain no `,`
(the standard syntax carries no query). -/
theorem std_roundtrip (s : SID) (hq : s.query = [])
    (hp : noByte 44 s.path = true) (hu : noByte 44 s.user = true) (hw : noByte 44 s.pass = true) :
    unmarshal (renderStd (stdDesc s)) = .ok s := by
  have hm : noByte 44 (if s.publish then kPublish else kRequest) = true := by
    cases s.publish <;> decide
  rw [std_parse _ (by simp [stdDesc])
    (by simp [stdSepFree, stdDesc, hp, hu, hw, hm]; decide)]
  obtain ⟨pub, path, query, user, pass⟩ := s
  simp only at hq
  subst hq
  cases pub <;> simp [stdDesc, applyAll, applyKV, kRequest, kPublish]

/-- keys other than `u`, `r`, `s`, `m` (e.g. `h`, `t`, vendor keys — issue 3701) change nothing -/
theorem applyKV_ignored (s : SID) (k v : Bytes)
    (h : k ≠ [117] ∧ k ≠ [114] ∧ k ≠ [115] ∧ k ≠ [109]) : applyKV s k v = .ok s := by
  simp [applyKV, h.1, h.2.1, h.2.2.1, h.2.2.2]

/-- a mode other than `request` / `publish` is rejected -/
theorem applyKV_badMode (s : SID) (v : Bytes) (h : v ≠ kRequest ∧ v ≠ kPublish) :
    applyKV s [109] v = .err .badMode := by
  simp [applyKV, h.1, h.2]

/-! non-vacuity and necessity of the side conditions (tests, not theorems) -/

-- `read:mypath:myuser:mypass:myquery`
example : unmarshal (asc ['r','e','a','d',':','p',':','u',':','w',':','q']) =
    .ok { publish := false, path := asc ['p'], query := asc ['q'], user := asc ['u'], pass := asc ['w'] } := by
  decide
-- a `:` inside the password shifts the fields (side condition `sepFree` is needed)
example : unmarshal (CDesc.render ⟨true, asc ['p'], some (asc ['u'], asc ['a',':','b']), none⟩) =
    .ok { publish := true, path := asc ['p'], query := asc ['b'], user := asc ['u'], pass := asc ['a'] } := by
  decide
-- `#!::` alone is an error (strings.Split("", ",") = [""])
example : unmarshal kStd = .err .invalidValue := by decide
-- a `,` inside a value cuts it and makes the remainder an item of its own
example : unmarshal (renderStd [([114], asc ['a',',','b'])]) = .err .invalidValue := by decide
example : (CDesc.mk true (asc ['p']) (some (asc ['u'], asc ['w'])) (some (asc ['q']))).sepFree = true := by
  decide

/-! ### WHIP/WHEP Link header -/

/-- **quote/escape lemma**: reading a quoted credential stops at the closing quote that was written,
for EVERY byte string (including ones made of quotes and backslashes) and every continuation. -/
theorem readQ_quote (s acc rest : Bytes) :
    readQ false acc (quote s ++ 34 :: rest) = some (acc ++ s, rest) := by
  induction s generalizing acc with
  | nil => simp [quote, readQ]
  | cons c s ih =>
    by_cases h1 : c = 92
    · subst h1; simp [quote, readQ, ih]
    · by_cases h2 : c = 34
      · subst h2; simp [quote, readQ, ih]
      · simp [quote, readQ, h1, h2, ih]

theorem readQuoted_quote (s rest : Bytes) :
    readQuoted (34 :: (quote s ++ 34 :: rest)) = some (s, rest) := by
  simp [readQuoted, readQ_quote]

theorem cutPrefix_append (p r : Bytes) : cutPrefix p (p ++ r) = some r := by
  have : p.isPrefixOf (p ++ r) = true := by
    rw [List.isPrefixOf_iff_prefix]; exact List.prefix_append p r
  simp [cutPrefix, this]

theorem tail_prefix_short (sepT u r : Bytes) (c0 : UInt8) (hn : noByte c0 sepT = true)
    (h : sepT.isPrefixOf (u ++ c0 :: r) = true) : sepT.isPrefixOf u = true := by
  induction sepT generalizing u with
  | nil => simp
  | cons x xs ih =>
    obtain ⟨hx, hxs⟩ := (noByte_cons _ _ _).mp hn
    cases u with
    | nil => simp [List.isPrefixOf, hx] at h
    | cons y u =>
      simp only [List.cons_append, List.isPrefixOf, Bool.and_eq_true] at h ⊢
      exact ⟨h.1, ih u hxs h.2⟩

theorem kRelSep_eq : kRelSep = 62 :: kRelSepTail := by decide

/-- `strings.Cut(url + ">; rel=\"ice-server\"" + tail, ">; rel=\"ice-server\"")` cuts at the
separator that was written iff (see `cutS_infix`) the URL does not contain the separator itself -/
theorem cutS_relSep (url t : Bytes) (h : hasInfix kRelSep url = false) :
    cutS kRelSep (url ++ kRelSep ++ t) = some (url, t) := by
  induction url with
  | nil =>
    have hp : kRelSep.isPrefixOf (kRelSep ++ t) = true := by
      rw [List.isPrefixOf_iff_prefix]; exact List.prefix_append _ _
    have hd : (kRelSep ++ t).drop kRelSep.length = t := List.drop_left
    rw [List.nil_append]
    rw [kRelSep_eq] at hp hd ⊢
    simp only [List.cons_append] at hp hd ⊢
    simp only [cutS, hp, if_true, hd]
  | cons y u ih =>
    simp only [hasInfix, Bool.or_eq_false_iff] at h
    have hnp : kRelSep.isPrefixOf (y :: u ++ kRelSep ++ t) = false := by
      cases hp : kRelSep.isPrefixOf (y :: u ++ kRelSep ++ t) with
      | false => rfl
      | true =>
        exfalso
        rw [kRelSep_eq] at hp h
        simp only [List.cons_append, List.append_assoc, List.isPrefixOf, Bool.and_eq_true] at hp
        have := tail_prefix_short kRelSepTail u (kRelSepTail ++ t) 62 (by decide) hp.2
        have h1 := h.1
        simp only [List.isPrefixOf, Bool.and_eq_false_iff] at h1
        rcases h1 with h1 | h1
        · rw [hp.1] at h1; cases h1
        · rw [this] at h1; cases h1
    simp only [List.cons_append] at hnp ⊢
    simp only [cutS, hnp, Bool.false_eq_true, if_false]
    have := ih h.2
    simp only [List.append_assoc] at this ⊢
    rw [this]

theorem cutS_relSep_r (url t : Bytes) (h : hasInfix kRelSep url = false) :
    cutS kRelSep (url ++ (kRelSep ++ t)) = some (url, t) := by
  rw [← List.append_assoc]; exact cutS_relSep url t h

theorem cutPrefix_cons (c : UInt8) (r : Bytes) : cutPrefix [c] (c :: r) = some r := by
  simpa using cutPrefix_append [c] r

theorem cutPrefix_self (p : Bytes) : cutPrefix p p = some [] := by
  simpa using cutPrefix_append p []

theorem readCreds_rendered (url user c : Bytes) (hu : user ≠ []) :
    readCreds url (kUsername ++ (34 :: (quote user ++ 34 :: (kCredential ++ (34 :: (quote c ++ 34 :: kCredType))))))
      = some { url := url, user := user, cred := some c } := by
  simp only [readCreds, cutPrefix_append, readQuoted_quote, hu, if_false, cutPrefix_self, if_true]

/-- one entry: what `LinkHeaderMarshal` writes, `LinkHeaderUnmarshal` reads back -/
theorem unmarshal1_marshal1 (s : IceIn) (h : s.wf = true) :
    ∃ hd, marshal1 s = some hd ∧ unmarshal1 hd = some s.back := by
  obtain ⟨urls, user, cred⟩ := s
  cases urls with
  | nil => simp [IceIn.wf] at h
  | cons url urls =>
    simp only [IceIn.wf, Bool.and_eq_true, Bool.not_eq_true', Bool.or_eq_true,
      decide_eq_true_eq] at h
    by_cases hu : user = []
    · subst hu
      refine ⟨60 :: (url ++ (kRelSep ++ [])), by simp [marshal1], ?_⟩
      simp only [unmarshal1, cutPrefix_cons, cutS_relSep_r url [] h.1, if_true, IceIn.back,
        List.headD_cons]
    · rcases h.2 with h2 | h2
      · exact absurd h2 hu
      · cases cred with
        | none => simp at h2
        | some c =>
          refine ⟨60 :: (url ++ (kRelSep ++ (kUsername ++ (34 :: (quote user ++ 34 :: (kCredential ++
            (34 :: (quote c ++ 34 :: kCredType)))))))), by simp [marshal1, hu], ?_⟩
          have hne : kUsername ++ (34 :: (quote user ++ 34 :: (kCredential ++
            (34 :: (quote c ++ 34 :: kCredType))))) ≠ [] := by simp [kUsername]
          simp only [unmarshal1, cutPrefix_cons, cutS_relSep_r url _ h.1, hne, if_false,
            readCreds_rendered url user c hu, IceIn.back, hu, List.headD_cons]

/-- **Link header round trip.**  Whatever `LinkHeaderMarshal` writes for a list of ICE servers,
`LinkHeaderUnmarshal` reads back entry by entry: same URL, and — for ALL username / credential byte
strings — the same username and credential.  Only side conditions: the URL does not contain the
literal `>; rel="ice-server"`; an entry with an EMPTY username is written without credentials (and so
comes back without). -/
theorem unmarshal_marshal (l : List IceIn) (h : ∀ s ∈ l, s.wf = true) :
    ∃ hs, marshal l = some hs ∧ unmarshalL hs = some (l.map IceIn.back) := by
  induction l with
  | nil => exact ⟨[], rfl, rfl⟩
  | cons s rest ih =>
    obtain ⟨hd, h1, h2⟩ := unmarshal1_marshal1 s (h s List.mem_cons_self)
    obtain ⟨tl, h3, h4⟩ := ih (fun x hx => h x (List.mem_cons_of_mem _ hx))
    exact ⟨hd :: tl, by simp [marshal, h1, h3], by simp [unmarshalL, h2, h4]⟩

/-- **Credentials are read back unchanged for any string** (the property's wording): any non-empty
username and any credential, whatever bytes they contain. -/
theorem credentials_roundtrip (url user cred : Bytes) (more : List Bytes)
    (hurl : hasInfix kRelSep url = false) (hu : user ≠ []) :
    ∃ hd, marshal1 ⟨url :: more, user, some cred⟩ = some hd ∧
      unmarshal1 hd = some ⟨url, user, some cred⟩ := by
  have := unmarshal1_marshal1 ⟨url :: more, user, some cred⟩ (by simp [IceIn.wf, hurl])
  simpa [IceIn.back, hu] using this

/-- the URL side condition is exact: a URL containing the separator is cut short -/
theorem cutS_infix (sep s : Bytes) (h : hasInfix sep s = true) (t : Bytes) :
    ∃ a b, cutS sep (s ++ t) = some (a, b) ∧ a.length + sep.length ≤ s.length := by
  induction s with
  | nil =>
    simp only [hasInfix, List.isEmpty_iff] at h
    subst h
    cases t with
    | nil => exact ⟨[], [], by simp [cutS], by simp⟩
    | cons c t => exact ⟨[], c :: t, by simp [cutS], by simp⟩
  | cons c s ih =>
    simp only [hasInfix, Bool.or_eq_true] at h
    by_cases hp : sep.isPrefixOf (c :: s) = true
    · have hp' : sep.isPrefixOf (c :: s ++ t) = true := by
        rw [List.isPrefixOf_iff_prefix] at hp ⊢
        exact hp.trans (List.prefix_append _ _)
      have hl := (List.isPrefixOf_iff_prefix.mp hp).length_le
      simp only [List.cons_append] at hp'
      exact ⟨[], (c :: (s ++ t)).drop sep.length,
        by simp only [List.cons_append, cutS, hp', if_true], by simpa using hl⟩
    · rcases h with h | h
      · exact absurd h hp
      · obtain ⟨a, b, h1, h2⟩ := ih h
        by_cases hp' : sep.isPrefixOf (c :: (s ++ t)) = true
        · have hl := (List.isPrefixOf_iff_prefix.mp hp').length_le
          exact ⟨[], (c :: (s ++ t)).drop sep.length,
            by simp only [List.cons_append, cutS, hp', if_true], by
            simp only [List.length_nil, List.length_cons]; omega⟩
        · have hp'' : sep.isPrefixOf (c :: (s ++ t)) = false := Bool.eq_false_iff.mpr hp'
          exact ⟨c :: a, b, by simp [cutS, hp'', h1], by
            simp only [List.length_cons]; omega⟩

/-- where Go panics, the model says so: no URL, or a username with a non-string credential -/
theorem marshal1_panics (s : IceIn) :
    marshal1 s = none ↔ s.urls = [] ∨ (s.user ≠ [] ∧ s.cred = none) := by
  obtain ⟨urls, user, cred⟩ := s
  cases urls with
  | nil => simp [marshal1]
  | cons u us =>
    by_cases hu : user = []
    · simp [marshal1, hu]
    · cases cred <;> simp [marshal1, hu]

-- tests: hostile credentials made of quotes and backslashes
example : (marshal1 ⟨[asc ['s']], asc ['"','\\'], some (asc ['\\','\\','"'])⟩).bind unmarshal1 =
    some ⟨asc ['s'], asc ['"','\\'], some (asc ['\\','\\','"'])⟩ := by decide
-- empty username: credentials are not written
example : (marshal1 ⟨[asc ['s']], [], some (asc ['x'])⟩).bind unmarshal1 = some ⟨asc ['s'], [], none⟩ := by
  decide
example : (IceIn.mk [asc ['s','t','u','n',':','h']] (asc ['u']) (some [])).wf = true := by decide

/-! ### HTTP `Credentials` -/

theorem splitB_length (sep : UInt8) (s : Bytes) : (splitB sep s).length = countB sep s + 1 := by
  induction s with
  | nil => simp [splitB, countB]
  | cons c s ih =>
    unfold splitB
    by_cases h : c = sep
    · subst h; simp [ih, countB]
    · have hc : countB sep (c :: s) = countB sep s := by
        simp [countB, h]
      rw [if_neg h, hc, ← ih]
      cases hs : splitB sep s with
      | nil => exact absurd hs (splitB_ne_nil sep s)
      | cons a b => simp [consHead]

theorem firstBearer_skip (pre post : List Bytes) (p : Bytes)
    (h : ∀ x ∈ pre, kBearer.isPrefixOf x = false) :
    firstBearer (pre ++ (kBearer ++ p) :: post) = some p := by
  induction pre with
  | nil =>
    have hp : kBearer.isPrefixOf (kBearer ++ p) = true := by
      rw [List.isPrefixOf_iff_prefix]; exact List.prefix_append _ _
    have hd : (kBearer ++ p).drop 7 = p := List.drop_left' (by decide)
    simp [firstBearer, hp, hd]
  | cons x pre ih =>
    have hx := h x List.mem_cons_self
    simp only [List.cons_append, firstBearer, hx, Bool.false_eq_true, if_false]
    exact ih (fun y hy => h y (List.mem_cons_of_mem _ hy))

/-- **`Bearer user:pass`**: the first header value starting with `Bearer ` decides; a payload
`user:pass` with `:`-free user and password yields exactly these (whatever the other headers and the
Basic decoding say). -/
theorem bearer_userpass (pre post : List Bytes) (u w : Bytes) (b64 : Option Bytes)
    (h : ∀ x ∈ pre, kBearer.isPrefixOf x = false)
    (hu : noByte 58 u = true) (hw : noByte 58 w = true) :
    credentials (pre ++ (kBearer ++ (u ++ 58 :: w)) :: post) b64 = { user := u, pass := w } := by
  simp only [credentials, firstBearer_skip pre post _ h, fromBearer, splitB_append 58 u w hu,
    splitB_noSep 58 w hw]

theorem fromBearer_token (p : Bytes) (h : countB 58 p ≠ 1) : fromBearer p = { token := p } := by
  have hl : (splitB 58 p).length ≠ 2 := by rw [splitB_length]; omega
  unfold fromBearer
  split
  · rename_i u w heq; rw [heq] at hl; simp at hl
  · rfl

/-- **bearer token**: a payload that does not contain exactly one `:` is the token, byte for byte
(JWTs contain none; `a:b:c` or the empty payload are tokens too) -/
theorem bearer_token (pre post : List Bytes) (p : Bytes) (b64 : Option Bytes)
    (h : ∀ x ∈ pre, kBearer.isPrefixOf x = false) (hp : countB 58 p ≠ 1) :
    credentials (pre ++ (kBearer ++ p) :: post) b64 = { token := p } := by
  simp only [credentials, firstBearer_skip pre post _ h, fromBearer_token p hp]

/-- the two Bearer cases are exhaustive: exactly one `:` means `user:pass` with `:`-free parts -/
theorem count_one_decomp (p : Bytes) (h : countB 58 p = 1) :
    ∃ u w, p = u ++ 58 :: w ∧ noByte 58 u = true ∧ noByte 58 w = true := by
  induction p with
  | nil => simp [countB] at h
  | cons c p ih =>
    by_cases hc : c = 58
    · subst hc
      refine ⟨[], p, rfl, noByte_nil _, ?_⟩
      have : countB 58 p = 0 := by simpa [countB] using h
      simpa [noByte, countB, List.count_eq_zero] using this
    · have : countB 58 p = 1 := by simpa [countB, List.count_cons, hc] using h
      obtain ⟨u, w, h1, h2, h3⟩ := ih this
      exact ⟨c :: u, w, by simp [h1], (noByte_cons _ _ _).mpr ⟨hc, h2⟩, h3⟩

/-- **which header wins**: as soon as some value starts with `Bearer `, the first such value alone
determines the result — a Basic header, even an earlier one, is not consulted -/
theorem bearer_wins (hdrs : List Bytes) (p : Bytes) (b64 : Option Bytes)
    (h : firstBearer hdrs = some p) : credentials hdrs b64 = fromBearer p := by
  simp [credentials, h]

theorem firstBearer_none (hdrs : List Bytes) (h : ∀ x ∈ hdrs, kBearer.isPrefixOf x = false) :
    firstBearer hdrs = none := by
  induction hdrs with
  | nil => rfl
  | cons x rest ih =>
    simp only [firstBearer, h x List.mem_cons_self, Bool.false_eq_true, if_false]
    exact ih (fun y hy => h y (List.mem_cons_of_mem _ hy))

/-- **Basic**: without any `Bearer ` value, the FIRST header value is decoded: `Basic ` in any letter
case, base64 (oracle) of `user:pass`; the user is everything before the first `:`, the password
everything after it (so a `:`-free user and ANY password come back exactly). -/
theorem basic_roundtrip (pfx enc : Bytes) (rest : List Bytes) (u w : Bytes)
    (hpfx : pfx.map lowerB = kBasicLower)
    (hnb : ∀ x ∈ (pfx ++ enc) :: rest, kBearer.isPrefixOf x = false)
    (hu : noByte 58 u = true) :
    credentials ((pfx ++ enc) :: rest) (some (u ++ 58 :: w)) = { user := u, pass := w } := by
  have hlen : pfx.length = 6 := by
    have := congrArg List.length hpfx
    simpa [kBasicLower] using this
  have hb : hasBasicPrefix (pfx ++ enc) = true := by
    simp only [hasBasicPrefix, Bool.and_eq_true, decide_eq_true_eq, List.length_append,
      beq_iff_eq]
    refine ⟨by omega, ?_⟩
    rw [List.take_left' hlen]; exact hpfx
  simp only [credentials, firstBearer_none _ hnb, basicAuth, hb, if_true, cutB_append 58 u w hu]

/-- a Basic header that is not the first value, an undecodable one, or one without `:` yields nothing -/
theorem basic_nothing (h : Bytes) (rest : List Bytes) (b64 : Option Bytes)
    (hnb : ∀ x ∈ h :: rest, kBearer.isPrefixOf x = false)
    (hno : hasBasicPrefix h = false ∨ b64 = none ∨ ∃ d, b64 = some d ∧ noByte 58 d = true) :
    credentials (h :: rest) b64 = {} := by
  simp only [credentials, firstBearer_none _ hnb, basicAuth]
  rcases hno with h1 | h1 | ⟨d, h1, h2⟩
  · simp [h1]
  · subst h1; split <;> rfl
  · subst h1; simp only [cutB_none 58 d h2]; split <;> rfl

/-- no `Authorization` header: empty credentials -/
theorem no_header (b64 : Option Bytes) : credentials [] b64 = {} := rfl

/-! ### RTSP `Credentials` -/

/-- only a header gortsplib parsed contributes; the password only with the Basic method -/
theorem rtsp_fields (a : RtspAuth) :
    rtspCredentials a =
      if a.ok then { user := a.user, pass := if a.basic then a.basicPass else [] } else {} := rfl

theorem rtsp_no_token (a : RtspAuth) : (rtspCredentials a).token = [] := by
  unfold rtspCredentials; split <;> rfl

-- tests
example : credentials [asc ['B','e','a','r','e','r',' ','u',':','p']] none = { user := asc ['u'], pass := asc ['p'] } := by
  decide
example : credentials [asc ['B','e','a','r','e','r',' ','a',':','b',':','c']] none = { token := asc ['a',':','b',':','c'] } := by
  decide
example : credentials [asc ['B','A','S','I','C',' ','x'], asc ['B','e','a','r','e','r',' ']] (some (asc ['u',':','p'])) = { token := [] } := by
  decide
example : credentials [asc ['b','a','s','i','c',' ','x']] (some (asc ['u',':','p',':','q'])) = { user := asc ['u'], pass := asc ['p',':','q'] } := by
  decide

end MtxVerif.C34
