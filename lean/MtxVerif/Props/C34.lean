/-
C34 — client-supplied descriptors parse faithfully.  Property theorems about `Model/C34`.
-/
import MtxVerif.Model.C34

namespace MtxVerif.C34

/-! ### helper facts on the `strings` model (no property is stated in this block) -/

theorem noByte_nil (c : UInt8) : noByte c [] = true := by simp [noByte]

theorem noByte_cons (c x : UInt8) (s : Bytes) :
    noByte c (x :: s) = true ↔ x ≠ c ∧ noByte c s = true := by
  simp only [noByte, List.contains_cons, Bool.not_eq_true', Bool.or_eq_false_iff, beq_eq_false_iff_ne,
    ne_eq]
  constructor
  · rintro ⟨a, b⟩; exact ⟨fun h => a h.symm, b⟩
  · rintro ⟨a, b⟩; exact ⟨fun h => a h.symm, b⟩

theorem noByte_append (c : UInt8) (a b : Bytes) :
    noByte c (a ++ b) = true ↔ noByte c a = true ∧ noByte c b = true := by
  induction a with
  | nil => simp [noByte_nil]
  | cons x a ih => simp only [List.cons_append, noByte_cons, ih, and_assoc]

theorem splitB_ne_nil (sep : UInt8) (s : Bytes) : splitB sep s ≠ [] := by
  induction s with
  | nil => simp [splitB]
  | cons c rest ih =>
    unfold splitB
    split
    · simp
    · cases h : splitB sep rest with
      | nil => exact absurd h ih
      | cons a b => simp [consHead]

theorem splitB_noSep (sep : UInt8) (a : Bytes) (h : noByte sep a = true) : splitB sep a = [a] := by
  induction a with
  | nil => rfl
  | cons c a ih =>
    obtain ⟨hc, ha⟩ := (noByte_cons _ _ _).mp h
    simp [splitB, hc, ih ha, consHead]

theorem splitB_append (sep : UInt8) (a r : Bytes) (h : noByte sep a = true) :
    splitB sep (a ++ sep :: r) = a :: splitB sep r := by
  induction a with
  | nil => simp [splitB]
  | cons c a ih =>
    obtain ⟨hc, ha⟩ := (noByte_cons _ _ _).mp h
    simp [splitB, hc, ih ha, consHead]

/-- `strings.Split(strings.Join(parts, sep), sep) = parts` when no part contains the separator -/
theorem splitB_joinB (sep : UInt8) (parts : List Bytes) (hne : parts ≠ [])
    (h : parts.all (noByte sep) = true) : splitB sep (joinB sep parts) = parts := by
  induction parts with
  | nil => exact absurd rfl hne
  | cons a rest ih =>
    cases rest with
    | nil =>
      simp only [List.all_cons, List.all_nil, Bool.and_true] at h
      simpa [joinB] using splitB_noSep sep a h
    | cons b rest =>
      simp only [List.all_cons, Bool.and_eq_true] at h
      have := ih (by simp) (by simp only [List.all_cons, Bool.and_eq_true]; exact h.2)
      simp only [joinB] at this ⊢
      rw [splitB_append sep a _ h.1, this]

theorem cutB_append (sep : UInt8) (k v : Bytes) (h : noByte sep k = true) :
    cutB sep (k ++ sep :: v) = some (k, v) := by
  induction k with
  | nil => simp [cutB]
  | cons c k ih =>
    obtain ⟨hc, hk⟩ := (noByte_cons _ _ _).mp h
    simp [cutB, hc, ih hk]

theorem cutB_none (sep : UInt8) (s : Bytes) (h : noByte sep s = true) : cutB sep s = none := by
  induction s with
  | nil => rfl
  | cons c s ih =>
    obtain ⟨hc, hs⟩ := (noByte_cons _ _ _).mp h
    simp [cutB, hc, ih hs]

theorem trimSuffix_append (suf s : Bytes) : trimSuffix suf (s ++ suf) = s := by
  have : suf.isSuffixOf (s ++ suf) = true := by
    rw [List.isSuffixOf_iff_suffix]; exact List.suffix_append s suf
  simp [trimSuffix, this]

theorem trimSuffix_id (suf s : Bytes) (h : suf.isSuffixOf s = false) : trimSuffix suf s = s := by
  simp [trimSuffix, h]

/-! ### SRT stream id, custom syntax `action:pathname[:user:pass][:query]` -/

theorem action_ne_std (p : Bool) (rest : Bytes) : kStd.isPrefixOf (action p ++ rest) = false := by
  cases p <;> simp [action, kStd, kRead, kPublish, List.isPrefixOf]

theorem mkCustom_action (p : Bool) (path query user pass : Bytes) :
    mkCustom (action p) path query user pass =
      .ok { publish := p, path := path, query := query, user := user, pass := pass } := by
  cases p <;> simp [mkCustom, action, kRead, kPublish]

theorem render_eq (d : CDesc) : d.render = action d.publish ++ 58 :: joinB 58 d.fields := by
  simp only [CDesc.render, CDesc.parts, CDesc.fields, joinB]

theorem action_noColon (p : Bool) : noByte 58 (action p) = true := by
  cases p <;> decide

/-- splitting a rendered descriptor (with anything `:`-free appended) gives back its parts -/
theorem split_render (d : CDesc) (h : d.sepFree = true) :
    splitB 58 d.render = d.parts := by
  apply splitB_joinB
  · simp [CDesc.parts]
  · simp only [CDesc.parts, List.all_cons, Bool.and_eq_true]
    exact ⟨action_noColon _, by simpa [CDesc.sepFree, CDesc.fields] using h⟩

/-- **Custom syntax, round trip.**  For every descriptor whose fields contain no `:` and whose last
field does not end in `#feedbackplay`, the parser returns exactly action, path, credentials, query. -/
theorem custom_roundtrip (d : CDesc) (hsep : d.sepFree = true)
    (hfb : kFeedback.isSuffixOf d.last = false) :
    unmarshal d.render = .ok d.sid := by
  have hsplit := split_render d hsep
  have hstd : kStd.isPrefixOf d.render = false := by rw [render_eq]; exact action_ne_std _ _
  simp only [unmarshal, hstd, hsplit, CDesc.parts]
  obtain ⟨pub, path, creds, query⟩ := d
  cases creds with
  | none =>
    cases query with
    | none =>
      simp only [CDesc.last, CDesc.fields, CDesc.tailParts, List.append_nil, List.getLastD_cons,
        List.getLastD_nil] at hfb
      simp [CDesc.tailParts, customParts, trimFb, trimSuffix_id _ _ hfb, mkCustom_action, CDesc.sid]
    | some q =>
      simp only [CDesc.last, CDesc.fields, CDesc.tailParts, List.nil_append, List.getLastD_cons,
        List.getLastD_nil] at hfb
      simp [CDesc.tailParts, customParts, trimFb, trimSuffix_id _ _ hfb, mkCustom_action, CDesc.sid]
  | some up =>
    obtain ⟨u, w⟩ := up
    cases query with
    | none =>
      simp only [CDesc.last, CDesc.fields, CDesc.tailParts, List.append_nil, List.getLastD_cons,
        List.getLastD_nil] at hfb
      simp [CDesc.tailParts, customParts, trimFb, trimSuffix_id _ _ hfb, mkCustom_action, CDesc.sid]
    | some q =>
      simp only [CDesc.last, CDesc.fields, CDesc.tailParts, List.cons_append, List.nil_append,
        List.getLastD_cons, List.getLastD_nil] at hfb
      simp [CDesc.tailParts, customParts, trimFb, trimSuffix_id _ _ hfb, mkCustom_action, CDesc.sid]

end MtxVerif.C34
