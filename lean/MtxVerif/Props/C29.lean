/-
C29 — playback list/get return exactly the recorded media in range.  Property theorems (headline statements; the
component theorems are in Lemmas/C29Core.lean and Lemmas/C29List.lean, both audited with this file).
-/
import MtxVerif.Lemmas.C29List

namespace MtxVerif.C29

/-- **list, end to end** (findSegments ∘ concatenate ∘ clip).  For every recording whose segments are strictly sorted by
start and `WF` (durations ≥ 0, ends non-decreasing, segments that are not merged do not overlap) and every request
interval `st ≤ fin`: if GET /list answers with spans they are time-ordered and disjoint, lie inside [st, fin], and
cover every recorded instant of [st, fin]; if it answers 404 nothing was recorded in [st, fin]. -/
theorem list_exact (segs : List Seg) (st fin : Int) (hs : Strict segs) (hwf : WF segs) (hsf : st ≤ fin) :
    (∀ out, listModel segs (some st) (some fin) = some out →
      Ordered out ∧ (∀ e ∈ out, st ≤ e.start ∧ e.fin ≤ fin) ∧
      (∀ s ∈ segs, ∀ t, s.start ≤ t → t ≤ s.fin → st ≤ t → t ≤ fin → ∃ e ∈ out, e.start ≤ t ∧ t ≤ e.fin)) ∧
    (listModel segs (some st) (some fin) = none →
      ∀ s ∈ segs, ∀ t, s.start ≤ t → t ≤ s.fin → st ≤ t → t ≤ fin → False) :=
  list_end_to_end segs st fin hs hwf hsf

/-- spans are merged only along consecutive segments of one stream: one span per maximal run -/
theorem list_merge_only_consecutive (s : Seg) (r : List Seg) : (concatenate (s :: r)).length = 1 + breaks s r :=
  concat_length s r

/-- **get, one track**: the client receives the window samples in recorded order, timestamps relative to the requested
start, preceded only (and only if the first is not a random-access sample) by the samples since the last
random-access point before the start -/
theorem get_track_exact (tid : Nat) (pre : List Smp) (v : Smp) (vis : List Smp)
    (hneg : ∀ s ∈ pre, s.dts < 0) (hv : 0 ≤ v.dts) (hpos : ∀ s ∈ vis, 0 ≤ s.dts) :
    let t := (pre ++ v :: vis).foldl muxStep { tid := tid }
    t.seenVisible = true ∧ t.firstDTS = v.dts ∧
    t.buf = (if v.nonSync then gop [] pre else []) ++ (v :: vis).map (·.id) :=
  mux_emits tid pre v vis hneg hv hpos

/-- non-vacuity of the end-to-end hypotheses -/
example : Strict exSegs ∧ WF exSegs := by
  refine ⟨by simp [exSegs, Strict], by simp [exSegs, WF, Seg.fin]⟩

end MtxVerif.C29
