/-
C26 — Segment file names encode path and start instant losslessly.  Property theorems.

Vocabulary: `toks` = tokenised record path format; `encode toks p F` = the name the recorder writes for
path name `p` and the calendar fields `F` of the start instant; `decode` = `Path.Decode`'s matching step
(= `decodeV true true`: anchored regex, repeated placeholders must agree — the code since fix 2f5d4aa;
`decodeV false false` = the code before that fix, kept for the regression theorems of finding F-C26);
`Producible toks s` = "the whole name `s` is one the recorder could have produced" (for some path name
and some field texts of the right widths).
-/
import MtxVerif.Lemmas.C26

namespace MtxVerif.C26

/-- the whole name is `encodeA toks A` for some assignment of admissible texts to the placeholders. -/
def Producible (toks : List Tok) (s : Bytes) : Prop :=
  ∃ A : Kind → Bytes, (∀ k, Tok.cap k ∈ toks → capOK k (A k) = true) ∧ s = encodeA toks A

/-- the executable spec used by the driver decides `Producible`. -/
theorem producibleB_iff (toks : List Tok) (s : Bytes) :
    producibleB toks s = true ↔ Producible toks s := by
  unfold producibleB Producible
  rw [List.any_eq_true]
  constructor
  · rintro ⟨⟨cs, r⟩, hm, hh⟩
    simp only [Bool.and_eq_true, List.isEmpty_iff] at hh
    obtain ⟨rfl, hc⟩ := hh
    obtain ⟨hf, hs⟩ := (mem_allM toks s cs []).mp hm
    let A : Kind → Bytes := fun k => (lastCap k cs).getD []
    have he : cs = capsOf toks A := fits_eq_capsOf toks cs A hf (consistent_agree cs hc)
    refine ⟨A, ?_, ?_⟩
    · rw [he] at hf
      exact (fits_capsOf_iff toks A).mp hf
    · rw [hs, List.append_nil, he, render_capsOf]
  · rintro ⟨A, hA, rfl⟩
    refine ⟨(capsOf toks A, []), ?_, ?_⟩
    · exact (mem_allM toks _ _ []).mpr ⟨(fits_capsOf_iff toks A).mpr hA, by rw [render_capsOf]; simp⟩
    · simp [consistent_capsOf]

/-- names the encoder writes are producible (for field texts of the widths the pattern expects). -/
theorem encode_producible (toks : List Tok) (p : Bytes) (F : Fields)
    (hp : pathOK p = true) (hF : fieldsOK toks F = true) : Producible toks (encode toks p F) := by
  refine ⟨assign p F, ?_, ?_⟩
  · intro k hk
    unfold fieldsOK at hF
    rw [List.all_eq_true] at hF
    have := hF _ hk
    cases k <;> first | exact hp | exact this
  · unfold encode encodeA
    congr 1
    funext t
    cases t with
    | lit b => rfl
    | cap k => cases k <;> rfl

/-! ### what a match of the code is -/

theorem search_some (toks : List Tok) (s : Bytes) (off : Nat) (m : Match)
    (h : search toks off s = some m) :
    ∃ i, i ≤ s.length ∧ m.off = off + i ∧ (m.caps, m.rest) ∈ allM toks (s.drop i) := by
  induction s generalizing off with
  | nil =>
    simp only [search, Option.map_eq_some_iff] at h
    obtain ⟨cr, hh, rfl⟩ := h
    exact ⟨0, by simp, rfl, by simpa using List.mem_of_mem_head? hh⟩
  | cons x s ih =>
    unfold search at h
    split at h
    · rename_i cr hh
      cases h
      exact ⟨0, by simp, rfl, by simpa using List.mem_of_mem_head? hh⟩
    · obtain ⟨i, hi, ho, hm⟩ := ih (off + 1) h
      exact ⟨i + 1, by simp; omega, by omega, by simpa using hm⟩

/-- a match (of any variant) that covers the whole candidate is a full decomposition of it. -/
theorem match_whole (anch coh : Bool) (toks : List Tok) (s : Bytes) (m : Match)
    (h : decodeV anch coh toks s = some m) (hw : anch = true ∨ m.whole = true) :
    (m.caps, []) ∈ allM toks s := by
  unfold decodeV at h
  split at h
  · rename_i m' hm'
    have hmm : m' = m := by
      split at h
      · cases h
      · cases h; rfl
    subst hmm
    cases anch with
    | true =>
      simp only [if_true, matchAnchored, Option.map_eq_some_iff] at hm'
      obtain ⟨cr, hf, rfl⟩ := hm'
      have h1 := List.mem_of_find?_eq_some hf
      have h2 := List.find?_some hf
      simp only [List.isEmpty_iff] at h2
      simpa [← h2] using h1
    | false =>
      simp only [Bool.false_eq_true, if_false, matchCode] at hm'
      obtain ⟨i, _, ho, hm⟩ := search_some toks s 0 m' hm'
      have hw' : m'.whole = true := by
        rcases hw with hw | hw
        · cases hw
        · exact hw
      simp only [Match.whole, Bool.and_eq_true, beq_iff_eq, List.isEmpty_iff] at hw'
      have hi : i = 0 := by omega
      subst hi
      simpa [← hw'.2] using hm
  · cases h

/-! ### "recognised only if the whole name is one the recorder could have produced" -/

/-- General form: a recognised name is producible provided the match covers the whole name (automatic
for the anchored variant) and repeated placeholders captured equal texts (automatic for the coherent
variant). -/
theorem recognized_only_if_gen (anch coh : Bool) (toks : List Tok) (s : Bytes) (m : Match)
    (h : decodeV anch coh toks s = some m)
    (hw : anch = true ∨ m.whole = true) (hc : coh = true ∨ consistent m.caps = true) :
    Producible toks s := by
  have hm := match_whole anch coh toks s m h hw
  have hcons : consistent m.caps = true := by
    rcases hc with hc | hc
    · subst hc
      unfold decodeV at h
      split at h
      · rename_i m' _
        split at h
        · cases h
        · rename_i hn
          cases h
          simpa using hn
      · cases h
    · exact hc
  rw [← producibleB_iff]
  unfold producibleB
  rw [List.any_eq_true]
  exact ⟨(m.caps, []), hm, by simp [hcons]⟩

/-- (regression, finding F-C26) The property's second half at full strength for the matcher *before fix
2f5d4aa* (unanchored, last capture wins).  **False** (see the two witnesses below). -/
def recognized_only_if_full : Prop :=
  ∀ (toks : List Tok) (s : Bytes) (m : Match), decodeV false false toks s = some m → Producible toks s

/-- (regression) What held for the pre-fix matcher: outside the two decidable classes `unanchoredExtra`
(the match does not cover the whole name) and `repeatedMismatch`, a recognised name is producible. -/
theorem recognized_only_if_partial (toks : List Tok) (s : Bytes) (m : Match)
    (h : decodeV false false toks s = some m)
    (h1 : unanchoredExtra toks s = false) (h2 : repeatedMismatch toks s = false) :
    Producible toks s := by
  have hm : matchCode toks s = some m := by
    unfold decodeV at h
    simp only [Bool.false_eq_true, if_false, Bool.false_and] at h
    split at h
    · cases h; assumption
    · cases h
  refine recognized_only_if_gen false false toks s m h (Or.inr ?_) (Or.inr ?_)
  · simpa [unanchoredExtra, hm] using h1
  · simpa [repeatedMismatch, hm] using h2

/-- With the fix (anchored regex, coherent repeated placeholders) the second half holds at full strength. -/
theorem recognized_only_if_fixed (toks : List Tok) (s : Bytes) (m : Match)
    (h : decodeV true true toks s = some m) : Producible toks s :=
  recognized_only_if_gen true true toks s m h (Or.inl rfl) (Or.inl rfl)

/-- **C26, second half, full strength, for the code**: a file is recognised as a segment only if its
whole name is one the recorder could have produced — for every format and every candidate name. -/
theorem recognized_only_if (toks : List Tok) (s : Bytes) (m : Match)
    (h : decode toks s = some m) : Producible toks s :=
  recognized_only_if_fixed toks s m h

/-- Witness 1 (class `unanchoredExtra`): format `%s`, file `1700000000x` is recognised by the code,
although no instant produces that name. -/
theorem recognized_only_if_witness : ¬ recognized_only_if_full := by
  intro h
  have hp := h [.cap .s] (asc ['1','7','0','0','0','0','0','0','0','0','x'])
    ⟨0, [(.s, asc ['1','7','0','0','0','0','0','0','0','0'])], asc ['x']⟩ (by decide)
  rw [← producibleB_iff] at hp
  revert hp
  decide

/-- Witness 2 (class `repeatedMismatch`, independent of anchoring): format `%path/%path`, file `a/b` is
recognised even by the anchored regex, as a segment of path `b`. -/
theorem repeated_placeholder_witness :
    ∃ m, decodeV true false [.cap .path, .lit 47, .cap .path] (asc ['a','/','b']) = some m ∧
      decodedPath m.caps = asc ['b'] ∧
      ¬ Producible [.cap .path, .lit 47, .cap .path] (asc ['a','/','b']) := by
  refine ⟨⟨0, [(.path, asc ['a']), (.path, asc ['b'])], []⟩, by decide, by decide, ?_⟩
  rw [← producibleB_iff]
  decide

/-! ### "the recorder's file name is recognised as a segment of that path with that start" -/

/-- every placeholder of the format gets a text its capture group can match. -/
def Admissible (toks : List Tok) (A : Kind → Bytes) : Prop :=
  ∀ k, Tok.cap k ∈ toks → capOK k (A k) = true

theorem admissible_assign (toks : List Tok) (p : Bytes) (F : Fields)
    (hp : pathOK p = true) (hF : fieldsOK toks F = true) : Admissible toks (assign p F) := by
  intro k hk
  unfold fieldsOK at hF
  rw [List.all_eq_true] at hF
  have := hF _ hk
  cases k <;> first | exact hp | exact this

theorem encode_eq_encodeA (toks : List Tok) (p : Bytes) (F : Fields) :
    encode toks p F = encodeA toks (assign p F) := by
  unfold encode encodeA
  congr 1
  funext t
  cases t with
  | lit b => rfl
  | cap k => cases k <;> rfl

/-- the expected decomposition is among the matcher's candidates. -/
theorem expected_mem (toks : List Tok) (A : Kind → Bytes) (hA : Admissible toks A) :
    (capsOf toks A, []) ∈ allM toks (encodeA toks A) :=
  (mem_allM toks _ _ []).mpr ⟨(fits_capsOf_iff toks A).mpr hA, by rw [render_capsOf]; simp⟩

/-- **FindSegments flow** (format with the path name already substituted, so no `%path` is left): the
code *as written* — and every variant — recognises the recorder's name and captures exactly the texts
the encoder wrote.  Deterministic pattern ⇒ the missing anchors do no harm on the recorder's own names. -/
theorem roundtrip_nopath (anch coh : Bool) (toks : List Tok) (h0 : pathCount toks = 0)
    (A : Kind → Bytes) (hA : Admissible toks A) :
    decodeV anch coh toks (encodeA toks A) = some ⟨0, capsOf toks A, []⟩ := by
  have hdet : allM toks (encodeA toks A) = [(capsOf toks A, [])] := by
    have := allM_det toks (pathFree_of_count toks h0) (capsOf toks A) [] ((fits_capsOf_iff toks A).mpr hA)
    rwa [render_capsOf, List.append_nil] at this
  unfold decodeV
  have hm : (if anch then matchAnchored toks (encodeA toks A) else matchCode toks (encodeA toks A))
      = some ⟨0, capsOf toks A, []⟩ := by
    cases anch with
    | true => simp [matchAnchored, hdet]
    | false =>
      simp only [Bool.false_eq_true, if_false, matchCode]
      exact search_head toks _ 0 (capsOf toks A, []) (by rw [hdet]; rfl)
  rw [hm]
  simp [consistent_capsOf]

/-- **Path-listing flow with the fix**: with at most one `%path`, the anchored matcher recognises the
recorder's name and captures exactly the path name and field texts the encoder wrote. -/
theorem roundtrip_anchored (coh : Bool) (toks : List Tok) (h1 : pathCount toks ≤ 1)
    (A : Kind → Bytes) (hA : Admissible toks A) :
    decodeV true coh toks (encodeA toks A) = some ⟨0, capsOf toks A, []⟩ := by
  have hmem := expected_mem toks A hA
  have hfind : (allM toks (encodeA toks A)).find? (fun cr => cr.2.isEmpty) = some (capsOf toks A, []) := by
    cases hf : (allM toks (encodeA toks A)).find? (fun cr => cr.2.isEmpty) with
    | none =>
      rw [List.find?_eq_none] at hf
      exact absurd (by simp) (hf _ hmem)
    | some cr =>
      have h2 := List.mem_of_find?_eq_some hf
      have h3 := List.find?_some hf
      obtain ⟨cs, r⟩ := cr
      simp only [List.isEmpty_iff] at h3
      subst h3
      obtain ⟨hfit, hs⟩ := (mem_allM toks _ cs []).mp h2
      have := render_inj toks h1 cs (capsOf toks A) hfit ((fits_capsOf_iff toks A).mpr hA)
        (by rw [render_capsOf]; simpa using hs.symm)
      rw [this]
  unfold decodeV
  simp [matchAnchored, hfind, consistent_capsOf]

/-- (regression) The pre-fix matcher always recognised the recorder's name (some match starts at offset 0) … -/
theorem roundtrip_code_recognised (toks : List Tok) (A : Kind → Bytes) (hA : Admissible toks A) :
    ∃ m, decodeV false false toks (encodeA toks A) = some m ∧ m.off = 0 := by
  have hmem := expected_mem toks A hA
  cases hh : (allM toks (encodeA toks A)).head? with
  | none =>
    rw [List.head?_eq_none_iff] at hh
    rw [hh] at hmem
    cases hmem
  | some cr =>
    refine ⟨⟨0, cr.1, cr.2⟩, ?_, rfl⟩
    unfold decodeV
    simp only [Bool.false_eq_true, if_false, matchCode, Bool.false_and]
    rw [search_head toks _ 0 cr hh]

/-- (regression) … but with which path and start?  Full strength for the pre-fix matcher — **false** (witness below):
the lazy `(.*?)` without `$` stops at the first place where the rest of the pattern fits. -/
def roundtrip_code_full : Prop :=
  ∀ (toks : List Tok) (A : Kind → Bytes), pathCount toks ≤ 1 → Admissible toks A →
    ∃ m, decodeV false false toks (encodeA toks A) = some m ∧ m.caps = capsOf toks A

/-- (regression) pre-fix matcher: outside the class `unanchoredExtra` the match is the expected one. -/
theorem roundtrip_code_partial (toks : List Tok) (h1 : pathCount toks ≤ 1)
    (A : Kind → Bytes) (hA : Admissible toks A)
    (hx : unanchoredExtra toks (encodeA toks A) = false) :
    decodeV false false toks (encodeA toks A) = some ⟨0, capsOf toks A, []⟩ := by
  obtain ⟨m, hm, _⟩ := roundtrip_code_recognised toks A hA
  have hmc : matchCode toks (encodeA toks A) = some m := by
    unfold decodeV at hm
    simp only [Bool.false_eq_true, if_false, Bool.false_and] at hm
    split at hm
    · cases hm; assumption
    · cases hm
  have hw : m.whole = true := by simpa [unanchoredExtra, hmc] using hx
  have hmem := match_whole false false toks _ m hm (Or.inr hw)
  obtain ⟨hfit, hs⟩ := (mem_allM toks _ m.caps []).mp hmem
  have hc := render_inj toks h1 m.caps (capsOf toks A) hfit ((fits_capsOf_iff toks A).mpr hA)
    (by rw [render_capsOf]; simpa using hs.symm)
  rw [hm]
  simp only [Match.whole, Bool.and_eq_true, beq_iff_eq, List.isEmpty_iff] at hw
  obtain ⟨o, c, r⟩ := m
  simp only at hw hc
  rw [hw.1, hw.2, hc]

/-- Witness: format `%path_%d`, path name `x_11`, day `22`: the recorder writes `x_11_22`; the code
recognises it as path `x`, day `11`. -/
theorem roundtrip_code_witness : ¬ roundtrip_code_full := by
  intro h
  let A : Kind → Bytes := fun k => match k with
    | .path => asc ['x','_','1','1']
    | .d => asc ['2','2']
    | _ => []
  have hA : Admissible [.cap .path, .lit 95, .cap .d] A := by
    intro k hk
    simp only [List.mem_cons, Tok.cap.injEq, reduceCtorEq, List.not_mem_nil, or_false, false_or] at hk
    rcases hk with rfl | rfl <;> decide
  obtain ⟨m, hm, hc⟩ := h [.cap .path, .lit 95, .cap .d] A (by decide) hA
  have hm' : decodeV false false [.cap .path, .lit 95, .cap .d] (encodeA [.cap .path, .lit 95, .cap .d] A)
      = some ⟨0, [(.path, asc ['x']), (.d, asc ['1','1'])], asc ['_','2','2']⟩ := by decide
  rw [hm'] at hm
  cases hm
  revert hc
  decide

/-- what `Decode` reports as the path name, for the expected captures. -/
theorem decoded_path (toks : List Tok) (A : Kind → Bytes) (h : Tok.cap .path ∈ toks) :
    decodedPath (capsOf toks A) = A .path := by
  simp [decodedPath, lastCap_capsOf toks A .path h]

/-! ### the decoded start: `time.Date` / `time.Unix` get the numbers the encoder read off the instant -/

/-- all numbers are below 10^20 (true of any `int`/`int64`). -/
def Bounded (F : Fields) : Prop :=
  F.year.natAbs < 10 ^ 20 ∧ F.month < 10 ^ 20 ∧ F.day < 10 ^ 20 ∧ F.hour < 10 ^ 20 ∧ F.minute < 10 ^ 20 ∧
  F.sec < 10 ^ 20 ∧ F.micros < 10 ^ 20 ∧ F.unix.natAbs < 10 ^ 20

def num (F : Fields) : Kind → Nat
  | .Y => F.year.toNat
  | .m => F.month
  | .d => F.day
  | .H => F.hour
  | .M => F.minute
  | .S => F.sec
  | .f => F.micros
  | .s => F.unix.toNat
  | _ => 0

theorem parse_fmtInt (v : Int) (hb : v.natAbs < 10 ^ 20) (w : Nat)
    (hok : ((fmtInt v).length == w && (fmtInt v).all isDigit) = true) :
    parseDec (fmtInt v) = v.toNat ∧ 0 ≤ v := by
  unfold fmtInt at hok ⊢
  by_cases hneg : v < 0
  · simp only [hneg, if_true, List.all_cons, Bool.and_eq_true] at hok
    exact absurd hok.2.1 (by decide)
  · simp only [hneg, if_false]
    rw [parseDec_natDec _ hb]
    omega

theorem parse_val (F : Fields) (k : Kind) (hk : k.isNum = true) (hok : capOK k (val F k) = true)
    (hb : Bounded F) : parseDec (val F k) = num F k := by
  obtain ⟨b1, b2, b3, b4, b5, b6, b7, b8⟩ := hb
  rw [capOK_num hk] at hok
  cases k <;> simp only [Kind.isNum, Bool.false_eq_true] at hk <;> simp only [val, num]
  · exact (parse_fmtInt _ b1 _ hok).1
  · exact parseDec_leadingZeros _ _ b2
  · exact parseDec_leadingZeros _ _ b3
  · exact parseDec_leadingZeros _ _ b4
  · exact parseDec_leadingZeros _ _ b5
  · exact parseDec_leadingZeros _ _ b6
  · exact parseDec_leadingZeros _ _ b7
  · exact (parse_fmtInt _ b8 _ hok).1

theorem hasKind_iff (k : Kind) (toks : List Tok) : hasKind k toks = true ↔ Tok.cap k ∈ toks := by
  simp [hasKind]

theorem numOr_capsOf (toks : List Tok) (p : Bytes) (F : Fields) (k : Kind) (hk : k.isNum = true)
    (hF : fieldsOK toks F = true) (hb : Bounded F) (d : Nat) :
    numOr k (capsOf toks (assign p F)) d = if hasKind k toks then num F k else d := by
  unfold numOr
  by_cases hm : Tok.cap k ∈ toks
  · rw [lastCap_capsOf toks _ k hm, if_pos ((hasKind_iff k toks).mpr hm)]
    have hv : assign p F k = val F k := by cases k <;> first | rfl | simp [Kind.isNum] at hk
    have hok : capOK k (val F k) = true := by
      unfold fieldsOK at hF
      rw [List.all_eq_true] at hF
      have := hF _ hm
      cases k <;> first | exact this | simp [Kind.isNum] at hk
    simp only [hv]
    exact parse_val F k hk hok hb
  · rw [lastCap_capsOf_none toks _ k hm]
    have : hasKind k toks = false := by
      cases h : hasKind k toks
      · rfl
      · exact absurd ((hasKind_iff k toks).mp h) hm
    simp [this]

/-- **The decoded start.**  From the captures of a recorder-written name, `Decode` calls
`time.Unix(F.unix, micros)` if the format has `%s` (and the time is after 1970), otherwise
`time.Date` with exactly the calendar fields the encoder read off the instant (defaults for absent
placeholders; zone from `%z`, else `time.Local`).  Whether that call returns the original instant is the
calendar oracle's business (it does unless the local time is ambiguous or the zone offset has seconds). -/
theorem decoded_start (toks : List Tok) (p : Bytes) (F : Fields)
    (hF : fieldsOK toks F = true) (hb : Bounded F) :
    decodedStart (capsOf toks (assign p F)) = expectedStart toks F := by
  unfold decodedStart expectedStart
  have nY := fun d => numOr_capsOf toks p F .Y rfl hF hb d
  have nm := fun d => numOr_capsOf toks p F .m rfl hF hb d
  have nd := fun d => numOr_capsOf toks p F .d rfl hF hb d
  have nH := fun d => numOr_capsOf toks p F .H rfl hF hb d
  have nM := fun d => numOr_capsOf toks p F .M rfl hF hb d
  have nS := fun d => numOr_capsOf toks p F .S rfl hF hb d
  have nf := fun d => numOr_capsOf toks p F .f rfl hF hb d
  simp only [num] at nY nm nd nH nM nS nf
  simp only [nY, nm, nd, nH, nM, nS, nf]
  by_cases hs : Tok.cap .s ∈ toks
  · have hsk : hasKind .s toks = true := (hasKind_iff .s toks).mpr hs
    rw [lastCap_capsOf toks _ .s hs]
    have hok : capOK .s (val F .s) = true := by
      unfold fieldsOK at hF
      rw [List.all_eq_true] at hF
      exact hF _ hs
    rw [capOK_num rfl] at hok
    obtain ⟨hp, hnn⟩ := parse_fmtInt F.unix hb.2.2.2.2.2.2.2 _ hok
    have hu : ((parseDec (assign p F .s) : Nat) : Int) = F.unix := by
      show ((parseDec (fmtInt F.unix) : Nat) : Int) = F.unix
      rw [hp]; omega
    simp only [hu, hsk, true_and]
    have hz : (lastCap .z (capsOf toks (assign p F))).map zoneDec =
        if hasKind .z toks then some (zoneDec (zoneEnc F.off)) else none := by
      by_cases hzz : Tok.cap .z ∈ toks
      · rw [lastCap_capsOf toks _ .z hzz, if_pos ((hasKind_iff .z toks).mpr hzz)]; rfl
      · rw [lastCap_capsOf_none toks _ .z hzz]
        have : hasKind .z toks = false := by
          cases h : hasKind .z toks
          · rfl
          · exact absurd ((hasKind_iff .z toks).mp h) hzz
        simp [this]
    rw [hz]
  · have hsk : hasKind .s toks = false := by
      cases h : hasKind .s toks
      · rfl
      · exact absurd ((hasKind_iff .s toks).mp h) hs
    rw [lastCap_capsOf_none toks _ .s hs]
    have hz : (lastCap .z (capsOf toks (assign p F))).map zoneDec =
        if hasKind .z toks then some (zoneDec (zoneEnc F.off)) else none := by
      by_cases hzz : Tok.cap .z ∈ toks
      · rw [lastCap_capsOf toks _ .z hzz, if_pos ((hasKind_iff .z toks).mpr hzz)]; rfl
      · rw [lastCap_capsOf_none toks _ .z hzz]
        have : hasKind .z toks = false := by
          cases h : hasKind .z toks
          · rfl
          · exact absurd ((hasKind_iff .z toks).mp h) hzz
        simp [this]
    rw [hz]
    simp [hsk]

/-! ### the property, format level -/

theorem encode_expand (toks : List Tok) (p q : Bytes) (F : Fields) :
    encode (expand toks p) q F = encode toks p F := by
  induction toks with
  | nil => rfl
  | cons t ts ih =>
    have hl : ∀ l : Bytes, encode (l.map Tok.lit) q F = l := by
      intro l
      induction l with
      | nil => rfl
      | cons x xs ihx =>
        simp only [encode, List.map_cons, List.flatMap_cons, List.singleton_append, List.cons.injEq, true_and]
        exact ihx
    have happ : ∀ a b : List Tok, encode (a ++ b) q F = encode a q F ++ encode b q F := by
      intro a b; simp [encode]
    have hc : ∀ t' : Tok, encode (t' :: ts) p F = encode [t'] p F ++ encode ts p F := by
      intro t'; simp [encode]
    have he : expand (t :: ts) p = expand [t] p ++ expand ts p := by simp [expand]
    rw [he, happ, ih, hc t]
    congr 1
    cases t with
    | lit b => simp [expand, encode]
    | cap k =>
      cases k <;> simp [expand, encode]
      exact hl p

/-- the recorder's file name (path name substituted into the format first) is the token-level encoding,
provided the substitution creates no new placeholder. -/
theorem recorderName_eq (fmt p : Bytes) (F : Fields) (hsp : spliceFree fmt p = true) :
    recorderName fmt p F = encode (tokenize fmt) p F := by
  unfold recorderName
  unfold spliceFree at hsp
  rw [beq_iff_eq.mp hsp, encode_expand]

/-- **C26, first half, with the fix** (`^…$`): for every format with one `%path`, every newline-free
path name that does not splice, and every instant whose field texts have the pattern's widths, the
recorder's file name is recognised in the path-listing flow with exactly that path name and the
`time.Date`/`time.Unix` arguments read off that instant. -/
theorem segment_roundtrip_fixed (fmt p : Bytes) (F : Fields)
    (h1 : pathCount (tokenize fmt) = 1) (hsp : spliceFree fmt p = true) (hp : pathOK p = true)
    (hF : fieldsOK (tokenize fmt) F = true) (hb : Bounded F) :
    ∃ m, decodeV true true (tokenize fmt) (recorderName fmt p F) = some m ∧
      decodedPath m.caps = p ∧ decodedStart m.caps = expectedStart (tokenize fmt) F := by
  have hA := admissible_assign (tokenize fmt) p F hp hF
  refine ⟨⟨0, capsOf (tokenize fmt) (assign p F), []⟩, ?_, ?_, decoded_start _ p F hF hb⟩
  · rw [recorderName_eq fmt p F hsp, encode_eq_encodeA]
    exact roundtrip_anchored true _ (by omega) _ hA
  · have hmem : Tok.cap .path ∈ tokenize fmt := by
      cases hh : hasKind .path (tokenize fmt)
      · exfalso
        have : pathCount (tokenize fmt) = 0 := by
          unfold pathCount
          rw [List.length_eq_zero_iff, List.filter_eq_nil_iff]
          intro t ht
          simp only [beq_iff_eq]
          intro e
          subst e
          have := (hasKind_iff .path _).mpr ht
          rw [hh] at this
          cases this
        omega
      · exact (hasKind_iff .path _).mp hh
    exact decoded_path _ _ hmem

/-- **C26, first half, full strength, for the code** (path-listing flow). -/
theorem segment_roundtrip (fmt p : Bytes) (F : Fields)
    (h1 : pathCount (tokenize fmt) = 1) (hsp : spliceFree fmt p = true) (hp : pathOK p = true)
    (hF : fieldsOK (tokenize fmt) F = true) (hb : Bounded F) :
    ∃ m, decode (tokenize fmt) (recorderName fmt p F) = some m ∧
      decodedPath m.caps = p ∧ decodedStart m.caps = expectedStart (tokenize fmt) F :=
  segment_roundtrip_fixed fmt p F h1 hsp hp hF hb

/-- (regression) path-listing flow before fix 2f5d4aa: the same conclusion only outside the class
`unanchoredExtra`. -/
theorem segment_roundtrip_partial (fmt p : Bytes) (F : Fields)
    (h1 : pathCount (tokenize fmt) = 1) (hsp : spliceFree fmt p = true) (hp : pathOK p = true)
    (hF : fieldsOK (tokenize fmt) F = true) (hb : Bounded F)
    (hx : unanchoredExtra (tokenize fmt) (recorderName fmt p F) = false) :
    ∃ m, decodeV false false (tokenize fmt) (recorderName fmt p F) = some m ∧
      decodedPath m.caps = p ∧ decodedStart m.caps = expectedStart (tokenize fmt) F := by
  have hA := admissible_assign (tokenize fmt) p F hp hF
  obtain ⟨m, hm, hpth, hst⟩ := segment_roundtrip_fixed fmt p F h1 hsp hp hF hb
  rw [recorderName_eq fmt p F hsp, encode_eq_encodeA] at hx hm ⊢
  have hfix := roundtrip_anchored true _ (by omega : pathCount (tokenize fmt) ≤ 1) _ hA
  rw [hfix] at hm
  cases hm
  exact ⟨_, roundtrip_code_partial _ (by omega) _ hA hx, hpth, hst⟩

/-- **C26, first half, `FindSegments` / cleaner / playback / API flow** (the path name is substituted into
the format before decoding, so the pattern has no `(.*?)`): the recorder's file name is always
recognised, with the `time.Date`/`time.Unix` arguments read off the instant — for *every* variant of
the matcher (the missing anchors never affected the recorder's own names in this flow). -/
theorem segment_roundtrip_findsegments (anch coh : Bool) (fmt p : Bytes) (F : Fields)
    (h0 : pathCount (tokenize (substPath fmt p)) = 0)
    (hF : fieldsOK (tokenize (substPath fmt p)) F = true) (hb : Bounded F) :
    ∃ m, decodeV anch coh (tokenize (substPath fmt p)) (recorderName fmt p F) = some m ∧ m.whole = true ∧
      decodedStart m.caps = expectedStart (tokenize (substPath fmt p)) F := by
  have hA := admissible_assign (tokenize (substPath fmt p)) [] F (by decide) hF
  refine ⟨⟨0, capsOf _ (assign [] F), []⟩, ?_, rfl, decoded_start _ [] F hF hb⟩
  unfold recorderName
  rw [encode_eq_encodeA]
  exact roundtrip_nopath anch coh _ h0 _ hA

/-! ### non-vacuity and sanity examples (`decide`d samples are tests, not theorems) -/

/-- `%path/%s.ts` -/
example : tokenize (asc ['%','p','a','t','h','/','%','s','.','t','s'])
    = [.cap .path, .lit 47, .cap .s, .lit 46, .lit 116, .lit 115] := by decide
/-- hostile tokenisations: `%%Y`, `%p`, trailing `%`, `%pathY` -/
example : tokenize (asc ['%','%','Y','%','p','%']) = [.lit 37, .cap .Y, .lit 37, .lit 112, .lit 37]
    ∧ tokenize (asc ['%','p','a','t','h','Y']) = [.cap .path, .lit 89] := by decide
/-- the hypotheses of the round-trip theorems are satisfiable: 2024-02-29 23:59:58.000007 +05:30 -/
example :
    let fmt := asc ['%','p','a','t','h','/','%','Y','-','%','m','-','%','d','_','%','H','-','%','M','-','%','S','-','%','f','%','z']
    let F : Fields := ⟨2024, 2, 29, 23, 59, 58, 7, 19800, 1709231398⟩
    pathCount (tokenize fmt) = 1 ∧ spliceFree fmt (asc ['c','a','m','/','1']) = true
      ∧ fieldsOK (tokenize fmt) F = true
      ∧ recorderName fmt (asc ['c','a','m','/','1']) F
        = asc ['c','a','m','/','1','/','2','0','2','4','-','0','2','-','2','9','_','2','3','-','5','9','-','5','8','-','0','0','0','0','0','7','+','0','5','3','0']
      ∧ expectedStart (tokenize fmt) F = .date ⟨2024, 2, 29, 23, 59, 58, 7, some 19800⟩ := by decide
example : Bounded ⟨2024, 2, 29, 23, 59, 58, 7, 19800, 1709231398⟩ := by
  refine ⟨?_, ?_, ?_, ?_, ?_, ?_, ?_, ?_⟩ <;> decide
/-- the splice: `%%path` with a name starting with `s` makes a new `%s` -/
example : spliceFree (asc ['%','%','p','a','t','h']) (asc ['s','1']) = false
    ∧ tokenize (substPath (asc ['%','%','p','a','t','h']) (asc ['s','1'])) = [.cap .s, .lit 49] := by decide
/-- years with other than four digits / unix seconds with other than ten are not decodable -/
example : fieldsOK [.cap .Y] ⟨999, 1, 1, 0, 0, 0, 0, 0, 0⟩ = false
    ∧ fieldsOK [.cap .s] ⟨1970, 1, 1, 0, 0, 0, 0, 0, 86400⟩ = false
    ∧ fieldsOK [.cap .s] ⟨2001, 9, 9, 1, 46, 40, 0, 0, 1000000000⟩ = true := by decide
/-- zone texts -/
example : zoneEnc 0 = asc ['Z'] ∧ zoneEnc 19800 = asc ['+','0','5','3','0'] ∧ zoneEnc (-12600) = asc ['-','0','3','3','0']
    ∧ zoneDec (zoneEnc 19800) = 19800 ∧ zoneDec (zoneEnc (-12600)) = -12600 ∧ zoneDec (zoneEnc 3599) = 3540 := by decide

end MtxVerif.C26
