/-
C24 — timestamp scaling is exact.  Property theorems.

Layers:
 1. arithmetic (in Lemmas/C24Arith.lean): `exact_split`, `muldiv_exact` (canonical body with int64
    wrap-around is exact whenever the remainder product fits and the exact result is representable — all
    signs, every non-zero divisor), guard discharge for the call-site classes, `muldivFixed_exact`;
 2. tie to the code: every generated copy (Gen/C24.lean, regenerated from /repo at each check) equals
    the canonical body — a mutated copy breaks exactly these;
 3. the full statement over the property's domain (`muldiv_full`), its refutation by a decided witness
    (`muldiv_full_witness`, finding F-C24, class `overflowRegion`) and the partial statement.
-/
import MtxVerif.Gen.C24
import MtxVerif.Lemmas.C24Arith

namespace MtxVerif.C24
open Gen

/-! ### 2. tie to the code: every generated copy is the canonical body

`Gen.X` is the translation of copy `X` (regenerated from /repo at every check); `Gen.X_usesFix` says
whether its remainder term goes through the repaired 128-bit helper.  A copy whose arithmetic differs
from the canonical body in any way makes its theorem below fail to build. -/

theorem canon_exact (b : Bool) (v m d : Int) (hd : d ≠ 0)
    (hg : b = false → InI64 (Int.tmod v d * m)) (hr : InI64 (exact v m d)) :
    canon b v m d = some (exact v m d) := by
  cases b
  · exact muldiv_exact v m d hd (hg rfl) hr
  · exact muldivFixed_exact v m d hd hr

/-- three-argument copy `f` = canonical body -/
macro "c24_copy3 " f:ident fx:ident : tactic =>
  `(tactic| (intro v m d
             simp only [$f:ident, $fx:ident, canon, muldiv, muldivFixed, I64.div, I64.mod, I64.mul, I64.add,
               I64.mulDivTrunc128, bind, Option.bind]
             by_cases h : d = 0 <;> simp [h]))

/-- two-argument wrapper `f` written out (playback) -/
macro "c24_copy2 " f:ident fx:ident : tactic =>
  `(tactic| (intro x r
             simp only [$f:ident, $fx:ident, canon, muldiv, muldivFixed, I64.div, I64.mod, I64.mul, I64.add,
               I64.mulDivTrunc128, I64.ofU32, nsPerSec, bind, Option.bind]
             by_cases h : r = 0 <;> simp [h]))

/-- two-argument wrapper `f` calling the three-argument copy with lemma `e` -/
macro "c24_wrap " f:ident fx:ident gx:ident e:ident : tactic =>
  `(tactic| (intro x r
             simp only [$f:ident, $fx:ident, $gx:ident, $e:ident, nsPerSec, bind, Option.bind]
             try (cases canon _ _ _ _ <;> rfl)))

theorem ntpestimator_multiplyAndDivide_eq : ∀ v m d : Int,
    ntpestimator_multiplyAndDivide v m d = canon ntpestimator_multiplyAndDivide_usesFix v m d := by
  c24_copy3 ntpestimator_multiplyAndDivide ntpestimator_multiplyAndDivide_usesFix

theorem protocols_hls_multiplyAndDivide_eq : ∀ v m d : Int,
    protocols_hls_multiplyAndDivide v m d = canon protocols_hls_multiplyAndDivide_usesFix v m d := by
  c24_copy3 protocols_hls_multiplyAndDivide protocols_hls_multiplyAndDivide_usesFix

theorem protocols_mpegts_multiplyAndDivide_eq : ∀ v m d : Int,
    protocols_mpegts_multiplyAndDivide v m d = canon protocols_mpegts_multiplyAndDivide_usesFix v m d := by
  c24_copy3 protocols_mpegts_multiplyAndDivide protocols_mpegts_multiplyAndDivide_usesFix

theorem protocols_rtmp_multiplyAndDivide_eq : ∀ v m d : Int,
    protocols_rtmp_multiplyAndDivide v m d = canon protocols_rtmp_multiplyAndDivide_usesFix v m d := by
  c24_copy3 protocols_rtmp_multiplyAndDivide protocols_rtmp_multiplyAndDivide_usesFix

theorem protocols_rtmp_multiplyAndDivide2_eq : ∀ v m d : Int,
    protocols_rtmp_multiplyAndDivide2 v m d = canon protocols_rtmp_multiplyAndDivide2_usesFix v m d := by
  c24_copy3 protocols_rtmp_multiplyAndDivide2 protocols_rtmp_multiplyAndDivide2_usesFix

theorem protocols_webrtc_multiplyAndDivide2_eq : ∀ v m d : Int,
    protocols_webrtc_multiplyAndDivide2 v m d = canon protocols_webrtc_multiplyAndDivide2_usesFix v m d := by
  c24_copy3 protocols_webrtc_multiplyAndDivide2 protocols_webrtc_multiplyAndDivide2_usesFix

theorem recorder_multiplyAndDivide_eq : ∀ v m d : Int,
    recorder_multiplyAndDivide v m d = canon recorder_multiplyAndDivide_usesFix v m d := by
  c24_copy3 recorder_multiplyAndDivide recorder_multiplyAndDivide_usesFix

theorem recorder_multiplyAndDivide2_eq : ∀ v m d : Int,
    recorder_multiplyAndDivide2 v m d = canon recorder_multiplyAndDivide2_usesFix v m d := by
  c24_copy3 recorder_multiplyAndDivide2 recorder_multiplyAndDivide2_usesFix

theorem staticsources_rpicamera_multiplyAndDivide_eq : ∀ v m d : Int,
    staticsources_rpicamera_multiplyAndDivide v m d
      = canon staticsources_rpicamera_multiplyAndDivide_usesFix v m d := by
  c24_copy3 staticsources_rpicamera_multiplyAndDivide staticsources_rpicamera_multiplyAndDivide_usesFix

theorem stream_multiplyAndDivide_eq : ∀ v m d : Int,
    stream_multiplyAndDivide v m d = canon stream_multiplyAndDivide_usesFix v m d := by
  c24_copy3 stream_multiplyAndDivide stream_multiplyAndDivide_usesFix

theorem stream_multiplyAndDivide2_eq : ∀ v m d : Int,
    stream_multiplyAndDivide2 v m d = canon stream_multiplyAndDivide2_usesFix v m d := by
  c24_copy3 stream_multiplyAndDivide2 stream_multiplyAndDivide2_usesFix

/-- `durationGoToMp4(v, timeScale)` = canonical body at `(v, timeScale, 10^9)` -/
theorem playback_durationGoToMp4_eq : ∀ x r : Int,
    playback_durationGoToMp4 x r = canon playback_durationGoToMp4_usesFix x r nsPerSec := by
  c24_copy2 playback_durationGoToMp4 playback_durationGoToMp4_usesFix

/-- `durationMp4ToGo(v, timeScale)` = canonical body at `(v, 10^9, timeScale)` (panics for time scale 0) -/
theorem playback_durationMp4ToGo_eq : ∀ x r : Int,
    playback_durationMp4ToGo x r = canon playback_durationMp4ToGo_usesFix x nsPerSec r := by
  c24_copy2 playback_durationMp4ToGo playback_durationMp4ToGo_usesFix

theorem protocols_rtmp_durationToTimestamp_eq : ∀ x r : Int,
    protocols_rtmp_durationToTimestamp x r = canon protocols_rtmp_durationToTimestamp_usesFix x r nsPerSec := by
  c24_wrap protocols_rtmp_durationToTimestamp protocols_rtmp_durationToTimestamp_usesFix
    protocols_rtmp_multiplyAndDivide_usesFix protocols_rtmp_multiplyAndDivide_eq

theorem protocols_rtmp_timestampToDuration_eq : ∀ x r : Int,
    protocols_rtmp_timestampToDuration x r = canon protocols_rtmp_timestampToDuration_usesFix x nsPerSec r := by
  c24_wrap protocols_rtmp_timestampToDuration protocols_rtmp_timestampToDuration_usesFix
    protocols_rtmp_multiplyAndDivide2_usesFix protocols_rtmp_multiplyAndDivide2_eq

theorem protocols_webrtc_timestampToDuration_eq : ∀ x r : Int,
    protocols_webrtc_timestampToDuration x r = canon protocols_webrtc_timestampToDuration_usesFix x nsPerSec r := by
  c24_wrap protocols_webrtc_timestampToDuration protocols_webrtc_timestampToDuration_usesFix
    protocols_webrtc_multiplyAndDivide2_usesFix protocols_webrtc_multiplyAndDivide2_eq

theorem recorder_timestampToDuration_eq : ∀ x r : Int,
    recorder_timestampToDuration x r = canon recorder_timestampToDuration_usesFix x nsPerSec r := by
  c24_wrap recorder_timestampToDuration recorder_timestampToDuration_usesFix
    recorder_multiplyAndDivide2_usesFix recorder_multiplyAndDivide2_eq

/-- Every three-argument copy the translator found (whatever their number) is the canonical body
(the repaired one iff it is flagged as using the 128-bit helper). -/
theorem copies3_canonical :
    ∀ c ∈ Gen.copies3, ∀ v m d : Int, c.2.2 v m d = canon c.2.1 v m d := by
  intro c hc
  simp only [Gen.copies3, List.mem_cons, List.not_mem_nil, or_false] at hc
  have all := And.intro ntpestimator_multiplyAndDivide_eq <| And.intro protocols_hls_multiplyAndDivide_eq <|
    And.intro protocols_mpegts_multiplyAndDivide_eq <| And.intro protocols_rtmp_multiplyAndDivide_eq <|
    And.intro protocols_rtmp_multiplyAndDivide2_eq <| And.intro protocols_webrtc_multiplyAndDivide2_eq <|
    And.intro recorder_multiplyAndDivide_eq <| And.intro recorder_multiplyAndDivide2_eq <|
    And.intro staticsources_rpicamera_multiplyAndDivide_eq <| And.intro stream_multiplyAndDivide_eq
      stream_multiplyAndDivide2_eq
  repeat (rcases hc with rfl | hc; · simp only [all]; try (intros; trivial))
  all_goals (subst hc; simp only [all]; try (intros; trivial))

/-- Hence every three-argument copy is exact under the guard (no guard for a repaired copy). -/
theorem copies3_exact :
    ∀ c ∈ Gen.copies3, ∀ v m d : Int, d ≠ 0 → (c.2.1 = false → InI64 (Int.tmod v d * m)) →
      InI64 (exact v m d) → c.2.2 v m d = some (exact v m d) := by
  intro c hc v m d hd hg hr
  rw [copies3_canonical c hc]
  exact canon_exact _ v m d hd hg hr

/-- Every two-argument wrapper the translator found instantiates the canonical body as its name says. -/
theorem copies2_canonical :
    ∀ c ∈ Gen.copies2, ∀ sh, shapeOf c.2.1 = some sh → ∀ x r : Int,
      c.2.2.2 x r = canon c.2.2.1 (sh.args x r).1 (sh.args x r).2.1 (sh.args x r).2.2 := by
  intro c hc sh hsh x r
  simp only [Gen.copies2, List.mem_cons, List.not_mem_nil, or_false] at hc
  have all := And.intro playback_durationGoToMp4_eq <| And.intro playback_durationMp4ToGo_eq <|
    And.intro protocols_rtmp_durationToTimestamp_eq <| And.intro protocols_rtmp_timestampToDuration_eq <|
    And.intro protocols_webrtc_timestampToDuration_eq recorder_timestampToDuration_eq
  repeat (rcases hc with rfl | hc; · (simp [shapeOf] at hsh; subst hsh; simp only [all, Shape.args]))
  all_goals (subst hc; simp [shapeOf] at hsh; subst hsh; simp only [all, Shape.args])

/-- Hence every nanosecond wrapper is exact for every rate in `1 … 2^32` and every `x` with a
representable result — no overflow class at all for these. -/
theorem copies2_exact :
    ∀ c ∈ Gen.copies2, ∀ sh, shapeOf c.2.1 = some sh → ∀ x r : Int, rateOK r = true →
      InI64 (exact (sh.args x r).1 (sh.args x r).2.1 (sh.args x r).2.2) →
      c.2.2.2 x r = some (exact (sh.args x r).1 (sh.args x r).2.1 (sh.args x r).2.2) := by
  intro c hc sh hsh x r hr hx
  rw [copies2_canonical c hc sh hsh]
  simp only [rateOK, decide_eq_true_eq] at hr
  cases sh with
  | rateIsD =>
    simp only [Shape.args] at *
    exact canon_exact _ _ _ _ (by omega) (fun _ => guard_const_m x nsPerSec r (by decide) hr) hx
  | rateIsM =>
    simp only [Shape.args] at *
    exact canon_exact _ _ _ _ (by decide) (fun _ => guard_const_d x r nsPerSec (by decide) hr) hx

/-! #### inline conversions (round 2): nanoseconds ↔ MP4 movie time scale without a helper -/

/-- `recorder.writeDuration`: `mvhd.DurationV0 = uint32(d / time.Millisecond)` is the exact conversion of `d`
nanoseconds into the movie time scale 1000 (the value `fmp4.Init.Marshal` writes; the harness reads the real
one back), truncated toward zero, then narrowed to 32 bits. -/
theorem recorder_writeDuration_mvhdDuration_eq (d : Int) (hd : InI64 d) :
    recorder_writeDuration_mvhdDuration d = some (exact d 1000 nsPerSec % 2 ^ 32) := by
  have h1 : exact d 1000 nsPerSec = Int.tdiv d 1000000 := by
    unfold exact nsPerSec
    have : (1000000000 : Int) = 1000000 * 1000 := by decide
    rw [this, Int.mul_tdiv_mul_of_pos_left _ _ (by decide : (0 : Int) < 1000)]
  have h2 : InI64 (Int.tdiv d 1000000) := by
    have hb := Int.natAbs_tdiv_le_natAbs d 1000000
    unfold InI64 at *
    rcases Int.le_total 0 d with h | h
    · have := Int.tdiv_nonneg h (by decide : (0 : Int) ≤ 1000000)
      omega
    · have := Int.tdiv_nonneg (by omega : 0 ≤ -d) (by decide : (0 : Int) ≤ 1000000)
      rw [Int.neg_tdiv] at this
      omega
  simp [recorder_writeDuration_mvhdDuration, I64.div, I64.toU32, bind, Option.bind, h1, wrap64_of_in h2]

/-- hence, when the exact result is representable in the 32-bit field, the field holds exactly it -/
theorem recorder_writeDuration_exact (d : Int) (hd : InI64 d)
    (hr : 0 ≤ exact d 1000 nsPerSec ∧ exact d 1000 nsPerSec < 2 ^ 32) :
    recorder_writeDuration_mvhdDuration d = some (exact d 1000 nsPerSec) := by
  rw [recorder_writeDuration_mvhdDuration_eq d hd, Int.emod_eq_of_lt hr.1 hr.2]

/-- `playback.segmentFMP4ReadHeader`: `time.Duration(mvhd.DurationV0) * time.Second / time.Duration(mvhd.Timescale)`
is the exact conversion for all 32-bit field values (the product is < 2^62: no wrap). -/
theorem playback_readHeader_duration_eq (dur ts : Int) (hd : 0 ≤ dur ∧ dur < 2 ^ 32) (ht : 1 ≤ ts ∧ ts < 2 ^ 32) :
    playback_readHeader_duration dur ts = some (exact dur nsPerSec ts) := by
  have hp : InI64 (dur * 1000000000) := by unfold InI64; omega
  have hq : InI64 (Int.tdiv (dur * 1000000000) ts) := by
    have := Int.natAbs_tdiv_le_natAbs (dur * 1000000000) ts
    unfold InI64 at *
    omega
  have hne : ts ≠ 0 := by omega
  simp [playback_readHeader_duration, I64.div, I64.mul, I64.ofU32, hne, exact, nsPerSec,
    wrap64_of_in hp, wrap64_of_in hq]

/-- Every constant rate argument at every call site is in `1 … 2^31` (decided over the generated table). -/
theorem sites_const_small : ∀ s ∈ Gen.sites, s.constSmall = true := by decide

/-- **Call sites with a constant rate are exact over the whole property domain**: for every call site in
the repository where at least one rate argument is a syntactic constant, every `v`, every rate pair in
`1 … 2^32` that the site can pass, and representable exact result — the canonical body is exact. -/
theorem const_sites_exact : ∀ s ∈ Gen.sites, s.oneConst = true →
    ∀ v m d : Int, s.matches m d = true → rateOK m = true → rateOK d = true → InI64 (exact v m d) →
      muldiv v m d = some (exact v m d) := by
  intro s hs hone v m d hmatch hm hd hx
  have hsmall := sites_const_small s hs
  simp only [rateOK, decide_eq_true_eq] at hm hd
  apply muldiv_exact v m d (by omega) _ hx
  unfold Site.oneConst at hone
  unfold Site.matches at hmatch
  unfold Site.constSmall at hsmall
  cases hsm : s.m with
  | some c =>
    simp only [hsm, Bool.and_eq_true, beq_iff_eq, decide_eq_true_eq] at hmatch hsmall
    have : c = m := hmatch.1
    subst this
    exact guard_const_m v c d hsmall.1 hd
  | none =>
    cases hsd : s.d with
    | some c =>
      simp only [hsd, Bool.and_eq_true, beq_iff_eq, decide_eq_true_eq] at hmatch hsmall
      have : c = d := hmatch.2
      subst this
      exact guard_const_d v m c hsmall.2 hm
    | none => simp [hsm, hsd] at hone

/-! ### 3. the full statement, its counterexample, the partial statement -/

/-- The property as written: for all 64-bit `v` and all rates in `1 … 2^32`, if the exact result is
representable the helper returns it. -/
def muldiv_full : Prop :=
  ∀ v m d : Int, InI64 v → rateOK m = true → rateOK d = true → InI64 (exact v m d) →
    muldiv v m d = some (exact v m d)

/-- The property as written, for the repaired body. -/
def muldivFixed_full : Prop :=
  ∀ v m d : Int, InI64 v → rateOK m = true → rateOK d = true → InI64 (exact v m d) →
    muldivFixed v m d = some (exact v m d)

/-- Partial statement: the full statement holds outside the decidable class `overflowRegion`. -/
theorem muldiv_partial :
    ∀ v m d : Int, InI64 v → rateOK m = true → rateOK d = true → InI64 (exact v m d) →
      overflowRegion v m d = false → muldiv v m d = some (exact v m d) := by
  intro v m d _ _ hd hx hg
  simp only [rateOK, decide_eq_true_eq] at hd
  exact muldiv_exact_of_not_overflowRegion v m d (by omega) hg hx

/-- **Finding F-C24**: the full statement is false for the code as written.  Witness inside the
property's domain: `v = 2^32 - 1`, `m = d = 2^32` — exact result `2^32 - 1`, the code returns `-1`. -/
theorem muldiv_full_witness : ¬ muldiv_full := by
  intro h
  have := h (2 ^ 32 - 1) (2 ^ 32) (2 ^ 32) (by decide) (by decide) (by decide) (by decide)
  revert this
  decide

/-- The repaired body satisfies the full statement. -/
theorem muldivFixed_full_holds : muldivFixed_full := by
  intro v m d _ _ hd hx
  simp only [rateOK, decide_eq_true_eq] at hd
  exact muldivFixed_exact v m d (by omega) hx

/-- The overflow class is exactly "both rates large": inside the domain it needs `(d-1)*m ≥ 2^63`. -/
theorem overflowRegion_needs_both_large (v m d : Int) (hm : rateOK m = true) (hd : rateOK d = true)
    (h : overflowRegion v m d = true) : 2 ^ 63 ≤ (d - 1) * m := by
  simp only [rateOK, decide_eq_true_eq] at hm hd
  apply Int.not_lt.mp
  intro hlt
  have := guard_of_bound v m d (by omega) (by omega) hlt
  simp [overflowRegion, this] at h

/-! ### non-vacuity / samples (tests, not theorems) -/

example : muldiv 90001 nsPerSec 90000 = some 1000011111 ∧ exact 90001 nsPerSec 90000 = 1000011111 := by decide
example : muldiv (-90001) nsPerSec 90000 = some (-1000011111) := by decide
example : muldiv (2 ^ 32 - 1) (2 ^ 32) (2 ^ 32) = some (-1) ∧ exact (2 ^ 32 - 1) (2 ^ 32) (2 ^ 32) = 2 ^ 32 - 1 := by decide
example : overflowRegion (2 ^ 32 - 1) (2 ^ 32) (2 ^ 32) = true := by decide
example : muldivFixed (2 ^ 32 - 1) (2 ^ 32) (2 ^ 32) = some (2 ^ 32 - 1) := by decide
example : muldiv (-(2 ^ 63)) 1 (-1) = some (-(2 ^ 63)) := by decide   -- MinInt64 / -1 wraps, as in Go
example : muldiv 5 3 0 = none := by decide
example : ∃ s ∈ Gen.sites, s.oneConst = false := by decide  -- sites with both rates free exist
example : InI64 (Int.tmod 12345678901234 90000 * nsPerSec) ∧ InI64 (exact 12345678901234 nsPerSec 90000) := by decide

end MtxVerif.C24
