/-
C37 — structured log lines are valid JSON.  Property theorems (model = the `encoding/json` string
encoding the code uses since /repo b0a84c7).

* the property:                                    `LogLineJSON_full` (def), **`log_line_json`** (proved for
  every timestamp text, level and message byte string, incl. control bytes and invalid UTF-8)
* what the current source calls (Gen/C37):         `tie_stdout`, `tie_file`
* spec adequacy ("exactly one line"):              `parseLine_one_line`
* regressions of the pre-fix routine (`strconv.Quote`: `\a`, `\x01`, `\xff` are not JSON): decided examples
-/
import MtxVerif.Model.C37
import MtxVerif.Gen.C37

namespace MtxVerif.C37

/-! #### hex digits -/

theorem hexVal_hexDigit (n : Nat) (h : n < 16) : hexVal (hexDigit n) = some n := by
  have key : ∀ k : Fin 16, hexVal (hexDigit k.val) = some k.val := by decide
  exact key ⟨n, h⟩

/-- a byte that the string reader copies -/
def Plain (c : UInt8) : Prop := c ≠ QUOTE ∧ c ≠ BS ∧ ¬ c.toNat < 0x20

instance : DecidablePred Plain := fun c => by unfold Plain; exact inferInstance

theorem plain_of_ge {c : UInt8} (h : 0x80 ≤ c.toNat) : Plain c := by
  refine ⟨?_, ?_, by omega⟩
  · intro e; subst e; revert h; decide
  · intro e; subst e; revert h; decide

theorem dec_plain_cons {c : UInt8} (h : Plain c) (r : Bytes) :
    dec .s0 (c :: r) = (dec .s0 r).map fun p => (c :: p.1, p.2) := by
  obtain ⟨h1, h2, h3⟩ := h
  simp only [dec, h1, h2, h3, if_false]

theorem dec_plain (l rest : Bytes) (h : ∀ c ∈ l, Plain c) :
    dec .s0 (l ++ rest) = (dec .s0 rest).map fun p => (l ++ p.1, p.2) := by
  induction l with
  | nil =>
    simp only [List.nil_append]
    cases dec .s0 rest <;> simp
  | cons c l ih =>
    rw [List.cons_append, dec_plain_cons (h c List.mem_cons_self),
      ih (fun c hc => h c (List.mem_cons_of_mem _ hc))]
    cases dec .s0 rest <;> simp

/-- `\uXXXX` for a non-surrogate BMP value reads back as the UTF-8 encoding of that value -/
theorem dec_u4 (v : Nat) (hv : v < 0x10000) (hs : ¬ (0xD800 ≤ v ∧ v ≤ 0xDFFF)) (rest : Bytes) :
    dec .s0 (BS :: 117 :: (hex4 v ++ rest)) = (dec .s0 rest).map fun p => (utf8enc v ++ p.1, p.2) := by
  have e : (((0 * 16 + v / 4096 % 16) * 16 + v / 256 % 16) * 16 + v / 16 % 16) * 16 + v % 16 = v := by omega
  have hq : (BS = QUOTE) = False := by decide
  simp only [hex4, List.cons_append, List.nil_append, dec, hq, if_false, if_true,
    hexVal_hexDigit _ (Nat.mod_lt _ (by decide : 0 < 16))]
  have h117 : (117 : UInt8).toNat = 117 := by decide
  simp only [h117, if_true, if_false, e,
    (by decide : (0 : Nat) < 3), (by decide : (0 + 1 : Nat) < 3), (by decide : (0 + 1 + 1 : Nat) < 3),
    (by decide : ¬ (0 + 1 + 1 + 1 : Nat) < 3)]
  have hf : finishU v none = .inl (utf8enc v) := by
    unfold finishU
    have h1 : ¬ (0xD800 ≤ v ∧ v ≤ 0xDBFF) := by omega
    have h2 : ¬ (0xDC00 ≤ v ∧ v ≤ 0xDFFF) := by omega
    simp only [h1, h2, if_false]
  simp only [hf]

/-! #### UTF-8: what a successful `decodeRune` tells about the bytes -/

/-- the next `k` bytes are continuation bytes -/
def ContPrefix : Nat → Bytes → Prop
  | 0, _ => True
  | _ + 1, [] => False
  | k + 1, c :: r => (0x80 ≤ c.toNat ∧ c.toNat ≤ 0xBF) ∧ ContPrefix k r

theorem ofNat_eq_of_toNat {c : UInt8} {n : Nat} (h : n = c.toNat) : UInt8.ofNat n = c := by
  rw [UInt8.ofNat_eq_iff_mod_eq_toNat]
  have := c.toNat_lt
  omega

theorem ite_some_eq {α : Type} {p : Prop} [Decidable p] {a b : α}
    (h : (if p then some a else none) = some b) : p ∧ a = b := by
  split at h
  · rename_i hp; injection h with h; exact ⟨hp, h⟩
  · cases h

/-- Round trip and shape of a multi-byte rune. -/
theorem decodeRune_multi {c : UInt8} {r : Bytes} {rune w : Nat} (hc : 0x80 ≤ c.toNat)
    (h : decodeRune (c :: r) = some (rune, w)) :
    ContPrefix (w - 1) r ∧ utf8enc rune = c :: r.take (w - 1) ∧ 0x80 ≤ rune ∧ rune < 0x110000 ∧
      ¬ (0xD800 ≤ rune ∧ rune ≤ 0xDFFF) ∧ (rune < 0x10000 → w ≤ 3) := by
  have hlt := c.toNat_lt
  simp only [decodeRune] at h
  split at h
  · omega
  · split at h
    · cases h
    · split at h
      · -- two bytes
        cases r with
        | nil => cases h
        | cons b1 r1 =>
          simp only at h
          split at h
          · rename_i hy
            injection h with h; injection h with h1 h2
            subst h1 h2
            have h1 := b1.toNat_lt
            refine ⟨⟨hy, trivial⟩, ?_, by omega, by omega, by omega, by omega⟩
            have e1 : ¬ ((c.toNat - 192) * 64 + (b1.toNat - 128) < 128) := by omega
            have e2 : (c.toNat - 192) * 64 + (b1.toNat - 128) < 2048 := by omega
            simp only [utf8enc, e1, e2, if_false, if_true, List.take_succ_cons, List.take_zero]
            rw [ofNat_eq_of_toNat (c := c) (by omega), ofNat_eq_of_toNat (c := b1) (by omega)]
          · cases h
      · split at h
        · -- three bytes
          cases r with
          | nil => cases h
          | cons b1 r1 =>
            cases r1 with
            | nil => cases h
            | cons b2 r2 =>
              simp only at h
              obtain ⟨hy, h⟩ := ite_some_eq h
              · injection h with h1 h2
                subst h1 h2
                have h1 := b1.toNat_lt
                have h2 := b2.toNat_lt
                have hlo : 0x80 ≤ b1.toNat ∧ b1.toNat ≤ 0xBF := by
                  obtain ⟨ha, hb, _, _⟩ := hy
                  constructor
                  · split at ha <;> omega
                  · split at hb <;> omega
                have hns : c.toNat = 0xE0 → 0xA0 ≤ b1.toNat := by
                  intro e; obtain ⟨ha, _⟩ := hy; simp only [e, if_true] at ha; exact ha
                have hsur : c.toNat = 0xED → b1.toNat ≤ 0x9F := by
                  intro e; obtain ⟨_, hb, _⟩ := hy; simp only [e, if_true] at hb; exact hb
                refine ⟨⟨hlo, ⟨hy.2.2.1, hy.2.2.2⟩, trivial⟩, ?_, by omega, by omega, ?_, by omega⟩
                · have e1 : ¬ (((c.toNat - 224) * 64 + (b1.toNat - 128)) * 64 + (b2.toNat - 128) < 128) := by omega
                  have e2 : ¬ (((c.toNat - 224) * 64 + (b1.toNat - 128)) * 64 + (b2.toNat - 128) < 2048) := by
                    have := hns; omega
                  have e3 : ((c.toNat - 224) * 64 + (b1.toNat - 128)) * 64 + (b2.toNat - 128) < 65536 := by omega
                  simp only [utf8enc, e1, e2, e3, if_false, if_true, List.take_succ_cons, List.take_zero]
                  rw [ofNat_eq_of_toNat (c := c) (by omega), ofNat_eq_of_toNat (c := b1) (by omega),
                    ofNat_eq_of_toNat (c := b2) (by omega)]
                · have := hsur; have := hy.2.2; omega
        · split at h
          · -- four bytes
            cases r with
            | nil => cases h
            | cons b1 r1 =>
              cases r1 with
              | nil => cases h
              | cons b2 r2 =>
                cases r2 with
                | nil => cases h
                | cons b3 r3 =>
                  simp only at h
                  obtain ⟨hy, h⟩ := ite_some_eq h
                  · injection h with h1 h2
                    subst h1 h2
                    have h1 := b1.toNat_lt
                    have h2 := b2.toNat_lt
                    have h3 := b3.toNat_lt
                    have hlo : 0x80 ≤ b1.toNat ∧ b1.toNat ≤ 0xBF := by
                      obtain ⟨ha, hb, _⟩ := hy
                      constructor
                      · split at ha <;> omega
                      · split at hb <;> omega
                    have hns : c.toNat = 0xF0 → 0x90 ≤ b1.toNat := by
                      intro e; obtain ⟨ha, _⟩ := hy; simp only [e, if_true] at ha; exact ha
                    have hmax : c.toNat = 0xF4 → b1.toNat ≤ 0x8F := by
                      intro e; obtain ⟨_, hb, _⟩ := hy; simp only [e, if_true] at hb; exact hb
                    have hz := hy.2.2.1; have hz' := hy.2.2.2.1
                    have hu := hy.2.2.2.2.1; have hu' := hy.2.2.2.2.2
                    have big : 65536 ≤ (((c.toNat - 240) * 64 + (b1.toNat - 128)) * 64 + (b2.toNat - 128)) * 64 + (b3.toNat - 128) := by
                      have := hns; omega
                    refine ⟨⟨hlo, ⟨hz, hz'⟩, ⟨hu, hu'⟩, trivial⟩, ?_, by omega, ?_, by omega, by omega⟩
                    · have e1 : ¬ ((((c.toNat - 240) * 64 + (b1.toNat - 128)) * 64 + (b2.toNat - 128)) * 64 + (b3.toNat - 128) < 128) := by omega
                      have e2 : ¬ ((((c.toNat - 240) * 64 + (b1.toNat - 128)) * 64 + (b2.toNat - 128)) * 64 + (b3.toNat - 128) < 2048) := by omega
                      have e3 : ¬ ((((c.toNat - 240) * 64 + (b1.toNat - 128)) * 64 + (b2.toNat - 128)) * 64 + (b3.toNat - 128) < 65536) := by omega
                      simp only [utf8enc, e1, e2, e3, if_false, List.take_succ_cons, List.take_zero]
                      rw [ofNat_eq_of_toNat (c := c) (by omega), ofNat_eq_of_toNat (c := b1) (by omega),
                        ofNat_eq_of_toNat (c := b2) (by omega), ofNat_eq_of_toNat (c := b3) (by omega)]
                    · have := hmax; omega
          · cases h

/-! #### escapes of single ASCII bytes read back as that byte -/

theorem eq_of_toNat {c : UInt8} {n : Nat} (hn : n < 256) (h : c.toNat = n) : c = UInt8.ofNat n := by
  apply UInt8.toNat_inj.mp
  rw [h, UInt8.toNat_ofNat']
  omega

theorem hex4_small (x : Nat) (h : x < 256) : hex4 x = 48 :: 48 :: hex2 x := by
  have e1 : x / 4096 % 16 = 0 := by omega
  have e2 : x / 256 % 16 = 0 := by omega
  simp only [hex4, hex2, e1, e2]
  rfl

theorem utf8enc_ascii {c : UInt8} (h : c.toNat < 0x80) : utf8enc c.toNat = [c] := by
  simp only [utf8enc, h, if_true, UInt8.ofNat_toNat]

/-- `\u00hh` reads back as the byte `hh` (for ASCII `hh`) -/
theorem dec_u00 {c : UInt8} (h : c.toNat < 0x80) (X : Bytes) :
    dec .s0 (BS :: 117 :: 48 :: 48 :: (hex2 c.toNat ++ X)) = (dec .s0 X).map fun p => (c :: p.1, p.2) := by
  have e : BS :: 117 :: 48 :: 48 :: (hex2 c.toNat ++ X) = BS :: 117 :: (hex4 c.toNat ++ X) := by
    rw [hex4_small _ (by omega)]; rfl
  rw [e, dec_u4 _ (by omega) (by omega), utf8enc_ascii h]
  rfl

theorem dec_jsonEscASCII {c : UInt8} (hc : c.toNat < 0x80) (X : Bytes) :
    dec .s0 (jsonEscASCII c ++ X) = (dec .s0 X).map fun p => (c :: p.1, p.2) := by
  unfold jsonEscASCII
  simp only
  split
  · rename_i h
    rcases h with h | h
    · have := eq_of_toNat (by decide) h; subst this; rfl
    · have := eq_of_toNat (by decide) h; subst this; rfl
  · split
    · rename_i h; have := eq_of_toNat (by decide) h; subst this; rfl
    · split
      · rename_i h; have := eq_of_toNat (by decide) h; subst this; rfl
      · split
        · rename_i h; have := eq_of_toNat (by decide) h; subst this; rfl
        · split
          · rename_i h; have := eq_of_toNat (by decide) h; subst this; rfl
          · split
            · rename_i h; have := eq_of_toNat (by decide) h; subst this; rfl
            · split
              · exact dec_u00 hc X
              · rename_i h1 _ _ _ _ _ h7
                have hp : Plain c := by
                  refine ⟨?_, ?_, by omega⟩
                  · intro e; subst e; exact h1 (Or.inl (by decide))
                  · intro e; subst e; exact h1 (Or.inr (by decide))
                exact dec_plain_cons hp X

/-! #### the quoting routine, read back by the JSON string reader -/

theorem decodeRune_ascii {c : UInt8} (h : c.toNat < 0x80) (r : Bytes) :
    decodeRune (c :: r) = some (c.toNat, 1) := by
  simp only [decodeRune, h, if_true]

theorem dec_fffd (X : Bytes) :
    dec .s0 (BS :: 117 :: 102 :: 102 :: 102 :: 100 :: X) = (dec .s0 X).map fun p => (FFFD ++ p.1, p.2) := by
  have := dec_u4 0xFFFD (by decide) (by decide) X
  exact this

/-- **`encoding/json` string encoding reads back as the sanitised message** (induction over the
message; `k` = continuation bytes of the current rune still to be handled, copied or dropped). -/
theorem dec_jsonStr : ∀ (m : Bytes) (cp : Bool) (k : Nat) (rest : Bytes), ContPrefix k m →
    ∃ Y, dec .s0 (jsonStrGo cp k m ++ QUOTE :: rest) = some (Y, rest) ∧
      sanitizeGo k m = (if cp then Y else m.take k ++ Y) := by
  intro m
  induction m with
  | nil =>
    intro cp k rest _
    refine ⟨[], ?_, ?_⟩
    · simp only [jsonStrGo, List.nil_append]; rfl
    · cases cp <;> simp [sanitizeGo]
  | cons c r ih =>
    intro cp k rest hk
    cases k with
    | succ k =>
      obtain ⟨hc, hk⟩ := hk
      cases cp with
      | true =>
        obtain ⟨Y, hY, hs⟩ := ih true k rest hk
        refine ⟨c :: Y, ?_, ?_⟩
        · simp only [jsonStrGo, if_true, List.cons_append]
          rw [dec_plain_cons (plain_of_ge hc.1), hY]; rfl
        · simp only [sanitizeGo, hs, if_true]
      | false =>
        obtain ⟨Y, hY, hs⟩ := ih false k rest hk
        refine ⟨Y, ?_, ?_⟩
        · simp only [jsonStrGo, Bool.false_eq_true, if_false]; exact hY
        · simp only [sanitizeGo, hs, Bool.false_eq_true, if_false, List.take_succ_cons, List.cons_append]
    | zero =>
      have goal0 : ∀ Y, (if cp = true then Y else (c :: r).take 0 ++ Y) = Y := by
        intro Y; cases cp <;> simp
      simp only [goal0]
      by_cases hx : c.toNat < 0x80
      · obtain ⟨Y, hY, hs⟩ := ih true 0 rest trivial
        refine ⟨c :: Y, ?_, ?_⟩
        · simp only [jsonStrGo, hx, if_true, List.append_assoc]
          rw [dec_jsonEscASCII hx, hY]; rfl
        · simp only [sanitizeGo, decodeRune_ascii hx]
          simp only [Nat.sub_self, hs, if_true]
      · cases hd : decodeRune (c :: r) with
        | none =>
          obtain ⟨Y, hY, hs⟩ := ih true 0 rest trivial
          refine ⟨FFFD ++ Y, ?_, ?_⟩
          · simp only [jsonStrGo, hx, if_false, hd, List.cons_append]
            rw [dec_fffd, hY]; rfl
          · simp only [sanitizeGo, hd, hs, if_true]
        | some p =>
          obtain ⟨rune, w⟩ := p
          obtain ⟨hcont, henc, hge, hlt, hsur, hw⟩ := decodeRune_multi (by omega) hd
          by_cases hls : rune = 0x2028 ∨ rune = 0x2029
          · obtain ⟨Y, hY, hs⟩ := ih false (w - 1) rest hcont
            refine ⟨utf8enc rune ++ Y, ?_, ?_⟩
            · simp only [jsonStrGo, hx, if_false, hd, hls, if_true, List.cons_append, List.append_assoc]
              rw [dec_u4 rune (by omega) hsur, hY]; rfl
            · simp only [sanitizeGo, hd, hs, Bool.false_eq_true, if_false, henc, List.cons_append]
          · obtain ⟨Y, hY, hs⟩ := ih true (w - 1) rest hcont
            refine ⟨c :: Y, ?_, ?_⟩
            · simp only [jsonStrGo, hx, if_false, hd, hls, List.cons_append]
              rw [dec_plain_cons (plain_of_ge (by omega)), hY]; rfl
            · simp only [sanitizeGo, hd, hs, if_true]

/-! #### the whole record -/

theorem dec_quote (rest : Bytes) : dec .s0 (QUOTE :: rest) = some ([], rest) := rfl

theorem dec_plain_quote (l rest : Bytes) (h : ∀ c ∈ l, Plain c) :
    dec .s0 (l ++ QUOTE :: rest) = some (l, rest) := by
  rw [dec_plain l _ h, dec_quote]; simp

theorem pm_member_comma (f : Nat) (key valEnc val t : Bytes) (hk : ∀ c ∈ key, Plain c)
    (hv : ∀ rest, dec .s0 (valEnc ++ QUOTE :: rest) = some (val, rest)) :
    parseMembers (f + 1) (34 :: (key ++ 34 :: 58 :: 34 :: (valEnc ++ 34 :: 44 :: 34 :: t))) =
      (parseMembers f (34 :: t)).map fun p => ((key, val) :: p.1, p.2) := by
  have h1 := dec_plain_quote key (58 :: 34 :: (valEnc ++ 34 :: 44 :: 34 :: t)) hk
  have h2 := hv (44 :: 34 :: t)
  change dec .s0 (key ++ 34 :: 58 :: 34 :: (valEnc ++ 34 :: 44 :: 34 :: t)) = _ at h1
  change dec .s0 (valEnc ++ 34 :: 44 :: 34 :: t) = _ at h2
  simp only [parseMembers, h1]
  simp only [skipWs]
  simp [h2, skipWs]

theorem pm_member_close (f : Nat) (key valEnc val t : Bytes) (hk : ∀ c ∈ key, Plain c)
    (hv : ∀ rest, dec .s0 (valEnc ++ QUOTE :: rest) = some (val, rest)) :
    parseMembers (f + 1) (34 :: (key ++ 34 :: 58 :: 34 :: (valEnc ++ 34 :: 125 :: t))) =
      some ([(key, val)], t) := by
  have h1 := dec_plain_quote key (58 :: 34 :: (valEnc ++ 34 :: 125 :: t)) hk
  have h2 := hv (125 :: t)
  change dec .s0 (key ++ 34 :: 58 :: 34 :: (valEnc ++ 34 :: 125 :: t)) = _ at h1
  change dec .s0 (valEnc ++ 34 :: 125 :: t) = _ at h2
  simp only [parseMembers, h1]
  simp only [skipWs]
  simp [h2, skipWs]

/-- the timestamp text contains no quote, backslash or control byte (true of every `time.Format`
layout made of digits and `-:.TZ+`) -/
def TsPlain (ts : Bytes) : Prop := ∀ c ∈ ts, Plain c

instance (ts : Bytes) : Decidable (TsPlain ts) := by unfold TsPlain; exact inferInstance

theorem levelStr_plain (l : Nat) : ∀ c ∈ levelStr l, Plain c := by
  unfold levelStr
  split
  · decide
  · split
    · decide
    · split
      · decide
      · split
        · decide
        · intro c hc; cases hc

/-- A record whose message literal `"body"` reads back as `Y` parses to the three fields. -/
theorem parseLine_of_body (body Y ts : Bytes) (lvl : Nat) (hts : TsPlain ts)
    (hb : ∀ rest, dec .s0 (body ++ QUOTE :: rest) = some (Y, rest)) :
    parseLine (lineOf (QUOTE :: body ++ [QUOTE]) ts lvl) =
      some [(kTimestamp, ts), (kLevel, levelStr lvl), (kMessage, Y)] := by
  have shape : lineOf (QUOTE :: body ++ [QUOTE]) ts lvl =
      123 :: 34 :: (kTimestamp ++ 34 :: 58 :: 34 :: (ts ++ 34 :: 44 :: 34 ::
        (kLevel ++ 34 :: 58 :: 34 :: (levelStr lvl ++ 34 :: 44 :: 34 ::
          (kMessage ++ 34 :: 58 :: 34 :: (body ++ 34 :: 125 :: [10])))))) := by
    simp [lineOf, kOpen, kMid1, kMid2, kClose, kTimestamp, kLevel, kMessage, QUOTE]
  rw [shape]
  have hlen : ∀ l : Bytes, ∃ f, (123 :: 34 :: (kTimestamp ++ l)).length = f + 3 :=
    fun l => ⟨l.length + 8, by simp only [List.length_cons, List.length_append, kTimestamp, List.length_nil]; omega⟩
  obtain ⟨f, hf⟩ := hlen (34 :: 58 :: 34 :: (ts ++ 34 :: 44 :: 34 ::
        (kLevel ++ 34 :: 58 :: 34 :: (levelStr lvl ++ 34 :: 44 :: 34 ::
          (kMessage ++ 34 :: 58 :: 34 :: (body ++ 34 :: 125 :: [10]))))))
  have kts : ∀ c ∈ kTimestamp, Plain c := by decide
  have klv : ∀ c ∈ kLevel, Plain c := by decide
  have kms : ∀ c ∈ kMessage, Plain c := by decide
  simp only [parseLine, hf]
  have sk : ∀ t : Bytes, skipWs (34 :: t) = 34 :: t := fun t => rfl
  rw [sk, pm_member_comma _ kTimestamp ts ts _ kts (fun rest => dec_plain_quote ts rest hts),
    pm_member_comma _ kLevel (levelStr lvl) (levelStr lvl) _ klv
      (fun rest => dec_plain_quote _ rest (levelStr_plain lvl)),
    pm_member_close _ kMessage body Y _ kms hb]
  rfl

theorem field_three (a b c : Bytes) :
    field [(kTimestamp, a), (kLevel, b), (kMessage, c)] kTimestamp = some a ∧
    field [(kTimestamp, a), (kLevel, b), (kMessage, c)] kLevel = some b ∧
    field [(kTimestamp, a), (kLevel, b), (kMessage, c)] kMessage = some c := by
  refine ⟨?_, ?_, ?_⟩ <;> rfl

theorem recordOK_of_body (body ts m : Bytes) (lvl : Nat) (hts : TsPlain ts)
    (hb : ∀ rest, dec .s0 (body ++ QUOTE :: rest) = some (sanitize m, rest)) :
    recordOK (lineOf (QUOTE :: body ++ [QUOTE]) ts lvl) ts lvl m = true := by
  unfold recordOK
  rw [parseLine_of_body body (sanitize m) ts lvl hts hb]
  obtain ⟨h1, h2, h3⟩ := field_three ts (levelStr lvl) (sanitize m)
  simp only [h1, h2, h3, beq_self_eq_true, Bool.and_self]

/-! #### the property -/

/-- **C37 at full strength**: for every timestamp text, level and message (any byte string), what is
written is exactly one line holding a JSON object whose `timestamp`, `level` and `message` fields decode
to the record's time text, level and sanitised message. -/
def LogLineJSON_full : Prop :=
  ∀ (ts : Bytes) (lvl : Nat) (m : Bytes), TsPlain ts →
    recordOK (lineOf (jsonString m) ts lvl) ts lvl m = true

theorem log_line_json : LogLineJSON_full := by
  intro ts lvl m hts
  apply recordOK_of_body (jsonStrGo true 0 m) ts m lvl hts
  intro rest
  obtain ⟨Y, hY, hs⟩ := dec_jsonStr m true 0 rest trivial
  simp only [if_true] at hs
  rw [hY, sanitize, hs]

/-- a concrete timestamp text: `2024-02-29T12:00:00Z` -/
def tsSample : Bytes := [50,48,50,52,45,48,50,45,50,57,84,49,50,58,48,48,58,48,48,90]

/-! #### ties to the current source (facts regenerated by tools/xlate/c37) -/

/-- both destinations quote the message with `encoding/json` -/
theorem tie_stdout : MtxVerif.Gen.C37.stdoutQuoter = .jsonMarshal := rfl
theorem tie_file : MtxVerif.Gen.C37.fileQuoter = .jsonMarshal := rfl

/-! #### spec adequacy: the record reader only accepts single lines -/

theorem dec_nl (st : DSt) (r : Bytes) : dec st (10 :: r) = none := by
  cases st <;> rfl

theorem map_pair_some {α : Type} {o : Option (Bytes × Bytes)} {g : Bytes → α} {d : α} {rest : Bytes}
    (h : o.map (fun p => (g p.1, p.2)) = some (d, rest)) : ∃ d', o = some (d', rest) := by
  cases o with
  | none => cases h
  | some p =>
    obtain ⟨a, b⟩ := p
    simp only [Option.map_some, Option.some.injEq, Prod.mk.injEq] at h
    exact ⟨a, by rw [h.2]⟩

theorem dec_step {st : DSt} {c : UInt8} {r d rest : Bytes} (h : dec st (c :: r) = some (d, rest)) :
    rest = r ∨ ∃ st' d', dec st' r = some (d', rest) := by
  cases st with
  | s0 =>
    simp only [dec] at h
    split at h
    · injection h with h; injection h with _ h2; exact Or.inl h2.symm
    · split at h
      · exact Or.inr ⟨_, _, h⟩
      · split at h
        · cases h
        · obtain ⟨d', hd⟩ := map_pair_some h
          exact Or.inr ⟨_, _, hd⟩
  | s1 =>
    simp only [dec] at h
    split at h
    · exact Or.inr ⟨_, _, h⟩
    · split at h
      · obtain ⟨d', hd⟩ := map_pair_some h
        exact Or.inr ⟨_, _, hd⟩
      · cases h
  | su n acc hi =>
    simp only [dec] at h
    split at h
    · cases h
    · split at h
      · exact Or.inr ⟨_, _, h⟩
      · split at h
        · obtain ⟨d', hd⟩ := map_pair_some h
          exact Or.inr ⟨_, _, hd⟩
        · exact Or.inr ⟨_, _, h⟩
        · cases h
  | sh hi =>
    simp only [dec] at h
    split at h
    · exact Or.inr ⟨_, _, h⟩
    · cases h
  | sh1 hi =>
    simp only [dec] at h
    split at h
    · exact Or.inr ⟨_, _, h⟩
    · cases h



def NoNL (l : Bytes) : Prop := ∀ c ∈ l, c ≠ 10

/-- `s` is `rest` preceded by bytes none of which is a newline -/
def Eats (s rest : Bytes) : Prop := ∃ pre, s = pre ++ rest ∧ NoNL pre

theorem Eats.refl (s : Bytes) : Eats s s := ⟨[], rfl, fun _ h => by cases h⟩

theorem Eats.trans {a b c : Bytes} (h1 : Eats a b) (h2 : Eats b c) : Eats a c := by
  obtain ⟨p1, e1, n1⟩ := h1
  obtain ⟨p2, e2, n2⟩ := h2
  refine ⟨p1 ++ p2, by rw [e1, e2, List.append_assoc], ?_⟩
  intro x hx
  rcases List.mem_append.mp hx with h | h
  · exact n1 x h
  · exact n2 x h

theorem Eats.cons {c : UInt8} (hc : c ≠ 10) {s rest : Bytes} (h : Eats s rest) : Eats (c :: s) rest := by
  obtain ⟨p, e, n⟩ := h
  refine ⟨c :: p, by rw [e]; rfl, ?_⟩
  intro x hx
  rcases List.mem_cons.mp hx with rfl | hx
  · exact hc
  · exact n x hx

theorem dec_eats : ∀ (s : Bytes) (st : DSt) (d rest : Bytes), dec st s = some (d, rest) → Eats s rest := by
  intro s
  induction s with
  | nil => intro st d rest h; cases st <;> simp [dec] at h
  | cons c r ih =>
    intro st d rest h
    have hc : c ≠ 10 := by intro e; subst e; rw [dec_nl] at h; cases h
    rcases dec_step h with e | ⟨st', d', h'⟩
    · subst e; exact Eats.cons hc (Eats.refl _)
    · exact Eats.cons hc (ih st' d' rest h')

theorem skipWs_eats : ∀ s : Bytes, Eats s (skipWs s) := by
  intro s
  induction s with
  | nil => exact Eats.refl _
  | cons c r ih =>
    simp only [skipWs]
    split
    · rename_i h
      refine Eats.cons ?_ ih
      rcases h with h | h <;> (subst h; decide)
    · exact Eats.refl _

theorem eats_of_skipWs {s t : Bytes} {c : UInt8} (hc : c ≠ 10) (h : skipWs s = c :: t) : Eats s t := by
  have h1 := skipWs_eats s
  rw [h] at h1
  exact h1.trans (Eats.cons hc (Eats.refl t))

theorem parseMembers_eats : ∀ (f : Nat) (s : Bytes) (ms : List (Bytes × Bytes)) (rest : Bytes),
    parseMembers f s = some (ms, rest) → Eats s rest := by
  intro f
  induction f with
  | zero => intro s ms rest h; simp [parseMembers] at h
  | succ f ih =>
    intro s ms rest h
    simp only [parseMembers] at h
    split at h
    · rename_i r
      split at h
      · cases h
      · rename_i key r1 hk
        split at h
        · rename_i r2 h2
          split at h
          · rename_i r3 h3
            split at h
            · cases h
            · rename_i val r4 hv
              have e1 : Eats r r1 := dec_eats _ _ _ _ hk
              have e2 : Eats r1 r2 := eats_of_skipWs (by decide) h2
              have e3 : Eats r2 r3 := eats_of_skipWs (by decide) h3
              have e4 : Eats r3 r4 := dec_eats _ _ _ _ hv
              have e14 : Eats (34 :: r) r4 := Eats.cons (by decide) (e1.trans (e2.trans (e3.trans e4)))
              split at h
              · rename_i r5 h5
                have e5 : Eats r4 r5 := eats_of_skipWs (by decide) h5
                cases hp : parseMembers f (skipWs r5) with
                | none => rw [hp] at h; cases h
                | some p =>
                  obtain ⟨ms', rest'⟩ := p
                  rw [hp] at h
                  simp only [Option.map_some, Option.some.injEq, Prod.mk.injEq] at h
                  have e6 := ih _ _ _ hp
                  rw [h.2] at e6
                  exact e14.trans (e5.trans ((skipWs_eats r5).trans e6))
              · rename_i r5 h5
                have e5 : Eats r4 r5 := eats_of_skipWs (by decide) h5
                injection h with h; injection h with _ h2
                rw [← h2]
                exact e14.trans e5
              · cases h
          · cases h
        · cases h
    · cases h

/-- **Spec adequacy: "exactly one line".** Whatever `parseLine` accepts ends in `\n` and contains no
other newline. -/
theorem parseLine_one_line (s : Bytes) (ms : List (Bytes × Bytes)) (h : parseLine s = some ms) :
    ∃ body, s = body ++ [10] ∧ ∀ c ∈ body, c ≠ 10 := by
  unfold parseLine at h
  split at h
  · rename_i r
    split at h
    · rename_i ms' hp
      exact Eats.cons (by decide) ((skipWs_eats r).trans (parseMembers_eats _ _ _ _ hp))
    · cases h
  · cases h

/-! #### samples (tests, not theorems) -/

example : TsPlain tsSample := by decide
-- invalid bytes become U+FFFD one by one; valid multi-byte runes are kept
example : sanitize [0x61, 0xFF, 0xC3, 0xA9, 0xE2, 0x82] = [0x61, 0xEF,0xBF,0xBD, 0xC3,0xA9, 0xEF,0xBF,0xBD, 0xEF,0xBF,0xBD] := by decide
-- json.Marshal("a\"\n<\x01\xff") = "a\"\n\u003c\u0001\ufffd"
example : jsonString [0x61, 0x22, 0x0A, 0x3C, 0x01, 0xFF] =
    [34, 0x61, 92,34, 92,110, 92,117,48,48,51,99, 92,117,48,48,48,49, 92,117,102,102,102,100, 34] := by decide
-- regressions: what `strconv.Quote` wrote for BEL, \x01 and the invalid byte \xff is rejected by the reader
example : parseLine (lineOf [34, 92, 97, 34] tsSample 2) = none := by decide
example : parseLine (lineOf [34, 92, 120, 48, 49, 34] tsSample 2) = none := by decide
example : parseLine (lineOf [34, 92, 120, 102, 102, 34] tsSample 2) = none := by decide
example : recordOK (lineOf (jsonString [7, 1, 255]) tsSample 2) tsSample 2 [7, 1, 255] = true := by decide
-- \u0085 (valid JSON) reads back as C2 85; a surrogate pair escape is understood by the reader
example : dec .s0 [92,117,48,48,56,53, 34] = some ([0xC2, 0x85], []) := by decide
example : dec .s0 [92,117,100,56,51,100, 92,117,100,101,48,48, 34] = some ([0xF0,0x9F,0x98,0x80], []) := by decide

end MtxVerif.C37
