-- Root of the library: property theorem files are built individually by ./check.
import MtxVerif.Base.DriverLib
