import MtxVerif.Model.C04
import MtxVerif.Gen.C04
open MtxVerif MtxVerif.C04

def parseSrv : String → Option Srv
  | "api" => some .api | "metrics" => some .metrics | "pprof" => some .pprof | "playback" => some .playback
  | _ => none

def factsOf (s : Srv) : Option ServerF := Gen.C04.servers.find? (·.srv == s)

/-- gin template match on `/`-separated segments: `:x` one non-empty segment, `*x` the rest. -/
def matchSegs : List String → List String → Bool
  | [], [] => true
  | t :: ts, u :: us =>
    if t.startsWith "*" then true
    else if t.startsWith ":" then u != "" && matchSegs ts us
    else t == u && matchSegs ts us
  | _, _ => false

def matchTmpl (tmpl url : String) : Bool := matchSegs (tmpl.splitOn "/") (url.splitOn "/")

def routesLine (f : ServerF) : String :=
  ",".intercalate (f.routes.map fun r => r.method ++ " " ++ r.path)

def parseObs (impl : String) : Option Obs :=
  match words impl with
  | [st, b, c, ch, w] => do
    let st ← st.toNat?
    let b ← match b with
      | "empty" => some BodyClass.empty | "autherr" => some .authErr | "other" => some .other | _ => none
    let flag (pre s : String) : Option Bool :=
      if s == pre ++ "1" then some true else if s == pre ++ "0" then some false else none
    pure { status := st, body := b, canary := ← flag "canary=" c, changed := ← flag "changed=" ch, www := ← flag "www=" w }
  | _ => none

/-- a handler that returns data and changes state: whatever reaches it shows up in `observe` -/
def loudHandler : Handler := fun _ c =>
  { c with body := c.body ++ [.data 0], effects := c.effects ++ [0] }

def step (_ : Unit) (op impl : String) : Unit × DrvOut :=
  match words op with
  | "reset" :: _ => ((), { model := "ok" })
  | "reload" :: _ => ((), { model := "ok" })
  | ["coreexclude", _srv] =>
    -- real Core, authMethod http with a webhook that refuses everybody; the administrative actions are removed from
    -- authHTTPExclude by a hot reload: afterwards nobody is admitted, the answer must be the 401
    let spec :=
      if impl == "unavailable" then "ok"
      else match words impl with
        | [_, a] => if a == "after=401" then "ok"
                    else "FAIL after the action was removed from authHTTPExclude at run time the request is still served without the external authenticator's consent (" ++ a ++ ")"
        | _ => "FAIL unparsable implementation answer: " ++ impl
    ((), { model := "-", spec := spec })
  | ["routes", s] =>
    match parseSrv s >>= factsOf with
    | some f =>
      let m := routesLine f
      ((), { model := m,
             spec := if impl == m then "ok"
                     else "FAIL routes registered on the real " ++ s ++ " router differ from the table extracted from the source" })
    | none => ((), { model := "bad-op" })
  | ["req", s, method, tmpl, urlhex, _q, acrm, _place, _u, _p, _ip, _xff, _body, valid, res] =>
    match parseSrv s, Hex.decode urlhex with
    | some srv, some urlb =>
      match factsOf srv, (match res with | "ok" => some AuthRes.ok | "ask" => some .denyAsk | "deny" => some .deny | _ => none) with
      | some f, some res =>
        let url := bytesStr urlb
        let req : Req := { options := method == "OPTIONS", acrm := acrm == "1", creds := ⟨[], [], []⟩, ip := [],
                           rawQuery := [], queryPath := [], validPath := valid == "1" }
        let auth : AuthFn := fun _ => res
        let routed := tmpl != "-"
        let rt := f.routes.find? (fun r => r.method == method && r.path == tmpl)
        if routed && (rt.isNone || !matchTmpl tmpl url) then
          ((), { model := "bad-op", spec := "FAIL op names a route that is not in the generated table (or the URL does not match it)" })
        else
          let admitted := Admitted auth srv req && !req.preflight
          let model :=
            if admitted then "-"
            else match rt with
              | some r => (observe (run (chainFor auth f r loudHandler loudHandler) req {})).str
              | none => if req.preflight then (observe (refusal auth srv req)).str else "-"
          let spec := if impl.startsWith "oracle-mismatch" then "ok" else match parseObs impl with
            | some o => (match specObs srv routed req res o with | none => "ok" | some m => "FAIL " ++ m)
            | none => "FAIL unparsable implementation answer: " ++ impl
          -- `oracle-mismatch`: the op line's oracle columns do not fit the history (only in shrunk replays)
          ((), { model := if impl.startsWith "oracle-mismatch" then "-" else model, spec := spec })
      | _, _ => ((), { model := "bad-op" })
    | _, _ => ((), { model := "bad-op" })
  | _ => ((), { model := "bad-op" })

def main (args : List String) : IO UInt32 := runDriver args () step
