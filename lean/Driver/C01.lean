import MtxVerif.Model.C01
open MtxVerif MtxVerif.C01

/-
op lines (space separated; byte strings hex, empty = `-`, empty list = `_`):
  reset  <users> [<hexcl> <jexcl>]  new Manager{Method: internal, InternalUsers: users, HTTPExclude, JWTExclude} -> ok <n>
  reload <users>                 ReloadInternalUsers(users)                              -> ok <n>
  auth <action> <path> <user> <pass> <token> <ip> <ask> <cv> <shaU> <shaP> <re> <a2> <usersDigest>  -> ok <user> | err <ask>
  contains <ip:mask> <ip>        conf.IPNetwork.Contains                                 -> 0 | 1
  ipnet <text> <cidr> <ip>       IPNetwork.UnmarshalJSON; cidr = ParseCIDR result `ip:mask`|`e`,
                                 ip = ParseIP result `hex`|`e`                           -> ok ip:mask | err
users  = user/user/…            user = <user>,<pass>,<ips>,<perms>
ips    = ip:mask+ip:mask…       perms = action:path+action:path…
cv     = n | t<default>/<u>.<p>.<bit>/…     (CustomVerifyFunc as a table)
re     = pattern:e|0|1 + …      (regexp oracle for the request path)
a2     = encoded:guess:0|1 + …  (argon2 oracle)
-/

def hx (s : String) : Option Bytes := Hex.decode s

def parseList {α} (sep : String) (f : String → Option α) (s : String) : Option (List α) :=
  if s == "_" then some [] else (s.splitOn sep).mapM f

def parseNet (s : String) : Option IPNet :=
  match s.splitOn ":" with
  | [a, b] => do pure ⟨← hx a, ← hx b⟩
  | _ => none

def parsePerm (s : String) : Option Perm :=
  match s.splitOn ":" with
  | [a, b] => do pure ⟨← hx a, ← hx b⟩
  | _ => none

def parseUser (s : String) : Option User :=
  match s.splitOn "," with
  | [u, p, ips, perms] => do
    pure ⟨← hx u, ← hx p, ← parseList "+" parseNet ips, ← parseList "+" parsePerm perms⟩
  | _ => none

def parseUsers (s : String) : Option (List User) := parseList "/" parseUser s

def parseBit (s : String) : Option Bool :=
  if s == "1" then some true else if s == "0" then some false else none

def parseCV (s : String) : Option (Option (Bytes → Bytes → Bool)) :=
  if s == "n" then some none else
  match s.splitOn "/" with
  | hd :: rest => do
    let d ← if hd == "t1" then some true else if hd == "t0" then some false else none
    let tab ← rest.mapM fun e => match e.splitOn "." with
      | [u, p, b] => do pure ((← hx u), (← hx p), (← parseBit b))
      | _ => none
    pure (some fun u p => match tab.find? (fun e => e.1 == u && e.2.1 == p) with
      | some e => e.2.2
      | none => d)
  | [] => none

def parseRe (s : String) : Option (List (Bytes × Option Bool)) :=
  parseList "+" (fun e => match e.splitOn ":" with
    | [p, r] => do
      let p ← hx p
      if r == "e" then pure (p, none) else pure (p, some (← parseBit r))
    | _ => none) s

def parseA2 (s : String) : Option (List (Bytes × Bytes × Bool)) :=
  parseList "+" (fun e => match e.splitOn ":" with
    | [enc, g, b] => do pure ((← hx enc), (← hx g), (← parseBit b))
    | _ => none) s

def fmtNet (n : IPNet) : String := Hex.encode n.ip ++ ":" ++ Hex.encode n.mask

def fmtOutcome : Outcome → String
  | .ok u => "ok " ++ Hex.encode u
  | .err a => "err " ++ (if a then "1" else "0")

def parseOutcome (s : String) : Option Outcome :=
  match words s with
  | ["ok", u] => do pure (.ok (← hx u))
  | ["err", a] => do pure (.err (← parseBit a))
  | _ => none

/-- oracle entries the decision may consult; all must be present in the op line -/
def oracleComplete (users : List User) (r : Req) (re : List (Bytes × Option Bool))
    (a2 : List (Bytes × Bytes × Bool)) : Bool :=
  users.all fun u =>
    (u.perms.all fun p => match p.path with
      | c :: pat => if c = tilde then re.any (·.1 == pat) else true
      | [] => true) &&
    ([(u.user, r.user), (u.pass, r.pass)].all fun (d, g) =>
      if !sha256Prefix.isPrefixOf d && argon2Prefix.isPrefixOf d then
        a2.any (fun e => e.1 == d.drop 7 && e.2.1 == g)
      else true)

/-- FNV-1a (32 bit) of the encoded user list, as computed by the harness -/
def digest (s : String) : Nat :=
  s.toUTF8.toList.foldl (fun h b => ((h ^^^ b.toNat) * 16777619) % 4294967296) 2166136261

structure D where
  users : List User := []
  dig : Nat := digest "_"

def step (d : D) (op impl : String) : D × DrvOut :=
  match words op with
  -- `reset <users> <HTTPExclude> <JWTExclude>`: the exclude lists of the other methods are not part of the
  -- internal decision (exactly per configured users), so the model does not even read them
  | ["reset", us, _, _] | ["reset", us] | ["reload", us] =>
    match parseUsers us with
    | some usl => ({ users := usl, dig := digest us }, { model := s!"ok {usl.length}" })
    | none => (d, { model := "bad-op" })
  | ["auth", action, path, user, pass, token, ip, ask, cv, shaU, shaP, re, a2, dg] =>
    -- oracle columns computed for another user list (only in shrunk replays): no prediction
    if dg.toNat? ≠ some d.dig then (d, { model := "-" }) else
    let parsed := do
      let r : Req := ⟨← hx action, ← hx path, ← hx user, ← hx pass, ← hx token, ← hx ip,
        ← parseCV cv, ← parseBit ask⟩
      pure (r, ← hx shaU, ← hx shaP, ← parseRe re, ← parseA2 a2)
    match parsed with
    | none => (d, { model := "bad-op" })
    | some (r, shaU, shaP, re, a2) =>
      if !oracleComplete d.users r re a2 then (d, { model := "oracle-missing" })
      else
        let o : Oracle := {
          regexFind := fun pat _ => match re.find? (·.1 == pat) with
            | some e => e.2
            | none => none
          -- Check is only ever applied to the supplied user / password
          sha256b64 := fun g => if g == r.user then shaU else shaP
          argon2ok := fun g enc => match a2.find? (fun e => e.1 == enc && e.2.1 == g) with
            | some e => e.2.2
            | none => false }
        let model := fmtOutcome (authenticate o d.users r)
        let spec := match parseOutcome impl with
          | some out => match specCheck o d.users r out with
            | none => "ok"
            | some m => "FAIL " ++ m
          | none => "FAIL unparsable implementation answer: " ++ impl
        (d, { model, spec })
  | ["contains", net, ip] =>
    match parseNet net, hx ip with
    | some n, some ip => (d, { model := if ipnetContains n ip then "1" else "0" })
    | _, _ => (d, { model := "bad-op" })
  | ["ipnet", _, cidr, ip] =>
    let c? : Option (Option IPNet) := if cidr == "e" then some none else (parseNet cidr).map some
    let i? : Option (Option Bytes) := if ip == "e" then some none else (hx ip).map some
    match c?, i? with
    | some c, some i =>
      let implU : Option Unm := match words impl with
        | ["ok", n] => (parseNet n).map Unm.ok
        | ["err"] => some .err
        | _ => none
      let spec := match implU with
        | some u => (match specIPNet c i u with
          | none => "ok"
          | some m => "FAIL " ++ m)
        | none => "FAIL unparsable implementation answer: " ++ impl
      (d, { model := (match unmarshalIPNet c i with
        | .ok n => "ok " ++ fmtNet n
        | .err => "err"
        | .panic => "panic"), spec })
    | _, _ => (d, { model := "bad-op" })
  | _ => (d, { model := "bad-op" })

def main (args : List String) : IO UInt32 := runDriver args ({} : D) step
