import MtxVerif.Model.C31
import MtxVerif.Model.C30
open MtxVerif MtxVerif.C31
open MtxVerif.C26 (Fields tokenize substPath decode decodedStart DateArgs Start hasKind)
open MtxVerif.C06 (commonPath extMp4)

/-- **the one switch**: does the handler convert the parsed instant to local time before `Encode`?
`false` = code as written (finding F-C31); set to `true` when the fix `start = start.Local()` is in /repo:
the model then describes the fixed behaviour only and `offsetMismatch` verdicts become FAILs. -/
def handlerConvertsToLocal : Bool := true

def cwd : Bytes := strBytes "/tmp/vc31t"

structure D where
  unit : Unit := ()

abbrev CalTable := List (DateArgs × Int)

def parseCalEntry (e : String) : Option (DateArgs × Int) :=
  match e.splitOn "=" with
  | [k, v] =>
    match k.splitOn ".", v.toInt? with
    | [y, mo, d, h, mi, s, us, loc], some v =>
      match y.toNat?, mo.toNat?, d.toNat?, h.toNat?, mi.toNat?, s.toNat?, us.toNat? with
      | some y, some mo, some d, some h, some mi, some s, some us =>
        let l : Option Int := if loc == "L" then none else loc.toInt?
        some ({ year := y, month := mo, day := d, hour := h, minute := mi, sec := s, micros := us, loc := l }, v)
      | _, _, _, _, _, _, _ => none
    | _, _ => none
  | _ => none

def parseCal (s : String) : CalTable := if s == "-" then [] else (s.splitOn ";").filterMap parseCalEntry

def calLookup (t : CalTable) : Start → Option Int
  | .unix us => some us
  | .date a => (t.find? (·.1 = a)).map (·.2)

/-- files column: `<relHex>@<startUs>,…` -/
def parseFiles (col : String) : Option (List (Bytes × Int)) :=
  if col == "-" || col == "none" then some [] else
  (col.splitOn ",").mapM fun e =>
    match e.splitOn "@" with
    | [h, us] => do pure ((← Hex.decode h), (← us.toInt?))
    | _ => none

def parseFields : List String → Option Fields
  | [y, mo, d, h, mi, s, f, off, unix] => do
    pure ⟨← y.toInt?, ← mo.toNat?, ← d.toNat?, ← h.toNat?, ← mi.toNat?, ← s.toNat?, ← f.toNat?, ← off.toInt?, ← unix.toInt?⟩
  | _ => none

def insertStr (s : String) : List String → List String
  | [] => [s]
  | x :: xs => if s < x then s :: x :: xs else x :: insertStr s xs

def insertSeg (s : Bytes × Int) : List (Bytes × Int) → List (Bytes × Int)
  | [] => [s]
  | x :: xs => if s.2 < x.2 then s :: x :: xs else x :: insertSeg s xs

def insertInt (s : Int) : List Int → List Int
  | [] => [s]
  | x :: xs => if s < x then s :: x :: xs else x :: insertInt s xs

/-- files column of `plist`: `<relHex>@<startUs>@<ntpNs>,…` (the NTP only matters to the implementation) -/
def parseFiles3 (col : String) : Option (List (Bytes × Int)) :=
  (col.splitOn ",").mapM fun e =>
    match e.splitOn "@" with
    | [h, us, _] => do pure ((← Hex.decode h), (← us.toInt?))
    | _ => none

def absOf (rel : Bytes) : Bytes := cwd ++ 47 :: rel

/-- start instant cut to what the file name can carry. -/
def cut (hasF : Bool) (us : Int) : Int := if hasF then us else us - us.emod 1000000

def step (d : D) (op impl : String) : D × DrvOut :=
  match words op with
  | ["reset"] => (d, { model := "ok" })
  | ["list", _zone, fmtH, nameH, filesS, "|", calS] =>
    match Hex.decode fmtH, Hex.decode nameH, parseFiles filesS with
    | some fmt, some name, some files =>
      let cal := parseCal calS
      let rp := C06.abs cwd (substPath fmt name ++ extMp4)
      let toks := tokenize rp
      let hasF := hasKind .f toks
      let found : List (Bytes × Option Int) := files.filterMap fun x =>
        if C30.inWalk (commonPath rp) (absOf x.1) then
          (decode toks (absOf x.1)).map fun m => (x.1, calLookup cal (decodedStart m.caps))
        else none
      let model :=
        if found.isEmpty then "none"
        else if found.any (fun x => x.2.isNone) then "-"
        else ",".intercalate (((found.map fun x => (x.1, x.2.getD 0)).foldr insertSeg []).map fun x => s!"{Hex.encode x.1}@{x.2}")
      let spec :=
        match parseFiles impl with
        | some listed =>
          match files.find? (fun x => !listed.any (·.1 == x.1)) with
          | some x => s!"FAIL a recorder-written segment is not listed: {Hex.encode x.1}"
          | none =>
            match listed.find? (fun y => !files.any fun x => x.1 == y.1 && cut hasF x.2 == y.2) with
            | some y => s!"FAIL listing reports another start instant than the one the segment was written for: {Hex.encode y.1}"
            | none =>
              if (listed.zip (listed.drop 1)).any (fun ab => ab.1.2 > ab.2.2) then "FAIL the listing is not in the order of the start instants"
              else "ok"
        | none => "FAIL unparsable implementation answer"
      (d, { model, spec })
    | _, _, _ => (d, { model := "bad-op" })
  | ["at", _zone, fmtH, nameH, qS, filesS, "|", calS] =>
    match Hex.decode fmtH, Hex.decode nameH, qS.toInt?, parseFiles filesS with
    | some fmt, some name, some q, some files =>
      let cal := parseCal calS
      let rp := C06.abs cwd (substPath fmt name ++ extMp4)
      let toks := tokenize rp
      let hasF := hasKind .f toks
      let found : List (Bytes × Option Int) := files.filterMap fun x =>
        if C30.inWalk (commonPath rp) (absOf x.1) then
          (decode toks (absOf x.1)).map fun m => (x.1, calLookup cal (decodedStart m.caps))
        else none
      let model :=
        if found.any (fun x => x.2.isNone) then "-"
        else
          let sorted := (found.map fun x => (x.1, x.2.getD 0)).foldr insertSeg []
          match selectFrom sorted q with
          | none => "none"
          | some l => ",".intercalate (l.map fun x => s!"{Hex.encode x.1}@{x.2}")
      let spec :=
        -- the segment whose listed start instant is exactly the bound must be the first one returned
        match files.find? (fun x => cut hasF x.2 == q) with
        | none => "ok"
        | some x =>
          match (if impl == "none" then some [] else parseFiles impl) with
          | some l =>
            match l.head? with
            | some y => if y.1 == x.1 then "ok" else
                s!"FAIL playback bound = listed start of {Hex.encode x.1} but the first segment selected is {Hex.encode y.1}"
            | none => s!"FAIL playback bound = listed start of {Hex.encode x.1} but no segment is selected"
          | none => "FAIL unparsable implementation answer"
      (d, { model, spec })
    | _, _, _, _ => (d, { model := "bad-op" })
  | ["plist", _zone, fmtH, nameH, filesS, "|", calS] =>
    match Hex.decode fmtH, Hex.decode nameH, parseFiles3 filesS with
    | some fmt, some name, some files =>
      let cal := parseCal calS
      let rp := C06.abs cwd (substPath fmt name ++ extMp4)
      let toks := tokenize rp
      let hasF := hasKind .f toks
      let found : List (Option Int) := files.filterMap fun x =>
        if C30.inWalk (commonPath rp) (absOf x.1) then
          (decode toks (absOf x.1)).map fun m => calLookup cal (decodedStart m.caps)
        else none
      let fmtNs (l : List Int) : String :=
        if l.isEmpty then "-" else ",".intercalate ((l.foldr insertInt []).map fun us => s!"{us * 1000}")
      let model :=
        if found.any (·.isNone) then "-" else
          let m := fmtNs (found.map (·.getD 0))
          s!"{m} {m}"
      let want := fmtNs (files.map fun x => cut hasF x.2)
      let spec :=
        match words impl with
        | [pb, ap] =>
          if pb != ap then "FAIL playback list and recordings list report different start instants for the same segments"
          else if pb != want then "FAIL listings report other start instants than the ones the segments were written for"
          else "ok"
        | _ => "FAIL implementation panicked or gave an unparsable answer"
      (d, { model, spec })
    | _, _, _ => (d, { model := "bad-op" })
  | "del" :: _zone :: fmtH :: nameH :: _strH :: tgS :: filesS :: "|" :: rest =>
    match Hex.decode fmtH, Hex.decode nameH, tgS.toInt?, parseFiles filesS, parseFields (rest.take 9), parseFields (rest.drop 10) with
    | some fmt, some name, some tg, some files, some Fo, some Fl =>
      let toks := tokenize (substPath fmt name)
      let hasF := hasKind .f toks
      let target := deleteFile handlerConvertsToLocal cwd fmt name Fo Fl
      let hit : Option (Bytes × Int) := match target with
        | some t => files.find? fun x => absOf x.1 == t
        | none => none
      let model := match hit with
        | some x => s!"200 {Hex.encode x.1}"
        | none => "400 -"
      let spec :=
        match words impl with
        | [_status, gone] =>
          match (if gone == "-" then some [] else (gone.splitOn ",").mapM Hex.decode) with
          | some gone =>
            -- the segment(s) whose start instant equals the requested instant (to the name's precision)
            let wrong := gone.filter fun rel => !files.any fun x => x.1 == rel && cut hasF x.2 == cut hasF tg
            let exact := files.filter fun x => x.2 == tg
            let missed := exact.filter fun x => !gone.contains x.1
            let verdict (msg : String) : String :=
              if !handlerConvertsToLocal && offsetMismatch toks Fo Fl then "KNOWN offsetMismatch " ++ msg else "FAIL " ++ msg
            if !wrong.isEmpty then verdict "a segment with another start instant was deleted"
            else if !missed.isEmpty then verdict "the segment with the given start instant was not deleted"
            else "ok"
          | none => "FAIL unparsable implementation answer"
        | _ => "FAIL implementation panicked or gave an unparsable answer"
      (d, { model, spec })
    | _, _, _, _, _, _ => (d, { model := "bad-op" })
  | _ => (d, { model := "bad-op" })

def main (args : List String) : IO UInt32 := runDriver args ({} : D) step
