import MtxVerif.Model.C08
open MtxVerif MtxVerif.C08

def hexS (v : String) : Bytes := (Hex.decode v).getD []

/-- `key=arg:result` oracle column -/
def col (toks : List String) (k : String) : Option (String × String) :=
  toks.findSome? fun t =>
    if t.startsWith (k ++ "=") then
      match ((t.drop (k.length + 1)).toString).splitOn ":" with
      | [a, b] => some (a, b)
      | _ => none
    else none

def valOrE (o : Option Int) : String := match o with | some v => toString v | none => "E"

def parseValOrE (s : String) : Option Int := if s == "E" then none else s.toInt?

def listOf (v : String) : List String := if v == "[]" || v == "" then [] else v.splitOn ","

/-- "field:value" -/
def fieldVal (s : String) : String × String :=
  match s.splitOn ":" with
  | [a, b] => (a, b)
  | _ => (s, "")

def argOf (toks : List String) (k : String) : String :=
  (toks.findSome? fun t => if t.startsWith (k ++ "=") then some ((t.drop (k.length + 1)).toString) else none).getD ""

/-- which part of the configuration a leaf path belongs to: global / pathDefaults / paths.<name> -/
def partOf (field : String) : String :=
  if field.startsWith "pathDefaults." then "pathDefaults"
  else if field.startsWith "paths." then
    let parts := field.splitOn "."
    ".".intercalate (parts.take (parts.length - 1))
  else "global"

def partRank (p : String) : Nat := if p == "global" then 0 else if p == "pathDefaults" then 1 else 2

def two50 : Nat := 1125899906842624

def step (_ : Unit) (op impl : String) : Unit × DrvOut :=
  let toks := words op
  match toks with
  | "dur" :: dS :: _ =>
    match dS.toInt?, col toks "fmt", col toks "fmtu", col toks "parse" with
    | some d, some (fa, fr), some (ua, ur), some (pa, pr) =>
      let answer (fixed : Bool) : String :=
        let (a, r) := if fixed then (ua, ur) else (fa, fr)
        let bad : Bytes := strBytes "?oracle-argument-mismatch"
        let fmt : Int → Bytes := fun x => if some x == a.toInt? then hexS r else bad
        let text := if fixed then marshalDurFixed fmt d else marshalDur fmt d
        let parse : Bytes → Option Int := fun rest => if rest == hexS pa then parseValOrE pr else some 424242424242
        Hex.encode text ++ " " ++ valOrE (unmarshalDur parse text)
      let cur := answer false
      let fix := answer true
      let model := if impl == cur then cur else if impl == fix then fix else cur
      let spec :=
        match (impl.splitOn " ") with
        | [_, v] =>
          if v.toInt? == some d then "ok"
          else if d == minI64 then "KNOWN duration-minint64 the most negative duration is marshalled as \"--…\" which cannot be read back"
          else "FAIL duration does not survive the JSON round trip"
        | _ => "FAIL unparsable implementation answer"
      ((), { model, spec })
    | _, _, _, _ => ((), { model := "bad-op" })
  | ["udur", textH, _] =>
    match col toks "parse" with
    | some (pa, pr) =>
      let parse : Bytes → Option Int := fun rest => if rest == hexS pa then parseValOrE pr else some 424242424242
      ((), { model := valOrE (unmarshalDur parse (hexS textH)) })
    | none => ((), { model := "bad-op" })
  | ["durlib", xS, fmtH, p1, p2] =>
    match xS.toInt? with
    | some x =>
      let f := hexS fmtH
      let spec :=
        if !(0 < x && x < day) then "ok"
        else if f.isEmpty then "FAIL library hypothesis: Duration.String is empty"
        else if parseValOrE p1 != some x then "FAIL library hypothesis: ParseDuration(String(x)) = x"
        else if parseValOrE p2 != some (-x) then "FAIL library hypothesis: ParseDuration(\"-\" + String(x)) = -x"
        else if (daysPrefix f).isSome || (daysPrefix (45 :: f)).isSome then "FAIL library hypothesis: String(x) does not look like a days prefix"
        else "ok"
      ((), { model := "lib", spec })
    | none => ((), { model := "bad-op" })
  | ["ss", sS] =>
    match sS.toNat? with
    | some s =>
      let cur := Hex.encode (marshalSS s) ++ " " ++ toString (roundTripSS s)
      let fix := Hex.encode (marshalSSFixed s) ++ " " ++ toString (roundTripSSFixed s)
      let model := if impl == fix then fix else if s < two50 then cur else "-"
      let spec :=
        match (impl.splitOn " ") with
        | [_, v] =>
          if v.toNat? == some s then "ok"
          else if s ≥ two50 || !rtOK s then "KNOWN stringsize-inexact StringSize is marshalled with one decimal of its unit and reads back as a different number of bytes"
          else "FAIL byte size does not survive the JSON round trip"
        | _ => "FAIL unparsable implementation answer"
      ((), { model, spec })
    | none => ((), { model := "bad-op" })
  | ["ipn", _] =>
    ((), { model := "-", spec := if impl.startsWith "diff" then "FAIL IP network does not survive the JSON round trip" else "ok" })
  | "conf" :: _ :: _ =>
    let ss := (listOf (argOf toks "ss")).map fieldVal
    let du := (listOf (argOf toks "du")).map fieldVal
    let badDu := du.filter fun (_, v) => v.toInt? == some minI64
    let badSs := ss.filter fun (_, v) => match v.toNat? with | some s => s ≥ two50 || !rtOK s | none => true
    let hugeSs := ss.any fun (_, v) => match v.toNat? with | some s => s ≥ two50 | none => true
    -- the part whose decoding fails first: global, pathDefaults, then paths in sorted order
    let errParts := badDu.map fun (f, _) => partOf f
    let firstErr : Option String :=
      errParts.foldl (fun best p =>
        match best with
        | none => some p
        | some b =>
          if partRank p < partRank b || (partRank p == partRank b && ltBytes (strBytes p) (strBytes b)) then some p else some b) none
    let cur : String :=
      match firstErr with
      | some p => "err " ++ p
      | none =>
        if hugeSs then "-"
        else
          let l := sortBytes ((ss.filter fun (_, v) => match v.toNat? with | some s => !rtOK s | none => true).map fun (f, _) => strBytes f)
          if l.isEmpty then "eq" else "diff " ++ ",".intercalate (l.map bytesStr)
    let model := if impl == "eq" then "eq" else cur
    let spec :=
      if impl == "eq" then "ok"
      else if impl.startsWith "err " then
        if badDu.isEmpty then "FAIL the encoded configuration is rejected by the decoder: " ++ impl
        else "KNOWN duration-minint64 a configuration holding the most negative duration cannot be read back"
      else if impl.startsWith "diff " then
        let fields := ((impl.drop 5).toString).splitOn ","
        match fields.find? (fun f => !(badSs.any fun (g, _) => g == f)) with
        | some f => "FAIL parameter " ++ f ++ " does not survive the JSON round trip"
        | none => "KNOWN stringsize-inexact byte sizes that are not a whole number of tenths of their unit read back changed"
      else "FAIL unparsable implementation answer"
    ((), { model, spec })
  | _ => ((), { model := "bad-op" })

def main (args : List String) : IO UInt32 := runDriver args () step
