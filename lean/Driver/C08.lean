import MtxVerif.Model.C08
open MtxVerif MtxVerif.C08

def hexS (v : String) : Bytes := (Hex.decode v).getD []

/-- `key=arg:result` oracle column -/
def col (toks : List String) (k : String) : Option (String × String) :=
  toks.findSome? fun t =>
    if t.startsWith (k ++ "=") then
      match ((t.drop (k.length + 1)).toString).splitOn ":" with
      | [a, b] => some (a, b)
      | _ => none
    else none

def valOrE (o : Option Int) : String := match o with | some v => toString v | none => "E"

def parseValOrE (s : String) : Option Int := if s == "E" then none else s.toInt?

def listOf (v : String) : List String := if v == "[]" || v == "" then [] else v.splitOn ","

/-- "field:value" -/
def fieldVal (s : String) : String × String :=
  match s.splitOn ":" with
  | [a, b] => (a, b)
  | _ => (s, "")

def argOf (toks : List String) (k : String) : String :=
  (toks.findSome? fun t => if t.startsWith (k ++ "=") then some ((t.drop (k.length + 1)).toString) else none).getD ""

/-- which part of the configuration a leaf path belongs to: global / pathDefaults / paths.<name> -/
def partOf (field : String) : String :=
  if field.startsWith "pathDefaults." then "pathDefaults"
  else if field.startsWith "paths." then
    let parts := field.splitOn "."
    ".".intercalate (parts.take (parts.length - 1))
  else "global"

def partRank (p : String) : Nat := if p == "global" then 0 else if p == "pathDefaults" then 1 else 2

def step (_ : Unit) (op impl : String) : Unit × DrvOut :=
  let toks := words op
  match toks with
  | "dur" :: dS :: _ =>
    match dS.toInt?, col toks "fmtu", col toks "parse" with
    | some d, some (ua, ur), some (pa, pr) =>
      let bad : Bytes := strBytes "?oracle-argument-mismatch"
      let fmt : Int → Bytes := fun x => if some x == ua.toInt? then hexS ur else bad
      let text := marshalDur fmt d
      let parse : Bytes → Option Int := fun rest => if rest == hexS pa then parseValOrE pr else some 424242424242
      let model := Hex.encode text ++ " " ++ valOrE (unmarshalDur parse text)
      let spec :=
        match (impl.splitOn " ") with
        | [_, v] => if v.toInt? == some d then "ok" else "FAIL duration does not survive the JSON round trip"
        | _ => "FAIL unparsable implementation answer"
      ((), { model, spec })
    | _, _, _ => ((), { model := "bad-op" })
  | ["udur", textH, _] =>
    match col toks "parse" with
    | some (pa, pr) =>
      let parse : Bytes → Option Int := fun rest => if rest == hexS pa then parseValOrE pr else some 424242424242
      ((), { model := valOrE (unmarshalDur parse (hexS textH)) })
    | none => ((), { model := "bad-op" })
  | ["durlib", xS, fmtH, p1, p2] =>
    match xS.toInt? with
    | some x =>
      let f := hexS fmtH
      let spec :=
        if !(0 < x && x < day) then "ok"
        else if f.isEmpty then "FAIL library hypothesis: Duration.String is empty"
        else if parseValOrE p1 != some x then "FAIL library hypothesis: ParseDuration(String(x)) = x"
        else if parseValOrE p2 != some (-x) then "FAIL library hypothesis: ParseDuration(\"-\" + String(x)) = -x"
        else if (daysPrefix f).isSome || (daysPrefix (45 :: f)).isSome then "FAIL library hypothesis: String(x) does not look like a days prefix"
        else "ok"
      ((), { model := "lib", spec })
    | none => ((), { model := "bad-op" })
  | ["ss", sS] =>
    match sS.toNat? with
    | some s =>
      let model := Hex.encode (marshalSS s) ++ " " ++ toString (roundTripSS s)
      let spec :=
        match (impl.splitOn " ") with
        | [_, v] => if v.toNat? == some s then "ok" else "FAIL byte size does not survive the JSON round trip"
        | _ => "FAIL unparsable implementation answer"
      ((), { model, spec })
    | none => ((), { model := "bad-op" })
  | ["loadrt", _, _] =>
    ((), { model := if impl == "loaderr" then impl else "eq",
           spec := if impl == "eq" || impl == "loaderr" then "ok"
                   else "FAIL a loaded configuration (file + environment) read through the API cannot be written back: " ++ impl })
  | ["apijson", _, _] =>
    ((), { model := "-", spec := if impl == "panic" then "FAIL the API JSON decoder panics on a hostile parameter value" else "ok" })
  | ["ipn", _] =>
    ((), { model := "-", spec := if impl.startsWith "diff" then "FAIL IP network does not survive the JSON round trip" else "ok" })
  | "conf" :: _ :: _ =>
    -- every parameter survives: the model predicts `eq` for every configuration
    let spec :=
      if impl == "eq" then "ok"
      else if impl.startsWith "err " then "FAIL the encoded configuration is rejected by the decoder: " ++ impl
      else if impl.startsWith "diff " then "FAIL parameter(s) " ++ (impl.drop 5).toString ++ " do not survive the JSON round trip"
      else "FAIL unparsable implementation answer"
    ((), { model := "eq", spec })
  | _ => ((), { model := "bad-op" })

def main (args : List String) : IO UInt32 := runDriver args () step
