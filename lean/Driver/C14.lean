import MtxVerif.Model.C14
open MtxVerif MtxVerif.C14

/-- `N` (nil) or `M<k>` followed by k hex tokens; returns the rest -/
def parseGroups : List String → Option (Option (List Bytes) × List String)
  | "N" :: rest => some (none, rest)
  | t :: rest =>
    if t.startsWith "M" then do
      let k ← ((t.drop 1).toString).toNat?
      if rest.length < k then none else
      let gs ← (rest.take k).mapM Hex.decode
      pure (some gs, rest.drop k)
    else none
  | [] => none

def parseEntries : Nat → List String → Option (List Entry)
  | 0, [] => some []
  | 0, _ => none
  | n + 1, name :: r :: rest => do
    let nm ← Hex.decode name
    let (m, rest) ← parseGroups rest
    -- the `name` member inside the entry ("N" / "S<hex>") is not an input of the model: resolution is by KEY
    let rest ← (match rest with | _ :: r => some r | [] => none)
    let t ← parseEntries n rest
    pure ({ name := nm, regex := r == "1", m := m } :: t)
  | _, _ => none

def parseVNames : List String → Option (List VName)
  | [] => some []
  | name :: c :: _member :: rest => do
    let nm ← Hex.decode name
    let t ← parseVNames rest
    pure ({ name := nm, compiles := c == "1" } :: t)
  | _ => none

def fmtGroups : Option (List Bytes) → String
  | none => "N"
  | some gs => " ".intercalate (s!"M{gs.length}" :: gs.map Hex.encode)

def fmtRes : Res → String
  | .found n g => s!"found {Hex.encode n} {fmtGroups g}"
  | .errInvalid => "err invalid"
  | .errNotConfigured => "err notconf"

def parseRes (impl : String) : Option Res :=
  match words impl with
  | ["err", "invalid"] => some .errInvalid
  | ["err", "notconf"] => some .errNotConfigured
  | "found" :: n :: rest => do
    let nm ← Hex.decode n
    let (g, rest) ← parseGroups rest
    if rest.isEmpty then pure (.found nm g) else none
  | _ => none

def fmtVRes : VRes → String
  | .ok fl => "ok " ++ String.ofList (fl.map fun b => if b then '1' else '0')
  | .errAlias => "err alias"
  | .errName => "err name"
  | .errRegex => "err regex"

def step (_ : Unit) (op impl : String) : Unit × DrvOut :=
  match words op with
  | ["reset"] => ((), { model := "ok" })
  | "find" :: req :: n :: rest =>
    match Hex.decode req, n.toNat? with
    | some req, some n =>
      match parseEntries n rest with
      | some confs =>
        let m := find isort confs req
        let v := match parseRes impl with
          | some r => (spec confs req r).toStr
          | none => "FAIL implementation answer is not a resolution result: " ++ impl
        ((), { model := fmtRes m, spec := v })
      | none => ((), { model := "bad-op" })
    | _, _ => ((), { model := "bad-op" })
  | "validate" :: _n :: rest =>
    match parseVNames rest with
    | some names => ((), { model := fmtVRes (validateNames names) })
    | none => ((), { model := "bad-op" })
  | _ => ((), { model := "bad-op" })

def main (args : List String) : IO UInt32 := runDriver args () step
