import MtxVerif.Model.C23
import MtxVerif.Model.C22
open MtxVerif MtxVerif.C23

/-- codec families -/
inductive Fam where
  | h264      -- Lean packetiser + decoder
  | frag      -- Lean fragmenter + decoder (m4v, latm)
  | video     -- contract only, packetiser timestamp 0 (h265, av1, vp8, vp9, klv)
  | opus      -- Lean model of rtpEncoderOpus.encode: one RTP packet per Opus packet, timestamps = summed durations
  | audio     -- contract only, packets carry sample offsets inside the unit (g711, lpcm)
deriving DecidableEq

def famOf : String → Option Fam
  | "h264" => some .h264
  | "m4v" => some .frag
  | "latm" => some .frag
  | "h265" => some .video
  | "av1" => some .video
  | "vp8" => some .video
  | "vp9" => some .video
  | "klv" => some .video
  | "opus" => some .opus
  | "g711" => some .audio
  | "lpcm" => some .audio
  | _ => none

structure D where
  codec : String := ""
  fam : Fam := .video
  max : Nat := 0
  mode : String := ""
  sf : SF := {}
  /-- the encoder exists since `initialize`, but its random SSRC / sequence / offset were not observed yet -/
  pending : Bool := false
  p264 : C22.P264 := ⟨none, none⟩
  cfgM4V : Bytes := []
  valid : Bool := false
  /-- always-available histories: what the life-of-stream spec has seen so far -/
  life : Option LifeSt := none
  lifeVideo : Bool := false

abbrev Payload := List Bytes

def fmtPayload : Option Payload → String
  | none => "nil"
  | some l => if l.isEmpty then "empty" else ",".intercalate (l.map Hex.encode)

def parsePayload (s : String) : Option (Option Payload) :=
  if s == "nil" then some none
  else if s == "empty" then some (some [])
  else ((s.splitOn ",").mapM Hex.decode).map some

def fmtPkt (p : Pkt) : String := s!"{p.seq}:{p.ts}:{if p.marker then 1 else 0}:{Hex.encode p.payload}"

def fmtPkts (l : List Pkt) : String := if l.isEmpty then "-" else ";".intercalate (l.map fmtPkt)

def parsePkt (ssrc : Nat) (s : String) : Option Pkt :=
  match s.splitOn ":" with
  | [a, b, c, d] => do pure ⟨ssrc, (← a.toNat?), (← b.toNat?), c == "1", (← Hex.decode d)⟩
  | _ => none

structure Impl where
  ssrc : Nat
  pkts : List Pkt
  pl : Option Payload
  rt : String

def field (ws : List String) (k : String) : Option String :=
  (ws.find? (·.startsWith (k ++ "="))).map fun w => (w.drop (k.length + 1)).toString

def parseImpl (impl : String) : Option Impl := do
  let ws := words impl
  let ssrcS ← field ws "ssrc"
  let ssrc := ssrcS.toNat?.getD 0
  let pk ← field ws "pk"
  let pkts ← if pk == "-" then some [] else (pk.splitOn ";").mapM (parsePkt ssrc)
  let pl ← parsePayload (← field ws "pl")
  let rt ← field ws "rt"
  pure ⟨ssrc, pkts, pl, rt⟩

/-- remux model (C22) of the payload a non-RTP publisher writes -/
def remuxModel (d : D) (pl : Payload) : D × Option Payload :=
  match d.codec with
  | "h264" =>
    match C22.step264 d.p264 pl with
    | (p, .ok au) => ({ d with p264 := p }, if au.isEmpty then none else some au)
    | (_, .panic) => (d, none)
  | "m4v" =>
    match pl with
    | [f] => let r := C22.stepM4V d.cfgM4V f; ({ d with cfgM4V := r.1 }, if r.2.isEmpty then none else some [r.2])
    | _ => (d, some pl)
  | _ => (d, some pl)

def packModel (d : D) (pl : Payload) : Option (List Raw) :=
  match d.fam, pl with
  | .h264, au => h264Pack d.max au
  | .frag, [f] => some (fragPack d.max f)
  | .opus, l => some (opusPack l)
  | _, _ => none

/-- property spec for packets the server generated for one unit, evaluated on the implementation's answer -/
def checkGenerated (d : D) (e : EncSt) (off : Nat) (pts : Int) (im : Impl) : Option String :=
  let base := (off + u32 pts) % two32
  match im.pl with
  | none => if im.pkts.isEmpty then none else some "packets generated although the delivered payload is nil"
  | some pl =>
    if im.pkts.isEmpty then some "no packet generated for a non-nil payload"
    else if im.pkts.any (fun p => p.payload.length > d.max) then some "a generated payload exceeds the configured maximum"
    else if im.pkts.any (fun p => p.ssrc != e.ssrc) then some "SSRC of generated packets changed"
    else if !(im.pkts.zipIdx.all fun (p, i) => p.seq == (e.seq + i) % two16) then
      some "sequence numbers of generated packets are not consecutive (within the unit or w.r.t. the previous unit)"
    else if d.fam == .opus && !((im.pkts.zip (opusPack pl)).all fun (p, r) => p.ts == (base + r.dts) % two32) then
      some "a packet of a multi-packet Opus unit does not carry unit timestamp + fixed offset + the durations of the packets before it"
    else if d.fam != .audio && d.fam != .opus && im.pkts.any (fun p => p.ts != base) then
      some "a generated packet does not carry unit timestamp + fixed offset"
    else if d.fam == .audio && (im.pkts.head?.map (·.ts)) != some base then
      some "first generated packet does not carry unit timestamp + fixed offset"
    else
      match d.fam with
      | .h264 =>
        match (h264DecodeAll {} im.pkts).2 with
        | .out au => if au == pl then none else some "depacketizing (Lean rtph264 decoder) does not yield the delivered unit"
        | _ => some "depacketizing (Lean rtph264 decoder) fails on the generated packets"
      | .frag =>
        match (fragDecodeAll {} im.pkts).2 with
        | .out f => if [f] == pl then none else some "depacketizing (Lean rtpfragmented decoder) does not yield the delivered frame"
        | _ => some "depacketizing (Lean rtpfragmented decoder) fails on the generated packets"
      | .opus =>
        if opusUnpack (im.pkts.map fun p => { marker := p.marker, payload := p.payload }) == some pl then none
        else some "the RTP packets of an Opus unit are not its Opus packets, one per packet and in order"
      | _ =>
        -- contract-only families: the round trip through the repository's rtpDecoder is a TEST done by the harness
        if im.rt == "1" then none
        else if d.codec == "av1" && av1NoRoom d.max pl then
          some "KNOWN av1NoRoomContinuation gortsplib rtpav1.Encoder closes a packet with the continuation flag although no byte of the next OBU fitted into it; the depacketiser glues that OBU to the previous one"
        else some "round trip through the repository's RTP decoder failed (tested contract)"

/-- the model's packets for a known encoder state -/
def predict (d : D) (e : EncSt) (off : Nat) (pts : Int) (pl : Payload) : Option (List Pkt) :=
  (packModel d pl).map fun raws => (number e.ssrc e.seq raws).map (stamp off pts)

def verdict (o : Option String) : String :=
  match o with
  | none => "ok"
  | some m => if m.startsWith "KNOWN " then m else "FAIL " ++ m

/-- common tail of `u` and `r`: an encoder exists (state `e`, `off`); `plIn` = model's delivered payload if known -/
def generated (d : D) (e : EncSt) (off : Nat) (pts : Int) (im : Impl) (plModel : Option (Option Payload)) :
    D × DrvOut :=
  let v := checkGenerated d e off pts im
  let v := match v, plModel with
    | none, some m => if m != im.pl then some "delivered payload is not the remuxed written payload" else none
    | v, _ => v
  let n := im.pkts.length
  let d' := { d with sf := { enc := some ⟨e.ssrc, (e.seq + n) % two16⟩, timeOffset := off }, pending := false }
  let model :=
    match im.pl with
    | none => "ssrc=- pk=- pl=nil rt=-"
    | some pl =>
      match predict d e off pts pl with
      | some pk => s!"ssrc={e.ssrc} pk={fmtPkts pk} pl={fmtPayload (some pl)} rt=1"
      | none => "-"
  (d', { model := if d.pending then "-" else model, spec := verdict v })

def parseLifePkt (p : String) : Option (Nat × Nat × Nat) :=
  match p.splitOn ":" with
  | [a, b, c] => do pure ((← a.toNat?), (← b.toNat?), (← c.toNat?))
  | _ => none

def parseLifeUnit (u : String) : Option (Int × Nat × List (Nat × Nat × Nat)) :=
  match u.splitOn "," with
  | [pts, ssrc, pk] => do
    let pkts ← (if pk == "-" then some [] else (pk.splitOn "/").mapM parseLifePkt)
    pure ((← pts.toInt?), (← ssrc.toNat?), pkts)
  | _ => none

/-- `un=<pts>,<ssrc>,<seq>:<ts>:<len>/<seq>:<ts>:<len>|<unit>…` (or `un=-`) -/
def parseLifeUnits (impl : String) : Option (List (Int × Nat × List (Nat × Nat × Nat))) :=
  if !impl.startsWith "un=" then none
  else
    let body := (impl.drop 3).toString
    if body == "-" then some [] else (body.splitOn "|").mapM parseLifeUnit

/-- always-available ops: the model does not predict (filler units are paced by the wall clock); the
life-of-stream spec is evaluated on every unit the reader received -/
def stepLife (d : D) (impl : String) : D × DrvOut :=
  -- an op that makes no sense at this point of the history (only produced by the shrinker) is not a finding
  if impl == "bad-op" then (d, { model := "bad-op" }) else
  match parseLifeUnits impl with
  | none => (d, { model := "-", spec := "FAIL unparsable implementation answer: " ++ (impl.take 80).toString })
  | some units =>
    let rec go (st : Option LifeSt) : List (Int × Nat × List (Nat × Nat × Nat)) → Except String (Option LifeSt)
      | [] => .ok st
      | (pts, ssrc, pk) :: rest =>
        match lifeUnit d.max d.lifeVideo st pts ssrc pk with
        | .ok st' => go st' rest
        | .error e => .error e
    match go d.life units with
    | .ok st => ({ d with life := st }, { model := "-" })
    | .error e => (d, { model := "-", spec := "FAIL " ++ e })

def step (d : D) (op impl : String) : D × DrvOut :=
  match words op with
  | ["reset", codec, max, "aa"] =>
    match max.toNat? with
    | some max => ({ codec, max, mode := "aa", valid := true, lifeVideo := codec == "h264" }, { model := "ok" })
    | none => ({}, { model := "bad-op" })
  | ["final"] =>
    -- every unit handed to the reader was retained (not copied) by the harness; its packets are re-read now
    (d, { model := "same", spec := if impl == "same" then "ok"
      else "FAIL the RTP packets handed to a reader for an earlier unit were modified afterwards (" ++ (impl.take 120).toString ++ ")" })
  | "aafill" :: _ => stepLife d impl
  | ["aapub"] => stepLife d impl
  | ["aaoff"] => stepLife d impl
  | "aau" :: _ => stepLife d impl
  | ["reset", codec, max, mode] =>
    match famOf codec, max.toNat? with
    | some fam, some max =>
      ({ codec, fam, max, mode, valid := true, pending := mode != "rtp" }, { model := "ok" })
    | _, _ => ({}, { model := "bad-op" })
  | ["u", pts, payload] =>
    match d.valid, pts.toInt?, parsePayload payload, parseImpl impl with
    | true, some pts, some (some pl), some im =>
      let (d1, plM) := remuxModel d pl
      -- the encoder exists since initialize; adopt its random values from the first packet seen
      match d1.sf.enc, im.pkts.head? with
      | some e, _ => generated d1 e d1.sf.timeOffset pts im (some plM)
      | none, some p0 =>
        let off := (p0.ts + two32 - u32 pts) % two32
        generated d1 ⟨p0.ssrc, p0.seq⟩ off pts im (some plM)
      | none, none =>
        -- nothing generated yet: only legal if the delivered payload is nil
        (d1, { model := "-", spec := if im.pl.isNone && plM.isNone then "ok"
          else if plM != im.pl then "FAIL delivered payload is not the remuxed written payload"
          else "FAIL no packet generated for a non-nil payload" })
    | true, _, _, none => (d, { model := "-", spec := "FAIL unparsable implementation answer: " ++ (impl.take 80).toString })
    | _, _, _, _ => (d, { model := "bad-op" })
  | ["r", pts, seq, ts, ssrc, marker, payload] =>
    match d.valid, pts.toInt?, seq.toNat?, ts.toNat?, ssrc.toNat?, Hex.decode payload, parseImpl impl with
    | true, some pts, some seq, some ts, some ssrc, some pay, some im =>
      let inp : Pkt := ⟨ssrc, seq, ts, marker == "1", pay⟩
      if d.pending then
        -- forced remux: the encoder exists since initialize
        match im.pkts.head? with
        | some p0 => generated d ⟨p0.ssrc, p0.seq⟩ ((p0.ts + two32 - u32 pts) % two32) pts im none
        | none => (d, { model := "-", spec := if im.pl.isNone then "ok" else "FAIL no packet generated for a non-nil payload" })
      else
        match trigger { max := d.max } d.sf pts [inp] with
        | .error _ => (d, { model := "-", spec := "FAIL model: encoder not available" })
        | .ok s1 =>
          match s1.enc with
          | none =>
            -- pass-through: the publisher's packet must be handed on untouched
            let ok := im.pkts == [inp]
            (d, { model := s!"ssrc={ssrc} pk={fmtPkts [inp]} pl={fmtPayload im.pl} rt=-",
                  spec := if ok then "ok" else "FAIL publisher packet within the maximum was not passed on unchanged" })
          | some e => generated { d with sf := s1 } e s1.timeOffset pts im none
    | true, _, _, _, _, _, none => (d, { model := "-", spec := "FAIL unparsable implementation answer: " ++ (impl.take 80).toString })
    | _, _, _, _, _, _, _ => (d, { model := "bad-op" })
  | _ => (d, { model := "bad-op" })

def main (args : List String) : IO UInt32 := runDriver args ({} : D) step
