import MtxVerif.Model.C43
open MtxVerif MtxVerif.C43

/-!
ops (byte strings hex, `-` = empty):

  reset <cdnSecret> <trusted proxies, comma separated>
  create <urldir> <dir> <known> <host> <clientip> <q|c|n> <nhdr> <hdr>*n <auth> <xff>
      (`clientip` = the client IP the server is configured to believe: oracle column computed from the peer
       address, X-Forwarded-For and the trusted proxies, independently of the hls package)
      answer `<ok|denied|notfound|redirect> new=<k|-> n=<sessions> cdn=<cdn sessions>`
  probe <kind> <urldir> <dir> <host> <clientip> <cookie designator> <query designator> <nhdr> <hdr>*n <xff>
      answer `<served|denied> ck=<none|bad|unk|k> qk=<bad|unk|k> n=… cdn=…`
      (`ck`/`qk` are oracle columns produced at run time — the secrets are random — and echoed by the model)
  kick <k>          answer `<ok|notfound> n=… cdn=…`
  closemux <dir>    answer `<ok|nomux> n=… cdn=…`
-/

structure D where
  st : St := init []
  led : Ledger := []

def cnt (st : St) : String := s!"n={st.sessions.length} cdn={st.cdn.length}"

def bit (s : String) : Option Bool :=
  if s == "1" then some true else if s == "0" then some false else none

def parseHdrs : List String → Option (List Bytes × List String)
  | n :: rest => do
    let n ← n.toNat?
    let hs ← (rest.take n).mapM Hex.decode
    if hs.length != n then none else pure (hs, rest.drop n)
  | [] => none

def parseRef (s : String) : Option SRef :=
  if s == "bad" then some .bad else if s == "unk" then some .unk else (s.toNat?).map .sess

/-- value of `key=` in a space separated answer -/
def field (key : String) (impl : String) : Option String :=
  (words impl).findSome? fun w => if w.startsWith (key ++ "=") then some ((w.drop (key.length + 1)).toString) else none

def stepCreate (d : D) (args : List String) (impl : String) : D × DrvOut :=
  match args with
  | _urldir :: dir :: known :: _host :: cip :: cc :: rest =>
    match Hex.decode dir, bit known, Hex.decode cip, parseHdrs rest with
    | some dir, some known, some cip, some (hdrs, [auth, _xff]) =>
      match bit auth, (if cc == "q" then some CC.query else if cc == "c" then some CC.cookie
          else if cc == "n" then some CC.none else none) with
      | some auth, some cc =>
        let c : Create := { dir := dir, ip := cip, known := known, cc := cc, hdrs := hdrs, auth := auth }
        let (st', out) := create d.st c
        let ans := match out with
          | .okNew k => s!"ok new={k}"
          | .okCdn => "ok new=-"
          | .denied => "denied new=-"
          | .notfound => "notfound new=-"
          | .redirect => "redirect new=-"
        -- spec on the implementation's answer: a session may only come from an authorized request
        let (led', verdict) :=
          match field "new" impl with
          | some "-" => (d.led, "ok")
          | some w =>
            match w.toNat? with
            | some k =>
              if specCreateOk d.st.cdnSecret c then ((k, dir, cip) :: d.led, "ok")
              else ((k, dir, cip) :: d.led, "FAIL a session was created by a request that was not authorized to read the path")
            | none => (d.led, "FAIL unparsable implementation answer")
          | none => (d.led, "FAIL unparsable implementation answer")
        ({ st := st', led := led' }, { model := ans ++ " " ++ cnt st', spec := verdict })
      | _, _ => (d, { model := "bad-op" })
    | _, _, _, _ => (d, { model := "bad-op" })
  | _ => (d, { model := "bad-op" })

def stepProbe (d : D) (args : List String) (impl : String) : D × DrvOut :=
  match args with
  | _kind :: _urldir :: dir :: _host :: cip :: _cookie :: _query :: rest =>
    match Hex.decode dir, Hex.decode cip, parseHdrs rest with
    | some dir, some cip, some (hdrs, [_xff]) =>
      match field "ck" impl, field "qk" impl with
      | some ck, some qk =>
        let cookie : Option (Option SRef) := if ck == "none" then some none else (parseRef ck).map some
        match cookie, parseRef qk with
        | some cookie, some query =>
          let p : Probe := { dir := dir, ip := cip, cookie := cookie, query := query, hdrs := hdrs }
          let ans := if serve d.st p then "served" else "denied"
          let verdict :=
            match (words impl).head? with
            | some "denied" => "ok"
            | some "served" =>
              if specServeOk d.st.cdnSecret d.led p then "ok"
              else "FAIL media served to a request carrying neither the CDN secret nor the secret of a session created for this path from this IP"
            | _ => "FAIL unparsable implementation answer"
          (d, { model := s!"{ans} ck={ck} qk={qk} {cnt d.st}", spec := verdict })
        | _, _ => (d, { model := "bad-impl oracle columns" })
      | _, _ => (d, { model := "bad-impl oracle columns missing" })
    | _, _, _ => (d, { model := "bad-op" })
  | _ => (d, { model := "bad-op" })

def step (d : D) (op impl : String) : D × DrvOut :=
  match words op with
  | ["reset", sec, _trusted] =>
    match Hex.decode sec with
    | some sec => ({ st := init sec, led := [] }, { model := "ok" })
    | none => (d, { model := "bad-op" })
  | "create" :: args => stepCreate d args impl
  | "probe" :: args => stepProbe d args impl
  | ["kick", k] =>
    match k.toNat? with
    | some k =>
      let (st', ok) := kick d.st k
      ({ d with st := st' }, { model := (if ok then "ok " else "notfound ") ++ cnt st' })
    | none => (d, { model := "bad-op" })
  | ["closemux", dir] =>
    match Hex.decode dir with
    | some dir =>
      let (st', ok) := closeMux d.st dir
      ({ d with st := st' }, { model := (if ok then "ok " else "nomux ") ++ cnt st' })
    | none => (d, { model := "bad-op" })
  | _ => (d, { model := "bad-op" })

def main (args : List String) : IO UInt32 := runDriver args ({} : D) step
