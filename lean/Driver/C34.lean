import MtxVerif.Model.C34
open MtxVerif MtxVerif.C34

/-!
ops (byte strings hex, `-` = empty):

  srt  <raw>                                                   raw stream id (hostile stream)
  srtc <pub> <path> <hasCreds> <user> <pass> <hasQ> <query> <fb> <raw>
                                                               custom-syntax descriptor, `raw` = its rendering
                                                               (+ `#feedbackplay` if fb = 1)
  srts <n> (<key> <value>)*n <raw>                             standard-syntax key/value list, `raw` = rendering
      answer: `ok <r|p> <path> <query> <user> <pass>` | `err invalid|mode|format`

  whiprt <n> (<nurls> <url> <user> <s|n> <cred>)*n             marshal, then unmarshal what was written
      answer: `hdrs <n> <hdr>*n back (ok <n> (<url> <user> <cred|nil> <ctype>)*n | err)` | `panic`
  whipu <n> <hdr>*n                                            unmarshal raw header values
      answer: `ok <n> (<url> <user> <cred|nil> <ctype>)*n` | `err`

  http <kind> <pos> <a> <b> <n> <hdr>*n <b64ok> <b64dec>       kind none|basic|bup|btok = what the headers were
                                                               rendered from (a, b = user/pass or token)
      answer: `<user> <pass> <token>`
  rtsp <n> <hdr>*n <ok> <basic> <user> <pass>                  oracle columns = gortsplib's parse
      answer: `<user> <pass> <token>`
-/

def hx (b : Bytes) : String := Hex.encode b

def fmtRes : Res → String
  | .ok s => s!"ok {if s.publish then "p" else "r"} {hx s.path} {hx s.query} {hx s.user} {hx s.pass}"
  | .err .invalidValue => "err invalid"
  | .err .badMode => "err mode"
  | .err .format => "err format"

def fmtCreds (c : Creds) : String := s!"{hx c.user} {hx c.pass} {hx c.token}"

def fmtOut (o : IceOut) : String :=
  s!"{hx o.url} {hx o.user} {match o.cred with | some c => hx c | none => "nil"} 0"

def fmtOuts (l : List IceOut) : String :=
  " ".intercalate (s!"ok {l.length}" :: l.map fmtOut)

def fmtBack : Option (List IceOut) → String
  | some l => fmtOuts l
  | none => "err"

def decodeAll : List String → Option (List Bytes)
  | [] => some []
  | x :: r => do
    let a ← Hex.decode x
    let t ← decodeAll r
    pure (a :: t)

def bit (s : String) : Option Bool :=
  if s == "1" then some true else if s == "0" then some false else none

def parseKVs : Nat → List String → Option (List (Bytes × Bytes) × List String)
  | 0, rest => some ([], rest)
  | n + 1, k :: v :: rest => do
    let k ← Hex.decode k
    let v ← Hex.decode v
    let (t, rest) ← parseKVs n rest
    pure ((k, v) :: t, rest)
  | _, _ => none

def parseIce : Nat → List String → Option (List IceIn × List String)
  | 0, rest => some ([], rest)
  | n + 1, nu :: url :: user :: ck :: cred :: rest => do
    let nu ← nu.toNat?
    let url ← Hex.decode url
    let user ← Hex.decode user
    let cred ← Hex.decode cred
    let (t, rest) ← parseIce n rest
    let urls := match nu with
      | 0 => []
      | 1 => [url]
      | _ => [url, strBytes "stun:second"]
    pure (⟨urls, user, if ck == "s" then some cred else none⟩ :: t, rest)
  | _, _ => none

/-- significant keys of the standard syntax occur at most once -/
def noDupSig (kvs : List (Bytes × Bytes)) : Bool :=
  [[117], [114], [115], [109]].all fun k => (kvs.filter (fun kv => kv.1 == k)).length ≤ 1

def verdict (demand : Bool) (expected impl what : String) : String :=
  if !demand then "ok"
  else if impl == expected then "ok"
  else s!"FAIL {what}: expected {expected}"

def stepSrtc (args : List String) (impl : String) : DrvOut :=
  match args with
  | [pub, path, hc, user, pass, hq, query, fb, raw] =>
    match bit pub, Hex.decode path, bit hc, Hex.decode user, Hex.decode pass, bit hq, Hex.decode query,
      bit fb, Hex.decode raw with
    | some pub, some path, some hc, some user, some pass, some hq, some query, some fb, some raw =>
      let d : CDesc := ⟨pub, path, if hc then some (user, pass) else none, if hq then some query else none⟩
      let want := if fb then d.render ++ kFeedback else d.render
      if raw != want then { model := "bad-op rendering differs" }
      else
        let demand := d.sepFree && (fb || !kFeedback.isSuffixOf d.last)
        { model := fmtRes (unmarshal raw),
          spec := verdict demand (fmtRes (.ok d.sid)) impl
            "custom-syntax stream id did not yield exactly its action, path, credentials and query" }
    | _, _, _, _, _, _, _, _, _ => { model := "bad-op" }
  | _ => { model := "bad-op" }

def stepSrts (args : List String) (impl : String) : DrvOut :=
  match args with
  | n :: rest =>
    match n.toNat? with
    | some n =>
      match parseKVs n rest with
      | some (kvs, [raw]) =>
        match Hex.decode raw with
        | some raw =>
          if raw != renderStd kvs then { model := "bad-op rendering differs" }
          else
            let demand := kvs.length ≥ 1 && stdSepFree kvs && noDupSig kvs
            { model := fmtRes (unmarshal raw),
              spec := verdict demand (fmtRes (applyAll {} kvs)) impl
                "standard-syntax stream id did not yield exactly its mode, path and credentials" }
        | none => { model := "bad-op" }
      | _ => { model := "bad-op" }
    | none => { model := "bad-op" }
  | _ => { model := "bad-op" }

def stepWhiprt (args : List String) (impl : String) : DrvOut :=
  match args with
  | n :: rest =>
    match n.toNat? with
    | some n =>
      match parseIce n rest with
      | some (l, []) =>
        let model :=
          match marshal l with
          | none => "panic"
          | some hs =>
            " ".intercalate (s!"hdrs {hs.length}" :: hs.map hx) ++ " back " ++ fmtBack (unmarshalL hs)
        -- property: whatever was written is read back unchanged
        let demand := l.all IceIn.wf
        let expected := "back " ++ fmtOuts (l.map IceIn.back)
        let got := match impl.splitOn " back " with
          | [_, b] => "back " ++ b
          | _ => impl
        { model := model,
          spec := verdict demand expected got
            "ICE server credentials written into the Link header were not read back unchanged" }
      | _ => { model := "bad-op" }
    | none => { model := "bad-op" }
  | _ => { model := "bad-op" }

def stepWhipu (args : List String) : DrvOut :=
  match args with
  | n :: rest =>
    match n.toNat?, decodeAll rest with
    | some n, some hs =>
      if hs.length != n then { model := "bad-op" } else { model := fmtBack (unmarshalL hs) }
    | _, _ => { model := "bad-op" }
  | _ => { model := "bad-op" }

def notBearer (h : Bytes) : Bool := !kBearer.isPrefixOf h

def stepHttp (args : List String) (impl : String) : DrvOut :=
  match args with
  | kind :: pos :: a :: b :: n :: rest =>
    match pos.toNat?, Hex.decode a, Hex.decode b, n.toNat? with
    | some pos, some a, some b, some n =>
      let hs := rest.take n
      match decodeAll hs, rest.drop n with
      | some hdrs, [ok, dec] =>
        match bit ok, Hex.decode dec with
        | some ok, some dec =>
          if hdrs.length != n then { model := "bad-op" } else
          let b64 := if ok then some dec else none
          let model := fmtCreds (credentials hdrs b64)
          let what := "Authorization header did not yield exactly its credentials"
          -- which of a Basic and a Bearer value wins is modelled (diff) but not demanded by the property
          let noBasic := hdrs.all fun h => !hasBasicPrefix h
          match kind with
          | "none" => { model := model }
          | "basic" =>
            -- rendered from user a / password b: first value `Basic ` + base64(a:b), no Bearer value
            let valid := hdrs.all notBearer && (match hdrs with | h :: _ => hasBasicPrefix h | [] => false)
              && b64 == some (a ++ 58 :: b)
            if !valid then { model := "bad-op intent" } else
            { model := model, spec := verdict (noByte 58 a) (fmtCreds { user := a, pass := b }) impl what }
          | "bup" =>
            let valid := (hdrs.take pos).all notBearer && hdrs[pos]? == some (kBearer ++ (a ++ 58 :: b))
            if !valid then { model := "bad-op intent" } else
            { model := model,
              spec := verdict (noBasic && noByte 58 a && noByte 58 b) (fmtCreds { user := a, pass := b }) impl what }
          | "btok" =>
            let valid := (hdrs.take pos).all notBearer && hdrs[pos]? == some (kBearer ++ a)
            if !valid then { model := "bad-op intent" } else
            { model := model, spec := verdict (noBasic && countB 58 a != 1) (fmtCreds { token := a }) impl what }
          | _ => { model := "bad-op" }
        | _, _ => { model := "bad-op" }
      | _, _ => { model := "bad-op" }
    | _, _, _, _ => { model := "bad-op" }
  | _ => { model := "bad-op" }

def stepRtsp (args : List String) (impl : String) : DrvOut :=
  match args with
  | n :: rest =>
    match n.toNat? with
    | some n =>
      match rest.drop n with
      | [ok, basic, user, pass] =>
        match bit ok, bit basic, Hex.decode user, Hex.decode pass with
        | some ok, some basic, some user, some pass =>
          let m := fmtCreds (rtspCredentials ⟨ok, basic, user, pass⟩)
          { model := m,
            spec := verdict true m impl "RTSP credentials differ from the parsed Authorization header" }
        | _, _, _, _ => { model := "bad-op" }
      | _ => { model := "bad-op" }
    | none => { model := "bad-op" }
  | _ => { model := "bad-op" }

def step (_ : Unit) (op impl : String) : Unit × DrvOut :=
  match words op with
  | ["srt", raw] =>
    match Hex.decode raw with
    | some raw => ((), { model := fmtRes (unmarshal raw) })
    | none => ((), { model := "bad-op" })
  | "srtc" :: args => ((), stepSrtc args impl)
  | "srts" :: args => ((), stepSrts args impl)
  | "whiprt" :: args => ((), stepWhiprt args impl)
  | "whipu" :: args => ((), stepWhipu args)
  | "http" :: args => ((), stepHttp args impl)
  | "rtsp" :: args => ((), stepRtsp args impl)
  | _ => ((), { model := "bad-op" })

def main (args : List String) : IO UInt32 := runDriver args () step
